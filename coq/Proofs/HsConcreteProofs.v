(* HsConcreteProofs.v — the concrete interpretation of the handshake duplex on the Cyclist model:
   step lemmas, duplex_ok discharged, md preservation, concrete readers = symbolic readers under concO. *)
From Hop Require Import Base Keccak Cyclist CyclistProofs Handshake HsConcrete HandshakeProofs HsBindingProofs HsHonestProofs.
From Coq Require Import ZifyN ZifyNat ZifyBool.
Open Scope N_scope.
Local Arguments N.add : simpl never.
Local Arguments N.mul : simpl never.
Local Opaque N.add N.mul.

Section Conc.
Variable f : bytes -> bytes.

(* ------------------------------------------------------------------ the mode is stable *)
Lemma md_down : forall c x cd, md (cy_down c x cd) = md c. Proof. reflexivity. Qed.
Lemma md_up : forall c cu, md (cy_up f c cu) = md c. Proof. reflexivity. Qed.

Lemma md_absorb_blocks : forall bl c cd, md (absorb_blocks f c bl cd) = md c.
Proof.
  induction bl as [|b bl IH]; intros c cd; cbn [absorb_blocks]; auto.
  rewrite IH, md_down. destruct (ph c); auto.
Qed.
Lemma md_absorb_any : forall c x r cd, md (absorb_any f c x r cd) = md c.
Proof. intros. apply md_absorb_blocks. Qed.
Lemma md_absorb : forall c x, md (cy_absorb f c x) = md c.
Proof. intros. apply md_absorb_any. Qed.

Lemma md_crypt_blocks : forall d bl c cu, md (snd (crypt_blocks f d c bl cu)) = md c.
Proof.
  induction bl as [|b bl IH]; intros c cu; [reflexivity|].
  rewrite crypt_blocks_cons. cbn [snd]. rewrite IH, md_down, md_up. reflexivity.
Qed.
Lemma md_crypt : forall d c i, md (snd (crypt f d c i)) = md c.
Proof.
  intros. unfold crypt. pose proof (md_crypt_blocks d (cy_blocks cy_rKout i) c 128) as H.
  destruct (crypt_blocks f d c (cy_blocks cy_rKout i) 128). exact H.
Qed.

Lemma md_squeeze_more : forall fuel c n, md (snd (squeeze_more f fuel c n)) = md c.
Proof.
  induction fuel as [|k IH]; intros c n; [reflexivity|].
  cbn [squeeze_more]. destruct n; [reflexivity|].
  specialize (IH (cy_up f (cy_down c [] 0) 0) (S n - Nat.min (S n) (r_sq c))%nat).
  destruct (squeeze_more f k _ _). cbn [snd] in *. rewrite IH, md_up, md_down. reflexivity.
Qed.
Lemma md_squeeze_any : forall c n cu, md (snd (squeeze_any f c n cu)) = md c.
Proof.
  intros. unfold squeeze_any.
  pose proof (md_squeeze_more (n - Nat.min n (r_sq c)) (cy_up f c cu) (n - Nat.min n (r_sq c))) as H.
  destruct (squeeze_more f _ _ _). cbn [snd] in *. rewrite H, md_up. reflexivity.
Qed.
Lemma md_squeeze : forall c n, md (snd (cy_squeeze f c n)) = md c.
Proof. intros. apply md_squeeze_any. Qed.

(* ------------------------------------------------------------------ step lemmas: the symbolic operations
   under concO are the Cyclist calls on the object of the transcript *)
Lemma conc_absorb_step : forall T c x, cy_of f T = Ok c -> cy_of f (absorb T x) = Ok (cy_absorb f c x).
Proof. intros T c x H. unfold absorb. cbn [cy_of]. rewrite H. reflexivity. Qed.

Lemma conc_squeeze_step : forall T c n, cy_of f T = Ok c ->
  squeeze (concO f) T n = (fst (cy_squeeze f c (N.to_nat n)), OSqueeze n :: T) /\
  cy_of f (OSqueeze n :: T) = Ok (snd (cy_squeeze f c (N.to_nat n))).
Proof.
  intros T c n H. unfold squeeze, concO, conc_sq. cbn [o_sq cy_of]. rewrite H. cbn [bind]. auto.
Qed.

Lemma crypt_back : forall c ct, crypt f false c (fst (crypt f true c ct)) = (ct, snd (crypt f true c ct)).
Proof.
  intros. destruct (crypt f true c ct) as [p c1] eqn:E. cbn [fst snd].
  apply (crypt_inv f true c ct p c1) in E. exact E.
Qed.

Lemma conc_decrypt_step : forall T c ct, cy_of f T = Ok c -> md c = MKey ->
  decrypt (concO f) T ct = (fst (crypt f true c ct), OCrypt (fst (crypt f true c ct)) :: T) /\
  cy_of f (OCrypt (fst (crypt f true c ct)) :: T) = Ok (snd (crypt f true c ct)).
Proof.
  intros T c ct H K. unfold decrypt, concO, conc_dec. cbn [o_dec cy_of]. rewrite H. cbn [bind].
  unfold cy_decrypt, cy_encrypt. rewrite K.
  destruct (crypt f true c ct) as [p c1] eqn:E. cbn [fst snd]. split; auto.
  pose proof (crypt_back c ct) as B. rewrite E in B. cbn [fst snd] in B. rewrite B. reflexivity.
Qed.

Lemma conc_encrypt_step : forall T c p, cy_of f T = Ok c -> md c = MKey ->
  encrypt (concO f) T p = (fst (crypt f false c p), OCrypt p :: T) /\
  cy_of f (OCrypt p :: T) = Ok (snd (crypt f false c p)).
Proof.
  intros T c p H K. unfold encrypt, concO, conc_enc. cbn [o_enc cy_of]. rewrite H. cbn [bind].
  unfold cy_encrypt. rewrite K. destruct (crypt f false c p). auto.
Qed.

(* ------------------------------------------------------------------ duplex_ok discharged *)
Section Len.
Hypothesis f_len : forall s, List.length (f s) = cy_fB.

Lemma cy_of_wf : forall T c, cy_of f T = Ok c -> cy_wf c.
Proof.
  induction T as [|o T IH]; intros c H.
  - injection H as <-. apply empty_wf.
  - destruct o; cbn [cy_of] in H.
    + injection H as <-. apply empty_wf.
    + eapply initialize_wf; eauto.
    + destruct (cy_of f T) as [c0| |]; try discriminate. cbn [bind] in H. injection H as <-.
      eapply (step_wf f f_len c0 (CAbsorb x)); [apply IH; reflexivity | reflexivity].
    + destruct (cy_of f T) as [c0| |]; try discriminate. cbn [bind] in H.
      destruct (cy_encrypt f c0 pt) as [[ct c1]| |] eqn:E; try discriminate. injection H as <-.
      eapply (step_wf f f_len c0 (CEncrypt pt)); [apply IH; reflexivity | exact E].
    + destruct (cy_of f T) as [c0| |]; try discriminate. cbn [bind] in H. injection H as <-.
      destruct (cy_squeeze f c0 (N.to_nat n)) as [y c1] eqn:Es. cbn [snd].
      eapply (step_wf f f_len c0 (CSqueeze (N.to_nat n)) y c1); [apply IH; reflexivity|].
      cbn [cy_step]. rewrite Es. reflexivity.
    + destruct (cy_of f T) as [c0| |]; try discriminate. cbn [bind] in H.
      eapply (step_wf f f_len c0 CRatchet []); [apply IH; reflexivity|]. cbn [cy_step]. rewrite H. reflexivity.
Qed.

Theorem concO_duplex_ok : duplex_ok (concO f).
Proof.
  split.
  - intros T n. cbn [o_sq concO]. unfold conc_sq.
    destruct (cy_of f T) as [c| |] eqn:E; unfold len.
    + pose proof (squeeze_any_spec f f_len c (N.to_nat n) 64 (cy_of_wf T c E)) as [L _].
      unfold cy_squeeze. rewrite L. apply N2Nat.id.
    + rewrite repeat_length. apply N2Nat.id.
    + rewrite repeat_length. apply N2Nat.id.
  - intros T p. cbn [o_enc concO]. unfold conc_enc.
    destruct (cy_of f T) as [c| |]; auto. unfold cy_encrypt. destruct (md c); auto.
    pose proof (crypt_length f false c p) as L. destruct (crypt f false c p). cbn [fst] in L. unfold len. rewrite L. reflexivity.
  - intros T p. cbn [o_enc o_dec concO]. unfold conc_enc, conc_dec.
    destruct (cy_of f T) as [c| |]; auto.
    unfold cy_encrypt, cy_decrypt. destruct (md c) eqn:K; auto.
    destruct (crypt f false c p) as [ct c1] eqn:E.
    apply (crypt_inv f false c p ct c1) in E. cbn [negb] in E. rewrite E. reflexivity.
Qed.
End Len.

(* the decryption of the concrete oracle is injective in the ciphertext where the object exists in
   keyed mode (crypt_injective restricted to the transcripts the handshake reaches) *)
Lemma conc_dec_injective : forall T c ct ct', cy_of f T = Ok c -> md c = MKey ->
  conc_dec f T ct = conc_dec f T ct' -> ct = ct'.
Proof.
  intros T c ct ct' H K E. unfold conc_dec in E. rewrite H in E. unfold cy_decrypt in E. rewrite K in E.
  pose proof (crypt_back c ct) as B. pose proof (crypt_back c ct') as B'.
  destruct (crypt f true c ct) as [p c1]. destruct (crypt f true c ct') as [p' c1']. cbn [fst snd] in *.
  subst p'. rewrite B in B'. injection B' as ->. reflexivity.
Qed.

(* ------------------------------------------------------------------ initialisation gives a keyed object *)
Lemma initialize_keyed : forall k id, k <> [] -> (List.length k + List.length id < cy_rKin)%nat ->
  exists c, cy_initialize f k id [] = Ok c /\ md c = MKey.
Proof.
  intros k id Hk Hl. unfold cy_initialize. destruct k as [|a k]; [congruence|].
  unfold absorb_key. destruct (cy_rKin <=? _)%nat eqn:E; [apply Nat.leb_le in E; lia|].
  eexists. split; [reflexivity|]. rewrite md_absorb_any. reflexivity.
Qed.

(* ------------------------------------------------------------------ concrete readers = symbolic readers under concO *)
Lemma c_decrypt_certs_keyed : forall c ct, md c = MKey ->
  c_decrypt_certs f c ct = Ok (snd (crypt f true c ct), certs_of (fst (crypt f true c ct)) (len ct)).
Proof.
  intros c ct K. unfold c_decrypt_certs, cy_decrypt. rewrite K. destruct (crypt f true c ct). reflexivity.
Qed.

Theorem read_server_auth_concrete : forall X ce pol T c b,
  cy_of f T = Ok c -> md c = MKey ->
  exists c', c_read_server_auth f X ce pol c b = Ok (c', snd (read_server_auth (concO f) X ce pol T b)) /\
             cy_of f (fst (read_server_auth (concO f) X ce pol T b)) = Ok c'.
Proof.
  intros X ce pol T c b H K.
  unfold read_server_auth, c_read_server_auth.
  destruct (len b <? SAMinLen); [cbn; eauto|].
  destruct (negb (at_ b 0 =? MT_ServerAuth)); [cbn; eauto|].
  destruct (negb (at_ b 1 =? 0)); [cbn; eauto|].
  cbv zeta.
  destruct (len b <? SAMinLen + (at_ b 2 * 256 + at_ b 3)); [cbn; eauto|].
  pose proof (conc_absorb_step _ _ (take HeaderLen b) H) as H1.
  pose proof (conc_absorb_step _ _ (slice b HeaderLen SessionIDLen) H1) as H2.
  pose proof (conc_absorb_step _ _ (slice b (HeaderLen + SessionIDLen) DHLen) H2) as H3.
  destruct (x_dh X ce (slice b (HeaderLen + SessionIDLen) DHLen)) as [ee|]; [|cbn; eauto].
  pose proof (conc_absorb_step _ _ ee H3) as H4.
  set (c4 := cy_absorb f (cy_absorb f (cy_absorb f (cy_absorb f c (take HeaderLen b)) (slice b HeaderLen SessionIDLen))
                            (slice b (HeaderLen + SessionIDLen) DHLen)) ee) in *.
  assert (K4 : md c4 = MKey) by (unfold c4; rewrite !md_absorb; exact K).
  rewrite decrypt_certs_eq.
  set (ct := slice b (HeaderLen + SessionIDLen + DHLen) (at_ b 2 * 256 + at_ b 3)).
  destruct (conc_decrypt_step _ _ ct H4 K4) as [D5 H5].
  unfold decrypt in D5. injection D5 as Dp.
  change (o_dec (concO f)) with (conc_dec f). rewrite Dp.
  rewrite (c_decrypt_certs_keyed c4 ct K4).
  destruct (certs_of (fst (crypt f true c4 ct)) (len ct)) as [[leaf inter]| |] eqn:Ec;
    try (cbn [fst snd]; eauto; fail).
  2:{ exfalso. exact (certs_of_no_panic _ _ Ec). }
  destruct (conc_squeeze_step _ _ MacLen H5) as [S6 H6].
  rewrite S6. unfold c_squeeze.
  destruct (cy_squeeze f (snd (crypt f true c4 ct)) (N.to_nat MacLen)) as [tag c6] eqn:Es. cbn [fst snd] in *.
  destruct (negb (beq_bytes tag _)); [cbn; eauto|].
  destruct (x_policy X pol leaf inter) as [pk|]; [|cbn; eauto].
  destruct (x_dh X ce pk) as [des|]; [|cbn; eauto].
  pose proof (conc_absorb_step _ _ des H6) as H7.
  destruct (conc_squeeze_step _ _ MacLen H7) as [S8 H8].
  rewrite S8.
  destruct (cy_squeeze f (cy_absorb f c6 des) (N.to_nat MacLen)) as [mac c8]. cbn [fst snd] in *.
  destruct (negb (beq_bytes mac _)); cbn; eauto.
Qed.

Theorem read_client_auth_concrete : forall X se pol sid T c b,
  cy_of f T = Ok c -> md c = MKey ->
  exists c', c_read_client_auth f X se pol sid c b = Ok (c', snd (read_client_auth (concO f) X se pol sid T b)) /\
             cy_of f (fst (read_client_auth (concO f) X se pol sid T b)) = Ok c'.
Proof.
  intros X se pol sid T c b H K.
  unfold read_client_auth, c_read_client_auth.
  destruct (read_client_auth_pre b) as [L| |] eqn:Ep; try (cbn; eauto; fail).
  2:{ exfalso. exact (read_client_auth_pre_no_panic _ Ep). }
  pose proof (conc_absorb_step _ _ (take HeaderLen b) H) as H1.
  destruct (negb (beq_bytes sid (slice b HeaderLen SessionIDLen))); [cbn; eauto|].
  pose proof (conc_absorb_step _ _ (slice b HeaderLen SessionIDLen) H1) as H2.
  set (c2 := cy_absorb f (cy_absorb f c (take HeaderLen b)) (slice b HeaderLen SessionIDLen)) in *.
  assert (K2 : md c2 = MKey) by (unfold c2; rewrite !md_absorb; exact K).
  rewrite decrypt_certs_eq.
  set (ct := slice b (HeaderLen + SessionIDLen) L).
  destruct (conc_decrypt_step _ _ ct H2 K2) as [D3 H3].
  unfold decrypt in D3. injection D3 as Dp.
  change (o_dec (concO f)) with (conc_dec f). rewrite Dp.
  rewrite (c_decrypt_certs_keyed c2 ct K2).
  destruct (certs_of (fst (crypt f true c2 ct)) (len ct)) as [[leaf inter]| |] eqn:Ec;
    try (cbn [fst snd]; eauto; fail).
  2:{ exfalso. exact (certs_of_no_panic _ _ Ec). }
  destruct (conc_squeeze_step _ _ MacLen H3) as [S4 H4].
  rewrite S4. unfold c_squeeze.
  destruct (cy_squeeze f (snd (crypt f true c2 ct)) (N.to_nat MacLen)) as [tag c4] eqn:Es. cbn [fst snd] in *.
  destruct (negb (beq_bytes tag _)); [cbn; eauto|].
  destruct (x_policy X pol leaf inter) as [pk|]; [|cbn; eauto].
  destruct (x_dh X se pk) as [dse|]; [|cbn; eauto].
  pose proof (conc_absorb_step _ _ dse H4) as H5.
  destruct (conc_squeeze_step _ _ MacLen H5) as [S6 H6].
  rewrite S6.
  destruct (cy_squeeze f (cy_absorb f c4 dse) (N.to_nat MacLen)) as [mac c6]. cbn [fst snd] in *.
  destruct (negb (beq_bytes mac _)); cbn; eauto.
Qed.

(* in particular the concrete reader accepts exactly when the symbolic one does under concO *)
Corollary server_auth_accept_iff_concrete : forall X ce pol T c b,
  cy_of f T = Ok c -> md c = MKey ->
  (exists c' r, c_read_server_auth f X ce pol c b = Ok (c', Ok r)) <->
  (exists T' r, read_server_auth (concO f) X ce pol T b = (T', Ok r)).
Proof.
  intros X ce pol T c b H K.
  destruct (read_server_auth_concrete X ce pol T c b H K) as (c' & Hc & _).
  destruct (read_server_auth (concO f) X ce pol T b) as [T' r] eqn:E. cbn [snd] in Hc.
  split.
  - intros (c1 & r1 & H1). rewrite Hc in H1. injection H1 as _ ->. eauto.
  - intros (T1 & r1 & H1). injection H1 as _ ->. eauto.
Qed.

Corollary client_auth_accept_iff_concrete : forall X se pol sid T c b,
  cy_of f T = Ok c -> md c = MKey ->
  (exists c' r, c_read_client_auth f X se pol sid c b = Ok (c', Ok r)) <->
  (exists T' r, read_client_auth (concO f) X se pol sid T b = (T', Ok r)).
Proof.
  intros X se pol sid T c b H K.
  destruct (read_client_auth_concrete X se pol sid T c b H K) as (c' & Hc & _).
  destruct (read_client_auth (concO f) X se pol sid T b) as [T' r] eqn:E. cbn [snd] in Hc.
  split.
  - intros (c1 & r1 & H1). rewrite Hc in H1. injection H1 as _ ->. eauto.
  - intros (T1 & r1 & H1). injection H1 as _ ->. eauto.
Qed.

Lemma cy_of_absorb_eq : forall x T, cy_of f (OAbsorb x :: T) = bind (cy_of f T) (fun c => Ok (cy_absorb f c x)).
Proof. reflexivity. Qed.

Lemma cy_of_squeeze_absorb_inv : forall n x T c', cy_of f (OSqueeze n :: OAbsorb x :: T) = Ok c' ->
  exists c0, cy_of f T = Ok c0.
Proof.
  intros n x T c' H. cbn [cy_of] in H. destruct (cy_of f T) as [c0| |]; try discriminate. eauto.
Qed.

(* C01 on the concrete object: when the byte-exact reader accepts a ServerAuth, the policy admits
   the decrypted chain and the trailing MAC is the first 16 bytes Cyclist squeezes from the object
   obtained by the code's call sequence, the last call being Absorb(DH(e, certified key)) *)
Theorem c_read_server_auth_accept : forall X ce pol T c b c' r,
  cy_of f T = Ok c -> md c = MKey ->
  c_read_server_auth f X ce pol c b = Ok (c', Ok r) ->
  exists ee des leaf inter c6,
    x_dh X ce (sa_eph r) = Some ee /\
    certs_of (sa_certs_pt (concO f) T b ee) (len (slice b sa_off (sa_L b))) = Ok (leaf, inter) /\
    x_policy X pol leaf inter = Some (sa_pk r) /\
    x_dh X ce (sa_pk r) = Some des /\
    cy_of f (OSqueeze MacLen :: sa_T5 (concO f) T b ee) = Ok c6 /\
    slice b (sa_off + sa_L b + MacLen) MacLen = fst (cy_squeeze f (cy_absorb f c6 des) (N.to_nat MacLen)).
Proof.
  intros X ce pol T c b c' r H K Hc.
  destruct (read_server_auth_concrete X ce pol T c b H K) as (c1 & Hc1 & Hof).
  rewrite Hc in Hc1. injection Hc1 as <- Hr.
  destruct (read_server_auth (concO f) X ce pol T b) as [T' r'] eqn:E. cbn [fst snd] in *. subst r'.
  apply read_server_auth_accept in E
    as (ee & des & leaf & inter & _ & _ & _ & _ & _ & Hee & Hct & _ & Hpol & Hes & Hmac & HT).
  subst T'. unfold sa_T7 in Hof, Hmac.
  apply cy_of_squeeze_absorb_inv in Hof as (c6 & E6).
  exists ee, des, leaf, inter, c6. repeat split; auto.
  rewrite Hmac. cbn [o_sq concO]. unfold conc_sq. rewrite cy_of_absorb_eq, E6. reflexivity.
Qed.

(* RekeyFromSqueeze always yields a keyed object (for protocol names short enough for Initialize) *)
Lemma rekey_keyed : forall T name,
  (forall s, List.length (f s) = cy_fB) -> (List.length name < 120)%nat ->
  exists c, cy_of f (rekey (concO f) T name) = Ok c /\ md c = MKey.
Proof.
  intros T name FL Hn. unfold rekey. cbn [cy_of].
  pose proof (sq_len _ (concO_duplex_ok FL) T KeyLen) as L.
  set (k := o_sq (concO f) T KeyLen) in *.
  assert (Lk : List.length k = 16%nat) by (unfold len, KeyLen in L; lia).
  apply initialize_keyed.
  - intros E. rewrite E in Lk. discriminate Lk.
  - unfold cy_rKin. lia.
Qed.
End Conc.
