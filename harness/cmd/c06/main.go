// c06: "nothing is delegated without the principal approving that exact intent".
//
// Runs request histories through the real authgrants.StartPrincipalInstance (scripted approval callback,
// a target-setup function behaving like hopclient's, a scripted or the real target instance) and message
// histories through the real authgrants.StartTargetInstance; judges what they did with a specification
// oracle written from the property statement; emits each history with the observed trace for comparison
// with the Gallina model (Corr/C06.v).
package main

import (
	"bytes"
	"fmt"
	"io"
	"strings"
	"sync/atomic"
	"time"

	"github.com/sirupsen/logrus"

	"verifharness/hv"
)

// ---- intent table of a case

type table struct {
	idx map[string]int
	its []wi
}

func (t *table) id(w wi) int {
	if t.idx == nil {
		t.idx = map[string]int{}
	}
	k := w.key()
	if i, ok := t.idx[k]; ok {
		return i
	}
	t.idx[k] = len(t.its)
	t.its = append(t.its, w)
	return len(t.its) - 1
}
func (t *table) coq() string {
	xs := make([]string, len(t.its))
	for i, w := range t.its {
		xs[i] = w.coq()
	}
	return hv.List(xs)
}

// ---- digesting the raw event log of one request into observed events

type obs struct {
	kind string // S C T TF X D TC TA TR
	in   wi
	has  bool
	cert int
	ok   bool // C: approved; D/TR: confirmation; S: url ok; TC: check ok; TA: add ok
	aux  bool // TC: principal certificate passed
}

func parseAnswers(b []byte) (out []obs, kind string) {
	for len(b) > 0 {
		switch {
		case b[0] == 3:
			out = append(out, obs{kind: "ANS", ok: true})
			b = b[1:]
		case b[0] == 4 && len(b) >= 2 && len(b) >= 2+int(b[1]):
			out = append(out, obs{kind: "ANS", ok: false})
			b = b[2+int(b[1]):]
		default:
			out = append(out, obs{kind: "X"})
			return out, ""
		}
	}
	return out, ""
}

func digest(evs []event) []obs {
	var out []obs
	for i := 0; i < len(evs); {
		e := evs[i]
		switch e.kind {
		case evSetup:
			out = append(out, obs{kind: "S", ok: e.urlok})
			i++
		case evCb:
			out = append(out, obs{kind: "C", in: e.in, has: true, cert: e.cert, ok: e.ok})
			i++
		case evPeerAct:
			out = append(out, obs{kind: "PA"})
			i++
		case evTCheck:
			out = append(out, obs{kind: "TC", in: e.in, has: true, ok: e.ok, aux: e.cert == 200})
			i++
		case evTAdd:
			out = append(out, obs{kind: "TA", in: e.in, has: true, ok: e.ok})
			i++
		case evTW:
			var data []byte
			failed := false
			for ; i < len(evs) && evs[i].kind == evTW; i++ {
				data = append(data, evs[i].data...)
				failed = failed || evs[i].failed
			}
			if failed {
				out = append(out, obs{kind: "TF"})
				break
			}
			r := bytes.NewReader(data)
			for r.Len() > 0 {
				t, _ := r.ReadByte()
				w, err := readWI(r)
				if t != 2 || err != nil {
					out = append(out, obs{kind: "XT"})
					break
				}
				out = append(out, obs{kind: "T", in: w, has: true})
			}
		case evDW, evTR:
			k := e.kind
			var data []byte
			failed := false
			for ; i < len(evs) && evs[i].kind == k; i++ {
				data = append(data, evs[i].data...)
				failed = failed || evs[i].failed
			}
			as, _ := parseAnswers(data)
			if failed {
				as = []obs{{kind: "X"}}
			}
			for _, a := range as {
				if a.kind == "ANS" {
					a.kind = map[evKind]string{evDW: "D", evTR: "TR"}[k]
				}
				out = append(out, a)
			}
		default:
			i++
		}
	}
	return out
}

func (o obs) coq(t *table) string {
	switch o.kind {
	case "S":
		return "OS " + hv.B(o.ok)
	case "C":
		c := "None"
		if o.cert != 0 {
			if o.cert < 0 {
				c = "(Some 9999)"
			} else {
				c = hv.Some(hv.Ni(o.cert))
			}
		}
		return fmt.Sprintf("OC %d %s %s", t.id(o.in), c, hv.B(o.ok))
	case "T":
		return fmt.Sprintf("OT %d", t.id(o.in))
	case "TF":
		return "OTF"
	case "PA":
		return "OPA"
	case "D":
		return "OD " + hv.B(o.ok)
	case "TC":
		return fmt.Sprintf("OTC %d %s %s", t.id(o.in), hv.B(o.aux), hv.B(o.ok))
	case "TA":
		return fmt.Sprintf("OTA %d %s", t.id(o.in), hv.B(o.ok))
	case "TR":
		return "OTR " + hv.B(o.ok)
	}
	return "OX"
}

func (o obs) String() string {
	switch o.kind {
	case "S":
		return fmt.Sprintf("setup(url-ok=%v)", o.ok)
	case "C":
		return fmt.Sprintf("callback(%s,cert=%d)=%v", o.in.desc(), o.cert, o.ok)
	case "T":
		return "to-target(" + o.in.desc() + ")"
	case "TF":
		return "to-target(write failed)"
	case "PA":
		return "target-acts(answers or closes)"
	case "D":
		return map[bool]string{true: "to-delegate(CONFIRMATION)", false: "to-delegate(denial)"}[o.ok]
	case "TC":
		return fmt.Sprintf("target.checkIntent(%s)=%v", o.in.desc(), o.ok)
	case "TA":
		return fmt.Sprintf("target.addAuthGrant(%s)=%v", o.in.desc(), o.ok)
	case "TR":
		return map[bool]string{true: "target-reply(CONFIRMATION)", false: "target-reply(denial)"}[o.ok]
	}
	return "unparseable-bytes"
}

func obsList(t *table, per [][]obs) string {
	xs := make([]string, len(per))
	for i, os := range per {
		ys := make([]string, len(os))
		for j, o := range os {
			ys[j] = o.coq(t)
		}
		xs[i] = hv.List(ys)
	}
	return hv.List(xs)
}

// ---- specification oracle (from the property statement; knows nothing of the model)

type verdict struct {
	ok   bool
	sig  string
	what string
}

func fail(sig, f string, a ...interface{}) verdict {
	return verdict{false, "C06:" + sig, fmt.Sprintf(f, a...)}
}

// one request on the delegate connection: what was requested, what the target side was scripted to do,
// and what the principal did (in order)
func judgeRequest(k int, rq preq, os []obs, e2e bool, targetSentConfirm bool) verdict {
	var pending *obs // most recent approval-callback invocation not yet used for a forward
	answers, confirms := 0, 0
	forwardedOK := false
	stored := false
	for j := range os {
		o := os[j]
		switch o.kind {
		case "C":
			pending = &os[j]
		case "X":
			return fail("unparseable-answer", "request %d: bytes written as an answer are not a confirmation/denial", k)
		case "T", "TF", "XT":
			if pending == nil || !pending.ok {
				return fail("forwarded-without-approval", "request %d %s: an intent communication was written to the target connection although the approval callback %s", k, rq.in.desc(),
					map[bool]string{true: "was not (again) consulted for it", false: "DENIED it"}[pending == nil])
			}
			if o.kind == "XT" {
				return fail("forwarded-intent-differs-from-approved", "request %d: bytes written to the target connection do not decode to the approved intent %s", k, pending.in.desc())
			}
			if o.kind == "T" {
				if !o.in.eq(pending.in) {
					return fail("forwarded-intent-differs-from-approved", "request %d: approved %s but forwarded %s", k, pending.in.desc(), o.in.desc())
				}
				if !o.in.eq(rq.in) {
					return fail("forwarded-intent-differs-from-approved", "request %d: requested %s but forwarded %s", k, rq.in.desc(), o.in.desc())
				}
				forwardedOK = true
			}
			pending = nil
		case "TA":
			if o.ok && o.in.eq(rq.in) {
				stored = true
			}
		case "D":
			answers++
			if o.ok {
				confirms++
				if !forwardedOK {
					return fail("confirmation-without-target-grant", "request %d: confirmation sent to the delegate but the intent never reached the target", k)
				}
				if e2e && !stored {
					return fail("confirmation-without-target-grant", "request %d: confirmation sent to the delegate but the target did not store the grant", k)
				}
				if !e2e && !targetSentConfirm {
					return fail("confirmation-without-target-grant", "request %d %s: confirmation sent to the delegate although the target answered %q", k, rq.in.desc(), rq.reply.String())
				}
			}
		}
	}
	if answers == 0 {
		return fail("no-answer", "request %d %s: the delegate received no answer", k, rq.in.desc())
	}
	if answers > 1 {
		return fail("more-than-one-answer", "request %d %s (approve=%v): the delegate received %d answers", k, rq.in.desc(), rq.approve, answers)
	}
	return verdict{ok: true}
}

// one message on the target instance's principal connection
func judgeTargetMsg(k int, m tmsg, os []obs) verdict {
	checked, stored := false, false
	replies := 0
	for _, o := range os {
		switch o.kind {
		case "TC":
			if o.ok && o.in.eq(m.in) && o.aux {
				checked = true
			}
		case "TA":
			if o.ok && o.in.eq(m.in) {
				if !checked {
					return fail("target-stored-unchecked-grant", "message %d: grant stored without the target's policy accepting that intent", k)
				}
				stored = true
			}
		case "TR":
			replies++
			if o.ok && !stored {
				return fail("target-confirmed-without-storing", "message %d %s (check=%v add=%v): confirmation sent but the grant was not stored", k, m.in.desc(), m.check, m.addk)
			}
		case "X":
			return fail("unparseable-answer", "message %d: target wrote bytes that are not a confirmation/denial", k)
		}
	}
	if m.bad == 0 && replies != 1 {
		return fail("target-answer-count", "message %d: %d answers to one intent communication", k, replies)
	}
	if m.bad != 0 && replies > 0 {
		// answering garbage is not forbidden by the property; a confirmation would be (checked above)
	}
	return verdict{ok: true}
}

// ---- emitting cases

func descReq(k int, r preq, e2e bool) string {
	su := "setup=early-fail"
	if r.setup == setupCb {
		su = fmt.Sprintf("setup=handshake(cert %d, rest-ok=%v)", r.certID, r.postOK)
	}
	t := "target=" + r.reply.String()
	if r.delay > 0 {
		t += fmt.Sprintf("(after %v, TCP)", r.delay)
	}
	if e2e {
		t = fmt.Sprintf("target(check=%v,add=%v)", r.tcheck, r.tadd)
	}
	return fmt.Sprintf("#%d %s approve=%v %s %s %s", k, r.in.desc(), r.approve, su, t, descReason(r.reason))
}

func tooManyHangs() bool { return atomic.LoadInt32(&hangs) >= 5 }

func emitPrincipal(class string, reqs []preq, e2e bool) {
	if c := principalCase(class, reqs, e2e, false); c != nil {
		hv.Emit(*c)
	}
}

// principalCase runs one history and builds its case (safe to call from several goroutines)
func principalCase(class string, reqs []preq, e2e bool, tcp bool) *hv.Case {
	if tooManyHangs() {
		return nil
	}
	var res *prun
	panicked, pmsg := hv.Catch(func() { res = runPrincipal(reqs, e2e, tcp) })
	if panicked {
		return &hv.Case{Class: class, Desc: "driver panic: " + pmsg, Spec: false, Sig: "C06:driver-panic", What: pmsg}
	}
	t := &table{}
	var rs, ds []string
	for k, r := range reqs {
		su := "SE"
		if r.setup == setupCb {
			su = hv.App("SC", hv.Ni(r.certID), hv.B(r.postOK))
		}
		if e2e {
			rs = append(rs, hv.App("E", hv.Ni(t.id(r.in)), hv.B(r.approve), su, hv.B(r.tcheck), hv.B(r.tadd)))
		} else {
			rs = append(rs, hv.App("R", hv.Ni(t.id(r.in)), hv.B(r.approve), su, r.reply.coq()))
		}
		ds = append(ds, descReq(k, r, e2e))
	}
	per := make([][]obs, len(res.perReq))
	v := verdict{ok: true}
	var seen []string
	for k, evs := range res.perReq {
		per[k] = digest(evs)
		for _, o := range per[k] {
			seen = append(seen, fmt.Sprintf("#%d:%s", k, o.String()))
		}
		if v.ok {
			v = judgeRequest(k, reqs[k], per[k], e2e, res.peerSent[k] == rConfirm && hasKey(res.peerSent, k))
		}
	}
	if res.abnormal == 1 {
		atomic.AddInt32(&hangs, 1)
	}
	if v.ok && res.abnormal == 1 {
		v = fail("no-answer", "request %d: the principal instance hangs (no return to reading requests within %v)", len(res.perReq)-1, stepTimeout)
	}
	if v.ok && res.abnormal == 2 {
		v = fail("no-answer", "request %d: the principal instance stopped serving the delegate connection", len(res.perReq)-1)
	}
	// what the delegate actually read must be what the principal wrote
	if v.ok {
		var w []byte
		for _, evs := range res.perReq {
			for _, e := range evs {
				if e.kind == evDW && !e.failed {
					w = append(w, e.data...)
				}
			}
		}
		if !bytes.Equal(w, res.dlgBytes) {
			v = fail("driver-inconsistent", "delegate read %d bytes, principal wrote %d", len(res.dlgBytes), len(w))
		}
	}
	fn := "c06p_ok"
	if e2e {
		fn = "c06e_ok"
	}
	nt := false
	if len(reqs) >= 2 {
		for _, r := range reqs {
			if !r.approve || (!e2e && r.reply != rConfirm) || (e2e && !(r.tcheck && r.tadd)) {
				nt = true
			}
		}
	}
	obsC := obsList(t, per) // (fills the table with any intent only the implementation produced)
	coq := hv.App(map[bool]string{false: "PC", true: "EC"}[e2e], t.coq(), hv.List(rs), obsC, hv.Ni(res.abnormal))
	desc := strings.Join(ds, " ; ")
	return &hv.Case{Fn: fn, Coq: coq, Class: class, Desc: desc, Spec: v.ok, Sig: v.sig, What: v.what, NT: nt,
		Replay: map[string]interface{}{"history": ds, "observed": seen, "abnormal": res.abnormal}}
}

func hasKey(m map[int]replyMode, k int) bool { _, ok := m[k]; return ok }

func emitTarget(class string, msgs []tmsg) {
	if tooManyHangs() {
		return
	}
	var res *trun
	panicked, pmsg := hv.Catch(func() { res = runTarget(msgs) })
	if panicked {
		hv.Emit(hv.Case{Class: class, Desc: "driver panic: " + pmsg, Spec: false, Sig: "C06:driver-panic", What: pmsg})
		return
	}
	t := &table{}
	var ms, ds []string
	for k, m := range msgs {
		if m.bad != 0 {
			ms = append(ms, "MB")
			ds = append(ds, fmt.Sprintf("#%d malformed(kind %d) %s", k, m.bad, m.in.desc()))
		} else {
			ms = append(ms, hv.App("M", hv.Ni(t.id(m.in)), hv.B(m.check), hv.B(m.addk)))
			ds = append(ds, fmt.Sprintf("#%d comm %s check=%v add=%v %s", k, m.in.desc(), m.check, m.addk, descReason(m.reason)))
		}
	}
	per := make([][]obs, len(res.perMsg))
	dead := false
	v := verdict{ok: true}
	var seen []string
	for k, evs := range res.perMsg {
		per[k] = digest(evs)
		for _, o := range per[k] {
			seen = append(seen, fmt.Sprintf("#%d:%s", k, o.String()))
		}
		if v.ok && !dead {
			v = judgeTargetMsg(k, msgs[k], per[k])
		}
		dead = dead || msgs[k].bad != 0 // a malformed message ends the instance; nothing after it is delivered
	}
	if res.abnormal == 1 {
		atomic.AddInt32(&hangs, 1)
	}
	if v.ok && res.abnormal != 0 {
		v = fail("target-answer-count", "message %d: the target instance hangs or stopped (code %d)", len(res.perMsg)-1, res.abnormal)
	}
	nt := false
	for _, m := range msgs {
		if m.bad == 0 && !(m.check && m.addk) {
			nt = true
		}
	}
	obsC := obsList(t, per)
	coq := hv.App("MC", t.coq(), hv.List(ms), obsC, hv.Ni(res.abnormal))
	hv.Emit(hv.Case{Fn: "c06t_ok", Coq: coq, Class: class, Desc: strings.Join(ds, " ; "), Spec: v.ok, Sig: v.sig, What: v.what, NT: nt,
		Replay: map[string]interface{}{"messages": ds, "observed": seen, "abnormal": res.abnormal}})
}

// ---- generators

// refusal texts: empty (the spec calls the reason optional; an error's text may be empty), one byte, typical,
// exactly 255 bytes (the most a denial carries), longer (cut by WriteIntentDenied)
var reasons = []string{"", "", "x", "not going to approve that", "target says so", strings.Repeat("r", 255), strings.Repeat("long reason ", 25)}

func descReason(s string) string {
	if len(s) > 30 {
		return fmt.Sprintf("reason=%q..(%d bytes)", s[:12], len(s))
	}
	return fmt.Sprintf("reason=%q", s)
}

func main() {
	defer hv.Flush()
	defer func() {
		if tooManyHangs() {
			hv.Info(map[string]interface{}{"note": "generation stopped early: an instance hung on 5 histories"})
		}
	}()
	logrus.SetOutput(io.Discard)
	r := hv.NewRand(hv.Seed())
	pool := fixedCerts()
	fresh := func() [][]byte { return append(fixedCerts(), genCert(r, r.Intn(3))) } // now and then a certificate of this run

	cbReq := func(in wi, approve bool, reply replyMode, k int) preq {
		return preq{in: in, approve: approve, setup: setupCb, certID: k + 1, postOK: true, reply: reply, tcheck: true, tadd: true, reason: hv.Pick(r, reasons)}
	}

	// S. slow target over a deadline-honouring buffered connection (TCP loopback): the target answers one
	// communication late (or, after the same time, closes instead of answering), mixed verdicts follow. The
	// scenarios run concurrently with everything below and are emitted at the end.
	slow := make(chan *hv.Case, 64)
	nslow := 0
	{
		sr := hv.NewRand(hv.Seed() ^ 0x5106)
		delays := []time.Duration{6500 * time.Millisecond}
		if hv.Thorough() {
			delays = []time.Duration{2 * time.Second, 6500 * time.Millisecond, 12 * time.Second, 35 * time.Second}
		}
		type sc struct {
			first replyMode
			rest  []replyMode
		}
		scen := []sc{{rConfirm, []replyMode{rDeny, rConfirm, rDeny}}, {rDeny, []replyMode{rConfirm, rDeny, rConfirm}},
			{rCloseAfterRead, nil}, {rGarbageUnknown, []replyMode{rConfirm, rDeny}}}
		for _, d := range delays {
			for _, s := range scen {
				base := genIntent(sr, pool)
				base.gt, base.cmd = 2, "slow 0"
				reqs := []preq{cbReq(base, true, rConfirm, 0)} // a prompt exchange first
				reqs[0].in.cmd = "prompt"
				slowReq := cbReq(base, true, s.first, 1)
				slowReq.delay = d
				reqs = append(reqs, slowReq)
				for j, rp := range s.rest {
					in := genSameTarget(sr, base, pool)
					in.gt, in.cmd = 2, fmt.Sprintf("after %d", j) // pairwise distinct intents
					reqs = append(reqs, cbReq(in, true, rp, j+2))
				}
				nslow++
				go func(reqs []preq) { slow <- principalCase("slow-target", reqs, false, true) }(reqs)
			}
		}
	}
	defer func() {
		for ; nslow > 0; nslow-- {
			if c := <-slow; c != nil {
				hv.Emit(*c)
			}
		}
	}()

	// 0. regression histories of the two defects repaired in hop-go (must pass now)
	{
		base := wi{gt: 2, port: 7777, start: 1700000000, exp: 1700003600, sniLabel: []byte("target"), user: "user", cert: pool[0], cmd: "echo hello world"}
		second := base
		second.cmd = "sudo reboot"
		emitPrincipal("regression", []preq{cbReq(base, true, rConfirm, 0), cbReq(second, false, rConfirm, 1)}, false)
		emitPrincipal("regression", []preq{cbReq(base, true, rConfirm, 0), cbReq(base, false, rConfirm, 1)}, false)
		emitPrincipal("regression", []preq{cbReq(base, false, rConfirm, 0)}, false)
		emitPrincipal("regression", []preq{cbReq(base, false, rConfirm, 0), cbReq(second, true, rConfirm, 1)}, false)
		emitPrincipal("regression-e2e", []preq{cbReq(base, true, rConfirm, 0), cbReq(second, false, rConfirm, 1)}, true)
		// refusals without a text (seeded C06-3: "" was taken to mean "confirmed")
		wr := func(q preq, reason string) preq { q.reason = reason; return q }
		for _, rs := range []string{"", "x", strings.Repeat("r", 255), strings.Repeat("long reason ", 25)} {
			emitPrincipal("empty-reason", []preq{wr(cbReq(base, true, rDeny, 0), rs)}, false)
			emitPrincipal("empty-reason", []preq{cbReq(base, true, rConfirm, 0), wr(cbReq(second, false, rConfirm, 1), rs)}, false)
			emitPrincipal("empty-reason", []preq{wr(cbReq(base, false, rConfirm, 0), rs), wr(cbReq(second, true, rDeny, 1), rs)}, false)
			q := wr(cbReq(base, true, rConfirm, 0), rs)
			q.tcheck = false
			q2 := wr(cbReq(second, true, rConfirm, 1), rs)
			q2.tadd = false
			emitPrincipal("empty-reason-e2e", []preq{q, q2}, true)
			emitTarget("empty-reason-target", []tmsg{{in: base, check: false, addk: true, reason: rs}, {in: second, check: true, addk: false, reason: rs}})
		}
	}

	// 1. exhaustive: all histories of length <= 3 over {same,other target} x {approve,deny} x {confirm,deny,fail}
	replies3 := []replyMode{rConfirm, rDeny, rCloseAfterRead}
	var rec func(prefix []int, n int)
	rec = func(prefix []int, n int) {
		if len(prefix) == n {
			base := genIntent(r, pool)
			var reqs []preq
			for k, a := range prefix {
				in := base
				if k > 0 {
					if a/6 == 0 {
						in = genSameTarget(r, base, pool)
					} else {
						in = genOtherTarget(r, base, pool)
					}
				} else if a/6 == 1 {
					in = genOtherTarget(r, base, pool) // first request: "other" only means another draw
				}
				reqs = append(reqs, cbReq(in, (a/3)%2 == 0, replies3[a%3], k))
			}
			emitPrincipal(fmt.Sprintf("exhaustive-len%d", n), reqs, false)
			return
		}
		for a := 0; a < 12; a++ {
			rec(append(append([]int{}, prefix...), a), n)
		}
	}
	for n := 1; n <= 3; n++ {
		rec(nil, n)
	}

	// 2. random histories up to length 8, all setup and target behaviours
	genHistory := func(maxLen int, e2e bool) []preq {
		n := 1 + r.Intn(maxLen)
		pool := pool
		if r.Chance(15) {
			pool = fresh()
		}
		base := genIntent(r, pool)
		var reqs []preq
		var prevs []wi
		for k := 0; k < n; k++ {
			var in wi
			switch {
			case k == 0:
				in = base
			case r.Chance(12):
				in = hv.Pick(r, prevs) // an exact repetition of an earlier request
			case r.Chance(78):
				in = genSameTarget(r, base, pool)
			default:
				in = genOtherTarget(r, base, pool)
			}
			prevs = append(prevs, in)
			q := preq{in: in, approve: r.Chance(62), setup: setupCb, certID: 1 + r.Intn(4), postOK: !r.Chance(12), reason: hv.Pick(r, reasons)}
			if r.Chance(10) {
				q.setup = setupEarlyFail
			}
			q.reply = hv.Pick(r, []replyMode{rConfirm, rConfirm, rConfirm, rConfirm, rConfirm, rDeny, rDeny, rGarbageUnknown, rGarbageEcho, rCloseAfterRead, rTruncDeny, rWriteFail})
			q.tcheck, q.tadd = r.Chance(70), r.Chance(75)
			reqs = append(reqs, q)
		}
		return reqs
	}
	for k := 0; k < hv.Scale(1100, 6000); k++ {
		emitPrincipal("random-principal", genHistory(8, false), false)
	}
	// 3. the real principal against the real target instance
	for k := 0; k < hv.Scale(500, 2500); k++ {
		emitPrincipal("random-principal+target", genHistory(6, true), true)
	}
	// 4. the real target instance alone: exhaustive check/add/malformed histories of length <= 3, then random
	var trec func(prefix []int, n int)
	trec = func(prefix []int, n int) {
		if len(prefix) == n {
			var ms []tmsg
			for _, a := range prefix {
				ms = append(ms, tmsg{in: genIntent(r, pool), bad: map[int]int{4: 1, 5: 2}[a], check: a&1 == 1, addk: a&2 == 2, reason: hv.Pick(r, reasons)})
			}
			emitTarget(fmt.Sprintf("target-exhaustive-len%d", n), ms)
			return
		}
		for a := 0; a < 6; a++ {
			trec(append(append([]int{}, prefix...), a), n)
		}
	}
	for n := 1; n <= 3; n++ {
		trec(nil, n)
	}
	for k := 0; k < hv.Scale(250, 1500); k++ {
		n := 1 + r.Intn(7)
		pool := pool
		if r.Chance(15) {
			pool = fresh()
		}
		var ms []tmsg
		for j := 0; j < n; j++ {
			m := tmsg{in: genIntent(r, pool), check: r.Chance(70), addk: r.Chance(70), reason: hv.Pick(r, reasons)}
			if r.Chance(6) {
				m.bad = 1 + r.Intn(2)
			}
			ms = append(ms, m)
		}
		emitTarget("random-target", ms)
	}
}
