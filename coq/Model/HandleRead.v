(* Sequential model of the read side of transport.Handle (transport/handle.go): the receive queue
   `recv` (common.DeadlineChan of []byte, a buffered Go channel), the leftover buffer `buf`
   (bytes.Buffer, guarded by readLock), Read, ReadMsg, the arrival of a decrypted transport message
   (Server/Client.handleSessionMessage, `select { case recv.C <- plaintext: default: drop }`), Close
   (SessionState.closeLocked) and SetReadDeadline(past | zero).

   Definitions only.  One transition per *call* (Read/ReadMsg hold readLock for their whole body, so
   two hr_reads never interleave; an arrival or a Close that happens during a read is ordered before or
   after the read's single Recv).  The interleaving inside DeadlineChan.Recv is the subject of
   Model/DChan.v; here Recv is its sequential specification [hr_recv_seq]: queued data first, then the
   closed flag (io.EOF), then the expired deadline (timeout error), otherwise the call blocks.

   The model says what the code does, not what it should do: in particular Read with a zero-length
   buffer on an empty leftover buffer still performs the Recv (it can block, or move a whole message
   into `buf`), and ReadMsg after a short Read returns the *rest* of the fragmented message. *)
From Hop Require Import Base.
Open Scope N_scope.

Record hrstate := mkHR {
  hrq : list bytes;       (* contents of recv.C, oldest first *)
  hrbuf : bytes;          (* unread part of Handle.buf *)
  hrclosed : bool;        (* ss.handleState == closed  (= recv.closed: set together under ss.m) *)
  hrexpired : bool;       (* the read deadline channel is closed by an expired deadline *)
  hrcap : nat             (* cap(recv.C) *)
}.

Definition hrinit (cap : nat) (expired : bool) : hrstate := mkHR [] [] false expired cap.

Definition hr_set_q (s : hrstate) (q : list bytes) : hrstate := mkHR q (hrbuf s) (hrclosed s) (hrexpired s) (hrcap s).
Definition hr_set_buf (s : hrstate) (b : bytes) : hrstate := mkHR (hrq s) b (hrclosed s) (hrexpired s) (hrcap s).
Definition hr_set_closed (s : hrstate) : hrstate := mkHR (hrq s) (hrbuf s) true (hrexpired s) (hrcap s).
Definition hr_set_expired (s : hrstate) (e : bool) : hrstate := mkHR (hrq s) (hrbuf s) (hrclosed s) e (hrcap s).

Inductive hrop :=
| HRead (n : N)          (* Handle.Read(b), len(b) = n *)
| HReadMsg (n : N)       (* Handle.ReadMsg(b), len(b) = n *)
| HArrive (m : bytes)    (* an authentic transport message with plaintext m reaches handleSessionMessage *)
| HShut                 (* Handle.Close() *)
| HExpire                (* SetReadDeadline(time in the past) *)
| HUnexpire.             (* SetReadDeadline(time.Time{}) *)

Inductive hrres :=
| HData (b : bytes)      (* (len b, nil), b = what was copied into the caller's buffer *)
| HEof                   (* (0, io.EOF) *)
| HTimeout               (* (0, os.ErrDeadlineExceeded) *)
| HOverflow              (* (0, ErrBufOverflow) *)
| HBlock                 (* the call does not return (nothing queued, open, deadline not expired) *)
| HQueued                (* arrival: message entered recv.C *)
| HDropped               (* arrival: session closed or queue full, message discarded *)
| HNil.                  (* Close / SetReadDeadline returned nil *)

(* DeadlineChan.Recv, sequentially *)
Definition hr_recv_seq (s : hrstate) : hrres + (bytes * hrstate) :=
  match hrq s with
  | m :: q' => inr (m, hr_set_q s q')
  | [] => if hrclosed s then inl HEof else if hrexpired s then inl HTimeout else inl HBlock
  end.

(* func (c *Handle) Read(b []byte) (int, error) *)
Definition hr_read (n : N) (s : hrstate) : hrstate * hrres :=
  if 0 <? len (hrbuf s) then
    (* n, err := c.buf.Read(b): copies min(len b, buf.Len()) bytes and advances; Reset when empty *)
    (hr_set_buf s (drop n (hrbuf s)), HData (take n (hrbuf s)))
  else
    match hr_recv_seq s with
    | inl e => (s, e)                                   (* return 0, err *)
    | inr (msg, s1) =>
      let k := N.min n (len msg) in                      (* n := copy(b, msg) *)
      if k =? len msg then (s1, HData (take k msg))      (* return n, nil *)
      else (hr_set_buf s1 (hrbuf s1 ++ drop k msg), HData (take k msg))   (* c.buf.Write(msg[n:]); return n, err *)
    end.

(* func (c *Handle) ReadMsg(b []byte) (int, error) *)
Definition hr_readmsg (n : N) (s : hrstate) : hrstate * hrres :=
  if 0 <? len (hrbuf s) then
    if n <? len (hrbuf s) then (s, HOverflow)             (* len(b) < c.buf.Len() *)
    else (hr_set_buf s [], HData (take n (hrbuf s)))         (* c.buf.Read(b); c.buf.Reset() *)
  else
    match hr_recv_seq s with
    | inl e => (s, e)
    | inr (msg, s1) =>
      if len msg <=? n then (s1, HData msg)              (* copy(b, msg); return len(msg), nil *)
      else (hr_set_buf s1 (hrbuf s1 ++ msg), HOverflow)      (* c.buf.Write(msg); return 0, ErrBufOverflow *)
    end.

(* handleSessionMessage, case MessageTypeTransport, after the packet authenticated *)
Definition hr_arrive (m : bytes) (s : hrstate) : hrstate * hrres :=
  if hrclosed s then (s, HDropped)                        (* if ss.handleState == closed { return nil } *)
  else if (length (hrq s) <? hrcap s)%nat then (hr_set_q s (hrq s ++ [m]), HQueued)   (* case recv.C <- plaintext *)
  else (s, HDropped).                                    (* default: "recv queue full, dropping packet" *)

(* Handle.Close -> closeLocked: handleState = closed; recv.Close() *)
Definition hr_close (s : hrstate) : hrstate * hrres := (hr_set_closed s, HNil).

(* Handle.SetReadDeadline -> DeadlineChan.SetDeadline: io.EOF once closed *)
Definition hr_setdl (e : bool) (s : hrstate) : hrstate * hrres :=
  if hrclosed s then (s, HEof) else (hr_set_expired s e, HNil).

Definition hr_step (s : hrstate) (o : hrop) : hrstate * hrres :=
  match o with
  | HRead n => hr_read n s
  | HReadMsg n => hr_readmsg n s
  | HArrive m => hr_arrive m s
  | HShut => hr_close s
  | HExpire => hr_setdl true s
  | HUnexpire => hr_setdl false s
  end.

Definition hrevent := (hrop * hrres)%type.

Fixpoint hr_run (s : hrstate) (ops : list hrop) : hrstate * list hrevent :=
  match ops with
  | [] => (s, [])
  | o :: r => let '(s1, x) := hr_step s o in
              let '(s2, evs) := hr_run s1 r in (s2, (o, x) :: evs)
  end.

(* ------------------------------------------------------------------ specification side *)
(* bytes held by the handle and not yet given to the reader, in stream order *)
Definition hr_pending (s : hrstate) : bytes := hrbuf s ++ List.concat (hrq s).

(* bytes of the messages hr_accepted into the queue / bytes handed to the reader by one event *)
Definition hr_ev_accepted (e : hrevent) : bytes :=
  match e with (HArrive m, HQueued) => m | _ => [] end.
Definition hr_ev_delivered (e : hrevent) : bytes :=
  match e with (HRead _, HData b) => b | (HReadMsg _, HData b) => b | _ => [] end.
Definition hr_accepted (evs : list hrevent) : bytes := List.concat (map hr_ev_accepted evs).
Definition hr_delivered (evs : list hrevent) : bytes := List.concat (map hr_ev_delivered evs).

(* message view (ReadMsg-only readers) *)
Definition hr_ev_accepted_msg (e : hrevent) : list bytes :=
  match e with (HArrive m, HQueued) => [m] | _ => [] end.
Definition hr_ev_delivered_msg (e : hrevent) : list bytes :=
  match e with (HReadMsg _, HData b) => [b] | _ => [] end.
Definition hr_accepted_msgs (evs : list hrevent) : list bytes := List.concat (map hr_ev_accepted_msg evs).
Definition hr_delivered_msgs (evs : list hrevent) : list bytes := List.concat (map hr_ev_delivered_msg evs).
Definition hr_bufmsg (s : hrstate) : list bytes := match hrbuf s with [] => [] | _ => [hrbuf s] end.
Definition hr_is_read_op (o : hrop) : bool := match o with HRead _ => true | _ => false end.
Definition hr_is_reader_ev (e : hrevent) : bool :=
  match fst e with HRead _ | HReadMsg _ => true | _ => false end.
Definition hr_is_eof_ev (e : hrevent) : bool :=
  match e with (HRead _, HEof) | (HReadMsg _, HEof) => true | _ => false end.

(* amount of work left for a reader: one unit per queued message and per byte *)
Definition hr_measure (s : hrstate) : nat :=
  length (hrbuf s) + fold_right (fun m a => S (length m + a))%nat 0%nat (hrq s).

(* n successive Reads with a buffer of k bytes *)
Definition hr_reads (k : N) (n : nat) : list hrop := repeat (HRead k) n.
