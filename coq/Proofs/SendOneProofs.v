(* proofs for Model/SendOne.v — see Properties/C08.v *)
From Hop Require Import Base SendOne.
From Coq Require Import ZifyN ZifyNat ZifyBool Lia.
Ltac Zify.zify_post_hook ::= Z.div_mod_to_equations.
Open Scope N_scope.

(* stream frames and retransmissions are never suppressed, and carry the current acknowledgement number *)
Theorem stream_frame_sent : forall st c, so_stream_frame c = true ->
  exists ackflag, snd (send_one_frame st c) = Some (sc_retx c, sc_ack c, ackflag, sc_no c).
Proof.
  intros st c H. unfold send_one_frame.
  assert (S: so_sends st c = true).
  { unfold so_sends. unfold so_stream_frame in H.
    destruct (0 <? sc_dlen c) eqn:D; [reflexivity|].
    assert (E: sc_dlen c =? 0 = true) by (apply N.eqb_eq; apply N.ltb_ge in D; lia). rewrite E.
    cbn [orb andb] in *. destruct (sc_fin c), (sc_retx c); cbn in H; try discriminate;
      repeat rewrite orb_true_r; reflexivity. }
  rewrite S. eexists. reflexivity.
Qed.

(* after every call the last transmitted acknowledgement number IS the receive window's current one: a
   suppressed frame carried nothing the peer had not been sent *)
Theorem ack_current : forall st c, so_last_ack (fst (send_one_frame st c)) = sc_ack c.
Proof.
  intros st c. unfold send_one_frame. destruct (so_sends st c) eqn:S; [reflexivity|]. cbn.
  unfold so_sends in S. apply orb_false_iff in S. destruct S as [S _]. apply orb_false_iff in S. destruct S as [D S].
  assert (E: sc_dlen c =? 0 = true) by (apply N.eqb_eq; apply N.ltb_ge in D; lia). rewrite E in S. cbn [andb] in S.
  repeat (apply orb_false_iff in S; destruct S as [S ?]).
  apply negb_false_iff in S. apply N.eqb_eq in S. auto.
Qed.

Lemma unsend_bound_step : forall st c, so_unsend st <= 10 -> so_unsend (fst (send_one_frame st c)) <= 10.
Proof.
  intros st c H. unfold send_one_frame. destruct (so_sends st c) eqn:S; cbn; [lia|].
  unfold so_sends in S. apply orb_false_iff in S. destruct S as [_ U]. apply N.eqb_neq in U. lia.
Qed.

Lemma so_run_fst_cons : forall st c rest, fst (so_run st (c :: rest)) = fst (so_run (fst (send_one_frame st c)) rest).
Proof. intros. cbn [so_run]. destruct (send_one_frame st c) as [st1 o]. cbn [fst]. destruct (so_run st1 rest). reflexivity. Qed.
Lemma so_run_snd_cons : forall st c rest,
  snd (so_run st (c :: rest)) = snd (send_one_frame st c) :: snd (so_run (fst (send_one_frame st c)) rest).
Proof. intros. cbn [so_run]. destruct (send_one_frame st c) as [st1 o]. cbn [fst snd]. destruct (so_run st1 rest). reflexivity. Qed.

Theorem unsend_bound : forall cs st, so_unsend st <= 10 -> so_unsend (fst (so_run st cs)) <= 10.
Proof. induction cs as [|c rest IH]; intros st H. exact H. rewrite so_run_fst_cons. apply IH. apply unsend_bound_step. exact H. Qed.

(* a run of calls none of which reaches the muxer has at most 10 - unsend elements *)
Theorem suppressed_run_short : forall cs st, so_unsend st <= 10 ->
  Forall (fun o => o = None) (snd (so_run st cs)) -> N.of_nat (List.length cs) + so_unsend st <= 10.
Proof.
  induction cs as [|c rest IH]; intros st H F. cbn. lia.
  rewrite so_run_snd_cons in F. inversion F as [|? ? F1 F2]; subst.
  pose proof (unsend_bound_step st c H) as B.
  specialize (IH _ B F2).
  unfold send_one_frame in F1, IH, B. destruct (so_sends st c) eqn:S; [discriminate|]. cbn [fst snd so_unsend] in IH, B.
  unfold so_sends in S. apply orb_false_iff in S. destruct S as [_ U]. apply N.eqb_neq in U.
  rewrite N.mod_small in IH by lia. cbn [List.length]. rewrite Nat2N.inj_succ. lia.
Qed.

(* the last transmitted acknowledgement number after any history is the one of the last call *)
Theorem ack_current_run : forall cs st c, so_last_ack (fst (so_run st (cs ++ [c]))) = sc_ack c.
Proof.
  induction cs as [|x rest IH]; intros st c.
  - cbn [app]. rewrite so_run_fst_cons. cbn [so_run fst]. apply ack_current.
  - cbn [app]. rewrite so_run_fst_cons. apply IH.
Qed.
