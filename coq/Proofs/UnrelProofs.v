(* UnrelProofs.v — invariants of the Unreliable lifecycle system (Model/Unrel.v), all schedules, any
   number of goroutines calling Write / Close, peer initiation arriving at any time or never. *)
From Hop Require Import Base ConcBase ConcUtil Unrel.
From Coq Require Import Lia Arith.
Local Open Scope nat_scope.

Definition holder (t : uthread) : bool := match upcv t with W_send | C_fin | C_closeq | C_waitsender => true | _ => false end.
Definition wsend (t : uthread) : bool := match upcv t with W_send => true | _ => false end.
Definition closer (t : uthread) : bool :=
  match upcv t with C_waitinit _ | C_lock2 _ | C_fin | C_closeq | C_waitsender => true | _ => false end.
Definition cws (t : uthread) : bool := match upcv t with C_waitsender => true | _ => false end.
Definition cfin (t : uthread) : bool := match upcv t with C_waitinit _ | C_lock2 _ | C_fin => true | _ => false end.   (* the closer before it has queued the FIN *)
Definition is_closed (u : ust) : bool := match u with UClosed => true | _ => false end.

Record UInv (x : ust_t) : Prop := {
  a0 : upanic (ushd x) = false;
  a1 : gcnt holder (uths x) = g2n (mu (ushd x));
  a2 : st (ushd x) = UClosed -> gcnt wsend (uths x) = 0;
  a3 : gcnt closer (uths x) = g2n (is_closed (st (ushd x)) && negb (uclosed (ushd x)));
  a4 : gcnt cws (uths x) + g2n (uclosed (ushd x)) = g2n (sq_closed (ushd x));
  a5 : stopinit (ushd x) = true -> st (ushd x) = UClosed;
  a6 : st (ushd x) = UCreated -> initd (ushd x) = false;
  a7 : initdone (ushd x) = true <-> inp (ushd x) = IN_done;
  a8 : inp (ushd x) <> IN_done -> senderdone (ushd x) = false /\ snp (ushd x) = SN_none;
  a8' : senderdone (ushd x) = true -> snp (ushd x) <> SN_run;
  a9 : after_fin (ushd x) = false;
  a9' : fin_pushed (ushd x) = true -> st (ushd x) = UClosed /\ gcnt cfin (uths x) = 0;
  a10 : uclosed (ushd x) = true -> st (ushd x) = UClosed;
  a12 : sq_closed (ushd x) = true -> st (ushd x) = UClosed
}.

Lemma wsend_holder t : wsend t = true -> holder t = true. Proof. unfold wsend, holder. destruct (upcv t); auto. Qed.
Lemma cws_closer t : cws t = true -> closer t = true. Proof. unfold cws, closer. destruct (upcv t); auto. Qed.
Lemma cfin_closer t : cfin t = true -> closer t = true. Proof. unfold cfin, closer. destruct (upcv t); auto. Qed.

Ltac ucases H :=
  match type of H with
  | utstep ?s ?t = Some (?s', ?t') =>
    unfold utstep in H; destruct t as [pg p rs]; simpl in H;
    destruct p; [destruct pg as [|[|] pg]; [discriminate H| |]|..];
    repeat (match type of H with
            | context [if ?b then _ else _] => let E := fresh "E" in destruct b eqn:E
            | context [match st ?s with _ => _ end] => let E := fresh "Est" in destruct (st s) eqn:E
            | context [match ?o with UCreated => _ | UInitiated => _ | UClosed => _ end] => destruct o
            end; simpl in H); try discriminate H; inversion H; subst; clear H
  end.

Lemma uinv_th x i t s' t' : UInv x -> nth_error (uths x) i = Some t -> utstep (ushd x) t = Some (s', t') ->
  UInv (mkUSt s' (gupd (uths x) i t')).
Proof.
  intros I Hn H. destruct x as [s l]. simpl in *.
  destruct I as [A0 A1 A2 A3 A4 A5 A6 A7 A8 A8' A9 A9' A10 A12]; simpl in *.
  pose proof (gcnt_upd holder l i t t' Hn) as Ch.
  pose proof (gcnt_upd wsend l i t t' Hn) as Cw.
  pose proof (gcnt_upd closer l i t t' Hn) as Cc.
  pose proof (gcnt_upd cws l i t t' Hn) as Cs.
  pose proof (gcnt_upd cfin l i t t' Hn) as Cf.
  pose proof (gcnt_sub wsend holder l wsend_holder) as S1.
  pose proof (gcnt_sub cws closer l cws_closer) as S2.
  pose proof (gcnt_sub cfin closer l cfin_closer) as S3.
  assert (Hcl : closer t = true -> is_closed (st s) = true /\ uclosed s = false /\ gcnt closer l = 1).
  { intros E. pose proof (gcnt_mem _ _ _ _ Hn E). rewrite A3 in *.
    destruct (is_closed (st s)), (uclosed s); simpl in *; try lia; auto. }
  assert (Hws : wsend t = true -> st s <> UClosed).
  { intros E Hc. specialize (A2 Hc). pose proof (gcnt_mem _ _ _ _ Hn E). lia. }
  assert (Hcws0 : closer t = true -> cws t = false -> gcnt cws l = 0).
  { intros E1 E2. destruct (Hcl E1) as (_ & _ & E3). pose proof (gcnt_sub_strict cws closer l i t cws_closer Hn E2 E1). lia. }
  assert (Hcfin0 : closer t = true -> cfin t = false -> gcnt cfin l = 0).
  { intros E1 E2. destruct (Hcl E1) as (_ & _ & E3). pose proof (gcnt_sub_strict cfin closer l i t cfin_closer Hn E2 E1). lia. }
  assert (Hhold : holder t = true -> mu s = true /\ gcnt holder l = 1).
  { intros E. pose proof (gcnt_mem _ _ _ _ Hn E). rewrite A1 in *. destruct (mu s); simpl in *; auto; lia. }
  assert (Hfree : mu s = false -> gcnt wsend l = 0) by (intros E; rewrite E in A1; simpl in A1; lia).
  destruct s as [ss m q cp qc ind si ido sdn uc ip0 sp0 pn fp af].
  ucases H; unfold push, upd_mu, set_upanic, ugoto, ufin in *; simpl in *.
  all: try (specialize (Hcl eq_refl); destruct Hcl as (Hc1 & Hc2 & Hc3)).
  all: try (specialize (Hws eq_refl)).
  all: try (specialize (Hhold eq_refl); destruct Hhold as (Hh1 & Hh2)).
  all: try (specialize (Hfree eq_refl)).
  all: try (specialize (Hcws0 eq_refl eq_refl)).
  all: try (specialize (Hcfin0 eq_refl eq_refl)).
  all: subst; simpl in *.
  all: try (destruct qc; [exfalso; first [apply Hws; apply A12; reflexivity | simpl in *; lia] |]).
  all: constructor; simpl; unfold g2n in *; simpl in *; intros; auto; try discriminate; try congruence; try lia; try tauto.
  all: try (repeat match goal with
                   | H1 : ?P -> _, H2 : ?P |- _ => specialize (H1 H2)
                   | H1 : ?a = ?a -> _ |- _ => specialize (H1 eq_refl)
                   | H : _ /\ _ |- _ => destruct H
                   end; subst; simpl in *; try split; auto; try discriminate; try congruence; try lia; fail).
  all: try (destruct fp; auto; exfalso; destruct (A9' eq_refl) as [Hx Hy]; first [contradiction | lia | (simpl in *; lia)]).
  all: try (exfalso; rewrite ?Bool.orb_false_r in *; match goal with Hf : ?v = true, A : ?v = true -> _ = UClosed /\ _ |- _ => destruct (A Hf); contradiction end).
  all: try (destruct si; auto; specialize (A5 eq_refl); discriminate).
  all: try (destruct uc; [specialize (A10 eq_refl); discriminate|simpl in *; lia]).
  all: try (destruct ss; simpl in *; try discriminate; auto; fail).
  all: try (split; [destruct ss; simpl in *; try discriminate; auto|simpl in *; lia]).
  all: try (repeat match goal with
                   | H : ?a = true |- _ => rewrite H in *
                   | H : ?a = false |- _ => rewrite H in *
                   end; simpl in *; try lia; try congruence; try tauto; fail).
Qed.

Lemma uinv_step x a x' : UInv x -> ustep x a = Some x' -> UInv x'.
Proof.
  intros I H. unfold ustep in H. destruct (upanic (ushd x)) eqn:Ep; [discriminate|]. destruct a.
  - destruct (nth_error (uths x) i) as [t|] eqn:Hn; [|discriminate].
    destruct (utstep (ushd x) t) as [[s' t']|] eqn:Ht; [|discriminate]. inversion H; subst. eapply uinv_th; eauto.
  - (* initiate *)
    destruct x as [s l]. destruct I as [A0 A1 A2 A3 A4 A5 A6 A7 A8 A8' A9 A9' A10 A12]; simpl in *.
    destruct s as [ss m q cp qc ind si ido sdn uc ip0 sp0 pn fp af]; simpl in *.
    destruct ip0; try discriminate.
    + destruct m; [discriminate|].
      assert (Hi : ido = false) by (destruct ido; auto; destruct A7 as [A7 _]; specialize (A7 eq_refl); discriminate).
      destruct (A8 ltac:(discriminate)) as [B1 B2]. subst.
      destruct ss; inversion H; subst; clear H; constructor; simpl; auto; try discriminate; try tauto; try (split; intros; auto; discriminate).
    + assert (Hi : ido = false) by (destruct ido; auto; destruct A7 as [A7 _]; specialize (A7 eq_refl); discriminate).
      destruct (A8 ltac:(discriminate)) as [B1 B2]. subst.
      destruct si; [|destruct ind; [|discriminate]]; inversion H; subst; clear H; constructor; simpl; auto; try discriminate; try tauto;
        try (split; intros; auto; discriminate).
  - (* init tick *)
    destruct x as [s l]. destruct I as [A0 A1 A2 A3 A4 A5 A6 A7 A8 A8' A9 A9' A10 A12]; simpl in *.
    destruct s as [ss m q cp qc ind si ido sdn uc ip0 sp0 pn fp af]; simpl in *.
    destruct ip0; try discriminate. inversion H; subst; clear H.
    constructor; simpl; auto; try discriminate.
    + split; intros Hx; [apply A7 in Hx|]; discriminate.
    + intros _. apply A8. discriminate.
  - (* sender *)
    destruct x as [s l]. destruct I as [A0 A1 A2 A3 A4 A5 A6 A7 A8 A8' A9 A9' A10 A12]; simpl in *.
    destruct s as [ss m q cp qc ind si ido sdn uc ip0 sp0 pn fp af]; simpl in *.
    destruct sp0; try discriminate.
    assert (Hs : sdn = false) by (destruct sdn; auto; exfalso; apply (A8' eq_refl); reflexivity).
    assert (Hip : ip0 = IN_done) by (destruct ip0; auto; destruct (A8 ltac:(discriminate)); discriminate).
    subst. destruct q.
    + destruct qc; [|discriminate]. inversion H; subst; clear H. constructor; simpl; auto; try discriminate; try tauto.
    + inversion H; subst; clear H. constructor; simpl; auto; try discriminate; try tauto.
  - (* peer initiation *)
    destruct x as [s l]. destruct I as [A0 A1 A2 A3 A4 A5 A6 A7 A8 A8' A9 A9' A10 A12]; simpl in *.
    destruct s as [ss m q cp qc ind si ido sdn uc ip0 sp0 pn fp af]; simpl in *.
    destruct ss; try discriminate. rewrite (A6 eq_refl) in *. inversion H; subst; clear H.
    constructor; simpl in *; auto; try discriminate.
    + intros Hx. specialize (A5 Hx). discriminate.
    + intros Hx. destruct (A9' Hx). discriminate.
    + intros Hx. specialize (A10 Hx). discriminate.
    + intros Hx. specialize (A12 Hx). discriminate.
Qed.

Lemma ugcnt_init (p : uthread -> bool) progs :
  (forall q, p (mkUT q UIdle []) = false) -> gcnt p (map (fun q => mkUT q UIdle []) progs) = 0.
Proof. intros Hp. induction progs; simpl; auto. rewrite Hp; simpl; auto. Qed.

Lemma uinv_init acc cap progs : UInv (uinit acc cap progs).
Proof.
  unfold uinit, ush_init.
  pose proof (ugcnt_init holder progs ltac:(reflexivity)) as G1.
  pose proof (ugcnt_init wsend progs ltac:(reflexivity)) as G2.
  pose proof (ugcnt_init closer progs ltac:(reflexivity)) as G3.
  pose proof (ugcnt_init cws progs ltac:(reflexivity)) as G4.
  pose proof (ugcnt_init cfin progs ltac:(reflexivity)) as G5.
  destruct acc; constructor; simpl; rewrite ?G1, ?G2, ?G3, ?G4, ?G5; auto; try discriminate; try tauto;
    try (split; intros; auto; discriminate).
Qed.

Theorem uinv_reachable acc cap progs x : ureachable acc cap progs x -> UInv x.
Proof.
  intros [l Hl]. revert Hl. generalize (uinv_init acc cap progs). generalize (uinit acc cap progs).
  induction l as [|a r IH]; intros y Iy H; simpl in H.
  - inversion H; subst; auto.
  - destruct (ustep y a) eqn:E; [|discriminate]. eapply IH; [|exact H]. eapply uinv_step; eauto.
Qed.

(* ---- theorems *)
Theorem unrel_safe acc cap progs x : ureachable acc cap progs x ->
  upanic (ushd x) = false /\ after_fin (ushd x) = false /\
  (sq_closed (ushd x) = true -> st (ushd x) = UClosed /\ gcnt wsend (uths x) = 0) /\
  (st (ushd x) = UClosed -> gcnt wsend (uths x) = 0) /\
  gcnt closer (uths x) <= 1 /\ gcnt holder (uths x) <= 1.
Proof.
  intros Hr. apply uinv_reachable in Hr. destruct Hr as [A0 A1 A2 A3 A4 A5 A6 A7 A8 A8' A9 A9' A10 A12].
  split; [exact A0|]. split; [exact A9|]. split; [|split; [exact A2|split]].
  - intros H. specialize (A12 H). split; auto.
  - rewrite A3. destruct (_ && _)%bool; simpl; lia.
  - rewrite A1. destruct (mu (ushd x)); simpl; lia.
Qed.
