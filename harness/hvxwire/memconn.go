package hvxwire

import (
	"net"
	"os"
	"sync"
	"time"
)

// MemConn is one end of an in-memory, message-oriented, lossless connection
// (transport.MsgConn). Inject puts a raw datagram into this end's receive queue as if the
// peer had sent it.
type MemConn struct {
	in     chan []byte
	peer   *MemConn
	closed chan struct{}
	once   sync.Once

	mu       sync.Mutex
	deadline time.Time
}

type memAddr string

func (a memAddr) Network() string { return "mem" }
func (a memAddr) String() string  { return string(a) }

// NewMemPair returns two connected ends.
func NewMemPair() (*MemConn, *MemConn) {
	a := &MemConn{in: make(chan []byte, 1<<14), closed: make(chan struct{})}
	b := &MemConn{in: make(chan []byte, 1<<14), closed: make(chan struct{})}
	a.peer, b.peer = b, a
	return a, b
}

// Inject delivers a raw datagram to this end's reader.
func (c *MemConn) Inject(b []byte) bool {
	select {
	case c.in <- append([]byte(nil), b...):
		return true
	case <-c.closed:
		return false
	}
}

func (c *MemConn) ReadMsg(b []byte) (int, error) {
	c.mu.Lock()
	d := c.deadline
	c.mu.Unlock()
	var tc <-chan time.Time
	if !d.IsZero() {
		t := time.NewTimer(time.Until(d))
		defer t.Stop()
		tc = t.C
	}
	select {
	case m := <-c.in:
		return copy(b, m), nil
	case <-c.closed:
		return 0, net.ErrClosed
	case <-tc:
		return 0, os.ErrDeadlineExceeded
	}
}

func (c *MemConn) WriteMsg(b []byte) error {
	select {
	case <-c.closed:
		return net.ErrClosed
	default:
	}
	select {
	case c.peer.in <- append([]byte(nil), b...):
	case <-c.peer.closed: // peer gone: datagrams vanish
	case <-c.closed:
		return net.ErrClosed
	}
	return nil
}

func (c *MemConn) Read(p []byte) (int, error) { return c.ReadMsg(p) }
func (c *MemConn) Write(p []byte) (int, error) {
	if err := c.WriteMsg(p); err != nil {
		return 0, err
	}
	return len(p), nil
}
func (c *MemConn) Close() error {
	c.once.Do(func() { close(c.closed) })
	return nil
}
func (c *MemConn) LocalAddr() net.Addr  { return memAddr("local") }
func (c *MemConn) RemoteAddr() net.Addr { return memAddr("remote") }
func (c *MemConn) SetDeadline(t time.Time) error {
	return c.SetReadDeadline(t)
}
func (c *MemConn) SetReadDeadline(t time.Time) error {
	c.mu.Lock()
	c.deadline = t
	c.mu.Unlock()
	return nil
}
func (c *MemConn) SetWriteDeadline(t time.Time) error { return nil }
