(* ShutdownQProofs.v — the bounded sender queue and the tube lock (Model/ShutdownQ.v): invariant,
   deadlock freedom of the fixed code for every capacity and schedule, the deadlock of the code
   before the fix for every capacity >= 1. *)
From Hop Require Import Base ShutdownQ.
From Coq Require Import Lia Arith Bool List.
Import ListNotations.
Local Open Scope nat_scope.

Definition b2n (b : bool) : nat := if b then 1 else 0.
Definition hR (r : rpc) := match r with R_enq => 1 | _ => 0 end.
Definition hS (s : spc) := match s with S_tick | S_win => 1 | _ => 0 end.
Definition hC (c : cpc) := match c with C_fin => 1 | _ => 0 end.
Definition hF (f : fpc) := match f with F_in => 1 | _ => 0 end.
Definition f_closed (f : fpc) := match f with F_waitsd | F_done => true | _ => false end.
Definition f_done (f : fpc) := match f with F_done => true | _ => false end.
Definition f_timer (f : fpc) := match f with F_timer => true | _ => false end.

Record QInv (x : qst) : Prop := {
  q_hold : hR (rp x) + hS (sp x) + hC (cp x) + hF (fp x) = b2n (lk x);   (* one holder of r.l *)
  q_qc : qc x = tc x;
  q_tc : f_closed (fp x) = tc x;
  q_rc : f_done (fp x) = rc x;
  q_xc : negb (f_timer (fp x)) = xc x;
  q_pn : pn x = false;
  q_sd : sp x = S_done -> tc x = true /\ ql x = 0;
  q_cf : cp x = C_fin -> tc x = false
}.

Lemma qinv_init mw : QInv (qinit mw).
Proof. constructor; simpl; auto; discriminate. Qed.

Ltac qcases H :=
  repeat (match type of H with
          | context [if ?b then _ else _] => let E := fresh "E" in destruct b eqn:E
          | context [match ?q with O => _ | S _ => _ end] => destruct q
          | context [match ?v with S_sel => _ | S_hand => _ | S_tick_lock => _ | S_tick => _ | S_win_lock => _ | S_win => _ | S_done => _ end] => destruct v
          | context [match ?o with Some _ => _ | None => _ end] => let E := fresh "Eo" in destruct o eqn:E
          end; simpl in H); try discriminate H; match type of H with Some _ = Some ?y => inversion H; clear H; subst y end.

Lemma qinv_step c x a x' : QInv x -> qstep c x a = Some x' -> QInv x'.
Proof.
  intros I H. destruct x as [r s m cl f l q qcl t rcl xcl p].
  destruct I as [I1 I2 I3 I4 I5 I6 I7 I8]; simpl in *. subst qcl p.
  destruct a; simpl in H;
  [ destruct r | destruct s | destruct s | destruct r | destruct s | destruct m | destruct cl | destruct f ];
  qcases H; constructor; simpl in *; auto; try discriminate; try congruence; try lia.
  all: try (destruct l; simpl in *; try discriminate; lia).
  all: try (intros Hs; destruct (I7 Hs); split; [congruence|lia]; fail).
  all: try (intros Hs; specialize (I8 Hs); congruence).
  all: try (intros Hs; destruct (I7 Hs) as [Ht _]; rewrite Ht in *; discriminate).
  all: try (intros Hs; subst; simpl in *; destruct l; simpl in *; lia).
Qed.

Lemma qinv_run c l : forall x x', QInv x -> qrun c x l = Some x' -> QInv x'.
Proof.
  induction l as [|a l IH]; intros x x' I H; simpl in H.
  - inversion H; subst; auto.
  - destruct (qstep c x a) as [y|] eqn:E; [|discriminate]. eapply IH; [eapply qinv_step; eauto|exact H].
Qed.

Lemma qinv_reach c x : qreach c x -> QInv x.
Proof. intros (mw & l & H). eapply qinv_run; [apply (qinv_init mw)|exact H]. Qed.

Lemma q_quiet_final c x : qfixed c = true -> QInv x -> qquiet c x -> qfinal x.
Proof.
  intros Hf I Hq.
  pose proof (Hq ARecv eq_refl) as HR. pose proof (Hq ASend eq_refl) as HS. pose proof (Hq AMux eq_refl) as HM.
  pose proof (Hq AClose eq_refl) as HC. pose proof (Hq AForce eq_refl) as HF. clear Hq.
  destruct x as [r s m cl f l q qcl t rcl xcl p].
  destruct I as [I1 I2 I3 I4 I5 I6 I7 I8]; simpl in *. subst qcl p.
  unfold enq in *. rewrite Hf in *.
  destruct f; simpl in HF; try discriminate HF; simpl in *; subst t rcl xcl; simpl in *.
  all: destruct l; simpl in *; try discriminate HF.
  all: destruct r; simpl in HR; try discriminate HR; simpl in I1; try lia.
  all: destruct s; simpl in HS; try discriminate HS; simpl in I1; try lia.
  all: destruct cl; simpl in HC; try discriminate HC; simpl in I1; try lia.
  all: destruct m; simpl in HM, HS; try discriminate HM; try discriminate HS.
  all: repeat match goal with H : context [if ?b then _ else _] |- _ => destruct b eqn:?; simpl in H; try discriminate H end.
  all: try (destruct q; simpl in *; discriminate).
  all: destruct (I7 eq_refl); unfold qfinal; simpl; repeat split; auto.
Qed.

(* ---------------------------------------------------------------- the code before the fix *)
Definition qbase (k : nat) : qst := mkQ R_idle S_sel M_recv C_lock F_timer false k false false false false false.
Definition qfill (n : nat) : list qact := concat (repeat [AArr; ARecv; ARecv] n).

Lemma qrun_app c l1 : forall x l2, qrun c x (l1 ++ l2) = match qrun c x l1 with Some y => qrun c y l2 | None => None end.
Proof. induction l1 as [|a l1 IH]; intros x l2; simpl; auto. destruct (qstep c x a); auto. Qed.

Lemma qfill_run c n : forall k, k + n <= qcap c -> qrun c (qbase k) (qfill n) = Some (qbase (k + n)).
Proof.
  induction n as [|n IH]; intros k Hk.
  - simpl. rewrite Nat.add_0_r. reflexivity.
  - unfold qfill. cbn [repeat concat]. rewrite qrun_app.
    assert (E : qrun c (qbase k) [AArr; ARecv; ARecv] = Some (qbase (S k))).
    { cbn. unfold enq. assert (Hl : (k <? qcap c) = true) by (apply Nat.ltb_lt; lia). rewrite Hl. reflexivity. }
    rewrite E. fold (qfill n). rewrite IH by lia. f_equal. f_equal. lia.
Qed.

Definition qstuck (cap : nat) : qst := mkQ R_enq S_tick_lock M_recv C_lock F_lock true cap false false false true false.

Lemma q_unfixed_deadlock cap wb rx : 1 <= cap ->
  qrun (mkQC cap false wb rx) (qinit false) (qfill cap ++ [AArr; ARecv; ATick; AForce]) = Some (qstuck cap) /\ qdead (mkQC cap false wb rx) (qstuck cap).
Proof.
  intros Hc. split.
  - rewrite qrun_app. change (qinit false) with (qbase 0). rewrite qfill_run by (simpl; lia). reflexivity.
  - intros a. destruct a; try reflexivity. unfold qstuck, qstep, enq. cbv [orb qcap qfixed]. rewrite Nat.ltb_irrefl. reflexivity.
Qed.

(* ---------------------------------------------------------------- statements used by Properties/C16.v *)
Lemma q_fixed_returns cap wb rx x : qreach (mkQC cap true wb rx) x -> qquiet (mkQC cap true wb rx) x ->
  qfinal x /\ pn x = false.
Proof.
  intros R Q. pose proof (qinv_reach _ _ R) as I. split; [apply (q_quiet_final (mkQC cap true wb rx)); [reflexivity|exact I|exact Q]|apply (q_pn _ I)].
Qed.

Lemma q_safe c x : qreach c x ->
  pn x = false /\ hR (rp x) + hS (sp x) + hC (cp x) + hF (fp x) = b2n (lk x) /\ qc x = tc x /\ (rc x = true -> tc x = true).
Proof.
  intros R. pose proof (qinv_reach _ _ R) as I. destruct I as [I1 I2 I3 I4 I5 I6 I7 I8].
  repeat split; auto.
  intros H. rewrite <- I3. rewrite <- I4 in H. destruct (fp x); simpl in *; auto; discriminate.
Qed.
