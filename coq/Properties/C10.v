(* C10 — no unauthenticated datagram crashes or wedges a transport endpoint.

   Model: Model/HsServer.v — server_step (Server.readPacket on one datagram) and client_step (the
   client's receive steps) over the readers of Model/Handshake.v. The handling of packets of
   established sessions (handleSessionMessage/readPacketLocked) is the parameter SM: its own
   totality and reject-preserves-state theorems are the packet model's (C03); they enter here
   as the named premises sm_total and sm_rejects. *)
From Hop Require Import Base Handshake HsServer HandshakeProofs HsServerProofs.
Open Scope N_scope.

(* Server.readPacket never panics, whatever the datagram (any length, any content), the state
   and the behaviour of every cryptographic primitive — provided the session-packet path does
   not (sm_total) and one of the (at most 100) random session ids is free (rand_ok). *)
Theorem c10_server_step_total : forall O X SM s I a d,
  sm_total SM -> rand_ok s I -> so_res (server_step O X SM s I a d) <> Panic.
Proof. exact server_step_total. Qed.
Print Assumptions c10_server_step_total.

(* the one reader that reads before checking a length is guarded by readPacket (msgLen >= 4) *)
Theorem c10_hidden_reader_needs_four_bytes : forall O X certs pol now T b,
  (4 <= len b -> snd (read_request_hidden O X certs pol now T b) <> Panic) /\
  (len b < 4 -> snd (read_request_hidden O X certs pol now T b) = Panic).
Proof.
  intros. split; [apply read_request_hidden_no_panic | apply read_request_hidden_panics_below_4].
Qed.
Print Assumptions c10_hidden_reader_needs_four_bytes.

(* the client's receive steps never panic either, in any state *)
Theorem c10_client_step_total : forall O X SM st a d stale,
  sm_total SM -> snd (client_step O X SM st a d stale) <> Panic.
Proof. exact client_step_total. Qed.
Print Assumptions c10_client_step_total.

(* A datagram that authenticates under no session leaves the server state EXACTLY unchanged
   (sessions, pending handshakes, accept queue, cookie key), unless it is a ClientAck whose cookie
   opened and whose MAC verified, a ClientAuth from an address with a pending handshake, or a
   hidden request accepted by its reader. Hence any later run behaves as if the junk had never
   arrived. *)
Theorem c10_junk_leaves_state : forall O X SM s I a d,
  sm_rejects SM a d ->
  let o := server_step O X SM s I a d in
  so_srv o = s \/
  (at_ d 0 = MT_ClientAck /\ exists n k, read_client_ack O X (sv_ck s) (fst a) (snd a) d = Ok (n, k)) \/
  (at_ d 0 = MT_ClientAuth /\ exists h, find_hs a (sv_hs s) = Some h) \/
  (at_ d 0 = MT_ClientRequestHidden /\
   exists T q, read_request_hidden O X (i_certs I) (sv_pol s) (i_now I) [] d = (T, Ok q)).
Proof. exact server_step_junk_leaves_state. Qed.
Print Assumptions c10_junk_leaves_state.

(* no datagram ever changes the cookie key, the mode or the policy *)
Theorem c10_config_unchanged : forall O X SM s I a d,
  let s' := so_srv (server_step O X SM s I a d) in
  sv_ck s' = sv_ck s /\ sv_hidden s' = sv_hidden s /\ sv_pol s' = sv_pol s /\ sv_serving s' = sv_serving s.
Proof. exact server_step_config_unchanged. Qed.
Print Assumptions c10_config_unchanged.

(* non-vacuity of the premises: a packet model that rejects everything satisfies both *)
Example c10_premises_satisfiable :
  sm_total (fun _ _ _ => Err) /\ (forall a d, sm_rejects (fun _ _ _ => Err) a d).
Proof. split; [intros x a d H; discriminate | intros a d x; reflexivity]. Qed.
