// c10: correspondence driver for C10 (no unauthenticated datagram crashes or wedges an endpoint):
// junk bursts against a stepped real server in every state and configuration and against the
// client's readers, each datagram through Server.readPacket under recover().
package main

import (
	"github.com/sirupsen/logrus"
	"verifharness/hsx"
	"verifharness/hv"
)

func main() {
	defer hv.Flush()
	logrus.SetLevel(logrus.PanicLevel)
	r := hv.NewRand(hv.Seed())
	w := hsx.NewWorld()
	w.C10Server(r)
	w.C10Names()
	w.C10HopServer(r)
	w.C10CraftedCertBlocks(r)
	w.C10Client(r)
}
