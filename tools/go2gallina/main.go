// go2gallina: translate a small, pure subset of Go into Gallina (Coq) definitions.
//
//	go2gallina -file <path.go> -funcs T.Method,Func,... -o Out.v [-fuel 'Func#1=<gallina nat expr>'] [-assume-empty-variadic]
//
// Shallow embedding: every Go function becomes one Gallina function in the `res` monad of
// coq/Model/Base.v (Ok / Panic; Err = loop fuel exhausted), every `for` loop one fuelled
// Fixpoint.  The Go semantics assumed for the subset are the definitions of coq/Model/GoSem.v.
// Anything outside the subset is refused with "untranslatable construct at file:line:col";
// nothing is ever skipped silently.  See docs/XLATE.md.
//
// Standard library only (go/parser, go/ast, go/types).
package main

import (
	"crypto/sha256"
	"flag"
	"fmt"
	"go/ast"
	"go/constant"
	"go/importer"
	"go/parser"
	"go/token"
	"go/types"
	"os"
	"path/filepath"
	"strings"
)

type kind int

const (
	kBad    kind = iota
	kN           // uint64
	kByte        // uint8 / byte (only compared, and-ed, or-ed; no arithmetic)
	kZ           // int
	kBool        //
	kList        // string, [k]uint64, []uint64, []byte  -> list N
	kStruct      // a translated struct type
)

func (k kind) gallina() string {
	switch k {
	case kN, kByte:
		return "N"
	case kZ:
		return "Z"
	case kBool:
		return "bool"
	case kList:
		return "list N"
	}
	return "?"
}

type untranslatable struct{ msg string }

type tr struct {
	fset     *token.FileSet
	info     *types.Info
	file     *ast.File
	path     string
	defs     []string // emitted top-level definitions, in order
	structs  map[*types.Named]*structInfo
	fuel     map[string]string
	emptyVar bool
	topNames map[string]bool
}

type fieldInfo struct {
	name   string
	k      kind
	arrLen int64 // >=0 for fixed arrays
}

type structInfo struct {
	name   string
	fields []fieldInfo
}

func (t *tr) fail(n ast.Node, format string, a ...interface{}) {
	p := t.fset.Position(n.Pos())
	panic(untranslatable{fmt.Sprintf("untranslatable construct at %s:%d:%d: %s", filepath.Base(p.Filename), p.Line, p.Column, fmt.Sprintf(format, a...))})
}

func (t *tr) kindOf(n ast.Node, T types.Type) kind {
	switch u := T.Underlying().(type) {
	case *types.Basic:
		switch u.Kind() {
		case types.Uint64:
			return kN
		case types.Uint8:
			return kByte
		case types.Int, types.UntypedInt, types.UntypedRune:
			return kZ
		case types.Bool, types.UntypedBool:
			return kBool
		case types.String:
			return kList
		}
	case *types.Array:
		if k := t.kindOf(n, u.Elem()); k == kN || k == kByte {
			return kList
		}
	case *types.Slice:
		if k := t.kindOf(n, u.Elem()); k == kN || k == kByte {
			return kList
		}
	case *types.Struct:
		if nm, ok := T.(*types.Named); ok {
			if _, ok := t.structs[nm]; ok {
				return kStruct
			}
		}
	}
	t.fail(n, "type %s is outside the supported subset (uint64, uint8, int, bool, string, arrays/slices of uint64 or byte)", T)
	return kBad
}

// ---------------------------------------------------------------- per-function context

// term: a translated expression = monadic bindings to run first (pre, lines "x <- e ;;\n") followed by a
// pure Gallina term (code) that may mention the names bound in pre.
type term struct {
	pre  string
	code string
}

func pureT(code string) term { return term{"", code} }
func (a term) isPure() bool  { return a.pre == "" }

type flow struct {
	ret  func(v string) string // code for `return` of the packaged function result v
	brk  func() string
	cont func() string
}

type loopInfo struct {
	name     string
	params   []string
	assigned []string
	fuel     string
	hasRet   bool // a `return` occurs inside; otherwise the LRet case is typed Empty_set
}

type fctx struct {
	t        *tr
	name     string
	decl     *ast.FuncDecl
	names    map[types.Object]string
	used     map[string]bool
	order    []string
	kinds    map[string]kind
	recv     types.Object
	recvS    *structInfo
	recvPtr  bool
	resKind  kind // kBad = no result
	retType  string
	tmp      int
	loopN    int
	loops    map[*ast.ForStmt]*loopInfo
	joins    map[*ast.IfStmt][]string // variables joined after an if without escapes (computed once per statement)
	emptyVar types.Object             // variadic parameter assumed empty (-assume-empty-variadic)
	deadVars map[types.Object]bool
}

var reserved = map[string]bool{}

func init() {
	for _, w := range strings.Fields(`as at cofix else end exists exists2 fix for forall fun if IF in let match mod return then using where with
		Prop Set Type SProp by do
		Ok Err Panic bind res true false negb andb orb xorb nil cons length nth repeat list bool N Z nat O S tt unit fst snd pair
		w64 u64_add u64_sub u64_mul u64_shl u64_div u64_rem u64_not u64_andnot i64_wrap i64_add i64_sub i64_mul i64_neg
		zlen aget aset zget zset lupd lres LNext LRet is_u64 is_i64 foldM Forall`) {
		reserved[w] = true
	}
}

func (c *fctx) fresh(base string) string {
	c.tmp++
	return fmt.Sprintf("%s''%d", base, c.tmp) // two quotes: cannot collide with a Go name or a renamed Go variable (x'1)
}

// declare gives a Go variable its Gallina name: the Go name, made unique within the function
// (Go scopes may reuse a name for a different variable; Gallina `let` would shadow for too long).
func (c *fctx) declare(obj types.Object, k kind) string {
	if n, ok := c.names[obj]; ok {
		return n
	}
	n := obj.Name()
	if reserved[n] || c.used[n] || c.t.topNames[n] {
		for i := 1; ; i++ {
			cand := fmt.Sprintf("%s'%d", obj.Name(), i)
			if !c.used[cand] {
				n = cand
				break
			}
		}
	}
	c.used[n] = true
	c.names[obj] = n
	c.order = append(c.order, n)
	c.kinds[n] = k
	return n
}

func (c *fctx) fieldVar(f string) string { return c.recv.Name() + "'" + f }

// lvalue / variable reference: returns the Gallina variable name, or "" if e is not a variable
func (c *fctx) varRef(e ast.Expr) string {
	switch e := e.(type) {
	case *ast.ParenExpr:
		return c.varRef(e.X)
	case *ast.Ident:
		obj := c.t.info.Uses[e]
		if obj == nil {
			obj = c.t.info.Defs[e]
		}
		if obj == nil {
			return ""
		}
		if c.deadVars[obj] {
			c.t.fail(e, "use of %s, which is only supported when it is never read", e.Name)
		}
		if n, ok := c.names[obj]; ok {
			return n
		}
	case *ast.SelectorExpr:
		if id, ok := e.X.(*ast.Ident); ok && c.recv != nil && c.t.info.Uses[id] == c.recv {
			for _, f := range c.recvS.fields {
				if f.name == e.Sel.Name {
					return c.fieldVar(f.name)
				}
			}
		}
	}
	return ""
}

func constLit(v constant.Value, k kind) (string, bool) {
	switch k {
	case kBool:
		if v.Kind() == constant.Bool {
			if constant.BoolVal(v) {
				return "true", true
			}
			return "false", true
		}
	case kN, kByte:
		if v.Kind() == constant.Int && constant.Sign(v) >= 0 {
			return v.ExactString(), true
		}
	case kZ:
		if v.Kind() == constant.Int {
			return "(" + v.ExactString() + ")%Z", true
		}
	}
	return "", false
}

// bind: run a's bindings, then the monadic code f builds from its value
func (c *fctx) bind(a term, base string, f func(x string) string) string {
	return a.pre + f(a.code)
}

// lift: the whole term as one monadic expression
func lift(a term) string {
	if a.isPure() {
		return "Ok " + paren(a.code)
	}
	return "(" + a.pre + "Ok " + paren(a.code) + ")"
}

func (c *fctx) typeKind(e ast.Expr) kind {
	tv, ok := c.t.info.Types[e]
	if !ok || tv.Type == nil {
		c.t.fail(e, "expression has no type (type error in the source?)")
	}
	return c.t.kindOf(e, tv.Type)
}

// expr translates an expression; hint is the kind to use for an untyped constant
func (c *fctx) expr(e ast.Expr, hint kind) term {
	t := c.t
	if tv, ok := t.info.Types[e]; ok && tv.Value != nil {
		k := hint
		if b, ok := tv.Type.Underlying().(*types.Basic); !ok || b.Info()&types.IsUntyped == 0 {
			k = t.kindOf(e, tv.Type)
		}
		if s, ok := constLit(tv.Value, k); ok {
			if id, ok := e.(*ast.Ident); ok && id.Name != "true" && id.Name != "false" {
				s += " (*" + id.Name + "*)"
			}
			return pureT(s)
		}
		t.fail(e, "constant %s not representable in the model of its type", tv.Value)
	}
	switch e := e.(type) {
	case *ast.ParenExpr:
		return c.expr(e.X, hint)
	case *ast.Ident, *ast.SelectorExpr:
		if n := c.varRef(e); n != "" {
			return pureT(n)
		}
		t.fail(e, "reference to something that is not a local variable, parameter, receiver field or constant")
	case *ast.IndexExpr:
		base := c.varRef(e.X)
		if base == "" || c.kinds[base] != kList {
			t.fail(e, "index expression on something other than a string/array/slice variable")
		}
		ik := c.typeKind(e.Index)
		idx := c.expr(e.Index, kZ)
		get := "aget"
		if ik == kZ {
			get = "zget"
		} else if ik != kN && ik != kByte {
			t.fail(e.Index, "index of unsupported type")
		}
		x := c.fresh("x")
		return term{idx.pre + x + " <- " + get + " " + base + " " + paren(idx.code) + " ;;\n", x}
	case *ast.CallExpr:
		if id, ok := e.Fun.(*ast.Ident); ok && len(e.Args) == 1 {
			if b, ok := t.info.Uses[id].(*types.Builtin); ok && b.Name() == "len" {
				x := c.varRef(e.Args[0])
				if x == "" || c.kinds[x] != kList {
					t.fail(e, "len of something other than a string/array/slice variable")
				}
				return pureT("zlen " + x)
			}
			if tv, ok := t.info.Types[e.Fun]; ok && tv.IsType() {
				from, to := c.typeKind(e.Args[0]), t.kindOf(e, tv.Type)
				if from == to && (to == kN || to == kZ || to == kByte) {
					return c.expr(e.Args[0], to)
				}
				t.fail(e, "conversion between different integer types")
			}
		}
		t.fail(e, "function call")
	case *ast.UnaryExpr:
		k := c.typeKind(e)
		x := c.expr(e.X, k)
		var f string
		switch {
		case e.Op == token.NOT && k == kBool:
			f = "negb"
		case e.Op == token.SUB && k == kZ:
			f = "i64_neg"
		case e.Op == token.XOR && k == kN:
			f = "u64_not"
		case e.Op == token.ADD && (k == kZ || k == kN):
			return x
		default:
			t.fail(e, "unary operator %s on this type", e.Op)
		}
		return term{x.pre, f + " " + paren(x.code)}
	case *ast.BinaryExpr:
		rk := c.typeKind(e)
		var ok kind // operand kind
		if e.Op == token.SHL || e.Op == token.SHR {
			ok = rk
			ck := kN
			if tv := t.info.Types[e.Y]; tv.Value == nil {
				ck = c.typeKind(e.Y)
				if ck != kN && ck != kByte {
					t.fail(e.Y, "shift count must be unsigned or constant (a negative count panics)")
				}
			} else if constant.Sign(tv.Value) < 0 {
				t.fail(e.Y, "negative shift count")
			}
			if ok != kN {
				t.fail(e, "shift of a non-uint64 value")
			}
			return c.binop(e, e.Op, ok, c.expr(e.X, ok), c.expr(e.Y, kN))
		}
		ok = c.operandKind(e.X, e.Y)
		return c.binop(e, e.Op, ok, c.expr(e.X, ok), c.expr(e.Y, ok))
	}
	t.fail(e, "expression form %T", e)
	return term{}
}

func (c *fctx) operandKind(x, y ast.Expr) kind {
	for _, e := range []ast.Expr{x, y} {
		tv := c.t.info.Types[e]
		if tv.Type == nil {
			c.t.fail(e, "untyped operand")
		}
		if b, ok := tv.Type.Underlying().(*types.Basic); ok && b.Info()&types.IsUntyped != 0 {
			continue
		}
		return c.t.kindOf(e, tv.Type)
	}
	return c.t.kindOf(x, c.t.info.Types[x].Type)
}

var opsN = map[token.Token]string{token.ADD: "u64_add", token.SUB: "u64_sub", token.MUL: "u64_mul", token.AND: "N.land",
	token.OR: "N.lor", token.XOR: "N.lxor", token.AND_NOT: "u64_andnot", token.SHL: "u64_shl", token.SHR: "N.shiftr"}
var opsByte = map[token.Token]string{token.AND: "N.land", token.OR: "N.lor", token.XOR: "N.lxor"}
var opsZ = map[token.Token]string{token.ADD: "i64_add", token.SUB: "i64_sub", token.MUL: "i64_mul"}

func (c *fctx) binop(n ast.Node, op token.Token, k kind, a, b term) term {
	pure2 := func(f func(x, y string) string) term {
		return term{a.pre + b.pre, f(paren(a.code), paren(b.code))}
	}
	app := func(fn string) term { return pure2(func(x, y string) string { return fn + " " + x + " " + y }) }
	cmp := func(pfx string) (term, bool) {
		switch op {
		case token.EQL:
			return app(pfx + ".eqb"), true
		case token.NEQ:
			return pure2(func(x, y string) string { return "negb (" + pfx + ".eqb " + x + " " + y + ")" }), true
		case token.LSS:
			return app(pfx + ".ltb"), true
		case token.LEQ:
			return app(pfx + ".leb"), true
		case token.GTR:
			return pure2(func(x, y string) string { return pfx + ".ltb " + y + " " + x }), true
		case token.GEQ:
			return pure2(func(x, y string) string { return pfx + ".leb " + y + " " + x }), true
		}
		return term{}, false
	}
	switch k {
	case kN, kByte:
		if r, ok := cmp("N"); ok {
			return r
		}
		tab := opsN
		if k == kByte {
			tab = opsByte
		}
		if f, ok := tab[op]; ok {
			return app(f)
		}
		if k == kN && (op == token.QUO || op == token.REM) {
			f := map[token.Token]string{token.QUO: "u64_div", token.REM: "u64_rem"}[op]
			q := c.fresh("q")
			return term{a.pre + b.pre + q + " <- " + f + " " + paren(a.code) + " " + paren(b.code) + " ;;\n", q}
		}
	case kZ:
		if r, ok := cmp("Z"); ok {
			return r
		}
		if f, ok := opsZ[op]; ok {
			return app(f)
		}
	case kBool:
		switch op {
		case token.EQL:
			return app("Bool.eqb")
		case token.NEQ:
			return app("xorb")
		case token.LAND:
			if b.isPure() {
				return app("andb")
			}
			cv := c.fresh("c") // short circuit: the right operand (which may panic) only when the left is true
			return term{a.pre + cv + " <- (if " + a.code + " then " + lift(b) + " else Ok false) ;;\n", cv}
		case token.LOR:
			if b.isPure() {
				return app("orb")
			}
			cv := c.fresh("c")
			return term{a.pre + cv + " <- (if " + a.code + " then Ok true else " + lift(b) + ") ;;\n", cv}
		}
	}
	c.t.fail(n, "operator %s on operands of this type", op)
	return term{}
}

func paren(s string) string {
	if strings.ContainsAny(s, " \n") && !(strings.HasPrefix(s, "(") && strings.HasSuffix(s, ")") && balanced(s[1:len(s)-1])) {
		return "(" + s + ")"
	}
	return s
}

func balanced(s string) bool {
	d := 0
	for _, r := range s {
		if r == '(' {
			d++
		} else if r == ')' {
			d--
			if d < 0 {
				return false
			}
		}
	}
	return d == 0
}

// ---------------------------------------------------------------- statements

func (c *fctx) seq(list []ast.Stmt, fl flow, k func() string) string {
	if len(list) == 0 {
		return k()
	}
	return c.stmt(list[0], fl, func() string { return c.seq(list[1:], fl, k) })
}

func (c *fctx) assignVar(name string, v term, k func() string) string {
	return v.pre + "let " + name + " := " + v.code + " in\n" + k()
}

var assignOps = map[token.Token]token.Token{token.ADD_ASSIGN: token.ADD, token.SUB_ASSIGN: token.SUB, token.MUL_ASSIGN: token.MUL,
	token.QUO_ASSIGN: token.QUO, token.REM_ASSIGN: token.REM, token.AND_ASSIGN: token.AND, token.OR_ASSIGN: token.OR,
	token.XOR_ASSIGN: token.XOR, token.SHL_ASSIGN: token.SHL, token.SHR_ASSIGN: token.SHR, token.AND_NOT_ASSIGN: token.AND_NOT}

// assign: lhs (op)= rhs, where rhs is already a term of kind k
func (c *fctx) assign(n ast.Node, lhs ast.Expr, op token.Token, isDef bool, rhs func(k kind) term, k func() string) string {
	t := c.t
	if id, ok := lhs.(*ast.Ident); ok && id.Name == "_" {
		r := rhs(kZ)
		return c.bind(r, "x", func(string) string { return k() })
	}
	if ix, ok := lhs.(*ast.IndexExpr); ok {
		base := c.varRef(ix.X)
		if base == "" || c.kinds[base] != kList {
			t.fail(lhs, "assignment through an index on something other than an array/slice variable")
		}
		if tv := t.info.Types[ix.X]; tv.Type != nil {
			if b, ok := tv.Type.Underlying().(*types.Basic); ok && b.Kind() == types.String {
				t.fail(lhs, "assignment to a string element")
			}
		}
		if tv := t.info.Types[ix.X]; tv.Type != nil {
			if _, ok := tv.Type.Underlying().(*types.Slice); ok {
				t.fail(lhs, "element assignment through a slice (aliasing between slices is not modelled)")
			}
		}
		ik := c.typeKind(ix.Index)
		get, set := "aget", "aset"
		if ik == kZ {
			get, set = "zget", "zset"
		}
		ek := c.typeKind(lhs)
		idx := c.expr(ix.Index, kZ)
		return c.bind(idx, "i", func(i string) string {
			r := rhs(ek)
			if op != token.ILLEGAL {
				old := c.fresh("o")
				r = c.binop(n, op, ek, pureT(old), r)
				return old + " <- " + get + " " + base + " " + paren(i) + " ;;\n" +
					c.bind(r, "v", func(v string) string {
						return base + " <- " + set + " " + base + " " + paren(i) + " " + paren(v) + " ;;\n" + k()
					})
			}
			return c.bind(r, "v", func(v string) string {
				return base + " <- " + set + " " + base + " " + paren(i) + " " + paren(v) + " ;;\n" + k()
			})
		})
	}
	var name string
	var vk kind
	if id, ok := lhs.(*ast.Ident); ok && isDef && t.info.Defs[id] != nil {
		obj := t.info.Defs[id]
		vk = t.kindOf(lhs, obj.Type())
		if vk == kStruct {
			t.fail(lhs, "local variable of struct type")
		}
		r := rhs(vk) // evaluate the right-hand side before the new name exists
		name = c.declare(obj, vk)
		return c.assignVar(name, r, k)
	}
	name = c.varRef(lhs)
	if name == "" {
		t.fail(lhs, "assignment to something that is not a local variable, receiver field or array element")
	}
	vk = c.kinds[name]
	r := rhs(vk)
	if op != token.ILLEGAL {
		r = c.binop(n, op, vk, pureT(name), r)
	}
	return c.assignVar(name, r, k)
}

func (c *fctx) stmt(s ast.Stmt, fl flow, k func() string) string {
	t := c.t
	switch s := s.(type) {
	case *ast.EmptyStmt:
		return k()
	case *ast.BlockStmt:
		return c.seq(s.List, fl, k)
	case *ast.AssignStmt:
		if len(s.Lhs) != 1 || len(s.Rhs) != 1 {
			t.fail(s, "multiple assignment")
		}
		op := token.ILLEGAL
		if s.Tok != token.ASSIGN && s.Tok != token.DEFINE {
			o, ok := assignOps[s.Tok]
			if !ok {
				t.fail(s, "assignment operator %s", s.Tok)
			}
			op = o
		}
		// g := T{...} whose value is never read (glob.go): nothing to translate
		if id, ok := s.Lhs[0].(*ast.Ident); ok && s.Tok == token.DEFINE {
			if obj := t.info.Defs[id]; obj != nil && c.deadVars[obj] {
				return k()
			}
		}
		if cl, ok := s.Rhs[0].(*ast.CompositeLit); ok {
			// zero composite literal of a fixed array type
			tv := t.info.Types[cl]
			if arr, ok := tv.Type.Underlying().(*types.Array); ok && len(cl.Elts) == 0 && t.kindOf(cl, tv.Type) == kList {
				return c.assign(s, s.Lhs[0], op, s.Tok == token.DEFINE, func(kind) term {
					return pureT(fmt.Sprintf("repeat 0 %d%%nat", arr.Len()))
				}, k)
			}
			t.fail(cl, "composite literal (only the zero literal of a fixed array type is supported)")
		}
		if op == token.SHL || op == token.SHR {
			return c.assign(s, s.Lhs[0], op, false, func(kind) term { return c.expr(s.Rhs[0], kN) }, k)
		}
		return c.assign(s, s.Lhs[0], op, s.Tok == token.DEFINE, func(vk kind) term { return c.expr(s.Rhs[0], vk) }, k)
	case *ast.IncDecStmt:
		op := token.ADD
		if s.Tok == token.DEC {
			op = token.SUB
		}
		return c.assign(s, s.X, op, false, func(vk kind) term {
			one, _ := constLit(constant.MakeInt64(1), vk)
			return pureT(one)
		}, k)
	case *ast.DeclStmt:
		gd, ok := s.Decl.(*ast.GenDecl)
		if !ok || gd.Tok != token.VAR {
			t.fail(s, "local declaration other than var")
		}
		var specs []*ast.ValueSpec
		for _, sp := range gd.Specs {
			specs = append(specs, sp.(*ast.ValueSpec))
		}
		var rec func(i int) string
		rec = func(i int) string {
			if i == len(specs) {
				return k()
			}
			vs := specs[i]
			if len(vs.Names) != 1 || len(vs.Values) > 1 {
				t.fail(vs, "var declaration of several names")
			}
			return c.assign(s, vs.Names[0], token.ILLEGAL, true, func(vk kind) term {
				if len(vs.Values) == 1 {
					return c.expr(vs.Values[0], vk)
				}
				switch vk {
				case kN, kByte:
					return pureT("0")
				case kZ:
					return pureT("(0)%Z")
				case kBool:
					return pureT("false")
				}
				if arr, ok := t.info.Defs[vs.Names[0]].Type().Underlying().(*types.Array); ok {
					return pureT(fmt.Sprintf("repeat 0 %d%%nat", arr.Len()))
				}
				t.fail(vs, "zero value of this type")
				return term{}
			}, func() string { return rec(i + 1) })
		}
		return rec(0)
	case *ast.IfStmt:
		body := func() string {
			cond := c.expr(s.Cond, kBool)
			if !escapes(s) {
				// no return/break/continue inside: both branches fall through to what follows.  Join on the
				// tuple of the variables assigned in the branches instead of copying the continuation.
				vars, done := c.joins[s]
				if !done {
					known := map[string]bool{}
					for _, n := range c.order {
						known[n] = true
					}
					var nodes []ast.Node
					nodes = append(nodes, s.Body)
					if s.Else != nil {
						nodes = append(nodes, s.Else)
					}
					_, asg := c.scan(known, nodes...)
					for _, n := range c.order {
						if asg[n] {
							vars = append(vars, n)
						}
					}
					c.joins[s] = vars
				}
				gen := func(end string) (string, string) {
					kk := func() string { return end }
					nofl := flow{ret: func(string) string { panic("go2gallina: return inside a joined if") }}
					thenC := c.seq(s.Body.List, nofl, kk)
					elseC := end
					if s.Else != nil {
						elseC = c.stmt(s.Else, nofl, kk)
					}
					return thenC, elseC
				}
				thenC, elseC := gen("Ok " + tuple(vars))
				if !strings.Contains(thenC, "<-") && !strings.Contains(elseC, "<-") {
					thenC, elseC = gen(tuple(vars))
					bindv := tuple(vars)
					if len(vars) > 1 {
						bindv = "'" + bindv
					}
					return cond.pre + "let " + bindv + " := (if " + cond.code + " then (\n" + thenC + "\n) else (\n" + elseC + "\n)) in\n" + k()
				}
				j := c.fresh("j")
				rest := ""
				if len(vars) == 1 {
					rest = "let " + vars[0] + " := " + j + " in\n"
				} else if len(vars) > 1 {
					rest = "let '" + tuple(vars) + " := " + j + " in\n"
				}
				return cond.pre + j + " <- (if " + cond.code + " then (\n" + thenC + "\n) else (\n" + elseC + "\n)) ;;\n" + rest + k()
			}
			return c.bind(cond, "c", func(cv string) string {
				thenC := c.seq(s.Body.List, fl, k)
				var elseC string
				switch e := s.Else.(type) {
				case nil:
					elseC = k()
				default:
					elseC = c.stmt(e, fl, k)
				}
				return "if " + cv + " then (\n" + thenC + "\n) else (\n" + elseC + "\n)"
			})
		}
		if s.Init != nil {
			return c.stmt(s.Init, fl, body)
		}
		return body()
	case *ast.ForStmt:
		if s.Init != nil {
			return c.stmt(s.Init, fl, func() string { return c.loop(s, fl, k) })
		}
		return c.loop(s, fl, k)
	case *ast.RangeStmt:
		// for _, o := range opts { ... } over a variadic parameter assumed empty: zero iterations
		if id, ok := s.X.(*ast.Ident); ok && c.emptyVar != nil && t.info.Uses[id] == c.emptyVar {
			return k()
		}
		t.fail(s, "range loop")
	case *ast.ReturnStmt:
		switch {
		case len(s.Results) == 0 && c.resKind == kBad:
			return fl.ret(c.pack(""))
		case len(s.Results) == 1 && c.resKind != kBad:
			r := c.expr(s.Results[0], c.resKind)
			return c.bind(r, "r", func(v string) string { return fl.ret(c.pack(v)) })
		}
		t.fail(s, "return with %d values in a function with this signature (bare returns of named results are not supported)", len(s.Results))
	case *ast.BranchStmt:
		if s.Label != nil {
			t.fail(s, "labelled %s", s.Tok)
		}
		switch s.Tok {
		case token.BREAK:
			if fl.brk != nil {
				return fl.brk()
			}
		case token.CONTINUE:
			if fl.cont != nil {
				return fl.cont()
			}
		}
		t.fail(s, "%s here", s.Tok)
	}
	t.fail(s, "statement form %T", s)
	return ""
}

// escapes: does the statement contain a return, break or continue (conservatively: anywhere inside)?
func escapes(s ast.Node) bool {
	found := false
	ast.Inspect(s, func(n ast.Node) bool {
		switch n.(type) {
		case *ast.ReturnStmt, *ast.BranchStmt:
			found = true
		case *ast.FuncLit:
			return false
		}
		return !found
	})
	return found
}

func (c *fctx) pack(v string) string {
	st := ""
	if c.recvPtr {
		var fs []string
		for _, f := range c.recvS.fields {
			fs = append(fs, c.fieldVar(f.name))
		}
		st = "mk" + c.recvS.name + " " + strings.Join(fs, " ")
	}
	switch {
	case v == "" && st == "":
		return "tt"
	case v == "":
		return st
	case st == "":
		return v
	}
	return "(" + v + ", " + st + ")"
}

// variables (by Gallina name, among those known before the loop body) referenced / assigned in nodes
func (c *fctx) scan(known map[string]bool, nodes ...ast.Node) (ref, asg map[string]bool) {
	ref, asg = map[string]bool{}, map[string]bool{}
	root := func(e ast.Expr) string {
		for {
			switch x := e.(type) {
			case *ast.ParenExpr:
				e = x.X
				continue
			case *ast.IndexExpr:
				e = x.X
				continue
			}
			break
		}
		if _, ok := e.(*ast.Ident); ok {
			return c.varRefQuiet(e)
		}
		if _, ok := e.(*ast.SelectorExpr); ok {
			return c.varRefQuiet(e)
		}
		return ""
	}
	for _, n := range nodes {
		if n == nil {
			continue
		}
		ast.Inspect(n, func(n ast.Node) bool {
			switch x := n.(type) {
			case *ast.SelectorExpr:
				if v := c.varRefQuiet(x); v != "" && known[v] {
					ref[v] = true
				}
				return false
			case *ast.Ident:
				if v := c.varRefQuiet(x); v != "" && known[v] {
					ref[v] = true
				}
			case *ast.AssignStmt:
				for _, l := range x.Lhs {
					if v := root(l); v != "" && known[v] {
						asg[v] = true
						ref[v] = true
					}
				}
			case *ast.IncDecStmt:
				if v := root(x.X); v != "" && known[v] {
					asg[v] = true
					ref[v] = true
				}
			}
			return true
		})
	}
	return
}

func (c *fctx) varRefQuiet(e ast.Expr) string {
	if id, ok := e.(*ast.Ident); ok {
		obj := c.t.info.Uses[id]
		if obj == nil {
			obj = c.t.info.Defs[id]
		}
		if obj == nil || c.deadVars[obj] {
			return ""
		}
		return c.names[obj]
	}
	return c.varRef(e)
}

func (c *fctx) loop(s *ast.ForStmt, fl flow, k func() string) string {
	t := c.t
	li := c.loops[s]
	if li == nil {
		c.loopN++
		li = &loopInfo{name: fmt.Sprintf("%s_loop%d", c.name, c.loopN)}
		idx := c.loopN
		c.loops[s] = li
		known := map[string]bool{}
		for _, n := range c.order {
			known[n] = true
		}
		var nodes []ast.Node
		if s.Cond != nil {
			nodes = append(nodes, s.Cond)
		}
		if s.Post != nil {
			nodes = append(nodes, s.Post)
		}
		nodes = append(nodes, s.Body)
		ref, asg := c.scan(known, nodes...)
		for _, n := range c.order {
			if ref[n] {
				li.params = append(li.params, n)
			}
			if asg[n] {
				li.assigned = append(li.assigned, n)
			}
		}
		li.fuel = c.fuelFor(s, idx, asg)
		ast.Inspect(s.Body, func(n ast.Node) bool {
			if _, ok := n.(*ast.ReturnStmt); ok {
				li.hasRet = true
			}
			return true
		})
		retT := c.retType
		if !li.hasRet {
			retT = "Empty_set"
		}
		if li.hasRet && c.recvPtr {
			// a return inside the loop re-assembles the receiver: every field is needed
			for _, f := range c.recvS.fields {
				ref[c.fieldVar(f.name)] = true
			}
		}
		li.params = nil
		for _, n := range c.order {
			if ref[n] {
				li.params = append(li.params, n)
			}
		}
		// the loop function
		var ps []string
		for _, p := range li.params {
			ps = append(ps, fmt.Sprintf("(%s : %s)", p, c.kinds[p].gallina()))
		}
		nextT := "unit"
		if len(li.assigned) > 0 {
			var ts []string
			for _, a := range li.assigned {
				ts = append(ts, c.kinds[a].gallina())
			}
			nextT = strings.Join(ts, " * ")
		}
		recCall := func() string { return li.name + " n' " + strings.Join(li.params, " ") }
		inner := flow{
			ret:  func(v string) string { return "Ok (LRet " + paren(v) + ")" },
			brk:  func() string { return "Ok (LNext " + tuple(li.assigned) + ")" },
			cont: nil,
		}
		after := func() string {
			if s.Post != nil {
				return c.stmt(s.Post, flow{ret: inner.ret}, recCall)
			}
			return recCall()
		}
		inner.cont = after
		var body string
		if s.Cond == nil {
			body = c.seq(s.Body.List, inner, after)
		} else {
			cond := c.expr(s.Cond, kBool)
			body = c.bind(cond, "c", func(cv string) string {
				return "if " + cv + " then (\n" + c.seq(s.Body.List, inner, after) + "\n) else Ok (LNext " + tuple(li.assigned) + ")"
			})
		}
		p := t.fset.Position(s.Pos())
		def := fmt.Sprintf("(* %s:%d  for-loop %d of %s; fuel at the call site: %s *)\nFixpoint %s (fuel' : nat) %s {struct fuel'} : res (lres (%s) (%s)) :=\nmatch fuel' with\n| O => Err\n| S n' =>\n%s\nend.\n",
			filepath.Base(p.Filename), p.Line, idx, c.name, li.fuel, li.name, strings.Join(ps, " "), nextT, retT, body)
		t.defs = append(t.defs, indent(def))
	}
	r, v := c.fresh("r"), c.fresh("v")
	if !li.hasRet {
		return fmt.Sprintf("%s <- %s (%s) %s ;;\nmatch %s with\n| LRet %s => match %s with end\n| LNext %s => (\n%s\n)\nend",
			r, li.name, li.fuel, strings.Join(li.params, " "), r, v, v, tuple(li.assigned), k())
	}
	return fmt.Sprintf("%s <- %s (%s) %s ;;\nmatch %s with\n| LRet %s => %s\n| LNext %s => (\n%s\n)\nend",
		r, li.name, li.fuel, strings.Join(li.params, " "), r, v, fl.ret(v), tuple(li.assigned), k())
}

func tuple(xs []string) string {
	if len(xs) == 0 {
		return "tt"
	}
	if len(xs) == 1 {
		return xs[0]
	}
	return "(" + strings.Join(xs, ", ") + ")"
}

// fuelFor: for i := a; i < b; i++ (or <=) with i and the variables of b not assigned in the body
// runs the condition at most (b - a) + 1 (+1) times; otherwise a -fuel annotation is required.
func (c *fctx) fuelFor(s *ast.ForStmt, idx int, asg map[string]bool) string {
	t := c.t
	if f, ok := t.fuel[fmt.Sprintf("%s#%d", c.name, idx)]; ok {
		return f
	}
	bad := func() string {
		t.fail(s, "loop without a syntactic bound (for i := a; i < b; i++ with i, b unassigned in the body) and without a -fuel annotation %s#%d", c.name, idx)
		return ""
	}
	post, ok := s.Post.(*ast.IncDecStmt)
	if !ok || post.Tok != token.INC {
		return bad()
	}
	iv := c.varRefQuiet(post.X)
	cond, ok := s.Cond.(*ast.BinaryExpr)
	if iv == "" || !ok || (cond.Op != token.LSS && cond.Op != token.LEQ) || c.varRefQuiet(cond.X) != iv {
		return bad()
	}
	known := map[string]bool{}
	for _, n := range c.order {
		known[n] = true
	}
	_, basg := c.scan(known, s.Body)
	if basg[iv] {
		return bad()
	}
	bref, _ := c.scan(known, cond.Y)
	for v := range bref {
		if asg[v] {
			return bad()
		}
	}
	bt := c.expr(cond.Y, c.kinds[iv])
	if !bt.isPure() {
		return bad()
	}
	var f string
	switch c.kinds[iv] {
	case kN:
		f = "S (N.to_nat (" + paren(bt.code) + " - " + iv + "))"
	case kZ:
		f = "S (Z.to_nat (" + paren(bt.code) + " - " + iv + "))"
	default:
		return bad()
	}
	if cond.Op == token.LEQ {
		f = "S (" + f + ")"
	}
	return f
}

func indent(s string) string {
	lines := strings.Split(s, "\n")
	d := 0
	for i, l := range lines {
		l = strings.TrimSpace(l)
		closeFirst := strings.HasPrefix(l, ")") || l == "end" || l == "end."
		if closeFirst && d > 0 {
			d--
		}
		lines[i] = strings.Repeat("  ", d) + l
		open := strings.Count(l, "(") - strings.Count(l, ")") - strings.Count(l, "(*") + strings.Count(l, "*)")
		if closeFirst && strings.HasPrefix(l, ")") {
			open++
		}
		if strings.HasPrefix(l, "match ") {
			open++
		}
		d += open
		if d < 0 {
			d = 0
		}
	}
	return strings.Join(lines, "\n")
}

// ---------------------------------------------------------------- declarations

func (t *tr) structOf(n ast.Node, T types.Type) *structInfo {
	nm, ok := T.(*types.Named)
	if !ok {
		t.fail(n, "receiver type %s", T)
	}
	if si, ok := t.structs[nm]; ok {
		return si
	}
	st, ok := nm.Underlying().(*types.Struct)
	if !ok {
		t.fail(n, "receiver type %s is not a struct", T)
	}
	si := &structInfo{name: nm.Obj().Name()}
	for i := 0; i < st.NumFields(); i++ {
		f := st.Field(i)
		fi := fieldInfo{name: f.Name(), k: t.kindOf(n, f.Type()), arrLen: -1}
		if fi.k == kStruct {
			t.fail(n, "nested struct field %s", f.Name())
		}
		if a, ok := f.Type().Underlying().(*types.Array); ok {
			fi.arrLen = a.Len()
		}
		si.fields = append(si.fields, fi)
	}
	t.structs[nm] = si
	var fs, zs, wf, ps []string
	for _, f := range si.fields {
		fs = append(fs, fmt.Sprintf("%s_%s : %s", si.name, f.name, f.k.gallina()))
		proj := fmt.Sprintf("%s_%s s", si.name, f.name)
		switch {
		case f.arrLen >= 0:
			zs = append(zs, fmt.Sprintf("(repeat 0 %d%%nat)", f.arrLen))
			wf = append(wf, fmt.Sprintf("List.length (%s) = %d%%nat", proj, f.arrLen), fmt.Sprintf("Forall is_u64 (%s)", proj))
		case f.k == kN:
			zs = append(zs, "0")
			wf = append(wf, fmt.Sprintf("is_u64 (%s)", proj))
		case f.k == kByte:
			zs = append(zs, "0")
			wf = append(wf, fmt.Sprintf("%s < 256", proj))
		case f.k == kZ:
			zs = append(zs, "(0)%Z")
			wf = append(wf, fmt.Sprintf("is_i64 (%s)", proj))
		case f.k == kBool:
			zs = append(zs, "false")
		case f.k == kList:
			zs = append(zs, "[]")
		}
		ps = append(ps, f.name)
	}
	if len(wf) == 0 {
		wf = []string{"True"}
	}
	p := t.fset.Position(nm.Obj().Pos())
	t.defs = append(t.defs, fmt.Sprintf("(* %s:%d  type %s struct; _zero is Go's zero value, _wf the invariant Go's types guarantee *)\nRecord %s := mk%s { %s }.\nDefinition %s_zero : %s := mk%s %s.\nDefinition %s_wf (s : %s) : Prop :=\n  %s.\n",
		filepath.Base(p.Filename), p.Line, si.name, si.name, si.name, strings.Join(fs, "; "), si.name, si.name, si.name, strings.Join(zs, " "),
		si.name, si.name, strings.Join(wf, " /\\\n  ")))
	return si
}

func (t *tr) function(fd *ast.FuncDecl, gname string) {
	c := &fctx{t: t, name: gname, decl: fd, names: map[types.Object]string{}, used: map[string]bool{}, kinds: map[string]kind{},
		loops: map[*ast.ForStmt]*loopInfo{}, joins: map[*ast.IfStmt][]string{}, deadVars: map[types.Object]bool{}}
	if fd.Body == nil {
		t.fail(fd, "function without a body")
	}
	if fd.Type.TypeParams != nil {
		t.fail(fd, "generic function")
	}
	var binders []string
	prologue := ""
	if fd.Recv != nil {
		f := fd.Recv.List[0]
		if len(f.Names) != 1 {
			t.fail(fd, "unnamed receiver")
		}
		c.recv = t.info.Defs[f.Names[0]]
		T := c.recv.Type()
		if p, ok := T.(*types.Pointer); ok {
			c.recvPtr = true
			T = p.Elem()
		}
		c.recvS = t.structOf(fd, T)
		c.used[c.recv.Name()] = true
		binders = append(binders, fmt.Sprintf("(%s : %s)", c.recv.Name(), c.recvS.name))
		var fv []string
		for _, fi := range c.recvS.fields {
			n := c.fieldVar(fi.name)
			fv = append(fv, n)
			c.order = append(c.order, n)
			c.kinds[n] = fi.k
			c.used[n] = true
		}
		prologue = fmt.Sprintf("let '(mk%s %s) := %s in\n", c.recvS.name, strings.Join(fv, " "), c.recv.Name())
	}
	sig := t.info.Defs[fd.Name].Type().(*types.Signature)
	for i, f := range fd.Type.Params.List {
		for _, nm := range f.Names {
			obj := t.info.Defs[nm]
			if sig.Variadic() && i == len(fd.Type.Params.List)-1 {
				if !t.emptyVar {
					t.fail(f, "variadic parameter (pass -assume-empty-variadic to translate the function for calls without variadic arguments)")
				}
				c.emptyVar = obj
				c.deadVars[obj] = true
				continue
			}
			k := t.kindOf(f, obj.Type())
			if k == kStruct {
				t.fail(f, "struct parameter")
			}
			if nm.Name == "_" {
				binders = append(binders, fmt.Sprintf("(_ : %s)", k.gallina()))
				continue
			}
			n := c.declare(obj, k)
			binders = append(binders, fmt.Sprintf("(%s : %s)", n, k.gallina()))
		}
		if len(f.Names) == 0 {
			t.fail(f, "unnamed parameter")
		}
	}
	if fd.Type.Results != nil {
		if fd.Type.Results.NumFields() != 1 {
			t.fail(fd.Type.Results, "several results")
		}
		c.resKind = t.kindOf(fd.Type.Results, sig.Results().At(0).Type())
		if c.resKind == kStruct {
			t.fail(fd.Type.Results, "struct result")
		}
	}
	switch {
	case c.resKind == kBad && c.recvPtr:
		c.retType = c.recvS.name
	case c.resKind == kBad:
		c.retType = "unit"
	case c.recvPtr:
		c.retType = c.resKind.gallina() + " * " + c.recvS.name
	default:
		c.retType = c.resKind.gallina()
	}
	// local struct values that are written once and never read (glob.go: g := glob{...}) are ignored;
	// any read of them is refused (varRef).
	ast.Inspect(fd.Body, func(n ast.Node) bool {
		if as, ok := n.(*ast.AssignStmt); ok && as.Tok == token.DEFINE && len(as.Lhs) == 1 && len(as.Rhs) == 1 {
			if cl, ok := as.Rhs[0].(*ast.CompositeLit); ok {
				if _, isStruct := t.info.Types[cl].Type.Underlying().(*types.Struct); isStruct && c.emptyVar != nil {
					simple := true // element values must be plain identifiers or constants (cannot panic)
					for _, el := range cl.Elts {
						v := el
						if kv, ok := el.(*ast.KeyValueExpr); ok {
							v = kv.Value
						}
						if _, isId := v.(*ast.Ident); !isId && t.info.Types[v].Value == nil {
							simple = false
						}
					}
					if id, ok := as.Lhs[0].(*ast.Ident); ok && t.info.Defs[id] != nil && simple {
						c.deadVars[t.info.Defs[id]] = true
					}
				}
			}
		}
		return true
	})
	top := flow{ret: func(v string) string { return "Ok " + paren(v) }}
	end := func() string {
		if c.resKind == kBad {
			return top.ret(c.pack(""))
		}
		return "Panic" // unreachable: go/types rejects a missing return
	}
	body := c.seq(fd.Body.List, top, end)
	p := t.fset.Position(fd.Pos())
	note := ""
	if c.emptyVar != nil {
		note = fmt.Sprintf("; translated for calls that pass no variadic `%s` arguments", c.emptyVar.Name())
	}
	t.defs = append(t.defs, indent(fmt.Sprintf("(* %s:%d  func %s%s *)\nDefinition %s %s : res (%s) :=\n%s%s.\n",
		filepath.Base(p.Filename), p.Line, strings.TrimPrefix(gname, "_"), note, gname, strings.Join(binders, " "), c.retType, prologue, body)))
}

type fuelFlags map[string]string

func (f fuelFlags) String() string { return "" }
func (f fuelFlags) Set(s string) error {
	i := strings.Index(s, "=")
	if i < 0 {
		return fmt.Errorf("want Func#k=expr")
	}
	f[s[:i]] = s[i+1:]
	return nil
}

func main() {
	file := flag.String("file", "", "Go source file")
	funcs := flag.String("funcs", "", "comma-separated functions / Type.Method to translate")
	out := flag.String("o", "", "output .v file")
	emptyVar := flag.Bool("assume-empty-variadic", false, "translate functions with a variadic parameter for calls that pass no variadic arguments")
	fuel := fuelFlags{}
	flag.Var(fuel, "fuel", "Func#k=<Gallina nat expression over the function's variables>: fuel of the k-th loop of Func")
	flag.Parse()
	src, err := os.ReadFile(*file)
	if err != nil {
		fmt.Fprintln(os.Stderr, "go2gallina:", err)
		os.Exit(2)
	}
	code, err := translate(*file, src, strings.Split(*funcs, ","), fuel, *emptyVar)
	if err != nil {
		fmt.Fprintln(os.Stderr, "go2gallina:", err)
		os.Exit(1)
	}
	if *out == "" {
		fmt.Print(code)
		return
	}
	if err := os.WriteFile(*out, []byte(code), 0o644); err != nil {
		fmt.Fprintln(os.Stderr, "go2gallina:", err)
		os.Exit(2)
	}
}

func translate(path string, src []byte, want []string, fuel map[string]string, emptyVar bool) (code string, err error) {
	fset := token.NewFileSet()
	f, perr := parser.ParseFile(fset, path, src, parser.SkipObjectResolution)
	if perr != nil {
		return "", fmt.Errorf("untranslatable construct: parse error: %v", perr)
	}
	info := &types.Info{Types: map[ast.Expr]types.TypeAndValue{}, Defs: map[*ast.Ident]types.Object{}, Uses: map[*ast.Ident]types.Object{}}
	var terrs []types.Error
	conf := types.Config{Importer: importer.ForCompiler(fset, "source", nil), Error: func(e error) {
		if te, ok := e.(types.Error); ok {
			terrs = append(terrs, te)
		}
	}}
	conf.Check(f.Name.Name, fset, []*ast.File{f}, info) // errors outside the translated declarations are tolerated
	t := &tr{fset: fset, info: info, file: f, path: path, structs: map[*types.Named]*structInfo{}, fuel: fuel, emptyVar: emptyVar, topNames: map[string]bool{}}
	defer func() {
		if r := recover(); r != nil {
			if u, ok := r.(untranslatable); ok {
				err = fmt.Errorf("%s", u.msg)
				return
			}
			panic(r)
		}
	}()
	type target struct {
		fd    *ast.FuncDecl
		gname string
	}
	var targets []target
	for _, w := range want {
		w = strings.TrimSpace(w)
		if w == "" {
			continue
		}
		var found *ast.FuncDecl
		for _, d := range f.Decls {
			fd, ok := d.(*ast.FuncDecl)
			if !ok {
				continue
			}
			name := fd.Name.Name
			if fd.Recv != nil && len(fd.Recv.List) == 1 {
				rt := fd.Recv.List[0].Type
				if s, ok := rt.(*ast.StarExpr); ok {
					rt = s.X
				}
				if id, ok := rt.(*ast.Ident); ok {
					name = id.Name + "." + name
				}
			}
			if name == w {
				found = fd
			}
		}
		if found == nil {
			return "", fmt.Errorf("untranslatable construct at %s: function %s not found", filepath.Base(path), w)
		}
		g := strings.ReplaceAll(w, ".", "_")
		for _, part := range strings.Split(w, ".") {
			if reserved[part] {
				return "", fmt.Errorf("untranslatable construct at %s: the name %s clashes with a name the generated code uses", filepath.Base(path), part)
			}
		}
		t.topNames[g] = true
		targets = append(targets, target{found, g})
	}
	for _, tg := range targets {
		for _, te := range terrs {
			if te.Pos >= tg.fd.Pos() && te.Pos <= tg.fd.End() {
				p := fset.Position(te.Pos)
				return "", fmt.Errorf("untranslatable construct at %s:%d:%d: type error (reference outside this file?): %s", filepath.Base(p.Filename), p.Line, p.Column, te.Msg)
			}
		}
		t.function(tg.fd, tg.gname)
	}
	var b strings.Builder
	fmt.Fprintf(&b, "(* GENERATED by tools/go2gallina from %s — do not edit.\n   source sha256: %x\n   functions: %s\n   Go semantics of the subset: Model/GoSem.v; approach and trusted base: docs/XLATE.md *)\n",
		filepath.Base(path), sha256.Sum256(src), strings.Join(want, ", "))
	b.WriteString("From Hop Require Import Base GoSem.\nOpen Scope N_scope.\n\n")
	// package-level integer constants, for the reader (the code below carries their values inline)
	var cs []string
	for _, d := range f.Decls {
		gd, ok := d.(*ast.GenDecl)
		if !ok || gd.Tok != token.CONST {
			continue
		}
		for _, sp := range gd.Specs {
			for _, nm := range sp.(*ast.ValueSpec).Names {
				if c, ok := info.Defs[nm].(*types.Const); ok && c.Val().Kind() == constant.Int {
					cs = append(cs, fmt.Sprintf("%s = %s", nm.Name, c.Val().ExactString()))
				}
			}
		}
	}
	if len(cs) > 0 {
		fmt.Fprintf(&b, "(* constants of the file, as evaluated by go/types: %s *)\n\n", strings.Join(cs, ", "))
	}
	b.WriteString(strings.Join(t.defs, "\n"))
	return b.String(), nil
}
