package hvxauthz

import (
	"encoding/binary"
	"fmt"
	"io"
	"net"
	"os"
	"os/exec"
	"path/filepath"
	"sync"
	"time"

	"github.com/sirupsen/logrus"

	"hop.computer/hop/authgrants"
	"hop.computer/hop/certs"
	"hop.computer/hop/common"
	"hop.computer/hop/keys"
	"hop.computer/hop/pkg/thunks"
	"hop.computer/hop/tubes"
	"hop.computer/hop/userauth"
)

// Dispatch level: every connection gets its own in-memory muxer pair and the real
// hopSession.start runs on the server side (user authorization, then the tube switch). The client
// side opens exec / port-forwarding-control / authgrant tubes the way hopclient does and watches
// what the server starts.

var (
	startedMu   sync.Mutex
	startedCmds [][]string // argv of every command handed to thunks.StartCmd
	stubDir     string
)

// SetupDispatch installs the process-wide hooks the dispatch level needs: thunks.StartCmd records
// the command and runs /bin/true instead; `login` resolves to a stub so that a granted shell does
// not start a real login(1).
func SetupDispatch() {
	thunks.StartCmd = func(c *exec.Cmd) error {
		startedMu.Lock()
		startedCmds = append(startedCmds, append([]string(nil), c.Args...))
		startedMu.Unlock()
		c.Path = "/bin/true"
		c.Args = []string{"true"}
		c.SysProcAttr = nil
		c.Dir = ""
		return c.Start()
	}
	d, err := os.MkdirTemp("", "verif-authz-stub")
	if err != nil {
		panic(err)
	}
	stubDir = d
	homeBase = d + "/home"
	os.Chmod(d, 0755)
	if err := os.Symlink("/bin/true", filepath.Join(d, "login")); err != nil {
		panic(err)
	}
	os.Setenv("PATH", d+":"+os.Getenv("PATH"))
}

func CleanupDispatch() {
	if stubDir != "" {
		os.RemoveAll(stubDir)
	}
}

// CanShell: a granted shell is started through a real pty with a credential switch; only root can.
func CanShell() bool { return os.Geteuid() == 0 }

func takeStarted() [][]string {
	startedMu.Lock()
	defer startedMu.Unlock()
	s := startedCmds
	startedCmds = nil
	return s
}

func (w *World) fullLeaf(i int) *certs.Certificate {
	c, err := certs.SelfSignLeaf(&certs.Identity{PublicKey: w.key(i)})
	if err != nil {
		panic(err)
	}
	return c
}

// ApplyFull runs one operation at the dispatch level.
func (w *World) ApplyFull(o *Op) View {
	t0 := time.Now()
	defer func() {
		if d := time.Since(t0); d > time.Second {
			fmt.Fprintf(os.Stderr, "slow op %s: %v\n", o.Desc(), d)
		}
	}()
	switch o.Kind {
	case "LG":
		return w.loginFull(o)
	case "EX":
		return w.execFull(o)
	case "PF":
		return w.pfFull(o)
	case "IT":
		return w.intentFull(o)
	case "TB":
		return w.tubeFull(o)
	}
	return w.Apply(o)
}

const ioTimeout = 5 * time.Second

func readByte(t io.Reader, d time.Duration) (byte, bool) {
	type res struct {
		b  byte
		ok bool
	}
	ch := make(chan res, 1)
	go func() {
		b := make([]byte, 1)
		_, err := io.ReadFull(t, b)
		ch <- res{b[0], err == nil}
	}()
	select {
	case r := <-ch:
		return r.b, r.ok
	case <-time.After(d):
		return 0, false
	}
}

func (w *World) loginFull(o *Op) View {
	a, b := MemPipe()
	vs := w.Srv.VerifNewSession(a, w.fullLeaf(o.Key))
	done := make(chan struct{})
	go func() {
		defer close(done)
		defer func() { recover() }()
		vs.Start()
	}()
	cm := tubes.Client(b, &tubes.Config{Log: logrus.WithField("muxer", "client")})
	t, err := cm.CreateReliableTube(common.UserAuthTube)
	if err != nil {
		panic(err)
	}
	clientOK := userauth.RequestAuthorization(t, o.User)
	t.Close()
	v := View{Kind: "L", OK: clientOK, ClientOK: clientOK}
	if !clientOK {
		select {
		case <-done:
		case <-time.After(ioTimeout):
			v.ClientOK = true // start() did not return after refusing: report as a disagreement
		}
		a.Close()
		b.Close()
	} else {
		user, using, acts := vs.State()
		v.Using = using
		v.Grants = gviewsOf(acts)
		for _, g := range acts {
			v.GrantKeys = append(v.GrantKeys, g.DelegateCert.PublicKey)
		}
		if user != o.User {
			v.ClientOK = false
		}
		vs.DrainPty()
		w.Sessions = append(w.Sessions, &Session{VS: vs, User: o.User, Key: o.Key, Using: using, Client: cm, conns: []io.Closer{a, b}})
	}
	v.Entry, v.KeyIn = w.probe(o.User, o.Key)
	return v
}

func execInit(cmd string, shell bool) []byte {
	term := "dumb"
	r := make([]byte, 9+len(cmd)+len(term))
	if shell {
		r[0] |= 0x1 // usePtyFlag
	}
	binary.BigEndian.PutUint32(r[1:], uint32(len(cmd)))
	copy(r[5:], cmd)
	binary.BigEndian.PutUint32(r[5+len(cmd):], uint32(len(term)))
	copy(r[9+len(cmd):], term)
	return r
}

func (w *World) execFull(o *Op) View {
	s := w.Sessions[o.Sid]
	w.Now = o.T
	takeStarted()
	_, _, before := s.VS.State()
	t1, err := s.Client.CreateReliableTube(common.ExecTube)
	if err != nil {
		panic(err)
	}
	t2, err := s.Client.CreateReliableTube(common.ExecTube)
	if err != nil {
		panic(err)
	}
	stdin, stdout := t1, t2
	if t2.GetID() < t1.GetID() {
		stdin, stdout = t2, t1
	}
	stdin.Write(execInit(o.Cmd, o.Shell))
	if len(before) == 1 && before[0].GrantType == authgrants.Acme {
		// the tube switch does nothing for a session whose only grant is an Acme grant: no
		// second tube is accepted, no reply is ever written
		_, ok := readByte(stdout, 300*time.Millisecond)
		_, _, after := s.VS.State()
		go func() { stdin.Close(); stdout.Close() }()
		if !ok && len(after) == 1 && len(takeStarted()) == 0 {
			return View{Kind: "H", H: 1}
		}
		return View{Kind: "H", H: 77}
	}
	status, ok := readByte(stdout, ioTimeout)
	started := ok && status == 1 // execConf
	if os.Getenv("VERIF_DEBUG") != "" && !started {
		buf := make([]byte, 200)
		stdout.SetReadDeadline(time.Now().Add(200 * time.Millisecond))
		n, _ := stdout.Read(buf)
		fmt.Fprintf(os.Stderr, "exec refused: %s ok=%v status=%d msg=%q\n", o.Desc(), ok, status, buf[:n])
	}
	if started && !o.Shell {
		// the command handed to the user's shell must be the requested text
		st := takeStarted()
		switch {
		case len(st) != 1 || len(st[0]) != 3:
			started = false
		case o.Cmd == "": // an empty command is login(1) for the session's user
			started = st[0][0] == "login" && st[0][2] == s.User
		default:
			started = st[0][1] == "-c" && st[0][2] == o.Cmd
		}
	}
	go func() { stdin.Close(); stdout.Close() }()
	_, using, after := s.VS.State()
	if !using {
		return View{Kind: "S", B: started}
	}
	v := View{Kind: "E", B: started, Grants: gviewsOf(after)}
	if started {
		// the grant that was consumed (principal id of the grant checkCmd returned)
		used := diffGrants(gviewsOf(before), gviewsOf(after))
		if len(used) == 1 {
			v.Prin = used[0].Prin
		} else {
			v.Prin = 12345 // started without consuming exactly one grant: never equal to the model
		}
	}
	return v
}

func diffGrants(before, after []GView) []GView {
	rest := append([]GView(nil), after...)
	var out []GView
	for _, g := range before {
		found := false
		for i, h := range rest {
			if g == h {
				rest = append(rest[:i], rest[i+1:]...)
				found = true
				break
			}
		}
		if !found {
			out = append(out, g)
		}
	}
	return out
}

// pfFull: a local port-forwarding request to a TCP listener of the driver. Started = the server
// dialled the listener (StartPFServer's probe connection) and answered success.
func (w *World) pfFull(o *Op) View {
	s := w.Sessions[o.Sid]
	w.Now = o.T
	ln, err := net.Listen("tcp", "127.0.0.1:0")
	if err != nil {
		panic(err)
	}
	defer ln.Close()
	dialled := make(chan bool, 1)
	go func() {
		ln.(*net.TCPListener).SetDeadline(time.Now().Add(ioTimeout))
		c, err := ln.Accept()
		if err == nil {
			c.Close()
		}
		dialled <- err == nil
	}()
	t, err := s.Client.CreateReliableTube(common.PFControlTube)
	if err != nil {
		panic(err)
	}
	addr := ln.Addr().String()
	pkt := []byte{1 /* PfTCP */, 4 /* PfLocal */, 0, 0}
	binary.BigEndian.PutUint16(pkt[2:], uint16(len(addr)))
	pkt = append(pkt, addr...)
	t.Write(pkt)
	status, ok := readByte(t, ioTimeout)
	started := ok && status == 1
	if started {
		started = <-dialled
	} else {
		ln.Close()
		<-dialled
	}
	go t.Close()
	return View{Kind: "S", B: started}
}

// intentFull: an authgrant tube carrying one intent communication, as a principal would send it.
func (w *World) intentFull(o *Op) View {
	s := w.Sessions[o.Sid]
	t, err := s.Client.CreateReliableTube(common.AuthGrantTube)
	if err != nil {
		panic(err)
	}
	in := w.GoIntent(o.Intent)
	if o.CertOK {
		in.DelegateCert = *w.fullLeaf(o.Intent.Key)
	} else {
		in.DelegateCert = *w.rootCertFor(o.Intent.Key)
	}
	in.TargetSNI = certs.DNSName("target.example")
	authgrants.WriteIntentCommunication(t, *in) // a write error (tube already closed by a refusing server) shows as "not confirmed"
	type res struct {
		m   authgrants.AgMessage
		err error
	}
	ch := make(chan res, 1)
	go func() {
		m, err := authgrants.ReadConfOrDenial(t)
		ch <- res{m, err}
	}()
	confirmed := false
	select {
	case r := <-ch:
		confirmed = r.err == nil && r.m.MsgType == authgrants.IntentConfirmation
	case <-time.After(ioTimeout):
	}
	go t.Close()
	return View{Kind: "S", B: confirmed}
}

// a certificate that is not a leaf (checkIntent's format check must refuse it) but carries the key
func (w *World) rootCertFor(i int) *certs.Certificate {
	kp := keys.GenerateNewSigningKeyPair()
	c, err := certs.SelfSignRoot(certs.SigningIdentity(kp), kp)
	if err != nil {
		panic(err)
	}
	_ = i
	return c
}

// tubeFull: any other tube of the switch. Observation: the server closes an unrecognised tube
// straight away (6), hands a reliable PFTube to handlePF which dials the address of the last
// port-forwarding request (4), keeps a window-size tube open (5).
func (w *World) tubeFull(o *Op) View {
	s := w.Sessions[o.Sid]
	var ln net.Listener
	dialled := make(chan bool, 1)
	pfData := o.Ty == common.PFTube && !s.Using // a grant session's PF tubes are closed by the server
	if pfData {
		// a forwarding target must be in place: do a control request first (not part of the op's view)
		l, err := net.Listen("tcp", "127.0.0.1:0")
		if err != nil {
			panic(err)
		}
		ln = l
		defer ln.Close()
		ct, err := s.Client.CreateReliableTube(common.PFControlTube)
		if err != nil {
			panic(err)
		}
		addr := ln.Addr().String()
		pkt := []byte{1, 4, 0, 0}
		binary.BigEndian.PutUint16(pkt[2:], uint16(len(addr)))
		pkt = append(pkt, addr...)
		ct.Write(pkt)
		ln.(*net.TCPListener).SetDeadline(time.Now().Add(ioTimeout))
		if c, err := ln.Accept(); err == nil { // StartPFServer's probe connection
			c.Close()
		}
		readByte(ct, ioTimeout)
		go ct.Close()
		go func() {
			ln.(*net.TCPListener).SetDeadline(time.Now().Add(2 * time.Second))
			c, err := ln.Accept()
			if err == nil {
				c.Close()
			}
			dialled <- err == nil
		}()
	}
	t, err := s.Client.CreateReliableTube(tubes.TubeType(o.Ty))
	if err != nil {
		panic(err)
	}
	defer func() { go t.Close() }()
	if pfData {
		if <-dialled {
			return View{Kind: "H", H: 4}
		}
		return View{Kind: "H", H: 78}
	}
	// closed by the server = a read ends (EOF) quickly without data
	type res struct {
		n   int
		err error
	}
	ch := make(chan res, 1)
	go func() {
		b := make([]byte, 1)
		n, err := t.Read(b)
		ch <- res{n, err}
	}()
	select {
	case r := <-ch:
		if r.n == 0 && r.err != nil {
			return View{Kind: "H", H: 6}
		}
		return View{Kind: "H", H: 79}
	case <-time.After(400 * time.Millisecond):
		if o.Ty == common.WinSizeTube {
			return View{Kind: "H", H: 5}
		}
		return View{Kind: "H", H: 80}
	}
}
