(* Sanse.v — Deck-SANSE (session authenticated encryption on top of a deck function; Farfalle paper
   section on modes / "Xoodoo cookbook" (eprint 2018/767) Algorithm "Deck-SANSE"), tag length t = 32 bytes.

   The deck function is abstract and incremental: a type [D] of "histories", [dk_absorb d M] for the
   history  M o d, and [dk_out d n] = first n bytes of F_K(d).  Instances:
     D = list bitstr, absorb = cons, out = any F : list bitstr -> nat -> bytes   (every deck function)
     D = kv_state,  absorb = kv6_absorb, out = kv6_out                            (Kravatte, what hop runs)

   ===== API for importers =====
     sanse D                       session object {sn_d : D; sn_e : bool}
     sn_wrap  absorb out s A P     -> (C, T, s')             (sanse.wrap, byte-aligned A and P)
     sn_unwrap absorb out s A C T  -> (Some P | None, s')    (sanse.unwrap; s' also on failure, as in Go)
     sn_seal  absorb out s A P     -> (C ++ T, s')           (cipher.AEAD Seal; nonce unused)
     sn_open  absorb out s A ct    -> (Some P | None, s')    (cipher.AEAD Open; None and s unchanged if |ct| < 32)
     sanse6_new K                  -> res (sanse kv_state)   kravatte.NewSANSE(K) (Err iff |K| >= 200; Panic iff K empty)
     sanse6_seal / sanse6_open     the Kravatte instances
   Definitions only. *)
From Hop Require Import Base Keccak Kravatte.
Open Scope N_scope.

Definition sn_tag_len : nat := 32.

(* i xor (first |i| bytes of ks); the result always has the length of i *)
Fixpoint sn_xor (i ks : bytes) : bytes :=
  match i with
  | [] => []
  | a :: i' => match ks with
               | [] => a :: sn_xor i' []
               | k :: ks' => N.lxor a k :: sn_xor i' ks'
               end
  end.

Record sanse (D : Type) := mksn { sn_d : D; sn_e : bool }.
Arguments mksn {D} _ _.
Arguments sn_d {D} _.
Arguments sn_e {D} _.

(* the three kinds of history strings:  A || 0 || e,   P || 01 || e,   T || 11 || e *)
Definition hs_ad (a : bytes) (e : bool) : bitstr := mkbs a [false; e].
Definition hs_pt (p : bytes) (e : bool) : bitstr := mkbs p [false; true; e].
Definition hs_tag (t : bytes) (e : bool) : bitstr := mkbs t [true; true; e].

Definition is_nil {A} (l : list A) : bool := match l with [] => true | _ => false end.

Section Sanse.
Variable D : Type.
Variable dk_absorb : D -> bitstr -> D.
Variable dk_out : D -> nat -> bytes.

(* if |A| > 0 or |P| = 0 then history <- A || 0 || e o history *)
Definition sn_ad_step (s : sanse D) (a body : bytes) : D :=
  if negb (is_nil a) || is_nil body then dk_absorb (sn_d s) (hs_ad a (sn_e s)) else sn_d s.

Definition sn_wrap (s : sanse D) (a p : bytes) : bytes * bytes * sanse D :=
  let e := sn_e s in
  let h1 := sn_ad_step s a p in
  if is_nil p then
    (* T <- F(history) *)
    ([], dk_out h1 sn_tag_len, mksn h1 (negb e))
  else
    (* T <- F(P||01||e o history); C <- P + F(T||11||e o history); history <- P||01||e o history *)
    let h2 := dk_absorb h1 (hs_pt p e) in
    let t := dk_out h2 sn_tag_len in
    let c := sn_xor p (dk_out (dk_absorb h1 (hs_tag t e)) (List.length p)) in
    (c, t, mksn h2 (negb e)).

Definition sn_unwrap (s : sanse D) (a c t : bytes) : option bytes * sanse D :=
  let e := sn_e s in
  let h1 := sn_ad_step s a c in
  let p := if is_nil c then [] else sn_xor c (dk_out (dk_absorb h1 (hs_tag t e)) (List.length c)) in
  let h2 := if is_nil c then h1 else dk_absorb h1 (hs_pt p e) in
  let t' := dk_out h2 sn_tag_len in
  (* T' = T on all 32 bytes (subtle.ConstantTimeCompare) *)
  (if beq_bytes t' t then Some p else None, mksn h2 (negb e)).

(* cipher.AEAD *)
Definition sn_seal (s : sanse D) (a p : bytes) : bytes * sanse D :=
  let '(c, t, s') := sn_wrap s a p in (c ++ t, s').
Definition sn_open (s : sanse D) (a ct : bytes) : option bytes * sanse D :=
  if (List.length ct <? sn_tag_len)%nat then (None, s)
  else let n := (List.length ct - sn_tag_len)%nat in sn_unwrap s a (firstn n ct) (skipn n ct).

(* a session: the sender seals a list of (A, P); the receiver opens the ciphertexts in order *)
Fixpoint sn_seal_all (s : sanse D) (msgs : list (bytes * bytes)) : list bytes * sanse D :=
  match msgs with
  | [] => ([], s)
  | (a, p) :: r => let (ct, s1) := sn_seal s a p in
                   let (cts, s2) := sn_seal_all s1 r in (ct :: cts, s2)
  end.
Fixpoint sn_open_all (s : sanse D) (msgs : list (bytes * bytes)) : list (option bytes) * sanse D :=
  match msgs with
  | [] => ([], s)
  | (a, ct) :: r => let (p, s1) := sn_open s a ct in
                    let (ps, s2) := sn_open_all s1 r in (p :: ps, s2)
  end.

End Sanse.

(* ---- Kravatte-SANSE as hop runs it ---- *)
Definition sanse6_new (key : bytes) : res (sanse kv_state) :=
  match go_mask_init key with
  | Ok k => Ok (mksn (mkkv k k zero_lanes) false)
  | Err => Err
  | Panic => Panic
  end.
Definition sanse6_seal := sn_seal kv_state kv6_absorb kv6_out.
Definition sanse6_open := sn_open kv_state kv6_absorb kv6_out.
Definition sanse6_wrap := sn_wrap kv_state kv6_absorb kv6_out.
Definition sanse6_unwrap := sn_unwrap kv_state kv6_absorb kv6_out.
