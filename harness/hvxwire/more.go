package hvxwire

// Formats added in the extension round (models: coq/Model/WireMore.v): codex status message
// (SendSuccess/SendFailure/getStatus), window size (serializeSize/readSize and the HandleSize loop),
// the userauth reply byte, ReadUnreliableProxyID, ReadIntentRequest / ReadIntentCommunication.

import (
	"bytes"
	"errors"
	"fmt"

	"github.com/creack/pty"
	"hop.computer/hop/authgrants"
	"hop.computer/hop/codex"
	"hop.computer/hop/tubes"
	"hop.computer/hop/userauth"
	"verifharness/hv"
)

// ---------------------------------------------------------------- codex status

// Status: Conf = the command started; otherwise Text is the failure text.
type Status struct {
	Conf bool
	Text []byte
}

func cut(b []byte, n int) []byte {
	if len(b) > n {
		return b[:n]
	}
	return b
}

func statusPrep(b []byte) func() (Value, int, bool) {
	t := tubes.VerifWirePreloadedReliable(b)
	return func() (Value, int, bool) {
		err := codex.VerifWireGetStatus(t)
		if err == nil {
			return Status{Conf: true}, tubes.VerifWireUnread(t), true
		}
		return Status{Text: []byte(err.Error())}, tubes.VerifWireUnread(t), true
	}
}

var StatusMsg = &Format{
	Name: "status", EncFn: "c18_enc_status", DecFn: "c18_dec_status",
	Gen: func(r *hv.Rand) Value {
		if r.Chance(15) {
			return Status{Conf: true}
		}
		n := hv.Pick(r, []int{0, 1, 2, 5, 40, 255, 256, 257, 1000, 65534, 65535, 65536, 65537, 65540, 70000, 131072 + 3})
		if r.Chance(40) {
			n = r.Intn(24)
		}
		return Status{Text: fill(r, n)}
	},
	Must: func() []Value {
		vs := []Value{Status{Conf: true}}
		for _, n := range []int{0, 1, 256, 65535, 65536, 65541, 131072 + 7} {
			vs = append(vs, Status{Text: PatternD(n, byte(n), 1)})
		}
		return vs
	},
	Enc: func(v Value) ([]byte, bool) {
		s := v.(Status)
		t := tubes.VerifWirePreloadedReliable(nil)
		if s.Conf {
			codex.SendSuccess(t)
		} else {
			codex.SendFailure(t, errors.New(string(s.Text)))
		}
		return tubes.VerifWireWritten(t), true
	},
	Dec:  func(b []byte) (Value, int, bool) { return statusPrep(b)() },
	Prep: statusPrep,
	Coq: func(v Value) string {
		s := v.(Status)
		if s.Conf {
			return "None"
		}
		return hv.Some(CoqBytes(s.Text))
	},
	Zero: func() Value { return Status{Conf: true} },
	// a failure text is cut to the 65535 bytes the 16-bit length can announce: equality on that prefix
	Eq: func(a, b Value) bool {
		x, y := a.(Status), b.(Status)
		return x.Conf == y.Conf && bytes.Equal(cut(x.Text, 65535), cut(y.Text, 65535))
	},
	Repr: func(v Value) (bool, string) { return true, "" },
	Desc: func(v Value) string {
		s := v.(Status)
		return fmt.Sprintf("status conf=%v text=%dB %s", s.Conf, len(s.Text), hx(s.Text))
	},
	Sweep: func() []Value { return []Value{Status{Text: []byte("no auth grant for cmd: ls")}, Status{Conf: true}} },
	Corpus: func() [][]byte {
		return [][]byte{{}, {1}, {2}, {0}, {2, 0xff, 0xff}, {2, 0xff, 0xff, 0xff, 0xff}, {2, 0xff, 0xff, 0, 0, 'a'}, {2, 0, 1, 0xff, 0xff, 'a', 'b'},
			{3, 0, 2, 0, 0, 'a', 'b'}, {1, 0, 2, 0, 0, 'a'}, {2, 0, 0, 0, 0}, {2, 0, 0}, {2, 0x80, 0, 0, 0, 1, 2, 3}}
	},
}

// ---------------------------------------------------------------- window size

type WinSize struct{ R, C, X, Y uint16 }

func coqWs(w WinSize) string {
	return hv.App("Ws", hv.N(uint64(w.R)), hv.N(uint64(w.C)), hv.N(uint64(w.X)), hv.N(uint64(w.Y)))
}

var WinSizeMsg = &Format{
	Name: "winsize", EncFn: "c18_enc_winsize", DecFn: "c18_dec_winsize",
	Gen: func(r *hv.Rand) Value {
		p := func() uint16 { return hv.Pick(r, []uint16{0, 1, 24, 80, 255, 256, 257, 0x7fff, 0x8000, 0xfffe, 0xffff, uint16(r.U64())}) }
		return WinSize{p(), p(), p(), p()}
	},
	Enc: func(v Value) ([]byte, bool) {
		w := v.(WinSize)
		return codex.VerifWireSerializeSize(w.R, w.C, w.X, w.Y), true
	},
	Dec: func(b []byte) (Value, int, bool) {
		rd := bytes.NewReader(b)
		r, c, x, y, err := codex.VerifWireReadSize(rd)
		return WinSize{r, c, x, y}, rd.Len(), err == nil
	},
	Coq:  func(v Value) string { return coqWs(v.(WinSize)) },
	Zero: func() Value { return WinSize{} },
	Eq:   func(a, b Value) bool { return a.(WinSize) == b.(WinSize) },
	Repr: func(v Value) (bool, string) { return true, "" },
	Desc: func(v Value) string { return fmt.Sprintf("winsize %v", v.(WinSize)) },
}

// WinLoop: the HandleSize loop on a window-size tube holding b, with a real pty as the target.
// Observable: the size the pty has afterwards (the last size applied; the sentinel if none was).
var winSentinel = WinSize{7, 9, 11, 13}

func winLoopPrep(b []byte) func() (Value, int, bool) {
	t := tubes.VerifWirePreloadedReliable(b)
	ptmx, tty, err := pty.Open()
	if err != nil {
		panic("pty.Open: " + err.Error())
	}
	pty.Setsize(ptmx, &pty.Winsize{Rows: winSentinel.R, Cols: winSentinel.C, X: winSentinel.X, Y: winSentinel.Y})
	return func() (Value, int, bool) {
		defer tty.Close()
		defer ptmx.Close()
		codex.HandleSize(t, ptmx)
		s, err := pty.GetsizeFull(ptmx)
		if err != nil {
			panic("GetsizeFull: " + err.Error())
		}
		return WinSize{s.Rows, s.Cols, s.X, s.Y}, tubes.VerifWireUnread(t), true
	}
}

var WinLoop = &Format{
	Name: "winloop", DecFn: "c18_dec_winloop",
	Dec:  func(b []byte) (Value, int, bool) { return winLoopPrep(b)() },
	Prep: winLoopPrep,
	Coq:  func(v Value) string { return coqWs(v.(WinSize)) },
	Zero: func() Value { return winSentinel },
	Eq:   func(a, b Value) bool { return a.(WinSize) == b.(WinSize) },
	Desc: func(v Value) string { return fmt.Sprintf("winsize %v", v.(WinSize)) },
	Corpus: func() [][]byte {
		var out [][]byte
		for _, n := range []int{0, 1, 7, 8, 9, 15, 16, 17, 23, 24, 64, 800, 801} {
			out = append(out, PatternD(n, byte(n+1), 3))
		}
		return out
	},
}

// ---------------------------------------------------------------- userauth reply

// UAReply: what RequestAuthorization returns when the server's reply stream holds b.
func uaReplyPrep(b []byte) func() (Value, int, bool) {
	t := tubes.VerifWirePreloadedReliable(b)
	return func() (Value, int, bool) {
		ok := userauth.RequestAuthorization(t, "user")
		return ok, tubes.VerifWireUnread(t), true
	}
}

var UAReply = &Format{
	Name: "uareply", DecFn: "c18_dec_uareply",
	Dec:  func(b []byte) (Value, int, bool) { return uaReplyPrep(b)() },
	Prep: uaReplyPrep,
	Coq:  func(v Value) string { return hv.B(v.(bool)) },
	Zero: func() Value { return false },
	Eq:   func(a, b Value) bool { return a.(bool) == b.(bool) },
	Desc: func(v Value) string { return fmt.Sprintf("granted=%v", v.(bool)) },
	Corpus: func() [][]byte {
		return [][]byte{{}, {0}, {1}, {2}, {3}, {0xff}, {1, 1}, {2, 1}, {0, 1}, {1, 0, 0, 0}, {0x81}, {0x01, 0xff}}
	},
}

// ---------------------------------------------------------------- ReadUnreliableProxyID

var ProxyID = &Format{
	Name: "proxyid", EncFn: "c18_enc_proxyid", DecFn: "c18_dec_proxyid",
	Gen:  func(r *hv.Rand) Value { return byte(r.U64()) },
	Enc: func(v Value) ([]byte, bool) {
		var w bytes.Buffer
		err := authgrants.WriteUnreliableProxyID(&w, v.(byte))
		return w.Bytes(), err == nil
	},
	Dec: func(b []byte) (Value, int, bool) {
		rd := bytes.NewReader(b)
		id, err := authgrants.ReadUnreliableProxyID(rd)
		return id, rd.Len(), err == nil
	},
	Coq:    func(v Value) string { return hv.N(uint64(v.(byte))) },
	Zero:   func() Value { return byte(0) },
	Eq:     func(a, b Value) bool { return a.(byte) == b.(byte) },
	Repr:   func(v Value) (bool, string) { return true, "" },
	Desc:   func(v Value) string { return fmt.Sprintf("proxy id %d", v.(byte)) },
	Corpus: func() [][]byte { return [][]byte{{}, {0}, {255}, {1, 2}} },
}

// ---------------------------------------------------------------- ReadIntentRequest / ReadIntentCommunication

func intentReader(name, fn string, read func(*bytes.Reader) (authgrants.Intent, error), request bool) *Format {
	return &Format{
		Name: name, DecFn: fn,
		Dec: func(b []byte) (Value, int, bool) {
			rd := bytes.NewReader(b)
			i, err := read(rd)
			m := &authgrants.AgMessage{MsgType: authgrants.IntentCommunication}
			if request {
				m.MsgType = authgrants.IntentRequest
			}
			if err == nil {
				m.Data.Intent = i
			} else {
				m.Data.Intent = *zeroIntent()
			}
			return m, rd.Len(), err == nil
		},
		Coq:  Ag.Coq,
		Zero: Ag.Zero,
		Eq:   Ag.Eq,
		Desc: Ag.Desc,
	}
}

var IntentReq = intentReader("intentreq", "c18_dec_intentreq",
	func(rd *bytes.Reader) (authgrants.Intent, error) { return authgrants.ReadIntentRequest(rd) }, true)
var IntentComm = intentReader("intentcomm", "c18_dec_intentcomm",
	func(rd *bytes.Reader) (authgrants.Intent, error) { return authgrants.ReadIntentCommunication(rd) }, false)

// ---------------------------------------------------------------- generator-only formats

// RawGen is a generator of byte strings (value = bytes, encoder = identity) used as the input
// source of readers that have no encoder of their own.
func RawGen(name string, gen func(r *hv.Rand) []byte, corpus [][]byte) *Format {
	return &Format{
		Name: name,
		Gen:  func(r *hv.Rand) Value { return gen(r) },
		Enc:  func(v Value) ([]byte, bool) { return v.([]byte), true },
		Corpus: func() [][]byte {
			return corpus
		},
	}
}

// WinSeq: what a client writes into a window-size tube: k sizes, then possibly a short tail.
var WinSeq = RawGen("winseq", func(r *hv.Rand) []byte {
	var b []byte
	for k := r.Intn(6); k > 0; k-- {
		w := WinSizeMsg.Gen(r).(WinSize)
		b = append(b, codex.VerifWireSerializeSize(w.R, w.C, w.X, w.Y)...)
	}
	return append(b, r.Bytes(hv.Pick(r, []int{0, 0, 0, 1, 4, 7}))...)
}, WinLoop.Corpus())

// ReplyGen: short reply streams, first byte often a known code.
var ReplyGen = RawGen("reply", func(r *hv.Rand) []byte {
	b := r.Bytes(hv.Pick(r, []int{0, 1, 1, 1, 2, 5}))
	if len(b) > 0 && r.Chance(70) {
		b[0] = hv.Pick(r, []byte{0, 1, 2, 3, 0xff})
	}
	return b
}, UAReply.Corpus())

// UnrelReadCase runs Unreliable.ReadMsgUDP on one queued datagram with a buffer of bufLen bytes.
func UnrelReadCase(msg []byte, bufLen int) (out []byte, ok bool, panicked bool, pmsg string) {
	var err error
	panicked, pmsg = hv.Catch(func() { out, _, err = tubes.VerifWireUnreliableRead(msg, bufLen) })
	return out, err == nil, panicked, pmsg
}
