(* Kravatte.v — the Farfalle construction instantiated as Kravatte (Achouffe): Bertoni, Daemen, Hoffert,
   Peeters, Van Assche, Van Keer, "Farfalle: parallel permutation-based cryptography" (eprint 2016/1188),
   Algorithm 1 and section 7: p_b = p_c = p_d = p_e = Keccak-p[1600,6], roll_c on the plane y = 4,
   roll_e on the planes y = 3,4, key and message padding pad10*.

   ===== API for importers =====
     bitstr                 a bit string: whole bytes followed by < 8 tail bits (Keccak bit order:
                            bit i of a byte is the i-th bit of the string); bs_of_bytes b
     kv_state               {kv_k; kv_kr; kv_x}: mask k, rolled mask roll_c^I(k), accumulator x
     kv_init p K            k <- p(K || 1 || 0..0)            (|K| < 200 bytes)
     kv_absorb p s M        compress one more string of the sequence:  M' o (what s holds)
     kv_out p s n           first n bytes of the output stream for the sequence held by s
     kravatte_F p K h n     the deck function on a history h (newest string first)
     keccak6                Keccak-p[1600,6] on lanes;  kv6_* the instances used by hop
     go_mask_init K         : res lanes; transcription of kravatte.RefMaskInitialize + snp.StateSetBytes/StateSetByte
                            (the code as fixed by "fix: snp.StateSetByte ..."); go_mask_init_orig = before the fix
   The permutation is a parameter [p : lanes -> lanes] so that theorems hold for every p.

   Provenance: written from the Farfalle/Kravatte definitions as recalled (no paper offline), cross-read
   against kravatte.go (a port of XKCP's Kravatte.c), anchored to the published XKCP transcripts
   /repo/kravatte/testdata/xkcp-kravatte.txt and xkcp-sanse.txt in Proofs/KravatteVectors.v.
   The Go code is incremental (queue of partial blocks, chunked Kra/Vatte calls); this model is the
   one-shot specification; chunking is exercised by the correspondence driver.  Short-Kravatte
   (FlagShort) is not used by SANSE and not modelled.  Definitions only. *)
From Hop Require Import Base Keccak.
Open Scope N_scope.

Record bitstr := mkbs { bs_bytes : bytes; bs_tail : list bool }.
Definition bs_of_bytes (b : bytes) : bitstr := mkbs b [].
(* value of up to 8 bits, first bit least significant *)
Fixpoint bits_byte (l : list bool) : N :=
  match l with [] => 0 | b :: r => (if b then 1 else 0) + 2 * bits_byte r end.

Definition kv_width : nat := 200.

(* pad10* to a whole number of 200-byte blocks: M || 1 || 0* *)
Definition pad_to_block (body : bytes) : bytes :=
  body ++ repeat 0 ((kv_width - (List.length body mod kv_width)) mod kv_width)%nat.
Definition kv_pad (m : bitstr) : bytes :=
  pad_to_block (bs_bytes m ++ [bits_byte (bs_tail m ++ [true])]).
(* key padding K || 1 || 0* to exactly one block (|K| <= 199 bytes) *)
Definition kv_pad_key (k : bytes) : bytes := k ++ [1] ++ repeat 0 (kv_width - 1 - List.length k)%nat.

Fixpoint chunks_fuel (fuel n : nat) (l : bytes) : list bytes :=
  match fuel with
  | O => []
  | S k => match l with
           | [] => []
           | _ => firstn n l :: chunks_fuel k n (skipn n l)
           end
  end.
Definition kv_chunks (l : bytes) : list bytes := chunks_fuel (List.length l) kv_width l.

Definition xor_lanes (a b : lanes) : lanes := map (fun i => N.lxor (lane a i) (lane b i)) idx25.
Definition zero_lanes : lanes := repeat 0 25.

(* roll_c: (x0..x4) = lanes 20..24  <-  x1, x2, x3, x4, (x0 <<< 7) xor x1 xor (x1 >> 3) *)
Definition rollc (a : lanes) : lanes :=
  let x0 := lane a 20 in let x1 := lane a 21 in
  firstn 20 a ++ [x1; lane a 22; lane a 23; lane a 24; N.lxor (rotl x0 7) (N.lxor x1 (N.shiftr x1 3))].
(* roll_e: (x0..x9) = lanes 15..24  <-  x1..x9, (x0 <<< 7) xor (x1 <<< 18) xor (x2 and (x1 >> 1)) *)
Definition rolle (a : lanes) : lanes :=
  let x0 := lane a 15 in let x1 := lane a 16 in let x2 := lane a 17 in
  firstn 15 a ++ [x1; x2; lane a 18; lane a 19; lane a 20; lane a 21; lane a 22; lane a 23; lane a 24;
                  N.lxor (rotl x0 7) (N.lxor (rotl x1 18) (N.land x2 (N.shiftr x1 1)))].

Record kv_state := mkkv { kv_k : lanes; kv_kr : lanes; kv_x : lanes }.

Section Farfalle.
Variable p : lanes -> lanes.

Definition kv_init (key : bytes) : kv_state :=
  let k := p (lanes_of_bytes (kv_pad_key key)) in mkkv k k zero_lanes.

(* x <- x + sum_i p(m_i + roll_c^i(k)); returns the rolled mask after the last block *)
Fixpoint compress_blocks (kr x : lanes) (blks : list bytes) : lanes * lanes :=
  match blks with
  | [] => (kr, x)
  | b :: r => compress_blocks (rollc kr) (xor_lanes x (p (xor_lanes kr (lanes_of_bytes b)))) r
  end.
(* one more string: blocks at indices I .. I+mu-1, then I <- I + mu + 1 *)
Definition kv_absorb (s : kv_state) (m : bitstr) : kv_state :=
  let (kr', x') := compress_blocks (kv_kr s) (kv_x s) (kv_chunks (kv_pad m)) in
  mkkv (kv_k s) (rollc kr') x'.

(* output blocks p(roll_e^j(y)) + k',  y = p(x),  k' = roll_c^I(k) *)
Fixpoint expand (kr y : lanes) (nblocks : nat) : bytes :=
  match nblocks with
  | O => []
  | S m => bytes_of_lanes (xor_lanes (p y) kr) ++ expand kr (rolle y) m
  end.
Definition kv_out (s : kv_state) (n : nat) : bytes :=
  firstn n (expand (kv_kr s) (p (kv_x s)) ((n + kv_width - 1) / kv_width)%nat).

(* the deck function: history newest first *)
Definition kravatte_F (key : bytes) (h : list bitstr) (n : nat) : bytes :=
  kv_out (fold_right (fun m s => kv_absorb s m) (kv_init key) h) n.

End Farfalle.

Definition keccak6 : lanes -> lanes := keccak_p 6.
Definition kv6_init := kv_init keccak6.
Definition kv6_absorb := kv_absorb keccak6.
Definition kv6_out := kv_out keccak6.

(* ---- the Go mask derivation, statement by statement (uint64 lanes) ----
   snp.StateSetBytes(&k, key) on a state:  for each byte: state[i/8] &^= 0xFF << s; state[i/8] ^= b << s *)
Definition set_byte_lane (v b : N) (shift : N) : N :=
  N.lxor (N.land v (N.lxor mask64 (N.shiftl 255 shift))) (N.shiftl b shift).
Fixpoint go_state_set_bytes (st : lanes) (off : nat) (b : bytes) : lanes :=
  match b with
  | [] => st
  | x :: r => go_state_set_bytes
                (upd (off / 8) (set_byte_lane (lane st (off / 8)) x (8 * N.of_nat (off mod 8))) st)
                (S off) r
  end.
(* snp.StateSetByte after the fix: clear that byte of the lane, then set it *)
Definition go_state_set_byte (st : lanes) (b : N) (off : nat) : lanes :=
  upd (off / 8) (set_byte_lane (lane st (off / 8)) b (8 * N.of_nat (off mod 8))) st.
(* snp.StateSetByte before the fix:  state[lane] = uint64(b) << shift   (the other 7 bytes are lost) *)
Definition go_state_set_byte_orig (st : lanes) (b : N) (off : nat) : lanes :=
  upd (off / 8) (N.land (N.shiftl b (8 * N.of_nat (off mod 8))) mask64) st.

(* RefMaskInitialize: returns 1 ("invalid key", Err) for len(key) >= 200; snp.StateSetBytes indexes b[0]
   before looking at the length, so an EMPTY key is a run-time panic (outside the property's 1..199) *)
Definition go_mask_init_with (set_byte : lanes -> N -> nat -> lanes) (key : bytes) : res lanes :=
  if (kv_width <=? List.length key)%nat then Err
  else match key with
       | [] => Panic
       | _ => Ok (keccak6 (set_byte (go_state_set_bytes zero_lanes 0 key) 1 (List.length key)))
       end.
Definition go_mask_init := go_mask_init_with go_state_set_byte.
Definition go_mask_init_orig := go_mask_init_with go_state_set_byte_orig.
