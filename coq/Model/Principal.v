(* Principal.v — model of authgrants/principal.go (principalInstance.doIntentRequestChecks, as
   repaired by the two `fix:` commits of branch c06) and authgrants/target.go
   (targetInstance.handleIntentCommunication), plus the trace monitors that state C06.
   Definitions only; proofs in Proofs/PrincipalProofs.v, theorems in Properties/C06.v.

   An intent is the record of the fields of authgrants.Intent (the delegate certificate as its
   serialised bytes, the associated data as the command string); no byte-level encoding is modelled
   here (C18). *)
From Hop Require Import Base.
Open Scope N_scope.

Record intent := mkIntent {
  i_gtype : N; i_reserved : N; i_port : N; i_start : N; i_exp : N;
  i_sni_ty : N; i_sni_label : bytes; i_user : bytes; i_dcert : bytes; i_cmd : bytes }.

Definition intent_eqb (a b : intent) : bool :=
  (i_gtype a =? i_gtype b) && (i_reserved a =? i_reserved b) && (i_port a =? i_port b) &&
  (i_start a =? i_start b) && (i_exp a =? i_exp b) && (i_sni_ty a =? i_sni_ty b) &&
  beq_bytes (i_sni_label a) (i_sni_label b) && beq_bytes (i_user a) (i_user b) &&
  beq_bytes (i_dcert a) (i_dcert b) && beq_bytes (i_cmd a) (i_cmd b).

(* func (i Intent) TargetURL() core.URL  — {User, Host: string(TargetSNI.Label), Port: fmt.Sprint(TargetPort)};
   the SNI *type* is not part of it.  core.URL values are compared with != (three strings). *)
Definition url : Type := (bytes * bytes * N)%type.
Definition target_url (i : intent) : url := (i_user i, i_sni_label i, i_port i).
Definition url_eqb (a b : url) : bool :=
  let '(u1, h1, p1) := a in let '(u2, h2, p2) := b in
  beq_bytes u1 u2 && beq_bytes h1 h2 && (p1 =? p2).

(* ---- environment of one request ---- *)

(* what the setUpTargetConn function does (hopclient.setupTargetClient + newAuthgrantTube):
   it fails before the handshake verifies the target's certificate (config, dial, bad chain), or the
   handshake calls the additional verification callback with the target's leaf certificate `cert`,
   fails if the callback returns an error, and otherwise succeeds iff the rest (user authorisation,
   tube creation) does. *)
Inductive setup_res := SetupEarlyFail | SetupCb (cert : N) (post_ok : bool).

(* what the target connection does with an intent communication *)
Inductive treply :=
| TConfirm     (* Intent Confirmation *)
| TDeny        (* Intent Denied *)
| TGarbage     (* a message that is neither (ReadConfOrDenial errors), connection stays usable *)
| TReadFail    (* connection closed / truncated answer: reading the answer fails *)
| TWriteFail.  (* connection already closed: writing the communication fails *)

Record req := mkReq {
  r_intent : intent;      (* the intent request read from the delegate connection *)
  r_decision : bool;      (* what the approval callback returns for it (true = nil error) *)
  r_setup : setup_res;    (* consulted only if the target is not yet connected *)
  r_reply : treply }.     (* consulted only if a communication is written *)

Inductive dmsg := DConf | DDeny.

Inductive event :=
| SetupCall (u : url)                               (* p.setUpTargetConn(targURL, ..) *)
| Callback (i : intent) (c : option N) (ok : bool)  (* p.checkIntent(i, cert) and its result *)
| ToTarget (i : intent) (delivered : bool)          (* WriteIntentCommunication(p.targetConn, i); false = the write failed *)
| ToDelegate (m : dmsg).                            (* WriteIntentConfirmation / WriteIntentDenied(p.delegateConn, ..) *)

(* principalInstance: targetConnected, targetInfo, targetCert; the target connection itself is
   represented by whether it has been closed by the peer *)
Record pstate := mkP { connected : bool; tinfo : url; tcert : option N; tclosed : bool }.
Definition p_init : pstate := mkP false ([], [], 0) None false.   (* tinfo is read only when connected *)

(* if !p.targetConnected { checkIntentWithCert := func(cert) { p.targetCert = cert; return p.checkIntent(i, cert) }
     tc, err := p.setUpTargetConn(targURL, checkIntentWithCert)
     if err != nil { return WriteIntentDenied(p.delegateConn, ..) }
     p.targetConn = tc; p.targetInfo = targURL; p.targetConnected = true } *)
Definition first_phase (st : pstate) (r : req) : pstate * list event * bool :=
  let i := r_intent r in
  let u := target_url i in
  match r_setup r with
  | SetupEarlyFail => (st, [SetupCall u; ToDelegate DDeny], false)
  | SetupCb c post =>
      let cb := Callback i (Some c) (r_decision r) in
      if r_decision r && post
      then (mkP true u (Some c) false, [SetupCall u; cb], true)
      else (mkP (connected st) (tinfo st) (Some c) (tclosed st), [SetupCall u; cb; ToDelegate DDeny], false)
  end.

(* } else { err := p.checkIntent(i, p.targetCert); if err != nil { return WriteIntentDenied(..) } } *)
Definition later_phase (st : pstate) (r : req) : pstate * list event * bool :=
  let cb := Callback (r_intent r) (tcert st) (r_decision r) in
  if r_decision r then (st, [cb], true) else (st, [cb; ToDelegate DDeny], false).

Definition set_closed (st : pstate) : pstate := mkP (connected st) (tinfo st) (tcert st) true.

(* err := WriteIntentCommunication(p.targetConn, i); if err != nil { return WriteIntentDenied }
   resp, err := ReadConfOrDenial(p.targetConn);     if err != nil { return WriteIntentDenied }
   if resp.MsgType == IntentDenied { return WriteIntentDenied(p.delegateConn, resp.Data.Denial) }
   return WriteIntentConfirmation(p.delegateConn) *)
Definition forward_phase (st : pstate) (i : intent) (reply : treply) : pstate * list event :=
  if tclosed st then (st, [ToTarget i false; ToDelegate DDeny])
  else match reply with
       | TWriteFail => (set_closed st, [ToTarget i false; ToDelegate DDeny])
       | TReadFail => (set_closed st, [ToTarget i true; ToDelegate DDeny])
       | TGarbage | TDeny => (st, [ToTarget i true; ToDelegate DDeny])
       | TConfirm => (st, [ToTarget i true; ToDelegate DConf])
       end.

(* func (p *principalInstance) doIntentRequestChecks(i Intent) error *)
Definition principal_step (st : pstate) (r : req) : pstate * list event :=
  let i := r_intent r in
  if connected st && negb (url_eqb (tinfo st) (target_url i))
  then (st, [ToDelegate DDeny])       (* "received intent request for different target" *)
  else
    let '(st1, tr1, go) := if negb (connected st) then first_phase st r else later_phase st r in
    if go then let '(st2, tr2) := forward_phase st1 i (r_reply r) in (st2, tr1 ++ tr2)
    else (st1, tr1).

(* run(): one trace per request *)
Fixpoint run (st : pstate) (rs : list req) : list (list event) :=
  match rs with
  | [] => []
  | r :: rs' => let '(st', tr) := principal_step st r in tr :: run st' rs'
  end.
Fixpoint final (st : pstate) (rs : list req) : pstate :=
  match rs with [] => st | r :: rs' => final (fst (principal_step st r)) rs' end.

(* ---- the code before the repairs (kept only for the regression witnesses in Properties/C06.v):
   the callback of the first request wrote a denial itself before the failed setup wrote another, and
   the result of the check for later requests was discarded ---- *)
Definition first_phase_unfixed (st : pstate) (r : req) : pstate * list event * bool :=
  let i := r_intent r in
  let u := target_url i in
  match r_setup r with
  | SetupEarlyFail => (st, [SetupCall u; ToDelegate DDeny], false)
  | SetupCb c post =>
      let cb := Callback i (Some c) (r_decision r) in
      if r_decision r then
        if post then (mkP true u (Some c) false, [SetupCall u; cb], true)
        else (mkP (connected st) (tinfo st) (Some c) (tclosed st), [SetupCall u; cb; ToDelegate DDeny], false)
      else (mkP (connected st) (tinfo st) (Some c) (tclosed st), [SetupCall u; cb; ToDelegate DDeny; ToDelegate DDeny], false)
  end.
Definition later_phase_unfixed (st : pstate) (r : req) : pstate * list event * bool :=
  (st, [Callback (r_intent r) (tcert st) (r_decision r)], true).
Definition principal_step_unfixed (st : pstate) (r : req) : pstate * list event :=
  let i := r_intent r in
  if connected st && negb (url_eqb (tinfo st) (target_url i))
  then (st, [ToDelegate DDeny])
  else
    let '(st1, tr1, go) := if negb (connected st) then first_phase_unfixed st r else later_phase_unfixed st r in
    if go then let '(st2, tr2) := forward_phase st1 i (r_reply r) in (st2, tr1 ++ tr2)
    else (st1, tr1).
Fixpoint run_unfixed (st : pstate) (rs : list req) : list (list event) :=
  match rs with
  | [] => []
  | r :: rs' => let '(st', tr) := principal_step_unfixed st r in tr :: run_unfixed st' rs'
  end.

(* ---- target instance: handleIntentCommunication ---- *)

Inductive tmsg :=
| TComm (i : intent) (check_ok add_ok : bool)   (* a well-formed intent communication; results of t.checkIntent / t.addAuthGrant *)
| TBadMsg.                                      (* unreadable or not an intent communication: the instance returns (and closes) *)

Inductive tevent :=
| TCheck (i : intent) (ok : bool)   (* t.checkIntent(i, t.principalCert) *)
| TAdd (i : intent) (ok : bool)     (* t.addAuthGrant(&i) *)
| TReply (m : dmsg).

(* t_store: the intents addAuthGrant accepted, oldest first *)
Record tstate := mkT { t_alive : bool; t_store : list intent }.
Definition t_init : tstate := mkT true [].

Definition target_step (ts : tstate) (m : tmsg) : tstate * list tevent :=
  if negb (t_alive ts) then (ts, [])
  else match m with
       | TBadMsg => (mkT false (t_store ts), [])
       | TComm i c a =>
           if negb c then (ts, [TCheck i false; TReply DDeny])
           else if negb a then (ts, [TCheck i true; TAdd i false; TReply DDeny])
           else (mkT true (t_store ts ++ [i]), [TCheck i true; TAdd i true; TReply DConf])
       end.

Fixpoint trun (ts : tstate) (ms : list tmsg) : list (list tevent) :=
  match ms with
  | [] => []
  | m :: ms' => let '(ts', tr) := target_step ts m in tr :: trun ts' ms'
  end.
Fixpoint tfinal (ts : tstate) (ms : list tmsg) : tstate :=
  match ms with [] => ts | m :: ms' => tfinal (fst (target_step ts m)) ms' end.

(* ---- principal and target instance together (the target side of the connection the setup returned
   is a target instance; the link itself does not fail) ---- *)

Record ereq := mkE { e_intent : intent; e_decision : bool; e_setup : setup_res; e_check : bool; e_add : bool }.
Inductive sevent := PE (e : event) | TE (e : tevent).

Definition is_conf_reply (e : tevent) : bool := match e with TReply DConf => true | _ => false end.
Definition reply_of (tr : list tevent) : treply := if existsb is_conf_reply tr then TConfirm else TDeny.
Definition is_delivered (e : event) : bool := match e with ToTarget _ true => true | _ => false end.

(* the target's events happen between the principal's write of the communication and what follows it *)
Fixpoint splice (ptr : list event) (ttr : list tevent) : list sevent :=
  match ptr with
  | [] => []
  | e :: rest => if is_delivered e then PE e :: map TE ttr ++ map PE rest else PE e :: splice rest ttr
  end.

Definition system_step (st : pstate * tstate) (r : ereq) : (pstate * tstate) * list sevent :=
  let '(ps, ts) := st in
  let '(ts', ttr) := target_step ts (TComm (e_intent r) (e_check r) (e_add r)) in
  let '(ps', ptr) := principal_step ps (mkReq (e_intent r) (e_decision r) (e_setup r) (reply_of ttr)) in
  if existsb is_delivered ptr then ((ps', ts'), splice ptr ttr) else ((ps', ts), map PE ptr).

Fixpoint srun (st : pstate * tstate) (rs : list ereq) : list (list sevent) :=
  match rs with
  | [] => []
  | r :: rs' => let '(st', tr) := system_step st r in tr :: srun st' rs'
  end.
Fixpoint sfinal (st : pstate * tstate) (rs : list ereq) : pstate * tstate :=
  match rs with [] => st | r :: rs' => sfinal (fst (system_step st r)) rs' end.

(* ================= specification side ================= *)

Definition is_answer (e : event) : bool := match e with ToDelegate _ => true | _ => false end.
Definition is_forward (e : event) : bool := match e with ToTarget _ _ => true | _ => false end.
Definition is_callback (e : event) : bool := match e with Callback _ _ _ => true | _ => false end.
Definition answers (tr : list event) : nat := List.length (filter is_answer tr).

(* "quiet": neither an approval decision, nor a forward, nor an answer *)
Definition quiet (e : event) : bool := negb (is_callback e || is_forward e || is_answer e).

(* Monitor over the whole event sequence of a delegate connection.  `pend` is the intent of the most
   recent approval-callback invocation if it accepted and has not yet been used: it is consumed by a
   forward, overwritten by the next callback invocation, and dropped when an answer closes the request. *)
Fixpoint fwd_ok (pend : option intent) (tr : list event) : bool :=
  match tr with
  | [] => true
  | Callback i _ ok :: t => fwd_ok (if ok then Some i else None) t
  | ToTarget i _ :: t => match pend with Some j => intent_eqb i j && fwd_ok None t | None => false end
  | ToDelegate _ :: t => fwd_ok None t
  | SetupCall _ :: t => fwd_ok pend t
  end.

(* confirmed intents of a history, oldest first (system traces) *)
Definition s_is_conf (e : sevent) : bool := match e with PE (ToDelegate DConf) => true | _ => false end.
Fixpoint confirmed (rs : list ereq) (trs : list (list sevent)) : list intent :=
  match rs, trs with
  | r :: rs', tr :: trs' => if existsb s_is_conf tr then e_intent r :: confirmed rs' trs' else confirmed rs' trs'
  | _, _ => []
  end.

(* field-for-field equality of two intents, spelled out *)
Definition same_fields (a b : intent) : Prop :=
  i_gtype a = i_gtype b /\ i_reserved a = i_reserved b /\ i_port a = i_port b /\ i_start a = i_start b /\
  i_exp a = i_exp b /\ i_sni_ty a = i_sni_ty b /\ i_sni_label a = i_sni_label b /\ i_user a = i_user b /\
  i_dcert a = i_dcert b /\ i_cmd a = i_cmd b.

(* the communications a target instance confirmed, oldest first *)
Fixpoint tconfirmed (ms : list tmsg) (trs : list (list tevent)) : list intent :=
  match ms, trs with
  | TComm i _ _ :: ms', tr :: trs' => if existsb is_conf_reply tr then i :: tconfirmed ms' trs' else tconfirmed ms' trs'
  | TBadMsg :: ms', tr :: trs' => tconfirmed ms' trs'
  | _, _ => []
  end.
Definition is_treply (e : tevent) : bool := match e with TReply _ => true | _ => false end.
Definition treplies (tr : list tevent) : nat := List.length (filter is_treply tr).
