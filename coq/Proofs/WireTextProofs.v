(* Lemmas about Model/WireText.v: Go's base64.StdEncoding (round trip for every byte list, totality
   of the decoder incl. the bound on the destination buffer, well-formed output, length bound) and
   the key text forms (round trip, soundness, stability, totality). *)
From Hop Require Import Base WireBase WireBaseProofs WireText.
From Coq Require Import ZifyN ZifyNat ZifyBool.
Ltac Zify.zify_post_hook ::= Z.div_mod_to_equations.
Open Scope N_scope.

(* ---------- alphabet ---------- *)
Lemma b64_val_char v : v < 64 -> b64_val (b64_char v) = Some v.
Proof.
  intros H. unfold b64_char.
  destruct (v <? 26) eqn:E1; [unfold b64_val|destruct (v <? 52) eqn:E2; [unfold b64_val|
    destruct (v <? 62) eqn:E3; [unfold b64_val|destruct (v =? 62) eqn:E4; [unfold b64_val|unfold b64_val]]]].
  - replace ((65 <=? v + 65) && (v + 65 <=? 90)) with true by lia. f_equal. lia.
  - replace ((65 <=? v + 71) && (v + 71 <=? 90)) with false by lia.
    replace ((97 <=? v + 71) && (v + 71 <=? 122)) with true by lia. f_equal. lia.
  - replace ((65 <=? v - 4) && (v - 4 <=? 90)) with false by lia.
    replace ((97 <=? v - 4) && (v - 4 <=? 122)) with false by lia.
    replace ((48 <=? v - 4) && (v - 4 <=? 57)) with true by lia. f_equal. lia.
  - cbn. f_equal. lia.
  - cbn. f_equal. lia.
Qed.

Lemma b64_val_lt c v : b64_val c = Some v -> v < 64.
Proof.
  unfold b64_val.
  destruct ((65 <=? c) && (c <=? 90)) eqn:E1; [intros [= <-]; lia|].
  destruct ((97 <=? c) && (c <=? 122)) eqn:E2; [intros [= <-]; lia|].
  destruct ((48 <=? c) && (c <=? 57)) eqn:E3; [intros [= <-]; lia|].
  destruct (c =? 43); [intros [= <-]; lia|].
  destruct (c =? 47); [intros [= <-]; lia|]. discriminate.
Qed.

Lemma b64_char_val c v : b64_val c = Some v -> b64_char v = c.
Proof.
  unfold b64_val, b64_char.
  destruct ((65 <=? c) && (c <=? 90)) eqn:E1.
  { intros [= <-]. replace (c - 65 <? 26) with true by lia. lia. }
  destruct ((97 <=? c) && (c <=? 122)) eqn:E2.
  { intros [= <-]. replace (c - 71 <? 26) with false by lia. replace (c - 71 <? 52) with true by lia. lia. }
  destruct ((48 <=? c) && (c <=? 57)) eqn:E3.
  { intros [= <-]. replace (c + 4 <? 26) with false by lia. replace (c + 4 <? 52) with false by lia.
    replace (c + 4 <? 62) with true by lia. lia. }
  destruct (c =? 43) eqn:E4; [intros [= <-]; cbn; lia|].
  destruct (c =? 47) eqn:E5; [intros [= <-]; cbn; lia|]. discriminate.
Qed.

Lemma b64_val_pad : b64_val b64_pad_char = None.
Proof. reflexivity. Qed.

(* ---------- quantum arithmetic ---------- *)
Lemma out3_full a b c : a < 256 -> b < 256 -> c < 256 ->
  let v := a * 65536 + b * 256 + c in
  out3 (dval [v / 262144 mod 64; v / 4096 mod 64; v / 64 mod 64; v mod 64]) = [a; b; c].
Proof.
  intros Ha Hb Hc v. unfold out3, dval. cbn [nth].
  assert (E : v / 262144 mod 64 * 262144 + v / 4096 mod 64 * 4096 + v / 64 mod 64 * 64 + v mod 64 = v) by (subst v; lia).
  rewrite E. subst v. repeat (f_equal; try lia).
Qed.

Lemma out3_two a b : a < 256 -> b < 256 ->
  let v := a * 65536 + b * 256 in
  take 2 (out3 (dval [v / 262144 mod 64; v / 4096 mod 64; v / 64 mod 64])) = [a; b].
Proof.
  intros Ha Hb v. unfold out3, dval. cbn [nth]. change (N.to_nat 2) with 2%nat. unfold take. change (N.to_nat 2) with 2%nat. cbn [firstn].
  assert (E : v / 262144 mod 64 * 262144 + v / 4096 mod 64 * 4096 + v / 64 mod 64 * 64 + 0 = v) by (subst v; lia).
  rewrite E. subst v. repeat (f_equal; try lia).
Qed.

Lemma out3_one a : a < 256 ->
  let v := a * 65536 in
  take 1 (out3 (dval [v / 262144 mod 64; v / 4096 mod 64])) = [a].
Proof.
  intros Ha v. unfold out3, dval. cbn [nth]. unfold take. change (N.to_nat 1) with 1%nat. cbn [firstn].
  subst v. repeat (f_equal; try lia).
Qed.

Lemma wf_out3 v : wf_bytes (out3 v) = true.
Proof.
  unfold out3, wf_bytes, wf_byte. cbn [forallb].
  repeat (apply andb_true_intro; split); try reflexivity; apply N.ltb_lt; apply N.mod_lt; lia.
Qed.

(* ---------- round trip: every byte list ---------- *)
Lemma list_ind3 (P : bytes -> Prop) :
  P [] -> (forall a, P [a]) -> (forall a b, P [a; b]) ->
  (forall a b c r, P r -> P (a :: b :: c :: r)) -> forall l, P l.
Proof.
  intros H0 H1 H2 H3.
  assert (G : forall l, P l /\ (forall a, P (a :: l)) /\ (forall a b, P (a :: b :: l))).
  { induction l as [|x l [I0 [I1 I2]]]; [auto|]. split; [apply I1|]. split; [intro; apply I2|].
    intros a b. apply H3. exact I0. }
  intro l. apply G.
Qed.

Lemma wf3 a b c r : wf_bytes (a :: b :: c :: r) = true -> a < 256 /\ b < 256 /\ c < 256 /\ wf_bytes r = true.
Proof.
  rewrite !wf_cons. intros H. repeat (apply andb_prop in H; destruct H as [?H H]). repeat split; try lia; assumption.
Qed.

Lemma skip_nl_nil : skip_nl [] = [].
Proof. reflexivity. Qed.

Lemma b64_go_encode l : forall cap, wf_bytes l = true -> len l <= cap ->
  b64_go (b64_encode l) [] cap = Ok l.
Proof.
  induction l as [|a|a b|a b c r IH] using list_ind3; intros cap W L.
  - reflexivity.
  - rewrite wf_cons in W. apply andb_prop in W. destruct W as [Wa _]. apply N.ltb_lt in Wa.
    rewrite !len_cons, len_nil in L.
    cbn [b64_encode b64_go]. rewrite !b64_val_char by (apply N.mod_lt; lia).
    cbn [app]. rewrite b64_val_pad. cbn [is_nl b64_pad_char N.eqb Pos.eqb orb].
    unfold b64_pad. cbn [len Datatypes.length N.of_nat Pos.of_succ_nat Pos.succ N.ltb N.compare Pos.compare Pos.compare_cont N.eqb Pos.eqb].
    cbn [skip_nl is_nl b64_pad_char N.eqb Pos.eqb orb].
    replace (cap <? 2 - 1) with false by lia.
    change (2 - 1) with 1. rewrite out3_one by assumption. reflexivity.
  - rewrite !wf_cons in W. apply andb_prop in W. destruct W as [Wa W]. apply andb_prop in W. destruct W as [Wb _].
    apply N.ltb_lt in Wa, Wb. rewrite !len_cons, len_nil in L.
    cbn [b64_encode b64_go]. rewrite !b64_val_char by (apply N.mod_lt; lia).
    cbn [app]. rewrite b64_val_pad. cbn [is_nl b64_pad_char N.eqb Pos.eqb orb].
    unfold b64_pad. cbn [len Datatypes.length N.of_nat Pos.of_succ_nat Pos.succ N.ltb N.compare Pos.compare Pos.compare_cont N.eqb Pos.eqb].
    cbn [skip_nl].
    replace (cap <? 3 - 1) with false by lia.
    change (3 - 1) with 2. rewrite out3_two by assumption. reflexivity.
  - apply wf3 in W. destruct W as (Wa & Wb & Wc & Wr). rewrite !len_cons in L.
    cbn [b64_encode b64_go]. rewrite !b64_val_char by (apply N.mod_lt; lia).
    cbn [app]. replace (cap <? 3) with false by lia.
    rewrite IH by (try assumption; lia). cbn [bind].
    rewrite out3_full by assumption. reflexivity.
Qed.

Lemma len_b64_encode l : len (b64_encode l) = (len l + 2) / 3 * 4.
Proof.
  induction l as [|a|a b|a b c r IH] using list_ind3.
  - reflexivity.
  - reflexivity.
  - reflexivity.
  - cbn [b64_encode]. rewrite !len_cons, IH. lia.
Qed.

Lemma b64_roundtrip l : wf_bytes l = true -> b64_decode (b64_encode l) = Ok l.
Proof.
  intros W. unfold b64_decode. apply b64_go_encode; [exact W|]. rewrite len_b64_encode. lia.
Qed.

(* ---------- the decoder never writes outside the buffer DecodeString allocated ---------- *)
Lemma len_skip_nl s : len (skip_nl s) <= len s.
Proof.
  induction s as [|c r IH]; [cbn; lia|]. cbn [skip_nl]. destruct (is_nl c); rewrite ?len_cons in *; lia.
Qed.

Lemma b64_pad_no_panic dig rest cap :
  len dig <= 3 -> (len dig + (1 + len rest)) / 4 * 3 <= cap -> b64_pad dig rest cap <> Panic.
Proof.
  intros D C. unfold b64_pad.
  destruct (len dig <? 2) eqn:E1; [discriminate|].
  destruct (len dig =? 2) eqn:E2.
  - pose proof (len_skip_nl rest) as S. destruct (skip_nl rest) as [|c r] eqn:Es; [discriminate|].
    destruct (c =? b64_pad_char); [|discriminate]. rewrite len_cons in S.
    replace (cap <? len dig - 1) with false by lia.
    destruct (skip_nl r); discriminate.
  - replace (cap <? len dig - 1) with false by lia.
    destruct (skip_nl rest); discriminate.
Qed.

Lemma b64_go_no_panic s : forall dig cap,
  len dig <= 3 -> (len dig + len s) / 4 * 3 <= cap -> b64_go s dig cap <> Panic.
Proof.
  induction s as [|c rest IH]; intros dig cap D C.
  - cbn. destruct dig; discriminate.
  - rewrite len_cons in C. cbn [b64_go]. destruct (b64_val c) as [v|].
    + destruct dig as [|d0 [|d1 [|d2 [|d3 dig']]]].
      * apply IH; cbn [app]; rewrite ?len_cons, ?len_nil in *; lia.
      * apply IH; cbn [app]; rewrite ?len_cons, ?len_nil in *; lia.
      * apply IH; cbn [app]; rewrite ?len_cons, ?len_nil in *; lia.
      * rewrite !len_cons, len_nil in C. replace (cap <? 3) with false by lia.
        specialize (IH [] (cap - 3)). rewrite len_nil in IH.
        destruct (b64_go rest [] (cap - 3)) eqn:E; cbn [bind]; try discriminate.
        exfalso. apply IH; [lia|lia|reflexivity].
      * rewrite !len_cons in D. lia.
    + destruct (is_nl c).
      * apply IH; [exact D|lia].
      * destruct (c =? b64_pad_char); [|discriminate].
        apply b64_pad_no_panic; [exact D|exact C].
Qed.

Lemma b64_decode_total s : b64_decode s <> Panic.
Proof.
  unfold b64_decode. apply b64_go_no_panic; rewrite ?len_nil; lia.
Qed.

(* ---------- what decodes is a byte string ---------- *)
Lemma b64_pad_wf dig rest cap l : b64_pad dig rest cap = Ok l -> wf_bytes l = true.
Proof.
  unfold b64_pad. destruct (len dig <? 2) eqn:E1; [discriminate|].
  set (after := if len dig =? 2 then _ else _). destruct after as [r|]; [|discriminate].
  destruct (cap <? len dig - 1); [discriminate|].
  destruct (skip_nl r); [|discriminate]. intros [= <-]. apply wf_take, wf_out3.
Qed.

Lemma b64_go_wf s : forall dig cap l, b64_go s dig cap = Ok l -> wf_bytes l = true.
Proof.
  induction s as [|c rest IH]; intros dig cap l.
  - cbn. destruct dig; [intros [= <-]; reflexivity|discriminate].
  - cbn [b64_go]. destruct (b64_val c) as [v|].
    + destruct dig as [|d0 [|d1 [|d2 [|d3 dig']]]]; try (apply IH).
      destruct (cap <? 3); [discriminate|].
      destruct (b64_go rest [] (cap - 3)) as [b| |] eqn:E; cbn [bind]; try discriminate.
      intros [= <-]. change (wf_bytes (out3 (dval [d0; d1; d2; v]) ++ b) = true). rewrite wf_app, wf_out3. cbn [andb]. eapply IH. exact E.
    + destruct (is_nl c); [apply IH|].
      destruct (c =? b64_pad_char); [apply b64_pad_wf|discriminate].
Qed.

Lemma b64_decode_wf s l : b64_decode s = Ok l -> wf_bytes l = true.
Proof. apply b64_go_wf. Qed.

(* re-encoding what was decoded decodes to the same bytes (the text itself may differ:
   newlines and non-zero trailing bits are not reproduced) *)
Lemma b64_stable s l : b64_decode s = Ok l -> b64_decode (b64_encode l) = Ok l.
Proof. intros H. apply b64_roundtrip. eapply b64_decode_wf. exact H. Qed.

(* ---------- key text forms ---------- *)
Lemma has_prefix_app p x : has_prefix p (p ++ x) = true.
Proof.
  unfold has_prefix. rewrite len_app, take_app, beq_bytes_refl.
  replace (len p <=? len p + len x) with true by lia. reflexivity.
Qed.

Lemma parse_format_key pre n chk k :
  wf_bytes k = true -> len k = n -> chk k = true -> parse_key pre n chk (format_key pre k) = Ok k.
Proof.
  intros W L C. unfold parse_key, format_key. rewrite has_prefix_app, drop_app, b64_roundtrip by exact W.
  cbn [bind]. rewrite L, N.eqb_refl, C. reflexivity.
Qed.

Lemma parse_key_sound pre n chk s k :
  parse_key pre n chk s = Ok k -> wf_bytes k = true /\ len k = n /\ chk k = true /\ has_prefix pre s = true.
Proof.
  unfold parse_key. destruct (has_prefix pre s); [|discriminate].
  destruct (b64_decode (drop (len pre) s)) as [b| |] eqn:E; cbn [bind]; try discriminate.
  destruct (len b =? n) eqn:L; [|discriminate]. destruct (chk b) eqn:C; [|discriminate].
  intros [= <-]. repeat split; try assumption; [eapply b64_decode_wf; exact E|lia].
Qed.

Lemma parse_key_stable pre n chk s k :
  parse_key pre n chk s = Ok k -> parse_key pre n chk (format_key pre k) = parse_key pre n chk s.
Proof.
  intros H. rewrite H. apply parse_key_sound in H. destruct H as (W & L & C & _).
  apply parse_format_key; assumption.
Qed.

Lemma parse_key_total pre n chk s : parse_key pre n chk s <> Panic.
Proof.
  unfold parse_key. destruct (has_prefix pre s); [|discriminate].
  pose proof (b64_decode_total (drop (len pre) s)) as T.
  destruct (b64_decode (drop (len pre) s)) as [b| |]; cbn [bind]; try discriminate; [|congruence].
  destruct (len b =? n); [|discriminate]. destruct (chk b); discriminate.
Qed.

(* the formatter is injective on keys: two keys with the same text are the same key *)
Lemma format_key_inj pre n chk k1 k2 :
  wf_bytes k1 = true -> len k1 = n -> chk k1 = true ->
  wf_bytes k2 = true -> len k2 = n -> chk k2 = true ->
  format_key pre k1 = format_key pre k2 -> k1 = k2.
Proof.
  intros W1 L1 C1 W2 L2 C2 E.
  pose proof (parse_format_key pre n chk k1 W1 L1 C1) as P1.
  pose proof (parse_format_key pre n chk k2 W2 L2 C2) as P2.
  rewrite E in P1. congruence.
Qed.
