//go:build verif

package codex

import (
	"io"

	"github.com/creack/pty"
	"hop.computer/hop/tubes"
)

// VerifWireExecInitBytes = newExecInitMsg(...).ToBytes(); hasSize=false passes a nil *pty.Winsize.
func VerifWireExecInitBytes(usePty bool, cmd, term string, hasSize bool, rows, cols, x, y uint16) []byte {
	var size *pty.Winsize
	if hasSize {
		size = &pty.Winsize{Rows: rows, Cols: cols, X: x, Y: y}
	}
	return newExecInitMsg(usePty, cmd, term, size).ToBytes()
}

// VerifWireGetStatus = getStatus(t): nil for a confirmation, otherwise an error carrying the text.
func VerifWireGetStatus(t *tubes.Reliable) error { return getStatus(t) }

// VerifWireSerializeSize = serializeSize into a fresh 8-byte buffer.
func VerifWireSerializeSize(rows, cols, x, y uint16) []byte {
	b := make([]byte, 8)
	serializeSize(b, &pty.Winsize{Rows: rows, Cols: cols, X: x, Y: y})
	return b
}

// VerifWireReadSize = readSize(r)
func VerifWireReadSize(r io.Reader) (rows, cols, x, y uint16, err error) {
	s, err := readSize(r)
	if err != nil {
		return 0, 0, 0, 0, err
	}
	return s.Rows, s.Cols, s.X, s.Y, nil
}
