#!/bin/bash
# usage: run_seed.sh <seeded/ID> <Cxx> [more Cxx...]   — apply the seeded change to /repo, run the checks, undo it.
d=$1; shift
cd /verif
[ -z "$(git -C /repo status --porcelain)" ] || { echo "/repo not clean"; exit 2; }
git -C /repo apply "$d/patch.diff" || { echo "patch does not apply"; exit 2; }
for p in "$@"; do ./check $p 2>&1 | tail -4; done
git -C /repo checkout -- . ; git -C /repo clean -fdq
git -C /repo status --porcelain
