(* proofs for Model/Link.v; see Properties/C08.v, the c08_liveness theorems *)
From Hop Require Import Base Recv Send Link RecvProofs SendProofs.
From Coq Require Import ZifyN ZifyNat ZifyBool Lia.
Ltac Zify.zify_post_hook ::= Z.div_mod_to_equations.
Open Scope N_scope.

Section Link.
Variable m : nat.
Hypothesis m_pos : (0 < m)%nat.
Variable writes : list bytes.
Let chunks := stream_chunks m writes.
Let all : list wire := all_frames m writes true.
(* fewer than 2^31 - 2 frames in the stream: frame numbers are their own 32-bit representation and every frame
   is within 2^31 of every acknowledgement number *)
Hypothesis small : N.of_nat (List.length all) + 2 < two31.

Lemma all_length : List.length all = S (List.length chunks).
Proof. unfold all. rewrite all_len. fold chunks. lia. Qed.

Lemma n_small : nchunks chunks + two32 + 2000 < two64.
Proof. pose proof all_length. unfold nchunks, two31, two32, two64 in *. lia. Qed.

Lemma chunks_nonempty : Forall (fun c : list N => c <> []) chunks.
Proof. unfold chunks. eapply Forall_impl; [|apply stream_chunks_sizes; exact m_pos].
  intros c [H _] E. subst. simpl in H. lia. Qed.

(* ---- a frame of the stream on the wire is the arrival the receiver theorems talk about *)
Definition arrival_of (x : wire) : arrival := let '(no, _, fin) := x in if fin then AFin else AData no.

Lemma spec_from_in : forall c k fin x, In x (spec_frames_from k c fin) ->
  (exists j, (j < List.length c)%nat /\ x = ((k + N.of_nat j) mod two32, nth j c [], false)) \/
  (fin = true /\ x = ((k + N.of_nat (List.length c)) mod two32, [], true)).
Proof.
  induction c as [|c0 r IH]; intros k fin x H; cbn [spec_frames_from] in H.
  - destruct fin; [|destruct H]. destruct H as [H|[]]. right. split; auto. rewrite <- H. cbn. f_equal. f_equal. f_equal. lia.
  - destruct H as [H|H].
    + left. exists O. split; [cbn; lia|]. rewrite <- H. cbn. f_equal. f_equal. f_equal. lia.
    + destruct (IH _ _ _ H) as [(j & J1 & J2)|(F & J2)].
      * left. exists (S j). split; [cbn; lia|]. rewrite J2. cbn [nth]. f_equal. f_equal. f_equal. lia.
      * right. split; auto. rewrite J2. cbn [List.length]. f_equal. f_equal. f_equal. lia.
Qed.

Lemma wire_is_arrival : forall x ack, In x all -> ack <= nchunks chunks + 2 ->
  rframe_of x = frame_of chunks (arrival_of x) /\ arrival_wf chunks ack (arrival_of x) /\
  (exists i, arrival_index chunks (arrival_of x) = Some i /\ 1 <= i /\ i <= nchunks chunks + 1).
Proof.
  intros x ack H Hack. pose proof all_length as AL. unfold all, all_frames, spec_frames in H. fold chunks in H.
  unfold nchunks in *. unfold two31 in small.
  destruct (spec_from_in _ _ _ _ H) as [(j & J1 & J2)|(_ & J2)]; subst x.
  - assert (E: (1 + N.of_nat j) mod two32 = 1 + N.of_nat j) by (apply N.mod_small; unfold two32; lia).
    rewrite E. cbn [arrival_of rframe_of frame_of arrival_wf arrival_index]. rewrite E.
    unfold nth_chunk. replace (N.to_nat (1 + N.of_nat j - 1)) with j by lia.
    split; [reflexivity|]. split.
    + unfold near, nchunks, two31. lia.
    + eexists. split; [reflexivity|]. unfold nchunks. lia.
  - cbn [arrival_of rframe_of frame_of arrival_wf arrival_index]. unfold nchunks.
    replace (1 + N.of_nat (List.length chunks)) with (N.of_nat (List.length chunks) + 1) by lia.
    split; [reflexivity|]. split.
    + unfold near, two31. lia.
    + eexists. split; [reflexivity|]. lia.
Qed.

(* ---- delivering any frames of the stream keeps the receiver's invariants; a frame that arrives while it is
   not beyond the window is consumed or buffered *)
Lemma deliver_frames_inv : forall arrivals r out,
  Inv chunks r out -> settled r -> (forall x, In x arrivals -> In x all) ->
  let r' := deliver_frames r arrivals in
  Inv chunks r' out /\ settled r' /\ r_ws r <= r_ws r' /\
  (forall i, have r i -> have r' i) /\
  (forall x i, In x arrivals -> arrival_index chunks (arrival_of x) = Some i -> i <= r_ws r + 1000 -> have r' i).
Proof.
  induction arrivals as [|x rest IH]; intros r out I S Hall; cbn [deliver_frames fold_left].
  - split; auto. split; auto. split; [lia|]. split; auto. intros x i [].
  - assert (Hx: In x all) by (apply Hall; left; auto).
    destruct (wire_is_arrival x (r_ack r) Hx) as (E & W & _).
    { rewrite (inv_ack _ _ _ I). apply (inv_ws_hi _ _ _ I). }
    rewrite E.
    pose proof (receive_inv chunks n_small r (arrival_of x) out I W) as [I1 M1].
    pose proof (receive_settled chunks n_small chunks_nonempty r (arrival_of x) out I S W) as (S1 & H1 & H2).
    cbv zeta in *.
    set (r1 := fst (fst (receive r (frame_of chunks (arrival_of x))))) in *.
    destruct (IH r1 out I1 S1) as (A & B & C & D & F).
    { intros y Hy. apply Hall. right; auto. }
    fold (deliver_frames r1 rest).
    split; auto. split; auto. split; [lia|]. split; [auto|].
    intros y i [Hy|Hy] Hi Hw.
    + subst y. apply D. apply H2; auto.
    + apply (F y i Hy Hi). lia.
Qed.

(* ---- sender side *)
Lemma ack_loop_dup0 : forall frames s new rtt, s_dup s = 0%Z -> s_dup (ack_loop frames s new rtt) = 0%Z.
Proof. induction frames as [|f r IH]; intros s new rtt H.
  - rewrite ack_loop_nil. auto.
  - rewrite ack_loop_cons. destruct (s_ack s <? new); auto. apply IH. unfold ack_pop, on_success.
    destruct (1000 <? _); [destruct (s_cst s)|]; reflexivity. Qed.

Lemma ack_loop_dup_progress : forall frames s new rtt, s_ack s < new -> frames <> [] ->
  s_dup (ack_loop frames s new rtt) = 0%Z.
Proof. intros frames s new rtt H Hf. destruct frames as [|f r]; [congruence|].
  rewrite ack_loop_cons. apply N.ltb_lt in H. rewrite H. apply ack_loop_dup0.
  unfold ack_pop, on_success. destruct (1000 <? _); [destruct (s_cst s)|]; reflexivity. Qed.

Lemma window_open_dup : forall s, s_dup (fst (window_open s)) = s_dup s.
Proof. intros. unfold window_open. destruct (s_closed s); auto. destruct (window_fill _ _ _) as [[a c] d]. reflexivity. Qed.

Lemma rto_tick_dup : forall s, s_dup (fst (rto_tick s)) = s_dup s.
Proof. intros. unfold rto_tick, rto_tick_common. destruct (s_closed s); auto.
  destruct (rto_mark _ _ _) as [[a c] d].
  repeat match goal with |- context [if ?c then _ else _] => destruct c end; reflexivity. Qed.

Lemma rto_tick_rtoc : forall s, (0 <= s_rtoc s)%Z -> (0 <= s_rtoc (fst (rto_tick s)))%Z.
Proof. intros s H. unfold rto_tick, rto_tick_common. destruct (s_closed s); auto.
  destruct (rto_mark _ _ _) as [[a c] d].
  repeat match goal with |- context [if ?c then _ else _] => destruct c end; cbn; lia. Qed.

Lemma ack_loop_rtoc : forall frames s new rtt, s_rtoc (ack_loop frames s new rtt) = s_rtoc s.
Proof. induction frames as [|f r IH]; intros. rewrite ack_loop_nil; auto.
  rewrite ack_loop_cons. destruct (s_ack s <? new); auto. rewrite IH. unfold ack_pop, on_success.
  destruct (1000 <? _); [destruct (s_cst s)|]; reflexivity. Qed.

Lemma recv_ack_rtoc : forall s a rtt s1 mi sig, recv_ack s a rtt = Ok (s1, mi, sig) -> s_rtoc s1 = s_rtoc s.
Proof. intros s a rtt s1 mi sig H. unfold recv_ack in H.
  destruct (100 <? s_dup s)%Z; [discriminate|].
  match type of H with (if ?c then _ else _) = _ => destruct c end; [discriminate|].
  match type of H with context [if ?c then on_loss ?x ?y else ?d] => destruct (if c then on_loss x y else d) as [s0 m0] eqn:E end.
  assert (R0: s_rtoc s0 = s_rtoc s).
  { match type of E with (if ?c then _ else _) = _ => destruct c end.
    - unfold on_loss in E. repeat match type of E with context [if ?c then _ else _] => destruct c end; inversion E; reflexivity.
    - inversion E; reflexivity. }
  inversion H; subst s1. cbn [s_rtoc set_cc]. rewrite ack_loop_rtoc. exact R0. Qed.

Lemma window_open_rtoc : forall s, s_rtoc (fst (window_open s)) = s_rtoc s.
Proof. intros. unfold window_open. destruct (s_closed s); auto. destruct (window_fill _ _ _) as [[a c] d]. reflexivity. Qed.

Lemma tick_emits_head : forall s f rest, s_closed s = false -> tick_sends s -> s_frames s = f :: rest ->
  exists e, In e (snd (rto_tick s)) /\ sf_proj (snd e) = sf_proj f.
Proof.
  intros s f rest C T F. unfold tick_sends in T. unfold rto_tick, rto_tick_common. rewrite C. rewrite F.
  cbn [rto_mark]. apply Z.ltb_lt in T. rewrite T.
  destruct (rto_mark rest _ _) as [[a c] d].
  eexists. split.
  - repeat match goal with |- context [if ?c then _ else _] => destruct c end; cbn [snd fst]; left; reflexivity.
  - reflexivity.
Qed.

Lemma tick_sends_when_window_open : forall s, 1 <= s_wsize s -> (0 <= s_rtoc s)%Z -> s_frames s <> [] -> tick_sends s.
Proof. intros s W R F. unfold tick_sends, frames_to_send.
  assert (0 < List.length (s_frames s))%nat by (destruct (s_frames s); [congruence|cbn; lia]).
  cbv beta zeta iota.
  destruct (s_rtoc s <? Z.of_N (s_wsize s))%Z eqn:E1;
  match goal with |- context [(Z.of_nat ?l <? ?x + 0)%Z] => destruct (Z.of_nat l <? x + 0)%Z eqn:E2 end;
  match goal with |- (0 < if ?c then _ else _)%Z => destruct c eqn:E3 end; lia. Qed.

(* the acknowledgement of the receiver's progress is accepted and moves the sender to it *)
Lemma ack_step_progress : forall s w rtt,
  SInv m writes true s -> s_closed s = false -> (s_dup s <= 100)%Z -> s_wsize s < two16 ->
  s_ack s < w -> w <= N.of_nat (List.length all) + 1 ->
  let s' := fst (fst (sstep_m m s (SAck (w mod two32) rtt))) in
  SInv m writes true s' /\ s_closed s' = false /\ s_dup s' = 0%Z /\ s_wsize s' < two16 /\ s_ack s' = w /\ s_rtoc s' = s_rtoc s.
Proof.
  intros s w rtt I C D W Hlt Hle. unfold two31 in small.
  assert (Ew: w mod two32 = w) by (apply N.mod_small; unfold two32; lia).
  rewrite Ew. cbn [sstep_m]. rewrite C.
  destruct I as (k & K1 & K2 & K3 & K4 & K5).
  assert (Lf: List.length (s_frames s) = (List.length all - k)%nat).
  { rewrite <- (map_length sf_proj), K3, skipn_length. reflexivity. }
  assert (New: new_ack_no s w = w).
  { unfold new_ack_no. destruct (w <? s_ack s) eqn:E; auto. apply N.ltb_lt in E. lia. }
  destruct (recv_ack s w rtt) as [[[s1 mi] sig]| |] eqn:R.
  - assert (I: SInv m writes true s) by (exists k; auto).
    destruct (recv_ack_inv m m_pos _ _ _ _ _ _ _ _ I R) as (I1 & C1 & A1).
    pose proof (recv_ack_wsize m m_pos _ _ _ _ _ _ R) as W1. pose proof (recv_ack_rtoc _ _ _ _ _ _ R) as R1.
    assert (A: s_ack s1 = w).
    { rewrite A1; unfold two16, two32 in *; lia. }
    assert (D1: s_dup s1 = 0%Z).
    { unfold recv_ack in R. rewrite New in R.
      destruct (100 <? s_dup s)%Z; [discriminate|].
      destruct ((s_ack s <? w) && (N.of_nat (List.length (s_frames s)) <? w - s_ack s)); [discriminate|].
      assert (En: (s_ack s =? w) = false) by (apply N.eqb_neq; lia). rewrite En in R. cbn [andb] in R.
      inversion R; subst s1. cbn [s_dup set_cc]. apply ack_loop_dup_progress; auto.
      destruct (s_frames s); [cbn in Lf; lia|discriminate]. }
    destruct sig.
    + pose proof (window_open_inv _ _ _ _ I1) as (I2 & A2 & C2).
      pose proof (window_open_dup s1) as D2. pose proof (window_open_wsize s1) as W2. pose proof (window_open_rtoc s1) as R2.
      destruct (window_open s1) as [s2 em2]. cbn [fst] in *.
      repeat split; auto; congruence.
    + cbn [fst]. repeat split; auto; congruence.
  - exfalso. unfold recv_ack in R. rewrite New in R.
    assert (E1: (100 <? s_dup s)%Z = false) by (apply Z.ltb_ge; lia). rewrite E1 in R.
    assert (E2: (N.of_nat (List.length (s_frames s)) <? w - s_ack s) = false) by (apply N.ltb_ge; lia).
    rewrite E2, andb_false_r in R.
    destruct (if (s_ack s =? w) && (20 <? w) then on_loss s w else (s, 0)) as [s0 m0]. discriminate.
  - exfalso. unfold recv_ack in R.
    destruct (100 <? s_dup s)%Z; [discriminate|].
    match type of R with (if ?c then _ else _) = _ => destruct c end; [discriminate|].
    match type of R with context [if ?c then on_loss ?a ?b else ?d] => destruct (if c then on_loss a b else d) as [s0 m0] end.
    discriminate.
Qed.

(* ---- the link invariant *)
Record Linked (out : bytes) (y : sys) : Prop := {
  lk_sinv : SInv m writes true (y_snd y);
  lk_open : s_closed (y_snd y) = false;
  lk_dup : (s_dup (y_snd y) <= 100)%Z;
  lk_wsize : s_wsize (y_snd y) < two16;
  lk_rinv : Inv chunks (y_rcv y) out;
  lk_settled : settled (y_rcv y);
  lk_ack : s_ack (y_snd y) <= r_ws (y_rcv y);
  lk_rtoc : (0 <= s_rtoc (y_snd y))%Z
}.

Lemma head_index : forall s f rest k, map sf_proj (s_frames s) = skipn k all -> s_frames s = f :: rest ->
  In (sf_proj f) all /\ arrival_index chunks (arrival_of (sf_proj f)) = Some (N.of_nat k + 1).
Proof.
  intros s f rest k K F. rewrite F in K. cbn [map] in K. pose proof all_length as AL. unfold two31 in small.
  assert (Hin: In (sf_proj f) all).
  { rewrite <- (firstn_skipn k all). apply in_or_app. right. rewrite <- K. left. reflexivity. }
  split; auto.
  (* the k-th element of all has index k+1 *)
  assert (Hn: nth_error all k = Some (sf_proj f)).
  { rewrite <- (firstn_skipn k all). rewrite nth_error_app2; rewrite firstn_length.
    - assert (k <= List.length all)%nat.
      { destruct (Nat.le_gt_cases k (List.length all)); auto. rewrite skipn_all2 in K by lia. discriminate. }
      replace (k - Nat.min k (List.length all))%nat with O by lia. rewrite <- K. reflexivity.
    - lia. }
  clear K Hin.
  unfold all, all_frames, spec_frames in Hn. fold chunks in Hn.
  assert (G: forall c j k0 x, nth_error (spec_frames_from k0 c true) j = Some x ->
             (j < List.length c)%nat /\ x = ((k0 + N.of_nat j) mod two32, nth j c [], false) \/
             (j = List.length c /\ x = ((k0 + N.of_nat j) mod two32, [], true))).
  { induction c as [|c0 r IH]; intros j k0 x H; cbn [spec_frames_from] in H.
    - destruct j; cbn in H; [|destruct j; discriminate]. inversion H. right. split; auto. f_equal. f_equal. f_equal. lia.
    - destruct j; cbn [nth_error] in H.
      + inversion H. left. split; [cbn; lia|]. cbn. f_equal. f_equal. f_equal. lia.
      + destruct (IH _ _ _ H) as [[J1 J2]|[J1 J2]].
        * left. split; [cbn; lia|]. rewrite J2. cbn [nth]. f_equal. f_equal. f_equal. lia.
        * right. split; [cbn; lia|]. rewrite J2. f_equal. f_equal. f_equal. lia. }
  destruct (G _ _ _ _ Hn) as [[J1 J2]|[J1 J2]]; rewrite J2; cbn [arrival_of arrival_index].
  - rewrite N.mod_small by (unfold two32; lia). f_equal. lia.
  - unfold nchunks. f_equal. lia.
Qed.

Lemma round_progress : forall out y y', Linked out y -> round m all y y' ->
  Linked out y' /\ (List.length (s_frames (y_snd y')) < List.length (s_frames (y_snd y)))%nat.
Proof.
  intros out y y' L R. inversion R as [s r arrivals rtt Hne Ht Hdel Hstream s1 r' s' E1 E2]; subst y y'. clear R.
  destruct L as [LI LC LD LW LR LS LA LT]. cbn [y_snd y_rcv] in *.
  pose proof all_length as AL. unfold two31 in small.
  (* tick *)
  destruct (rto_tick_inv _ _ _ _ LI) as (I1 & A1 & C1). fold s1 in I1, A1, C1.
  pose proof (rto_tick_dup s) as D1. fold s1 in D1. pose proof (rto_tick_wsize m m_pos s LW) as W1. fold s1 in W1.
  (* receiver *)
  destruct (deliver_frames_inv arrivals r out LR LS Hstream) as (RI & RS & RM & RH & RA). fold r' in RI, RS, RM, RH, RA.
  (* the head of the buffer is delivered *)
  destruct LI as (k & K1 & K2 & K3 & K4 & K5).
  destruct (s_frames s) as [|f rest] eqn:F; [congruence|].
  destruct (tick_emits_head s f rest LC Ht F) as (e & He1 & He2).
  assert (K3': map sf_proj (s_frames s) = skipn k all) by (rewrite F; exact K3).
  destruct (head_index s f rest k K3' F) as (Hin & Hidx).
  assert (Hhave: have r' (N.of_nat k + 1)).
  { apply (RA (sf_proj f)); auto. rewrite <- He2. apply Hdel; auto. lia. }
  assert (Hw: s_ack s < r_ws r').
  { rewrite K2. destruct Hhave as [Hh|[fr [Hfr Hp]]]; auto.
    destruct RS as [_ RS2]. rewrite Forall_forall in RS2. specialize (RS2 fr Hfr). lia. }
  (* acknowledgement *)
  pose proof (inv_ws_hi _ _ _ RI) as Hhi. unfold nchunks in Hhi.
  assert (Lf: List.length (f :: rest) = (List.length all - k)%nat).
  { rewrite <- (map_length sf_proj (f :: rest)), K3, skipn_length. reflexivity. }
  assert (I: SInv m writes true s1) by exact I1.
  destruct (ack_step_progress s1 (r_ws r') rtt I1) as (I2 & C2 & D2 & W2 & A2 & T2); try congruence; try lia.
  pose proof (rto_tick_rtoc s LT) as T1. fold s1 in T1.
  subst s'. rewrite (inv_ack _ _ _ RI).
  set (s' := fst (fst (sstep_m m s1 (SAck (r_ws r' mod two32) rtt)))) in *.
  split.
  - constructor; cbn [y_snd y_rcv]; auto; try lia.
  - cbn [y_snd]. destruct I2 as (k' & J1 & J2 & J3 & _).
    assert (List.length (s_frames s') = (List.length all - k')%nat).
    { rewrite <- (map_length sf_proj), J3, skipn_length. reflexivity. }
    rewrite Lf. lia.
Qed.

Lemma linked_complete : forall out y, Linked out y -> s_frames (y_snd y) = [] -> complete writes out y.
Proof.
  intros out y [LI LC LD LW LR LS LA LT] F. pose proof all_length as AL. unfold two31 in small.
  destruct LI as (k & K1 & K2 & K3 & K4 & K5). rewrite F in K3. cbn [map] in K3.
  assert (k = List.length all).
  { assert (H: List.length (skipn k all) = O) by (apply (f_equal (@List.length wire)) in K3; cbn [List.length] in K3; symmetry; exact K3).
    rewrite skipn_length in H. apply Nat.le_antisymm; [exact K1|apply Nat.sub_0_le; exact H]. }
  pose proof (inv_ws_hi _ _ _ LR) as Hhi. unfold nchunks in Hhi.
  assert (W: r_ws (y_rcv y) = N.of_nat (List.length chunks) + 2) by lia.
  assert (Cl: r_closed (y_rcv y) = true).
  { rewrite (inv_closed _ _ _ LR), W. unfold nchunks. apply N.ltb_lt. lia. }
  split; auto. split; auto. split.
  - rewrite (inv_buf _ _ _ LR). unfold consumed. rewrite W.
    rewrite firstn_all2 by lia. unfold chunks. apply stream_chunks_concat. exact m_pos.
  - intros j Hj. unfold read. rewrite Cl, andb_false_r. eexists.
    unfold take, drop, len in *. rewrite firstn_all2, skipn_all2 by lia. cbn. reflexivity.
Qed.

Theorem liveness_rounds : forall k out y0 yk, Linked out y0 -> rounds m all k y0 yk ->
  (List.length (s_frames (y_snd y0)) <= k)%nat ->
  exists j y, (j <= k)%nat /\ rounds m all j y0 y /\ complete writes out y.
Proof.
  induction k as [|k IH]; intros out y0 yk L R Hk.
  - exists O, y0. split; [lia|]. split; [constructor|]. apply linked_complete; auto.
    destruct (s_frames (y_snd y0)); auto. cbn in Hk. lia.
  - destruct (s_frames (y_snd y0)) eqn:F.
    + exists O, y0. split; [lia|]. split; [constructor|]. apply linked_complete; auto.
    + inversion R as [|k' y1 y2 y3 R1 R2]; subst.
      destruct (round_progress _ _ _ L R1) as (L2 & P). rewrite F in P. cbn [List.length] in P, Hk.
      destruct (IH out y2 yk L2 R2) as (j & y & J1 & J2 & J3). lia.
      exists (S j), y. split; [lia|]. split; auto. econstructor; eauto.
Qed.

(* a round is always possible from a linked state whose timer retransmits: deliver exactly what the tick sent *)
Lemma round_enabled : forall out y (rtt : N), Linked out y -> s_frames (y_snd y) <> [] -> tick_sends (y_snd y) ->
  exists y', round m all y y'.
Proof.
  intros out [s r] rtt [LI LC LD LW LR LS LA LT] Hne Ht. cbn [y_snd y_rcv] in *.
  eexists. apply (round_intro m all s r (map (fun e : emit => sf_proj (snd e)) (snd (rto_tick s))) rtt); auto.
  - intros e He. apply in_map_iff. exists e. auto.
  - intros x Hx. apply in_map_iff in Hx. destruct Hx as (e & E1 & E2). subst x.
    pose proof (emitted_from_buffer m s STick) as Em. cbn [sstep_m] in Em.
    destruct (rto_tick s) as [s1 em] eqn:T. cbn [fst snd] in *.
    unfold emitted_in in Em. rewrite Forall_forall in Em. specialize (Em e E2).
    pose proof (rto_tick_inv _ _ _ _ LI) as (I1 & _ & _). rewrite T in I1. cbn [fst] in I1.
    destruct I1 as (k & _ & _ & K3 & _). rewrite K3 in Em.
    rewrite <- (firstn_skipn k all). apply in_or_app. right. exact Em.
Qed.

(* ---- the link invariant survives everything a lossy network can do *)
Lemma lossy_linked : forall out y y', Linked out y -> lossy m all y y' -> Linked out y'.
Proof.
  intros out y y' [LI LC LD LW LR LS LA LT] H. inversion H; subst; cbn [y_snd y_rcv] in *.
  - destruct (rto_tick_inv _ _ _ _ LI) as (I1 & A1 & C1).
    constructor; cbn [y_snd y_rcv]; auto; try congruence.
    + rewrite rto_tick_dup. auto.
    + apply (rto_tick_wsize m m_pos); auto.
    + apply rto_tick_rtoc; auto.
  - destruct (deliver_frames_inv xs r out LR LS H0) as (RI & RS & RM & _).
    constructor; cbn [y_snd y_rcv]; auto. lia.
  - pose proof (inv_ws_hi _ _ _ LR) as Hhi. pose proof all_length as AL. unfold nchunks in Hhi.
    destruct (ack_step_progress s w rtt LI LC LD LW H0) as (I2 & C2 & D2 & W2 & A2 & T2). lia.
    constructor; cbn [y_snd y_rcv]; auto; lia.
Qed.

Lemma lossy_star_linked : forall out y y', lossy_star m all y y' -> Linked out y -> Linked out y'.
Proof. induction 1; intros L; auto. apply IHlossy_star. eapply lossy_linked; eauto. Qed.

(* ---- the canonical start state is linked *)
Definition fresh (s : sender) : Prop := s_closed s = false /\ s_dup s = 0%Z /\ s_wsize s < two16 /\ s_ack s = 1 /\ s_rtoc s = 0%Z.

Lemma write_step_fresh : forall w0 s b, SInv m w0 false s -> fresh s ->
  SInv m (w0 ++ [b]) false (fst (fst (sstep_m m s (SWrite b)))) /\ fresh (fst (fst (sstep_m m s (SWrite b)))).
Proof.
  intros w0 s b I (C & D & W & A & T). cbn [sstep_m].
  destruct (write_m m s b) as [[s1 sig]| |] eqn:Hw.
  - destruct (write_inv m m_pos _ _ _ _ _ _ I Hw) as (I1 & A1 & _ & C1).
    pose proof (write_wsize m _ _ _ _ Hw) as W1.
    assert (D1: s_dup s1 = s_dup s /\ s_rtoc s1 = s_rtoc s).
    { unfold write_m in Hw. destruct (_ || _); inversion Hw; split; reflexivity. }
    destruct D1 as [D1 T1].
    destruct sig.
    + pose proof (window_open_inv _ _ _ _ I1) as (I2 & A2 & C2).
      pose proof (window_open_dup s1) as D2. pose proof (window_open_wsize s1) as W2. pose proof (window_open_rtoc s1) as T2.
      destruct (window_open s1) as [s2 em]. cbn [fst] in *. split; auto. unfold fresh. repeat split; congruence.
    + cbn [fst]. split; auto. unfold fresh. repeat split; congruence.
  - exfalso. destruct I as (k & _ & _ & _ & _ & F). unfold write_m in Hw. rewrite F, C in Hw. discriminate.
  - exfalso. unfold write_m in Hw. destruct (_ || _); discriminate.
Qed.

Lemma srun_app : forall ops1 ops2 s, fst (srun_m m s (ops1 ++ ops2)) = fst (srun_m m (fst (srun_m m s ops1)) ops2).
Proof. induction ops1 as [|o r IH]; intros; cbn [app srun_m]. reflexivity.
  destruct (sstep_m m s o) as [[s1 em] c]. specialize (IH ops2 s1).
  destruct (srun_m m s1 (r ++ ops2)), (srun_m m s1 r). cbn [fst] in *. exact IH. Qed.

Lemma writes_run_fresh : forall ws w0 s, SInv m w0 false s -> fresh s ->
  SInv m (w0 ++ ws) false (fst (srun_m m s (map SWrite ws))) /\ fresh (fst (srun_m m s (map SWrite ws))).
Proof.
  induction ws as [|b r IH]; intros w0 s I F; cbn [map srun_m].
  - rewrite app_nil_r. auto.
  - destruct (write_step_fresh w0 s b I F) as (I1 & F1).
    destruct (sstep_m m s (SWrite b)) as [[s1 em] c]. cbn [fst] in *.
    destruct (IH (w0 ++ [b]) s1 I1 F1) as (I2 & F2). rewrite <- app_assoc in I2. cbn [app] in I2.
    destruct (srun_m m s1 (map SWrite r)). cbn [fst] in *. auto.
Qed.

Lemma start_linked : Linked [] (start m writes).
Proof.
  unfold start. rewrite srun_app.
  destruct (writes_run_fresh writes [] sender_new (sinv_init m)) as (I & (C & D & W & A & T)).
  { unfold fresh. cbn. repeat split; auto. }
  cbn [app] in I. set (s := fst (srun_m m sender_new (map SWrite writes))) in *.
  cbn [srun_m sstep_m]. rewrite C.
  destruct (send_fin s) as [[s1 em]| |] eqn:Hf.
  - destruct (send_fin_inv m m_pos _ _ _ _ _ I Hf) as (I1 & A1 & C1). pose proof (send_fin_wsize _ _ _ Hf) as W1.
    assert (D1: s_dup s1 = s_dup s /\ s_rtoc s1 = s_rtoc s) by (unfold send_fin in Hf; destruct (s_fin_sent s); inversion Hf; split; reflexivity).
    destruct D1 as [D1 T1].
    cbn [fst]. constructor; cbn [y_snd y_rcv]; auto; try congruence.
    + rewrite D1, D. lia.
    + apply inv_init. apply n_small.
    + split; cbn; auto.
    + rewrite A1, A. cbn. lia.
    + rewrite T1, T. lia.
  - exfalso. destruct I as (k & _ & _ & _ & _ & F). unfold send_fin in Hf. rewrite F in Hf. discriminate.
  - exfalso. unfold send_fin in Hf. destruct (s_fin_sent s); discriminate.
Qed.

(* every chain of rounds is bounded by the number of unacknowledged frames it started with, it ends in a linked
   state, and a linked state is stuck only when it is complete *)
Theorem rounds_bounded : forall k out y0 yk, Linked out y0 -> rounds m all k y0 yk ->
  Linked out yk /\ (List.length (s_frames (y_snd yk)) + k <= List.length (s_frames (y_snd y0)))%nat.
Proof.
  induction k as [|k IH]; intros out y0 yk L R.
  - inversion R; subst. split; auto. rewrite Nat.add_0_r. apply Nat.le_refl.
  - inversion R as [|k' y1 y2 y3 R1 R2]; subst.
    destruct (round_progress _ _ _ L R1) as (L2 & P).
    destruct (IH out y2 yk L2 R2) as (L3 & Q). split; auto. lia.
Qed.

Theorem liveness_from_start : forall y0 k yk,
  lossy_star m all (start m writes) y0 -> rounds m all k y0 yk ->
  (k <= List.length all)%nat /\
  (s_frames (y_snd yk) = [] -> complete writes [] yk) /\
  (s_frames (y_snd yk) <> [] -> 1 <= s_wsize (y_snd yk) -> exists y', round m all yk y').
Proof.
  intros y0 k yk Hl Hr. pose proof (lossy_star_linked [] _ _ Hl start_linked) as L.
  destruct (rounds_bounded k [] y0 yk L Hr) as (Lk & B).
  split; [|split].
  - destruct (lk_sinv _ _ L) as (k0 & _ & _ & K3 & _).
    assert (E: List.length (s_frames (y_snd y0)) = (List.length all - k0)%nat).
    { rewrite <- (map_length sf_proj), K3, skipn_length. reflexivity. }
    rewrite E in B. apply Nat.le_trans with (List.length all - k0)%nat; [|apply Nat.le_sub_l].
    apply Nat.le_trans with (List.length (s_frames (y_snd yk)) + k)%nat; [apply Nat.le_add_l|exact B].
  - apply linked_complete; auto.
  - intros Hne Hw. apply (round_enabled [] yk 0 Lk Hne).
    apply tick_sends_when_window_open; auto. apply (lk_rtoc _ _ Lk).
Qed.
End Link.

Lemma auto_round_round : forall m all y rtt,
  s_frames (y_snd y) <> [] -> tick_sends (y_snd y) ->
  (forall e, In e (snd (rto_tick (y_snd y))) -> In (sf_proj (snd e)) all) ->
  round m all y (auto_round m y rtt).
Proof.
  intros m all [s r] rtt H1 H2 H3. unfold auto_round. cbn [y_snd y_rcv] in *.
  apply (round_intro m all s r (map (fun e : emit => sf_proj (snd e)) (snd (rto_tick s))) rtt); auto.
  - intros e He. apply in_map_iff. exists e. auto.
  - intros x Hx. apply in_map_iff in Hx. destruct Hx as (e & E1 & E2). subst x. auto.
Qed.
