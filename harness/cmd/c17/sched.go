// Controlled scheduling on top of the verifYield hooks: every worker goroutine parks at each
// yield point; the controller grants one atomic action at a time, so a run is a deterministic
// function of the schedule (the list of granted threads) — exactly the model's granularity.
package main

import (
	"bytes"
	"runtime"
	"strconv"
	"strings"
	"sync"
	"time"
)

func goid() uint64 {
	var b [64]byte
	n := runtime.Stack(b[:], false)
	s := b[len("goroutine "):n]
	i := bytes.IndexByte(s, ' ')
	id, _ := strconv.ParseUint(string(s[:i]), 10, 64)
	return id
}

// goroutine states (from runtime.Stack(all)) in which a goroutine cannot run by itself
func blockedState(st string) bool {
	if i := strings.IndexByte(st, ','); i >= 0 {
		st = st[:i]
	}
	switch st {
	case "select", "chan receive", "chan send", "semacquire", "sync.Mutex.Lock", "sync.RWMutex.Lock",
		"sync.RWMutex.RLock", "sync.Cond.Wait", "sync.WaitGroup.Wait", "IO wait", "chan receive (nil chan)",
		"select (no cases)":
		return true
	}
	return false
}

// goStates returns goroutine id -> state for all goroutines
func goStates() map[uint64]string {
	buf := make([]byte, 1<<16)
	for {
		n := runtime.Stack(buf, true)
		if n < len(buf) {
			buf = buf[:n]
			break
		}
		buf = make([]byte, 2*len(buf))
	}
	m := map[uint64]string{}
	for _, blk := range bytes.Split(buf, []byte("\n\n")) {
		if !bytes.HasPrefix(blk, []byte("goroutine ")) {
			continue
		}
		line := blk
		if i := bytes.IndexByte(blk, '\n'); i >= 0 {
			line = blk[:i]
		}
		// goroutine 12 [select, 2 minutes]:
		s := string(line[len("goroutine "):])
		i := strings.IndexByte(s, ' ')
		j := strings.IndexByte(s, '[')
		k := strings.LastIndexByte(s, ']')
		if i < 0 || j < 0 || k < j {
			continue
		}
		id, err := strconv.ParseUint(s[:i], 10, 64)
		if err != nil {
			continue
		}
		m[id] = s[j+1 : k]
	}
	return m
}

type evKind int

const (
	evArrive evKind = iota // parked at a yield point
	evDone                 // worker finished all its calls
)

type event struct {
	th    int
	kind  evKind
	point string
}

const (
	tsRunning = iota
	tsParked
	tsBlocked
	tsDone
)

// step record: thread th performed the action guarded by yield point `from`; `next` is where it
// went ("" = its call returned / worker done) — the select choice is derived from it.
type stepRec struct {
	th    int
	from  string
	next  string
	woken bool // the step completed as a consequence of another thread's granted step
}

type controller struct {
	mu      sync.Mutex
	byGoid  map[uint64]int
	goids   []uint64
	events  chan event
	grant   []chan struct{}
	passthr bool // hooks disabled (cleanup phase)

	state   []int
	at      []string // yield point a parked thread is at / a running thread was granted from
	steps   []stepRec
	batch   []stepRec // steps completed since the last grant
	granted int
}

func newController(n int) *controller {
	c := &controller{byGoid: map[uint64]int{}, goids: make([]uint64, n), events: make(chan event, 4096),
		grant: make([]chan struct{}, n), state: make([]int, n), at: make([]string, n), granted: -1}
	for i := range c.grant {
		c.grant[i] = make(chan struct{}, 1)
	}
	return c
}

func (c *controller) register(i int) {
	g := goid()
	c.mu.Lock()
	c.byGoid[g] = i
	c.goids[i] = g
	c.mu.Unlock()
}

// hook is installed with common.SetVerifYield
func (c *controller) hook(point string) {
	c.mu.Lock()
	if c.passthr {
		c.mu.Unlock()
		return
	}
	i, ok := c.byGoid[goid()]
	c.mu.Unlock()
	if !ok {
		return
	}
	c.events <- event{i, evArrive, point}
	<-c.grant[i]
}

func (c *controller) workerDone(i int) { c.events <- event{i, evDone, ""} }

func (c *controller) apply(e event) {
	if c.state[e.th] == tsRunning || c.state[e.th] == tsBlocked {
		if c.at[e.th] != "" {
			nx := e.point
			c.batch = append(c.batch, stepRec{e.th, c.at[e.th], nx, e.th != c.granted})
		}
	}
	if e.kind == evDone {
		c.state[e.th] = tsDone
		c.at[e.th] = ""
	} else {
		c.state[e.th] = tsParked
		c.at[e.th] = e.point
	}
}

func (c *controller) drain() {
	for {
		select {
		case e := <-c.events:
			c.apply(e)
		default:
			return
		}
	}
}

// settle waits until no thread is running: every one is parked, done, or blocked in the runtime.
// Returns false if a thread stays runnable for too long (driver problem).
func (c *controller) settle() bool {
	ok := c.settle1()
	// the granted thread's action happened before the steps it enabled in other threads
	for _, s := range c.batch {
		if !s.woken {
			c.steps = append(c.steps, s)
		}
	}
	for _, s := range c.batch {
		if s.woken {
			c.steps = append(c.steps, s)
		}
	}
	c.batch = c.batch[:0]
	return ok
}

func (c *controller) settle1() bool {
	deadline := time.Now().Add(10 * time.Second)
	for {
		c.drain()
		busy := false
		for i := range c.state {
			if c.state[i] == tsRunning || c.state[i] == tsBlocked {
				busy = true
			}
		}
		if !busy {
			return true
		}
		// wait briefly for an event
		select {
		case e := <-c.events:
			c.apply(e)
			continue
		case <-time.After(200 * time.Microsecond):
		}
		st := goStates()
		c.drain()
		c.mu.Lock()
		gids := append([]uint64(nil), c.goids...)
		c.mu.Unlock()
		all := true
		for i := range c.state {
			if c.state[i] == tsRunning || c.state[i] == tsBlocked {
				if gids[i] != 0 && blockedState(st[gids[i]]) {
					c.state[i] = tsBlocked
				} else {
					c.state[i] = tsRunning
					all = false
				}
			}
		}
		if all {
			// second look: an event may have been queued between the stack dump and now
			select {
			case e := <-c.events:
				c.apply(e)
				continue
			default:
			}
			return true
		}
		if time.Now().After(deadline) {
			return false
		}
	}
}

func (c *controller) parked() []int {
	var p []int
	for i, s := range c.state {
		if s == tsParked {
			p = append(p, i)
		}
	}
	return p
}

// grantTo lets thread i perform the action after its current yield point
func (c *controller) grantTo(i int) {
	c.granted = i
	c.state[i] = tsRunning
	c.grant[i] <- struct{}{}
}

// release turns the hooks into no-ops and frees every parked worker (cleanup)
func (c *controller) release() {
	c.mu.Lock()
	c.passthr = true
	c.mu.Unlock()
	for i := range c.grant {
		select {
		case c.grant[i] <- struct{}{}:
		default:
		}
	}
}
