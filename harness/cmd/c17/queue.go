// Deadline queue (common.DeadlineChan) part of the C17 driver.
package main

import (
	"errors"
	"fmt"
	"io"
	"os"
	"runtime"
	"strings"
	"sync"
	"sync/atomic"
	"time"

	"hop.computer/hop/common"
	"verifharness/hv"
)

type opKind int

const (
	kRecv opKind = iota
	kSend
	kClose
	kSetDl
	kCancel
)

type qop struct {
	k   opKind
	v   uint64 // Send value / Cancel error code (>=3)
	dl  int    // 0 zero, 1 past, 2 soon, 3 late
	ret int64  // result: -1 not returned; for Recv item => 1000+v ; error codes 0 nil 1 EOF 2 deadline >=3 custom
	c   int64  // call stamp
	r   int64  // return stamp
	e   int64  // controlled runs: position of the call's last atomic action in the recorded step order (0 = unknown)
}

func (o qop) coqOp() string {
	switch o.k {
	case kRecv:
		return "Rv"
	case kSend:
		return "(Sd " + hv.N(o.v) + ")"
	case kClose:
		return "Cl"
	case kSetDl:
		return []string{"Dz", "Dp", "Ds", "Dl"}[o.dl]
	default:
		return "(Cn " + hv.N(o.v) + ")"
	}
}
func (o qop) String() string {
	switch o.k {
	case kRecv:
		return "Recv"
	case kSend:
		return fmt.Sprintf("Send(%d)", o.v)
	case kClose:
		return "Close"
	case kSetDl:
		return "SetDeadline(" + []string{"zero", "past", "soon", "late"}[o.dl] + ")"
	default:
		return fmt.Sprintf("Cancel(e%d)", o.v)
	}
}
func retCoq(r int64) string {
	if r >= 1000 {
		return "(It " + hv.N(uint64(r-1000)) + ")"
	}
	return "(Er " + hv.N(uint64(r)) + ")"
}
func retStr(r int64) string {
	switch {
	case r < 0:
		return "BLOCKED"
	case r >= 1000:
		return fmt.Sprintf("item %d", r-1000)
	case r == 0:
		return "nil"
	case r == 1:
		return "EOF"
	case r == 2:
		return "deadline"
	case r == 900:
		return "PANIC"
	}
	return fmt.Sprintf("e%d", r)
}

var customErrs = map[uint64]error{}

func customErr(code uint64) error {
	if e, ok := customErrs[code]; ok {
		return e
	}
	e := fmt.Errorf("custom-%d", code)
	customErrs[code] = e
	return e
}
func errCode(err error) int64 {
	switch {
	case err == nil:
		return 0
	case err == io.EOF:
		return 1
	case errors.Is(err, os.ErrDeadlineExceeded):
		return 2
	}
	for c, e := range customErrs {
		if e == err {
			return int64(c)
		}
	}
	return 999
}

var stamp atomic.Int64

var panicMu sync.Mutex
var panicMsgs []string

func notePanic(m string) {
	panicMu.Lock()
	panicMsgs = append(panicMsgs, m)
	panicMu.Unlock()
}
func lastPanic() string {
	panicMu.Lock()
	defer panicMu.Unlock()
	if len(panicMsgs) == 0 {
		return ""
	}
	return panicMsgs[len(panicMsgs)-1]
}

// a panic inside the code under test is an observation: the call "returns" code 900
func doOp(d *common.DeadlineChan[uint64], o *qop) {
	atomic.StoreInt64(&o.c, stamp.Add(1))
	var res int64
	defer func() {
		if e := recover(); e != nil {
			notePanic(fmt.Sprint(e))
			atomic.StoreInt64(&o.ret, 900)
			atomic.StoreInt64(&o.r, stamp.Add(1))
		}
	}()
	switch o.k {
	case kRecv:
		v, err := d.Recv()
		if err == nil {
			res = 1000 + int64(v)
		} else {
			res = errCode(err)
		}
	case kSend:
		res = errCode(d.Send(o.v))
	case kClose:
		res = errCode(d.Close())
	case kSetDl:
		var t time.Time
		switch o.dl {
		case 1:
			t = time.Now().Add(-time.Second)
		case 2:
			t = time.Now().Add(2 * time.Millisecond)
		case 3:
			t = time.Now().Add(time.Hour)
		}
		res = errCode(d.SetDeadline(t))
	case kCancel:
		res = errCode(d.Cancel(customErr(o.v)))
	}
	atomic.StoreInt64(&o.ret, res)
	atomic.StoreInt64(&o.r, stamp.Add(1))
}

// ---------------------------------------------------------------- program generation

type program struct {
	cap   int
	progs [][]qop
	seq   bool // stamps are totally ordered with the calls' effects (controlled run: one goroutine moves at a time)
}

func (p program) String() string {
	var ts []string
	for i, t := range p.progs {
		var os []string
		for _, o := range t {
			os = append(os, o.String())
		}
		ts = append(ts, fmt.Sprintf("T%d:[%s]", i, strings.Join(os, ";")))
	}
	return fmt.Sprintf("cap=%d %s", p.cap, strings.Join(ts, " "))
}
func (p program) coqProgs() string {
	var ts []string
	for _, t := range p.progs {
		var os []string
		for _, o := range t {
			os = append(os, o.coqOp())
		}
		ts = append(ts, hv.List(os))
	}
	return hv.List(ts)
}

// snapshot copies the program reading the fields the workers write with atomic loads
func (p program) snapshot() program {
	q := program{cap: p.cap, seq: p.seq}
	for i := range p.progs {
		nt := make([]qop, len(p.progs[i]))
		for j := range p.progs[i] {
			o := &p.progs[i][j]
			nt[j] = qop{k: o.k, v: o.v, dl: o.dl}
			nt[j].c = atomic.LoadInt64(&o.c)
			nt[j].r = atomic.LoadInt64(&o.r)
			nt[j].ret = atomic.LoadInt64(&o.ret)
			if nt[j].r == 0 {
				nt[j].ret = -1
			}
		}
		q.progs = append(q.progs, nt)
	}
	return q
}

func (p program) clone() program {
	q := program{cap: p.cap}
	for _, t := range p.progs {
		nt := make([]qop, len(t))
		copy(nt, t)
		for i := range nt {
			nt[i].ret, nt[i].c, nt[i].r = -1, 0, 0
		}
		q.progs = append(q.progs, nt)
	}
	return q
}

// genProgram: nth threads, at most maxOps calls in total; soon = allow real timers
func genProgram(r *hv.Rand, soon bool, maxThreads, maxOps int) program {
	p := program{cap: hv.Pick(r, []int{1, 1, 2, 3})}
	nth := 2 + r.Intn(maxThreads-1)
	total := nth + r.Intn(maxOps-nth+1)
	p.progs = make([][]qop, nth)
	next := uint64(1)
	// shape: bias towards programs with a Close and with blocking receivers/senders
	for n := 0; n < total; n++ {
		i := n
		if n >= nth {
			i = r.Intn(nth)
		}
		if len(p.progs[i]) >= 3 {
			continue
		}
		var o qop
		switch x := r.Intn(100); {
		case x < 30:
			o = qop{k: kRecv}
		case x < 58:
			o = qop{k: kSend, v: next}
			next++
		case x < 74:
			o = qop{k: kClose}
		case x < 92:
			dls := []int{0, 1, 1, 3}
			if soon {
				dls = []int{0, 1, 2, 2, 3}
			}
			o = qop{k: kSetDl, dl: hv.Pick(r, dls)}
		default:
			o = qop{k: kCancel, v: 3 + uint64(r.Intn(2))}
		}
		o.ret = -1
		p.progs[i] = append(p.progs[i], o)
	}
	return p
}

// settleGoroutines waits (briefly) for exiting goroutines to be gone and returns the count
func settleGoroutines(want int) int {
	for k := 0; k < 400; k++ {
		if n := runtime.NumGoroutine(); n <= want {
			return n
		}
		time.Sleep(250 * time.Microsecond)
	}
	return runtime.NumGoroutine()
}

// ---------------------------------------------------------------- cleanup shared by both runners

// cleanup releases whatever is still blocked on d so that the worker goroutines exit.
func cleanup(d *common.DeadlineChan[uint64], wg *sync.WaitGroup) (leftover []uint64, leaked bool) {
	done := make(chan struct{})
	go func() { wg.Wait(); close(done) }()
	closed := make(chan struct{})
	go func() { d.Close(); close(closed) }()
	deadline := time.After(700 * time.Millisecond)
	for {
		select {
		case v := <-d.C:
			leftover = append(leftover, v)
			continue
		default:
		}
		select {
		case <-done:
			// final drain
			for {
				select {
				case v := <-d.C:
					leftover = append(leftover, v)
					continue
				default:
				}
				break
			}
			<-closed
			return leftover, false
		case <-deadline:
			return leftover, true
		case <-time.After(200 * time.Microsecond):
		}
	}
}

// ---------------------------------------------------------------- specification oracle
// (written from the property text; independent of the Coq model)

type verdict struct {
	ok   bool
	sig  string
	what string
}

func judge(p program, leftoverBeforeCleanup []uint64, leaked bool, goBefore, goAfter int) verdict {
	sentOK := map[uint64]bool{}
	sender := map[uint64]int{}
	sendIdx := map[uint64]int{}
	anySent := map[uint64]bool{}
	var closeNil, closeBlocked, sendBlocked, otherBlocked int
	var blockedDesc []string
	for i, t := range p.progs {
		for j, o := range t {
			if o.c == 0 {
				continue // never issued: an earlier call of this thread is still blocked
			}
			if o.ret == 900 {
				return verdict{false, "C17:panic", fmt.Sprintf("T%d %s panicked: %s", i, o, lastPanic())}
			}
			if o.ret < 0 {
				blockedDesc = append(blockedDesc, fmt.Sprintf("T%d %s", i, o))
				switch o.k {
				case kClose:
					closeBlocked++
				case kSend:
					sendBlocked++
				default:
					otherBlocked++
				}
			}
			switch o.k {
			case kSend:
				anySent[o.v] = true
				sender[o.v] = i
				sendIdx[o.v] = j
				if o.ret == 0 {
					sentOK[o.v] = true
				}
			case kClose:
				if o.ret == 0 {
					closeNil++
				}
				if o.ret > 1 {
					return verdict{false, "C17:queue-close-result", fmt.Sprintf("T%d Close returned %s", i, retStr(o.ret))}
				}
			}
		}
	}
	// every call returns
	if closeBlocked > 0 {
		if sendBlocked > 0 {
			return verdict{false, "C17:close-behind-blocked-send", "Close never returned while a Send blocked on the full queue holds the queue mutex: " + strings.Join(blockedDesc, ", ")}
		}
		return verdict{false, "C17:close-never-returned", "a Close call never returned: " + strings.Join(blockedDesc, ", ")}
	}
	if closeNil > 0 && (sendBlocked+otherBlocked) > 0 {
		return verdict{false, "C17:call-not-released-by-close", "the queue was closed but these calls never returned: " + strings.Join(blockedDesc, ", ")}
	}
	if closeNil > 1 {
		return verdict{false, "C17:queue-closed-twice", fmt.Sprintf("%d Close calls reported nil", closeNil)}
	}
	// "Send after Close -> EOF": no Send may report success for an item queued after Close completed.
	// A Send issued after a Close had returned nil must fail; when the stamps are totally ordered
	// with the effects (controlled runs) a Send may not even return nil after Close returned.
	// (Return stamps are taken after the call returned; in a controlled run a call released by the
	// granted thread's action — Close's wait for the mutex — returns concurrently with the granted
	// call, so there the order of the calls' LAST ATOMIC ACTIONS in the recorded schedule is used.)
	var closeRet, closeEff int64 = -1, 0
	for _, t := range p.progs {
		for _, o := range t {
			if o.k == kClose && o.ret == 0 && o.r > 0 && (closeRet < 0 || o.r < closeRet) {
				closeRet = o.r
				closeEff = o.e
			}
		}
	}
	if closeRet >= 0 {
		for i, t := range p.progs {
			for _, o := range t {
				if o.k != kSend || o.ret != 0 {
					continue
				}
				if o.c > closeRet {
					return verdict{false, "C17:send-succeeded-after-close", fmt.Sprintf("T%d %s was issued after Close had returned nil and reported success", i, o)}
				}
				if p.seq && closeEff > 0 && o.e > closeEff {
					return verdict{false, "C17:send-succeeded-after-close", fmt.Sprintf("T%d %s returned nil after Close had completed: its item was queued on the closed queue (Send after Close must give io.EOF)", i, o)}
				}
			}
		}
	}
	_ = closeEff
	// at most once, only sent items, per sender/receiver order, errors are real errors
	got := map[uint64]int{}
	var firstEOFRet int64 = -1
	for i, t := range p.progs {
		last := map[int]int{}
		for _, o := range t {
			if o.k != kRecv || o.ret < 0 {
				continue
			}
			if o.ret >= 1000 {
				v := uint64(o.ret - 1000)
				got[v]++
				if !anySent[v] {
					return verdict{false, "C17:received-unsent-item", fmt.Sprintf("T%d received %d which nobody sent", i, v)}
				}
				if got[v] > 1 {
					return verdict{false, "C17:item-delivered-twice", fmt.Sprintf("item %d was delivered twice", v)}
				}
				s := sender[v]
				if prev, ok := last[s]; ok && sendIdx[v] < prev {
					return verdict{false, "C17:items-out-of-order", fmt.Sprintf("T%d received items of T%d out of order", i, s)}
				}
				last[s] = sendIdx[v]
			} else if o.ret == 0 {
				return verdict{false, "C17:recv-nil-without-item", fmt.Sprintf("T%d Recv returned (zero, nil)", i)}
			} else if o.ret == 1 {
				if firstEOFRet < 0 || o.r < firstEOFRet {
					firstEOFRet = o.r
				}
			}
		}
	}
	for v := range sentOK {
		_ = v
	}
	// EOF only after queued data: once a Recv has reported EOF the queue is empty for good
	if firstEOFRet >= 0 {
		if len(leftoverBeforeCleanup) > 0 {
			return verdict{false, "C17:eof-before-queued-data", fmt.Sprintf("a Recv reported io.EOF but item(s) %v were still queued", leftoverBeforeCleanup)}
		}
		for i, t := range p.progs {
			for _, o := range t {
				if o.k == kRecv && o.ret >= 1000 && o.c > firstEOFRet {
					return verdict{false, "C17:data-after-eof", fmt.Sprintf("T%d Recv (issued after another Recv had returned io.EOF) returned item %d", i, o.ret-1000)}
				}
			}
		}
	}
	// every successfully sent item is received or still queued (nothing lost, nothing invented)
	lo := map[uint64]bool{}
	for _, v := range leftoverBeforeCleanup {
		lo[v] = true
	}
	for v := range sentOK {
		if got[v] == 0 && !lo[v] {
			// may have been taken by a Recv that never returned? a taken item is always returned
			return verdict{false, "C17:item-lost", fmt.Sprintf("item %d was sent successfully but neither received nor left in the queue", v)}
		}
	}
	if leaked {
		return verdict{false, "C17:goroutine-leak", "worker goroutines still blocked after the queue was closed and drained: " + strings.Join(blockedDesc, ", ")}
	}
	if goAfter > goBefore {
		return verdict{false, "C17:goroutine-leak", fmt.Sprintf("goroutines before=%d after=%d", goBefore, goAfter)}
	}
	return verdict{true, "", ""}
}

// ---------------------------------------------------------------- controlled runs

var pointCode = map[string]int{
	"dc.recv.poll": 1, "dc.recv.closed": 2, "dc.recv.done": 3, "dc.recv.pollerr": 4, "dc.recv.select": 5, "dc.recv.err": 6, "dc.recv.repoll": 7, "dc.recv.barrier": 8,
	"dc.send.lock": 10, "dc.send.closed": 11, "dc.send.done": 12, "dc.send.pollerr": 13, "dc.send.select": 14, "dc.send.err": 15,
	"dc.close.cas": 20, "dc.close.cancel": 23, "dc.close.wait": 24,
	"dc.setdl.closed": 30, "dc.setdl.set": 31, "dc.setdl.recheck": 32, "dc.setdl.recancel": 33,
	"dc.cancel.closed": 40, "dc.cancel.cancel": 41,
}

// peek at the queue without disturbing it is impossible; instead the leftover items are read
// after the controlled run has reached its end state (nothing can move any more).
func runControlled(class string, p0 program, script []int, r *hv.Rand) {
	p := p0.clone()
	n := len(p.progs)
	goBefore := runtime.NumGoroutine()
	d := common.NewDeadlineChan[uint64](p.cap)
	c := newController(n)
	common.SetVerifYield(c.hook)
	var wg sync.WaitGroup
	for i := 0; i < n; i++ {
		wg.Add(1)
		go func(i int) {
			defer wg.Done()
			c.register(i)
			for j := range p.progs[i] {
				doOp(d, &p.progs[i][j])
			}
			c.workerDone(i)
		}(i)
	}
	okSettle := c.settle()
	var sched []int
	for okSettle {
		pk := c.parked()
		if len(pk) == 0 {
			break
		}
		pick := -1
		for len(script) > 0 && pick < 0 {
			s := script[0]
			script = script[1:]
			for _, i := range pk {
				if i == s {
					pick = i
				}
			}
		}
		if pick < 0 {
			pick = pk[r.Intn(len(pk))]
		}
		sched = append(sched, pick)
		c.grantTo(pick)
		okSettle = c.settle()
	}
	// end state reached: who is blocked?
	blocked := make([]bool, n)
	for i, s := range c.state {
		blocked[i] = s == tsBlocked
	}
	steps := append([]stepRec(nil), c.steps...)
	// snapshot results before cleanup
	p.seq = true
	snap := p.snapshot()
	// position of every returned call's last atomic action in the step order (granted action first,
	// then the actions it released): a step whose successor is the first point of a call, or none
	{
		done := make([]int, n)
		for k, s := range steps {
			if s.next == "" || pointCode[s.next]%10 == 0 || s.next == "dc.recv.poll" {
				if j := done[s.th]; j < len(snap.progs[s.th]) && snap.progs[s.th][j].ret >= 0 {
					snap.progs[s.th][j].e = int64(k + 1)
				}
				done[s.th]++
			}
		}
	}
	c.release()
	common.SetVerifYield(nil)
	leftover, leaked := cleanup(d, &wg)
	// items taken by calls that were released only by the cleanup are not leftovers of the run;
	// in a controlled run the end state is quiescent, so the queue content at that moment is
	// what cleanup drained plus what late Recvs took
	for i := range p.progs {
		for j := range p.progs[i] {
			if snap.progs[i][j].ret < 0 {
				if rr := atomic.LoadInt64(&p.progs[i][j].ret); rr >= 1000 {
					leftover = append(leftover, uint64(rr-1000))
				}
			}
		}
	}
	// a Send released by the cleanup may have put its item: that is not a leftover of the run
	lateSent := map[uint64]bool{}
	for i := range p.progs {
		for j := range p.progs[i] {
			if snap.progs[i][j].ret < 0 && p.progs[i][j].k == kSend {
				lateSent[p.progs[i][j].v] = true
			}
		}
	}
	var lo []uint64
	for _, v := range leftover {
		if !lateSent[v] {
			lo = append(lo, v)
		}
	}
	goAfter := settleGoroutines(goBefore)
	if leaked {
		goAfter = goBefore // reported through `leaked`
	}
	v := judge(snap, lo, leaked, goBefore, goAfter)
	if !okSettle {
		v = verdict{false, "C17:driver-could-not-settle", "a worker stayed runnable for 10 s"}
	}

	// Coq case
	var ev []string
	switches := 0
	for k, s := range steps {
		ch := (s.from == "dc.recv.select" && s.next == "dc.recv.err") || (s.from == "dc.send.select" && s.next == "dc.send.err")
		code := (s.th*64 + pointCode[s.from]) * 4
		if ch {
			code += 2
		}
		if s.woken {
			code++
		}
		ev = append(ev, hv.Ni(code))
		if k > 0 && steps[k-1].th != s.th && steps[k-1].next != "" && pointCode[steps[k-1].next]%10 != 0 && steps[k-1].next != "dc.recv.poll" {
			switches++
		}
	}
	var obs, bl []string
	var descRes []string
	for i, t := range snap.progs {
		var rs []string
		for _, o := range t {
			if o.ret >= 0 {
				rs = append(rs, retCoq(o.ret))
			}
			descRes = append(descRes, fmt.Sprintf("T%d %s=%s", i, o, retStr(o.ret)))
		}
		obs = append(obs, hv.List(rs))
		bl = append(bl, hv.B(blocked[i]))
	}
	var ss []string
	for _, s := range sched {
		ss = append(ss, hv.Ni(s))
	}
	desc := p.String() + " schedule=" + strings.Join(ss, ",") + " => " + strings.Join(descRes, ", ")
	hv.Emit(hv.Case{Fn: "c17s_ok", Coq: hv.Tuple(hv.Ni(p.cap), p.coqProgs(), hv.List(ev), hv.List(obs), hv.List(bl)),
		Class: class, Desc: desc, Spec: v.ok, Sig: v.sig, What: v.what, NT: switches >= 2,
		Key:    p.String() + "|" + strings.Join(ss, ","),
		Replay: map[string]interface{}{"program": p.String(), "schedule": sched, "steps(thread@yield-point)": stepList(steps), "results": descRes}})
}

// ---------------------------------------------------------------- free runs

func runFree(class string, p0 program, r *hv.Rand, perturb bool) {
	p := p0.clone()
	n := len(p.progs)
	goBefore := runtime.NumGoroutine()
	d := common.NewDeadlineChan[uint64](p.cap)
	seed := r.U64()
	var ctr atomic.Uint64
	if perturb {
		common.SetVerifYield(func(string) {
			x := (ctr.Add(1) + seed) * 0x9E3779B97F4A7C15
			switch (x >> 33) % 8 {
			case 0, 1:
				runtime.Gosched()
			case 2:
				time.Sleep(time.Duration((x>>40)%50) * time.Microsecond)
			}
		})
	} else {
		common.SetVerifYield(nil)
	}
	var wg sync.WaitGroup
	gids := make([]uint64, n)
	fin := make([]atomic.Bool, n)
	var reg sync.WaitGroup
	start := make(chan struct{})
	for i := 0; i < n; i++ {
		wg.Add(1)
		reg.Add(1)
		go func(i int) {
			defer wg.Done()
			gids[i] = goid()
			reg.Done()
			<-start
			for j := range p.progs[i] {
				doOp(d, &p.progs[i][j])
			}
			fin[i].Store(true)
		}(i)
	}
	reg.Wait()
	close(start)
	hasSoon := false
	for _, t := range p0.progs {
		for _, o := range t {
			if o.k == kSetDl && o.dl == 2 {
				hasSoon = true
			}
		}
	}
	// quiescence: every worker finished or blocked in the runtime, stamps stable over two looks,
	// and any real timer has had ample time to fire
	t0 := time.Now()
	var lastStamp int64 = -1
	stable := 0
	for {
		allq := true
		for i := 0; i < n; i++ {
			if !fin[i].Load() {
				allq = false
			}
		}
		if allq {
			break
		}
		time.Sleep(300 * time.Microsecond)
		st := goStates()
		q := true
		for i := 0; i < n; i++ {
			if !fin[i].Load() && !blockedState(st[gids[i]]) {
				q = false
			}
		}
		s := stamp.Load()
		if q && s == lastStamp {
			stable++
		} else {
			stable = 0
		}
		lastStamp = s
		minWait := 2 * time.Millisecond
		if hasSoon {
			minWait = 40 * time.Millisecond
		}
		if stable >= 3 && time.Since(t0) > minWait {
			break
		}
		if time.Since(t0) > 20*time.Second {
			break
		}
	}
	snap := p.snapshot()
	common.SetVerifYield(nil)
	leftover, leaked := cleanup(d, &wg)
	lateSent := map[uint64]bool{}
	for i := range p.progs {
		for j := range p.progs[i] {
			if snap.progs[i][j].ret < 0 {
				if rr := atomic.LoadInt64(&p.progs[i][j].ret); rr >= 1000 {
					leftover = append(leftover, uint64(rr-1000))
				}
				if p.progs[i][j].k == kSend {
					lateSent[p.progs[i][j].v] = true
				}
			}
		}
	}
	var lo []uint64
	for _, v := range leftover {
		if !lateSent[v] {
			lo = append(lo, v)
		}
	}
	goAfter := settleGoroutines(goBefore)
	if leaked {
		goAfter = goBefore
	}
	v := judge(snap, lo, leaked, goBefore, goAfter)

	// Coq case: per call (op, Some ret | None, need vector, return stamp); calls never issued are dropped
	var ths []string
	var descRes []string
	conc := false
	for i, t := range snap.progs {
		var cs []string
		for _, o := range t {
			if o.c == 0 {
				continue // never issued (an earlier call of this thread is still blocked)
			}
			need := make([]string, n)
			for u, tu := range snap.progs {
				k := 0
				for _, ou := range tu {
					if ou.ret >= 0 && ou.r != 0 && ou.r < o.c {
						k++
					}
				}
				need[u] = hv.Ni(k)
			}
			res := "None"
			st := int64(1000000000)
			if o.ret >= 0 {
				res = "(Some " + retCoq(o.ret) + ")"
				st = o.r
			}
			cs = append(cs, hv.Tuple(o.coqOp(), res, hv.List(need), hv.Ni(int(st))))
			descRes = append(descRes, fmt.Sprintf("T%d %s=%s[%d,%d]", i, o, retStr(o.ret), o.c, o.r))
			for u, tu := range snap.progs {
				for _, ou := range tu {
					if u != i && ou.c != 0 && ou.c < o.r && (ou.r == 0 || ou.r > o.c || ou.ret < 0) {
						conc = true
					}
				}
			}
		}
		ths = append(ths, hv.List(cs))
	}
	desc := p.String() + " => " + strings.Join(descRes, ", ")
	hv.Emit(hv.Case{Fn: "c17f_ok", Coq: hv.Tuple(hv.Ni(p.cap), hv.List(ths)),
		Class: class, Desc: desc, Spec: v.ok, Sig: v.sig, What: v.what, NT: conc, Key: desc,
		Replay: map[string]interface{}{"program": p.String(), "history": descRes}})
}

func parseScript(s string) []int {
	var out []int
	for _, f := range strings.Split(s, ",") {
		var x int
		if _, err := fmt.Sscanf(strings.TrimSpace(f), "%d", &x); err == nil {
			out = append(out, x)
		}
	}
	return out
}

func stepList(steps []stepRec) []string {
	out := make([]string, 0, len(steps))
	for _, s := range steps {
		w := ""
		if s.woken {
			w = "(woken)"
		}
		out = append(out, fmt.Sprintf("T%d@%s%s", s.th, s.from, w))
	}
	return out
}

// ---------------------------------------------------------------- schedule exploration of small programs
// Every 3-call program (one call per goroutine) over {Recv, Send, SetDeadline(zero|past|late), Cancel,
// Close}: the interleavings of the goroutines' yield points are sampled with the hooks as gates
// (seeded PRNG); programs in which a Close and a deadline change race with a blocking call get the
// most schedules.  Each run has the controller's watchdog; the replay is the schedule itself.
func exploreSmall(r *hv.Rand) {
	kinds := []qop{{k: kRecv}, {k: kSend}, {k: kSetDl, dl: 0}, {k: kSetDl, dl: 1}, {k: kSetDl, dl: 3}, {k: kCancel, v: 3}, {k: kClose}}
	name := func(o qop) int {
		for i, k := range kinds {
			if k.k == o.k && k.dl == o.dl {
				return i
			}
		}
		return -1
	}
	for a := 0; a < len(kinds); a++ {
		for b := a; b < len(kinds); b++ {
			for c := b; c < len(kinds); c++ {
				ops := []qop{kinds[a], kinds[b], kinds[c]}
				hasClose, hasDl, hasBlock := false, false, false
				next := uint64(1)
				for i := range ops {
					switch ops[i].k {
					case kClose:
						hasClose = true
					case kSetDl, kCancel:
						hasDl = true
					case kRecv:
						hasBlock = true
					case kSend:
						hasBlock = true
						ops[i].v = next
						next++
					}
					ops[i].ret = -1
				}
				_ = name
				n := hv.Scale(2, 40)
				switch {
				case hasClose && hasDl && hasBlock:
					n = hv.Scale(80, 3000)
				case hasClose && hasBlock:
					n = hv.Scale(12, 400)
				case hasClose || (hasDl && hasBlock):
					n = hv.Scale(5, 150)
				}
				for _, cp := range []int{1, 2} {
					if cp == 2 && !(hasClose && hasDl && hasBlock) {
						continue
					}
					p := program{cap: cp, progs: [][]qop{{ops[0]}, {ops[1]}, {ops[2]}}}
					for k := 0; k < n/cp; k++ {
						runControlled("explore-3op", p, nil, r)
					}
				}
			}
		}
	}
}

// {Send, Close, Recv, Recv} on a queue with free capacity: the sender is taken to its last yield
// point (dc.send.select: closed flag read, deadline channel fetched and polled), then Close runs to
// completion, a Recv reports end of stream, and only then the sender and the second Recv continue.
// The sender holds the queue mutex from its first action on; Close publishes closed and cancels
// without the mutex and then waits for it, and a Recv that is about to report end of stream waits
// for it too (the barrier), so the script parks Close and the Recv behind the sender, whose select
// then has both cases ready (the Go runtime picks; the model replays the recorded choice).
// Further schedules are sampled.
func exploreSendClose(r *hv.Rand) {
	for _, cp := range []int{1, 2, 4} {
		mkp := func() program {
			return mk(cp, []qop{{k: kSend, v: 42}}, []qop{{k: kClose}}, []qop{{k: kRecv}, {k: kRecv}})
		}
		for k := 0; k < hv.Scale(6, 40); k++ {
			// T0 up to dc.send.select, T1 to the end, T2 first Recv, T0 to the end, T2
			runControlled("explore-send-close", mkp(), append(append(append(rep(0, 4), rep(1, 5)...), rep(2, 8)...), 0, 0, 2, 2, 2, 2, 2, 2, 2, 2), r)
			// same with the Close interleaved into the sender's window at a random depth
			pre := 1 + r.Intn(4)
			runControlled("explore-send-close", mkp(), append(append(rep(0, pre), rep(1, 5)...), 0, 0, 0, 0, 2, 2, 2, 2, 2, 2, 2, 2, 0, 0), r)
		}
		for k := 0; k < hv.Scale(10, 300); k++ {
			runControlled("explore-send-close", mkp(), nil, r)
		}
		// without a reader: the item of a "successful" Send after Close is left on the closed queue
		for k := 0; k < hv.Scale(6, 60); k++ {
			runControlled("explore-send-close", mk(cp, []qop{{k: kSend, v: 42}}, []qop{{k: kClose}}), append(rep(0, 4), rep(1, 5)...), r)
		}
	}
}
