package hvxpacket

import (
	"errors"
	"fmt"
	"net"
	"os"
	"path/filepath"
	"strings"
	"sync"
	"sync/atomic"
	"time"

	"hop.computer/hop/certs"
	"hop.computer/hop/keys"
	"hop.computer/hop/transport"
	"verifharness/hv"
)

// Black-box roaming runs over REAL loopback UDP sockets (class "roam-udp", C15, oracle only).
//
// A real transport.Server listens on a *net.UDPConn (so the code path the production listener takes —
// including how the receive loop obtains and keeps source addresses — is the one exercised). The client is
// a real transport.Client behind a NAT-like relay (udpNat) that owns several sockets and can switch its
// egress socket: that is a roam. An attacker socket, and the client's OLD socket, send replayed, bit-flipped,
// forged and unrelated datagrams. After every step the server writes on the session and the driver observes
// WHICH socket receives that datagram. Oracle = the property: the destination is the source of the last
// authentic fresh packet. Timing can only make the run inconclusive (a lost datagram is reported as such,
// never as a violation); a datagram arriving at the wrong socket is the violation.

type arrival struct {
	sock int
	b    []byte
}

type udpNat struct {
	name   string
	socks  []*net.UDPConn
	cur    atomic.Int32
	server *net.UDPAddr
	in     chan swPkt
	closed chan struct{}
	once   sync.Once
	mu     sync.Mutex
	sent   [][]byte
	got    []arrival
	dl     time.Time
}

func newUDPNat(name string, n int, server *net.UDPAddr) (*udpNat, error) {
	u := &udpNat{name: name, server: server, in: make(chan swPkt, 4096), closed: make(chan struct{})}
	for i := 0; i < n; i++ {
		c, err := net.ListenUDP("udp", &net.UDPAddr{IP: net.IPv4(127, 0, 0, 1)})
		if err != nil {
			u.Close()
			return nil, err
		}
		u.socks = append(u.socks, c)
		go func(i int, c *net.UDPConn) {
			buf := make([]byte, 65535)
			for {
				n, from, err := c.ReadFromUDP(buf)
				if err != nil {
					return
				}
				p := append([]byte(nil), buf[:n]...)
				u.mu.Lock()
				u.got = append(u.got, arrival{i, p})
				u.mu.Unlock()
				select {
				case u.in <- swPkt{p, from}:
				default:
				}
			}
		}(i, c)
	}
	return u, nil
}

func (u *udpNat) raw(sock int, b []byte) { u.socks[sock].WriteToUDP(b, u.server) }

func (u *udpNat) WriteMsgUDP(b, _ []byte, _ *net.UDPAddr) (int, int, error) {
	select {
	case <-u.closed:
		return 0, 0, net.ErrClosed
	default:
	}
	u.mu.Lock()
	u.sent = append(u.sent, append([]byte(nil), b...))
	u.mu.Unlock()
	n, err := u.socks[u.cur.Load()].WriteToUDP(b, u.server)
	return n, 0, err
}

func (u *udpNat) ReadMsgUDP(b, _ []byte) (int, int, int, *net.UDPAddr, error) {
	u.mu.Lock()
	dl := u.dl
	u.mu.Unlock()
	var tc <-chan time.Time
	if !dl.IsZero() {
		t := time.NewTimer(time.Until(dl))
		defer t.Stop()
		tc = t.C
	}
	select {
	case p := <-u.in:
		return copy(b, p.b), 0, 0, p.from, nil
	case <-u.closed:
		return 0, 0, 0, nil, net.ErrClosed
	case <-tc:
		return 0, 0, 0, nil, os.ErrDeadlineExceeded
	}
}
func (u *udpNat) Read(b []byte) (int, error)  { n, _, _, _, err := u.ReadMsgUDP(b, nil); return n, err }
func (u *udpNat) Write(b []byte) (int, error) { n, _, err := u.WriteMsgUDP(b, nil, nil); return n, err }
func (u *udpNat) Close() error {
	u.once.Do(func() {
		close(u.closed)
		for _, c := range u.socks {
			c.Close()
		}
	})
	return nil
}
func (u *udpNat) LocalAddr() net.Addr  { return u.socks[u.cur.Load()].LocalAddr() }
func (u *udpNat) RemoteAddr() net.Addr { return u.server }
func (u *udpNat) SetDeadline(t time.Time) error {
	return u.SetReadDeadline(t)
}
func (u *udpNat) SetReadDeadline(t time.Time) error {
	u.mu.Lock()
	u.dl = t
	u.mu.Unlock()
	return nil
}
func (u *udpNat) SetWriteDeadline(time.Time) error { return nil }

// sessionArrivals counts, per socket, the transport datagrams of session sid that arrived.
func (u *udpNat) sessionArrivals(sid []byte) []int {
	u.mu.Lock()
	defer u.mu.Unlock()
	c := make([]int, len(u.socks))
	for _, a := range u.got {
		if len(a.b) >= 48 && a.b[0] == 0x10 && string(a.b[4:8]) == string(sid) {
			c[a.sock]++
		}
	}
	return c
}

func (u *udpNat) sentTransport() [][]byte {
	u.mu.Lock()
	defer u.mu.Unlock()
	var o [][]byte
	for _, b := range u.sent {
		if len(b) >= 48 && b[0] == 0x10 {
			o = append(o, b)
		}
	}
	return o
}

func roamUDP(r *hv.Rand) {
	repo := os.Getenv("VERIF_REPO")
	if repo == "" {
		repo = "/repo"
	}
	td := filepath.Join(repo, "transport", "testdata")
	skp, err1 := keys.ReadDHKeyFromPEMFile(filepath.Join(td, "leaf-key.pem"))
	kem, err2 := keys.ReadKEMKeyFromPEMFile(filepath.Join(td, "kem_hop.pem"))
	leaf, err3 := certs.ReadCertificatePEMFile(filepath.Join(td, "leaf.pem"))
	inter, err4 := certs.ReadCertificatePEMFile(filepath.Join(td, "intermediate.pem"))
	root, err5 := certs.ReadCertificatePEMFile(filepath.Join(td, "root.pem"))
	if err := errors.Join(err1, err2, err3, err4, err5); err != nil {
		hv.Info(map[string]interface{}{"roam-udp": "skipped: cannot read transport/testdata: " + err.Error()})
		return
	}
	verify := transport.VerifyConfig{Store: certs.Store{}, CurrentTime: leaf.IssuedAt.Add(time.Second)}
	verify.Store.AddCertificate(root)
	newClient := func(conn transport.UDPLike, server *net.UDPAddr) *transport.Client {
		k := keys.GenerateNewX25519KeyPair()
		c, _ := certs.SelfSignLeaf(&certs.Identity{PublicKey: k.Public})
		return transport.NewClient(conn, server, transport.ClientConfig{Exchanger: k, Leaf: c, Verify: verify, HSTimeout: 15 * time.Second})
	}
	handshake := func(c *transport.Client) error {
		ch := make(chan error, 1)
		go func() { ch <- c.Handshake() }()
		select {
		case err := <-ch:
			return err
		case <-time.After(20 * time.Second):
			return errors.New("handshake timed out")
		}
	}

	for k := 0; k < hv.Scale(3, 12); k++ {
		var hist []string
		sig, what := "", ""
		inconclusive := ""
		note := func(f string, a ...interface{}) { hist = append(hist, fmt.Sprintf(f, a...)) }

		srvConn, err := net.ListenUDP("udp", &net.UDPAddr{IP: net.IPv4(127, 0, 0, 1)})
		if err != nil {
			hv.Info(map[string]interface{}{"roam-udp": "skipped: cannot open a loopback UDP socket: " + err.Error()})
			return
		}
		srvAddr := srvConn.LocalAddr().(*net.UDPAddr)
		srv, err := transport.NewServer(srvConn, transport.ServerConfig{KEMKeyPair: kem, KeyPair: skp, Certificate: leaf, Intermediate: inter, HandshakeTimeout: 15 * time.Second})
		if err != nil {
			srvConn.Close()
			hv.Info(map[string]interface{}{"roam-udp": "skipped: NewServer: " + err.Error()})
			return
		}
		go srv.Serve()
		victim, err1 := newUDPNat("client", 3, srvAddr)
		attacker, err2 := newUDPNat("attacker", 1, srvAddr)
		var closers []func()
		cleanup := func() {
			done := make(chan struct{})
			go func() {
				for _, f := range closers {
					f()
				}
				srv.Close()
				close(done)
			}()
			select {
			case <-done:
			case <-time.After(10 * time.Second):
			}
		}
		if err1 != nil || err2 != nil {
			cleanup()
			hv.Info(map[string]interface{}{"roam-udp": "skipped: cannot open loopback UDP sockets"})
			return
		}
		closers = append(closers, func() { attacker.Close() })
		cli := newClient(victim, srvAddr)
		closers = append(closers, func() { cli.Close() })
		var h *transport.Handle
		if err := handshake(cli); err != nil {
			inconclusive = "handshake: " + err.Error()
		} else if h, err = srv.AcceptTimeout(10 * time.Second); err != nil {
			inconclusive = "accept: " + err.Error()
		}
		others := []*udpNat{attacker}
		var sid []byte
		nmsg := 0
		buf := make([]byte, 70000)

		// the client speaks from egress socket `sock`; returns once the SERVER's reader has the message
		// (the handler updates the address before it releases the session lock a later send needs)
		clientSpeaks := func(sock int) bool {
			victim.cur.Store(int32(sock))
			for try := 0; try < 4; try++ {
				nmsg++
				m := []byte(fmt.Sprintf("client message %d via egress %d", nmsg, sock))
				if err := cli.WriteMsg(m); err != nil {
					inconclusive = "client write: " + err.Error()
					return false
				}
				deadline := time.Now().Add(5 * time.Second)
				for time.Now().Before(deadline) {
					h.SetReadDeadline(deadline)
					n, err := h.ReadMsg(buf)
					if err != nil {
						break
					}
					if string(buf[:n]) == string(m) {
						note("client speaks from egress%d (authentic, fresh; server read it)", sock)
						return true
					}
				}
			}
			inconclusive = "a genuine client datagram never reached the server's reader (loopback loss?)"
			return false
		}
		counts := func() (int, map[string]int) {
			tot, m := 0, map[string]int{}
			for i, c := range victim.sessionArrivals(sid) {
				m[fmt.Sprintf("egress%d", i)] = c
				tot += c
			}
			for _, o := range others {
				c := 0
				for _, x := range o.sessionArrivals(sid) {
					c += x
				}
				m[o.name] = c
				tot += c
			}
			return tot, m
		}
		// the server writes on the session; which socket gets the datagram?
		serverWrites := func(expect int) {
			if sig != "" || inconclusive != "" {
				return
			}
			tot0, m0 := counts()
			nmsg++
			if err := h.WriteMsg([]byte(fmt.Sprintf("server message %d", nmsg))); err != nil {
				inconclusive = "server write: " + err.Error()
				return
			}
			deadline := time.Now().Add(6 * time.Second)
			for time.Now().Before(deadline) {
				tot, m := counts()
				if tot > tot0 {
					where := "?"
					for name, c := range m {
						if c > m0[name] {
							where = name
						}
					}
					want := fmt.Sprintf("egress%d", expect)
					note("server writes -> datagram arrives at %s (last authentic fresh packet came from %s)", where, want)
					if where != want {
						sig = "C15:traffic-redirected-without-authentic-fresh-packet"
						what = fmt.Sprintf("real UDP: the server sent the session's datagram to %s although the last authentic fresh packet came from %s; history: %s", where, want, strings.Join(hist, "; "))
					}
					return
				}
				time.Sleep(5 * time.Millisecond)
			}
			note("server writes -> datagram not seen on any socket within 6 s (lost?)")
		}
		// replayed / bit-flipped / forged / unrelated datagrams from `from` (the attacker, or the client's old socket)
		abuse := func(from *udpNat, sock int, label string) {
			gen := victim.sentTransport()
			if len(gen) == 0 || sig != "" || inconclusive != "" {
				return
			}
			last := gen[len(gen)-1]
			from.raw(sock, last)
			from.raw(sock, gen[r.Intn(len(gen))])
			for _, reg := range []string{"type", "reserved", "sid", "counter", "body", "tag"} {
				from.raw(sock, flipIn(r, last, reg))
			}
			f := append([]byte(nil), last[:16]...)
			f[0] = 0x80
			f[15] += 5
			from.raw(sock, append(f, r.Bytes(33)...))
			from.raw(sock, append(append([]byte(nil), last[:8]...), r.Bytes(12)...))
			from.raw(sock, r.Bytes(60))
			from.raw(sock, last[:len(last)-1])
			note("%s sends replayed, bit-flipped (6 regions), forged-close, truncated and junk datagrams", label)
		}
		// barrier: a complete handshake of an unrelated client from yet another address; the receive loop is
		// sequential, so when it returns every datagram sent before has been processed — and the last
		// datagrams the server read come from that other address
		barrier := func() {
			if sig != "" || inconclusive != "" {
				return
			}
			nat, err := newUDPNat(fmt.Sprintf("other-client%d", len(others)), 1, srvAddr)
			if err != nil {
				time.Sleep(500 * time.Millisecond)
				return
			}
			others = append(others, nat)
			c2 := newClient(nat, srvAddr)
			closers = append(closers, func() { c2.Close() })
			if err := handshake(c2); err != nil {
				note("unrelated client handshake from another address failed (%v); waited instead", err)
				time.Sleep(500 * time.Millisecond)
				return
			}
			note("an unrelated client completes a handshake from another address")
			time.Sleep(20 * time.Millisecond)
		}

		if inconclusive == "" {
			cur := 0
			if clientSpeaks(cur) {
				if g := victim.sentTransport(); len(g) > 0 {
					sid = append([]byte(nil), g[0][4:8]...)
				}
				serverWrites(cur)
				// before any roam: abuse must not redirect
				abuse(attacker, 0, "attacker")
				barrier()
				serverWrites(cur)
				rounds := 2 + k%2
				for round := 0; round < rounds && sig == "" && inconclusive == ""; round++ {
					old := cur
					cur = (cur + 1 + r.Intn(2)) % 3
					note("client roams egress%d -> egress%d", old, cur)
					if !clientSpeaks(cur) {
						break
					}
					serverWrites(cur)
					abuse(attacker, 0, "attacker")
					barrier()
					serverWrites(cur)
					// the old address replays and forges too
					abuse(victim, old, fmt.Sprintf("old address egress%d", old))
					time.Sleep(300 * time.Millisecond)
					serverWrites(cur)
					// the session still works for the roamed client
					if sig == "" && inconclusive == "" && clientSpeaks(cur) {
						serverWrites(cur)
					}
				}
			}
		}
		cleanup()
		victim.Close()
		desc := fmt.Sprintf("#%d roam-udp (real loopback sockets, server on *net.UDPConn): %s", k, strings.Join(hist, "; "))
		if inconclusive != "" {
			desc += "; INCONCLUSIVE: " + inconclusive
			hv.Info(map[string]interface{}{"roam-udp": fmt.Sprintf("scenario %d inconclusive: %s", k, inconclusive)})
		}
		var rep interface{}
		if sig != "" {
			rep = map[string]interface{}{"history": hist}
		}
		hv.Emit(hv.Case{Class: "roam-udp", Desc: desc, Spec: sig == "", Sig: sig, What: what, NT: inconclusive == "" && len(hist) > 6, Replay: rep})
	}
}
