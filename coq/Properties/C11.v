(* C11 — no peer-supplied frame or protocol message crashes the process or makes it allocate
   out of proportion.  Theorems, for ALL byte strings / sender states:
     c11_X_total          : val dec_X s <> Panic             (never a Go panic; fuel never runs out)
     c11_X_alloc_bounded  : cost dec_X s <= c1 * |s| + c2    (ghost allocation counter)
     c11_frame_decode_total, c11_reframe_total, c11_recv_ack_total
   `val`/`cost` are the outcome and the ghost allocation counter of the decoder models of
   WireBase.v (requested sizes of make(), of io.Copy's transfer buffer, bytes appended to
   builders).  wf_bytes s = "s is a byte string".  Models follow the code AFTER the fix:
   commits; the original defects are kept below as regression witnesses.  The muxer's liveness
   ("keeps serving other tubes, Stop returns") is judged by the black-box oracle of the c11
   driver only (docs/C11.md). *)
From Hop Require Import Base WireBase WireCert WireMsg WireFrame
  WireBaseProofs WireCertProofs WireMsgProofs WireFrameProofs WireLaws.
Open Scope N_scope.

(* ================= frames ================= *)
Theorem c11_frame_decode_total : forall b, frame_from_bytes b <> Panic.
Proof. exact frame_from_bytes_total. Qed.
Print Assumptions c11_frame_decode_total.

(* the receiver re-frames what it parsed with the unchecked fromInitiateBytes; the muxer's read
   buffer has 65535 bytes *)
Theorem c11_reframe_total : forall b, wf_bytes b = true -> len b <= 65535 -> reframe b <> Panic.
Proof. exact reframe_total. Qed.
Print Assumptions c11_reframe_total.

(* the bound on the buffer is needed: fromInitiateBytes still wraps 10+dataLength in uint16 *)
Theorem c11_reframe_needs_read_buffer_bound : reframe long_buffer = Panic.
Proof. exact reframe_panics_beyond_read_buffer. Qed.
Print Assumptions c11_reframe_needs_read_buffer_bound.

(* regression witness: the ORIGINAL fromBytes panics on the muxer's own buffer (dataLength 65524) *)
Theorem c11_frame_decode_unfixed_refuted :
  len panic_buffer = 65535 /\ frame_from_bytes_unfixed panic_buffer = Panic /\ frame_from_bytes panic_buffer = Err.
Proof. exact frame_from_bytes_unfixed_panics. Qed.
Print Assumptions c11_frame_decode_unfixed_refuted.

(* ================= acknowledgements ================= *)
Theorem c11_recv_ack_total : forall s a, recv_ack s a <> Panic.
Proof. exact recv_ack_total. Qed.
Print Assumptions c11_recv_ack_total.

Theorem c11_recv_ack_retires_only_buffered : forall s a n fr,
  recv_ack s a = Ok (n, fr) ->
  n = N.max (s_ack s) (new_ack_no s a) /\ fr = s_frames s - (n - s_ack s) /\ n - s_ack s <= s_frames s.
Proof. exact recv_ack_ok. Qed.
Print Assumptions c11_recv_ack_retires_only_buffered.

(* regression witness: the ORIGINAL recvAck indexes an empty slice for an ack beyond anything sent *)
Theorem c11_recv_ack_unfixed_refuted :
  recv_ack_unfixed (Ss 1 0 10 0) 5 = Panic /\ recv_ack (Ss 1 0 10 0) 5 = Err.
Proof. exact recv_ack_unfixed_panics. Qed.
Print Assumptions c11_recv_ack_unfixed_refuted.

(* ================= length-prefixed readers ================= *)
Theorem c11_wstring_total : forall s, val dec_wstring s <> Panic.
Proof. exact dec_wstring_no_panic. Qed.
Print Assumptions c11_wstring_total.
Theorem c11_wstring_alloc_bounded : forall s, wf_bytes s = true -> cost dec_wstring s <= 0 * len s + 511.
Proof. exact alloc_wstring. Qed.
Print Assumptions c11_wstring_alloc_bounded.

Theorem c11_exec_total : forall s, val dec_exec s <> Panic.
Proof. exact dec_exec_no_panic. Qed.
Print Assumptions c11_exec_total.
(* GetCmd: what is allocated follows what was received (it used to be 2 * the announced 32-bit length) *)
Theorem c11_exec_alloc_bounded : forall s, cost dec_exec s <= 2 * len s + (2 * copy_buf + 17).
Proof. exact alloc_exec. Qed.
Print Assumptions c11_exec_alloc_bounded.

(* GetInitMsg has no failing path at all, and allocates at most twice the 16-bit length *)
Theorem c11_userauth_total : forall s, exists v r, val dec_userauth s = Ok (v, r).
Proof. exact dec_userauth_total. Qed.
Print Assumptions c11_userauth_total.
Theorem c11_userauth_alloc_bounded : forall s, wf_bytes s = true -> cost dec_userauth s <= 0 * len s + 131072.
Proof. exact alloc_userauth. Qed.
Print Assumptions c11_userauth_alloc_bounded.

Theorem c11_pf_total : forall ok s, val (dec_pf ok) s <> Panic.
Proof. exact dec_pf_no_panic. Qed.
Print Assumptions c11_pf_total.
Theorem c11_pf_alloc_bounded : forall ok s, wf_bytes s = true -> cost (dec_pf ok) s <= 0 * len s + 131074.
Proof. exact alloc_pf. Qed.
Print Assumptions c11_pf_alloc_bounded.

Theorem c11_relmsg_total : forall s, val dec_relmsg s <> Panic.
Proof. exact dec_relmsg_no_panic. Qed.
Print Assumptions c11_relmsg_total.

(* ================= authorization-grant messages ================= *)
Theorem c11_intent_total : forall s, wf_bytes s = true -> val dec_intent s <> Panic.
Proof. exact dec_intent_no_panic. Qed.
Print Assumptions c11_intent_total.
Theorem c11_intent_alloc_bounded : forall s, wf_bytes s = true -> cost dec_intent s <= 0 * len s + intent_cost_bound.
Proof. exact alloc_intent. Qed.
Print Assumptions c11_intent_alloc_bounded.

Theorem c11_ag_total : forall s, wf_bytes s = true -> val dec_ag s <> Panic.
Proof. exact dec_ag_no_panic. Qed.
Print Assumptions c11_ag_total.
Theorem c11_ag_alloc_bounded : forall s, wf_bytes s = true -> cost dec_ag s <= 0 * len s + ag_cost_bound.
Proof. exact alloc_ag. Qed.
Print Assumptions c11_ag_alloc_bounded.

Theorem c11_conf_or_denial_total : forall s, wf_bytes s = true -> val dec_conf_or_denial s <> Panic.
Proof. intros s H. apply dec_ag_expect_no_panic. exact H. Qed.
Print Assumptions c11_conf_or_denial_total.
Theorem c11_conf_or_denial_alloc_bounded : forall s, wf_bytes s = true -> cost dec_conf_or_denial s <= 0 * len s + ag_cost_bound.
Proof. exact alloc_conf_or_denial. Qed.
Print Assumptions c11_conf_or_denial_alloc_bounded.

Theorem c11_proxy_resp_total : forall s, val dec_proxy_resp s <> Panic.
Proof. exact dec_proxy_no_panic. Qed.
Print Assumptions c11_proxy_resp_total.

(* the constant of the authorization-grant bounds is small: 171 id blocks of at most 513 bytes *)
Example c11_ag_cost_bound_value : ag_cost_bound = 89846.
Proof. exact ag_cost_bound_value. Qed.

(* grant types 3 and 4 (the original code: panic("unimplemented")) are now an error *)
Definition pf_intent_bytes (gt : N) : bytes :=
  [gt; 0; 0; 77] ++ be_enc 8 5 ++ be_enc 8 6 ++ [4; 1; 1; 104] ++ [1; 117] ++
  ([1; 1; 0; 0] ++ be_enc 8 1 ++ be_enc 8 2 ++ repeat 7 32 ++ repeat 8 32 ++ [0; 2] ++ repeat 9 64).
Example c11_grant_type_3_4_is_an_error :
  val dec_intent (pf_intent_bytes 3) = Err /\ val dec_intent (pf_intent_bytes 4) = Err /\
  is_ok (val dec_intent (pf_intent_bytes 1)) = true.
Proof. repeat split; vm_compute; reflexivity. Qed.

(* ================= extension round: the remaining peer-facing readers (Model/WireMore.v) ================= *)
From Hop Require Import WireMore WireMoreProofs.

(* codex.getStatus (client side of the exec tube): never fails, never panics, allocates at most
   1 + 4 + 2 * 65535 bytes whatever the server sends *)
Theorem c11_status_total : forall s, exists v r, val dec_status s = Ok (v, r).
Proof. exact dec_status_total. Qed.
Print Assumptions c11_status_total.
Theorem c11_status_alloc_bounded : forall s, wf_bytes s = true -> cost dec_status s <= 0 * len s + 131075.
Proof. intros s W. pose proof (dec_status_cost s W). lia. Qed.
Print Assumptions c11_status_alloc_bounded.

(* codex.HandleSize (server side of the window-size tube): the loop ends after at most len s / 8 + 1
   rounds (running out of fuel is Panic in the model), 8 bytes allocated per 8 bytes received *)
Theorem c11_handle_size_total : forall s, val handle_size s <> Panic /\ val handle_size s <> Err.
Proof. exact handle_size_total. Qed.
Print Assumptions c11_handle_size_total.
Theorem c11_handle_size_alloc_bounded : forall s, cost handle_size s <= 1 * len s + 8.
Proof. exact handle_size_cost. Qed.
Print Assumptions c11_handle_size_alloc_bounded.
Example c11_handle_size_sample :
  val handle_size ([0;24;0;80;0;0;0;0] ++ [0;50;0;132;1;2;3;4] ++ [9;9;9]) = Ok ([Ws 24 80 0 0; Ws 50 132 258 772], []) /\
  cost handle_size ([0;24;0;80;0;0;0;0] ++ [0;50;0;132;1;2;3;4] ++ [9;9;9]) = 24.
Proof. split; vm_compute; reflexivity. Qed.

(* userauth.RequestAuthorization: the reply byte; only the exact confirmation byte grants *)
Theorem c11_ua_reply_total : forall s, exists v r, val dec_ua_reply s = Ok (v, r).
Proof. exact dec_ua_reply_total. Qed.
Print Assumptions c11_ua_reply_total.
Theorem c11_ua_reply_alloc_bounded : forall s, cost dec_ua_reply s <= 0 * len s + 1.
Proof. intros s. rewrite dec_ua_reply_cost. lia. Qed.
Print Assumptions c11_ua_reply_alloc_bounded.
Theorem c11_ua_reply_grants_only_on_conf : forall s v r,
  val dec_ua_reply s = Ok (v, r) -> (v = true <-> exists t, s = 1 :: t).
Proof. exact dec_ua_reply_yes. Qed.
Print Assumptions c11_ua_reply_grants_only_on_conf.

(* authgrants.ReadUnreliableProxyID *)
Theorem c11_proxy_id_total : forall s, val dec_proxy_id s <> Panic.
Proof. exact dec_proxy_id_no_panic. Qed.
Print Assumptions c11_proxy_id_total.
Theorem c11_proxy_id_alloc_bounded : forall s, cost dec_proxy_id s <= 0 * len s + 1.
Proof. intros s. rewrite dec_proxy_id_cost. lia. Qed.
Print Assumptions c11_proxy_id_alloc_bounded.

(* authgrants.ReadIntentRequest (principal side) / ReadIntentCommunication (target side) *)
Theorem c11_intent_request_total : forall s, wf_bytes s = true -> val dec_intent_request s <> Panic.
Proof. exact dec_intent_request_no_panic. Qed.
Print Assumptions c11_intent_request_total.
Theorem c11_intent_request_alloc_bounded : forall s, wf_bytes s = true -> cost dec_intent_request s <= 0 * len s + ag_cost_bound.
Proof. exact dec_intent_request_cost. Qed.
Print Assumptions c11_intent_request_alloc_bounded.
Theorem c11_intent_comm_total : forall s, wf_bytes s = true -> val dec_intent_comm s <> Panic.
Proof. exact dec_intent_comm_no_panic. Qed.
Print Assumptions c11_intent_comm_total.
Theorem c11_intent_comm_alloc_bounded : forall s, wf_bytes s = true -> cost dec_intent_comm s <= 0 * len s + ag_cost_bound.
Proof. exact dec_intent_comm_cost. Qed.
Print Assumptions c11_intent_comm_alloc_bounded.

(* tubes.Unreliable.ReadMsgUDP: a datagram is copied into the caller's buffer, never beyond it; a longer one
   is cut to the buffer and flagged (ErrBufOverflow); nothing is allocated *)
Theorem c11_unrel_read_bounded : forall cap msg, len (fst (unrel_read cap msg)) <= cap.
Proof. exact unrel_read_bounded. Qed.
Print Assumptions c11_unrel_read_bounded.
Theorem c11_unrel_read_fits : forall cap msg, len msg <= cap -> unrel_read cap msg = (msg, true).
Proof. exact unrel_read_fits. Qed.
Print Assumptions c11_unrel_read_fits.
Theorem c11_unrel_read_overflow : forall cap msg, cap < len msg ->
  snd (unrel_read cap msg) = false /\ len (fst (unrel_read cap msg)) = cap.
Proof. exact unrel_read_overflow. Qed.
Print Assumptions c11_unrel_read_overflow.
