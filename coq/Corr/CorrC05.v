(* Correspondence entry point for C05: histories of SetFile / Enable / AddGrant / Login / direct
   AuthorizeKey / AuthorizeKeyAuthGrant calls run on a real HopServer (user authorization through
   the real hopSession.checkAuthorization over an in-memory tube muxer). *)
From Hop Require Export Base Authz AuthzCorr.
Definition c05_ok := authz_ok.
