(* Correspondence checkers for the wire formats (C18; reused by C11): every checker runs the model on
   the case's input and compares with what the Go code did.  Codes: 0 ok, 1 error, 2 panic. *)
From Hop Require Export Base WireBase WireCert WireMsg WireFrame CorrBytes.
Open Scope N_scope.

(* compact literal for long inputs: n bytes start, start+delta, ... (mod 256) *)
Fixpoint pat_go (k : nat) (cur delta : N) : bytes :=
  match k with O => [] | S k' => cur :: pat_go k' ((cur + delta) mod 256) delta end.
Definition pat (n start delta : N) : bytes := pat_go (N.to_nat n) start delta.

Definition chk_dec {A} (eq : A -> A -> bool) (m : M A) (input : bytes) (code : N) (v : A) (remaining : N) : bool :=
  match val m input with
  | Ok (x, rest) => (code =? 0) && eq x v && (len rest =? remaining)
  | Err => code =? 1
  | Panic => code =? 2
  end.
Definition chk_res {A} (eq : A -> A -> bool) (r : res A) (code : N) (v : A) : bool :=
  match r with
  | Ok x => (code =? 0) && eq x v
  | Err => code =? 1
  | Panic => code =? 2
  end.

(* encoders: (value, code, bytes) *)
Definition c18_enc_wstring (c : bytes * N * bytes) := let '(v, code, b) := c in beq_res_bytes (enc_wstring v) code b.
Definition c18_enc_name (c : name * N * bytes) := let '(v, code, b) := c in beq_res_bytes (enc_name v) code b.
Definition c18_enc_chunk (c : idchunk * N * bytes) := let '(v, code, b) := c in beq_res_bytes (enc_chunk v) code b.
Definition c18_enc_cert (c : cert * N * bytes) := let '(v, code, b) := c in beq_res_bytes (enc_cert v) code b.
Definition c18_enc_intent (c : intent * N * bytes) := let '(v, code, b) := c in beq_res_bytes (enc_intent v) code b.
Definition c18_enc_ag (c : agmsg * N * bytes) := let '(v, code, b) := c in beq_res_bytes (enc_ag v) code b.
Definition c18_enc_proxy (c : option bytes * N * bytes) := let '(v, code, b) := c in beq_res_bytes (enc_proxy_resp v) code b.
Definition c18_enc_exec (c : execmsg * N * bytes) := let '(v, code, b) := c in beq_res_bytes (Ok (enc_exec v)) code b.
Definition c18_enc_userauth (c : bytes * N * bytes) := let '(v, code, b) := c in beq_res_bytes (enc_userauth v) code b.
Definition c18_enc_pf (c : pfreq * N * bytes) := let '(v, code, b) := c in beq_res_bytes (enc_pf v) code b.
Definition c18_enc_relmsg (c : bytes * N * bytes) := let '(v, code, b) := c in beq_res_bytes (enc_relmsg v) code b.
Definition c18_write_denied (c : bytes * N * bytes) := let '(v, code, b) := c in beq_res_bytes (write_intent_denied v) code b.

(* decoders: (bytes, code, value, bytes left unread) *)
Definition beq_opt_bytes (a b : option bytes) : bool :=
  match a, b with None, None => true | Some x, Some y => beq_bytes x y | _, _ => false end.
Definition beq_ag (a b : agmsg) : bool :=
  (a_type a =? a_type b) && beq_intent (a_intent a) (a_intent b) && beq_bytes (a_denial a) (a_denial b).

Definition c18_dec_wstring (c : bytes * N * bytes * N) := let '(b, code, v, r) := c in chk_dec beq_bytes dec_wstring b code v r.
Definition c18_dec_name (c : bytes * N * name * N) := let '(b, code, v, r) := c in chk_dec beq_name dec_name b code v r.
Definition c18_dec_chunk (c : bytes * N * idchunk * N) := let '(b, code, v, r) := c in chk_dec (beq_list beq_name) dec_chunk b code v r.
Definition c18_dec_cert (c : bytes * N * cert * N) := let '(b, code, v, r) := c in chk_dec beq_cert dec_cert b code v r.
Definition c18_dec_intent (c : bytes * N * intent * N) := let '(b, code, v, r) := c in chk_dec beq_intent dec_intent b code v r.
Definition c18_dec_ag (c : bytes * N * agmsg * N) := let '(b, code, v, r) := c in chk_dec beq_ag dec_ag b code v r.
Definition c18_dec_confden (c : bytes * N * agmsg * N) := let '(b, code, v, r) := c in chk_dec beq_ag dec_conf_or_denial b code v r.
Definition c18_dec_proxy (c : bytes * N * option bytes * N) := let '(b, code, v, r) := c in chk_dec beq_opt_bytes dec_proxy_resp b code v r.
Definition c18_dec_exec (c : bytes * N * execmsg * N) := let '(b, code, v, r) := c in chk_dec beq_exec dec_exec b code v r.
Definition c18_dec_userauth (c : bytes * N * bytes * N) := let '(b, code, v, r) := c in chk_dec beq_bytes dec_userauth b code v r.
Definition c18_dec_pf (c : bytes * N * pfreq * N * bool) := let '(b, code, v, r, split_ok) := c in chk_dec beq_pf (dec_pf split_ok) b code v r.
Definition c18_dec_relmsg (c : bytes * N * bytes * N) := let '(b, code, v, r) := c in chk_dec beq_bytes dec_relmsg b code v r.

(* frames *)
Definition zero_frame : frame := Fr 0 0 0 no_flags 0 [].
Definition zero_iframe : iframe := Ifr 0 0 0 [] 0 no_flags.
Definition c18_frame_to_bytes (c : frame * bytes) := beq_bytes (frame_to_bytes (fst c)) (snd c).
Definition c18_iframe_to_bytes (c : iframe * bytes) := beq_bytes (iframe_to_bytes (fst c)) (snd c).
Definition c18_frame_from_bytes (c : bytes * N * frame) := let '(b, code, v) := c in chk_res beq_frame (frame_from_bytes b) code v.
Definition c18_iframe_from_bytes (c : bytes * N * iframe) := let '(b, code, v) := c in chk_res beq_iframe (iframe_from_bytes b) code v.
Definition c18_reframe (c : bytes * N * iframe) := let '(b, code, v) := c in chk_res beq_iframe (reframe b) code v.
(* Unreliable.WriteMsgUDP: (tube id, frame number, message, code, queued frame bytes) *)
Definition c18_unrel_write (c : N * N * bytes * N * bytes) :=
  let '(id, no, m, code, b) := c in beq_res_bytes (unreliable_write id no m) code b.

(* ---- key text forms and Go's base64.StdEncoding (Model/WireText.v) ---- *)
From Hop Require Export WireText.
(* (bytes, EncodeToString(bytes)) *)
Definition c18_b64_encode (c : bytes * bytes) := beq_bytes (b64_encode (fst c)) (snd c).
(* (text, code, DecodeString(text)) *)
Definition c18_b64_decode (c : bytes * N * bytes) := let '(s, code, v) := c in chk_res beq_bytes (b64_decode s) code v.
(* kind: 0 = DH (keys/dh.go), 1 = ML-KEM-512 (keys/kem.go), 2 = signing (keys/signatures.go) *)
Definition key_format (kind : N) : bytes -> bytes :=
  match kind with 0 => format_dh | 1 => format_kem | _ => format_sign end.
Definition key_parse (kind : N) : bytes -> res bytes :=
  match kind with 0 => parse_dh | 1 => parse_kem | _ => parse_sign end.
(* (kind, key bytes, String()) *)
Definition c18_key_format (c : N * bytes * bytes) := let '(kind, k, s) := c in beq_bytes (key_format kind k) s.
(* (kind, text, code, bytes of the parsed key) *)
Definition c18_key_parse (c : N * bytes * N * bytes) :=
  let '(kind, s, code, v) := c in chk_res beq_bytes (key_parse kind s) code v.

(* ---- extension round: Model/WireMore.v ---- *)
From Hop Require Export WireMore.
Definition c18_enc_status (c : option bytes * N * bytes) := let '(v, code, b) := c in beq_res_bytes (Ok (enc_status v)) code b.
Definition c18_dec_status (c : bytes * N * option bytes * N) := let '(b, code, v, r) := c in chk_dec beq_status dec_status b code v r.
Definition c18_enc_winsize (c : winsize * N * bytes) := let '(v, code, b) := c in beq_res_bytes (Ok (enc_ws v)) code b.
Definition c18_dec_winsize (c : bytes * N * winsize * N) := let '(b, code, v, r) := c in chk_dec beq_ws dec_ws b code v r.
(* HandleSize on a real pty: the size the pty has afterwards = the last size applied, or the harness's
   sentinel (7, 9, 11, 13) when none was *)
Definition ws_sentinel : winsize := Ws 7 9 11 13.
Definition last_ws (l : list winsize) : winsize := last l ws_sentinel.
Definition c18_dec_winloop (c : bytes * N * winsize * N) :=
  let '(b, code, v, r) := c in
  match val handle_size b with
  | Ok (l, rest) => (code =? 0) && beq_ws (last_ws l) v && (len rest =? r)
  | Err => code =? 1
  | Panic => code =? 2
  end.
Definition c18_dec_uareply (c : bytes * N * bool * N) := let '(b, code, v, r) := c in chk_dec Bool.eqb dec_ua_reply b code v r.
Definition c18_enc_proxyid (c : N * N * bytes) := let '(v, code, b) := c in beq_res_bytes (Ok [v]) code b.
Definition c18_dec_proxyid (c : bytes * N * N * N) := let '(b, code, v, r) := c in chk_dec N.eqb dec_proxy_id b code v r.
Definition c18_dec_intentreq (c : bytes * N * agmsg * N) := let '(b, code, v, r) := c in chk_dec beq_ag dec_intent_request b code v r.
Definition c18_dec_intentcomm (c : bytes * N * agmsg * N) := let '(b, code, v, r) := c in chk_dec beq_ag dec_intent_comm b code v r.
(* Unreliable.ReadMsgUDP: (buffer length, datagram, bytes copied, error-free) *)
Definition c18_unrel_read (c : N * bytes * bytes * bool) :=
  let '(cap, msg, out, ok) := c in
  let r := unrel_read cap msg in beq_bytes (fst r) out && Bool.eqb (snd r) ok.
