(* GlobGenEq.v — the Gallina code that tools/go2gallina generates from pkg/glob/glob.go (Hop.GlobGen,
   regenerated from $VERIF_REPO on every run of ./check C20) computes the same function as the
   hand-written model Model/Glob.v `glob`, for all patterns and inputs whose lengths fit a Go int.
   The generated code works on Go ints (Z, wrap-around addition i64_add, star = -1 for "none"); the
   hand model on nat with an option.  The simulation invariant (mark <= j, star < len pattern) is what
   keeps every i64_add below 2^63. *)
From Hop Require Import Base GoSem Glob GlobProofs.
From Hop Require GlobGen.
Open Scope N_scope.
Module G := GlobGen.

Definition zst (st : option nat) : Z := match st with Some k => Z.of_nat k | None => (-1)%Z end.

Definition proj (r : res (lres (Z * Z * Z * Z) bool)) : res (Z + bool) :=
  match r with
  | Ok (LNext (i, _, _, _)) => Ok (inl i)
  | Ok (LRet b) => Ok (inr b)
  | Err => Err
  | Panic => Panic
  end.
Definition conv (r : res (option nat)) : res (Z + bool) :=
  match r with
  | Ok (Some i) => Ok (inl (Z.of_nat i))
  | Ok None => Ok (inr false)
  | Err => Err
  | Panic => Panic
  end.

(* ---------- the GoSem primitives on in-range arguments ---------- *)
Lemma zlt_nat a l : Z.ltb (Z.of_nat a) (zlen l) = Nat.ltb a (List.length l).
Proof.
  unfold zlen. destruct (Nat.ltb_spec a (List.length l)); [apply Z.ltb_lt|apply Z.ltb_ge]; lia.
Qed.

Lemma zget_rd l i : zget l (Z.of_nat i) = rd l i.
Proof.
  unfold zget, rd. rewrite zlt_nat.
  replace (0 <=? Z.of_nat i)%Z with true by (symmetry; apply Z.leb_le; lia). cbn [andb].
  rewrite Nat2Z.id.
  destruct (Nat.ltb_spec i (List.length l)) as [H|H].
  - destruct (nth_error l i) eqn:E; [now rewrite (nth_error_nth _ _ _ E)|].
    apply nth_error_None in E. lia.
  - apply nth_error_None in H. now rewrite H.
Qed.

Lemma i64_succ a : (Z.of_nat a + 1 < 2 ^ 63)%Z -> i64_add (Z.of_nat a) 1 = Z.of_nat (a + 1).
Proof.
  intros H. unfold i64_add, i64_wrap.
  rewrite Z.mod_small by lia. lia.
Qed.

Lemma zle0_zst st : Z.leb 0 (zst st) = match st with Some _ => true | None => false end.
Proof. destruct st; simpl; [apply Z.leb_le; lia|reflexivity]. Qed.

(* ---------- the backtracking loop ---------- *)
Lemma loop1_eq : forall fuel pat inp i j st mark,
  (zlen pat < 2 ^ 63)%Z -> (zlen inp < 2 ^ 63)%Z ->
  (mark <= j)%nat -> (forall k, st = Some k -> (k < List.length pat)%nat) ->
  proj (G.Glob_loop1 fuel pat inp (Z.of_nat i) (Z.of_nat j) (zst st) (Z.of_nat mark))
  = conv (glob_loop fuel pat inp (mkG i j st mark)).
Proof.
  induction fuel as [|fuel IH]; intros pat inp i j st mark Hp Hi Hm Hs; [reflexivity|].
  cbn [G.Glob_loop1 glob_loop glob_body].
  rewrite !zlt_nat, !zget_rd, zle0_zst.
  destruct (Nat.ltb_spec j (List.length inp)) as [Hj|Hj]; [|reflexivity].
  assert (Hj' : (Z.of_nat j + 1 < 2 ^ 63)%Z) by (unfold zlen in Hi; lia).
  assert (Hmk : (Z.of_nat mark + 1 < 2 ^ 63)%Z) by (unfold zlen in Hi; lia).
  destruct (Nat.ltb_spec i (List.length pat)) as [Hip|Hip].
  - assert (Hi' : (Z.of_nat i + 1 < 2 ^ 63)%Z) by (unfold zlen in Hp; lia).
    destruct (rd pat i) as [pc| |]; cbn [bind]; try reflexivity.
    change (N.eqb pc 42) with (pc =? star).
    destruct (pc =? star).
    + rewrite i64_succ by auto.
      apply (IH pat inp (i + 1)%nat j (Some i) j); auto.
      intros k E; inversion E; subst; auto.
    + destruct (rd inp j) as [sc| |]; cbn [bind]; try reflexivity.
      destruct (pc =? sc).
      * rewrite !i64_succ by auto. apply IH; auto; lia.
      * destruct st as [k|]; [|reflexivity].
        cbn [zst]. specialize (Hs k eq_refl).
        rewrite !i64_succ by (auto; unfold zlen in Hp; lia).
        apply (IH pat inp (k + 1)%nat (mark + 1)%nat (Some k) (mark + 1)%nat); auto.
        intros k' E; inversion E; subst; auto.
  - cbn [bind].
    destruct st as [k|]; [|reflexivity].
    cbn [zst]. specialize (Hs k eq_refl).
    rewrite !i64_succ by (auto; unfold zlen in Hp; lia).
    apply (IH pat inp (k + 1)%nat (mark + 1)%nat (Some k) (mark + 1)%nat); auto.
    intros k' E; inversion E; subst; auto.
Qed.

(* ---------- the trailing-stars loop ---------- *)
Lemma loop2_eq : forall fuel pat i,
  (zlen pat < 2 ^ 63)%Z ->
  G.Glob_loop2 fuel pat (Z.of_nat i)
  = match skip_stars fuel pat i with Ok i' => Ok (LNext (Z.of_nat i')) | Err => Err | Panic => Panic end.
Proof.
  induction fuel as [|fuel IH]; intros pat i Hp; [reflexivity|].
  cbn [G.Glob_loop2 skip_stars].
  rewrite zlt_nat, zget_rd.
  destruct (Nat.ltb_spec i (List.length pat)) as [Hip|Hip]; [|reflexivity].
  destruct (rd pat i) as [pc| |]; cbn [bind]; try reflexivity.
  change (N.eqb pc 42) with (pc =? star).
  destruct (pc =? star); [|reflexivity].
  rewrite i64_succ by (unfold zlen in Hp; lia). now apply IH.
Qed.

(* ---------- Glob ---------- *)
Lemma zeq_nat a l : Z.eqb (Z.of_nat a) (zlen l) = Nat.eqb a (List.length l).
Proof.
  unfold zlen. destruct (Nat.eqb_spec a (List.length l)); [apply Z.eqb_eq|apply Z.eqb_neq]; lia.
Qed.

Theorem gen_glob_eq : forall pat inp,
  (zlen pat < 2 ^ 63)%Z -> (zlen inp < 2 ^ 63)%Z ->
  G.Glob pat inp = glob pat inp.
Proof.
  intros pat inp Hp Hi. unfold G.Glob, glob.
  replace (Z.to_nat ((zlen inp + 1) * (zlen pat + 1) + 1)) with (glob_fuel pat inp)
    by (unfold glob_fuel, zlen; lia).
  replace (Z.to_nat (zlen pat + 1)) with (List.length pat + 1)%nat by (unfold zlen; lia).
  pose proof (loop1_eq (glob_fuel pat inp) pat inp 0 0 None 0 Hp Hi (le_n 0)) as E.
  cbn [zst Z.of_nat] in E. specialize (E ltac:(discriminate)).
  destruct (G.Glob_loop1 (glob_fuel pat inp) pat inp 0 0 (-1) 0) as [[[[[i1 j1] s1] m1]|b]| |];
    destruct (glob_loop (glob_fuel pat inp) pat inp (mkG 0 0 None 0)) as [[i2|]| |];
    cbn [proj conv bind] in *; try discriminate; try reflexivity.
  - inversion E; subst i1.
    rewrite loop2_eq by auto.
    destruct (skip_stars (List.length pat + 1) pat i2) as [i3| |]; cbn [bind]; try reflexivity.
    now rewrite zeq_nat.
  - now inversion E.
Qed.

(* ---------- C20's statements transferred to the generated code ---------- *)
Definition fits_int (l : list N) : Prop := (zlen l < 2 ^ 63)%Z.

Theorem gen_glob_total : forall pat inp, fits_int pat -> fits_int inp -> exists b, G.Glob pat inp = Ok b.
Proof. intros pat inp Hp Hi. rewrite gen_glob_eq by auto. apply glob_total. Qed.

Theorem gen_glob_iff_matches : forall pat inp b, fits_int pat -> fits_int inp ->
  (G.Glob pat inp = Ok b <-> (b = true <-> matches pat inp)).
Proof. intros pat inp b Hp Hi. rewrite gen_glob_eq by auto. apply glob_iff_matches. Qed.

Theorem gen_glob_iff_instantiate : forall pat inp, fits_int pat -> fits_int inp ->
  (G.Glob pat inp = Ok true <-> exists fills, instantiate pat fills = Some inp).
Proof. intros pat inp Hp Hi. rewrite gen_glob_eq by auto. apply glob_iff_instantiate. Qed.

Theorem gen_glob_eq_matches_b : forall pat inp, fits_int pat -> fits_int inp ->
  G.Glob pat inp = Ok (matches_b pat inp).
Proof. intros pat inp Hp Hi. rewrite gen_glob_eq by auto. apply glob_eq_matches_b. Qed.
