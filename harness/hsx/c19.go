package hsx

import (
	"crypto/rand"
	"encoding/binary"
	"fmt"
	"net"
	"sync"
	"time"

	"hop.computer/hop/keys"
	"hop.computer/hop/kravatte"
	"hop.computer/hop/transport"
	"verifharness/hv"
)

// BuildHiddenRequest writes a hidden-mode request from the layout and schedule of
// handshake_spec.md with a real Cyclist, for any timestamp and any server KEM key.
func BuildHiddenRequest(serverKEM *keys.KEMPublicKey, cli *Ident, ts int64) []byte {
	req, _ := BuildHiddenRequestK(serverKEM, cli, ts)
	return req
}

// BuildHiddenRequestK also returns the client's view of a response ciphertext (decapsulation
// with the ephemeral KEM key of the request).
func BuildHiddenRequestK(serverKEM *keys.KEMPublicKey, cli *Ident, ts int64) ([]byte, func(ct []byte) []byte) {
	return BuildHiddenRequestU(serverKEM, cli, uint64(ts))
}

// BuildHiddenRequestU: the timestamp field is any 64-bit value (the wire field is unsigned).
func BuildHiddenRequestU(serverKEM *keys.KEMPublicKey, cli *Ident, ts uint64) ([]byte, func(ct []byte) []byte) {
	sh := &Shadow{Fps: [][]byte{nil}}
	sh.Reset()
	sh.Absorb([]byte(PQHiddenName))
	sh.Rekey(PQHiddenName)
	leaf, _ := cli.Leaf.Marshal()
	var inter []byte
	if cli.Inter != nil {
		inter, _ = cli.Inter.Marshal()
	}
	ecl := 4 + len(leaf) + len(inter)
	eph := must(keys.GenerateKEMKeyPair(rand.Reader))
	kpub, _ := eph.Public.MarshalBinary()
	ct, k, err := keys.Encapsulate(rand.Reader, serverKEM)
	if err != nil {
		panic(err)
	}
	hdr := []byte{8, 1, byte(ecl >> 8), byte(ecl)}
	sh.Absorb(hdr)
	sh.Absorb(kpub)
	sh.Absorb(k)
	ec := sh.Encrypt(vectors(leaf, inter))
	tag := sh.Squeeze(16)
	tb := make([]byte, 8)
	binary.BigEndian.PutUint64(tb, ts)
	ets := sh.Encrypt(tb)
	mac := sh.Squeeze(16)
	out := append([]byte(nil), hdr...)
	out = append(out, kpub...)
	out = append(out, ct...)
	out = append(out, ec...)
	out = append(out, tag...)
	out = append(out, ets...)
	return append(out, mac...), func(c []byte) []byte { k, _ := eph.Decapsulate(c); return k }
}

// C19Discoverable: client hellos never allocate state; a ClientAck is accepted only with a cookie
// minted under the current key for the same source address and client KEM key.
func (w *World) C19Discoverable(r *hv.Rand) {
	cv := w.P.Verify(PolStore, "", nil, false)
	ccfg := w.Cli.ClientConfig(w.P.Verify(PolStore, w.SrvName, nil, false))
	srv := NewSrv(SingleConfig(w.Srv, cv, false))
	q := NewSeq(srv, []*Ident{w.Srv}, false)
	ok, sig, what := true, "", ""
	fail := func(s, m string) {
		if ok {
			ok, sig, what = false, s, m
		}
	}
	// --- hellos from many addresses (and many from one): tables stay empty
	n := hv.Scale(24, 400)
	var hello []byte
	for i := 0; i < n; i++ {
		hs, err := transport.VerifHsNewClientHS(&ccfg, srv.Addr, false)
		if err != nil {
			panic(err)
		}
		buf := make([]byte, 1000)
		m, _ := transport.VerifHsWritePQClientHello(hs, buf)
		hello = append([]byte(nil), buf[:m]...)
		a := Addr(fmt.Sprintf("10.1.%d.%d", i/250, i%250+1), 4000+i)
		if i%4 == 3 {
			a = Addr("10.1.9.9", 4999)
		}
		if i%4 == 2 {
			a = Addr(fmt.Sprintf("2001:db8:%x::%x", i, i+1), 4000+i)
		}
		out, _ := q.Step(a, hello, "ClientHello", nil)
		if len(out) != 1 {
			fail("C19:honest-hello-unanswered", "a well-formed ClientHello got no ServerHello")
		}
		if h, s, p := srv.S.VerifHsTables(); h+s+p != 0 {
			fail("C19:client-hello-allocates-state", fmt.Sprintf("after %d ClientHellos the server tables hold %d handshakes, %d sessions, %d pending", i+1, h, s, p))
		}
	}
	q.Base(hello)
	for i := 0; i < 10; i++ { // the same hello again and again
		q.Step(Addr("10.1.9.9", 4999), hello, "ClientHello-repeat", nil)
	}
	if h, s, p := srv.S.VerifHsTables(); h+s+p != 0 {
		fail("C19:client-hello-allocates-state", "repeated ClientHellos allocated state")
	}
	// --- cookies presented from elsewhere
	type variant struct {
		name   string
		base   func() *net.UDPAddr // the address the cookie is minted for (nil: a fresh IPv4 address)
		from   func(a *net.UDPAddr) *net.UDPAddr
		mutate func(w2 *WB) []byte
		rotate bool
		accept bool
	}
	other := must(keys.GenerateKEMKeyPair(rand.Reader))
	okpub, _ := other.Public.MarshalBinary()
	same := func(a *net.UDPAddr) *net.UDPAddr { return a }
	vs := []variant{
		{"another port", nil, func(a *net.UDPAddr) *net.UDPAddr { return Addr(a.IP.String(), a.Port+1) }, nil, false, false},
		{"another ip", nil, func(a *net.UDPAddr) *net.UDPAddr { return Addr("10.7.7.7", a.Port) }, nil, false, false},
		{"another ip and port", nil, func(a *net.UDPAddr) *net.UDPAddr { return Addr("10.7.7.8", a.Port+7) }, nil, false, false},
		{"port differing only in the high byte", nil, func(a *net.UDPAddr) *net.UDPAddr { return Addr(a.IP.String(), a.Port^0x100) }, nil, false, false},
		{"another client KEM key in the message", nil, same, func(x *WB) []byte { m := append([]byte(nil), x.CAck...); copy(m[36:836], okpub); return m }, false, false},
		{"cookie of another handshake (other address)", nil, same, nil, false, false},
		{"after cookie-key rotation", nil, same, nil, true, false},
		{"cookie with its first bit flipped", nil, same, func(x *WB) []byte { m := append([]byte(nil), x.CAck...); m[836] ^= 0x80; return m }, false, false},
		{"cookie with a bit of the sealed secret flipped", nil, same, func(x *WB) []byte { m := append([]byte(nil), x.CAck...); m[836+17] ^= 0x04; return m }, false, false},
		{"cookie with a bit of its tag flipped", nil, same, func(x *WB) []byte { m := append([]byte(nil), x.CAck...); m[836+40] ^= 0x01; return m }, false, false},
		{"cookie with its last bit flipped", nil, same, func(x *WB) []byte { m := append([]byte(nil), x.CAck...); m[899] ^= 0x01; return m }, false, false},
		{"one bit of the client KEM key flipped (AD component)", nil, same, func(x *WB) []byte { m := append([]byte(nil), x.CAck...); m[36+5] ^= 0x01; return m }, false, false},
		{"the neighbouring port below", nil, func(a *net.UDPAddr) *net.UDPAddr { return Addr(a.IP.String(), a.Port-1) }, nil, false, false},
		{"the same port on a neighbouring ip", nil, func(a *net.UDPAddr) *net.UDPAddr { return Addr("10.0.0.2", a.Port) }, nil, false, false},
		{"unchanged (control)", nil, same, nil, false, true},
		// IPv6 sources: the address bytes hashed into the AD are the 16 bytes the socket reports
		{"IPv6: another address in the same /64", w.NextAddr6, func(a *net.UDPAddr) *net.UDPAddr { return Addr("2001:db8::ee:1", a.Port) }, nil, false, false},
		{"IPv6: the last byte of the address differs", w.NextAddr6, func(a *net.UDPAddr) *net.UDPAddr {
			ip := append(net.IP(nil), a.IP...)
			ip[15] ^= 1
			return &net.UDPAddr{IP: ip, Port: a.Port}
		}, nil, false, false},
		{"IPv6: another prefix", w.NextAddr6, func(a *net.UDPAddr) *net.UDPAddr { return Addr("2001:db9:1::1", a.Port) }, nil, false, false},
		{"IPv6: the first byte of the address differs", w.NextAddr6, func(a *net.UDPAddr) *net.UDPAddr {
			ip := append(net.IP(nil), a.IP...)
			ip[0] ^= 0x10
			return &net.UDPAddr{IP: ip, Port: a.Port}
		}, nil, false, false},
		{"IPv6: same address, another port", w.NextAddr6, func(a *net.UDPAddr) *net.UDPAddr { return &net.UDPAddr{IP: a.IP, Port: a.Port + 1} }, nil, false, false},
		{"IPv6: unchanged (control)", w.NextAddr6, same, nil, false, true},
		{"IPv4-mapped IPv6 source: another mapped host", func() *net.UDPAddr { return Addr("::ffff:10.4.4.4", w.NextAddr().Port) }, func(a *net.UDPAddr) *net.UDPAddr { return Addr("::ffff:10.4.4.5", a.Port) }, nil, false, false},
		{"IPv4-mapped IPv6 source: unchanged (control)", func() *net.UDPAddr { return Addr("::ffff:10.4.4.4", w.NextAddr().Port) }, same, nil, false, true},
	}
	q.Emit("discoverable-hello-flood", fmt.Sprintf("%d ClientHellos from many addresses and repeated from one; table sizes after every step", n+10), ok, sig, what, true)
	for _, v := range vs {
		srv := NewSrv(SingleConfig(w.Srv, cv, false))
		q := NewSeq(srv, []*Ident{w.Srv}, false)
		del := func(from *net.UDPAddr, d []byte, what string) []Dgram { out, _ := q.Step(from, d, what, nil); return out }
		ok, sig, what := true, "", ""
		a := w.NextAddr()
		if v.base != nil {
			a = v.base()
		}
		// run CH/SH white box without delivering the ClientAck
		x, err := newWBUntilAck(srv, del, ccfg, a)
		if err != nil {
			panic(err)
		}
		q.Base(x.CAck)
		msg := x.CAck
		if v.mutate != nil {
			msg = v.mutate(x)
		}
		if v.name == "cookie of another handshake (other address)" {
			y, err := newWBUntilAck(srv, del, ccfg, w.NextAddr())
			if err != nil {
				panic(err)
			}
			msg = append([]byte(nil), x.CAck...)
			copy(msg[836:900], y.CAck[836:900])
		}
		if v.rotate {
			q.Rotate()
		}
		h0, s0, _ := srv.S.VerifHsTables()
		out, _ := q.Step(v.from(a), msg, "ClientAck["+v.name+"]", nil)
		h1, s1, _ := srv.S.VerifHsTables()
		accepted := len(out) > 0 || h1 != h0 || s1 != s0
		if accepted && !v.accept {
			ok, sig, what = false, "C19:client-ack-accepted-with-foreign-cookie", "a ClientAck whose cookie was minted for a different source/key or under an older key, or was altered ("+v.name+"), was answered or allocated state"
		}
		if !accepted && v.accept {
			ok, sig, what = false, "C19:honest-client-ack-rejected", "an unchanged ClientAck from the address the cookie was minted for was rejected"
		}
		if !v.accept { // and the unchanged ClientAck from the right address still works afterwards
			if out, _ := q.Step(a, x.CAck, "ClientAck[unchanged, afterwards]", nil); ok && (len(out) > 0) == v.rotate {
				if v.rotate {
					ok, sig, what = false, "C19:client-ack-accepted-with-foreign-cookie", "after rotation even the unchanged ClientAck was answered"
				} else {
					ok, sig, what = false, "C19:honest-client-ack-rejected", "after a displaced ClientAck the unchanged one from the right address was rejected"
				}
			}
		}
		q.Emit("discoverable-cookie/"+v.name, "cookie presented: "+v.name, ok, sig, what, !v.accept)
	}
}

// newWBUntilAck: ClientHello delivered, ServerHello read, ClientAck written but NOT delivered.
func newWBUntilAck(srv *Srv, deliver Deliverer, cfg transport.ClientConfig, addr *net.UDPAddr) (*WB, error) {
	w := &WB{Srv: srv, Addr: addr, Cfg: cfg}
	hs, err := transport.VerifHsNewClientHS(&w.Cfg, srv.Addr, false)
	if err != nil {
		return nil, err
	}
	w.HS = hs
	buf := make([]byte, 65535)
	n, err := transport.VerifHsWritePQClientHello(hs, buf)
	if err != nil {
		return nil, err
	}
	w.CH = append([]byte(nil), buf[:n]...)
	if w.SH, err = one(deliver(addr, w.CH, "ClientHello"), "ClientHello"); err != nil {
		return nil, err
	}
	if _, err = transport.VerifHsReadPQServerHello(hs, w.SH); err != nil {
		return nil, err
	}
	hs.VerifHsRekey(PQName)
	if n, err = hs.VerifHsWritePQClientAck(buf); err != nil {
		return nil, err
	}
	w.CAck = append([]byte(nil), buf[:n]...)
	return w, nil
}

// C19Hidden: a hidden server is silent towards everything but a fresh well-formed request under
// one of its KEM keys.
func (w *World) C19Hidden(r *hv.Rand) {
	cv := w.P.Verify(PolStore, "", nil, false)
	// valid discoverable-mode messages, produced against a discoverable twin with the same identity
	twin := NewSrv(SingleConfig(w.Srv, cv, false))
	ccfg := w.Cli.ClientConfig(w.P.Verify(PolStore, w.SrvName, nil, false))
	tw, err := NewWB(twin, ccfg, w.NextAddr())
	if err != nil {
		panic(err)
	}
	if err := tw.Auth(); err != nil {
		panic(err)
	}
	for _, cfg := range w.c10configs()[2:] {
		var srv *Srv
		var ids []*Ident
		var q *Seq
		ok, sig, what := true, "", ""
		fail := func(s, m string) {
			if ok {
				ok, sig, what = false, s, m
			}
		}
		begin := func() {
			srv, ids = cfg.mk()
			q = NewSeq(srv, ids, true)
			ok, sig, what = true, "", ""
		}
		silent := func(from *net.UDPAddr, d []byte, name string) {
			out, _ := q.Step(from, d, name, nil)
			if len(out) > 0 {
				fail("C19:hidden-server-answers-non-request", fmt.Sprintf("the hidden server sent %d datagram(s) in response to %s", len(out), name))
			}
		}
		// (1) everything that is not a hidden request
		begin()
		for _, b := range [][]byte{tw.CH, tw.CAck, tw.CAuth} {
			q.Base(b)
		}
		a := w.NextAddr()
		silent(a, tw.CH, "a valid ClientHello")
		silent(a, tw.CAck, "a valid ClientAck")
		silent(a, tw.CAuth, "a valid ClientAuth")
		silent(a, tw.SH, "a ServerHello")
		silent(a, tw.SA, "a ServerAuth")
		for _, j := range garbage(r)[:40] {
			silent(a, j, "garbage")
		}
		q.Emit("hidden-silence/"+cfg.name+"/non-requests", "hidden server probed with valid discoverable-mode messages and garbage", ok, sig, what, true)
		// (2) requests that must not be answered
		begin()
		now := time.Now().Unix()
		wrong := must(keys.GenerateKEMKeyPair(rand.Reader))
		silent(w.NextAddr(), BuildHiddenRequest(&wrong.Public, w.Cli, now), "a request under a KEM key that is not the server's")
		id := ids[len(ids)-1]
		for _, dt := range []int64{6, 7, 60, 3600, 1 << 33} {
			silent(w.NextAddr(), BuildHiddenRequest(&id.KEM.Public, w.Cli, time.Now().Unix()-dt), fmt.Sprintf("a stale request (timestamp %d s old)", dt))
		}
		for _, dt := range []int64{2, 60, 1 << 40} {
			silent(w.NextAddr(), BuildHiddenRequest(&id.KEM.Public, w.Cli, time.Now().Unix()+dt), fmt.Sprintf("a request from the future (+%d s)", dt))
		}
		silent(w.NextAddr(), BuildHiddenRequest(&id.KEM.Public, w.P.Untrusted("mallory"), time.Now().Unix()), "a well-formed request of a client the policy rejects")
		q.Emit("hidden-silence/"+cfg.name+"/bad-requests", "requests under a foreign KEM key, stale, from the future, from a client the policy rejects", ok, sig, what, true)
		// (3) fresh ones are answered (controls), each then re-sent changed
		for _, dt := range []int64{0, 1, 3} {
			begin()
			req, dec := BuildHiddenRequestK(&id.KEM.Public, w.Cli, time.Now().Unix()-dt)
			q.Base(req)
			out, _ := q.Step(w.NextAddr(), req, fmt.Sprintf("fresh request (%d s old)", dt), dec)
			if len(out) != 1 || len(out[0].Data) < 808 {
				fail("C19:fresh-hidden-request-unanswered", fmt.Sprintf("a fresh well-formed request (%d s old) was not answered", dt))
			}
			for _, off := range []int{0, 1, 2, 3, 4, 803, 804, 1571, 1572, len(req) - 41, len(req) - 25, len(req) - 24, len(req) - 17, len(req) - 16, len(req) - 1} {
				x := append([]byte(nil), req...)
				x[off] ^= 0x40
				silent(w.NextAddr(), x, fmt.Sprintf("an answered request with byte %d changed", off))
			}
			silent(w.NextAddr(), req[:len(req)-1], "an answered request cut by one byte")
			silent(w.NextAddr(), append(append([]byte(nil), req...), 0), "an answered request extended by one byte")
			q.Emit(fmt.Sprintf("hidden-silence/%s/fresh-%ds-and-changed-copies", cfg.name, dt), "a fresh request (answered) and the same request with one byte changed, cut, extended (silence)", ok, sig, what, true)
		}
	}
	// timestamp field set to boundary values in otherwise fully valid requests (right KEM key,
	// acceptable certificate, correct tag and MAC): the server may answer only if
	// 0 <= now - ts <= 5 in unbounded integer arithmetic, the field being an unsigned 64-bit number.
	// Then every answered one, and every one with a huge timestamp, again after the window.
	srv := NewSrv(SingleConfig(w.Srv, cv, true))
	q := NewSeq(srv, []*Ident{w.Srv}, true)
	ok, sig, what := true, "", ""
	fail := func(s, m string) {
		if ok {
			ok, sig, what = false, s, m
		}
	}
	type sent struct {
		req  []byte
		dec  func([]byte) []byte
		name string
	}
	var replay []sent
	for time.Now().Nanosecond() > 400_000_000 { // keep "now" fixed over the class
		time.Sleep(20 * time.Millisecond)
	}
	now := uint64(time.Now().Unix())
	type tsv struct {
		name string
		v    uint64
	}
	vals := []tsv{{"now", now}, {"now-4", now - 4}, {"now-5", now - 5}, {"now-6", now - 6}, {"now-3600", now - 3600}, {"0", 0}, {"1", 1},
		{"now+1", now + 1}, {"now+5", now + 5}, {"now+3600", now + 3600}, {"2^31", 1 << 31}, {"2^32", 1 << 32}, {"2^62", 1 << 62},
		{"2^63-1", 1<<63 - 1}, {"2^63", 1 << 63}, {"2^63+1", 1<<63 + 1}, {"2^63+now-1", 1<<63 + now - 1}, {"2^63+now", 1<<63 + now},
		{"2^63+now+1", 1<<63 + now + 1}, {"2^63+now+10", 1<<63 + now + 10}, {"2^64-now", -now}, {"2^64-6", ^uint64(5)}, {"2^64-1", ^uint64(0)}}
	for _, t := range vals {
		if uint64(time.Now().Unix()) != now {
			break // the clock ticked: the remaining values would be judged against another second
		}
		req, dec := BuildHiddenRequestU(&w.Srv.KEM.Public, w.Cli, t.v)
		if t.v <= now && now-t.v <= 5 || t.v >= 1<<62 {
			q.Base(req) // it will be presented a second time
		}
		out, _ := q.Step(w.NextAddr(), req, "valid request with timestamp field "+t.name, dec)
		may := t.v <= now && now-t.v <= 5
		answered := len(out) > 0
		if answered && !may {
			fail("C19:hidden-server-answers-stale-timestamp", fmt.Sprintf("a fully valid hidden request whose timestamp field is %s = %d was answered at time %d: now - ts is not in [0,5]", t.name, t.v, now))
		}
		if !answered && may {
			fail("C19:fresh-hidden-request-unanswered", fmt.Sprintf("a fresh request (timestamp %s) was not answered", t.name))
		}
		if answered || t.v >= 1<<62 {
			replay = append(replay, sent{req, dec, t.name})
		}
	}
	time.Sleep(time.Duration(hv.Scale(6200, 7500)) * time.Millisecond)
	for _, r := range replay {
		out, _ := q.Step(w.NextAddr(), r.req, "replayed after the window: timestamp field "+r.name, r.dec)
		if len(out) != 0 {
			fail("C19:hidden-server-answers-late-replay", "a request (timestamp field "+r.name+") replayed more than 5 s after it was first presented was answered")
		}
	}
	q.Emit("hidden-timestamp-boundaries-and-late-replay", fmt.Sprintf("%d fully valid hidden requests with boundary timestamp fields, then %d of them replayed after the window", len(vals), len(replay)), ok, sig, what, true)
}

// ForgeClientAck: what a party that never sent a ClientHello can compute on its own: a cookie
// sealed under a key of its choice with the correct associated data H(ekem || ip || port) for the
// address it sends from, and a ClientAck whose transcript (rebuilt by the server from that cookie)
// and MAC are self-consistent. Schedule and layout from handshake_spec.md, real Cyclist / SANSE.
func ForgeClientAck(key [16]byte, from *net.UDPAddr, name string) []byte {
	kem := must(keys.GenerateKEMKeyPair(rand.Reader))
	kpub, _ := kem.Public.MarshalBinary()
	eph := keys.GenerateNewX25519KeyPair()
	k := make([]byte, 32)
	rand.Read(k)
	_, ad := CookieADSpec(kpub, from)
	aead, err := kravatte.NewSANSE(key[:])
	if err != nil {
		panic(err)
	}
	cookie := aead.Seal(nil, nil, k, ad)
	sh := &Shadow{Fps: [][]byte{nil}}
	sh.Reset()
	sh.Absorb([]byte(PQName))
	sh.Absorb([]byte{1, 1, 0, 0})
	sh.Absorb(kpub)
	sh.Squeeze(16)
	sh.Absorb([]byte{2, 0, 0, 0})
	sh.Absorb(k)
	sh.Absorb(cookie)
	sh.Squeeze(16)
	sh.Rekey(PQName)
	hdr := []byte{3, 0, 0, 0}
	sh.Absorb(hdr)
	sh.Absorb(eph.Public[:])
	sh.Absorb(kpub)
	sh.Absorb(cookie)
	pt := make([]byte, 256)
	copy(pt, sniBlock(0, []byte(name)))
	esni := sh.Encrypt(pt)
	mac := sh.Squeeze(16)
	out := append([]byte(nil), hdr...)
	out = append(out, eph.Public[:]...)
	out = append(out, kpub...)
	out = append(out, cookie...)
	out = append(out, esni...)
	return append(out, mac...)
}

// C19ForgedCookies: ClientAcks from parties that never sent a ClientHello, carrying cookies they
// sealed themselves under guessable keys — at server start and after a key rotation. Accepted
// (answered, or state allocated) only if the cookie is sealed under the server's CURRENT key.
func (w *World) C19ForgedCookies(r *hv.Rand) {
	cv := w.P.Verify(PolStore, "", nil, false)
	var ones, rnd, zero [16]byte
	for i := range ones {
		ones[i] = 0xff
	}
	copy(rnd[:], r.Bytes(16))
	for _, phase := range []string{"at server start", "after one key rotation", "after two key rotations"} {
		srv := NewSrv(SingleConfig(w.Srv, cv, false))
		q := NewSeq(srv, []*Ident{w.Srv}, false)
		ok, sig, what := true, "", ""
		var old [][16]byte
		switch phase {
		case "after one key rotation":
			old = append(old, srv.S.VerifHsCookieKey())
			q.Rotate()
		case "after two key rotations":
			old = append(old, srv.S.VerifHsCookieKey())
			q.Rotate()
			old = append(old, srv.S.VerifHsCookieKey())
			q.Rotate()
		}
		type fk struct {
			name   string
			key    [16]byte
			accept bool
		}
		keysToTry := []fk{{"the all-zero key", zero, false}, {"the all-ones key", ones, false}, {"a random key", rnd, false}}
		for i, o := range old {
			keysToTry = append(keysToTry, fk{fmt.Sprintf("rotated-out key #%d", i+1), o, false})
		}
		keysToTry = append(keysToTry, fk{"the server's current key (control)", srv.S.VerifHsCookieKey(), true})
		for _, k := range keysToTry {
			a := w.NextAddr()
			h0, s0, _ := srv.S.VerifHsTables()
			out, _ := q.Step(a, ForgeClientAck(k.key, a, w.SrvName), "ClientAck[cookie forged under "+k.name+"]", nil)
			h1, s1, _ := srv.S.VerifHsTables()
			accepted := len(out) > 0 || h1 != h0 || s1 != s0
			if accepted && !k.accept && ok {
				ok, sig = false, "C19:client-ack-accepted-with-cookie-not-under-current-key"
				what = fmt.Sprintf("%s: a ClientAck from %s, which never sent a ClientHello, with a cookie sealed by the sender under %s (correct AD, consistent MAC) was answered / allocated state", phase, a, k.name)
			}
			if !accepted && k.accept && ok {
				ok, sig, what = false, "C19:honest-client-ack-rejected", phase+": a ClientAck whose cookie is sealed under the current key for the sender's address and key was rejected"
			}
		}
		q.Emit("forged-cookies/"+phase, "ClientAcks with sender-forged cookies under all-zero / all-ones / random / rotated-out / current key, "+phase, ok, sig, what, true)
	}
}

// liveConn: a blocking in-memory socket for a server that really runs Serve().
type liveConn struct {
	in, out chan Dgram
	closed  chan struct{}
	once    sync.Once
	local   *net.UDPAddr
}

func (c *liveConn) ReadMsgUDP(b, oob []byte) (int, int, int, *net.UDPAddr, error) {
	select {
	case d := <-c.in:
		return copy(b, d.Data), 0, 0, d.Addr, nil
	case <-c.closed:
		return 0, 0, 0, nil, net.ErrClosed
	}
}
func (c *liveConn) WriteMsgUDP(b, oob []byte, a *net.UDPAddr) (int, int, error) {
	select {
	case c.out <- Dgram{a, append([]byte(nil), b...)}:
	default:
	}
	return len(b), 0, nil
}
func (c *liveConn) Read(b []byte) (int, error)         { n, _, _, _, e := c.ReadMsgUDP(b, nil); return n, e }
func (c *liveConn) Write(b []byte) (int, error)        { return 0, ErrClosed }
func (c *liveConn) Close() error                       { c.once.Do(func() { close(c.closed) }); return nil }
func (c *liveConn) LocalAddr() net.Addr                { return c.local }
func (c *liveConn) RemoteAddr() net.Addr               { return nil }
func (c *liveConn) SetDeadline(time.Time) error        { return nil }
func (c *liveConn) SetReadDeadline(time.Time) error    { return nil }
func (c *liveConn) SetWriteDeadline(time.Time) error   { return nil }
func (c *liveConn) reply(d time.Duration) []byte {
	select {
	case x := <-c.out:
		return x.Data
	case <-time.After(d):
		return nil
	}
}

// C19RealRotationStart (thorough tier only: it waits for the server's own 2-minute rotation tick):
// a server that really runs Serve(); a cookie obtained before the tick is presented after it. The
// rotation is whatever the ticker branch of Serve does — not an overwrite of the key by the driver.
// Returns the function that waits for the verdict and emits the case.
func (w *World) C19RealRotationStart() func() {
	if !hv.Thorough() {
		return func() {}
	}
	type verdict struct {
		ok        bool
		sig, what string
	}
	res := make(chan verdict, 1)
	go func() {
		cv := w.P.Verify(PolStore, "", nil, false)
		conn := &liveConn{in: make(chan Dgram, 16), out: make(chan Dgram, 16), closed: make(chan struct{}), local: Addr("10.9.9.9", 77)}
		cfg := SingleConfig(w.Srv, cv, false)
		cfg.HandshakeTimeout = time.Hour
		s, err := transport.NewServer(conn, cfg)
		if err != nil {
			panic(err)
		}
		go s.Serve()
		defer s.Close()
		ccfg := w.Cli.ClientConfig(w.P.Verify(PolStore, w.SrvName, nil, false))
		ackFor := func(a *net.UDPAddr) []byte {
			hs, err := transport.VerifHsNewClientHS(&ccfg, conn.local, false)
			if err != nil {
				panic(err)
			}
			buf := make([]byte, 2000)
			n, _ := transport.VerifHsWritePQClientHello(hs, buf)
			conn.in <- Dgram{a, append([]byte(nil), buf[:n]...)}
			sh := conn.reply(2 * time.Second)
			if sh == nil {
				return nil
			}
			if _, err := transport.VerifHsReadPQServerHello(hs, sh); err != nil {
				return nil
			}
			hs.VerifHsRekey(PQName)
			n, _ = hs.VerifHsWritePQClientAck(buf)
			return append([]byte(nil), buf[:n]...)
		}
		a := Addr("10.3.3.3", 3333)
		held := ackFor(a)
		if held == nil {
			res <- verdict{false, "C19:honest-hello-unanswered", "the running server did not answer a ClientHello"}
			return
		}
		k0 := s.VerifHsCookieKey()
		deadline := time.Now().Add(150 * time.Second)
		for s.VerifHsCookieKey() == k0 && time.Now().Before(deadline) {
			time.Sleep(500 * time.Millisecond)
		}
		if s.VerifHsCookieKey() == k0 {
			res <- verdict{false, "C19:cookie-key-never-rotates", "the cookie key did not change within 150 s of Serve()"}
			return
		}
		conn.in <- Dgram{a, held}
		if sa := conn.reply(700 * time.Millisecond); sa != nil {
			res <- verdict{false, "C19:client-ack-accepted-with-cookie-not-under-current-key",
				"a ClientAck whose cookie was minted before the server's own rotation tick was answered after it (the rotated-out key is still honoured)"}
			return
		}
		b := Addr("10.3.3.4", 3334)
		fresh := ackFor(b)
		conn.in <- Dgram{b, fresh}
		if fresh == nil || conn.reply(2*time.Second) == nil {
			res <- verdict{false, "C19:honest-client-ack-rejected", "after the rotation tick a fresh hello/ack exchange was not answered"}
			return
		}
		res <- verdict{true, "", ""}
	}()
	return func() {
		v := <-res
		specCase("C19", "real-rotation-tick", "a server running Serve(): a cookie minted before its own 2-minute rotation tick is presented after the tick (must be refused), then a fresh exchange (must work)", v.ok, v.sig, v.what, true)
	}
}
