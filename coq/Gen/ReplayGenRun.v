(* ReplayGenRun.v — drivers that run histories of calls on the GENERATED SlidingWindow code
   (Hop.ReplayGen).  Definitions only; used by Gen/ReplayGenEq.v (theorems) and Gen/CorrC14Gen.v
   (evaluation of the harness driver's cases on the generated code). *)
From Hop Require Import Base GoSem Replay.
From Hop Require ReplayGen.
Open Scope N_scope.
Module G := ReplayGen.

(* the transport's usage: Check, Mark iff accepted *)
Fixpoint gen_run_accept (g : G.SlidingWindow) (cs : list N) : res (list bool) :=
  match cs with
  | [] => Ok []
  | c :: r =>
      b <- G.SlidingWindow_Check g c ;;
      g' <- (if b then G.SlidingWindow_Mark g c else Ok g) ;;
      bs <- gen_run_accept g' r ;;
      Ok (b :: bs)
  end.

(* arbitrary Mark / Check programs *)
Fixpoint gen_run_ops (g : G.SlidingWindow) (ops : list rop) : res (list bool) :=
  match ops with
  | [] => Ok []
  | RMark c :: r => g' <- G.SlidingWindow_Mark g c ;; gen_run_ops g' r
  | RCheck c :: r => b <- G.SlidingWindow_Check g c ;; bs <- gen_run_ops g r ;; Ok (b :: bs)
  end.

(* the receive path: (counter, authentic?) per datagram *)
Fixpoint gen_run_through (g : G.SlidingWindow) (l : list (N * bool)) : res (list bool) :=
  match l with
  | [] => Ok []
  | (c, true) :: r =>
      b <- G.SlidingWindow_Check g c ;;
      g' <- (if b then G.SlidingWindow_Mark g c else Ok g) ;;
      bs <- gen_run_through g' r ;;
      Ok (b :: bs)
  | (_, false) :: r => bs <- gen_run_through g r ;; Ok (false :: bs)
  end.
