package hsx

import (
	"fmt"
	"net"

	"hop.computer/hop/cyclist"
	"hop.computer/hop/transport"
)

// WB drives the client side of a discoverable handshake message by message through the real
// writer/reader functions (white box), against a stepped server, keeping every datagram and
// the duplex state before each read so that variants of a message can be replayed.
type WB struct {
	Srv   *Srv
	Addr  *net.UDPAddr
	Cfg   transport.ClientConfig
	HS    *transport.VerifHsState
	CH    []byte
	SH    []byte
	CAck  []byte
	SA    []byte
	CAuth []byte
	PreSH cyclist.Cyclist // client duplex before reading ServerHello
	PreSA cyclist.Cyclist // client duplex before reading ServerAuth
	PreCA cyclist.Cyclist // server's stored duplex before reading ClientAuth
}

func one(out []Dgram, what string) ([]byte, error) {
	if len(out) != 1 {
		return nil, fmt.Errorf("%s: server sent %d datagrams", what, len(out))
	}
	return out[0].Data, nil
}

// Deliverer hands a datagram to the server and returns what it sent.
type Deliverer func(from *net.UDPAddr, d []byte, what string) []Dgram

func (s *Srv) Direct() Deliverer {
	return func(from *net.UDPAddr, d []byte, what string) []Dgram { out, _, _ := s.Deliver(from, d); return out }
}

// NewWB runs ClientHello .. ServerAuth (received, not yet read).
func NewWB(srv *Srv, cfg transport.ClientConfig, addr *net.UDPAddr) (*WB, error) {
	return NewWBVia(srv, srv.Direct(), cfg, addr)
}

func NewWBVia(srv *Srv, deliver Deliverer, cfg transport.ClientConfig, addr *net.UDPAddr) (*WB, error) {
	w := &WB{Srv: srv, Addr: addr, Cfg: cfg}
	hs, err := transport.VerifHsNewClientHS(&w.Cfg, srv.Addr, false)
	if err != nil {
		return nil, err
	}
	w.HS = hs
	buf := make([]byte, 65535)
	n, err := transport.VerifHsWritePQClientHello(hs, buf)
	if err != nil {
		return nil, err
	}
	w.CH = append([]byte(nil), buf[:n]...)
	out := deliver(addr, w.CH, "ClientHello")
	if w.SH, err = one(out, "ClientHello"); err != nil {
		return nil, err
	}
	w.PreSH = hs.VerifHsDuplex()
	if _, err = transport.VerifHsReadPQServerHello(hs, w.SH); err != nil {
		return nil, err
	}
	hs.VerifHsRekey(PQName)
	if n, err = hs.VerifHsWritePQClientAck(buf); err != nil {
		return nil, err
	}
	w.CAck = append([]byte(nil), buf[:n]...)
	out = deliver(addr, w.CAck, "ClientAck")
	if w.SA, err = one(out, "ClientAck"); err != nil {
		return nil, err
	}
	w.PreSA = hs.VerifHsDuplex()
	return w, nil
}

// Auth reads the honest ServerAuth and writes the ClientAuth (not delivered).
func (w *WB) Auth() error {
	w.HS.VerifHsSetDuplex(w.PreSA)
	if _, err := w.HS.VerifHsReadPQServerAuth(w.SA); err != nil {
		return err
	}
	buf := make([]byte, 65535)
	n, err := w.HS.VerifHsWritePQClientAuth(buf)
	if err != nil {
		return err
	}
	w.CAuth = append([]byte(nil), buf[:n]...)
	if h := w.Srv.S.VerifHsHandshakeFor(w.Addr); h != nil {
		w.PreCA = h.VerifHsDuplex()
	}
	return nil
}

// HWB: the client side of a hidden handshake up to the received response.
type HWB struct {
	Srv   *Srv
	Addr  *net.UDPAddr
	Cfg   transport.ClientConfig
	HS    *transport.VerifHsState
	Req   []byte
	Resp  []byte
	PreRS cyclist.Cyclist
}

func NewHWBReq(srv *Srv, cfg transport.ClientConfig, addr *net.UDPAddr) (*HWB, error) {
	w := &HWB{Srv: srv, Addr: addr, Cfg: cfg}
	hs, err := transport.VerifHsNewClientHS(&w.Cfg, srv.Addr, true)
	if err != nil {
		return nil, err
	}
	w.HS = hs
	buf := make([]byte, 65535)
	n, err := hs.VerifHsWritePQClientRequestHidden(buf, w.Cfg.ServerKEMKey)
	if err != nil {
		return nil, err
	}
	w.Req = append([]byte(nil), buf[:n]...)
	w.PreRS = hs.VerifHsDuplex()
	return w, nil
}

func NewHWB(srv *Srv, cfg transport.ClientConfig, addr *net.UDPAddr) (*HWB, error) {
	w, err := NewHWBReq(srv, cfg, addr)
	if err != nil {
		return nil, err
	}
	out, _, _ := srv.Deliver(addr, w.Req)
	return w.finish(out)
}

func (w *HWB) finish(out []Dgram) (*HWB, error) {
	var err error
	if w.Resp, err = one(out, "hidden request"); err != nil {
		return nil, err
	}
	return w, nil
}

// Conn is a completed white-box client connection: session id and keys.
type Conn struct {
	Addr     *net.UDPAddr
	SID      transport.SessionID
	C2S, S2C [16]byte
	Count    uint64
}

// Complete finishes the discoverable handshake through deliver and returns the client's keys.
func (w *WB) Complete(deliver Deliverer) (*Conn, error) {
	if err := w.Auth(); err != nil {
		return nil, err
	}
	deliver(w.Addr, w.CAuth, "ClientAuth")
	c := &Conn{Addr: w.Addr, SID: w.HS.VerifHsSessionID()}
	c.C2S, c.S2C = w.HS.VerifHsFinalKeys()
	return c, nil
}

// Complete reads the hidden response and returns the client's keys.
func (w *HWB) Complete() (*Conn, error) {
	w.HS.VerifHsSetDuplex(w.PreRS)
	if _, err := w.HS.VerifHsReadPQServerResponseHidden(w.Resp); err != nil {
		return nil, err
	}
	c := &Conn{Addr: w.Addr, SID: w.HS.VerifHsSessionID()}
	c.C2S, c.S2C = w.HS.VerifHsFinalKeys()
	return c, nil
}

// Packet seals the connection's next client-to-server transport message.
func (c *Conn) Packet(pt []byte) []byte {
	p, err := transport.VerifHsSeal(c.SID, c.C2S, c.Count, transport.MessageTypeTransport, pt)
	if err != nil {
		panic(err)
	}
	c.Count++
	return p
}
