(* GoSem.v — run-time library of the Go -> Gallina translator tools/go2gallina (docs/XLATE.md).
   Definitions only.  This file is the translator's statement of the Go semantics of the supported
   subset and is part of the trusted base of every `*_generated_model_*` theorem:

   * uint64 values are `N` below 2^64 (the type invariant; parameters of that type carry it as a
     hypothesis in the theorems).  + - * << wrap mod 2^64 (Go spec, "Integer overflow"); & | ^ &^ >>
     / % cannot leave the range and are the plain `N` operations; / and % by zero panic.
     A shift count >= 64 gives 0 for << (N.shiftl then mod 2^64) and 0 for >> (N.shiftr).
   * int is 64 bits (amd64/arm64, the platforms hop-go builds for): `Z` in [-2^63, 2^63), + - * wrap.
   * an index expression on an array, slice or string panics when out of range: `aget`/`aset`
     (index of type uint64) and `zget` (index of type int) return `Panic` there.
   * byte strings and fixed-size arrays of integers are `list N`; len is the list length.
   * a loop is a recursion on a fuel argument; running out of fuel is the distinguished result `Err`
     (no translated Go function has an error result, so `Err` never means anything else).  Each
     equivalence theorem shows the result is `Ok`, i.e. the fuel expression the translator chose is
     enough and the loop terminates. *)
From Hop Require Import Base.
Open Scope N_scope.

Definition w64 : N := 2 ^ 64.

Definition u64_add (a b : N) : N := (a + b) mod w64.
Definition u64_sub (a b : N) : N := (a + w64 - b) mod w64.
Definition u64_mul (a b : N) : N := (a * b) mod w64.
Definition u64_shl (a b : N) : N := (N.shiftl a b) mod w64.
Definition u64_div (a b : N) : res N := if b =? 0 then Panic else Ok (a / b).
Definition u64_rem (a b : N) : res N := if b =? 0 then Panic else Ok (a mod b).
Definition u64_not (a : N) : N := w64 - 1 - a.
Definition u64_andnot (a b : N) : N := N.ldiff a b.

Definition i64_wrap (z : Z) : Z := ((z + 2 ^ 63) mod 2 ^ 64 - 2 ^ 63)%Z.
Definition i64_add (a b : Z) : Z := i64_wrap (a + b).
Definition i64_sub (a b : Z) : Z := i64_wrap (a - b).
Definition i64_mul (a b : Z) : Z := i64_wrap (a * b).
Definition i64_neg (a : Z) : Z := i64_wrap (- a).

(* len(x) as an int *)
Definition zlen (l : list N) : Z := Z.of_nat (List.length l).

(* x[i], i of type uint64 *)
Definition aget (l : list N) (i : N) : res N :=
  if i <? N.of_nat (List.length l) then Ok (nth (N.to_nat i) l 0) else Panic.

Fixpoint lupd (l : list N) (i : nat) (v : N) : list N :=
  match l, i with
  | [], _ => []
  | _ :: r, O => v :: r
  | x :: r, S i' => x :: lupd r i' v
  end.

(* x[i] = v, i of type uint64 *)
Definition aset (l : list N) (i : N) (v : N) : res (list N) :=
  if i <? N.of_nat (List.length l) then Ok (lupd l (N.to_nat i) v) else Panic.

(* x[i], i of type int *)
Definition zget (l : list N) (i : Z) : res N :=
  if ((0 <=? i) && (i <? zlen l))%Z then Ok (nth (Z.to_nat i) l 0) else Panic.
Definition zset (l : list N) (i : Z) (v : N) : res (list N) :=
  if ((0 <=? i) && (i <? zlen l))%Z then Ok (lupd l (Z.to_nat i) v) else Panic.

(* result of running a loop: fell out of it (condition false or `break`) with these values of the
   variables it assigns, or executed a `return` with this function result *)
Inductive lres (S R : Type) : Type :=
| LNext (s : S)
| LRet (r : R).
Arguments LNext {S R} s.
Arguments LRet {S R} r.

(* type invariants *)
Definition is_u64 (x : N) : Prop := x < w64.
Definition is_i64 (z : Z) : Prop := (- 2 ^ 63 <= z < 2 ^ 63)%Z.

(* monadic fold, for stating theorems about histories of calls of a translated method *)
Fixpoint foldM {S A} (f : S -> A -> res S) (l : list A) (s : S) : res S :=
  match l with
  | [] => Ok s
  | a :: r => s' <- f s a ;; foldM f r s'
  end.
