(* HsServerProofs.v — lemmas about Model/HsServer.v (Server.readPacket, client steps) *)
From Hop Require Import Base Handshake HsServer HandshakeProofs.
From Coq Require Import ZifyN ZifyNat ZifyBool.
Open Scope N_scope.
Local Arguments N.add : simpl never.
Local Arguments N.mul : simpl never.
Local Opaque N.add N.mul.

(* ------------------------------------------------------------------ frame lemmas *)
Lemma set_handshake_state_pending : forall s I a T ek hid s' sid st,
  set_handshake_state s I a T ek hid = Some (s', sid, st) ->
  sv_pending s' = sv_pending s /\ sv_hidden s' = sv_hidden s /\ sv_ck s' = sv_ck s /\ sv_pol s' = sv_pol s
  /\ sv_serving s' = sv_serving s /\ sv_maxpending s' = sv_maxpending s.
Proof.
  intros until st. unfold set_handshake_state. intros H.
  repeat (dm H; try discriminate); injection H as <- <- <-; cbn; auto 10.
Qed.

Lemma session_message_pending : forall SM s a d s' r,
  session_message SM s a d = (s', r) ->
  sv_pending s' = sv_pending s /\ sv_hs s' = sv_hs s /\ sv_ck s' = sv_ck s /\ sv_hidden s' = sv_hidden s.
Proof.
  intros until r. unfold session_message. intros H.
  repeat (dm H; try discriminate); injection H as <- <-; cbn; auto.
Qed.

Lemma finish_handshake_pending : forall O s rm sid T pk hid s' r,
  finish_handshake O s rm sid T pk hid = (s', r) ->
  sv_pending s' = sv_pending s \/ (sv_pending s' = sv_pending s ++ [sid] /\ r = Ok tt).
Proof.
  intros until r. unfold finish_handshake. intros H.
  repeat (dm H; try discriminate); injection H as <- <-; destruct rm; cbn; auto.
Qed.

(* ------------------------------------------------------------------ C01: publication *)
Definition published_by_client_auth (O : doracle) (X : xoracle) (s : srv) (a : addr) (d : bytes) (s' : srv) : Prop :=
  at_ d 0 = MT_ClientAuth /\ sv_hidden s = false /\
  exists h T' pk,
    find_hs a (sv_hs s) = Some h /\
    read_client_auth O X (h_ekey h) (sv_pol s) (h_sid h) (h_tr h) d = (T', Ok (len d, pk)) /\
    sv_pending s' = sv_pending s ++ [h_sid h].

Definition published_by_hidden_request (O : doracle) (X : xoracle) (s : srv) (I : step_in) (d : bytes) (s' : srv) : Prop :=
  at_ d 0 = MT_ClientRequestHidden /\
  exists T' q sid,
    read_request_hidden O X (i_certs I) (sv_pol s) (i_now I) [] d = (T', Ok q) /\ hq_n q = len d /\
    sv_pending s' = sv_pending s ++ [sid].

Theorem server_publishes_only_authenticated : forall O X SM s I a d,
  sv_pending (so_srv (server_step O X SM s I a d)) <> sv_pending s ->
  published_by_client_auth O X s a d (so_srv (server_step O X SM s I a d)) \/
  published_by_hidden_request O X s I d (so_srv (server_step O X SM s I a d)).
Proof.
  intros O X SM s I a d Hne.
  unfold server_step in *.
  destruct (len d <? 4); [exfalso; apply Hne; reflexivity|].
  destruct (at_ d 0 =? MT_ClientHello) eqn:E1.
  { exfalso. apply Hne. repeat (match goal with |- context [match ?x with _ => _ end] => destruct x end; cbn; auto). }
  destruct (at_ d 0 =? MT_ClientAck) eqn:E3.
  { exfalso. apply Hne.
    destruct (sv_hidden s); [reflexivity|].
    destruct (read_client_ack _ _ _ _ _ _) as [[n k]| |]; try reflexivity.
    destruct (negb (n =? len d)); [reflexivity|].
    destruct (set_handshake_state _ _ _ _ _ _) as [[[s1 sid] st]|] eqn:Es; [|reflexivity].
    apply set_handshake_state_pending in Es as (Hp & _).
    destruct (i_cert I (ak_sni k)) as [[[ss leaf] inter]|]; [|cbn; auto].
    destruct (write_server_auth _ _ _ _ _ _ _ _ _ _) as [T' r].
    destruct st, r; cbn; auto. }
  destruct (at_ d 0 =? MT_ClientAuth) eqn:E5.
  { left. apply N.eqb_eq in E5.
    destruct (sv_hidden s) eqn:Eh; [exfalso; apply Hne; reflexivity|].
    destruct (read_client_auth_pre d); try (exfalso; apply Hne; reflexivity).
    destruct (find_hs a (sv_hs s)) as [h|] eqn:Ef; [|exfalso; apply Hne; reflexivity].
    destruct (read_client_auth _ _ _ _ _ _ _) as [T' r] eqn:Er.
    destruct r as [[n pk]| |]; try (exfalso; apply Hne; reflexivity).
    destruct (negb (n =? len d)) eqn:En; [exfalso; apply Hne; reflexivity|].
    apply negb_false in En. apply N.eqb_eq in En. subst n.
    destruct (finish_handshake _ _ _ _ _ _ _) as [s2 r2] eqn:Efin.
    cbn [so_srv out_] in *.
    apply finish_handshake_pending in Efin as [Hp|[Hp _]]; cbn in Hp.
    - exfalso. apply Hne. exact Hp.
    - unfold published_by_client_auth. repeat split; auto. exists h, T', pk. repeat split; auto. }
  destruct ((at_ d 0 =? MT_ServerHello) || (at_ d 0 =? MT_ServerAuth)); [exfalso; apply Hne; reflexivity|].
  destruct ((at_ d 0 =? MT_Transport) || (at_ d 0 =? MT_Control)).
  { exfalso. apply Hne. destruct (session_message SM s a d) as [s1 r] eqn:Es.
    apply session_message_pending in Es as (Hp & _). exact Hp. }
  destruct (at_ d 0 =? MT_ClientRequestHidden) eqn:E8.
  { right. apply N.eqb_eq in E8.
    destruct (read_request_hidden _ _ _ _ _ _ _) as [T' r] eqn:Er.
    destruct r as [q| |]; try (exfalso; apply Hne; reflexivity).
    destruct (negb (hq_n q =? len d)) eqn:En; [exfalso; apply Hne; reflexivity|].
    apply negb_false in En. apply N.eqb_eq in En.
    destruct (set_handshake_state _ _ _ _ _ _) as [[[s1 sid] st]|] eqn:Es; [|exfalso; apply Hne; reflexivity].
    apply set_handshake_state_pending in Es as (Hp & _).
    destruct (i_cert_h I _) as [[[ss leaf] inter]|]; [|exfalso; apply Hne; cbn; auto].
    destruct (write_response_hidden _ _ _ _ _ _ _ _ _ _) as [Tw rw].
    destruct rw as [m| |]; try (exfalso; apply Hne; destruct st; cbn; auto; fail).
    destruct (finish_handshake _ _ _ _ _ _ _) as [s3 r3] eqn:Efin.
    cbn [so_srv out_] in *.
    apply finish_handshake_pending in Efin as [Hq|[Hq _]].
    - exfalso. apply Hne. rewrite Hq. destruct st; cbn; auto.
    - unfold published_by_hidden_request. split; auto. exists T', q, sid. repeat split; auto.
      rewrite Hq. destruct st; cbn; rewrite Hp; auto. }
  exfalso. apply Hne. destruct (session_message SM s a d) as [s1 r] eqn:Es.
  apply session_message_pending in Es as (Hp & _). destruct r; exact Hp.
Qed.
