(* PacketSanseProofs.v — discharging the AEAD hypotheses of the C03 theorems for the real AEAD
   (Kravatte-SANSE as transport.go calls it) from the C12 results in Proofs/SanseProofs.v. *)
From Hop Require Import Base Keccak Kravatte Sanse SanseProofs Replay ReplayProofs Packet PacketSanse PacketProofs.
From Coq Require Import ZifyN ZifyNat ZifyBool.
Open Scope N_scope.

Lemma good_key_new k : good_key k -> exists s, sanse6_new k = Ok s.
Proof.
  intros [H0 H1]. unfold sanse6_new, go_mask_init, go_mask_init_with, kv_width.
  destruct (Nat.leb_spec 200 (List.length k)) as [H|H]; [lia|].
  destruct k as [|x k]; [simpl in H0; lia|]. eexists. reflexivity.
Qed.

Lemma key16_good k : len k = 16 -> good_key k.
Proof. unfold len, good_key. lia. Qed.

(* C12: open (seal p) = p, for the instance built by NewSANSE(k) *)
Lemma sanse_open_seal k ad p : good_key k -> sanse_open k ad (sanse_seal k ad p) = Some p.
Proof.
  intros Hg. destruct (good_key_new k Hg) as [s Hs]. unfold sanse_open, sanse_seal. rewrite Hs.
  destruct (sanse6_seal s ad p) as [ct s'] eqn:S. cbn [fst].
  unfold sanse6_seal in S. unfold sanse6_open.
  rewrite (SanseProofs.open_seal kv_state kv6_absorb kv6_out (kv_out_length keccak6) s ad p ct s' S).
  reflexivity.
Qed.

(* C12: Seal adds exactly the 32-byte tag *)
Lemma sanse_seal_len k ad p : good_key k -> len (sanse_seal k ad p) = tag_len + len p.
Proof.
  intros Hg. destruct (good_key_new k Hg) as [s Hs]. unfold sanse_seal. rewrite Hs.
  unfold len, sanse6_seal.
  rewrite (SanseProofs.seal_length kv_state kv6_absorb kv6_out (kv_out_length keccak6) s ad p).
  unfold sn_tag_len, tag_len. lia.
Qed.

(* Open returns a plaintext exactly 32 bytes shorter than its input (so readPacketLocked's length panic is dead) *)
Lemma sn_open_len D absorb out s a ct p s' :
  sn_open D absorb out s a ct = (Some p, s') -> (List.length p + 32 = List.length ct)%nat.
Proof.
  unfold sn_open, sn_tag_len. destruct (Nat.ltb_spec (List.length ct) 32) as [H|H]; [discriminate|].
  unfold sn_unwrap. set (n := (List.length ct - 32)%nat).
  destruct (beq_bytes _ _); [|discriminate]. intros E. inversion E as [[Ep Es]]. clear E Es.
  assert (Ln : List.length (firstn n ct) = n) by (rewrite firstn_length; unfold n; lia).
  destruct (is_nil (firstn n ct)) eqn:Nl.
  - destruct (firstn n ct); [|discriminate]. simpl in Ln. simpl. lia.
  - rewrite sn_xor_length, Ln. unfold n. lia.
Qed.

Lemma sanse_open_len k ad ct p : sanse_open k ad ct = Some p -> len p + 32 = len ct.
Proof.
  unfold sanse_open. destruct (sanse6_new k) as [s| |]; try discriminate.
  destruct (sanse6_open s ad ct) as [r s'] eqn:O. cbn [fst]. intros ->.
  apply sn_open_len in O. unfold len. lia.
Qed.

(* ---- C03 corollaries for the real AEAD ---- *)

(* the handler cannot panic at all *)
Theorem session_input_never_panics_sanse ss a pkt : session_input sanse_open ss a pkt <> Panic.
Proof.
  intros H. destruct (panic_only_if_aead_length_lie _ _ _ _ H) as (k&p&_&Ho&Hn).
  apply sanse_open_len in Ho. unfold pkt_body, pkt_ad in *. rewrite len_drop in Ho.
  pose proof (session_input_spec sanse_open ss a pkt) as S. rewrite H in S.
  destruct (opens sanse_open ss pkt) as [p'|] eqn:Hop.
  - destruct (opens_inv _ _ _ _ Hop) as (_&Hw&_). apply wf_header_48 in Hw. unfold ad_len in Ho. lia.
  - destruct S as [o [S _]]. discriminate.
Qed.

Theorem server_never_panics_sanse sv a pkt : server_handle sanse_open sv a pkt <> Panic.
Proof.
  unfold server_handle. destruct (peek_session pkt) as [id|]; [|discriminate].
  destruct (lookup sv id) as [ss|]; [|discriminate].
  destruct (session_input sanse_open ss a pkt) as [[ss' o]| |] eqn:S; try discriminate.
  exfalso. exact (session_input_never_panics_sanse _ _ _ S).
Qed.

Theorem client_never_panics_sanse ss a pkt : client_handle sanse_open ss a pkt <> Panic.
Proof.
  unfold client_handle. destruct (peek_session pkt) as [id|]; [|discriminate].
  destruct (negb (beq_bytes id (sid ss))); [discriminate|]. apply session_input_never_panics_sanse.
Qed.

(* completeness on a faithful network, no AEAD hypothesis left *)
Theorem write_delivered_sanse max A B a b w :
  good_key (key_send A) ->
  0 < max -> in_sync A B ->
  count A + len b + 1 < lim ->
  qlen (queue B) + len b + 1 <= qcap B ->
  write sanse_seal max A b = Some w ->
  w_err w = false /\ w_panic w = false /\ w_n w = len b /\
  Forall (fun d : dgram => snd d = remote A) (w_out w) /\
  exists B', feed sanse_open B a (map fst (w_out w)) = Ok (B', repeat ODelivered (length (w_out w))) /\
             List.concat (queue B') = List.concat (queue B) ++ b /\ rbuf B' = rbuf B /\ remote B' = a.
Proof.
  apply (write_delivered_good sanse_seal sanse_open good_key).
  - intros k ad p Hg. now apply sanse_open_seal.
  - intros k ad p Hg. now apply sanse_seal_len.
Qed.

(* send never panics either (sealPacketLocked's length check is dead for accepted keys) *)
Theorem send_never_panics_sanse ss mt m : good_key (key_send ss) -> send sanse_seal ss mt m <> Panic.
Proof.
  intros Hg. unfold send. destruct (closed ss); [discriminate|]. unfold seal_packet.
  rewrite sanse_seal_len by exact Hg. rewrite N.eqb_refl. discriminate.
Qed.
