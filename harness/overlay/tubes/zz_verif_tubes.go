//go:build verif

// Package-internal wrappers for the C08/C09 correspondence drivers. Mapped into /repo/tubes at build
// time with `go build -overlay`; nothing here is committed to the repository under test.
package tubes

import (
	"io"
	"time"

	"github.com/sirupsen/logrus"
)

func verifLog() *logrus.Entry {
	l := logrus.New()
	l.SetOutput(io.Discard)
	l.SetLevel(logrus.PanicLevel)
	return logrus.NewEntry(l)
}

// ---------------------------------------------------------------- receiver (C08)

// VerifRecv drives a real tubes.receiver.
type VerifRecv struct{ r *receiver }

// VerifNewReceiver returns a fresh receiver whose ackNo/windowStart are set to the given values
// (newReceiver + receiveInitiatePkt give 1/1; other values are white-box state injection for the
// 2^32 wrap-around tests).
func VerifNewReceiver(ack, ws uint64) *VerifRecv {
	r := newReceiver(verifLog())
	r.m.Lock()
	r.ackNo = ack
	r.windowStart = ws
	r.m.Unlock()
	return &VerifRecv{r}
}

// Receive feeds one frame to receiver.receive. errCode: 0 nil, 1 io.EOF, 2 errFrameOutOfBounds, 3 other.
func (v *VerifRecv) Receive(frameNo uint32, data []byte, ack, fin bool) (finOut bool, errCode int) {
	p := &frame{frameNo: frameNo, dataLength: uint16(len(data)), data: data, flags: frameFlags{ACK: ack, FIN: fin, REL: true}}
	f, err := v.r.receive(p)
	switch err {
	case nil:
		return f, 0
	case io.EOF:
		return f, 1
	case errFrameOutOfBounds:
		return f, 2
	}
	return f, 3
}

// State returns ackNo, windowStart, number of buffered fragments, closed, unread bytes.
func (v *VerifRecv) State() (ack, ws uint64, nfrags int, closed bool, buffered int) {
	v.r.m.Lock()
	defer v.r.m.Unlock()
	return v.r.ackNo, v.r.windowStart, v.r.fragments.Len(), v.r.closed.Load(), v.r.buffer.Len()
}

// Read calls receiver.read with an n-byte buffer unless that call would block.
func (v *VerifRecv) Read(n int) (blocked bool, data []byte, eof bool) {
	v.r.m.Lock()
	wouldBlock := v.r.buffer.Len() == 0 && !v.r.closed.Load()
	v.r.m.Unlock()
	if wouldBlock {
		return true, nil, false
	}
	buf := make([]byte, n)
	k, err := v.r.read(buf)
	return false, buf[:k], err == io.EOF
}

// Close is receiver.Close.
func (v *VerifRecv) Close() { v.r.Close() }

// VerifUnwrap is receiver.unwrapFrameNo for a receiver whose ackNo is ack.
func VerifUnwrap(ack uint64, frameNo uint32) uint64 {
	r := newReceiver(verifLog())
	r.m.Lock()
	defer r.m.Unlock()
	r.ackNo = ack
	return r.unwrapFrameNo(frameNo)
}

// ---------------------------------------------------------------- sender rig (C08)

// VerifRig is a real Reliable tube without a muxer: its frames go to two channels owned by the driver,
// and its RetransmitTicker channel is replaced by one the driver fires, so that the timer case of
// Reliable.send can be executed deterministically.  Everything else is the code under test.
type VerifRig struct {
	R    *Reliable
	tick chan time.Time
	outN chan []byte
	outP chan []byte
}

const verifMarkerNo = 0xFFFFFFF0

// VerifFrame is a decoded frame handed to the muxer queues.
type VerifFrame struct {
	Prio                     bool
	FrameNo, AckNo           uint32
	Data                     []byte
	ACK, FIN, RTR, REQ, RESP bool
}

// VerifNewRig builds an initiated reliable tube (as makeReliableTubeWithID + a received RESP would).
// ack0/fno0 != 0 inject sender.ackNo / sender.frameNo (white-box, for the 2^32 wrap-around cases).
func VerifNewRig(ack0 uint64, fno0 uint32) *VerifRig {
	log := verifLog()
	g := &VerifRig{tick: make(chan time.Time), outN: make(chan []byte, 1<<16), outP: make(chan []byte, 1<<16)}
	r := &Reliable{
		id:                1,
		tubeState:         created,
		initRecv:          make(chan struct{}),
		initDone:          make(chan struct{}),
		sendDone:          make(chan struct{}),
		closed:            make(chan struct{}, 1),
		recvWindow:        newReceiver(log),
		sender:            newSender(log),
		sendQueue:         g.outN,
		prioritySendQueue: g.outP,
		tType:             1,
		log:               log,
	}
	r.lastAckSent.Store(0)
	r.lastFrameSent.Store(0)
	r.sender.closed.Store(true)
	r.sender.RetransmitTicker.Stop()
	r.sender.RetransmitTicker.C = g.tick // the real ticker keeps running into its own (unread) channel
	g.R = r
	go r.initiate(false)
	r.receiveInitiatePkt(&initiateFrame{tubeID: 1, flags: frameFlags{RESP: true, REL: true, ACK: true}})
	<-r.initDone
	if ack0 != 0 {
		r.l.Lock()
		r.sender.m.Lock()
		r.sender.ackNo = ack0
		r.sender.frameNo = fno0
		r.sender.m.Unlock()
		r.l.Unlock()
	}
	g.Settle()
	return g
}

func (g *VerifRig) dead() bool {
	select {
	case <-g.R.sendDone:
		return true
	default:
		return false
	}
}

// Settle waits until the send goroutine is idle: all its input queues empty and a marker frame pushed
// through its priority queue has come out, three times in a row without any other frame appearing.
// It returns the frames handed to the muxer queues meanwhile.
func (g *VerifRig) Settle() (out []VerifFrame) {
	s := g.R.sender
	collect := func() (n int, marker bool) {
		for {
			var b []byte
			prio := false
			select {
			case b = <-g.outP:
				prio = true
			case b = <-g.outN:
			default:
				return
			}
			f, _ := fromBytes(b)
			if f.frameNo == verifMarkerNo && f.dataLength == 0 {
				marker = true
				continue
			}
			if f.flags.REQ || f.flags.RESP {
				continue
			}
			n++
			out = append(out, VerifFrame{Prio: prio, FrameNo: f.frameNo, AckNo: f.ackNo, Data: f.data,
				ACK: f.flags.ACK, FIN: f.flags.FIN, RTR: f.flags.RTR, REQ: f.flags.REQ, RESP: f.flags.RESP})
		}
	}
	clean := 0
	for clean < 3 {
		if g.dead() || s.closed.Load() {
			// the sender was closed: wait for the goroutine to finish draining
			<-g.R.sendDone
			collect()
			return
		}
		if len(s.senderWindow.windowOpen) != 0 || len(s.sendQueue) != 0 || len(s.prioritySendQueue) != 0 {
			time.Sleep(20 * time.Microsecond)
			n, _ := collect()
			if n > 0 {
				clean = 0
			}
			continue
		}
		s.prioritySendQueue <- &frame{dataLength: 0, frameNo: verifMarkerNo, data: []byte{}, flags: frameFlags{RTR: true}}
		got := 0
		for {
			n, m := collect()
			got += n
			if m {
				break
			}
			if g.dead() {
				return
			}
			time.Sleep(5 * time.Microsecond)
		}
		if got == 0 && len(s.senderWindow.windowOpen) == 0 && len(s.sendQueue) == 0 && len(s.prioritySendQueue) == 0 {
			clean++
		} else {
			clean = 0
		}
	}
	return
}

// Write is Reliable.Write.
func (g *VerifRig) Write(b []byte) (int, bool) {
	n, err := g.R.Write(b)
	return n, err != nil
}

// Ack delivers a frame carrying only an acknowledgement to Reliable.receive.
func (g *VerifRig) Ack(ackNo uint32) (isErr bool) {
	err := g.R.receive(&frame{tubeID: 1, ackNo: ackNo, frameNo: 1, dataLength: 0, data: []byte{}, flags: frameFlags{ACK: true, REL: true}})
	return err != nil
}

// Tick fires the retransmission timer once (the RetransmitTicker case of Reliable.send runs).
func (g *VerifRig) Tick() {
	select {
	case g.tick <- time.Now():
	case <-g.R.sendDone:
	}
}

// Fin is Reliable.Close (sendFin).
func (g *VerifRig) Fin() (isErr bool) { return g.R.Close() != nil }

// VerifSenderState is a snapshot of the sender.
type VerifSenderState struct {
	AckNo                  uint64
	FrameNo                uint32
	Unacked                uint16
	RtoCounter, Dup, State int
	SsThresh, WindowSize   uint16
	Cwnd                   float64
	FinSent, Closed        bool
	RTO, RTT               int64
	TubeClosed             bool
	Frames                 []VerifSFrame
}

// VerifSFrame is one entry of the retransmission buffer.
type VerifSFrame struct {
	FrameNo          uint32
	Len              int
	FIN, RTR, Queued bool
	Data             []byte
}

// State snapshots the sender of the rig.
func (g *VerifRig) State(withData bool) VerifSenderState {
	r := g.R
	r.l.Lock()
	defer r.l.Unlock()
	s := r.sender
	s.m.Lock()
	defer s.m.Unlock()
	st := VerifSenderState{AckNo: s.ackNo, FrameNo: s.frameNo, Unacked: s.unacked, RtoCounter: s.rtoCounter,
		Dup: s.senderWindow.duplicatedAckCounter, State: int(s.senderWindow.state), SsThresh: s.senderWindow.ssThresh,
		WindowSize: s.senderWindow.windowSize, Cwnd: s.senderWindow.cwndSize, FinSent: s.finSent, Closed: s.closed.Load(),
		RTO: int64(s.RTO), RTT: int64(s.RTT), TubeClosed: r.tubeState == closed}
	for _, f := range s.frames {
		sf := VerifSFrame{FrameNo: f.frameNo, Len: len(f.data), FIN: f.flags.FIN, RTR: f.flags.RTR, Queued: f.queued}
		if withData {
			sf.Data = append([]byte(nil), f.data...)
		}
		st.Frames = append(st.Frames, sf)
	}
	return st
}

// Stop tears the rig down.
func (g *VerifRig) Stop() {
	r := g.R
	r.l.Lock()
	r.enterClosedState()
	r.l.Unlock()
}

// VerifConsts exposes the compile-time constants the models are instantiated with.
func VerifConsts() (maxFrameDataLength, defaultWindow, maxWindow int, initialRTTns, maxRTOns int64) {
	return int(MaxFrameDataLength), defaultWindowSize, maxWindowSize, int64(initialRTT), int64(maxRTO)
}

// VerifTubeDebug renders the sender/receiver state of a reliable tube (diagnostics in replay descriptions).
func VerifTubeDebug(r *Reliable) string {
	r.l.Lock()
	defer r.l.Unlock()
	s := r.sender
	s.m.Lock()
	defer s.m.Unlock()
	r.recvWindow.m.Lock()
	defer r.recvWindow.m.Unlock()
	fr := ""
	for i, f := range s.frames {
		if i >= 6 {
			fr += "..."
			break
		}
		fr += fmtFrame(f.frame)
	}
	return "state=" + itoa(int(r.tubeState)) + " snd{ack=" + itoa(int(s.ackNo)) + " frameNo=" + itoa(int(s.frameNo)) + " unacked=" + itoa(int(s.unacked)) +
		" wsize=" + itoa(int(s.senderWindow.windowSize)) + " cc=" + itoa(int(s.senderWindow.state)) + " dup=" + itoa(s.senderWindow.duplicatedAckCounter) +
		" rtoc=" + itoa(s.rtoCounter) + " RTO=" + s.RTO.String() + " RTT=" + s.RTT.String() + " closed=" + btoa(s.closed.Load()) + " fin=" + btoa(s.finSent) +
		" nframes=" + itoa(len(s.frames)) + " [" + fr + "]} rcv{ack=" + itoa(int(r.recvWindow.ackNo)) + " ws=" + itoa(int(r.recvWindow.windowStart)) +
		" frags=" + itoa(r.recvWindow.fragments.Len()) + " closed=" + btoa(r.recvWindow.closed.Load()) + " buf=" + itoa(r.recvWindow.buffer.Len()) + "}"
}

func fmtFrame(f *frame) string {
	q := ""
	if f.queued {
		q = "q"
	}
	if f.flags.RTR {
		q += "r"
	}
	if f.flags.FIN {
		q += "F"
	}
	return itoa(int(f.frameNo)) + q + " "
}
func itoa(i int) string {
	if i == 0 {
		return "0"
	}
	neg := i < 0
	if neg {
		i = -i
	}
	b := []byte{}
	for i > 0 {
		b = append([]byte{byte('0' + i%10)}, b...)
		i /= 10
	}
	if neg {
		return "-" + string(b)
	}
	return string(b)
}
func btoa(b bool) string {
	if b {
		return "T"
	}
	return "F"
}

// ---------------------------------------------------------------- muxer inspection (C09)

// VerifTubeInfo is one live tube of a muxer as the C09 driver sees it.
type VerifTubeInfo struct {
	Rel      bool
	ID       byte
	Type     byte
	State    int // 0 created, 1 open (initiated or closing), 2 closed
	Buffered int // reliable: unread bytes; unreliable: queued messages
}

func verifProjectState(s state) int {
	switch s {
	case created:
		return 0
	case closed:
		return 2
	}
	return 1
}

// VerifMuxSnapshot lists the muxer's maps (sorted by id) and the length of the accept queue.
func VerifMuxSnapshot(m *Muxer) (rel, unrel []VerifTubeInfo, queued int) {
	m.m.Lock()
	defer m.m.Unlock()
	for id := 0; id < 256; id++ {
		if r, ok := m.reliableTubes[byte(id)]; ok {
			r.l.Lock()
			st := verifProjectState(r.tubeState)
			r.l.Unlock()
			r.recvWindow.m.Lock()
			n := r.recvWindow.buffer.Len()
			r.recvWindow.m.Unlock()
			rel = append(rel, VerifTubeInfo{true, byte(id), byte(r.tType), st, n})
		}
		if u, ok := m.unreliableTubes[byte(id)]; ok {
			st := verifProjectState(u.state.Load().(state))
			unrel = append(unrel, VerifTubeInfo{false, byte(id), byte(u.tType), st, len(u.recv.C)})
		}
	}
	return rel, unrel, len(m.tubeQueue)
}

// VerifMuxHas reports whether the muxer's map holds a tube (rel, id).
func VerifMuxHas(m *Muxer, rel bool, id byte) bool {
	_, ok := m.getTube(rel, id)
	return ok
}

// VerifMuxTryAccept is Accept when a tube is queued, otherwise (nil, false).
func VerifMuxTryAccept(m *Muxer) (Tube, bool) {
	if len(m.tubeQueue) == 0 {
		return nil, false
	}
	t, err := m.Accept()
	return t, err == nil
}

// VerifMuxForceClose drives the tube (rel, id) into its closed state without a peer: reliable tubes as
// Muxer.Stop's forced close does (enterClosedState), with the RTT estimate at its minimum so that the
// reaper's 4*RTT delay is short; unreliable tubes through their Close.
func VerifMuxForceClose(m *Muxer, rel bool, id byte) bool {
	t, ok := m.getTube(rel, id)
	if !ok {
		return false
	}
	if r, isRel := t.(*Reliable); isRel {
		r.l.Lock()
		r.sender.RTT = minRTT
		r.enterClosedState()
		r.l.Unlock()
		return true
	}
	t.Close()
	return true
}

// VerifMuxRead returns what a reader of tube (rel, id) gets right now without blocking: reliable, all
// buffered bytes; unreliable, the next queued message.
func VerifMuxRead(m *Muxer, rel bool, id byte) (data []byte, ok bool) {
	t, found := m.getTube(rel, id)
	if !found {
		return nil, false
	}
	if r, isRel := t.(*Reliable); isRel {
		v := &VerifRecv{r.recvWindow}
		blocked, d, _ := v.Read(1 << 20)
		if blocked {
			return nil, true
		}
		return d, true
	}
	u := t.(*Unreliable)
	if len(u.recv.C) == 0 || u.state.Load().(state) == created {
		return nil, true // ReadMsgUDP would block (nothing queued, or the tube is not initiated yet)
	}
	buf := make([]byte, 1<<17)
	n, _, _, _, _ := u.ReadMsgUDP(buf, nil)
	return buf[:n], true
}

// VerifMinRTT is the minimum RTT estimate (the reaper waits 4*RTT before freeing a locally opened reliable id).
func VerifMinRTT() time.Duration { return minRTT }

// VerifTubeStateName returns the life-cycle state of a reliable tube (diagnostics and scenario set-up:
// waiting until a FIN has been acknowledged before the next scripted step).
func VerifTubeStateName(r *Reliable) string {
	r.l.Lock()
	defer r.l.Unlock()
	switch r.tubeState {
	case created:
		return "created"
	case initiated:
		return "initiated"
	case closeWait:
		return "closeWait"
	case lastAck:
		return "lastAck"
	case finWait1:
		return "finWait1"
	case finWait2:
		return "finWait2"
	case closing:
		return "closing"
	case closed:
		return "closed"
	}
	return "?"
}

// VerifMuxForceCloseKeepRTT closes the reliable tube (true, id) like VerifMuxForceClose but leaves its RTT
// estimate alone and returns it: the reaper must then keep the id reserved for at least 4*RTT, the time the
// peer may spend in lastAck.
func VerifMuxForceCloseKeepRTT(m *Muxer, id byte) (time.Duration, bool) {
	t, ok := m.getTube(true, id)
	if !ok {
		return 0, false
	}
	r := t.(*Reliable)
	r.l.Lock()
	rtt := r.sender.RTT
	r.enterClosedState()
	r.l.Unlock()
	return rtt, true
}
