// c20: glob matching, host-block selection and virtual-host selection.
//
// Runs the real glob.Glob, config.ClientConfig.MatchHost and hopserver.VirtualHosts.Match on
// generated inputs, judges every answer with a specification oracle written from the property
// statement (spec: "the input is the pattern with each '*' replaced by some string", decided by
// trying every replacement), and emits the cases for comparison with the Gallina model.
package main

import (
	"fmt"
	"io"
	"strings"

	"github.com/sirupsen/logrus"

	"hop.computer/hop/config"
	"hop.computer/hop/hopserver"
	"hop.computer/hop/pkg/glob"
	"verifharness/hv"
)

// ------------------------------------------------------------------ specification oracle

// spec decides the property's definition directly: a '*' may be replaced by any string (every
// split is tried), any other byte must be equal. Memoised on (pattern position, input position)
// so that long inputs with many stars stay cheap. Independent of the code and of the Coq model.
func spec(p, s string) bool {
	memo := map[[2]int]bool{}
	var rec func(i, j int) bool
	rec = func(i, j int) bool {
		if i == len(p) {
			return j == len(s)
		}
		k := [2]int{i, j}
		if v, ok := memo[k]; ok {
			return v
		}
		r := false
		if p[i] == '*' {
			for e := j; e <= len(s) && !r; e++ { // the star is replaced by s[j:e]
				r = rec(i+1, e)
			}
		} else {
			r = j < len(s) && s[j] == p[i] && rec(i+1, j+1)
		}
		memo[k] = r
		return r
	}
	return rec(0, 0)
}

// observation of one Glob call: 0 false, 1 true, 2 panic
func runGlob(p, s string) (code int) {
	var r bool
	pan, _ := hv.Catch(func() { r = glob.Glob(p, s) })
	switch {
	case pan:
		return 2
	case r:
		return 1
	}
	return 0
}

// what the generated inputs exercised (printed into the evidence)
var stat = map[string]int{}

func codeName(c int) string { return [...]string{"false", "true", "PANIC"}[c] }

func want(p, s string) int {
	if spec(p, s) {
		return 1
	}
	return 0
}

func sigFor(got, wnt int) string {
	switch {
	case got == 2:
		return "C20:glob-panics"
	case wnt == 1:
		return "C20:glob-misses-a-match"
	}
	return "C20:glob-accepts-a-non-match"
}

func hasStar(p string) bool { return strings.IndexByte(p, '*') >= 0 }
func hasLit(p string) bool  { return strings.Trim(p, "*") != "" }

// one pattern/input pair, compared with the model
func pairCase(class, p, s string) {
	got, w := runGlob(p, s), want(p, s)
	stat["pairs-"+class+"-"+codeName(w)]++
	hv.Emit(hv.Case{Fn: "c20_glob_ok", Coq: hv.Tuple(hv.Str(p), hv.Str(s), hv.Ni(got)), Class: class,
		Desc: fmt.Sprintf("Glob(%q,%q)", p, s), Spec: got == w, Sig: sigFor(got, w),
		What:   fmt.Sprintf("Glob(%q,%q) = %s, the definition says %s", p, s, codeName(got), codeName(w)),
		NT:     hasStar(p) && hasLit(p) && s != "",
		Replay: map[string]interface{}{"pattern": p, "input": s, "got": codeName(got), "want": codeName(w)}})
}

// all strings over alpha of length <= n: by length, each string of the previous length extended by
// each letter (Corr/C20.v all_strings enumerates in the same order)
func allStrings(alpha string, n int) []string {
	out := []string{""}
	prev := []string{""}
	for l := 1; l <= n; l++ {
		var cur []string
		for _, x := range prev {
			for i := 0; i < len(alpha); i++ {
				cur = append(cur, x+alpha[i:i+1])
			}
		}
		out = append(out, cur...)
		prev = cur
	}
	return out
}

// one pattern against every input of a family; the oracle judges every pair; model == true makes
// it a model-compared case as well
func exhCase(class, p, alpha string, n int, inputs []string, model bool) {
	codes := make([]byte, len(inputs))
	ok := true
	var fp, fs string
	var fg, fw int
	for k, s := range inputs {
		g, w := runGlob(p, s), want(p, s)
		stat["pairs-exhaustive-"+codeName(w)]++
		codes[k] = byte(g)
		if g != w && ok {
			ok, fp, fs, fg, fw = false, p, s, g, w
		}
	}
	c := hv.Case{Class: class, Desc: fmt.Sprintf("Glob(%q, every string over %q up to length %d)", p, alpha, n),
		Spec: ok, NT: hasStar(p) && hasLit(p)}
	if model {
		c.Fn = "c20_exh_ok"
		c.Coq = hv.Tuple(hv.Str(p), hv.Str(alpha), hv.Ni(n), hv.Hex(codes))
	}
	if !ok {
		c.Sig = sigFor(fg, fw)
		c.What = fmt.Sprintf("Glob(%q,%q) = %s, the definition says %s", fp, fs, codeName(fg), codeName(fw))
		c.Desc = fmt.Sprintf("Glob(%q,%q)", fp, fs)
		c.Key = p + "|" + alpha
		c.Replay = map[string]interface{}{"pattern": fp, "input": fs, "got": codeName(fg), "want": codeName(fw)}
	}
	hv.Emit(c)
}

// ------------------------------------------------------------------ generators

// a pattern with many stars over a tiny alphabet, and an input that is either an instance of it
// (stars replaced by random strings) or a near miss (one byte changed / dropped / added)
func randomPair(r *hv.Rand, maxLen int, alpha string) (string, string, string) {
	if alpha == "" {
		alpha = hv.Pick(r, []string{"a", "ab", "ab", "abc", "ab."})
	}
	n := 1 + r.Intn(maxLen)
	starPct := hv.Pick(r, []int{10, 25, 40, 60})
	pb := make([]byte, n)
	for i := range pb {
		if r.Chance(starPct) {
			pb[i] = '*'
		} else {
			pb[i] = alpha[r.Intn(len(alpha))]
		}
	}
	p := string(pb)
	var sb []byte
	for _, c := range pb {
		if c == '*' {
			k := hv.Pick(r, []int{0, 0, 1, 1, 2, 3, 5})
			for ; k > 0; k-- {
				sb = append(sb, alpha[r.Intn(len(alpha))])
			}
		} else {
			sb = append(sb, c)
		}
	}
	class := "random-instance"
	switch r.Intn(5) {
	case 0:
		if len(sb) > 0 {
			i := r.Intn(len(sb))
			sb[i] = alpha[r.Intn(len(alpha))]
			class = "random-near-miss"
		}
	case 1:
		if len(sb) > 0 {
			i := r.Intn(len(sb))
			sb = append(sb[:i], sb[i+1:]...)
			class = "random-near-miss"
		}
	case 2:
		i := r.Intn(len(sb) + 1)
		sb = append(sb[:i], append([]byte{alpha[r.Intn(len(alpha))]}, sb[i:]...)...)
		class = "random-near-miss"
	}
	if len(sb) > 72 {
		sb = sb[:72]
		class = "random-near-miss"
	}
	return class, p, string(sb)
}

var namePool = []string{"", "a", "ab", "ba", "aab", "a.b", "b.a.b", "host", "host.example.com", "a.example.com",
	"example.com", "x.y.example.com", "*", "a*b"}

func derivedPattern(r *hv.Rand, name string) string {
	// a pattern related to the name: the name with some runs replaced by '*', sometimes damaged
	b := []byte(name)
	var out []byte
	for i := 0; i < len(b); {
		if r.Chance(30) {
			out = append(out, '*')
			i += r.Intn(4)
		} else {
			out = append(out, b[i])
			i++
		}
	}
	if r.Chance(25) {
		out = append(out, '*')
	}
	if r.Chance(25) && len(out) > 0 {
		out[r.Intn(len(out))] = hv.Pick(r, []byte{'a', 'b', '.', '*'})
	}
	return string(out)
}

func genPattern(r *hv.Rand, name string) string {
	switch r.Intn(6) {
	case 0:
		return hv.Pick(r, []string{"*", "", "a", "b", "*a", "a*", "*.example.com", "**", "*a*b", "a*b", "*b"})
	case 1:
		return hv.Pick(r, namePool)
	default:
		return derivedPattern(r, name)
	}
}

// ------------------------------------------------------------------ MatchHost

type blk struct {
	pats     []string
	ca       []string
	hostname *string
	user     *string
	port     int
}

func (b blk) toGo() config.HostConfigOptional {
	return config.HostConfigOptional{Patterns: b.pats, CAFiles: b.ca, Hostname: b.hostname, User: b.user, Port: b.port}
}
func strs(xs []string) string {
	o := make([]string, len(xs))
	for i, x := range xs {
		o[i] = hv.Str(x)
	}
	return hv.List(o)
}
func optStr(p *string) string {
	if p == nil {
		return "None"
	}
	return hv.Some(hv.Str(*p))
}
func (b blk) coq() string {
	return hv.App("HB", strs(b.pats), strs(b.ca), optStr(b.hostname), optStr(b.user), hv.Ni(b.port))
}
func (b blk) String() string {
	f := func(p *string) string {
		if p == nil {
			return "-"
		}
		return *p
	}
	return fmt.Sprintf("{pats=%q ca=%q hostname=%s user=%s port=%d}", b.pats, b.ca, f(b.hostname), f(b.user), b.port)
}
func eqOpt(a, b *string) bool {
	if a == nil || b == nil {
		return a == nil && b == nil
	}
	return *a == *b
}
func eqStrs(a, b []string) bool {
	if len(a) != len(b) {
		return false
	}
	for i := range a {
		if a[i] != b[i] {
			return false
		}
	}
	return true
}

func hostCase(r *hv.Rand, sparse bool) {
	name := hv.Pick(r, namePool)
	sp := func(s string) *string { return &s }
	global := blk{ca: []string{"g"}}
	if r.Chance(50) {
		global.hostname = sp("hg")
	}
	if r.Chance(30) {
		global.user = sp("ug")
	}
	if r.Chance(30) {
		global.port = 22
	}
	if sparse && r.Chance(50) {
		global.ca = nil
	}
	nb := r.Intn(7)
	var blocks []blk
	for i := 0; i < nb; i++ {
		b := blk{}
		np := hv.Pick(r, []int{0, 1, 1, 1, 2, 2, 3})
		for k := 0; k < np; k++ {
			b.pats = append(b.pats, genPattern(r, name))
		}
		// every block carries a CA file name of its own, so the result lists the applied blocks
		if !sparse || r.Chance(60) {
			b.ca = append(b.ca, fmt.Sprintf("ca%d", i))
		}
		if r.Chance(20) {
			b.ca = append(b.ca, fmt.Sprintf("cb%d", i))
		}
		if r.Chance(50) {
			b.hostname = sp(fmt.Sprintf("h%d", i))
		}
		if r.Chance(40) {
			b.user = sp(fmt.Sprintf("u%d", i))
		}
		if r.Chance(40) {
			b.port = 1000 + i
		}
		blocks = append(blocks, b)
	}
	class := "host-blocks"
	if sparse {
		class = "host-blocks-sparse"
	}
	hostRun(class, name, global, blocks, true)
}

// runs the real MatchHost on one configuration, judges it by the definition, emits the case
func hostRun(class, name string, global blk, blocks []blk, model bool) {
	// the real code
	cfg := &config.ClientConfig{Global: global.toGo()}
	for _, b := range blocks {
		cfg.Hosts = append(cfg.Hosts, b.toGo())
	}
	var res *config.HostConfigOptional
	pan, _ := hv.Catch(func() { res = cfg.MatchHost(name) })
	// the specification: exactly the blocks with a matching pattern are applied, in order
	exp := global
	exp.ca = append([]string{}, global.ca...)
	applied, skipped := 0, 0
	var appliedIdx []int
	for i, b := range blocks {
		m := false
		for _, p := range b.pats {
			if spec(p, name) {
				m = true
			}
		}
		if !m {
			skipped++
			continue
		}
		applied++
		appliedIdx = append(appliedIdx, i)
		exp.ca = append(exp.ca, b.ca...)
		if b.hostname != nil {
			exp.hostname = b.hostname
		}
		if b.user != nil {
			exp.user = b.user
		}
		if b.port != 0 {
			exp.port = b.port
		}
	}
	stat[fmt.Sprintf("matchhost-blocks-applied-%d", applied)]++
	stat["matchhost-blocks-total"] += len(blocks)
	stat["matchhost-blocks-applied-total"] += applied
	var ds []string
	for _, b := range blocks {
		ds = append(ds, b.String())
	}
	desc := fmt.Sprintf("MatchHost(%q) global=%s hosts=[%s]", name, global, strings.Join(ds, " "))
	c := hv.Case{Fn: "c20_host_ok", Class: class, Desc: desc, NT: applied > 0 && skipped > 0,
		Replay: map[string]interface{}{"host": name, "global": global.String(), "blocks": ds, "blocks_that_must_apply": appliedIdx}}
	if !model {
		c.Fn = ""
	}
	if pan {
		c.Coq = hv.Tuple(global.coq(), hv.List(mapBlk(blocks)), hv.Str(name),
			hv.Tuple("true", "[]", "None", "None", "0"))
		c.Spec, c.Sig, c.What = false, "C20:matchhost-panics", "MatchHost panicked"
	} else {
		c.Coq = hv.Tuple(global.coq(), hv.List(mapBlk(blocks)), hv.Str(name),
			hv.Tuple("false", strs(res.CAFiles), optStr(res.Hostname), optStr(res.User), hv.Ni(res.Port)))
		c.Spec = eqStrs(res.CAFiles, exp.ca) && eqOpt(res.Hostname, exp.hostname) && eqOpt(res.User, exp.user) && res.Port == exp.port
		if !c.Spec {
			c.Sig = "C20:matchhost-applies-wrong-blocks"
			c.What = fmt.Sprintf("MatchHost(%q): CAFiles=%q hostname=%s user=%s port=%d; applying exactly the matching blocks %v gives CAFiles=%q hostname=%s user=%s port=%d",
				name, res.CAFiles, optS(res.Hostname), optS(res.User), res.Port, appliedIdx, exp.ca, optS(exp.hostname), optS(exp.user), exp.port)
		}
	}
	hv.Emit(c)
}
func optS(p *string) string {
	if p == nil {
		return "<unset>"
	}
	return *p
}
func mapBlk(bs []blk) []string {
	o := make([]string, len(bs))
	for i, b := range bs {
		o[i] = b.coq()
	}
	return o
}

// ------------------------------------------------------------------ VirtualHosts.Match

func vhostCase(r *hv.Rand) {
	name := hv.Pick(r, namePool)
	n := r.Intn(7)
	var pats []string
	for i := 0; i < n; i++ {
		pats = append(pats, genPattern(r, name))
	}
	if r.Chance(30) {
		pats = append(pats, "*") // the server's fallback entry
	}
	if r.Chance(10) && len(pats) > 0 {
		pats = append(pats, pats[r.Intn(len(pats))]) // a duplicate: first one must win
	}
	vhostRun("vhosts", pats, name, true)
}

// runs the real VirtualHosts.Match on one list, judges it by the definition, emits the case
func vhostRun(class string, pats []string, name string, model bool) {
	vh := make(hopserver.VirtualHosts, len(pats))
	for i, p := range pats {
		vh[i].Pattern = p
	}
	var res *hopserver.VirtualHost
	pan, _ := hv.Catch(func() { res = vh.Match(name) })
	got := 0 // 0 nil, i+1 index
	for i := range vh {
		if res == &vh[i] {
			got = i + 1
		}
	}
	wnt, matching := 0, 0
	for i := len(pats) - 1; i >= 0; i-- {
		if spec(pats[i], name) {
			wnt = i + 1
			matching++
		}
	}
	stat[fmt.Sprintf("vhost-first-match-at-%d", wnt)]++ // 0 = none
	fn := "c20_vhost_ok"
	if !model {
		fn = ""
	}
	c := hv.Case{Fn: fn, Class: class, Desc: fmt.Sprintf("VirtualHosts%q.Match(%q)", pats, name),
		Coq:    hv.Tuple(strs(pats), hv.Str(name), hv.Tuple(hv.B(pan), hv.Ni(got))),
		NT:     wnt > 1 || matching > 1,
		Replay: map[string]interface{}{"patterns": pats, "name": name, "want_index_plus_1": wnt, "got_index_plus_1": got}}
	switch {
	case pan:
		c.Spec, c.Sig, c.What = false, "C20:vhost-match-panics", "VirtualHosts.Match panicked"
	case res != nil && got == 0:
		c.Spec, c.Sig, c.What = false, "C20:vhost-not-an-entry", "Match returned a pointer that is no entry of the list"
	default:
		c.Spec = got == wnt
		c.Sig = "C20:vhost-not-first-match"
		c.What = fmt.Sprintf("Match(%q) over %q chose entry %d, the first matching entry is %d (1-based, 0 = none)", name, pats, got, wnt)
	}
	hv.Emit(c)
}

// ------------------------------------------------------------------ main

func main() {
	defer hv.Flush()
	logrus.SetOutput(io.Discard) // VirtualHosts.Match logs every comparison
	logrus.SetLevel(logrus.PanicLevel)
	r := hv.NewRand(hv.Seed())

	// regression corpus: the defects fixed in pkg/glob (must stay fixed) and the package's vectors
	for _, c := range [][2]string{{"a", ""}, {"*ab", "aab"}, {"a*", "a"}, {"*a", "aa"}, {"**", ""}, {"ab", "a"}, {"*a", ""},
		{"*.example.com", "a.example.co.example.com"}, {"*", "*"}, {"*", "*a"}, {"a", "*"}, {"", ""}, {"", "a"}, {"*", ""},
		{"*.example.com", "sub.example.com"}, {"example.com", "sub.example.com"}, {"example.com", "example.com"},
		{"example.*", "example.com"}, {"example.*", "ope.example"}, {"example.*", "example.domain.local"},
		{"d*d", "david"}, {"d*d", "davidadrian"}, {"d*d", "dave"}, {"d*", "dave"}, {"d*", "dd"}, {"d*v*", "dave"},
		{"d*v*", "david"}, {"d*v*d", "david"}, {"d*v*d", "dave"}} {
		pairCase("regression", c[0], c[1])
	}

	// exhaustive: every pattern over {a,b,*} against every input over {a,b} and over {a,b,*}
	pl := hv.Scale(5, 7)
	inAB := allStrings("ab", hv.Scale(5, 7))
	inABS := allStrings("ab*", hv.Scale(4, 5))
	pats := allStrings("ab*", pl)
	for k, p := range pats {
		// thorough: the model evaluates every 3rd pattern of length 7 (all shorter ones); the oracle judges all
		model := len(p) <= 6 || k%3 == 0
		exhCase("exhaustive-ab*-vs-ab", p, "ab", hv.Scale(5, 7), inAB, model)
		exhCase("exhaustive-ab*-vs-ab*", p, "ab*", hv.Scale(4, 5), inABS, model)
	}
	if hv.Thorough() {
		// a fourth letter: patterns over {a,b,*,.} up to 6, inputs over {a,b,.} up to 6 (oracle on all, model on a third)
		in3 := allStrings("ab.", 6)
		for k, p := range allStrings("ab*.", 6) {
			if strings.IndexByte(p, '.') < 0 {
				continue
			}
			exhCase("exhaustive-ab*.-vs-ab.", p, "ab.", 6, in3, k%3 == 0)
		}
	}

	// random long pairs with many stars
	for k := hv.Scale(700, 8000); k > 0; k-- {
		class, p, s := randomPair(r, hv.Pick(r, []int{6, 12, 24, 40, 64}), "")
		pairCase(class, p, s)
	}
	// strings are compared byte by byte: NUL, 0xff, the bytes of a two-byte rune
	for k := hv.Scale(80, 1000); k > 0; k-- {
		_, p, s := randomPair(r, hv.Pick(r, []int{4, 8, 16}), hv.Pick(r, []string{"\x00\xff", "\xc3\xa9\xc3", "a\x00", "\xffa+"}))
		pairCase("random-nonascii-bytes", p, s)
	}
	// pathological backtracking: a*a*a*...b against aaaa...a
	for n := 1; n <= hv.Scale(12, 30); n++ {
		pairCase("pathological", strings.Repeat("a*", n)+"b", strings.Repeat("a", 2*n+3))
		pairCase("pathological", strings.Repeat("*a", n), strings.Repeat("a", n))
		pairCase("pathological", strings.Repeat("*a", n), strings.Repeat("a", n-1))
	}

	for k := hv.Scale(500, 5000); k > 0; k-- {
		hostCase(r, false)
	}
	for k := hv.Scale(200, 2000); k > 0; k-- {
		hostCase(r, true)
	}
	for k := hv.Scale(500, 5000); k > 0; k-- {
		vhostCase(r)
	}
	// The two consumers of Glob judged on the same small-alphabet grid as Glob itself (a consumer may
	// wrap, cache or shortcut the matcher): every pattern over {a,b,*} against every name over {a,b},
	// as a one-pattern entry in front of a catch-all (vhosts) and as a one-pattern host block between
	// two others (MatchHost). The oracle judges every pair; the model is compared on the shorter ones.
	gl := hv.Scale(4, 5)
	spx := func(s string) *string { return &s }
	for _, p := range allStrings("ab*", gl) {
		for _, n := range allStrings("ab", gl) {
			model := len(p) <= 3 && len(n) <= 2
			vhostRun("vhosts-grid", []string{p, "*"}, n, model)
			if len(p)+len(n) <= hv.Scale(6, 8) {
				vhostRun("vhosts-grid", []string{"b*b*b", p, n + "b"}, n, false)
				hostRun("host-blocks-grid", n, blk{ca: []string{"g"}},
					[]blk{{pats: []string{n + "a"}, ca: []string{"c0"}}, {pats: []string{p}, ca: []string{"c1"}, hostname: spx("h1"), port: 7},
						{pats: []string{"*"}, ca: []string{"c2"}, user: spx("u2")}}, model)
			}
		}
	}

	info := map[string]interface{}{"what": "counts of what the generated inputs exercised (oracle's verdicts)"}
	for k, v := range stat {
		info[k] = v
	}
	hv.Info(info)
}
