// c15: roaming (peer address) correspondence driver (see harness/hvxpacket).
package main

import "verifharness/hvxpacket"

func main() { hvxpacket.Run("C15") }
