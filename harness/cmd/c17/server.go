// Server / Handle scenarios of the C17 driver (specification oracles only; the Coq model covers
// the Client machine and the deadline queue underneath Handle).
package main

import (
	"fmt"
	"net"
	"runtime"
	"strings"
	"sync"
	"sync/atomic"
	"time"

	"hop.computer/hop/common"
	"hop.computer/hop/transport"
	"verifharness/hv"
)

type svPair struct {
	srv      *transport.Server
	sock     *net.UDPConn
	clients  []*transport.Client
	handles  []*transport.Handle
	serveRet chan error
}

func newSvPair(env *lifeEnv, nclients int) (*svPair, error) {
	pkt, err := net.ListenPacket("udp", "127.0.0.1:0")
	if err != nil {
		return nil, err
	}
	sp := &svPair{sock: pkt.(*net.UDPConn), serveRet: make(chan error, 1)}
	sp.srv, err = transport.NewServer(sp.sock, env.serverCfg)
	if err != nil {
		return nil, err
	}
	go func() { sp.serveRet <- sp.srv.Serve() }()
	for i := 0; i < nclients; i++ {
		cu, err := net.DialUDP("udp", nil, sp.sock.LocalAddr().(*net.UDPAddr))
		if err != nil {
			return nil, err
		}
		cl := transport.NewClient(cu, nil, transport.ClientConfig{Verify: env.verify, Exchanger: env.kp, Leaf: env.leaf, HSTimeout: 5 * time.Second})
		if err := cl.Handshake(); err != nil {
			return nil, fmt.Errorf("setup handshake: %w", err)
		}
		h, err := sp.srv.AcceptTimeout(5 * time.Second)
		if err != nil {
			return nil, fmt.Errorf("setup accept: %w", err)
		}
		sp.clients = append(sp.clients, cl)
		sp.handles = append(sp.handles, h)
	}
	return sp, nil
}

func (sp *svPair) teardown() {
	for _, c := range sp.clients {
		c := c
		bounded(2*time.Second, func() { c.Close() })
	}
	bounded(2*time.Second, func() { sp.srv.Close() })
	sp.sock.Close()
}

func perturbHook(r *hv.Rand, prefixes ...string) func(string) {
	seed := r.U64()
	var ctr atomic.Uint64
	return func(pt string) {
		ok := false
		for _, p := range prefixes {
			if strings.HasPrefix(pt, p) {
				ok = true
			}
		}
		if !ok {
			return
		}
		x := (ctr.Add(1) + seed) * 0x9E3779B97F4A7C15
		switch (x >> 33) % 8 {
		case 0, 1:
			runtime.Gosched()
		case 2:
			time.Sleep(time.Duration((x>>40)%150) * time.Microsecond)
		}
	}
}

type call struct {
	name string
	f    func() int64
	ret  int64
	c, r int64
	done atomic.Bool
}

// runCalls runs every call in its own goroutine and waits (bounded) for all of them
func runCalls(calls []*call, bound time.Duration) (allReturned bool) {
	var wg sync.WaitGroup
	start := make(chan struct{})
	for _, c := range calls {
		c.ret = -1
		wg.Add(1)
		go func(c *call) {
			defer wg.Done()
			<-start
			atomic.StoreInt64(&c.c, stamp.Add(1))
			res := guard(c.f)
			atomic.StoreInt64(&c.ret, res)
			atomic.StoreInt64(&c.r, stamp.Add(1))
			c.done.Store(true)
		}(c)
	}
	close(start)
	done := make(chan struct{})
	go func() { wg.Wait(); close(done) }()
	select {
	case <-done:
		return true
	case <-time.After(bound):
		return false
	}
}

func anyPanic(calls []*call) (bool, string) {
	for _, c := range calls {
		if c.done.Load() && atomic.LoadInt64(&c.ret) == 900 {
			return true, c.name + " panicked: " + lastPanic()
		}
	}
	return false, ""
}

func describe(calls []*call) string {
	var ds []string
	for _, c := range calls {
		r := int64(-1)
		if c.done.Load() {
			r = atomic.LoadInt64(&c.ret)
		}
		ds = append(ds, c.name+"="+lstr(r))
	}
	return strings.Join(ds, ", ")
}

func scenarioServerClose(env *lifeEnv, r *hv.Rand) {
	goBefore := runtime.NumGoroutine()
	nc := 1 + r.Intn(2)
	sp, err := newSvPair(env, nc)
	if err != nil {
		hv.Emit(hv.Case{Class: "server-close", Desc: "setup failed: " + err.Error(), Spec: false, Sig: "C17:driver-setup", What: err.Error()})
		return
	}
	common.SetVerifYield(perturbHook(r, "sv.", "h.", "dc."))
	buf := make([]byte, 2048)
	calls := []*call{
		{name: "Server.Close#1", f: func() int64 { return lcode(sp.srv.Close()) }},
		{name: "Server.Close#2", f: func() int64 { return lcode(sp.srv.Close()) }},
		{name: "AcceptTimeout(300ms)", f: func() int64 { _, err := sp.srv.AcceptTimeout(300 * time.Millisecond); return lcode(err) }},
		{name: "Handle0.ReadMsg", f: func() int64 { _, err := sp.handles[0].ReadMsg(buf); return lcode(err) }},
		{name: "Serve#2", f: func() int64 { return lcode(sp.srv.Serve()) }},
	}
	if r.Bool() {
		calls = append(calls, &call{name: "Handle0.WriteMsg", f: func() int64 { return lcode(sp.handles[0].WriteMsg([]byte("x"))) }})
	}
	if r.Bool() {
		calls = append(calls, &call{name: "Handle0.Close", f: func() int64 { return lcode(sp.handles[0].Close()) }})
	}
	all := runCalls(calls, 5*time.Second)
	var serveRes int64 = -1
	select {
	case e := <-sp.serveRet:
		serveRes = lcode(e)
	case <-time.After(3 * time.Second):
	}
	common.SetVerifYield(nil)
	// a later Accept / Close
	lateAccept := int64(-1)
	lateClose := int64(-1)
	if all {
		_, e := sp.srv.AcceptTimeout(50 * time.Millisecond)
		lateAccept = lcode(e)
		lateClose = lcode(sp.srv.Close())
	}
	sp.teardown()
	goAfter := settleGoroutines(goBefore)
	v := verdict{true, "", ""}
	fail := func(sig, what string) {
		if v.ok {
			v = verdict{false, sig, what}
		}
	}
	if p, w := anyPanic(calls); p {
		fail("C17:panic", w)
	}
	if !all {
		fail("C17:server-call-not-released-by-close", "Server.Close was called but some call never returned: "+describe(calls))
	} else {
		if calls[0].ret != calls[1].ret || calls[0].ret != 0 {
			fail("C17:server-close-result-differs", "concurrent Server.Close calls reported "+lstr(calls[0].ret)+" and "+lstr(calls[1].ret))
		}
		if lateClose != calls[0].ret {
			fail("C17:server-close-result-differs", "a later Server.Close reported "+lstr(lateClose))
		}
		if calls[3].ret != 1 {
			fail("C17:handle-read-not-eof-after-server-close", "Handle.ReadMsg returned "+lstr(calls[3].ret))
		}
		if calls[2].ret != 1 && calls[2].ret != 2 {
			fail("C17:accept-result", "AcceptTimeout racing with Close returned "+lstr(calls[2].ret))
		}
		if lateAccept != 1 {
			fail("C17:accept-not-eof-after-close", "AcceptTimeout after Close returned "+lstr(lateAccept))
		}
		if serveRes != 0 {
			fail("C17:serve-did-not-return", "Serve returned "+lstr(serveRes)+" after Close")
		}
	}
	if v.ok && goAfter > goBefore {
		fail("C17:server-goroutine-leak", fmt.Sprintf("goroutines before=%d after=%d", goBefore, goAfter))
	}
	desc := fmt.Sprintf("clients=%d ", nc) + describe(calls) + fmt.Sprintf(", Serve=%s, lateAccept=%s, lateClose=%s", lstr(serveRes), lstr(lateAccept), lstr(lateClose))
	hv.Emit(hv.Case{Class: "server-close", Desc: desc, Spec: v.ok, Sig: v.sig, What: v.what, NT: true,
		Key: fmt.Sprintf("%s#%d", desc, stamp.Load()), Replay: map[string]interface{}{"scenario": "server-close", "calls": describe(calls)}})
}

// data queued in a Handle before it is closed must be read before io.EOF
func scenarioHandleDataBeforeEOF(env *lifeEnv, r *hv.Rand) {
	sp, err := newSvPair(env, 1)
	if err != nil {
		hv.Emit(hv.Case{Class: "handle-data-before-eof", Desc: "setup failed: " + err.Error(), Spec: false, Sig: "C17:driver-setup", What: err.Error()})
		return
	}
	n := 1 + r.Intn(4)
	for i := 0; i < n; i++ {
		if err := sp.clients[0].WriteMsg([]byte{byte(i + 1)}); err != nil {
			hv.Emit(hv.Case{Class: "handle-data-before-eof", Desc: "setup write failed: " + err.Error(), Spec: false, Sig: "C17:driver-setup", What: err.Error()})
			sp.teardown()
			return
		}
	}
	t0 := time.Now()
	for sp.handles[0].VerifRecvLen() < n && time.Since(t0) < 3*time.Second {
		time.Sleep(200 * time.Microsecond)
	}
	arrived := sp.handles[0].VerifRecvLen()
	common.SetVerifYield(perturbHook(r, "dc.", "h.", "sv."))
	how := r.Intn(3)
	var gotMu sync.Mutex
	var gotShared []int
	var lastErr int64 = -1
	reader := &call{name: "reader", f: func() int64 {
		buf := make([]byte, 64)
		for {
			k, err := sp.handles[0].ReadMsg(buf)
			if err != nil {
				return lcode(err)
			}
			gotMu.Lock()
			if k == 1 {
				gotShared = append(gotShared, int(buf[0]))
			} else {
				gotShared = append(gotShared, -k)
			}
			gotMu.Unlock()
		}
	}}
	closer := &call{name: []string{"Handle.Close", "Server.Close", "Handle.Close+SetReadDeadline"}[how], f: func() int64 {
		switch how {
		case 0:
			return lcode(sp.handles[0].Close())
		case 1:
			return lcode(sp.srv.Close())
		}
		sp.handles[0].SetReadDeadline(time.Now().Add(time.Hour))
		return lcode(sp.handles[0].Close())
	}}
	all := runCalls([]*call{reader, closer}, 3*time.Second)
	common.SetVerifYield(nil)
	if all {
		lastErr = reader.ret
	}
	gotMu.Lock()
	got := append([]int(nil), gotShared...)
	gotMu.Unlock()
	sp.teardown()
	v := verdict{true, "", ""}
	if !all {
		v = verdict{false, "C17:handle-read-not-released-by-close", "reader or closer never returned: " + describe([]*call{reader, closer})}
	} else {
		okSeq := len(got) == arrived
		for i := range got {
			if got[i] != i+1 {
				okSeq = false
			}
		}
		if !okSeq {
			v = verdict{false, "C17:handle-eof-before-queued-data", fmt.Sprintf("%d messages were queued before the close, the reader got %v and then %s", arrived, got, lstr(lastErr))}
		} else if lastErr != 1 {
			v = verdict{false, "C17:handle-read-not-eof-after-close", "reader ended with " + lstr(lastErr)}
		}
	}
	desc := fmt.Sprintf("queued=%d closer=%s => read %v then %s", arrived, closer.name, got, lstr(lastErr))
	hv.Emit(hv.Case{Class: "handle-data-before-eof", Desc: desc, Spec: v.ok, Sig: v.sig, What: v.what, NT: arrived > 0,
		Key: fmt.Sprintf("%s#%d", desc, stamp.Load()), Replay: map[string]interface{}{"scenario": "handle-data-before-eof", "queued": arrived, "closer": closer.name}})
}

// an expired read deadline releases a blocked reader with a timeout error; clearing it un-expires
func scenarioHandleDeadline(env *lifeEnv, r *hv.Rand) {
	sp, err := newSvPair(env, 1)
	if err != nil {
		hv.Emit(hv.Case{Class: "handle-deadline", Desc: "setup failed: " + err.Error(), Spec: false, Sig: "C17:driver-setup", What: err.Error()})
		return
	}
	common.SetVerifYield(perturbHook(r, "dc.", "h."))
	buf := make([]byte, 64)
	rd := &call{name: "Handle.ReadMsg", f: func() int64 { _, err := sp.handles[0].ReadMsg(buf); return lcode(err) }}
	past := r.Bool()
	sd := &call{name: "SetReadDeadline", f: func() int64 {
		time.Sleep(time.Duration(r.Intn(3)) * time.Millisecond)
		if past {
			return lcode(sp.handles[0].SetReadDeadline(time.Now().Add(-time.Second)))
		}
		return lcode(sp.handles[0].SetReadDeadline(time.Now().Add(15 * time.Millisecond)))
	}}
	all := runCalls([]*call{rd, sd}, 5*time.Second)
	v := verdict{true, "", ""}
	var second int64 = -1
	if !all {
		v = verdict{false, "C17:deadline-did-not-release-reader", "blocked ReadMsg not released by the expired read deadline: " + describe([]*call{rd, sd})}
	} else if rd.ret != 2 {
		v = verdict{false, "C17:deadline-wrong-error", "ReadMsg released by the deadline returned " + lstr(rd.ret)}
	} else {
		// un-expire, then data must be readable
		sp.handles[0].SetReadDeadline(time.Time{})
		sp.clients[0].WriteMsg([]byte{9})
		rd2 := &call{name: "Handle.ReadMsg#2", f: func() int64 { _, err := sp.handles[0].ReadMsg(buf); return lcode(err) }}
		if !runCalls([]*call{rd2}, 3*time.Second) || rd2.ret != 0 {
			v = verdict{false, "C17:deadline-not-unexpired", "after SetReadDeadline(zero) a read with data available gave " + describe([]*call{rd2})}
		}
		second = rd2.ret
	}
	common.SetVerifYield(nil)
	sp.teardown()
	desc := fmt.Sprintf("past=%v => ReadMsg=%s, after un-expire ReadMsg=%s", past, lstr(rd.ret), lstr(second))
	hv.Emit(hv.Case{Class: "handle-deadline", Desc: desc, Spec: v.ok, Sig: v.sig, What: v.what, NT: true,
		Key: fmt.Sprintf("%s#%d", desc, stamp.Load()), Replay: map[string]interface{}{"scenario": "handle-deadline", "past": past}})
}

func runServerScenarios(env *lifeEnv, r *hv.Rand) {
	exploreHandle(env, r)
	for i := 0; i < hv.Scale(8, 200); i++ {
		scenarioServerClose(env, r)
	}
	for i := 0; i < hv.Scale(30, 600); i++ {
		scenarioHandleDataBeforeEOF(env, r)
	}
	for i := 0; i < hv.Scale(5, 100); i++ {
		scenarioHandleDeadline(env, r)
	}
}

// ---------------------------------------------------------------- gated schedule exploration on a Handle
// Handle.ReadMsg / SetReadDeadline / Close go through the deadline queue's yield points (and the
// h.* points): three goroutines, one call each, interleavings sampled with the hooks as gates.
func exploreHandle(env *lifeEnv, r *hv.Rand) {
	dls := []string{"zero", "late"}
	for k := 0; k < hv.Scale(60, 1500); k++ {
		sp, err := newSvPair(env, 1)
		if err != nil {
			continue
		}
		h := sp.handles[0]
		dl := dls[k%2]
		buf := make([]byte, 64)
		fns := []func() int64{
			func() int64 { _, e := h.ReadMsg(buf); return lcode(e) },
			func() int64 {
				if dl == "zero" {
					return lcode(h.SetReadDeadline(time.Time{}))
				}
				return lcode(h.SetReadDeadline(time.Now().Add(time.Hour)))
			},
			func() int64 { return lcode(h.Close()) },
		}
		names := []string{"Handle.ReadMsg", "Handle.SetReadDeadline(" + dl + ")", "Handle.Close"}
		n := len(fns)
		c := newController(n)
		res := make([]int64, n)
		for i := range res {
			res[i] = -1
		}
		var resMu sync.Mutex
		common.SetVerifYield(func(pt string) {
			if strings.HasPrefix(pt, "dc.") || strings.HasPrefix(pt, "h.") {
				c.hook(pt)
			}
		})
		var wg sync.WaitGroup
		for i := 0; i < n; i++ {
			wg.Add(1)
			go func(i int) {
				defer wg.Done()
				c.register(i)
				v := guard(fns[i])
				resMu.Lock()
				res[i] = v
				resMu.Unlock()
				c.workerDone(i)
			}(i)
		}
		ok := c.settle()
		var sched []int
		for ok {
			pk := c.parked()
			if len(pk) == 0 {
				break
			}
			pick := pk[r.Intn(len(pk))]
			sched = append(sched, pick)
			c.grantTo(pick)
			ok = c.settle()
		}
		resMu.Lock()
		snap := append([]int64(nil), res...)
		resMu.Unlock()
		steps := stepList(c.steps)
		c.release()
		common.SetVerifYield(nil)
		// cleanup: Server.Close closes every session; bounded
		sp.teardown()
		done := make(chan struct{})
		go func() { wg.Wait(); close(done) }()
		leaked := false
		select {
		case <-done:
		case <-time.After(time.Second):
			leaked = true
		}
		v := verdict{true, "", ""}
		var rs []string
		for i, x := range snap {
			rs = append(rs, names[i]+"="+lstr(x))
		}
		switch {
		case !ok:
			v = verdict{false, "C17:driver-could-not-settle", "a worker stayed runnable for 10 s"}
		case snap[0] == 900 || snap[1] == 900 || snap[2] == 900:
			v = verdict{false, "C17:panic", "a Handle call panicked: " + lastPanic()}
		case snap[2] < 0:
			v = verdict{false, "C17:handle-close-never-returned", strings.Join(rs, ", ")}
		case snap[0] < 0 || snap[1] < 0:
			v = verdict{false, "C17:handle-read-not-released-by-close", "Handle.Close returned but: " + strings.Join(rs, ", ")}
		case snap[0] != 1:
			v = verdict{false, "C17:handle-read-not-eof-after-close", "ReadMsg released by Close returned " + lstr(snap[0])}
		case leaked:
			v = verdict{false, "C17:goroutine-leak", "workers still blocked after Server.Close"}
		}
		var ss []string
		for _, s := range sched {
			ss = append(ss, hv.Ni(s))
		}
		desc := "T0:" + names[0] + " T1:" + names[1] + " T2:" + names[2] + " schedule=" + strings.Join(ss, ",") + " => " + strings.Join(rs, ", ")
		hv.Emit(hv.Case{Class: "explore-handle", Desc: desc, Spec: v.ok, Sig: v.sig, What: v.what, NT: len(sched) > 6, Key: desc,
			Replay: map[string]interface{}{"program": names, "schedule": sched, "steps(thread@yield-point)": steps, "results": rs}})
	}
}
