package hvxwire

import (
	"bufio"
	"bytes"
	"encoding/json"
	"fmt"
	"io"
	"os"
	"os/exec"
	"regexp"
	"runtime"
	"strings"
	"sync"
	"syscall"
	"time"
)

// Crash isolation for the C11 driver: cases that may take the whole process down (a panic in a
// muxer goroutine cannot be recovered from outside; a peer-chosen 4 GiB allocation would get
// the driver OOM-killed) run in child processes of the same binary. The child prints
// "B <id>" before and "E <id> <json>" after each job; if it dies or hangs in between, the parent
// records that job as crashed / wedged (an observation, not a driver failure) and restarts the
// child on the remaining jobs.

type Job struct {
	ID   int             `json:"id"`
	Kind string          `json:"kind"`
	Data json.RawMessage `json:"data"`
}

type JobResult struct {
	ID      int
	Out     json.RawMessage
	Crashed bool   // the child process died while running this job
	Hung    bool   // no result within the per-job timeout
	Detail  string // panic / fatal error text and the hop-go frame it happened in
	Site    string // first hop.computer/hop function on the crashing stack
}

// MeasureAlloc returns the bytes the Go heap allocator handed out while f ran.
func MeasureAlloc(f func()) uint64 {
	var m0, m1 runtime.MemStats
	runtime.ReadMemStats(&m0)
	f()
	runtime.ReadMemStats(&m1)
	return m1.TotalAlloc - m0.TotalAlloc
}

// ChildMain is called by a driver started with "-child": it limits its own address space so that
// an absurd allocation fails inside this process (fatal error -> exit) instead of taking the
// machine down, then serves jobs from stdin.
func ChildMain(asLimitBytes uint64, handle func(j Job) interface{}) {
	if asLimitBytes > 0 {
		_ = syscall.Setrlimit(syscall.RLIMIT_AS, &syscall.Rlimit{Cur: asLimitBytes, Max: asLimitBytes})
	}
	in := bufio.NewReaderSize(os.Stdin, 1<<20)
	out := bufio.NewWriter(os.Stdout)
	for {
		line, err := in.ReadBytes('\n')
		if len(bytes.TrimSpace(line)) > 0 {
			var j Job
			if e := json.Unmarshal(line, &j); e == nil {
				fmt.Fprintf(out, "B %d\n", j.ID)
				out.Flush()
				res := handle(j)
				b, _ := json.Marshal(res)
				fmt.Fprintf(out, "E %d %s\n", j.ID, b)
				out.Flush()
			}
		}
		if err != nil {
			return
		}
	}
}

var siteRe = regexp.MustCompile(`(?m)^(hop\.computer/hop/[^\s(]+(?:\([^)]*\))?[^\s(]*)\(`)

func crashSite(stderr string) (detail, site string) {
	lines := strings.Split(stderr, "\n")
	for _, l := range lines {
		if strings.HasPrefix(l, "panic:") || strings.HasPrefix(l, "fatal error:") || strings.Contains(l, "out of memory") {
			detail = strings.TrimSpace(l)
			break
		}
	}
	idx := strings.Index(stderr, detail)
	if idx < 0 {
		idx = 0
	}
	if m := siteRe.FindStringSubmatch(stderr[idx:]); m != nil {
		site = m[1]
		// skip overlay wrappers and harness frames: they are not the failing site
		for _, mm := range siteRe.FindAllStringSubmatch(stderr[idx:], 20) {
			if !strings.Contains(mm[1], "Verif") {
				site = mm[1]
				break
			}
		}
	}
	if detail == "" {
		detail = "child process died without a panic message"
	}
	return
}

// RunJobs runs jobs of one kind in `parallel` child processes.
func RunJobs(kind string, jobs []Job, perJob time.Duration, parallel int, extraEnv ...string) map[int]JobResult {
	res := map[int]JobResult{}
	var mu sync.Mutex
	if parallel < 1 {
		parallel = 1
	}
	chunks := make([][]Job, parallel)
	for i, j := range jobs {
		chunks[i%parallel] = append(chunks[i%parallel], j)
	}
	var wg sync.WaitGroup
	for _, c := range chunks {
		if len(c) == 0 {
			continue
		}
		wg.Add(1)
		go func(pending []Job) {
			defer wg.Done()
			for len(pending) > 0 {
				done := runOneChild(kind, pending, perJob, extraEnv, func(r JobResult) {
					mu.Lock()
					res[r.ID] = r
					mu.Unlock()
				})
				pending = pending[done:]
			}
		}(c)
	}
	wg.Wait()
	return res
}

// runOneChild feeds jobs to one child until it finishes them or dies; returns how many jobs
// are settled (results reported through emit).
func runOneChild(kind string, jobs []Job, perJob time.Duration, extraEnv []string, emit func(JobResult)) int {
	exe, _ := os.Executable()
	cmd := exec.Command(exe, "-child", kind)
	cmd.Env = append(os.Environ(), extraEnv...)
	stdin, _ := cmd.StdinPipe()
	stdout, _ := cmd.StdoutPipe()
	var stderr bytes.Buffer
	cmd.Stderr = &limitedWriter{w: &stderr, n: 1 << 20}
	if err := cmd.Start(); err != nil {
		for _, j := range jobs {
			emit(JobResult{ID: j.ID, Crashed: true, Detail: "cannot start child: " + err.Error()})
		}
		return len(jobs)
	}
	go func() {
		w := bufio.NewWriter(stdin)
		for _, j := range jobs {
			b, _ := json.Marshal(j)
			w.Write(b)
			w.WriteByte('\n')
			w.Flush()
		}
		stdin.Close()
	}()
	type ev struct {
		begin bool
		id    int
		out   json.RawMessage
		eof   bool
	}
	evs := make(chan ev, 64)
	go func() {
		rd := bufio.NewReaderSize(stdout, 1<<20)
		for {
			line, err := rd.ReadString('\n')
			line = strings.TrimRight(line, "\n")
			if strings.HasPrefix(line, "B ") {
				var id int
				fmt.Sscanf(line, "B %d", &id)
				evs <- ev{begin: true, id: id}
			} else if strings.HasPrefix(line, "E ") {
				var id int
				fmt.Sscanf(line, "E %d", &id)
				rest := line[2:]
				if k := strings.IndexByte(rest, ' '); k >= 0 {
					evs <- ev{id: id, out: json.RawMessage(rest[k+1:])}
				}
			}
			if err != nil {
				evs <- ev{eof: true}
				return
			}
		}
	}()
	settled := 0
	current := -1
	timer := time.NewTimer(perJob + 30*time.Second)
	defer timer.Stop()
	for {
		select {
		case e := <-evs:
			switch {
			case e.eof:
				cmd.Wait()
				if settled < len(jobs) {
					// died while running jobs[settled] (or before starting it)
					d, s := crashSite(stderr.String())
					emit(JobResult{ID: jobs[settled].ID, Crashed: true, Detail: d, Site: s})
					settled++
				}
				return settled
			case e.begin:
				current = e.id
				if !timer.Stop() {
					select {
					case <-timer.C:
					default:
					}
				}
				timer.Reset(perJob)
			default:
				emit(JobResult{ID: e.id, Out: e.out})
				settled++
				_ = current
			}
		case <-timer.C:
			cmd.Process.Kill()
			cmd.Wait()
			if settled < len(jobs) {
				emit(JobResult{ID: jobs[settled].ID, Hung: true, Detail: fmt.Sprintf("no result within %s", perJob)})
				settled++
			}
			return settled
		}
	}
}

type limitedWriter struct {
	w io.Writer
	n int
}

func (l *limitedWriter) Write(p []byte) (int, error) {
	if l.n > 0 {
		k := len(p)
		if k > l.n {
			k = l.n
		}
		l.w.Write(p[:k])
		l.n -= k
	}
	return len(p), nil
}
