#!/bin/bash
# usage: verify_seed.sh <seed-worktree> "<go test package patterns>"
# confirms: builds; existing tests pass with change; demo fails with change; demo passes without.
export GOFLAGS=-mod=mod GOPROXY=off
wt=$1; pk=$2
cd $wt || exit 2
echo "== patch"; cat SEED/patch.diff | head -60
# normalise: make sure worktree == HEAD + patch, no demo files
git checkout -q -- . ; git clean -fdq -e SEED
git apply SEED/patch.diff || { echo "PATCH DOES NOT APPLY"; exit 1; }
echo "== build"; go build ./... && echo BUILD-OK
echo "== existing tests with change"; go test -vet=off -count=1 $pk 2>&1 | tail -15
echo "== demo WITH change (must fail)"; cat SEED/demo/run.sh; bash SEED/demo/run.sh 2>&1 | tail -15; echo "exit=$?"
git checkout -q -- . ; git clean -fdq -e SEED
echo "== demo WITHOUT change (must pass)"; bash SEED/demo/run.sh 2>&1 | tail -8
git checkout -q -- . ; git clean -fdq -e SEED
git apply SEED/patch.diff   # leave the worktree = HEAD + patch for VERIF_REPO runs
