// race: N exec requests of ONE grant session at the same time.
//
// hopSession.start serves every exec tube on its own goroutine (`go sess.startCodex(..)`); each
// of them calls checkCmd, which matches and consumes a grant of the shared slice
// sess.authorizedActions. This class calls the real checkCmd of one session object from N
// goroutines released together, with the scripted clock (thunks.TimeNow, called by checkCmd
// between reading an entry and deleting it) used as the yield point: in "rendezvous" mode the
// first N clock reads wait for each other (bounded spin), so that without the session's
// actionsLock all requests sit between "entry read" and "slices.Delete" at the same moment.
//
// Specification oracle (from the property text; independent of the model): no goroutine panics;
// every started request names (by PrincipalID) a grant of the session that is live at the clock
// value and matches it (type, identical command); no grant starts two requests; what is left in
// the session is exactly the grants nobody used. The Coq side (c07_race_ok) accepts the outcome
// iff some order of the requests through the locked interleaving model produces exactly it.
package main

import (
	"fmt"
	"runtime"
	"strings"
	"sync"
	"sync/atomic"
	"time"

	"hop.computer/hop/authgrants"
	"hop.computer/hop/pkg/thunks"

	"verifharness/hv"
	ax "verifharness/hvxauthz"
)

type raceReq struct {
	Cmd   string
	Shell bool
}

type raceSpec struct {
	Grants []ax.GView
	Reqs   []raceReq
	Now    int64
	Mode   int // 0 rendezvous in the clock read, 1 Gosched in the clock read, 2 nothing
	Procs  int
}

type raceOut struct {
	ok       bool
	prin     uint32
	panicked bool
	msg      string
}

func liveMatch(g ax.GView, q raceReq, now int64) bool {
	if !(g.Start <= now && now < g.Exp) {
		return false
	}
	if q.Shell {
		return g.Type == 1
	}
	return g.Type == 2 && g.Cmd == q.Cmd
}

func genRace(r *hv.Rand, class string) raceSpec {
	cmdset := []string{"ls", "id", "ls -l", ""}
	k := 1 + r.Intn(4)
	if class == "race-one-grant" {
		k = 1
	}
	now := int64(50)
	s := raceSpec{Now: now, Mode: hv.Pick(r, []int{0, 0, 0, 1, 2}), Procs: hv.Pick(r, []int{1, 2, 4, 8})}
	for j := 0; j < k; j++ {
		g := ax.GView{Type: byte(hv.Pick(r, []int{2, 2, 2, 2, 2, 2, 1, 1, 5, 3})), Start: 0, Exp: 100, Prin: uint32(100 + j)}
		switch r.Intn(10) {
		case 0:
			g.Start, g.Exp = 51, 100 // not yet effective
		case 1:
			g.Start, g.Exp = 0, 50 // expires at this instant
		}
		if g.Type == 2 {
			g.Cmd = hv.Pick(r, cmdset)
		}
		s.Grants = append(s.Grants, g)
	}
	n := 2 + r.Intn(4)
	aimAll := r.Chance(70)
	target := hv.Pick(r, s.Grants)
	for i := 0; i < n; i++ {
		t := target
		if !aimAll {
			t = hv.Pick(r, s.Grants)
		}
		q := raceReq{Cmd: t.Cmd, Shell: t.Type == 1}
		if t.Type != 1 && t.Type != 2 {
			q.Cmd = hv.Pick(r, cmdset)
		}
		if r.Chance(8) {
			q.Cmd += "x"
		}
		if r.Chance(5) {
			q.Shell = !q.Shell
		}
		s.Reqs = append(s.Reqs, q)
	}
	return s
}

func goGrant(g ax.GView) authgrants.Authgrant {
	return authgrants.Authgrant{
		GrantType:      authgrants.GrantType(g.Type),
		StartTime:      time.Unix(g.Start, 0),
		ExpTime:        time.Unix(g.Exp, 0),
		AssociatedData: authgrants.GrantData{CommandGrantData: authgrants.CommandGrantData{Cmd: g.Cmd}},
		PrincipalID:    authgrants.PrincipalID(g.Prin),
	}
}

// runRace executes the requests concurrently on the real code.
func runRace(w *ax.World, s raceSpec) (outs []raceOut, remaining []ax.GView) {
	n := len(s.Reqs)
	var ags []authgrants.Authgrant
	for _, g := range s.Grants {
		ags = append(ags, goGrant(g))
	}
	sess := w.Srv.VerifBareSession("alice", true, ags)
	oldNow := thunks.TimeNow
	oldProcs := runtime.GOMAXPROCS(s.Procs)
	defer func() { thunks.TimeNow = oldNow; runtime.GOMAXPROCS(oldProcs) }()
	var arrived int32
	thunks.TimeNow = func() time.Time {
		switch s.Mode {
		case 0:
			if c := atomic.AddInt32(&arrived, 1); c <= int32(n) {
				for spin := 0; spin < 400 && atomic.LoadInt32(&arrived) < int32(n); spin++ {
					runtime.Gosched()
				}
			}
		case 1:
			runtime.Gosched()
		}
		return time.Unix(s.Now, 0)
	}
	outs = make([]raceOut, n)
	start := make(chan struct{})
	var wg sync.WaitGroup
	for i := 0; i < n; i++ {
		wg.Add(1)
		go func(i int) {
			defer wg.Done()
			defer func() {
				if e := recover(); e != nil {
					outs[i].panicked = true
					outs[i].msg = fmt.Sprint(e)
				}
			}()
			<-start
			id, err := sess.CheckCmd(s.Reqs[i].Cmd, s.Reqs[i].Shell)
			outs[i].ok = err == nil
			outs[i].prin = id
		}(i)
	}
	close(start)
	wg.Wait()
	_, _, left := sess.State()
	for _, a := range left {
		remaining = append(remaining, ax.GViewOf(a))
	}
	return
}

func judgeRace(s raceSpec, outs []raceOut, remaining []ax.GView) ax.Verdict {
	for i, o := range outs {
		if o.panicked {
			return ax.Verdict{Sig: "C07:concurrent-exec-panic", What: fmt.Sprintf("request %d (%q shell=%v) panicked inside checkCmd: %s", i, s.Reqs[i].Cmd, s.Reqs[i].Shell, o.msg)}
		}
	}
	usedBy := map[int]int{}
	for i, o := range outs {
		if !o.ok {
			continue
		}
		j := int(o.prin) - 100
		if j < 0 || j >= len(s.Grants) || !liveMatch(s.Grants[j], s.Reqs[i], s.Now) {
			return ax.Verdict{Sig: "C07:exec-started-without-live-matching-grant", What: fmt.Sprintf("request %d (%q shell=%v at t=%d) was started under principal id %d, which names no live matching grant of the session", i, s.Reqs[i].Cmd, s.Reqs[i].Shell, s.Now, o.prin)}
		}
		if i0, dup := usedBy[j]; dup {
			return ax.Verdict{Sig: "C07:concurrent-exec-requests-share-one-grant", What: fmt.Sprintf("requests %d and %d were both started under grant %d %s", i0, i, j, s.Grants[j])}
		}
		usedBy[j] = i
	}
	var want []ax.GView
	for j, g := range s.Grants {
		if _, u := usedBy[j]; !u {
			want = append(want, g)
		}
	}
	same := len(want) == len(remaining)
	for j := 0; same && j < len(want); j++ {
		same = want[j] == remaining[j]
	}
	if !same {
		return ax.Verdict{Sig: "C07:grant-lost-or-kept-after-concurrent-exec", What: fmt.Sprintf("after the requests the session holds %v, the unused grants are %v", remaining, want)}
	}
	return ax.Verdict{OK: true}
}

func raceCoq(s raceSpec, outs []raceOut, remaining []ax.GView) string {
	gv := func(gs []ax.GView) string {
		xs := make([]string, len(gs))
		for i, g := range gs {
			xs[i] = hv.Tuple(hv.Ni(int(g.Type)), hv.Z(g.Start), hv.Z(g.Exp), hv.Str(g.Cmd), hv.N(uint64(g.Prin)))
		}
		return hv.List(xs)
	}
	var rq, res []string
	pan := false
	for i, q := range s.Reqs {
		rq = append(rq, hv.Tuple(hv.Str(q.Cmd), hv.B(q.Shell)))
		switch {
		case outs[i].panicked:
			pan = true
			res = append(res, "None")
		case outs[i].ok:
			res = append(res, hv.Some(hv.N(uint64(outs[i].prin))))
		default:
			res = append(res, "None")
		}
	}
	return "(" + hv.Tuple(gv(s.Grants), hv.List(rq), hv.Z(s.Now), hv.List(res), gv(remaining), hv.B(pan)) + " : race_case)"
}

func raceDesc(s raceSpec) string {
	var gs, qs []string
	for _, g := range s.Grants {
		gs = append(gs, g.String())
	}
	for _, q := range s.Reqs {
		qs = append(qs, fmt.Sprintf("exec(%q shell=%v)", q.Cmd, q.Shell))
	}
	mode := []string{"rendezvous-in-TimeNow", "Gosched-in-TimeNow", "free-running"}[s.Mode]
	return fmt.Sprintf("session grants [%s] ; %d goroutines at t=%d: %s ; %s GOMAXPROCS=%d",
		strings.Join(gs, " "), len(s.Reqs), s.Now, strings.Join(qs, " || "), mode, s.Procs)
}

// race runs one spec `reps` times (schedules differ from run to run); the first run whose outcome
// fails the oracle is the one reported, otherwise the last.
func race(pool [][32]byte, class string, s raceSpec, reps int) {
	w := ax.NewWorld(pool)
	defer w.Close()
	var outs []raceOut
	var rem []ax.GView
	verd := ax.Verdict{OK: true}
	for k := 0; k < reps; k++ {
		outs, rem = runRace(w, s)
		if verd = judgeRace(s, outs, rem); !verd.OK {
			break
		}
	}
	// non-trivial: at least two requests compete for one live grant
	nt := false
	for _, g := range s.Grants {
		c := 0
		for _, q := range s.Reqs {
			if liveMatch(g, q, s.Now) {
				c++
			}
		}
		nt = nt || c >= 2
	}
	var obs []string
	for i, o := range outs {
		switch {
		case o.panicked:
			obs = append(obs, fmt.Sprintf("%d:panic", i))
		case o.ok:
			obs = append(obs, fmt.Sprintf("%d:started(grant %d)", i, int(o.prin)-100))
		default:
			obs = append(obs, fmt.Sprintf("%d:refused", i))
		}
	}
	d := raceDesc(s)
	hv.Emit(hv.Case{Fn: "c07_race_ok", Coq: raceCoq(s, outs, rem), Class: class, Desc: d,
		Spec: verd.OK, Sig: verd.Sig, What: verd.What, NT: nt,
		Replay: map[string]interface{}{"race": d, "observed": strings.Join(obs, " "), "left": fmt.Sprint(rem)}})
}

// raceCases: the two fixed regression specs of the repaired defect, then generated ones.
func raceCases(r *hv.Rand, pool [][32]byte) []func() {
	var cases []func()
	ls := ax.GView{Type: 2, Start: 0, Exp: 100, Cmd: "ls", Prin: 100}
	id := ax.GView{Type: 2, Start: 0, Exp: 100, Cmd: "id", Prin: 101}
	q := raceReq{Cmd: "ls"}
	// one `ls` grant, four simultaneous `ls` requests: before the lock, all four read entry 0,
	// then one Delete succeeded and the others hit `slice bounds out of range [:1] with capacity 0`
	// (or two passed the bounds check together and both were started)
	for _, procs := range []int{1, 4} {
		s := raceSpec{Grants: []ax.GView{ls}, Reqs: []raceReq{q, q, q, q}, Now: 50, Mode: 0, Procs: procs}
		cases = append(cases, func() { race(pool, "regression-concurrent-exec", s, hv.Scale(20, 200)) })
	}
	// two grants [ls, id], two `ls` requests: before the lock both were started under the `ls`
	// grant and the second Delete(0) threw the unused `id` grant away
	for _, procs := range []int{1, 4} {
		s := raceSpec{Grants: []ax.GView{ls, id}, Reqs: []raceReq{q, q}, Now: 50, Mode: 0, Procs: procs}
		cases = append(cases, func() { race(pool, "regression-concurrent-exec", s, hv.Scale(20, 200)) })
	}
	n := hv.Scale(260, 4000)
	for i := 0; i < n; i++ {
		seed := r.U64()
		class := hv.Pick(r, []string{"race", "race", "race", "race-one-grant"})
		cases = append(cases, func() { race(pool, class, genRace(hv.NewRand(seed), class), hv.Scale(3, 10)) })
	}
	return cases
}
