// c03: transport channel correspondence driver (see harness/hvxpacket).
package main

import "verifharness/hvxpacket"

func main() { hvxpacket.Run("C03") }
