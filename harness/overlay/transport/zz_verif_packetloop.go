//go:build verif

// White-box access for the receive-loop correspondence classes of the C03/C15 drivers (harness/hvxpacket/loop.go).
// Add-only. Nothing here processes a datagram: the real Serve goroutine / the real listen goroutine do.
package transport

import "errors"

// VerifLoopServer is NewServer(conn, cfg) with the given sessions put into the session table, as
// finishHandshake leaves them. The caller runs the real Serve().
func VerifLoopServer(conn UDPLike, hs ...*Handle) (*Server, error) {
	noCert := func(ClientHandshakeInfo) (*Certificate, error) { return nil, errors.New("verif: no certificate") }
	s, err := NewServer(conn, ServerConfig{
		GetCertificate: noCert,
		GetCertList:    func() ([]*Certificate, error) { return nil, nil },
	})
	if err != nil {
		return nil, err
	}
	s.m.Lock()
	for _, h := range hs {
		s.sessions[h.ss.sessionID] = h.ss
	}
	s.m.Unlock()
	return s, nil
}

// VerifTableSizes returns the sizes of the handshake and session tables.
func (s *Server) VerifTableSizes() (handshakes, sessions int) {
	s.m.RLock()
	defer s.m.RUnlock()
	return len(s.handshakes), len(s.sessions)
}

// VerifLoopClient returns an open Client owning the given session with the real listen loop running, as
// clientHandshakeLocked leaves it (wg.Add(1); state = open; go c.listen()).
func VerifLoopClient(conn UDPLike, h *Handle) *Client {
	c := VerifNewClient(conn, h)
	c.wg.Add(1)
	go c.listen()
	return c
}

// VerifSizeConstants: the package's size constants, for comparison with the model's.
func VerifSizeConstants() []int {
	return []int{MaxTotalPacketSize, MaxPlaintextSize, HeaderLen, SessionIDLen, CounterLen, MacLen, TagLen, AssociatedDataLen}
}
