//go:build verif

package tubes

// White-box access to Reliable.sendOneFrame (acknowledgement suppression) for the C08 driver: a bare Reliable
// whose two muxer queues are channels owned by the driver.  No goroutine runs; every call is the real
// sendOneFrame.

// VerifSendOne is the rig.
type VerifSendOne struct {
	r          *Reliable
	outN, outP chan []byte
}

// VerifNewSendOne builds the rig (lastAckSent = lastFrameSent = 0, unsend = 0, as makeReliableTubeWithID leaves them).
func VerifNewSendOne(id byte) *VerifSendOne {
	log := verifLog()
	v := &VerifSendOne{outN: make(chan []byte, 4), outP: make(chan []byte, 4)}
	v.r = &Reliable{
		id:                id,
		recvWindow:        newReceiver(log),
		sendQueue:         v.outN,
		prioritySendQueue: v.outP,
		log:               log,
	}
	return v
}

// VerifSendOneResult is what one call did.
type VerifSendOneResult struct {
	Sent, Prio       bool
	Raw              []byte // the datagram handed to the muxer queue
	FrameNo, AckNo   uint32
	ACK, FIN, RESP   bool
	REL              bool
	TubeID           byte
	Data             []byte
	LastAck, LastFno uint32
	Unsend           uint16
}

// Call sets the receive window's ackNo to recvAck (what getAck() will return, truncated to 32 bits) and runs
// the real sendOneFrame on a frame with the given fields.
func (v *VerifSendOne) Call(recvAck uint64, frameNo uint32, data []byte, ack, fin, resp, retransmission bool) VerifSendOneResult {
	v.r.recvWindow.m.Lock()
	v.r.recvWindow.ackNo = recvAck
	v.r.recvWindow.m.Unlock()
	pkt := &frame{frameNo: frameNo, data: data, dataLength: uint16(len(data)), flags: frameFlags{ACK: ack, FIN: fin, RESP: resp}}
	v.r.sendOneFrame(pkt, retransmission)
	res := VerifSendOneResult{LastAck: v.r.lastAckSent.Load(), LastFno: v.r.lastFrameSent.Load(), Unsend: v.r.unsend}
	var raw []byte
	select {
	case raw = <-v.outN:
		res.Sent = true
	case raw = <-v.outP:
		res.Sent, res.Prio = true, true
	default:
	}
	if res.Sent {
		res.Raw = raw
		if f, err := fromBytes(raw); err == nil {
			res.FrameNo, res.AckNo = f.frameNo, f.ackNo
			res.ACK, res.FIN, res.RESP, res.REL = f.flags.ACK, f.flags.FIN, f.flags.RESP, f.flags.REL
			res.TubeID = f.tubeID
			res.Data = append([]byte(nil), f.data...)
		}
	}
	return res
}

// VerifWindowAfterAck: a fresh sender put into AIMD with cwndSize = cwnd (white-box injection of the float64
// congestion window), one 10-byte frame written and acknowledged by the real recvAck (a frame of at most 1000
// bytes does not change cwndSize, so recvAck only applies its clamp and the uint16 conversion), then two more
// frames written.  Returns windowSize, and what framesToSend answers for the timer case and for new data.
func VerifWindowAfterAck(cwnd float64) (window uint16, rtoFrames, newFrames int, ackErr bool) {
	s := newSender(verifLog())
	defer s.RetransmitTicker.Stop()
	s.senderWindow.state = AIMD
	s.senderWindow.cwndSize = cwnd
	s.write(make([]byte, 10))
	_, err := s.recvAck(2)
	s.write(make([]byte, 10))
	s.write(make([]byte, 10))
	return s.senderWindow.windowSize, s.framesToSend(true, 0), s.framesToSend(false, 0), err != nil
}
