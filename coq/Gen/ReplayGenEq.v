(* ReplayGenEq.v — the Gallina code that tools/go2gallina generates from transport/replay.go
   (Hop.ReplayGen, regenerated from $VERIF_REPO on every run of ./check C14 and compiled in the run's
   work directory) computes the same function as the hand-written model Model/Replay.v, for all inputs.
   Not part of the main `make` (it depends on the generated file); compiled by check's "regen" step.
   Proof style: rewriting with small lemmas about the GoSem primitives and case analysis on the
   conditions in the order the code tests them; nothing depends on variable names or on the exact
   shape of the generated let-chains. *)
From Hop Require Import Base GoSem Replay ReplayProofs ReplayGenRun.
From Hop Require ReplayGen.
From Coq Require Import ZifyN ZifyNat ZifyBool.
Ltac Zify.zify_post_hook ::= Z.div_mod_to_equations.
Open Scope N_scope.


Arguments N.mul : simpl never.
Arguments N.add : simpl never.
Arguments N.sub : simpl never.
Arguments N.pow : simpl never.
Arguments N.div : simpl never.
Arguments N.modulo : simpl never.
Arguments N.shiftl : simpl never.
Arguments N.shiftr : simpl never.
Arguments N.land : simpl never.
Arguments N.lor : simpl never.
Arguments N.ltb : simpl never.
Arguments N.to_nat : simpl never.
Arguments N.of_nat : simpl never.

Definition of_gen (g : G.SlidingWindow) : win :=
  {| blocks := G.SlidingWindow_blocks g; wt := G.SlidingWindow_wt g |}.
Definition to_gen (s : win) : G.SlidingWindow := G.mkSlidingWindow (blocks s) (wt s).

Lemma of_to s : of_gen (to_gen s) = s. Proof. now destruct s. Qed.
Lemma to_of g : to_gen (of_gen g) = g. Proof. now destruct g. Qed.

(* ---------- the GoSem primitives on in-range arguments are the operations of the hand model ---------- *)
Lemma lupd_upd l i v : lupd l i v = upd l i v.
Proof. revert i; induction l as [|x r IH]; intros [|i]; simpl; auto; now rewrite IH. Qed.

Lemma aget_get l i : i < N.of_nat (length l) -> aget l i = Ok (get l i).
Proof. intros H. unfold aget, get. apply N.ltb_lt in H. now rewrite H. Qed.

Lemma aset_set l i v : i < N.of_nat (length l) -> aset l i v = Ok (set l i v).
Proof. intros H. unfold aset, set. apply N.ltb_lt in H. now rewrite H, lupd_upd. Qed.

Lemma land7_lt x : N.land x 7 < 8.
Proof. change 7 with index_mask. rewrite land7. apply N.mod_lt. lia. Qed.

Lemma land63_lt x : N.land x 63 < 64.
Proof. change 63 with location_mask. rewrite land63. apply N.mod_lt. lia. Qed.

Lemma shl1_small b : b < 64 -> u64_shl 1 b = N.shiftl 1 b.
Proof.
  intros H. unfold u64_shl. apply N.mod_small. rewrite N.shiftl_1_l.
  unfold w64. apply N.pow_lt_mono_r; lia.
Qed.

Lemma gadd_eq a b : GoSem.u64_add a b = Replay.u64_add a b.
Proof. reflexivity. Qed.

Lemma gadd_small a b : a + b < w64 -> GoSem.u64_add a b = a + b.
Proof. intros H. unfold GoSem.u64_add. now apply N.mod_small. Qed.

Lemma gsub_small a b : b <= a -> a < w64 -> u64_sub a b = a - b.
Proof.
  intros H1 H2. unfold u64_sub. replace (a + w64 - b) with ((a - b) + 1 * w64) by lia.
  rewrite N.mod_add by (unfold w64; lia). apply N.mod_small. lia.
Qed.

Lemma w64_val : w64 = 18446744073709551616. Proof. reflexivity. Qed.

Lemma shr6_mono a b : a <= b -> N.shiftr a 6 <= N.shiftr b 6.
Proof. intros H. change 6 with location_bits. rewrite !shr6. apply N.div_le_mono; lia. Qed.

Lemma shr6_lt a : a < w64 -> N.shiftr a 6 < w64.
Proof. intros H. change 6 with location_bits. rewrite shr6. pose proof (N.div_le_upper_bound a 64 a). lia. Qed.

(* ---------- Check ---------- *)
Theorem gen_check_eq : forall g seq,
  G.SlidingWindow_wf g -> G.SlidingWindow_Check g seq = Ok (check (of_gen g) seq).
Proof.
  intros [bl w] seq (Hlen & _ & _). simpl in Hlen.
  unfold G.SlidingWindow_Check, check, of_gen. cbn [G.SlidingWindow_blocks G.SlidingWindow_wt blocks wt].
  destruct (w <? seq); [reflexivity|].
  rewrite gadd_eq. change 448 with window_size.
  destruct (Replay.u64_add seq window_size <? w); [reflexivity|].
  rewrite aget_get by (rewrite Hlen; apply land7_lt).
  rewrite shl1_small by apply land63_lt.
  reflexivity.
Qed.

(* ---------- Mark: the clearing loop ---------- *)
(* the generated loop re-tests i < diff on every iteration and counts fuel down; the hand model's
   clear_loop recurses on the trip count.  With enough fuel they agree. *)
Lemma gen_loop_eq : forall n bl cur diff i,
  length bl = 8%nat -> i + N.of_nat n = diff -> diff <= 8 ->
  G.SlidingWindow_Mark_loop1 (S n) bl cur diff i = Ok (LNext (clear_loop bl cur i n, diff)).
Proof.
  induction n as [|n IH]; intros bl cur diff i Hlen Hn Hd.
  - cbn [G.SlidingWindow_Mark_loop1 clear_loop].
    replace (i <? diff) with false by (symmetry; apply N.ltb_ge; lia).
    repeat f_equal; lia.
  - cbn [G.SlidingWindow_Mark_loop1 clear_loop].
    replace (i <? diff) with true by (symmetry; apply N.ltb_lt; lia).
    rewrite aset_set by (rewrite Hlen; apply land7_lt).
    cbn [bind].
    rewrite (gadd_small i 1) by (rewrite w64_val; lia).
    rewrite !gadd_eq. change 7 with index_mask.
    apply IH; [now rewrite set_length|lia|lia].
Qed.

(* ---------- Mark ---------- *)
Theorem gen_mark_eq : forall g seq,
  G.SlidingWindow_wf g -> is_u64 seq ->
  G.SlidingWindow_Mark g seq = Ok (to_gen (mark (of_gen g) seq)).
Proof.
  intros [bl w] seq (Hlen & _ & Hw) Hseq. simpl in Hlen, Hw. unfold is_u64 in *.
  unfold G.SlidingWindow_Mark, mark, of_gen, to_gen.
  cbn [G.SlidingWindow_blocks G.SlidingWindow_wt blocks wt].
  rewrite gadd_eq. change 448 with window_size.
  destruct (Replay.u64_add seq window_size <? w); [reflexivity|].
  change 6 with location_bits. change 7 with index_mask. change 63 with location_mask.
  destruct (w <? seq) eqn:Hlt.
  - apply N.ltb_lt in Hlt.
    rewrite gsub_small by (first [apply shr6_mono; lia|apply shr6_lt; lia]).
    change 8 with num_blocks.
    set (diff := if num_blocks <? _ then num_blocks else _).
    assert (Hd : diff <= 8) by (subst diff; destruct (N.ltb_spec num_blocks (N.shiftr seq location_bits - N.shiftr w location_bits)); unfold num_blocks in *; lia).
    rewrite N.sub_0_r.
    rewrite gen_loop_eq by (auto; lia).
    cbn [bind blocks wt].
    rewrite aget_get by (rewrite clear_loop_length, Hlen; apply land7_lt).
    cbn [bind].
    rewrite aset_set by (rewrite clear_loop_length, Hlen; apply land7_lt).
    rewrite shl1_small by apply land63_lt.
    reflexivity.
  - cbn [bind blocks wt].
    rewrite aget_get by (rewrite Hlen; apply land7_lt).
    cbn [bind].
    rewrite aset_set by (rewrite Hlen; apply land7_lt).
    rewrite shl1_small by apply land63_lt.
    reflexivity.
Qed.

(* ---------- the type invariant is preserved: every value stays a uint64, the array keeps its
   length (so the un-reduced `N.lor` / `N.land` of the generated code never leave the range) ---------- *)
Lemma lor_u64 a b : is_u64 a -> is_u64 b -> is_u64 (N.lor a b).
Proof.
  unfold is_u64, w64. intros Ha Hb.
  destruct (N.eq_dec (N.lor a b) 0) as [->|Hn]; [reflexivity|].
  apply N.log2_lt_pow2; [lia|]. rewrite N.log2_lor. apply N.max_lub_lt.
  - destruct (N.eq_dec a 0) as [->|]; [reflexivity|]. apply N.log2_lt_pow2; lia.
  - destruct (N.eq_dec b 0) as [->|]; [reflexivity|]. apply N.log2_lt_pow2; lia.
Qed.

Lemma Forall_upd (P : N -> Prop) l i v : Forall P l -> P v -> Forall P (upd l i v).
Proof.
  intros Hl Hv. revert i; induction Hl as [|x r Hx Hr IH]; intros [|i]; simpl; auto.
Qed.

Lemma Forall_get (P : N -> Prop) l i : Forall P l -> P 0 -> P (get l i).
Proof.
  intros Hl H0. unfold get. destruct (nth_in_or_default (N.to_nat i) l 0) as [Hin| ->]; auto.
  rewrite Forall_forall in Hl. auto.
Qed.

Lemma clear_loop_u64 bl cur i n : Forall is_u64 bl -> Forall is_u64 (clear_loop bl cur i n).
Proof.
  revert bl i; induction n as [|n IH]; intros bl i H; simpl; auto.
  apply IH. apply Forall_upd; auto. reflexivity.
Qed.

Lemma shl1_u64 b : b < 64 -> is_u64 (N.shiftl 1 b).
Proof. intros H. unfold is_u64, w64. rewrite N.shiftl_1_l. apply N.pow_lt_mono_r; lia. Qed.

Lemma mark_wf : forall s seq,
  G.SlidingWindow_wf (to_gen s) -> is_u64 seq -> G.SlidingWindow_wf (to_gen (mark s seq)).
Proof.
  intros [bl w] seq (Hlen & Hall & Hw) Hseq. unfold to_gen in *. cbn [blocks wt] in *.
  cbn [G.SlidingWindow_blocks G.SlidingWindow_wt] in *.
  unfold mark. cbn [blocks wt].
  destruct (Replay.u64_add seq window_size <? w); [repeat split; auto|].
  destruct (w <? seq); cbn [blocks wt]; unfold G.SlidingWindow_wf; cbn [G.SlidingWindow_blocks G.SlidingWindow_wt];
    repeat split; auto; rewrite ?set_length, ?clear_loop_length; auto;
    apply Forall_upd; auto using clear_loop_u64;
    (apply lor_u64; [apply Forall_get; [auto using clear_loop_u64|reflexivity]|apply shl1_u64; apply land63_lt]).
Qed.

Theorem gen_mark_wf : forall g seq,
  G.SlidingWindow_wf g -> is_u64 seq ->
  exists g', G.SlidingWindow_Mark g seq = Ok g' /\ G.SlidingWindow_wf g'.
Proof.
  intros g seq Hg Hs. eexists. split; [now apply gen_mark_eq|].
  apply mark_wf; auto; now rewrite to_of.
Qed.

Lemma zero_wf : G.SlidingWindow_wf G.SlidingWindow_zero.
Proof. repeat split; simpl; auto. repeat constructor. Qed.

Lemma zero_init : of_gen G.SlidingWindow_zero = win_init.
Proof. reflexivity. Qed.

(* ---------- histories of calls ---------- *)
Lemma lim_u64 x : x < lim -> is_u64 x.
Proof. unfold is_u64. rewrite lim_val, w64_val. lia. Qed.

Lemma gen_marks_eq : forall ms g,
  G.SlidingWindow_wf g -> Forall is_u64 ms ->
  foldM G.SlidingWindow_Mark ms g = Ok (to_gen (fold_left mark ms (of_gen g))) /\
  G.SlidingWindow_wf (to_gen (fold_left mark ms (of_gen g))).
Proof.
  induction ms as [|m r IH]; intros g Hg Hms.
  - simpl. now rewrite to_of.
  - inversion Hms as [|? ? Hm Hr]; subst. cbn [foldM fold_left].
    rewrite gen_mark_eq by auto. cbn [bind].
    assert (Hw : G.SlidingWindow_wf (to_gen (mark (of_gen g) m))) by (apply mark_wf; auto; now rewrite to_of).
    destruct (IH _ Hw Hr) as [E W]. rewrite of_to in E, W. auto.
Qed.

(* Check after any sequence of Mark calls on the zero value, everything run on the generated code *)
Theorem gen_check_fresh : forall ms c,
  Forall (fun x => x < lim) (c :: ms) ->
  exists g, foldM G.SlidingWindow_Mark ms G.SlidingWindow_zero = Ok g /\
            G.SlidingWindow_Check g c = Ok (fresh_b ms c).
Proof.
  intros ms c H. inversion H as [|? ? Hc Hms]; subst.
  destruct (gen_marks_eq ms G.SlidingWindow_zero zero_wf) as [E W].
  { eapply Forall_impl; [|exact Hms]. apply lim_u64. }
  eexists. split; [exact E|].
  rewrite gen_check_eq by exact W. rewrite of_to, zero_init. f_equal. now apply check_fresh.
Qed.

(* the transport's usage on the generated code: Check, Mark iff accepted (ReplayGenRun.gen_run_accept) *)
Lemma gen_run_accept_eq : forall cs g,
  G.SlidingWindow_wf g -> Forall is_u64 cs ->
  gen_run_accept g cs = Ok (run_accept (of_gen g) cs).
Proof.
  induction cs as [|c r IH]; intros g Hg Hcs; [reflexivity|].
  inversion Hcs as [|? ? Hc Hr]; subst. cbn [gen_run_accept run_accept].
  rewrite gen_check_eq by auto. cbn [bind]. unfold accept.
  destruct (check (of_gen g) c).
  - rewrite gen_mark_eq by auto. cbn [bind].
    rewrite IH; [now rewrite of_to|apply mark_wf; auto; now rewrite to_of|auto].
  - cbn [bind]. rewrite IH by auto. reflexivity.
Qed.

Theorem gen_accept_history : forall cs,
  Forall (fun x => x < lim) cs ->
  gen_run_accept G.SlidingWindow_zero cs = Ok (spec_run [] cs).
Proof.
  intros cs H. rewrite gen_run_accept_eq; [|apply zero_wf|eapply Forall_impl; [|exact H]; apply lim_u64].
  rewrite zero_init. f_equal. now apply run_accept_spec.
Qed.

(* arbitrary Mark / Check programs and the receive path with forged datagrams, on the generated code *)
Lemma gen_run_ops_eq : forall ops g,
  G.SlidingWindow_wf g -> ops_lt ops ->
  gen_run_ops g ops = Ok (run_ops (of_gen g) ops).
Proof.
  induction ops as [|[c|c] r IH]; intros g Hg Hops; [reflexivity| |]; destruct Hops as [Hc Hr];
    cbn [gen_run_ops run_ops].
  - rewrite gen_mark_eq by auto using lim_u64. cbn [bind].
    rewrite IH; [now rewrite of_to|apply mark_wf; auto using lim_u64; now rewrite to_of|auto].
  - rewrite gen_check_eq by auto. cbn [bind]. rewrite IH by auto. reflexivity.
Qed.

Theorem gen_ops_history : forall ops, ops_lt ops ->
  gen_run_ops G.SlidingWindow_zero ops = Ok (spec_ops [] ops).
Proof.
  intros ops H. rewrite gen_run_ops_eq by (auto using zero_wf). rewrite zero_init. f_equal.
  now apply run_ops_spec.
Qed.

Lemma gen_run_through_eq : forall l g,
  G.SlidingWindow_wf g -> Forall (fun p => is_u64 (fst p)) l ->
  gen_run_through g l = Ok (run_through (of_gen g) l).
Proof.
  induction l as [|[c [|]] r IH]; intros g Hg Hl; [reflexivity| |];
    inversion Hl as [|? ? Hc Hr]; subst; cbn [gen_run_through run_through fst] in *.
  - rewrite gen_check_eq by auto. cbn [bind]. unfold accept.
    destruct (check (of_gen g) c).
    + rewrite gen_mark_eq by auto. cbn [bind].
      rewrite IH; [now rewrite of_to|apply mark_wf; auto; now rewrite to_of|auto].
    + cbn [bind]. rewrite IH by auto. reflexivity.
  - rewrite IH by auto. reflexivity.
Qed.

Theorem gen_receive_path_history : forall l,
  Forall (fun p => fst p < lim) l ->
  gen_run_through G.SlidingWindow_zero l = Ok (spec_through [] l).
Proof.
  intros l H. rewrite gen_run_through_eq; [|apply zero_wf|eapply Forall_impl; [|exact H]; intros; now apply lim_u64].
  rewrite zero_init. f_equal. now apply run_through_spec.
Qed.
