package hsx

import (
	"bytes"
	"crypto/rand"
	"time"

	"hop.computer/hop/authkeys"
	"hop.computer/hop/certs"
	"hop.computer/hop/keys"
	"hop.computer/hop/transport"
)

// Ident is one party's credential: certificate chain plus the keys it actually holds.
type Ident struct {
	Label string
	Key   *keys.X25519KeyPair // the static key the party holds (may differ from the certified one)
	Leaf  *certs.Certificate
	Inter *certs.Certificate
	KEM   *keys.KEMKeyPair
	// Honest: the identity is entitled to pass a store policy for Name and holds the certified key.
	HoldsKey bool
}

type PKI struct {
	Root, Inter   *certs.Certificate
	Root2, Inter2 *certs.Certificate // a second, untrusted hierarchy
}

func must[T any](v T, err error) T {
	if err != nil {
		panic(err)
	}
	return v
}

func newCA(label string) (root, inter *certs.Certificate) {
	rk := keys.GenerateNewSigningKeyPair()
	ik := keys.GenerateNewSigningKeyPair()
	root = must(certs.SelfSignRoot(&certs.Identity{PublicKey: rk.Public, Names: []certs.Name{certs.RawStringName(label + "-root")}}, rk))
	root.ProvideKey((*[32]byte)(&rk.Private))
	inter = must(certs.IssueIntermediate(root, &certs.Identity{PublicKey: ik.Public, Names: []certs.Name{certs.RawStringName(label + "-inter")}}))
	inter.ProvideKey((*[32]byte)(&ik.Private))
	return
}

func NewPKI() *PKI {
	p := &PKI{}
	p.Root, p.Inter = newCA("ca")
	p.Root2, p.Inter2 = newCA("evil")
	return p
}

func (p *PKI) Store() certs.Store {
	s := certs.Store{}
	s.AddCertificate(p.Root)
	return s
}

// Issue returns an honest identity for name under the trusted hierarchy.
func (p *PKI) Issue(label, name string) *Ident {
	k := keys.GenerateNewX25519KeyPair()
	leaf := must(certs.IssueLeaf(p.Inter, &certs.Identity{PublicKey: k.Public, Names: []certs.Name{certs.RawStringName(name)}}))
	return &Ident{Label: label, Key: k, Leaf: leaf, Inter: p.Inter, KEM: must(keys.GenerateKEMKeyPair(rand.Reader)), HoldsKey: true}
}

// IssueNamed: an identity under the trusted hierarchy whose leaf carries exactly these names.
func (p *PKI) IssueNamed(label string, names ...certs.Name) *Ident {
	k := keys.GenerateNewX25519KeyPair()
	leaf := must(certs.IssueLeaf(p.Inter, &certs.Identity{PublicKey: k.Public, Names: names}))
	return &Ident{Label: label, Key: k, Leaf: leaf, Inter: p.Inter, KEM: must(keys.GenerateKEMKeyPair(rand.Reader)), HoldsKey: true}
}

// specNameOK: does the leaf carry the expected name? Written from the certificate format (an
// identifier is a type and a label; both must agree, byte for byte), not from Certificate.MatchesName.
func specNameOK(leaf *certs.Certificate, name certs.Name) bool {
	if len(name.Label) == 0 && name.Type == 0 {
		return true // no name expected
	}
	if leaf.Type != certs.Leaf {
		return false
	}
	for _, b := range leaf.IDChunk.Blocks {
		if b.Type == name.Type && bytes.Equal(b.Label, name.Label) {
			return true
		}
	}
	return false
}

// The bad identities of the property text. victim is an honest identity for the expected name.
func (p *PKI) OtherKey(victim *Ident) *Ident { // valid certificate, but the party holds another key
	return &Ident{Label: "valid-cert-other-key", Key: keys.GenerateNewX25519KeyPair(), Leaf: victim.Leaf, Inter: victim.Inter, KEM: victim.KEM}
}
func (p *PKI) OtherName(name string) *Ident {
	i := p.Issue("own-key-cert-for-other-name", name+".other")
	return i
}
func (p *PKI) WrongType() *Ident { // an intermediate certificate presented as a leaf
	k := keys.GenerateNewX25519KeyPair()
	return &Ident{Label: "own-key-wrong-type", Key: k, Leaf: p.Inter, Inter: p.Inter, KEM: must(keys.GenerateKEMKeyPair(rand.Reader)), HoldsKey: false}
}
func (p *PKI) Untrusted(name string) *Ident {
	k := keys.GenerateNewX25519KeyPair()
	leaf := must(certs.IssueLeaf(p.Inter2, &certs.Identity{PublicKey: k.Public, Names: []certs.Name{certs.RawStringName(name)}}))
	return &Ident{Label: "own-key-untrusted-root", Key: k, Leaf: leaf, Inter: p.Inter2, KEM: must(keys.GenerateKEMKeyPair(rand.Reader)), HoldsKey: true}
}
func (p *PKI) SelfSigned(name string) *Ident {
	k := keys.GenerateNewX25519KeyPair()
	leaf := must(certs.SelfSignLeaf(&certs.Identity{PublicKey: k.Public, Names: []certs.Name{certs.RawStringName(name)}}))
	return &Ident{Label: "own-key-self-signed", Key: k, Leaf: leaf, KEM: must(keys.GenerateKEMKeyPair(rand.Reader)), HoldsKey: true}
}

// Policy names of the property text.
const (
	PolStore    = "store"
	PolAuthKeys = "authkeys"
	PolBoth     = "both"
	PolSkip     = "skip"
)

var Policies = []string{PolStore, PolAuthKeys, PolBoth, PolSkip}

// Verify builds a VerifyConfig for a policy. authorized lists the keys in the authorized set.
// expired shifts the verifier's clock past the leaf validity (one week).
func (p *PKI) Verify(policy, name string, authorized []*Ident, expired bool) *transport.VerifyConfig {
	var n certs.Name
	if name != "" {
		n = certs.RawStringName(name)
	}
	return p.VerifyName(policy, n, authorized, expired)
}

// VerifyName: as Verify, for an expected name of any type.
func (p *PKI) VerifyName(policy string, name certs.Name, authorized []*Ident, expired bool) *transport.VerifyConfig {
	v := &transport.VerifyConfig{}
	v.Name = name
	switch policy {
	case PolStore:
		v.Store = p.Store()
	case PolAuthKeys:
		v.AuthKeysAllowed = true
		v.Store = certs.Store{}
	case PolBoth:
		v.AuthKeysAllowed = true
		v.Store = p.Store()
	case PolSkip:
		v.InsecureSkipVerify = true
	}
	v.AuthKeys = authkeys.NewSyncAuthKeySet()
	for _, a := range authorized {
		v.AuthKeys.AddKey(a.Leaf.PublicKey)
	}
	if expired {
		v.CurrentTime = time.Now().Add(8 * 24 * time.Hour)
	}
	return v
}

// SpecAccepts is the specification of the four policies, written from the property text and
// the VerifyConfig documentation (not from certificateParserAndVerifier): may a party that
// presents id be accepted under policy for name?
//   store:    chain to a trusted root, right type, name matches, inside validity
//   authkeys: leaf-typed, name matches, certified key in the authorized set
//   both:     either
//   skip:     any well-formed certificate
func (p *PKI) SpecAccepts(policy, name string, id *Ident, authorized []*Ident, expired bool) bool {
	var n certs.Name
	if name != "" {
		n = certs.RawStringName(name)
	}
	return p.SpecAcceptsName(policy, n, id, authorized, expired)
}

func (p *PKI) SpecAcceptsName(policy string, name certs.Name, id *Ident, authorized []*Ident, expired bool) bool {
	isLeaf := id.Leaf.Type == certs.Leaf
	nameOK := specNameOK(id.Leaf, name)
	chains := isLeaf && id.Inter != nil && id.Inter == p.Inter && id.Leaf.Parent == p.Inter.Fingerprint
	storeOK := chains && nameOK && !expired
	inSet := false
	for _, a := range authorized {
		if a.Leaf.PublicKey == id.Leaf.PublicKey {
			inSet = true
		}
	}
	akOK := isLeaf && nameOK && inSet
	switch policy {
	case PolStore:
		return storeOK
	case PolAuthKeys:
		return akOK
	case PolBoth:
		return storeOK || akOK
	case PolSkip:
		return true
	}
	return false
}

func (id *Ident) ClientConfig(v *transport.VerifyConfig) transport.ClientConfig {
	return transport.ClientConfig{Exchanger: id.Key, Verify: *v, Leaf: id.Leaf, Intermediate: id.Inter}
}
