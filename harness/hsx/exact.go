package hsx

import (
	"bytes"
	"fmt"
	"time"

	"hop.computer/hop/transport"
	"verifharness/hv"
)

func hexList(xs ...[]byte) string {
	ss := make([]string, len(xs))
	for i, x := range xs {
		ss[i] = hv.Hex(x)
	}
	return hv.List(ss)
}

func marshalChain(id *Ident) (leaf, inter []byte) {
	leaf, _ = id.Leaf.Marshal()
	if id.Inter != nil {
		inter, _ = id.Inter.Marshal()
	}
	return
}

type tamperObs struct {
	which int
	msg   []byte
	code  int
	fp    []byte
}

func tampersCoq(ts []tamperObs) string {
	xs := make([]string, len(ts))
	for i, t := range ts {
		xs[i] = hv.Tuple(hv.Ni(t.which), hv.Hex(t.msg), hv.Ni(t.code), hv.Hex(t.fp))
	}
	return hv.List(xs)
}

// someMutations: a few in-flight changes of a message (a field boundary each, a MAC byte, cut, extended).
func someMutations(m []byte, offs []int) [][]byte {
	var out [][]byte
	for _, o := range offs {
		if o < 0 {
			o += len(m)
		}
		x := append([]byte(nil), m...)
		x[o] ^= 0x20
		out = append(out, x)
	}
	out = append(out, append([]byte(nil), m[:len(m)-1]...))
	return out
}

// ExactDiscoverable: one honest discoverable handshake through the real writers and readers. The Coq
// side gets only what is outside the model (KEM key/ciphertext/secret, cookie, DH publics and
// results, session id, name, certificates, policy verdicts) and must recompute all five datagrams,
// both keys and the duplex states with the executable Cyclist (hs_exact_ok).
func (w *World) ExactDiscoverable(i int, cli *Ident, name string) {
	cv := w.P.Verify(PolStore, "", nil, false)
	srv := NewSrv(SingleConfig(w.Srv, cv, false))
	ccfg := cli.ClientConfig(w.P.Verify(PolStore, name, nil, false))
	addr := w.NextAddr()
	wb, err := NewWB(srv, ccfg, addr)
	desc := fmt.Sprintf("byte-exact discoverable handshake #%d (client %s)", i, cli.Label)
	if err != nil {
		specCase("C02", "byte-exact/discoverable", desc, false, "C02:honest-handshake-fails", err.Error(), false)
		return
	}
	hs := wb.HS
	e := NewEnv(nil, 0, nil)
	kpub, _ := hs.VerifHsKEMEphemeral().Public.MarshalBinary()
	ct, cookie := wb.SH[4:772], wb.SH[772:836]
	k, _ := hs.VerifHsKEMEphemeral().Decapsulate(ct)
	epubC := hs.VerifHsDHEphemeral().Public
	sid, epubS := wb.SA[4:8], wb.SA[8:40]
	cleaf, cinter := marshalChain(cli)
	sleaf, sinter := marshalChain(w.Srv)
	spk, cpk := w.Srv.Leaf.PublicKey, cli.Leaf.PublicKey
	ee, _ := hs.VerifHsDHEphemeral().DH(epubS)
	es, _ := hs.VerifHsDHEphemeral().DH(spk[:])
	se, _ := cli.Key.DH(epubS)
	e.DH(IDSrvEph, epubC[:], ee, true)
	e.DH(IDSrvStat, epubC[:], es, true)
	e.DH(IDCliStat, epubS, se, true)
	e.DH(IDCliEph, epubS, ee, true)
	e.DH(IDCliEph, spk[:], es, true)
	e.DH(IDSrvEph, cpk[:], se, true)
	e.Decaps(IDCliKEM, ct, k, true)
	e.KemParse(kpub, kpub, true)
	e.Policy(IDPolCli, sleaf, sinter, spk[:], true)
	e.Policy(IDPolSrv, cleaf, cinter, cpk[:], true)
	_, ad := CookieADSpec(kpub, addr)
	e.HashParts(ad, kpub, addr.IP, []byte{byte(addr.Port >> 8), byte(addr.Port)})
	e.Open(IDCookie, ad, cookie, k, true)
	sni := make([]byte, 256)
	copy(sni, sniBlock(0, []byte(name)))
	// tampered ServerAuth read by the real client from its real state
	var tampers []tamperObs
	L := len(wb.SA) - 72
	for _, m := range someMutations(wb.SA, []int{9, 40 + L, -1}) {
		hs.VerifHsSetDuplex(wb.PreSA)
		if len(m) >= 40 { // the DH with whatever ephemeral key the (changed) message carries
			x, derr := hs.VerifHsDHEphemeral().DH(m[8:40])
			e.DH(IDCliEph, m[8:40], x, derr == nil)
		}
		_, rerr, pan := catch2(func() (int, error) { return hs.VerifHsReadPQServerAuth(m) })
		tampers = append(tampers, tamperObs{4, m, Code(pan, rerr), hs.VerifHsFingerprint()})
	}
	if err := wb.Auth(); err != nil {
		specCase("C02", "byte-exact/discoverable", desc, false, "C02:honest-handshake-fails", err.Error(), false)
		return
	}
	fpCli := hs.VerifHsFingerprint()
	shs := srv.S.VerifHsHandshakeFor(addr)
	fpSrv := shs.VerifHsFingerprint()
	La := len(wb.CAuth) - 40
	for _, m := range someMutations(wb.CAuth, []int{4, 8 + La, -1}) {
		shs.VerifHsSetDuplex(wb.PreCA)
		_, rerr, pan := catch2(func() (int, error) { n, _, err := srv.S.VerifHsReadPQClientAuth(m, addr); return n, err })
		tampers = append(tampers, tamperObs{5, m, Code(pan, rerr), shs.VerifHsFingerprint()})
	}
	shs.VerifHsSetDuplex(wb.PreCA)
	srv.Deliver(addr, wb.CAuth)
	c2s, s2c := hs.VerifHsFinalKeys()
	var sidA transport.SessionID
	copy(sidA[:], sid)
	ex, est, sc2s, ss2c := srv.S.VerifHsSession(sidA)
	ok, sig, what := true, "", ""
	if !ex || !est || sc2s != c2s || ss2c != s2c {
		ok, sig, what = false, "C02:keys-differ-after-honest-handshake", "client and server do not hold the same established session and keys"
	}
	xd := fmt.Sprintf("(XD %s %s %s %s %s %s %s %s %s %s %s %s %s %d %s %s %s %s %s)",
		hv.Hex(kpub), hv.Hex(ct), hv.Hex(k), hv.Hex(cookie), hv.Hex(epubC[:]), hv.Hex(epubS), hv.Hex(sid), hv.Hex(sni),
		hv.Hex(cleaf), hv.Hex(cinter), hv.Hex(sleaf), hv.Hex(sinter), hv.Hex(addr.IP), addr.Port,
		hexList(wb.CH, wb.SH, wb.CAck, wb.SA, wb.CAuth), hv.Hex(c2s[:]), hv.Hex(s2c[:]), hexList(fpCli, fpSrv), tampersCoq(tampers))
	hv.Emit(hv.Case{Fn: alias("hs_exact_ok"), Coq: hv.Tuple(e.Coq(), xd), Class: "byte-exact/discoverable", Desc: desc, Spec: ok, Sig: sig, What: what,
		NT: true, Replay: map[string]interface{}{"input": desc}})
}

// ExactHidden: the same for a hidden-mode handshake (hs_exact_hidden_ok).
func (w *World) ExactHidden(i int, cli *Ident) {
	cv := w.P.Verify(PolStore, "", nil, false)
	srv := NewSrv(SingleConfig(w.Srv, cv, true))
	ccfg := cli.ClientConfig(w.P.Verify(PolStore, w.SrvName, nil, false))
	ccfg.ServerKEMKey = &w.Srv.KEM.Public
	addr := w.NextAddr()
	desc := fmt.Sprintf("byte-exact hidden handshake #%d (client %s)", i, cli.Label)
	hw, err := NewHWBReq(srv, ccfg, addr)
	if err != nil {
		specCase("C02", "byte-exact/hidden", desc, false, "C02:honest-handshake-fails", err.Error(), false)
		return
	}
	// the timestamp the real writer encrypted: decrypt it with a shadow Cyclist on the spec's schedule
	sh := &Shadow{Fps: [][]byte{nil}}
	se := NewEnv(hw.Req, 0, sh)
	vhs := transport.VerifHsNewHiddenServerHS()
	vhs.VerifHsSetCertVerify(cv)
	shadowHReq(se, sh, vhs, []HCert{{KEM: w.Srv.KEM, HasName: true}}, false, hw.Req)
	var ts []byte
	for _, o := range sh.Ops {
		if o.Kind == "crypt" && len(o.A) == 8 {
			ts = o.A
		}
	}
	var now int64
	var out []Dgram
	for { // the server's clock must not tick between our reading and its reading
		n0 := timeNow()
		out, _, _ = srv.Deliver(addr, hw.Req)
		if timeNow() == n0 {
			now = n0
			break
		}
		srv = NewSrv(SingleConfig(w.Srv, cv, true))
	}
	if _, err := hw.finish(out); err != nil || ts == nil {
		specCase("C02", "byte-exact/hidden", desc, false, "C02:honest-handshake-fails", fmt.Sprint(err), false)
		return
	}
	hs := hw.HS
	e := NewEnv(nil, 0, nil)
	kpub, _ := hs.VerifHsKEMEphemeral().Public.MarshalBinary()
	ct := hw.Req[804:1572]
	k, _ := w.Srv.KEM.Decapsulate(ct)
	sid, ect := hw.Resp[4:8], hw.Resp[8:776]
	ek, _ := hs.VerifHsKEMEphemeral().Decapsulate(ect)
	cleaf, cinter := marshalChain(cli)
	sleaf, sinter := marshalChain(w.Srv)
	spk, cpk := w.Srv.Leaf.PublicKey, cli.Leaf.PublicKey
	dss, _ := cli.Key.DH(spk[:])
	e.DH(IDSrvStat, cpk[:], dss, true)
	e.DH(IDCliStat, spk[:], dss, true)
	e.Decaps(IDSrvKEM, ct, k, true)
	e.Decaps(IDCliKEM, ect, ek, true)
	e.KemParse(kpub, kpub, true)
	e.Policy(IDPolCli, sleaf, sinter, spk[:], true)
	e.Policy(IDPolSrv, cleaf, cinter, cpk[:], true)
	var tampers []tamperObs
	L := len(hw.Resp) - 808
	for _, m := range someMutations(hw.Resp, []int{9, 776 + L, -1}) {
		hs.VerifHsSetDuplex(hw.PreRS)
		if len(m) >= 776 { // decapsulation of whatever ciphertext the (changed) message carries
			x, derr := hs.VerifHsKEMEphemeral().Decapsulate(m[8:776])
			e.Decaps(IDCliKEM, m[8:776], x, derr == nil)
		}
		_, rerr, pan := catch2(func() (int, error) { return hs.VerifHsReadPQServerResponseHidden(m) })
		tampers = append(tampers, tamperObs{9, m, Code(pan, rerr), hs.VerifHsFingerprint()})
	}
	conn, err := hw.Complete()
	if err != nil {
		specCase("C02", "byte-exact/hidden", desc, false, "C02:honest-handshake-fails", err.Error(), false)
		return
	}
	// Complete derived the keys; the fingerprint before that: redo the read on a restored state
	hs.VerifHsSetDuplex(hw.PreRS)
	hs.VerifHsReadPQServerResponseHidden(hw.Resp)
	fpCli := hs.VerifHsFingerprint()
	ex, est, sc2s, ss2c := srv.S.VerifHsSession(conn.SID)
	ok, sig, what := true, "", ""
	if !ex || !est || sc2s != conn.C2S || ss2c != conn.S2C || !bytes.Equal(conn.SID[:], sid) {
		ok, sig, what = false, "C02:keys-differ-after-honest-handshake", "client and server do not hold the same established session and keys"
	}
	xh := fmt.Sprintf("(XH %s %s %s %s %d %s %s %s %s %s %s %s %s %s %s %s %s %s)",
		hv.Hex(kpub), hv.Hex(ct), hv.Hex(k), hv.Hex(ts), now, hv.Hex(sid), hv.Hex(ect), hv.Hex(ek), hv.Hex(cpk[:]),
		hv.Hex(cleaf), hv.Hex(cinter), hv.Hex(sleaf), hv.Hex(sinter), hexList(hw.Req, hw.Resp),
		hv.Hex(conn.C2S[:]), hv.Hex(conn.S2C[:]), hexList(fpCli), tampersCoq(tampers))
	hv.Emit(hv.Case{Fn: alias("hs_exact_hidden_ok"), Coq: hv.Tuple(e.Coq(), xh), Class: "byte-exact/hidden", Desc: desc, Spec: ok, Sig: sig, What: what,
		NT: true, Replay: map[string]interface{}{"input": desc}})
}

// C02Exact: a dozen byte-exact handshakes (quick), more in the thorough tier, with different client
// identities and server names.
func (w *World) C02Exact() {
	n := hv.Scale(5, 40)
	other := w.P.Issue("second-client", "bob")
	for i := 0; i < n; i++ {
		cli := w.Cli
		if i%2 == 1 {
			cli = other
		}
		w.ExactDiscoverable(i, cli, w.SrvName)
		w.ExactHidden(i, cli)
	}
}

func timeNow() int64 { return time.Now().Unix() }
