(* Correspondence entry points for C08.
   c08r_ok : white-box receiver histories (frames fed to the real receiver.receive, reads, close), every
             per-operation observation compared with Model/Recv.v;
   c08u_ok : unwrapFrameNo on (ackNo, frameNo) pairs;
   c08s_ok : white-box sender histories on a real Reliable (see Corr section below, Model/Send.v). *)
From Hop Require Import Base Recv Send.
Open Scope N_scope.

(* short constructor aliases keep the generated files small *)
Definition R (no : N) (d : bytes) (ack fin : bool) : rop :=
  RRecv {| f_no := no; f_data := d; f_ack := ack; f_fin := fin |}.
Definition D (n : N) : rop := RRead n.
Definition X : rop := RClose.

(* (initial ackNo, initial windowStart, operations, observations) *)
Definition c08r_case := (N * N * list rop * list (list N))%type.
Definition c08r_ok (c : c08r_case) : bool :=
  let '(a, w, ops, obs) := c in
  let r0 := {| r_ack := a; r_ws := w; r_frags := []; r_closed := false; r_buf := [] |} in
  beq_list (beq_list N.eqb) (snd (rrun r0 ops)) obs.

Definition c08u_case := (N * N * N)%type.
Definition c08u_ok (c : c08u_case) : bool :=
  let '(ack, f32, got) := c in unwrap_frame_no ack f32 =? got.

(* ---------------------------------------------------------------- sender rig *)
(* written bytes are a pattern, so that 70 kB writes cost a few characters in the case file *)
Fixpoint pat_aux (n : nat) (a : N) : bytes :=
  match n with O => [] | S n' => a :: pat_aux n' (if a =? 255 then 0 else a + 1) end.
Definition pat (a len : N) : bytes := pat_aux (N.to_nat len) (a mod 256).
Definition W (len a : N) : sop := SWrite (pat a len).
Definition A (ack rtt : N) : sop := SAck ack rtt.
Definition T : sop := STick.
Definition F : sop := SFin.

(* digest of a payload: first and last byte (the payloads are byte patterns, so with the length this
   pins the segment down; the driver's oracle compares the real bytes) *)
Definition digest (d : bytes) : N := hd 256 d + 1000 * last d 256.
Definition fflags (f : sframe) : N := b2n (sf_fin f) + 2 * b2n (sf_rtr f) + 4 * b2n (sf_queued f).
Definition obs_frames (fr : list sframe) : list N :=
  flat_map (fun f => [sf_no f; len (sf_data f); fflags f]) fr.
Definition obs_emits (p : bool) (em : list emit) : list N :=
  flat_map (fun e : emit => let (q, f) := e in
              if Bool.eqb p q then [sf_no f; len (sf_data f); digest (sf_data f); b2n (sf_fin f) + 2 * b2n (sf_rtr f)]
              else []) em.
Definition sobs (code : N) (s : sender) (em : list emit) : list N :=
  [code; s_ack s; s_fno s; s_unacked s; Z.to_N (s_rtoc s); cstate_code (s_cst s); Z.to_N (s_dup s);
   s_ssth s; s_wsize s; b2n (s_fin_sent s); s_rto s; N.of_nat (List.length (s_frames s))]
  ++ obs_frames (s_frames s) ++ [99999] ++ obs_emits true em ++ [99999] ++ obs_emits false em.

Fixpoint srun_obs (s : sender) (ops : list sop) : list (list N) :=
  match ops with
  | [] => []
  | o :: rest => let '(s1, em, code) := sstep s o in sobs code s1 em :: srun_obs s1 rest
  end.

(* (injected ackNo, injected frameNo (0 = none), operations, observations) *)
Definition c08s_case := (N * N * list sop * list (list N))%type.
Definition sender_at (a f : N) : sender :=
  if a =? 0 then sender_new else
  {| s_ack := a; s_fno := f; s_unacked := 0; s_rtoc := 0%Z; s_cst := SlowStart; s_cwnd := s_cwnd sender_new;
     s_dup := 0%Z; s_ssth := 512; s_wsize := default_window_size; s_fin_sent := false; s_closed := false;
     s_frames := []; s_rto := initial_rtt |}.
Definition c08s_ok (c : c08s_case) : bool :=
  let '(a, f, ops, obs) := c in
  beq_list (beq_list N.eqb) (srun_obs (sender_at a f) ops) obs.

(* ---- c08o: Reliable.sendOneFrame (Model/SendOne.v).  A case is a history of calls on one rig and, per call,
   what the real code did: [sent; priority; ackNo stamped; ACK flag; frameNo] (zeros when nothing was handed to
   the muxer) ++ [lastAckSent; lastFrameSent; unsend] *)
From Hop Require Import SendOne.
Definition SC (ack no dlen flags : N) : so_call :=
  {| sc_ack := ack; sc_no := no; sc_dlen := dlen; sc_ackflag := N.testbit flags 0; sc_fin := N.testbit flags 1;
     sc_resp := N.testbit flags 2; sc_retx := N.testbit flags 3 |}.
Definition b2n_so (b : bool) : N := if b then 1 else 0.
Fixpoint so_obs (st : so_state) (cs : list so_call) : list (list N) :=
  match cs with
  | [] => []
  | c :: rest =>
      let '(st1, o) := send_one_frame st c in
      (match o with
       | Some (prio, ack, ackflag, no) => [1; b2n_so prio; ack; b2n_so ackflag; no]
       | None => [0; 0; 0; 0; 0]
       end ++ [so_last_ack st1; so_last_frame st1; so_unsend st1]) :: so_obs st1 rest
  end.
Definition c08o_case := (list so_call * list (list N))%type.
Definition c08o_ok (c : c08o_case) : bool :=
  let '(cs, obs) := c in beq_list (beq_list N.eqb) (so_obs so_init cs) obs.

(* ---- c08w: windowSize = uint16(cwndSize) after recvAck's lower clamp, for an injected cwndSize = m * 2^e
   (also beyond 65536, where the conversion wraps), and what framesToSend then answers with two unsent frames
   buffered (timer case with rtoCounter = 0; new data with unacked = 0) *)
From Hop Require Import TubesFloat.
Definition c08w_case := (Z * Z * N * Z * Z)%type.
Definition c08w_ok (c : c08w_case) : bool :=
  let '(m, e, w, rto, nw) := c in
  let w' := window_after_ack (m, e) in
  N.eqb w' w && Z.eqb rto (if (0 <? Z.of_N w')%Z then 1%Z else 0%Z) && Z.eqb nw (Z.min (Z.of_N w') 2%Z).
