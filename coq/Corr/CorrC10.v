(* Correspondence entry points for C10: the shared handshake checkers (Corr/HsCorr.v). *)
From Hop Require Export HsCorr.
