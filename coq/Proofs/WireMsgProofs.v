(* Proofs about Model/WireMsg.v: Intent, AgMessage, proxy response, exec request, userauth
   request, port-forward request. *)
From Hop Require Import Base WireBase WireCert WireMsg WireBaseProofs WireCertProofs.
From Coq Require Import ZifyN ZifyNat ZifyBool.
Ltac Zify.zify_post_hook ::= Z.div_mod_to_equations.
Open Scope N_scope.

Ltac rd1 x :=
  rewrite val_bind, val_read_fixed; change 1 with (len [x]) at 1; rewrite val_read_full_app.
Ltac rdk k e :=
  rewrite val_bind, val_read_fixed;
  replace k with (len e) at 1 by (rewrite ?len_be_enc; try reflexivity; lia);
  rewrite val_read_full_app.

Lemma dec_wstring_cost_const s : wf_bytes s = true -> cost dec_wstring s <= 511.
Proof.
  intros Hwf. unfold dec_wstring. rewrite cost_bind, cost_read_fixed, val_read_fixed.
  destruct (val (read_full 1) s) as [[l s1]| |] eqn:E; try lia.
  apply val_read_full_inv in E. destruct E as (-> & Hl & _ & _). split_wf Hwf.
  pose proof (wf_hd _ Hwf0).
  unfold cost, copy_n. destruct (N.leb_spec (byte1 l) (len s1)); cbn [snd]; lia.
Qed.

(* ====================== associated data ====================== *)
Lemma assoc_roundtrip gt cmd a rest :
  enc_assoc gt cmd = Ok a ->
  val (dec_assoc gt) (a ++ rest) = Ok ((if gt =? 2 then cmd else []), rest).
Proof.
  unfold enc_assoc, dec_assoc. destruct (gt =? 2).
  - apply wstring_roundtrip.
  - destruct (gt =? 1); [intros H; injection H as <-; reflexivity|].
    destruct ((gt =? 3) || (gt =? 4)); [discriminate|]. intros H; injection H as <-; reflexivity.
Qed.

Lemma assoc_dec_sound gt s v r :
  val (dec_assoc gt) s = Ok (v, r) -> wf_bytes s = true ->
  wf_bytes v = true /\ wf_bytes r = true /\ ((gt =? 3) || (gt =? 4)) = false /\
  (if gt =? 2 then len v <= 255 else v = []).
Proof.
  unfold dec_assoc. destruct (gt =? 2) eqn:E2.
  - intros H Hwf. destruct (wstring_dec_sound _ _ _ H Hwf) as (Hv & Hl & Hr & _).
    repeat split; auto. apply N.eqb_eq in E2. subst. reflexivity.
  - destruct (gt =? 1) eqn:E1.
    + rewrite val_ret. intros H Hwf. injection H as <- <-. repeat split; auto.
      apply N.eqb_eq in E1. subst. reflexivity.
    + destruct ((gt =? 3) || (gt =? 4)); [discriminate|].
      rewrite val_ret. intros H Hwf. injection H as <- <-. repeat split; auto.
Qed.

Lemma dec_assoc_no_panic gt s : val (dec_assoc gt) s <> Panic.
Proof.
  unfold dec_assoc. destruct (gt =? 2); [apply dec_wstring_no_panic|].
  destruct (gt =? 1); [discriminate|]. destruct (_ || _); discriminate.
Qed.
Lemma enc_assoc_no_panic gt c : enc_assoc gt c <> Panic.
Proof.
  unfold enc_assoc. destruct (gt =? 2); [apply enc_wstring_no_panic|].
  destruct (gt =? 1); [discriminate|]. destruct (_ || _); discriminate.
Qed.
Lemma dec_assoc_cost gt s : wf_bytes s = true -> cost (dec_assoc gt) s <= 511.
Proof.
  intros. unfold dec_assoc. destruct (gt =? 2); [apply dec_wstring_cost_const; assumption|].
  destruct (gt =? 1); [cbn; lia|]. destruct (_ || _); cbn; lia.
Qed.

(* ====================== Intent ====================== *)
Definition intent_hdr (i : intent) : bytes :=
  [i_gtype i mod 256; i_reserved i mod 256] ++ be_enc 2 (i_port i) ++ be_enc 8 (i_start i) ++ be_enc 8 (i_exp i).

Lemma enc_intent_ok i b :
  enc_intent i = Ok b ->
  exists sni user ct assoc,
    enc_name (i_sni i) = Ok sni /\ enc_wstring (i_user i) = Ok user /\ enc_cert (i_cert i) = Ok ct /\
    enc_assoc (i_gtype i) (i_cmd i) = Ok assoc /\ b = intent_hdr i ++ sni ++ user ++ ct ++ assoc.
Proof.
  unfold enc_intent. intros H.
  apply app_res_ok in H. destruct H as (h & t1 & Hh & H & ->).
  apply app_res_ok in H. destruct H as (sni & t2 & Hsni & H & ->).
  apply app_res_ok in H. destruct H as (user & t3 & Huser & H & ->).
  apply app_res_ok in H. destruct H as (ct & assoc & Hct & Hassoc & ->).
  assert (h = intent_hdr i) as -> by (unfold intent_hdr; congruence).
  exists sni, user, ct, assoc. auto.
Qed.

Ltac wt_split H :=
  repeat (let H1 := fresh H in apply andb_prop in H; destruct H as [H H1]).

Lemma max_int64_lt : max_int64 < 2 ^ 64.
Proof. unfold max_int64. lia. Qed.

Lemma intent_roundtrip i b rest :
  enc_intent i = Ok b -> wt_intent i = true -> val dec_intent (b ++ rest) = Ok (norm_intent i, rest).
Proof.
  intros H Hwt. apply enc_intent_ok in H. destruct H as (sni & user & ct & assoc & Hsni & Huser & Hct & Hassoc & ->).
  unfold wt_intent in Hwt. wt_split Hwt. pose proof max_int64_lt as Hm.
  unfold intent_hdr. rewrite (N.mod_small (i_gtype i)), (N.mod_small (i_reserved i)) by lia.
  rewrite <- !app_assoc.
  change ([i_gtype i; i_reserved i] ++ ?t) with ([i_gtype i] ++ ([i_reserved i] ++ t)).
  unfold dec_intent.
  rd1 (i_gtype i). rd1 (i_reserved i).
  rdk 2 (be_enc 2 (i_port i)). rewrite be_dec_enc by (change (256 ^ N.of_nat 2) with 65536; lia).
  rdk 8 (be_enc 8 (i_start i)). rewrite be_dec_enc by (change (256 ^ N.of_nat 8) with (2 ^ 64); lia).
  replace (max_int64 <? i_start i) with false by lia.
  rdk 8 (be_enc 8 (i_exp i)). rewrite be_dec_enc by (change (256 ^ N.of_nat 8) with (2 ^ 64); lia).
  replace (max_int64 <? i_exp i) with false by lia.
  rewrite val_bind, (name_roundtrip _ _ _ Hsni Hwt3).
  rewrite val_bind, (wstring_roundtrip _ _ _ Huser).
  rewrite val_bind, (cert_roundtrip _ _ _ Hct Hwt1).
  cbn [byte1 hd]. rewrite val_bind, (assoc_roundtrip _ _ _ _ Hassoc), val_ret.
  reflexivity.
Qed.

Lemma intent_dec_sound s i r :
  val dec_intent s = Ok (i, r) -> wf_bytes s = true ->
  wt_intent i = true /\ repr_intent i = true /\ norm_intent i = i /\ wf_bytes r = true.
Proof.
  unfold dec_intent. intros H Hwf.
  inv_bind H gtb s1 E1. rewrite val_read_fixed in E1. apply val_read_full_inv in E1. destruct E1 as (-> & Hgt & _ & _). split_wf Hwf.
  inv_bind H rs s2 E2. rewrite val_read_fixed in E2. apply val_read_full_inv in E2. destruct E2 as (-> & Hrs & _ & _). split_wf Hwf.
  inv_bind H pt s3 E3. rewrite val_read_fixed in E3. apply val_read_full_inv in E3. destruct E3 as (-> & Hpt & _ & _). split_wf Hwf.
  inv_bind H sb s4 E4. rewrite val_read_fixed in E4. apply val_read_full_inv in E4. destruct E4 as (-> & Hsb & _ & _). split_wf Hwf.
  destruct (max_int64 <? be_dec sb) eqn:Es; [discriminate|].
  inv_bind H eb s5 E5. rewrite val_read_fixed in E5. apply val_read_full_inv in E5. destruct E5 as (-> & Heb & _ & _). split_wf Hwf.
  destruct (max_int64 <? be_dec eb) eqn:Ee; [discriminate|].
  inv_bind H sni s6 E6. destruct (name_dec_sound _ _ _ E6 Hwf) as (Hwn & Hrn & Hwf6 & _).
  inv_bind H user s7 E7. destruct (wstring_dec_sound _ _ _ E7 Hwf6) as (Hwu & Hlu & Hwf7 & _).
  inv_bind H ct s8 E8. destruct (cert_dec_sound _ _ _ E8 Hwf7) as (Hwc & Hrc & Hwf8).
  inv_bind H cmd s9 E9. destruct (assoc_dec_sound _ _ _ _ E9 Hwf8) as (Hwcmd & Hwf9 & Hg34 & Hcmd).
  rewrite val_ret in H. injection H as <- <-.
  pose proof (wf_hd _ Hwf0). pose proof (wf_hd _ Hwf1).
  pose proof (be_dec_bound _ Hwf2) as Hp. rewrite Hpt in Hp. change (256 ^ 2) with 65536 in Hp.
  unfold wt_intent, repr_intent, norm_intent.
  cbn [i_gtype i_reserved i_port i_start i_exp i_sni i_user i_cert i_cmd].
  rewrite Hwn, Hrn, Hwu, Hwc, Hrc, Hwcmd, Hg34.
  repeat split; auto.
  - repeat (apply andb_true_intro; split); try reflexivity; lia.
  - destruct (byte1 gtb =? 2); repeat (apply andb_true_intro; split); try reflexivity; lia.
  - destruct (byte1 gtb =? 2); [reflexivity|]. subst cmd. reflexivity.
Qed.

Lemma assoc_enc_complete gt cmd :
  ((gt =? 3) || (gt =? 4)) = false -> (if gt =? 2 then len cmd <=? 255 else true) = true ->
  exists a, enc_assoc gt cmd = Ok a.
Proof.
  unfold enc_assoc. intros H34 Hc. destruct (gt =? 2).
  - apply enc_wstring_complete. lia.
  - destruct (gt =? 1); [eauto|]. rewrite H34. eauto.
Qed.

Lemma intent_enc_complete i : repr_intent i = true -> exists b, enc_intent i = Ok b.
Proof.
  unfold repr_intent. intros H. wt_split H.
  unfold enc_intent.
  destruct (name_enc_complete _ H) as [sni ->].
  destruct (enc_wstring_complete (i_user i)) as [user ->]; [lia|].
  destruct (cert_enc_complete _ H2) as [ct ->].
  destruct (assoc_enc_complete (i_gtype i) (i_cmd i)) as [a ->]; [|exact H0|].
  - destruct (_ || _); [discriminate|reflexivity].
  - eexists. reflexivity.
Qed.

Lemma enc_assoc_repr gt cmd a :
  enc_assoc gt cmd = Ok a -> ((gt =? 3) || (gt =? 4)) = false /\ (if gt =? 2 then len cmd <=? 255 else true) = true.
Proof.
  unfold enc_assoc. destruct (gt =? 2) eqn:E2.
  - intros H. apply enc_wstring_ok in H. destruct H as [Hl _]. split; [|lia].
    apply N.eqb_eq in E2. subst. reflexivity.
  - destruct (gt =? 1) eqn:E1.
    + intros _. apply N.eqb_eq in E1. subst. split; reflexivity.
    + destruct (_ || _); [discriminate|]. split; reflexivity.
Qed.

Lemma enc_intent_repr i b : enc_intent i = Ok b -> repr_intent i = true.
Proof.
  intros H. apply enc_intent_ok in H. destruct H as (sni & user & ct & assoc & Hsni & Huser & Hct & Hassoc & _).
  unfold repr_intent. rewrite (enc_name_repr _ _ Hsni), (enc_cert_repr _ _ Hct).
  apply enc_wstring_ok in Huser. destruct Huser as [Hu _].
  destruct (enc_assoc_repr _ _ _ Hassoc) as [H34 Hc]. rewrite H34, Hc.
  repeat (apply andb_true_intro; split); try reflexivity. lia.
Qed.

Lemma enc_intent_no_panic i : enc_intent i <> Panic.
Proof.
  unfold enc_intent.
  apply app_res_no_panic; [discriminate|].
  apply app_res_no_panic; [apply enc_name_no_panic|].
  apply app_res_no_panic; [apply enc_wstring_no_panic|].
  apply app_res_no_panic; [apply enc_cert_no_panic|apply enc_assoc_no_panic].
Qed.

Ltac sub_np lem :=
  rewrite val_bind;
  match goal with
  | |- match val ?m ?s with _ => _ end <> Panic =>
      let a := fresh "a" in let s' := fresh "s" in let E := fresh "E" in
      destruct (val m s) as [[a s']| |] eqn:E; [|discriminate|exfalso; eapply lem; eauto]
  end.

Lemma dec_intent_no_panic s : wf_bytes s = true -> val dec_intent s <> Panic.
Proof.
  intros Hwf. unfold dec_intent.
  step_read_np. split_wf Hwf. step_read_np. split_wf Hwf. step_read_np. split_wf Hwf.
  step_read_np. split_wf Hwf. destruct (_ <? _); [discriminate|].
  step_read_np. split_wf Hwf. destruct (_ <? _); [discriminate|].
  sub_np dec_name_no_panic.
  destruct (name_dec_sound _ _ _ E Hwf) as (_ & _ & Hwf6 & _).
  sub_np dec_wstring_no_panic.
  destruct (wstring_dec_sound _ _ _ E0 Hwf6) as (_ & _ & Hwf7 & _).
  sub_np dec_cert_no_panic.
  sub_np dec_assoc_no_panic. discriminate.
Qed.

Definition intent_cost_bound : N := 20 + 513 + 511 + cert_cost_bound + 511.
Lemma dec_intent_cost s : wf_bytes s = true -> cost dec_intent s <= intent_cost_bound.
Proof.
  intros Hwf. unfold dec_intent, intent_cost_bound.
  repeat match goal with
  | |- context [cost (bindM (read_fixed ?k) ?f) ?s] =>
      rewrite (cost_bind (read_fixed k) f s), cost_read_fixed, val_read_fixed;
      let a := fresh "a" in let s' := fresh "s" in let E := fresh "E" in
      destruct (val (read_full k) s) as [[a s']| |] eqn:E; [|lia|lia];
      apply val_read_full_inv in E; destruct E as (-> & _ & _ & _); split_wf Hwf
  | |- context [if ?b then failM else _] => destruct b; [rewrite cost_fail; lia|]
  end.
  rewrite cost_bind. pose proof (dec_name_cost _ Hwf).
  match goal with |- context [val dec_name ?s] => destruct (val dec_name s) as [[sni s6]| |] eqn:E6; try lia end.
  destruct (name_dec_sound _ _ _ E6 Hwf) as (_ & _ & Hwf6 & _).
  rewrite cost_bind. pose proof (dec_wstring_cost_const _ Hwf6).
  destruct (val dec_wstring s6) as [[user s7]| |] eqn:E7; try lia.
  destruct (wstring_dec_sound _ _ _ E7 Hwf6) as (_ & _ & Hwf7 & _).
  rewrite cost_bind. pose proof (dec_cert_cost _ Hwf7).
  destruct (val dec_cert s7) as [[ct s8]| |] eqn:E8; try lia.
  destruct (cert_dec_sound _ _ _ E8 Hwf7) as (_ & _ & Hwf8).
  rewrite cost_bind. pose proof (dec_assoc_cost (byte1 a) _ Hwf8).
  destruct (val (dec_assoc (byte1 a)) s8) as [[cmd s9]| |]; rewrite ?cost_ret; lia.
Qed.

(* ====================== AgMessage ====================== *)
Lemma ag_roundtrip m b rest :
  enc_ag m = Ok b -> wt_ag m = true -> val dec_ag (b ++ rest) = Ok (norm_ag m, rest).
Proof.
  unfold enc_ag, wt_ag. intros H Hwt. wt_split Hwt.
  apply app_res_ok in H. destruct H as (x & y & Hx & Hy & ->). injection Hx as <-.
  rewrite N.mod_small by lia.
  unfold dec_ag, norm_ag. rewrite <- app_assoc. rd1 (a_type m). cbn [byte1 hd].
  destruct ((a_type m =? 1) || (a_type m =? 2)) eqn:E12.
  - rewrite val_bind, (intent_roundtrip _ _ _ Hy Hwt0), val_ret.
    assert ((a_type m =? 4) = false) as -> by lia. reflexivity.
  - destruct (a_type m =? 4) eqn:E4.
    + rewrite val_bind, (wstring_roundtrip _ _ _ Hy), val_ret. reflexivity.
    + injection Hy as <-. rewrite val_ret. reflexivity.
Qed.

Lemma norm_zero_intent : norm_intent zero_intent = zero_intent.
Proof. reflexivity. Qed.

Lemma ag_dec_sound s m r :
  val dec_ag s = Ok (m, r) -> wf_bytes s = true ->
  wt_ag m = true /\ repr_ag m = true /\ norm_ag m = m /\ wf_bytes r = true.
Proof.
  unfold dec_ag. intros H Hwf.
  inv_bind H tb s1 E1. rewrite val_read_fixed in E1. apply val_read_full_inv in E1. destruct E1 as (-> & Ht & _ & _). split_wf Hwf.
  pose proof (wf_hd _ Hwf0) as Hb.
  destruct ((byte1 tb =? 1) || (byte1 tb =? 2)) eqn:E12.
  - inv_bind H i s2 E2. rewrite val_ret in H. injection H as <- <-.
    destruct (intent_dec_sound _ _ _ E2 Hwf) as (Hwi & Hri & Hni & Hwr).
    unfold wt_ag, repr_ag, norm_ag. cbn [a_type a_intent a_denial]. rewrite E12, Hwi, Hri, Hni.
    assert ((byte1 tb =? 4) = false) as -> by lia.
    repeat split; auto. repeat (apply andb_true_intro; split); try reflexivity. lia.
  - destruct (byte1 tb =? 4) eqn:E4.
    + inv_bind H d s2 E2. rewrite val_ret in H. injection H as <- <-.
      destruct (wstring_dec_sound _ _ _ E2 Hwf) as (Hwd & Hld & Hwr & _).
      unfold wt_ag, repr_ag, norm_ag. cbn [a_type a_intent a_denial]. rewrite E12, E4, Hwd.
      repeat split; auto; [|lia]. repeat (apply andb_true_intro; split); try reflexivity. lia.
    + rewrite val_ret in H. injection H as <- <-.
      unfold wt_ag, repr_ag, norm_ag. cbn [a_type a_intent a_denial]. rewrite E12, E4.
      repeat split; auto. repeat (apply andb_true_intro; split); try reflexivity. lia.
Qed.

Lemma ag_enc_complete m : wt_ag m = true -> repr_ag m = true -> exists b, enc_ag m = Ok b.
Proof.
  unfold repr_ag, enc_ag. intros _ H.
  destruct ((a_type m =? 1) || (a_type m =? 2)).
  - destruct (intent_enc_complete _ H) as [y ->]. eexists. reflexivity.
  - destruct (a_type m =? 4).
    + destruct (enc_wstring_complete (a_denial m)) as [y ->]; [lia|]. eexists. reflexivity.
    + eexists. reflexivity.
Qed.

Lemma enc_ag_repr m b : enc_ag m = Ok b -> repr_ag m = true.
Proof.
  unfold enc_ag, repr_ag. intros H. apply app_res_ok in H. destruct H as (x & y & _ & Hy & _).
  destruct ((a_type m =? 1) || (a_type m =? 2)); [eapply enc_intent_repr; eauto|].
  destruct (a_type m =? 4); [|reflexivity]. apply enc_wstring_ok in Hy. lia.
Qed.

Lemma enc_ag_no_panic m : enc_ag m <> Panic.
Proof.
  unfold enc_ag. apply app_res_no_panic; [discriminate|].
  destruct (_ || _); [apply enc_intent_no_panic|]. destruct (_ =? _); [apply enc_wstring_no_panic|discriminate].
Qed.

Lemma dec_ag_no_panic s : wf_bytes s = true -> val dec_ag s <> Panic.
Proof.
  intros Hwf. unfold dec_ag. step_read_np. split_wf Hwf.
  destruct (_ || _).
  - sub_np dec_intent_no_panic. discriminate.
  - destruct (_ =? _); [|discriminate]. sub_np dec_wstring_no_panic. discriminate.
Qed.

Lemma dec_ag_expect_no_panic ok s : wf_bytes s = true -> val (dec_ag_expect ok) s <> Panic.
Proof.
  intros Hwf. unfold dec_ag_expect. sub_np dec_ag_no_panic. destruct (ok _); discriminate.
Qed.

Definition ag_cost_bound : N := 1 + intent_cost_bound.
Lemma dec_ag_cost s : wf_bytes s = true -> cost dec_ag s <= ag_cost_bound.
Proof.
  intros Hwf. unfold dec_ag, ag_cost_bound. rewrite cost_bind, cost_read_fixed, val_read_fixed.
  destruct (val (read_full 1) s) as [[tb s1]| |] eqn:E1; try lia.
  apply val_read_full_inv in E1. destruct E1 as (-> & _ & _ & _). split_wf Hwf.
  destruct (_ || _).
  - rewrite cost_bind. pose proof (dec_intent_cost _ Hwf).
    destruct (val dec_intent s1) as [[i s2]| |]; rewrite ?cost_ret; lia.
  - destruct (_ =? _); [|rewrite cost_ret; lia].
    rewrite cost_bind. pose proof (dec_wstring_cost_const _ Hwf). unfold intent_cost_bound.
    destruct (val dec_wstring s1) as [[d s2]| |]; rewrite ?cost_ret; lia.
Qed.
Lemma dec_ag_expect_cost ok s : wf_bytes s = true -> cost (dec_ag_expect ok) s <= ag_cost_bound.
Proof.
  intros Hwf. unfold dec_ag_expect. rewrite cost_bind. pose proof (dec_ag_cost _ Hwf).
  destruct (val dec_ag s) as [[m s1]| |]; try lia. destruct (ok _); rewrite ?cost_ret, ?cost_fail; lia.
Qed.

(* a denial is always deliverable, and reads back as the first 255 bytes of the reason *)
Lemma write_intent_denied_ok reason rest :
  exists b, write_intent_denied reason = Ok b /\
            val dec_conf_or_denial (b ++ rest) = Ok (Ag 4 zero_intent (take 255 reason), rest).
Proof.
  unfold write_intent_denied.
  assert (Hl : len (take 255 reason) <= 255) by apply len_take_le.
  destruct (enc_wstring_complete _ Hl) as [y Hy].
  exists ([4] ++ y). split.
  - unfold enc_ag. cbn [a_type a_denial]. cbn [N.eqb orb Pos.eqb]. rewrite Hy. reflexivity.
  - unfold dec_conf_or_denial, dec_ag_expect, dec_ag. rewrite <- app_assoc.
    rewrite val_bind. rd1 4. cbn [byte1 hd N.eqb orb Pos.eqb].
    rewrite val_bind, (wstring_roundtrip _ _ _ Hy), !val_ret. reflexivity.
Qed.

(* ====================== proxy response ====================== *)
Definition norm_proxy (r : option bytes) : option bytes :=
  match r with None => None | Some e => Some (take 255 e) end.

Lemma proxy_roundtrip r b rest :
  enc_proxy_resp r = Ok b -> val dec_proxy_resp (b ++ rest) = Ok (norm_proxy r, rest).
Proof.
  unfold enc_proxy_resp, dec_proxy_resp. destruct r as [e|].
  - intros H. apply app_res_ok in H. destruct H as (x & y & Hx & Hy & ->). injection Hx as <-.
    rewrite <- app_assoc. rd1 0. cbn [byte1 hd N.eqb].
    rewrite val_bind, (wstring_roundtrip _ _ _ Hy), val_ret. reflexivity.
  - intros H. injection H as <-. rd1 1. cbn [byte1 hd N.eqb Pos.eqb]. rewrite val_ret. reflexivity.
Qed.
Lemma enc_proxy_total r : exists b, enc_proxy_resp r = Ok b.
Proof.
  destruct r as [e|]; cbn [enc_proxy_resp]; [|eauto].
  destruct (enc_wstring_complete (take 255 e)) as [y ->]; [apply len_take_le|]. eexists. reflexivity.
Qed.
Lemma dec_proxy_no_panic s : val dec_proxy_resp s <> Panic.
Proof.
  unfold dec_proxy_resp. step_read_np. destruct (_ =? _); [discriminate|].
  sub_np dec_wstring_no_panic. discriminate.
Qed.

(* ====================== exec ====================== *)
Lemma len_enc_ws w : len (enc_ws w) = 8.
Proof. unfold enc_ws. rewrite !len_app, !len_be_enc. reflexivity. Qed.

Lemma slice_app_l a b j : j <= len a -> slice (a ++ b) 0 j = take j a.
Proof.
  intros H. unfold slice, drop, take. cbn [skipn N.to_nat]. rewrite N.sub_0_r.
  rewrite firstn_app. unfold len in H.
  replace (N.to_nat j - Datatypes.length a)%nat with 0%nat by lia. cbn. apply app_nil_r.
Qed.

Lemma slice_be_enc2 pre x post :
  slice (pre ++ be_enc 2 x ++ post) (len pre) (len pre + 2) = be_enc 2 x.
Proof.
  unfold slice. rewrite drop_app. replace (len pre + 2 - len pre) with (len (be_enc 2 x)) by (rewrite len_be_enc; lia).
  apply take_app.
Qed.

Lemma ws_roundtrip w rest :
  wt_ws w = true -> val dec_ws (enc_ws w ++ rest) = Ok (w, rest).
Proof.
  intros Hwt. unfold wt_ws in Hwt. wt_split Hwt.
  unfold dec_ws. rewrite val_bind, val_read_fixed.
  replace 8 with (len (enc_ws w)) at 1 by (rewrite len_enc_ws; reflexivity).
  rewrite val_read_full_app, val_ret. unfold enc_ws.
  set (R := be_enc 2 (w_rows w)). set (C := be_enc 2 (w_cols w)). set (X := be_enc 2 (w_x w)). set (Y := be_enc 2 (w_y w)).
  assert (S0 : slice (R ++ C ++ X ++ Y) 0 2 = R) by exact (slice_be_enc2 [] (w_rows w) (C ++ X ++ Y)).
  assert (S1 : slice (R ++ C ++ X ++ Y) 2 4 = C) by exact (slice_be_enc2 R (w_cols w) (X ++ Y)).
  assert (S2 : slice (R ++ C ++ X ++ Y) 4 6 = X) by exact (slice_be_enc2 (R ++ C) (w_x w) Y).
  assert (S3 : slice (R ++ C ++ X ++ Y) 6 8 = Y).
  { pose proof (slice_be_enc2 (R ++ C ++ X) (w_y w) []) as S. rewrite app_nil_r in S. exact S. }
  unfold R, C, X, Y in *.
  rewrite S0, S1, S2, S3, !be_dec_enc by (change (256 ^ N.of_nat 2) with 65536; lia).
  destruct w; reflexivity.
Qed.

Definition norm_exec (m : execmsg) : execmsg := m.

Lemma testbit_flags (p : bool) (z : N) (Hz : z = 0 \/ z = 2) :
  N.testbit ((if p then 1 else 0) + z) 0 = p /\ N.testbit ((if p then 1 else 0) + z) 1 = (z =? 2).
Proof. destruct p, Hz; subst; split; reflexivity. Qed.

Lemma exec_roundtrip m rest :
  wt_exec m = true -> exec_fits m = true ->
  val dec_exec (enc_exec m ++ rest) = Ok (m, rest).
Proof.
  intros Hwt Hfit. unfold exec_fits in Hfit. unfold wt_exec in Hwt. wt_split Hwt.
  unfold enc_exec, dec_exec. rewrite <- !app_assoc.
  rd1 (exec_flags m). cbn [byte1 hd].
  unfold read_len_prefixed.
  rewrite val_bind. rdk 4 (be_enc 4 (len (e_cmd m))).
  rewrite be_dec_enc by (change (256 ^ N.of_nat 4) with (2 ^ 32); lia).
  rewrite val_copy_n, val_read_full_app.
  rewrite val_bind. rdk 4 (be_enc 4 (len (e_term m))).
  rewrite be_dec_enc by (change (256 ^ N.of_nat 4) with (2 ^ 32); lia).
  rewrite val_copy_n, val_read_full_app.
  unfold exec_flags.
  destruct m as [p c t [w|]]; cbn [e_pty e_size e_cmd e_term] in *.
  - destruct (testbit_flags p 2 (or_intror eq_refl)) as [-> ->]. cbn [N.eqb Pos.eqb].
    rewrite val_bind, (ws_roundtrip _ _ Hwt0), val_ret. reflexivity.
  - destruct (testbit_flags p 0 (or_introl eq_refl)) as [-> ->]. cbn [N.eqb].
    rewrite val_ret. reflexivity.
Qed.

Lemma read_len_prefixed_no_panic s : val read_len_prefixed s <> Panic.
Proof. unfold read_len_prefixed. step_read_np. rewrite val_copy_n. apply val_read_full_err. Qed.

Lemma read_len_prefixed_inv s v r :
  val read_len_prefixed s = Ok (v, r) -> exists p, s = p ++ r /\ len p = 4 + len v.
Proof.
  unfold read_len_prefixed. intros H. inv_bind H l s1 E. rewrite val_read_fixed in E.
  apply val_read_full_inv in E. destruct E as (-> & Hl & _ & _).
  rewrite val_copy_n in H. apply val_read_full_inv in H. destruct H as (-> & Hv & _ & _).
  exists (l ++ v). rewrite <- app_assoc, len_app. split; [reflexivity|lia].
Qed.

Lemma dec_ws_no_panic s : val dec_ws s <> Panic.
Proof. unfold dec_ws. step_read_np. discriminate. Qed.

Lemma dec_exec_no_panic s : val dec_exec s <> Panic.
Proof.
  unfold dec_exec. step_read_np.
  sub_np read_len_prefixed_no_panic. sub_np read_len_prefixed_no_panic.
  destruct (N.testbit _ 1); [|discriminate]. sub_np dec_ws_no_panic. discriminate.
Qed.

(* allocation follows the bytes received: two copy buffers, the two fields, fixed parts *)
Lemma read_len_prefixed_cost s : cost read_len_prefixed s <= 4 + copy_buf + len s.
Proof.
  unfold read_len_prefixed. rewrite cost_bind, cost_read_fixed, val_read_fixed.
  destruct (val (read_full 4) s) as [[l s1]| |] eqn:E; try lia.
  apply val_read_full_inv in E. destruct E as (-> & Hl & _ & _).
  pose proof (cost_copy_n (be_dec l) s1). rewrite len_app. lia.
Qed.

Lemma dec_ws_cost s : cost dec_ws s = 8.
Proof.
  unfold dec_ws. rewrite cost_bind, cost_read_fixed, val_read_fixed.
  destruct (val (read_full 8) s) as [[b s4]| |]; rewrite ?cost_ret; lia.
Qed.

Lemma dec_exec_cost s : cost dec_exec s <= 2 * len s + 2 * copy_buf + 17.
Proof.
  unfold dec_exec. rewrite cost_bind, cost_read_fixed, val_read_fixed.
  destruct (val (read_full 1) s) as [[t s1]| |] eqn:E1; try lia.
  apply val_read_full_inv in E1. destruct E1 as (-> & Ht & _ & _). rewrite len_app.
  rewrite cost_bind. pose proof (read_len_prefixed_cost s1).
  destruct (val read_len_prefixed s1) as [[cmd s2]| |] eqn:E2; try lia.
  destruct (read_len_prefixed_inv _ _ _ E2) as (p & -> & Hp). rewrite len_app in *.
  rewrite cost_bind. pose proof (read_len_prefixed_cost s2).
  destruct (val read_len_prefixed s2) as [[term s3]| |] eqn:E3; try lia.
  destruct (N.testbit _ 1); [|rewrite cost_ret; lia].
  rewrite cost_bind, dec_ws_cost.
  destruct (val dec_ws s3) as [[b s4]| |]; rewrite ?cost_ret; lia.
Qed.

(* ====================== userauth ====================== *)
Lemma val_read_lenient_app a s : val (read_full_lenient (len a)) (a ++ s) = Ok (a, s).
Proof.
  rewrite val_read_lenient, take_app, drop_app, len_app.
  replace (len a - (len a + len s)) with 0 by lia. change (zeros 0) with (@nil N). rewrite app_nil_r. reflexivity.
Qed.

Lemma userauth_roundtrip u b rest :
  enc_userauth u = Ok b -> val dec_userauth (b ++ rest) = Ok (u, [0; 0] ++ rest).
Proof.
  unfold enc_userauth. destruct (65535 <? len u) eqn:E; [discriminate|]. intros H.
  assert (b = be_enc 2 (len u) ++ u ++ [0; 0]) as -> by congruence. clear H.
  unfold dec_userauth. rewrite <- !app_assoc.
  rewrite val_bind, val_alloc, val_bind.
  replace 2 with (len (be_enc 2 (len u))) at 1 by (rewrite len_be_enc; reflexivity).
  rewrite val_read_lenient_app, be_dec_enc by (change (256 ^ N.of_nat 2) with 65536; lia).
  rewrite val_bind, val_alloc, val_bind, val_read_lenient_app.
  rewrite val_bind, val_alloc, val_ret. reflexivity.
Qed.

Lemma enc_userauth_repr u b : enc_userauth u = Ok b -> len u <= 65535.
Proof. unfold enc_userauth. destruct (65535 <? len u) eqn:E; [discriminate|]. lia. Qed.
Lemma enc_userauth_complete u : len u <= 65535 -> exists b, enc_userauth u = Ok b.
Proof. intros. unfold enc_userauth. replace (65535 <? len u) with false by lia. eauto. Qed.

(* GetInitMsg has no failing path at all *)
Lemma dec_userauth_total s : exists v r, val dec_userauth s = Ok (v, r).
Proof.
  unfold dec_userauth.
  rewrite val_bind, val_alloc, val_bind, val_read_lenient, val_bind, val_alloc, val_bind, val_read_lenient,
    val_bind, val_alloc, val_ret. eauto.
Qed.

Lemma wf_lenient k s : wf_bytes s = true -> wf_bytes (take k s ++ zeros (k - len s)) = true.
Proof. intros. rewrite wf_app, wf_take, wf_zeros by assumption. reflexivity. Qed.
Lemma len_lenient k s : len (take k s ++ zeros (k - len s)) = k.
Proof.
  rewrite len_app, len_zeros. destruct (N.le_ge_cases k (len s)).
  - rewrite len_take by assumption. lia.
  - rewrite take_all by assumption. lia.
Qed.

Definition ua_hdr (s : bytes) : bytes := take 2 s ++ zeros (2 - len s).
Lemma dec_userauth_val s :
  val dec_userauth s =
  Ok (take (be_dec (ua_hdr s)) (drop 2 s) ++ zeros (be_dec (ua_hdr s) - len (drop 2 s)), drop (be_dec (ua_hdr s)) (drop 2 s)).
Proof.
  unfold dec_userauth.
  rewrite val_bind, val_alloc, val_bind, val_read_lenient, val_bind, val_alloc, val_bind, val_read_lenient,
    val_bind, val_alloc, val_ret. reflexivity.
Qed.

Lemma dec_userauth_sound s v r :
  val dec_userauth s = Ok (v, r) -> wf_bytes s = true -> wf_bytes v = true /\ len v <= 65535.
Proof.
  rewrite dec_userauth_val. intros H Hwf.
  pose proof (be_dec_bound _ (wf_lenient 2 s Hwf)) as Hb. rewrite len_lenient in Hb.
  change (256 ^ 2) with 65536 in Hb. fold (ua_hdr s) in Hb.
  set (n := be_dec (ua_hdr s)) in *.
  assert (v = take n (drop 2 s) ++ zeros (n - len (drop 2 s))) as -> by congruence.
  split; [apply wf_lenient, wf_drop; assumption|].
  rewrite len_lenient. lia.
Qed.

Lemma dec_userauth_cost s : wf_bytes s = true -> cost dec_userauth s <= 2 + 2 * 65535.
Proof.
  intros Hwf. unfold dec_userauth.
  rewrite cost_bind, cost_alloc, val_alloc, cost_bind, cost_read_lenient, val_read_lenient,
    cost_bind, cost_alloc, val_alloc, cost_bind, cost_read_lenient, val_read_lenient,
    cost_bind, cost_alloc, val_alloc, cost_ret.
  pose proof (be_dec_bound _ (wf_lenient 2 s Hwf)) as Hb. rewrite len_lenient in Hb.
  change (256 ^ 2) with 65536 in Hb. lia.
Qed.

(* ====================== port forwarding ====================== *)
Lemma nthb_0 x l : nthb (x :: l) 0 = x.
Proof. reflexivity. Qed.
Lemma nthb_1 x y l : nthb (x :: y :: l) 1 = y.
Proof. reflexivity. Qed.

Lemma enc_pf_ok r b :
  enc_pf r = Ok b ->
  repr_pf r = true /\ b = [p_net r; Z.to_N (p_fwd r)] ++ be_enc 2 (len (p_addr r)) ++ p_addr r.
Proof.
  unfold enc_pf, repr_pf.
  destruct ((p_net r =? 1) || (p_net r =? 2) || (p_net r =? 3)) eqn:En; cbn [negb]; [|discriminate].
  destruct ((65535 <? len (p_addr r)) || (p_fwd r <? 0)%Z || (255 <? p_fwd r)%Z) eqn:E; [discriminate|].
  intros H. split; [|congruence].
  apply orb_false_elim in E. destruct E as [E E3]. apply orb_false_elim in E. destruct E as [E1 E2].
  repeat (apply andb_true_intro; split); try reflexivity; lia.
Qed.

Lemma pf_roundtrip r b rest split_ok :
  enc_pf r = Ok b -> (p_net r = 3 \/ split_ok = true) ->
  val (dec_pf split_ok) (b ++ rest) = Ok (r, rest).
Proof.
  intros H Hs. apply enc_pf_ok in H. destruct H as [Hr ->].
  unfold repr_pf in Hr. wt_split Hr.
  unfold dec_pf. rewrite <- !app_assoc.
  rdk 2 [p_net r; Z.to_N (p_fwd r)].
  rdk 2 (be_enc 2 (len (p_addr r))). rewrite be_dec_enc by (change (256 ^ N.of_nat 2) with 65536; lia).
  rewrite val_bind, val_read_fixed, val_read_full_app, val_bind, val_alloc.
  rewrite nthb_0, nthb_1, Z2N.id by lia.
  destruct r as [nt fw ad]. cbn [p_net p_fwd p_addr] in *.
  destruct ((nt =? 1) || (nt =? 2)) eqn:E12.
  - destruct Hs as [-> | ->]; [discriminate|]. rewrite val_ret. reflexivity.
  - assert ((nt =? 3) = true) as -> by lia. rewrite val_ret. reflexivity.
Qed.

Lemma enc_pf_complete r : repr_pf r = true -> exists b, enc_pf r = Ok b.
Proof.
  unfold repr_pf, enc_pf. intros H. wt_split H. rewrite H. cbn [negb].
  replace ((65535 <? len (p_addr r)) || (p_fwd r <? 0)%Z || (255 <? p_fwd r)%Z) with false; [eauto|].
  symmetry. repeat (apply orb_false_intro); lia.
Qed.

Lemma dec_pf_no_panic ok s : val (dec_pf ok) s <> Panic.
Proof.
  unfold dec_pf. step_read_np. step_read_np. step_read_np.
  rewrite val_bind, val_alloc.
  destruct (_ || _); [destruct ok; discriminate|]. destruct (_ =? _); discriminate.
Qed.

Lemma dec_pf_sound ok s r rest :
  val (dec_pf ok) s = Ok (r, rest) -> wf_bytes s = true -> wt_pf r = true /\ repr_pf r = true.
Proof.
  unfold dec_pf. intros H Hwf.
  inv_bind H h s1 E1. rewrite val_read_fixed in E1. apply val_read_full_inv in E1. destruct E1 as (-> & Hh & _ & _). split_wf Hwf.
  inv_bind H l s2 E2. rewrite val_read_fixed in E2. apply val_read_full_inv in E2. destruct E2 as (-> & Hl & _ & _). split_wf Hwf.
  inv_bind H a s3 E3. rewrite val_read_fixed in E3. apply val_read_full_inv in E3. destruct E3 as (-> & Ha & _ & _). split_wf Hwf.
  rewrite val_bind, val_alloc in H.
  pose proof (be_dec_bound _ Hwf1) as Hb. rewrite Hl in Hb. change (256 ^ 2) with 65536 in Hb.
  assert (Hf : nthb h 1 < 256).
  { destruct h as [|x [|y t]]; try (rewrite ?len_cons, ?len_nil in Hh; lia). rewrite nthb_1.
    rewrite !wf_cons in Hwf0. apply andb_prop in Hwf0. destruct Hwf0 as [_ Hy]. apply andb_prop in Hy.
    destruct Hy as [Hy _]. apply N.ltb_lt. exact Hy. }
  unfold wt_pf, repr_pf.
  destruct ((nthb h 0 =? 1) || (nthb h 0 =? 2)) eqn:E12.
  - destruct ok; [|discriminate]. rewrite val_ret in H. injection H as <- <-. cbn [p_net p_fwd p_addr].
    split; [exact Hwf2|]. repeat (apply andb_true_intro; split); lia.
  - destruct (nthb h 0 =? 3) eqn:E3; [|discriminate]. rewrite val_ret in H. injection H as <- <-. cbn [p_net p_fwd p_addr].
    split; [exact Hwf2|]. repeat (apply andb_true_intro; split); lia.
Qed.

Lemma dec_pf_cost ok s : wf_bytes s = true -> cost (dec_pf ok) s <= 4 + 2 * 65535.
Proof.
  intros Hwf. unfold dec_pf.
  rewrite cost_bind, cost_read_fixed, val_read_fixed.
  destruct (val (read_full 2) s) as [[h s1]| |] eqn:E1; try lia.
  apply val_read_full_inv in E1. destruct E1 as (-> & _ & _ & _). split_wf Hwf.
  rewrite cost_bind, cost_read_fixed, val_read_fixed.
  destruct (val (read_full 2) s1) as [[l s2]| |] eqn:E2; try lia.
  apply val_read_full_inv in E2. destruct E2 as (-> & Hl & _ & _). split_wf Hwf.
  pose proof (be_dec_bound _ Hwf1) as Hb. rewrite Hl in Hb. change (256 ^ 2) with 65536 in Hb.
  rewrite cost_bind, cost_read_fixed, val_read_fixed.
  destruct (val (read_full (be_dec l)) s2) as [[a s3]| |] eqn:E3; try lia.
  rewrite cost_bind, cost_alloc, val_alloc.
  destruct (_ || _); [destruct ok; rewrite ?cost_ret, ?cost_fail; lia|].
  destruct (_ =? _); rewrite ?cost_ret, ?cost_fail; lia.
Qed.

(* ====================== decoder soundness for exec, stability for pf ====================== *)
Lemma read_len_prefixed_wf s v r :
  val read_len_prefixed s = Ok (v, r) -> wf_bytes s = true -> wf_bytes v = true /\ wf_bytes r = true /\ len v < 2 ^ 32.
Proof.
  unfold read_len_prefixed. intros H Hwf. inv_bind H l s1 E. rewrite val_read_fixed in E.
  apply val_read_full_inv in E. destruct E as (-> & Hl & _ & _). split_wf Hwf.
  rewrite val_copy_n in H. apply val_read_full_inv in H. destruct H as (-> & Hv & _ & _). split_wf Hwf.
  pose proof (be_dec_bound _ Hwf0) as Hb. rewrite Hl in Hb. change (256 ^ 4) with (2 ^ 32) in Hb.
  repeat split; auto. rewrite Hv. exact Hb.
Qed.

Lemma exec_dec_sound s m r :
  val dec_exec s = Ok (m, r) -> wf_bytes s = true -> wt_exec m = true.
Proof.
  unfold dec_exec. intros H Hwf.
  inv_bind H t s1 E1. rewrite val_read_fixed in E1. apply val_read_full_inv in E1. destruct E1 as (-> & _ & _ & _). split_wf Hwf.
  inv_bind H cmd s2 E2. destruct (read_len_prefixed_wf _ _ _ E2 Hwf) as (Hc & Hwf2 & _).
  inv_bind H term s3 E3. destruct (read_len_prefixed_wf _ _ _ E3 Hwf2) as (Ht & Hwf3 & _).
  destruct (N.testbit (byte1 t) 1).
  - inv_bind H w s4 E4. rewrite val_ret in H. injection H as <- <-.
    unfold dec_ws in E4. inv_bind E4 b s5 E5. rewrite val_read_fixed in E5.
    apply val_read_full_inv in E5. destruct E5 as (-> & Hb & _ & _). split_wf Hwf3.
    rewrite val_ret in E4. injection E4 as <- <-.
    unfold wt_exec, wt_ws. cbn [e_cmd e_term e_size w_rows w_cols w_x w_y]. rewrite Hc, Ht. cbn [andb].
    assert (forall i, be_dec (take 2 (drop i b)) < 65536) as Hs.
    { intros i. pose proof (be_dec_bound (take 2 (drop i b))) as Hx.
      rewrite wf_take in Hx by (apply wf_drop; assumption). specialize (Hx eq_refl).
      pose proof (len_take_le 2 (drop i b)).
      assert (256 ^ len (take 2 (drop i b)) <= 256 ^ 2) by (apply N.pow_le_mono_r; lia).
      change (256 ^ 2) with 65536 in *. lia. }
    unfold slice. change (2 - 0) with 2. change (4 - 2) with 2. change (6 - 4) with 2. change (8 - 6) with 2.
    pose proof (Hs 0). pose proof (Hs 2). pose proof (Hs 4). pose proof (Hs 6).
    repeat (apply andb_true_intro; split); lia.
  - rewrite val_ret in H. injection H as <- <-. unfold wt_exec. cbn [e_cmd e_term e_size]. rewrite Hc, Ht. reflexivity.
Qed.

Lemma dec_pf_net ok s r rest :
  val (dec_pf ok) s = Ok (r, rest) -> p_net r = 3 \/ ok = true.
Proof.
  unfold dec_pf. intros H.
  inv_bind H h s1 E1. inv_bind H l s2 E2. inv_bind H a s3 E3. rewrite val_bind, val_alloc in H.
  destruct ((nthb h 0 =? 1) || (nthb h 0 =? 2)).
  - destruct ok; [right; reflexivity|discriminate].
  - destruct (nthb h 0 =? 3) eqn:E; [|discriminate]. rewrite val_ret in H. injection H as <- <-.
    left. apply N.eqb_eq in E. exact E.
Qed.

Lemma pf_stable ok s r rest :
  val (dec_pf ok) s = Ok (r, rest) -> wf_bytes s = true ->
  exists b, enc_pf r = Ok b /\ forall rest', val (dec_pf ok) (b ++ rest') = Ok (r, rest').
Proof.
  intros H Hwf. destruct (dec_pf_sound _ _ _ _ H Hwf) as [_ Hr].
  destruct (enc_pf_complete _ Hr) as [b Hb]. exists b. split; [exact Hb|].
  intros rest'. apply pf_roundtrip; [exact Hb|]. eapply dec_pf_net; eauto.
Qed.
