(* Correspondence entry point for C16: the driver samples, on a real Reliable tube and its muxer,
   (tubeState, sender.closed, r.closed closed?, muxer state) while a shutdown scenario runs.  The
   checker verifies that every sample satisfies the projections of the proved invariant of
   Model/Shutdown.v and that consecutive samples are connected in the model's tube state graph
   (states only move along created -> initiated -> {closeWait -> lastAck | finWait1 -> {finWait2 |
   closing}} -> closed, with the forced / error jump to closed from anywhere), and that the
   monotone observables (closed signal, muxer state) never go back. *)
From Hop Require Import Base Shutdown ShutdownEdges.
Open Scope N_scope.

(* the graph is Proofs/ShutdownEdges.tedge: exactly the reachable-edge relation of Shutdown.step
   (Properties/C16.v c16_state_graph_exact); tubeState numbers are those of tubes/reliable.go *)
Definition ts_of (n : N) : tstate :=
  match n with
  | 0 => TCreated | 1 => TInitiated | 2 => TCloseWait | 3 => TLastAck
  | 4 => TFinWait1 | 5 => TFinWait2 | 6 => TClosing | _ => TClosed
  end.
Definition reach (n : nat) (a b : N) : bool := treach n (ts_of a) (ts_of b).

Record smp := mkSmp { o_st : N; o_ms : N; o_sc : bool; o_rc : bool }.
Definition dec (c : N) : smp :=
  let r := c mod 64 in mkSmp (r / 8) ((r mod 8) / 2) (64 <=? c) (N.odd r).

Definition smp_ok (s : smp) : bool :=
  (o_st s <=? 7) && (o_ms s <=? 2) &&
  (negb (o_rc s) || (o_st s =? 7)) &&                    (* r.closed closed => tubeState = closed *)
  (negb (o_st s =? 0) || o_sc s) &&                      (* created => sender not started *)
  (negb (o_ms s =? 2) || (o_rc s && (o_st s =? 7))).     (* muxer stopped => the tube is closed *)

Definition pair_ok (a b : smp) : bool :=
  reach 4 (o_st a) (o_st b) && (o_ms a <=? o_ms b) && (negb (o_rc a) || o_rc b).

Fixpoint trace_ok (l : list smp) : bool :=
  match l with
  | [] => true
  | a :: r => smp_ok a && match r with [] => true | b :: _ => pair_ok a b end && trace_ok r
  end.

Definition c16_trace_ok (l : list N) : bool := trace_ok (map dec l).

(* ---------------------------------------------------------------- full-sender-queue scenarios (Model/ShutdownQ.v)
   The driver fills the sender queue of a real tube (capacity [cap], sampled through the overlay)
   while the link is blocked, then calls Close and Stop.  The checker runs the model of the code as
   it is now with that capacity along the same history (Muxer.sender inside a blocked write, [cap]
   acknowledgements queued and one more dropped; Close; forced close; drain) and compares: the
   sampled queue length with the model's, and the observed returns (Close, Stop, WaitForClose,
   r.closed signalled) with the model's final state. *)
From Hop Require Import ShutdownQ ShutdownQProofs.
Definition q_is_final (x : qst) : bool :=
  match cp x, fp x, sp x, rp x with
  | C_done, F_done, S_done, R_done => tc x && rc x && Nat.eqb (ql x) 0 && negb (pn x)
  | _, _, _, _ => false
  end.
Definition fullq_fill (cap : nat) : list qact := qfill cap ++ [AArr; ARecv; ARecv].
Definition fullq_rest (cap : nat) : list qact :=
  [AClose; AClose; AForce; AMux] ++ List.concat (repeat [ASend; ASend] cap) ++ [AForce; AForce; ASend; AForce; AClose; ARecv].
Definition c16_fullq_ok (c : N * N * list bool) : bool :=
  let '(cap, qlen, obs) := c in
  let n := N.to_nat cap in
  let cfg := mkQC n true true false in
  match qrun cfg (qinit true) (fullq_fill n) with
  | Some x =>
    N.eqb (N.of_nat (ql x)) qlen &&
    match qrun cfg x (fullq_rest n) with
    | Some y => q_is_final y && forallb (fun b => b) obs && N.ltb 0%N cap
    | None => false
    end
  | None => false
  end.
