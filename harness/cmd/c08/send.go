package main

// White-box part 2: operation sequences on the sender of a real tubes.Reliable (Write, incoming
// acknowledgements, retransmission-timer ticks, Close), compared with Model/Send.v inside Coq, plus the
// oracle written from the property: the frames ever put into the retransmission buffer are exactly the
// written byte stream cut into pieces of at most MaxFrameDataLength with consecutive numbers, and the
// buffer holds every frame the peer has not acknowledged yet (nothing unacknowledged is ever dropped).

import (
	"bytes"
	"fmt"
	"strings"

	"hop.computer/hop/tubes"
	"verifharness/hv"
	hx "verifharness/hvxtubes"
)

type sop struct {
	kind byte // 'W' write, 'A' ack, 'T' tick, 'F' fin
	len  int
	a    byte
	ack  uint64 // the peer's true cumulative acknowledgement (64 bit); sent as uint32
}

func pat(a byte, n int) []byte {
	b := make([]byte, n)
	for i := range b {
		b[i] = byte(int(a) + i)
	}
	return b
}

func digest(d []byte) uint64 {
	if len(d) == 0 {
		return 256 + 1000*256
	}
	return uint64(d[0]) + 1000*uint64(d[len(d)-1])
}

type seenFrame struct {
	no   uint32
	data []byte
	fin  bool
}

func runSend(class string, ack0 uint64, fno0 uint32, script []sop, nt bool) {
	g := tubes.VerifNewRig(ack0, fno0)
	defer g.Stop()
	maxFDL, _, _, _, _ := tubes.VerifConsts()
	var coq, obs, desc []string
	specOK, what, sig := true, "", ""
	fail := func(s, w string) {
		if specOK {
			specOK, sig, what = false, s, w
		}
	}
	// oracle state
	var written []byte      // bytes accepted by Write
	var all []seenFrame     // every frame that ever appeared in the buffer, in order
	first := uint64(1)      // stream index (64 bit) of all[0]
	if ack0 != 0 {
		first = ack0
	}
	maxA := first           // highest cumulative acknowledgement delivered to the sender
	finCalled := false
	closedByErr := false

	observe := func(code int, em []tubes.VerifFrame) {
		st := g.State(true)
		var fr, ep, en []string
		for _, f := range st.Frames {
			fl := 0
			if f.FIN {
				fl |= 1
			}
			if f.RTR {
				fl |= 2
			}
			if f.Queued {
				fl |= 4
			}
			fr = append(fr, hv.N(uint64(f.FrameNo)), hv.Ni(f.Len), hv.Ni(fl))
		}
		for _, e := range em {
			if len(e.Data) == 0 && !e.FIN {
				continue // pure acknowledgements are not part of the compared observation
			}
			fl := 0
			if e.FIN {
				fl |= 1
			}
			if e.RTR {
				fl |= 2
			}
			t := []string{hv.N(uint64(e.FrameNo)), hv.Ni(len(e.Data)), hv.N(digest(e.Data)), hv.Ni(fl)}
			if e.Prio {
				ep = append(ep, t...)
			} else {
				en = append(en, t...)
			}
		}
		o := []string{hv.Ni(code), hv.N(st.AckNo), hv.N(uint64(st.FrameNo)), hv.Ni(int(st.Unacked)), hv.Ni(st.RtoCounter), hv.Ni(st.State),
			hv.Ni(st.Dup), hv.Ni(int(st.SsThresh)), hv.Ni(int(st.WindowSize)), hx.B2N(st.FinSent), hv.N(uint64(st.RTO)), hv.Ni(len(st.Frames))}
		o = append(o, fr...)
		o = append(o, "99999")
		o = append(o, ep...)
		o = append(o, "99999")
		o = append(o, en...)
		obs = append(obs, hv.List(o))

		// ---- oracle
		// new frames at the tail of the buffer
		known := uint64(len(all)) // stream indices first .. first+known-1 are known
		for _, f := range st.Frames {
			// position of this frame in the stream by its number (mod 2^32), relative to maxA
			idx := first + uint64(uint32(f.FrameNo-uint32(first)))
			if idx >= first+known {
				if idx != first+known {
					fail("C08:frame-numbers-not-consecutive", fmt.Sprintf("frame number %d appears in the buffer after %d frames", f.FrameNo, known))
					break
				}
				all = append(all, seenFrame{f.FrameNo, f.Data, f.FIN})
				known++
				if !f.FIN && (f.Len == 0 || f.Len > maxFDL) {
					fail("C08:frame-size-out-of-range", fmt.Sprintf("frame %d carries %d bytes (limit %d)", f.FrameNo, f.Len, maxFDL))
				}
			}
		}
		var cat []byte
		for _, f := range all {
			cat = append(cat, f.data...)
		}
		if !bytes.Equal(cat, written) {
			fail("C08:segmentation-loses-or-alters-bytes", fmt.Sprintf("the frames ever buffered carry %d bytes, %d bytes were written (or they differ)", len(cat), len(written)))
		}
		if finCalled && !closedByErr && (len(all) == 0 || !all[len(all)-1].fin) {
			fail("C08:fin-not-last-frame", "after Close the last frame of the stream is not a FIN")
		}
		// retention: the buffer is exactly the frames not yet acknowledged by the peer
		if !closedByErr {
			want := all[min(int(maxA-first), len(all)):]
			okb := len(want) == len(st.Frames)
			for i := 0; okb && i < len(want); i++ {
				okb = want[i].no == st.Frames[i].FrameNo && bytes.Equal(want[i].data, st.Frames[i].Data) && want[i].fin == st.Frames[i].FIN
			}
			if !okb {
				var have []string
				for _, f := range st.Frames {
					have = append(have, fmt.Sprint(f.FrameNo))
				}
				fail("C08:unacked-frame-dropped-from-retransmission-buffer", fmt.Sprintf("peer acknowledged up to %d (exclusive), %d frames were written, so frames %d.. must be buffered; the buffer holds [%s]", maxA, len(all), maxA, strings.Join(have, " ")))
			}
		}
		// what goes on the wire is a frame of the stream
		for _, e := range em {
			if len(e.Data) == 0 && !e.FIN {
				continue
			}
			idx := uint64(uint32(e.FrameNo - uint32(first)))
			if idx >= uint64(len(all)) || !bytes.Equal(all[idx].data, e.Data) || all[idx].fin != e.FIN {
				fail("C08:emitted-frame-not-of-the-stream", fmt.Sprintf("frame %d (%d bytes, fin=%v) handed to the muxer is not frame %d of the written stream", e.FrameNo, len(e.Data), e.FIN, e.FrameNo))
			}
		}
	}

	for _, o := range script {
		switch o.kind {
		case 'W':
			b := pat(o.a, o.len)
			n, isErr := g.Write(b)
			em := g.Settle()
			code := 0
			if isErr {
				code = 1
			} else {
				written = append(written, b...)
				if n != len(b) {
					fail("C08:write-short-count", fmt.Sprintf("Write(%d bytes) returned %d without error", len(b), n))
				}
			}
			coq = append(coq, fmt.Sprintf("W %d %d", o.len, o.a))
			desc = append(desc, fmt.Sprintf("W%d", o.len))
			observe(code, em)
		case 'A':
			var isErr bool
			if p, msg := hv.Catch(func() { isErr = g.Ack(uint32(o.ack)) }); p {
				fail("C08:recvack-panics", "Reliable.receive panicked on an acknowledgement: "+msg)
				isErr = true
			}
			em := g.Settle()
			code := 0
			if isErr {
				code = 1
				closedByErr = true
			} else if o.ack > maxA && o.ack <= first+uint64(len(all)) {
				maxA = o.ack
			}
			st := g.State(false)
			coq = append(coq, fmt.Sprintf("A %d %d", uint32(o.ack), st.RTT))
			desc = append(desc, fmt.Sprintf("A%d", uint32(o.ack)))
			observe(code, em)
		case 'T':
			g.Tick()
			em := g.Settle()
			coq = append(coq, "T")
			desc = append(desc, "T")
			observe(0, em)
		case 'F':
			isErr := g.Fin()
			em := g.Settle()
			code := 0
			if isErr {
				code = 1
			} else {
				finCalled = true
			}
			coq = append(coq, "F")
			desc = append(desc, "F")
			observe(code, em)
		}
	}
	d := fmt.Sprintf("send ack0=%d fno0=%d: %s", ack0, fno0, strings.Join(desc, " "))
	if len(d) > 1500 {
		d = d[:1500] + "..."
	}
	hv.Emit(hv.Case{Fn: "c08s_ok", Coq: hv.Tuple(hv.N(ack0), hv.N(uint64(fno0)), hv.List(coq), hv.List(obs)),
		Class: class, Desc: d, Spec: specOK, Sig: sig, What: what, NT: nt})
}

var writeSizes = []int{0, 1, 2, 3, 100, 1000, 1001, 1002, 32767, 32768, 32769, 65535, 65536, 65537, 70000}

func genSend(r *hv.Rand) {
	// regression corpus: the original retransmission-timeout code dropped frames[0] once RTO > maxRTO
	runSend("send-rto-outage", 0, 0, []sop{{kind: 'W', len: 5, a: 1}, {kind: 'T'}, {kind: 'T'}, {kind: 'T'}, {kind: 'T'}, {kind: 'T'}, {kind: 'T'}, {kind: 'T'}, {kind: 'A', ack: 2}}, true)

	for k := 0; k < hv.Scale(200, 4000); k++ {
		class := hv.Pick(r, []string{"send-mixed", "send-mixed", "send-mixed", "send-rto-outage", "send-rto-outage", "send-dupacks", "send-dupacks", "send-wrap-2^32", "send-wrap-2^32", "send-big-writes"})
		var sc []sop
		var ack0 uint64
		var fno0 uint32
		sent := uint64(1) // next stream index to be written
		acked := uint64(1)
		if class == "send-wrap-2^32" {
			ack0 = hv.Pick(r, []uint64{1<<32 - 1, 1<<32 - 3, 1<<32 - 6, 1 << 32, 1<<32 + 2, 1<<31 - 2})
			fno0 = uint32(ack0)
			sent, acked = ack0, ack0
		}
		fin := false
		wsz := 10
		write := func(n int) {
			if fin {
				sc = append(sc, sop{kind: 'W', len: n, a: byte(r.U64())})
				return
			}
			sc = append(sc, sop{kind: 'W', len: n, a: byte(r.U64())})
			sent += uint64((n + 32767) / 32768)
		}
		ackTo := func(a uint64) {
			// across the 2^32 boundary recvAck recognises a wrapped acknowledgement only if it advances by at
			// most windowSize (see docs/C08.md, limitation L1): stay inside that domain in the wrap class
			for class == "send-wrap-2^32" && a > acked+5 {
				acked += 5
				sc = append(sc, sop{kind: 'A', ack: acked})
			}
			sc = append(sc, sop{kind: 'A', ack: a})
			if a > acked {
				acked = a
			}
		}
		L := 4 + r.Intn(hv.Scale(30, 60))
		switch class {
		case "send-dupacks":
			// get past ack 20, then duplicate acknowledgements (fast retransmit; >100 closes the tube)
			for i := 0; i < 24; i++ {
				write(hv.Pick(r, []int{1, 5, 1001, 2000}))
			}
			for a := uint64(2); a <= 22+uint64(r.Intn(3)); a += 1 + uint64(r.Intn(3)) {
				ackTo(a)
			}
			for i := 0; i < 6; i++ {
				write(hv.Pick(r, []int{1, 1500}))
			}
			nd := hv.Pick(r, []int{1, 2, 3, 5, 6, 12, 99, 100, 101, 103})
			for i := 0; i < nd; i++ {
				ackTo(acked)
				if r.Chance(5) {
					sc = append(sc, sop{kind: 'T'})
				}
			}
			ackTo(acked + 1)
			ackTo(acked)
			write(3)
			sc = append(sc, sop{kind: 'F'})
			L = 0
		case "send-big-writes":
			L = 3 + r.Intn(4)
		}
		for i := 0; i < L; i++ {
			c := r.Intn(100)
			switch {
			case c < 35:
				switch class {
				case "send-big-writes":
					write(hv.Pick(r, writeSizes))
				default:
					write(hv.Pick(r, []int{0, 1, 2, 7, 100, 1000, 1001, 1500, 3000}))
				}
			case c < 70:
				// acknowledgement: mostly legitimate (between what is acked and what was written)
				c2 := r.Intn(100)
				switch {
				case c2 < 60 && sent > acked:
					adv := 1 + uint64(r.Intn(int(min(sent-acked, uint64(wsz)))))
					ackTo(acked + adv)
				case c2 < 80:
					ackTo(acked) // duplicate
				case c2 < 90 && acked > 1:
					back := 1 + uint64(r.Intn(3))
					if acked > back {
						sc = append(sc, sop{kind: 'A', ack: acked - back}) // stale
					}
				default:
					if sent > acked {
						ackTo(sent) // everything
					}
				}
			case c < 85 || class == "send-rto-outage" && c < 95:
				n := 1
				if class == "send-rto-outage" {
					n = 1 + r.Intn(8)
				}
				for j := 0; j < n; j++ {
					sc = append(sc, sop{kind: 'T'})
				}
			case c < 90 && !fin:
				sc = append(sc, sop{kind: 'F'})
				fin = true
				sent++
			default:
				write(hv.Pick(r, []int{1, 10, 1001}))
			}
		}
		if !fin && r.Chance(60) {
			sc = append(sc, sop{kind: 'F'})
			sent++
		}
		if sent > acked {
			ackTo(sent)
		}
		runSend(class, ack0, fno0, sc, true)
	}
}
