(* LoginRace.v — interleaving transition system for logins through authorization grants racing
   with each other and with grant additions on ONE HopServer (C05: "an unconsumed authorization
   grant exists for exactly that user and key"; C07: "disappear once consumed").

   Every connection runs hopSession.checkAuthorization on its own goroutine; a principal's
   session stores grants (handleAgc -> HopServer.AddAuthGrant) on yet another one.  Shared state:
   AuthgrantMapSync.agMap (guarded by agLock) and SyncAuthKeySet.keySet (guarded by its own lock).
   ONE transition per critical section:

     HopServer.AuthorizeKeyAuthGrant(user, key):                    (EnableAuthgrants on)
   LStart    ags, err := s.agMap.RemoveAuthgrants(user, key)        // agLock: lookup + delete, atomic
             err != nil -> return err                                // LDone None: login refused
   LMid      s.keyStore.RemoveKey(key)                               // key-set lock
             return ags                                              // LDone (Some ags): session gets ags

     HopServer.AddAuthGrant(intent):
   LStart    s.agMap.AddAuthGrant(intent, NoSession)                 // agLock: append to the entry
   LAddMid   s.keyStore.AddKey(key)                                  // key-set lock
                                                                     // LDone None

   The authorized_keys path of checkAuthorization reads no shared mutable state and is left out:
   a thread here is a connection whose key is not in the file.  Definitions only.
   Proofs: Proofs/LoginRaceProofs.v. *)
From Hop Require Import Base Authz ConcBase.
Local Open Scope nat_scope.

Inductive lprog :=
| LLogin (u : user) (k : key)
| LAdd (u : user) (k : key) (g : grant).

Inductive lpc :=
| LStart
| LMid (got : list grant)
| LAddMid
| LDone (r : option (list grant)).

Record lsh := mkLsh { l_map : list (uk * list grant); l_keys : list key }.

Definition ltstep (p : lprog) (s : lsh) (c : lpc) : option (lsh * lpc) :=
  match p, c with
  | LLogin u k, LStart =>
      match ag_lookup (l_map s) (u, k) with
      | Some ags => Some (mkLsh (ag_del (l_map s) (u, k)) (l_keys s), LMid ags)
      | None => Some (s, LDone None)
      end
  | LLogin u k, LMid ags => Some (mkLsh (l_map s) (key_del (l_keys s) k), LDone (Some ags))
  | LAdd u k g, LStart => Some (mkLsh (ag_add (l_map s) (u, k) g) (l_keys s), LAddMid)
  | LAdd u k g, LAddMid => Some (mkLsh (l_map s) (key_add (l_keys s) k), LDone None)
  | _, _ => None
  end.

Record lst := mkLst { lshd : lsh; lths : list (lprog * lpc) }.

Definition lstep (x : lst) (i : nat) : option lst :=
  match nth_error (lths x) i with
  | Some (p, c) =>
      match ltstep p (lshd x) c with
      | Some (s', c') => Some (mkLst s' (gupd (lths x) i (p, c')))
      | None => None
      end
  | None => None
  end.

Fixpoint lrun (x : lst) (l : list nat) : option lst :=
  match l with
  | [] => Some x
  | i :: r => match lstep x i with Some x' => lrun x' r | None => None end
  end.

(* an empty server and one not yet started goroutine per program *)
Definition linit (progs : list lprog) : lst :=
  mkLst (mkLsh [] []) (map (fun p => (p, LStart)) progs).
Definition lreachable (progs : list lprog) (x : lst) : Prop := exists l, lrun (linit progs) l = Some x.

(* what a login goroutine holds: the grants RemoveAuthgrants returned to it *)
Definition got_of (t : lprog * lpc) : list grant :=
  match t with
  | (LLogin _ _, LMid a) => a
  | (LLogin _ _, LDone (Some a)) => a
  | _ => []
  end.
(* grants stored so far *)
Definition stored_of (t : lprog * lpc) : list grant :=
  match t with
  | (LAdd _ _ g, LAddMid) => [g]
  | (LAdd _ _ g, LDone _) => [g]
  | _ => []
  end.
Definition adds_of (p : lprog) : list grant := match p with LAdd _ _ g => [g] | _ => [] end.
Definition map_grants (m : list (uk * list grant)) : list grant := List.concat (map snd m).

(* driving one goroutine to completion: the sequential schedules *)
Definition ldrive (x : lst) (i : nat) : lst :=
  match lstep x i with
  | Some x1 => match lstep x1 i with Some x2 => x2 | None => x1 end
  | None => x
  end.
Definition lrun_order (progs : list lprog) (order : list nat) : lst := fold_left ldrive order (linit progs).
