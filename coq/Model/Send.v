(* Send.v — model of the send side of a reliable tube: tubes/sender.go (write, recvAck, onSuccess, onLoss,
   framesToSend, sendFin) and the parts of tubes/reliable.go that act on the sender's state: the
   RetransmitTicker and windowOpen cases of Reliable.send, and sendFrameByNumberLocked.
   Definitions only.

   Integer widths as in the Go code: ackNo uint64, frameNo uint32 (wraps), unacked uint16 (wraps),
   windowSize/ssThresh uint16 (conversion from float64), rtoCounter/duplicatedAckCounter/numFrames int
   (modelled in Z where they can go negative).  cwndSize is a float64: modelled with binary64 arithmetic written
   in Gallina (Model/TubesFloat.v, round-to-nearest-even on positive normal numbers; checked against the
   hardware by the correspondence on every run); no theorem depends on its value.  RTT is a measured quantity (time.Since): the driver passes the value the real run ended
   up with as an oracle input `rtt`; RTO is then computed as the code does.  Durations in nanoseconds.

   This file follows the *repaired* RetransmitTicker case (fix: "cap RTO at maxRTO instead of dropping the
   oldest unacknowledged frame"); `rto_tick_orig` keeps the original behaviour for the regression witness.
   recvAck follows the repaired code of group `wire` (an acknowledgement beyond what was sent is an
   error, where the original indexed frames[0] of an empty slice and panicked). *)
From Hop Require Import Base Recv.
From Hop Require Import TubesFloat.
Open Scope N_scope.

Definition two16 : N := 65536.
Definition max_frame_data_length : N := 32768.      (* common.go MaxFrameDataLength *)
Definition default_window_size : N := 10.           (* defaultWindowSize *)
Definition min_window_size : N := 10.               (* minWindowSize *)
Definition initial_rtt : N := 333000000.            (* 333 ms *)
Definition max_rto : N := 10000000000.              (* 10 s *)

(* ---- float64 helpers (Model/TubesFloat.v: binary64 arithmetic in Gallina) *)
Definition float := fl.
Definition f_to_u16 (f : float) : N := Z.to_N (fl_trunc f) mod two16.     (* uint16(cwndSize) *)
Definition f1 : float := fl_of_Z 1.
Definition f2 : float := fl_of_Z 2.
Definition f3 : float := fl_of_Z 3.
Definition f4 : float := fl_of_Z 4.
Definition f10 : float := fl_of_Z 10.

Inductive cstate := SlowStart | AIMD | FastRecovery.
Definition cstate_code (c : cstate) : N := match c with SlowStart => 0 | AIMD => 1 | FastRecovery => 2 end.
Definition cstate_eqb (a b : cstate) : bool := cstate_code a =? cstate_code b.

(* one entry of sender.frames *)
Record sframe := {
  sf_no : N;            (* frameNo uint32 *)
  sf_data : bytes;
  sf_fin : bool;
  sf_rtr : bool;        (* flags.RTR, set by an RTO retransmission and never cleared *)
  sf_queued : bool
}.
Definition sf_set (f : sframe) (rtr queued : bool) : sframe :=
  {| sf_no := sf_no f; sf_data := sf_data f; sf_fin := sf_fin f; sf_rtr := rtr; sf_queued := queued |}.

Record sender := {
  s_ack : N;            (* ackNo uint64 *)
  s_fno : N;            (* frameNo uint32: number of the next frame *)
  s_unacked : N;        (* uint16 *)
  s_rtoc : Z;           (* rtoCounter int *)
  s_cst : cstate;
  s_cwnd : float;
  s_dup : Z;            (* duplicatedAckCounter int *)
  s_ssth : N;           (* ssThresh uint16 *)
  s_wsize : N;          (* windowSize uint16 *)
  s_fin_sent : bool;
  s_closed : bool;
  s_frames : list sframe;
  s_rto : N             (* RTO, ns *)
}.

Definition sender_new : sender := {|
  s_ack := 1; s_fno := 1; s_unacked := 0; s_rtoc := 0%Z; s_cst := SlowStart; s_cwnd := f10;
  s_dup := 0%Z; s_ssth := 512; s_wsize := default_window_size; s_fin_sent := false; s_closed := false;
  s_frames := []; s_rto := initial_rtt |}.

(* record update helpers *)
Definition set_frames (s : sender) (fr : list sframe) : sender :=
  {| s_ack := s_ack s; s_fno := s_fno s; s_unacked := s_unacked s; s_rtoc := s_rtoc s; s_cst := s_cst s;
     s_cwnd := s_cwnd s; s_dup := s_dup s; s_ssth := s_ssth s; s_wsize := s_wsize s;
     s_fin_sent := s_fin_sent s; s_closed := s_closed s; s_frames := fr; s_rto := s_rto s |}.
Definition set_cc (s : sender) (cst : cstate) (cwnd : float) (dup : Z) (ssth wsize : N) : sender :=
  {| s_ack := s_ack s; s_fno := s_fno s; s_unacked := s_unacked s; s_rtoc := s_rtoc s; s_cst := cst;
     s_cwnd := cwnd; s_dup := dup; s_ssth := ssth; s_wsize := wsize;
     s_fin_sent := s_fin_sent s; s_closed := s_closed s; s_frames := s_frames s; s_rto := s_rto s |}.
Definition set_unacked (s : sender) (u : N) : sender :=
  {| s_ack := s_ack s; s_fno := s_fno s; s_unacked := u; s_rtoc := s_rtoc s; s_cst := s_cst s;
     s_cwnd := s_cwnd s; s_dup := s_dup s; s_ssth := s_ssth s; s_wsize := s_wsize s;
     s_fin_sent := s_fin_sent s; s_closed := s_closed s; s_frames := s_frames s; s_rto := s_rto s |}.
Definition set_rto (s : sender) (rto : N) (rtoc : Z) : sender :=
  {| s_ack := s_ack s; s_fno := s_fno s; s_unacked := s_unacked s; s_rtoc := rtoc; s_cst := s_cst s;
     s_cwnd := s_cwnd s; s_dup := s_dup s; s_ssth := s_ssth s; s_wsize := s_wsize s;
     s_fin_sent := s_fin_sent s; s_closed := s_closed s; s_frames := s_frames s; s_rto := rto |}.

(* frames handed to the muxer: (priority queue?, frame as it is at that moment) *)
Definition emit := (bool * sframe)%type.

(* ---- framesToSend(rto, startIndex) *)
Definition frames_to_send (s : sender) (rto : bool) (start : Z) : Z :=
  let nf := if rto then
              (if (s_rtoc s <? Z.of_N (s_wsize s))%Z then (s_rtoc s + 1)%Z else Z.of_N (s_wsize s))
            else (Z.of_N (s_wsize s) - Z.of_N (s_unacked s) - start)%Z in
  let l := Z.of_nat (List.length (s_frames s)) in
  let nf := if (l <? nf + start)%Z then (l - start)%Z else nf in
  if (nf <? 0)%Z then 0%Z else nf.

(* ---- write: segmentation of the written bytes at MaxFrameDataLength.  `m` is the maximum frame
   data length in bytes (a nat so that proofs never unfold the constant). *)
Fixpoint segment (m : nat) (fuel : nat) (b : bytes) : list bytes :=
  match fuel with
  | O => []
  | S fuel' => match b with
               | [] => []
               | _ => firstn m b :: segment m fuel' (skipn m b)
               end
  end.
Definition segments (m : nat) (b : bytes) : list bytes := segment m (List.length b) b.

Fixpoint number_frames (fno : N) (chunks : list bytes) : list sframe :=
  match chunks with
  | [] => []
  | c :: r => {| sf_no := fno; sf_data := c; sf_fin := false; sf_rtr := false; sf_queued := false |}
              :: number_frames ((fno + 1) mod two32) r
  end.

(* returns the new state and whether windowOpen is signalled; Err = io.EOF *)
Definition write_m (m : nat) (s : sender) (b : bytes) : res (sender * bool) :=
  if s_fin_sent s || s_closed s then Err
  else
    let chunks := segments m b in
    let start := Z.of_nat (List.length (s_frames s)) in
    let s1 := {| s_ack := s_ack s; s_fno := (s_fno s + N.of_nat (List.length chunks)) mod two32;
                 s_unacked := s_unacked s; s_rtoc := s_rtoc s; s_cst := s_cst s; s_cwnd := s_cwnd s;
                 s_dup := s_dup s; s_ssth := s_ssth s; s_wsize := s_wsize s; s_fin_sent := s_fin_sent s;
                 s_closed := s_closed s; s_frames := s_frames s ++ number_frames (s_fno s) chunks;
                 s_rto := s_rto s |} in
    Ok (s1, (0 <? frames_to_send s1 false start)%Z).
Definition write := write_m (N.to_nat max_frame_data_length).

(* ---- onSuccess(ackNo) for frames[0] = f0; rtt = the RTT the real run ends with (oracle) *)
Definition on_success (s : sender) (f0 : sframe) (rtt : N) : sender :=
  let '(cst, cwnd) :=
    if 1000 <? len (sf_data f0) then
      match s_cst s with
      | AIMD => (AIMD, fl_add (s_cwnd s) (fl_div f1 (s_cwnd s)))
      | st => let c := fl_add (s_cwnd s) f1 in
              (if s_ssth s <? f_to_u16 c then AIMD else st, c)
      end
    else (s_cst s, s_cwnd s) in
  {| s_ack := s_ack s; s_fno := s_fno s; s_unacked := s_unacked s; s_rtoc := s_rtoc s; s_cst := cst;
     s_cwnd := cwnd; s_dup := 0%Z; s_ssth := s_ssth s; s_wsize := s_wsize s;
     s_fin_sent := s_fin_sent s; s_closed := s_closed s; s_frames := s_frames s;
     s_rto := (rtt / 8) * 9 |}.

(* ---- onLoss(ackNo): returns the frame number to retransmit (0 = none) *)
Definition u32sub (a b : N) : N := (a + two32 - b mod two32) mod two32.
Definition on_loss (s : sender) (ack32 : N) : sender * N :=
  let dup := (s_dup s + 1)%Z in
  let missing :=
    if (dup <? 5)%Z then
      let m := u32sub ((ack32 + Z.to_N dup) mod two32) 1 in
      if cstate_eqb (s_cst s) FastRecovery then
        (if (dup =? 1)%Z then 0 else u32sub m 1)
      else m
    else ack32 in
  let '(cst, cwnd, ssth) :=
    if cstate_eqb (s_cst s) AIMD && (dup =? 2)%Z then
      let c := fl_div (fl_mul f3 (s_cwnd s)) f4 in (AIMD, c, f_to_u16 c)
    else if cstate_eqb (s_cst s) SlowStart then
      let c := fl_div (s_cwnd s) f2 in (FastRecovery, c, f_to_u16 c)
    else (s_cst s, s_cwnd s, s_ssth s) in
  let cwnd := if fl_ltb cwnd f10 then f10 else cwnd in
  (set_cc s cst cwnd dup ssth (s_wsize s), missing).

(* ---- the acknowledgement loop of recvAck: pops one frame per acknowledged number.  Structural in the
   frame list (each iteration removes frames[0]). *)
Fixpoint ack_loop (frames : list sframe) (s : sender) (new_ack rtt : N) : sender :=
  if s_ack s <? new_ack then
    match frames with
    | [] => s                                   (* unreachable after the bounds test in recv_ack *)
    | f0 :: rest =>
        let s1 := on_success s f0 rtt in
        let s2 := {| s_ack := s_ack s1 + 1; s_fno := s_fno s1;
                     s_unacked := if 0 <? s_unacked s1 then s_unacked s1 - 1 else 0;
                     s_rtoc := s_rtoc s1; s_cst := s_cst s1; s_cwnd := s_cwnd s1; s_dup := s_dup s1;
                     s_ssth := s_ssth s1; s_wsize := s_wsize s1; s_fin_sent := s_fin_sent s1;
                     s_closed := s_closed s1; s_frames := rest; s_rto := s_rto s1 |} in
        ack_loop rest s2 new_ack rtt
    end
  else s.

(* the unwrapped acknowledgement number recvAck works with (its wrap-around heuristic) *)
Definition new_ack_no (s : sender) (ack32 : N) : N :=
  if (ack32 <? s_ack s) && (u64sub (ack32 + two32) (s_ack s) <=? s_wsize s) then ack32 + two32 else ack32.

(* recvAck(ackNo): Ok (state, missingFrameNo, windowOpen signalled) | Err *)
Definition recv_ack (s : sender) (ack32 rtt : N) : res (sender * N * bool) :=
  let old := s_ack s in
  let new := new_ack_no s ack32 in
  if (100 <? s_dup s)%Z then Err                                        (* errTooManyDuplicateACKs *)
  else if (s_ack s <? new) && (N.of_nat (List.length (s_frames s)) <? new - s_ack s) then Err   (* errAckBeyondSent *)
  else
    let '(s1, missing) := if (old =? new) && (20 <? new) then on_loss s ack32 else (s, 0) in
    let window_open := (s_ack s1 <? new) || (cstate_eqb (s_cst s1) FastRecovery && (old =? new)) in
    let s2 := ack_loop (s_frames s1) s1 new rtt in
    let cwnd := if fl_ltb (s_cwnd s2) f10 then f10 else s_cwnd s2 in
    let s3 := set_cc s2 (s_cst s2) cwnd (s_dup s2) (s_ssth s2) (f_to_u16 cwnd) in
    Ok (s3, missing, window_open).

(* ---- Reliable.sendFrameByNumberLocked(frameNo): fast retransmission on duplicate acknowledgements *)
Fixpoint find_frame (frames : list sframe) (fuel : nat) (no : N) : list emit :=
  match fuel, frames with
  | S fuel', f :: rest =>
      if (sf_no f =? no) && sf_queued f then [(true, f)]
      else if no <? sf_no f then []
      else find_frame rest fuel' no
  | _, _ => []
  end.
Definition send_frame_by_number (s : sender) (no : N) : list emit :=
  if N.of_nat (List.length (s_frames s)) <? default_window_size then []
  else find_frame (s_frames s) (N.to_nat default_window_size) no.

(* ---- Reliable.send, case <-windowOpen *)
Fixpoint window_fill (frames : list sframe) (budget : Z) (unacked : N)
  : list sframe * N * list emit :=
  match frames with
  | [] => ([], unacked, [])
  | f :: rest =>
      if (0 <? budget)%Z then
        if sf_queued f then
          let '(fr, u, em) := window_fill rest budget unacked in (f :: fr, u, em)
        else
          let f' := sf_set f (sf_rtr f) true in
          let '(fr, u, em) := window_fill rest (budget - 1)%Z ((unacked + 1) mod two16) in
          (f' :: fr, u, (false, f') :: em)
      else (frames, unacked, [])
  end.
Definition window_open (s : sender) : sender * list emit :=
  if s_closed s then (s, [])
  else
    let nf := frames_to_send s false 0 in
    let '(fr, u, em) := window_fill (s_frames s) nf (s_unacked s) in
    (set_unacked (set_frames s fr) u, em).

(* ---- Reliable.send, case <-RetransmitTicker.C *)
Fixpoint rto_mark (frames : list sframe) (n : Z) (unacked : N) : list sframe * N * list emit :=
  match frames with
  | [] => ([], unacked, [])
  | f :: rest =>
      if (0 <? n)%Z then
        let bump := negb (sf_queued f) && (0 <? len (sf_data f)) in
        let f' := sf_set f true (sf_queued f || bump) in
        let u := if bump then (unacked + 1) mod two16 else unacked in
        let '(fr, u', em) := rto_mark rest (n - 1)%Z u in
        (f' :: fr, u', (true, f') :: em)
      else (frames, unacked, [])
  end.

(* everything of the ticker case before the final `if RTO > maxRTO` *)
Definition rto_tick_common (s : sender) : sender * list emit * bool :=
  let nf := frames_to_send s true 0 in
  let '(fr, u, em) := rto_mark (s_frames s) nf (s_unacked s) in
  let rto_sent := (0 <? nf)%Z in
  let s1 := set_rto (set_unacked (set_frames s fr) u) (s_rto s * 2) (s_rtoc s) in
  let s2 := if rto_sent && cstate_eqb (s_cst s1) AIMD then
              let c := fl_div (fl_mul f3 (s_cwnd s1)) f4 in
              set_rto (set_cc s1 FastRecovery c (s_dup s1) (s_ssth s1) (f_to_u16 c)) (s_rto s1) 0%Z
            else s1 in
  let s3 := if cstate_eqb (s_cst s2) FastRecovery then set_rto s2 (s_rto s2) (s_rtoc s2 + 1)%Z else s2 in
  let s4 := if rto_sent && cstate_eqb (s_cst s3) SlowStart then
              let c := fl_div (s_cwnd s3) f2 in
              set_cc s3 FastRecovery c (s_dup s3) (f_to_u16 c) (s_wsize s3)
            else s3 in
  (s4, em, rto_sent).

(* repaired code: the back-off is capped, the retransmission buffer is left alone *)
Definition rto_tick (s : sender) : sender * list emit :=
  if s_closed s then (s, [])
  else
    let '(s4, em, _) := rto_tick_common s in
    ((if max_rto <? s_rto s4 then set_rto s4 max_rto (s_rtoc s4) else s4), em).

(* original code: "RTO exceeded, dropping frame": frames = frames[1:], RTO = RTT (rtt: oracle) *)
Definition rto_tick_orig (s : sender) (rtt : N) : sender * list emit :=
  if s_closed s then (s, [])
  else
    let '(s4, em, _) := rto_tick_common s in
    ((if (max_rto <? s_rto s4) && (0 <? len (map sf_no (s_frames s4)))
      then set_rto (set_frames s4 (tl (s_frames s4))) rtt (s_rtoc s4) else s4), em).

(* ---- sendFin *)
Definition send_fin (s : sender) : res (sender * list emit) :=
  if s_fin_sent s then Err
  else
    let empty := match s_frames s with [] => true | _ => false end in
    let pkt := {| sf_no := s_fno s; sf_data := []; sf_fin := true; sf_rtr := false; sf_queued := empty |} in
    Ok ({| s_ack := s_ack s; s_fno := (s_fno s + 1) mod two32;
           s_unacked := if empty then (s_unacked s + 1) mod two16 else s_unacked s;
           s_rtoc := s_rtoc s; s_cst := s_cst s; s_cwnd := s_cwnd s; s_dup := s_dup s; s_ssth := s_ssth s;
           s_wsize := s_wsize s; s_fin_sent := true; s_closed := s_closed s;
           s_frames := s_frames s ++ [pkt]; s_rto := s_rto s |},
        if empty then [(false, pkt)] else []).

(* ---- Reliable.lastAckTimeout (repaired): the 4*RTT timer of the lastAck state closes the tube only when
   at most the FIN is still unacknowledged; otherwise it re-arms.  (The original closed unconditionally.) *)
Definition last_ack_timeout_closes (s : sender) : bool :=
  negb (1 <? N.of_nat (List.length (s_frames s))).

(* ------------------------------------------------------------------ histories on the sender *)
(* An operation as the tube performs it, including the asynchronous follow-up in Reliable.send: a
   signalled windowOpen is consumed by the windowOpen case before the next operation (the white-box
   driver waits for the send goroutine to go idle after every operation). *)
Inductive sop :=
| SWrite (b : bytes)
| SAck (ack32 rtt : N)      (* a frame carrying the ACK flag arrives: recvAck + fast retransmission *)
| STick                     (* RetransmitTicker fires *)
| SFin.                     (* Close: sendFin *)

Definition set_closed (s : sender) : sender :=
  {| s_ack := s_ack s; s_fno := s_fno s; s_unacked := s_unacked s; s_rtoc := s_rtoc s; s_cst := s_cst s;
     s_cwnd := s_cwnd s; s_dup := s_dup s; s_ssth := s_ssth s; s_wsize := s_wsize s;
     s_fin_sent := s_fin_sent s; s_closed := true; s_frames := s_frames s; s_rto := s_rto s |}.

(* result: new state, emitted frames, code (0 ok, 1 error returned to the caller).
   Reliable.receive / Reliable.Close refuse to act on a closed tube (ErrBadTubeState / io.EOF), and an
   error from recvAck makes Reliable.receive enter the closed state (sender.Close). *)
Definition sstep_m (m : nat) (s : sender) (o : sop) : sender * list emit * N :=
  match o with
  | SWrite b =>
      match write_m m s b with
      | Ok (s1, sig) => if sig then let '(s2, em) := window_open s1 in (s2, em, 0) else (s1, [], 0)
      | _ => (s, [], 1)
      end
  | SAck a rtt =>
      if s_closed s then (s, [], 1) else
      match recv_ack s a rtt with
      | Ok (s1, missing, sig) =>
          let em1 := if missing =? 0 then [] else send_frame_by_number s1 missing in
          if sig then let '(s2, em2) := window_open s1 in (s2, em1 ++ em2, 0) else (s1, em1, 0)
      | _ => (set_closed s, [], 1)
      end
  | STick => let '(s1, em) := rto_tick s in (s1, em, 0)
  | SFin =>
      if s_closed s then (s, [], 1) else
      match send_fin s with
      | Ok (s1, em) => (s1, em, 0)
      | _ => (s, [], 1)
      end
  end.
Definition sstep := sstep_m (N.to_nat max_frame_data_length).

Fixpoint srun_m (m : nat) (s : sender) (ops : list sop) : sender * list emit :=
  match ops with
  | [] => (s, [])
  | o :: rest => let '(s1, em, _) := sstep_m m s o in
                 let '(s2, em2) := srun_m m s1 rest in (s2, em ++ em2)
  end.

(* ------------------------------------------------------------------ specification side *)
(* what the application wrote, as the sequence of successful writes; the frames of the stream *)
Definition stream_chunks (m : nat) (writes : list bytes) : list bytes := List.concat (map (segments m) writes).

(* projection of a buffered frame to what the peer can see of it *)
Definition sf_proj (f : sframe) : N * bytes * bool := (sf_no f, sf_data f, sf_fin f).

(* the frames of the stream with their numbers: chunk k (0-based) has number (k+1) mod 2^32; the FIN,
   if Close was called, comes last with the next number *)
Fixpoint spec_frames_from (k : N) (chunks : list bytes) (fin : bool) : list (N * bytes * bool) :=
  match chunks with
  | [] => if fin then [(k mod two32, [], true)] else []
  | c :: r => (k mod two32, c, false) :: spec_frames_from (k + 1) r fin
  end.
Definition spec_frames (chunks : list bytes) (fin : bool) := spec_frames_from 1 chunks fin.

(* the successful writes of a history, and whether Close was called *)
Fixpoint writes_of (s : sender) (m : nat) (ops : list sop) : list bytes :=
  match ops with
  | [] => []
  | o :: rest =>
      let '(s1, _, code) := sstep_m m s o in
      match o with
      | SWrite b => if code =? 0 then b :: writes_of s1 m rest else writes_of s1 m rest
      | _ => writes_of s1 m rest
      end
  end.

(* the highest acknowledgement number accepted so far (recvAck returned without error) *)
Fixpoint high_ack (m : nat) (s : sender) (ops : list sop) (h : N) : N :=
  match ops with
  | [] => h
  | o :: rest =>
      let '(s1, _, code) := sstep_m m s o in
      high_ack m s1 rest (match o with SAck a _ => if code =? 0 then N.max h a else h | _ => h end)
  end.

(* an upper bound on the number of frames a history can create *)
Fixpoint frames_upper (m : nat) (ops : list sop) : nat :=
  match ops with
  | [] => O
  | SWrite b :: rest => (List.length (segments m b) + frames_upper m rest)%nat
  | SFin :: rest => S (frames_upper m rest)
  | _ :: rest => frames_upper m rest
  end.

(* all acknowledgement numbers of a history are 32-bit values (they come from a 4-byte field) *)
Fixpoint acks_32bit (ops : list sop) : Prop :=
  match ops with
  | [] => True
  | SAck a _ :: rest => a < two32 /\ acks_32bit rest
  | _ :: rest => acks_32bit rest
  end.
