// c02: correspondence driver for C02 (any in-flight change aborts the handshake; success means
// equal fresh keys).
package main

import (
	"github.com/sirupsen/logrus"
	"verifharness/hsx"
	"verifharness/hv"
)

func main() {
	defer hv.Flush()
	logrus.SetLevel(logrus.PanicLevel)
	r := hv.NewRand(hv.Seed())
	w := hsx.NewWorld()
	w.C02Exact()
	w.C02Readers(r)
	w.C02Honest()
	w.C02Swap()
	w.C02KemEncoding()
	w.C02Sweep()
}
