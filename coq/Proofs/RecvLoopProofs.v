(* RecvLoopProofs.v — lemmas about Model/RecvLoop.v: the receive loops of server and client refine the
   per-session histories of Model/Packet.v, for every sequence of datagrams and local calls. *)
From Hop Require Import Base Replay ReplayProofs Packet PacketProofs RecvLoop.
From Coq Require Import ZifyN ZifyNat ZifyBool.
Ltac Zify.zify_post_hook ::= Z.div_mod_to_equations.
Open Scope N_scope.

(* ---------------------------------------------------------------- the table *)
Lemma lookup_update_same sv id s s' :
  lookup sv id = Some s -> sid s' = id -> lookup (update sv id s') id = Some s'.
Proof.
  intros L E. induction sv as [|x r IH]; simpl in *; [discriminate|].
  destruct (beq_bytes (sid x) id) eqn:B; simpl.
  - rewrite E, beq_bytes_refl. reflexivity.
  - rewrite B. now apply IH.
Qed.

Lemma pick_free_free cands sv id : pick_free cands sv = Some id -> lookup sv id = None.
Proof.
  induction cands as [|c r IH]; simpl; [discriminate|].
  destruct (lookup sv c) eqn:L; [exact IH|]. intros E. inversion E; subst. exact L.
Qed.

(* ---------------------------------------------------------------- size bounds (task: MaxPlaintextSize vs buffers) *)
Lemma max_plaintext_size_is_formula : max_plaintext_size = max_plaintext_size_formula.
Proof. reflexivity. Qed.
Lemma max_datagram_len_value : max_datagram_len = 64551.
Proof. reflexivity. Qed.
(* the inconsistency itself: a full-size datagram is 16 bytes over MaxTotalPacketSize (MacLen where TagLen is meant) *)
Lemma max_datagram_exceeds_max_total : max_datagram_len = max_total_packet_size + (tag_len - mac_len).
Proof. reflexivity. Qed.
(* ... but it fits the three receive buffers and a UDP datagram of either family *)
Lemma max_datagram_fits :
  max_datagram_len <= recv_buf_len /\ max_datagram_len <= udp4_max_payload /\ max_datagram_len <= udp6_max_payload.
Proof. unfold max_datagram_len, recv_buf_len, udp4_max_payload, udp6_max_payload, ad_len, max_plaintext_size, tag_len. lia. Qed.

Lemma sock_read_fits d : len d <= recv_buf_len -> sock_read d = d.
Proof. intros H. unfold sock_read. now apply take_all. Qed.
Lemma sock_read_len d : len (sock_read d) <= recv_buf_len.
Proof. unfold sock_read. rewrite len_take. lia. Qed.
Lemma sock_read_prefix d : sock_read d = take recv_buf_len d /\ len (sock_read d) = N.min recv_buf_len (len d).
Proof. split; [reflexivity|]. unfold sock_read. apply len_take. Qed.

Section Sizes.
  Variable seal : bytes -> bytes -> bytes -> bytes.

  Lemma write_msg_len max ss m ss' d :
    write_msg seal max ss m = Ok (ss', d) ->
    len (fst d) = 12 + len (sid ss) + tag_len + len m /\ len m <= max.
  Proof.
    unfold write_msg. destruct (N.ltb_spec max (len m)); [discriminate|].
    unfold send. destruct (closed ss); [discriminate|].
    destruct (seal_packet seal ss mt_transport m) as [[s1 pkt]| |] eqn:S; try discriminate.
    intros E. inversion E; subst. cbn [fst].
    destruct (seal_packet_ok _ _ _ _ _ _ S) as (_&E2&E3). subst pkt.
    rewrite len_app, len_header, E3. unfold tag_len. split; lia.
  Qed.

  Lemma write_loop_len max b bound : forall rs ss out total,
    12 + len (sid ss) + tag_len + max <= bound ->
    Forall (fun d : dgram => len (fst d) <= bound) out ->
    Forall (fun d : dgram => len (fst d) <= bound) (w_out (write_loop seal max ss b rs out total)).
  Proof.
    induction rs as [|[i e] r IH]; intros ss out total Hb Ho; simpl; [exact Ho|].
    destruct (write_msg seal max ss (slice b i e)) as [[s1 d]| |] eqn:W; simpl; try exact Ho.
    destruct (write_msg_len _ _ _ _ _ W) as [L1 L2].
    destruct (write_msg_sbc _ _ _ _ _ _ W) as (E1&_).
    apply IH; [rewrite E1; exact Hb|].
    apply Forall_app. split; [exact Ho|]. constructor; [cbn beta; unfold tag_len in *; lia|constructor].
  Qed.

  (* every datagram a Write of ANY size hands to the socket is at most 16 + max + 32 bytes long *)
  Theorem write_out_len max ss b w :
    len (sid ss) = 4 -> write seal max ss b = Some w ->
    Forall (fun d : dgram => len (fst d) <= ad_len + max + tag_len) (w_out w).
  Proof.
    intros Hs. unfold write. destruct (len b <=? max).
    - destruct (write_msg seal max ss b) as [[s1 d]| |] eqn:W; intros E; inversion E; simpl; constructor; [|constructor].
      destruct (write_msg_len _ _ _ _ _ W) as [L1 L2]. cbn beta. unfold ad_len, tag_len in *. lia.
    - destruct (chunk_ranges _ _ _ _); [|discriminate]. intros E. inversion E.
      apply write_loop_len; [unfold ad_len, tag_len; lia|constructor].
  Qed.

  (* with max = MaxPlaintextSize: no receive buffer on the path truncates it *)
  Theorem write_fits_receive_buffers ss b w :
    len (sid ss) = 4 -> write seal max_plaintext_size ss b = Some w ->
    Forall (fun d : dgram => len (fst d) <= max_datagram_len /\ sock_read (fst d) = fst d /\
                             len (fst d) <= udp4_max_payload) (w_out w).
  Proof.
    intros Hs W. eapply Forall_impl; [|exact (write_out_len _ _ _ _ Hs W)].
    intros d Hd. cbn beta in Hd. change (len (fst d) <= max_datagram_len) in Hd.
    pose proof max_datagram_fits as (F1&F2&_).
    split; [exact Hd|]. split; [apply sock_read_fits|]; (eapply N.le_trans; [exact Hd|assumption]).
  Qed.

  Theorem write_msg_fits_receive_buffers ss m ss' d :
    len (sid ss) = 4 -> write_msg seal max_plaintext_size ss m = Ok (ss', d) ->
    len (fst d) <= max_datagram_len /\ sock_read (fst d) = fst d /\ len (fst d) <= udp4_max_payload.
  Proof.
    intros Hs W. destruct (write_msg_len _ _ _ _ _ W) as [L1 L2].
    pose proof max_datagram_fits as (F1&F2&_).
    assert (len (fst d) <= max_datagram_len) by (unfold max_datagram_len, ad_len, tag_len, max_plaintext_size in *; lia).
    split; [assumption|]. split; [apply sock_read_fits|]; (eapply N.le_trans; [eassumption|assumption]).
  Qed.
End Sizes.

(* ---------------------------------------------------------------- histories: sid, authentic subsequence *)
Section Hist.
  Variable seal : bytes -> bytes -> bytes -> bytes.
  Variable open : bytes -> bytes -> bytes -> option bytes.
  Variable max : N.

  Lemma ep_step_sid ss e : sid (fst (ep_step seal open max ss e)) = sid ss.
  Proof.
    destruct e as [a pkt|n|n|mt m|b|].
    - simpl. destruct (session_input open ss a pkt) as [[s1 o]| |] eqn:S; try reflexivity.
      cbn [fst]. now destruct (session_input_frame open _ _ _ _ _ S) as (E&_).
    - now destruct (ep_step_local seal open max ss (EvReadMsg n)) as (E&_); [intros ? ? X; discriminate|].
    - now destruct (ep_step_local seal open max ss (EvRead n)) as (E&_); [intros ? ? X; discriminate|].
    - now destruct (ep_step_local seal open max ss (EvSend mt m)) as (E&_); [intros ? ? X; discriminate|].
    - now destruct (ep_step_local seal open max ss (EvWrite b)) as (E&_); [intros ? ? X; discriminate|].
    - reflexivity.
  Qed.

  Lemma ep_run_app : forall e1 ss e2,
    fst (ep_run seal open max ss (e1 ++ e2)) = fst (ep_run seal open max (fst (ep_run seal open max ss e1)) e2).
  Proof.
    induction e1 as [|e r IH]; intros ss e2; [reflexivity|].
    cbn [app Packet.ep_run]. destruct (ep_step seal open max ss e) as [s1 o].
    specialize (IH s1 e2).
    destruct (ep_run seal open max s1 (r ++ e2)) as [s2 os].
    destruct (ep_run seal open max s1 r) as [s3 os3]. cbn [fst] in *. exact IH.
  Qed.

  Lemma ep_run_one ss e : fst (ep_run seal open max ss [e]) = fst (ep_step seal open max ss e).
  Proof. cbn [Packet.ep_run]. destruct (ep_step seal open max ss e) as [s1 o]. reflexivity. Qed.

  (* C10 (session part): the state after ANY history equals the state after its authentic fresh subsequence *)
  Theorem auth_only_same_state : forall evs ss,
    fst (ep_run seal open max ss (auth_only seal open max ss evs)) = fst (ep_run seal open max ss evs).
  Proof.
    induction evs as [|e r IH]; intros ss; [reflexivity|].
    cbn [auth_only Packet.ep_run].
    destruct (ep_step seal open max ss e) as [s1 o] eqn:E.
    assert (Keep : fst (ep_run seal open max ss (e :: auth_only seal open max s1 r)) =
                   fst (let '(s2, os) := ep_run seal open max s1 r in (s2, o :: os))).
    { cbn [Packet.ep_run]. rewrite E. specialize (IH s1).
      destruct (ep_run seal open max s1 (auth_only seal open max s1 r)) as [s2 os].
      destruct (ep_run seal open max s1 r) as [s3 os3]. exact IH. }
    assert (Skip : s1 = ss ->
                   fst (ep_run seal open max ss (auth_only seal open max s1 r)) =
                   fst (let '(s2, os) := ep_run seal open max s1 r in (s2, o :: os))).
    { intros ->. specialize (IH ss). destruct (ep_run seal open max ss r) as [s3 os3]. exact IH. }
    destruct e as [a pkt|n|n|mt m|b|]; try exact Keep.
    simpl in E. destruct (session_input open ss a pkt) as [[s' oc]| |] eqn:S; inversion E; subst.
    - destruct (outcome_authentic oc) eqn:A; [exact Keep|].
      apply Skip. exact (reject_preserves_state open _ _ _ _ _ S A).
    - now apply Skip.
    - now apply Skip.
  Qed.

  (* ... and every datagram of that subsequence is authentic and fresh when it arrives *)
  Theorem auth_only_all_authentic : forall evs ss,
    all_authentic seal open max ss (auth_only seal open max ss evs).
  Proof.
    induction evs as [|e r IH]; intros ss; [exact I|].
    cbn [auth_only]. destruct (ep_step seal open max ss e) as [s1 o] eqn:E.
    assert (Skip : s1 = ss -> all_authentic seal open max ss (auth_only seal open max s1 r)).
    { intros ->. apply IH. }
    destruct e as [a pkt|n|n|mt m|b|];
      try (cbn [all_authentic]; rewrite E; apply IH).
    pose proof E as E'. simpl in E'.
    destruct (session_input open ss a pkt) as [[s' oc]| |] eqn:S; inversion E'; subst.
    - destruct (outcome_authentic oc) eqn:A.
      + cbn [all_authentic]. rewrite E. split; [|apply IH].
        destruct (session_input_inv open _ _ _ _ _ S) as [[A' _]|[p [Hp _]]]; [congruence|]. now exists p.
      + apply Skip. exact (reject_preserves_state open _ _ _ _ _ S A).
    - now apply Skip.
    - now apply Skip.
  Qed.
End Hist.

(* ---------------------------------------------------------------- the server loop *)
Section Server.
  Variable seal : bytes -> bytes -> bytes -> bytes.
  Variable open : bytes -> bytes -> bytes -> option bytes.
  Variable max : N.
  Variable H : Type.
  Variable HS : H -> list bytes -> addr -> bytes -> option (H * list hs_eff).
  Notation srv_step := (srv_step seal open max H HS).
  Notation srv_run := (srv_run seal open max H HS).
  Notation srv_dgram := (srv_dgram open H HS).
  Notation no_finish := (no_finish seal open max H HS).
  Notation step_quiet := (step_quiet H HS).
  Notation ep_run := (ep_run seal open max).
  Notation ep_step := (ep_step seal open max).

  Lemma crashed_sticky : forall evs st, l_crashed H st = true -> srv_run st evs = st.
  Proof.
    induction evs as [|e r IH]; intros st Hc; [reflexivity|].
    unfold RecvLoop.srv_run in *. cbn [fold_left]. unfold RecvLoop.srv_step at 2. rewrite Hc. now apply IH.
  Qed.

  Lemma run_not_crashed_head st e r :
    l_crashed H (srv_run st (e :: r)) = false -> l_crashed H (srv_step st e) = false.
  Proof.
    intros Hr. destruct (l_crashed H (srv_step st e)) eqn:C; [|reflexivity].
    unfold RecvLoop.srv_run in Hr. cbn [fold_left] in Hr.
    change (l_crashed H (srv_run (srv_step st e) r) = false) in Hr.
    rewrite (crashed_sticky r _ C) in Hr. congruence.
  Qed.

  (* handleSessionMessage inside the loop, seen from session B *)
  Lemma server_handle_view tab a d B sB tab' o :
    lookup tab B = Some sB -> server_handle open tab a d = Ok (tab', o) ->
    lookup tab' B = Some (fst (ep_run sB (match peek_session d with
                                          | Some id => if beq_bytes id B then [EvIn a d] else []
                                          | None => [] end))).
  Proof.
    intros L. unfold server_handle. destruct (peek_session d) as [id|]; [|intros E; inversion E; subst; exact L].
    destruct (beq_bytes id B) eqn:Bq.
    - apply beq_bytes_eq in Bq. subst id. rewrite L.
      destruct (session_input open sB a d) as [[s' o']| |] eqn:S; try discriminate.
      intros E. inversion E; subst. rewrite ep_run_one. simpl. rewrite S. cbn [fst].
      apply lookup_update_same with sB; [exact L|].
      destruct (session_input_frame open _ _ _ _ _ S) as (E1&_). rewrite E1. now apply lookup_sid with tab.
    - destruct (lookup tab id) as [ss|] eqn:L2; [|intros E; inversion E; subst; exact L].
      destruct (session_input open ss a d) as [[s' o']| |] eqn:S; try discriminate.
      intros E. inversion E; subst. cbn [Packet.ep_run fst]. rewrite <- L.
      apply lookup_update_other.
      + destruct (session_input_frame open _ _ _ _ _ S) as (E1&_). rewrite E1. now apply lookup_sid with tab.
      + intros ->. rewrite beq_bytes_refl in Bq. discriminate.
  Qed.

  (* the handshake side cannot touch an existing session except by finishing it *)
  Lemma apply_eff_quiet B sB tab e tab' :
    lookup tab B = Some sB -> eff_quiet B e -> apply_eff tab e = Some tab' -> lookup tab' B = Some sB.
  Proof.
    intros L Q. destruct e as [cands a0|id kr ks cap full]; cbn [apply_eff].
    - destruct (pick_free (firstn 100 cands) tab) as [id|] eqn:P; [|discriminate].
      intros E. inversion E; subst. cbn [lookup pending_sess sid]. destruct (beq_bytes id B) eqn:Bq; [|exact L].
      apply beq_bytes_eq in Bq. subst id. apply pick_free_free in P. congruence.
    - destruct (lookup tab id) as [s|] eqn:L2; intros E; inversion E; subst; [|exact L].
      rewrite <- L. apply lookup_update_other; [simpl; now apply lookup_sid with tab|].
      simpl in Q. congruence.
  Qed.

  Lemma apply_effs_quiet B sB : forall es tab tab',
    lookup tab B = Some sB -> Forall (eff_quiet B) es -> apply_effs tab es = Some tab' -> lookup tab' B = Some sB.
  Proof.
    induction es as [|e r IH]; intros tab tab' L Q; simpl; [intros E; inversion E; subst; exact L|].
    destruct (apply_eff tab e) as [t1|] eqn:A; [|discriminate].
    inversion Q; subst. apply IH; [|assumption]. eapply apply_eff_quiet; eauto.
  Qed.

  (* one step of the loop, seen from session B *)
  Lemma srv_step_view st e B sB :
    l_crashed H st = false -> lookup (l_tab H st) B = Some sB ->
    l_crashed H (srv_step st e) = false -> step_quiet B st e ->
    lookup (l_tab H (srv_step st e)) B = Some (fst (ep_run sB (ev_for B e))).
  Proof.
    intros Hc L Hc' Q. unfold RecvLoop.srv_step in *. rewrite Hc in *.
    destruct e as [a raw|id e].
    - unfold RecvLoop.srv_dgram in *. unfold ev_for. unfold RecvLoop.step_quiet in Q.
      destruct (classify (sock_read raw)); try exact L.
      + (* handshake *)
        destruct (HS (l_h H st) (map sid (l_tab H st)) a (sock_read raw)) as [[h' es]|]; [|simpl in Hc'; discriminate].
        destruct (apply_effs (l_tab H st) es) as [tab'|] eqn:A; [|simpl in Hc'; discriminate].
        simpl. eapply apply_effs_quiet; eauto.
      + destruct (server_handle open (l_tab H st) a (sock_read raw)) as [[tab' o]| |] eqn:S.
        * simpl. eapply server_handle_view; eauto.
        * destruct (peek_session (sock_read raw)) as [id|]; [|exact L].
          (* Err from server_handle: impossible, but harmless *)
          exfalso. unfold server_handle in S. destruct (peek_session (sock_read raw)) as [id'|]; [|discriminate].
          destruct (lookup (l_tab H st) id') as [ss|]; [|discriminate].
          destruct (session_input open ss a (sock_read raw)) as [[s' o']| |] eqn:S2; try discriminate.
          exact (session_input_never_err open _ _ _ S2).
        * simpl in Hc'. discriminate.
      + destruct (server_handle open (l_tab H st) a (sock_read raw)) as [[tab' o]| |] eqn:S.
        * simpl. eapply server_handle_view; eauto.
        * exfalso. unfold server_handle in S. destruct (peek_session (sock_read raw)) as [id'|]; [|discriminate].
          destruct (lookup (l_tab H st) id') as [ss|]; [|discriminate].
          destruct (session_input open ss a (sock_read raw)) as [[s' o']| |] eqn:S2; try discriminate.
          exact (session_input_never_err open _ _ _ S2).
        * simpl in Hc'. discriminate.
    - unfold ev_for. destruct (beq_bytes id B) eqn:Bq.
      + apply beq_bytes_eq in Bq. subst id. rewrite L. cbn [l_tab]. rewrite ep_run_one.
        apply lookup_update_same with sB; [exact L|]. rewrite ep_step_sid. now apply lookup_sid with (l_tab H st).
      + destruct (lookup (l_tab H st) id) as [s|] eqn:L2; [|exact L].
        cbn [l_tab Packet.ep_run fst]. rewrite <- L. apply lookup_update_other.
        * rewrite ep_step_sid. now apply lookup_sid with (l_tab H st).
        * intros ->. rewrite beq_bytes_refl in Bq. discriminate.
  Qed.

  (* REFINEMENT, for every sequence of datagrams (any bytes, any length, any source, any message type) and
     local calls: session B's record after the loop has run is what the history model of Packet.v computes
     from B's own events alone *)
  Theorem srv_loop_refines_session : forall evs st B sB,
    lookup (l_tab H st) B = Some sB ->
    l_crashed H (srv_run st evs) = false ->
    no_finish B st evs ->
    lookup (l_tab H (srv_run st evs)) B = Some (fst (ep_run sB (evs_for B evs))).
  Proof.
    induction evs as [|e r IH]; intros st B sB L Hc Q; [exact L|].
    destruct Q as [Q1 Q2].
    pose proof (run_not_crashed_head _ _ _ Hc) as Hc1.
    assert (Hc0 : l_crashed H st = false).
    { destruct (l_crashed H st) eqn:C; [|reflexivity].
      unfold RecvLoop.srv_step in Hc1. rewrite C in Hc1. congruence. }
    pose proof (srv_step_view st e B sB Hc0 L Hc1 Q1) as V.
    unfold evs_for. cbn [flat_map]. fold (evs_for B r). rewrite ep_run_app.
    unfold RecvLoop.srv_run. cbn [fold_left].
    apply IH; [exact V| exact Hc | exact Q2].
  Qed.

  (* cross-session isolation, one step: an event that is not addressed to B (a datagram carrying another
     session id, of any type and length, from any address; a handshake datagram that does not finish B; a
     local call on another session) leaves B's record exactly as it was — whether or not the step crashes *)
  Theorem srv_step_other_session_untouched st e B sB :
    lookup (l_tab H st) B = Some sB -> ev_for B e = [] -> step_quiet B st e ->
    lookup (l_tab H (srv_step st e)) B = Some sB.
  Proof.
    intros L E Q. destruct (l_crashed H st) eqn:Hc0; [unfold RecvLoop.srv_step; now rewrite Hc0|].
    destruct (l_crashed H (srv_step st e)) eqn:Hc1.
    - (* the step crashed: the table is not touched *)
      unfold RecvLoop.srv_step in *. rewrite Hc0 in *. destruct e as [a raw|id e0].
      + unfold RecvLoop.srv_dgram in *. destruct (classify (sock_read raw)); try exact L.
        * destruct (HS _ _ _ _) as [[h' es]|]; [|exact L].
          destruct (apply_effs _ _); [simpl in Hc1; discriminate|exact L].
        * destruct (server_handle _ _ _ _) as [[t o]| |]; try exact L. simpl in Hc1. discriminate.
        * destruct (server_handle _ _ _ _) as [[t o]| |]; try exact L. simpl in Hc1. discriminate.
      + destruct (lookup _ id); [simpl in Hc1; discriminate|exact L].
    - rewrite (srv_step_view st e B sB Hc0 L Hc1 Q), E. reflexivity.
  Qed.
End Server.

(* ---------------------------------------------------------------- what can crash the Serve goroutine *)
Definition open_len_ok (open : bytes -> bytes -> bytes -> option bytes) : Prop :=
  forall k ad ct p, open k ad ct = Some p -> len p + 32 = len ct.

Lemma server_handle_no_panic open sv a pkt : open_len_ok open -> server_handle open sv a pkt <> Panic.
Proof.
  intros Ho Hp. destruct (server_never_panics_unless_aead_lies open _ _ _ Hp) as (ss&k&p&_&_&Hop&Hne).
  apply Ho in Hop. unfold pkt_body in Hop. rewrite len_drop in Hop. unfold ad_len in Hop. lia.
Qed.

Lemma client_handle_no_panic open ss a pkt : open_len_ok open -> client_handle open ss a pkt <> Panic.
Proof.
  intros Ho. unfold client_handle. destruct (peek_session pkt) as [id|]; [|discriminate].
  destruct (negb (beq_bytes id (sid ss))); [discriminate|]. intros Hp.
  destruct (panic_only_if_aead_length_lie open _ _ _ Hp) as (k&p&_&Hop&Hne).
  apply Ho in Hop. unfold pkt_body in Hop. rewrite len_drop in Hop. unfold ad_len in Hop. lia.
Qed.

Section Crash.
  Variable seal : bytes -> bytes -> bytes -> bytes.
  Variable open : bytes -> bytes -> bytes -> option bytes.
  Variable max : N.
  Variable H : Type.
  Variable HS : H -> list bytes -> addr -> bytes -> option (H * list hs_eff).

  (* with an AEAD that is honest about lengths (Kravatte-SANSE is: PacketSanseProofs.sanse_open_len), only a
     handshake handler can bring the receive goroutine down: no transport / control / unknown-type / short
     datagram and no Handle call ever does *)
  Theorem srv_crash_only_in_handshake_handler st e :
    open_len_ok open -> l_crashed H st = false -> l_crashed H (srv_step seal open max H HS st e) = true ->
    exists a raw, e = LDgram a raw /\ classify (sock_read raw) = DHandshake.
  Proof.
    intros Ho Hc. unfold srv_step. rewrite Hc. destruct e as [a raw|id e0].
    - unfold srv_dgram. destruct (classify (sock_read raw)) eqn:Cl; try congruence.
      + intros _. now exists a, raw.
      + destruct (server_handle open (l_tab H st) a (sock_read raw)) as [[t o]| |] eqn:S; simpl; try congruence.
        exfalso. exact (server_handle_no_panic _ _ _ _ Ho S).
      + destruct (server_handle open (l_tab H st) a (sock_read raw)) as [[t o]| |] eqn:S; simpl; try congruence.
        exfalso. exact (server_handle_no_panic _ _ _ _ Ho S).
    - destruct (lookup (l_tab H st) id); simpl; congruence.
  Qed.
End Crash.

(* ---------------------------------------------------------------- the client's listen loop *)
Section Client.
  Variable seal : bytes -> bytes -> bytes -> bytes.
  Variable open : bytes -> bytes -> bytes -> option bytes.
  Variable max : N.
  Variable C : Type.
  Variable CHS : C -> bytes -> C + option sess.
  Notation cli_step := (cli_step seal open max C CHS).
  Notation cli_run := (cli_run seal open max C CHS).
  Notation ep_run := (ep_run seal open max).
  Notation ep_step := (ep_step seal open max).

  Lemma ep_run_sid : forall evs ss, sid (fst (ep_run ss evs)) = sid ss.
  Proof.
    induction evs as [|e r IH]; intros ss; [reflexivity|].
    cbn [Packet.ep_run]. destruct (ep_step ss e) as [s1 o] eqn:E. specialize (IH s1).
    destruct (ep_run s1 r) as [s2 os]. cbn [fst] in *. rewrite IH.
    change s1 with (fst (s1, o)). rewrite <- E. apply ep_step_sid.
  Qed.

  Lemma cli_step_view s e s1 :
    cli_step (COpen C s) e = COpen C s1 -> s1 = fst (ep_run s (cli_ev_for (sid s) e)).
  Proof.
    destruct e as [a raw|id e0]; cbn [RecvLoop.cli_step cli_ev_for].
    - unfold client_handle. destruct (peek_session (sock_read raw)) as [id|]; [|intros E; inversion E; reflexivity].
      destruct (beq_bytes id (sid s)) eqn:Bq; cbn [negb]; [|intros E; inversion E; reflexivity].
      rewrite ep_run_one. cbn [Packet.ep_step].
      destruct (session_input open s a (sock_read raw)) as [[s' o]| |]; intros E; inversion E; reflexivity.
    - intros E. inversion E. now rewrite ep_run_one.
  Qed.

  Lemma cli_not_open_sticky : forall evs st, (forall s, st <> COpen C s) -> (forall c, st <> CHs C c) ->
    cli_run st evs = st.
  Proof.
    induction evs as [|e r IH]; intros st H1 H2; [reflexivity|].
    unfold RecvLoop.cli_run. cbn [fold_left].
    assert (E : cli_step st e = st).
    { destruct st as [c|s| |s]; try reflexivity; [exfalso; eapply H2; reflexivity|exfalso; eapply H1; reflexivity]. }
    rewrite E. now apply IH.
  Qed.

  (* REFINEMENT for the listen loop: for every sequence of datagrams (any bytes, length, source, type) and
     Handle calls, as long as listen has not panicked the session record is what the history model computes
     from the datagrams that carry its id *)
  Theorem cli_loop_refines_session : forall evs s s',
    cli_run (COpen C s) evs = COpen C s' -> s' = fst (ep_run s (cli_evs_for (sid s) evs)).
  Proof.
    induction evs as [|e r IH]; intros s s' E; [inversion E; reflexivity|].
    unfold RecvLoop.cli_run in E. cbn [fold_left] in E.
    destruct (cli_step (COpen C s) e) as [c|s1| |s1] eqn:S.
    - destruct e; cbn [RecvLoop.cli_step] in S; [destruct (client_handle _ _ _ _) as [[? ?]| |]|]; discriminate.
    - pose proof (cli_step_view _ _ _ S) as V.
      unfold cli_evs_for. cbn [flat_map]. rewrite ep_run_app. rewrite <- V.
      assert (Es : sid s1 = sid s) by (rewrite V; apply ep_run_sid).
      rewrite <- Es. apply IH. exact E.
    - change (cli_run (CFail C) r = COpen C s') in E. rewrite cli_not_open_sticky in E; discriminate.
    - change (cli_run (CCrash C s1) r = COpen C s') in E. rewrite cli_not_open_sticky in E; discriminate.
  Qed.

  (* listen never panics when the AEAD is honest about lengths *)
  Theorem cli_never_crashes : forall evs s,
    open_len_ok open -> forall s', cli_run (COpen C s) evs <> CCrash C s'.
  Proof.
    intros evs s Ho. revert s. induction evs as [|e r IH]; intros s s'; [discriminate|].
    unfold RecvLoop.cli_run. cbn [fold_left].
    destruct (cli_step (COpen C s) e) as [c|s1| |s1] eqn:S.
    - destruct e; cbn [RecvLoop.cli_step] in S; [destruct (client_handle _ _ _ _) as [[? ?]| |]|]; discriminate.
    - apply IH.
    - change (cli_run (CFail C) r <> CCrash C s'). rewrite cli_not_open_sticky; discriminate.
    - exfalso. destruct e as [a raw|id e0]; cbn [RecvLoop.cli_step] in S; [|discriminate].
      destruct (client_handle open s a (sock_read raw)) as [[? ?]| |] eqn:Hh; try discriminate.
      exact (client_handle_no_panic _ _ _ _ Ho Hh).
  Qed.

  (* before the handshake has completed there is no session a datagram could reach: whatever arrives —
     a transport packet included — is consumed as the next handshake message *)
  Theorem cli_handshaking_consumes_any_datagram c a raw :
    cli_step (CHs C c) (LDgram a raw) =
    match CHS c (sock_read raw) with inl c' => CHs C c' | inr (Some s) => COpen C s | inr None => CFail C end.
  Proof. reflexivity. Qed.
End Client.
