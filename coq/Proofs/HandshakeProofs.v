(* HandshakeProofs.v — lemmas about the message readers of Model/Handshake.v *)
From Hop Require Import Base Handshake.
From Coq Require Import ZifyN ZifyNat ZifyBool.
Open Scope N_scope.
Local Arguments N.add : simpl never.
Local Arguments N.mul : simpl never.
Local Opaque N.add N.mul.

Lemma beq_bytes_eq : forall a b, beq_bytes a b = true -> a = b.
Proof.
  induction a as [|x a IH]; destruct b as [|y b]; cbn; intros H; try discriminate; auto.
  apply andb_true_iff in H as [H1 H2]. apply N.eqb_eq in H1. f_equal; auto.
Qed.

Lemma beq_bytes_refl : forall a, beq_bytes a a = true.
Proof. induction a; cbn; auto. rewrite N.eqb_refl. auto. Qed.

Lemma negb_false : forall b, negb b = false -> b = true.
Proof. destruct b; auto. Qed.

(* destruct the scrutinee of the first match / if in hypothesis H *)
Ltac dm H :=
  match type of H with
  | context [match ?x with _ => _ end] =>
    match x with
    | context [match _ with _ => _ end] => fail 1
    | _ => destruct x eqn:?
    end
  end.

Ltac inv H := inversion H; subst; clear H.

Ltac clean_hyps :=
  repeat match goal with H : negb _ = false |- _ => apply negb_false in H end;
  repeat match goal with H : beq_bytes _ _ = true |- _ => apply beq_bytes_eq in H end;
  repeat match goal with H : (_ && _) = true |- _ => apply andb_true_iff in H; destruct H end;
  repeat match goal with H : (_ =? _) = true |- _ => apply N.eqb_eq in H end;
  repeat match goal with H : (_ <? _) = false |- _ => apply N.ltb_ge in H end.

Definition certs_of (p : bytes) (clen : N) : res (bytes * bytes) :=
  match read_vector p with
  | Ok (ll, leaf) =>
    match read_vector (drop (2 + ll) p) with
    | Ok (il, inter) => if ll + il + 4 =? clen then Ok (leaf, inter) else Err
    | _ => Err
    end
  | _ => Err
  end.

Lemma decrypt_certs_eq : forall O T c,
  decrypt_certs O T c = (OCrypt (o_dec O T c) :: T, certs_of (o_dec O T c) (len c)).
Proof. reflexivity. Qed.

(* ------------------------------------------------------------------ ServerAuth *)
(* the transcripts a ServerAuth b read from state T goes through, given the two DH results *)
Definition sa_L (b : bytes) : N := at_ b 2 * 256 + at_ b 3.
Definition sa_off : N := HeaderLen + SessionIDLen + DHLen.
Definition sa_T4 (T : tr) (b ee : bytes) : tr :=
  OAbsorb ee :: OAbsorb (slice b (HeaderLen + SessionIDLen) DHLen) :: OAbsorb (slice b HeaderLen SessionIDLen)
  :: OAbsorb (take HeaderLen b) :: T.
Definition sa_certs_pt (O : doracle) (T : tr) (b ee : bytes) : bytes :=
  o_dec O (sa_T4 T b ee) (slice b sa_off (sa_L b)).
(* before the certificate tag is squeezed *)
Definition sa_T5 (O : doracle) (T : tr) (b ee : bytes) : tr := OCrypt (sa_certs_pt O T b ee) :: sa_T4 T b ee.
(* before the final MAC is squeezed: DH(e, s) has been absorbed *)
Definition sa_T7 (O : doracle) (T : tr) (b ee des : bytes) : tr :=
  OAbsorb des :: OSqueeze MacLen :: sa_T5 O T b ee.

Theorem read_server_auth_accept : forall O X ce pol T b T' r,
  read_server_auth O X ce pol T b = (T', Ok r) ->
  exists ee des leaf inter,
    at_ b 0 = MT_ServerAuth /\ SAMinLen + sa_L b <= len b /\ sa_n r = SAMinLen + sa_L b /\
    sa_sid r = slice b HeaderLen SessionIDLen /\ sa_eph r = slice b (HeaderLen + SessionIDLen) DHLen /\
    x_dh X ce (sa_eph r) = Some ee /\
    certs_of (sa_certs_pt O T b ee) (len (slice b sa_off (sa_L b))) = Ok (leaf, inter) /\
    slice b (sa_off + sa_L b) MacLen = o_sq O (sa_T5 O T b ee) MacLen /\
    x_policy X pol leaf inter = Some (sa_pk r) /\
    x_dh X ce (sa_pk r) = Some des /\
    slice b (sa_off + sa_L b + MacLen) MacLen = o_sq O (sa_T7 O T b ee des) MacLen /\
    T' = OSqueeze MacLen :: sa_T7 O T b ee des.
Proof.
  intros O X ce pol T b T' r H.
  unfold read_server_auth in H.
  unfold squeeze, absorb in H.
  repeat (first [rewrite decrypt_certs_eq in H | dm H]; try discriminate).
  injection H as <- <-.
  clean_hyps.
  do 4 eexists.
  unfold sa_T7, sa_T5, sa_certs_pt, sa_T4, sa_L, sa_off in *.
  cbn [sa_n sa_sid sa_eph sa_pk].
  repeat split; eauto.
Qed.
