//go:build verif

// White-box access for the C03/C15 correspondence driver (harness/cmd/c03, harness/cmd/c15).
// Add-only: mapped into the transport package with `go build -overlay`; contains no logic of
// its own beyond constructing sessions with chosen keys (what the handshake does in
// finishHandshake / clientHandshakeLocked) and reading private fields.
package transport

import (
	"net"
	"time"
)

// VerifSessionConfig describes an established session as the handshake would leave it.
type VerifSessionConfig struct {
	SessionID SessionID
	ReadKey   *[KeyLen]byte // nil = session whose keys are not yet derived (server between ClientAck and ClientAuth)
	WriteKey  [KeyLen]byte
	Remote    *net.UDPAddr
	BufLen    int
	Count     uint64
	Closed    bool
}

// VerifNewSession builds a SessionState + Handle pair on top of conn.
func VerifNewSession(conn UDPLike, cfg VerifSessionConfig) *Handle {
	ss := &SessionState{sessionID: cfg.SessionID, remoteAddr: cfg.Remote, count: cfg.Count}
	// one direction in each key slot, like finishHandshake does
	ss.serverToClientKey = cfg.WriteKey
	ss.writeKey = &ss.serverToClientKey
	if cfg.ReadKey != nil {
		ss.clientToServerKey = *cfg.ReadKey
		ss.readKey = &ss.clientToServerKey
	}
	ss.handle = newHandleForSession(conn, ss, nil, cfg.BufLen)
	ss.handleState = established
	if cfg.Closed {
		ss.m.Lock()
		ss.closeLocked()
		ss.m.Unlock()
	}
	// reads never block the driver: buffered data first, then EOF if closed, then timeout
	ss.handle.recv.SetDeadline(time.Now().Add(-time.Hour))
	return ss.handle
}

// VerifNewServer returns a Server whose session table holds exactly the given sessions.
func VerifNewServer(conn UDPLike, hs ...*Handle) *Server {
	s := &Server{udpConn: conn, sessions: map[SessionID]*SessionState{}}
	for _, h := range hs {
		s.sessions[h.ss.sessionID] = h.ss
	}
	return s
}

// VerifNewClient returns a Client that owns the given session.
func VerifNewClient(conn UDPLike, h *Handle) *Client {
	c := &Client{underlyingConn: conn, ss: h.ss, handshakeDone: make(chan struct{}), closeDone: make(chan struct{})}
	c.state.Store(clientStateOpen)
	return c
}

func (s *Server) VerifHandleSessionMessage(addr *net.UDPAddr, msg []byte) error {
	return s.handleSessionMessage(addr, msg)
}

func (c *Client) VerifHandleSessionMessage(addr *net.UDPAddr, msg []byte) error {
	return c.handleSessionMessage(addr, msg)
}

// VerifState is the projection of a session the correspondence compares.
type VerifState struct {
	Closed   bool
	Remote   *net.UDPAddr
	Count    uint64
	Wt       uint64
	Blocks   [8]uint64
	QueueLen int
}

func (c *Handle) VerifState() VerifState {
	c.ss.m.Lock()
	defer c.ss.m.Unlock()
	return VerifState{
		Closed:   c.ss.handleState == closed,
		Remote:   c.ss.remoteAddr,
		Count:    c.ss.count,
		Wt:       c.ss.window.wt,
		Blocks:   c.ss.window.blocks,
		QueueLen: len(c.recv.C),
	}
}

// VerifSend is Handle.send with a chosen message type (nothing in the tree sends control messages).
func (c *Handle) VerifSend(mt byte, b []byte) error { return c.send(MessageType(mt), b) }

// VerifReadPacket calls readPacketLocked directly with a plaintext buffer of the given length.
func (c *Handle) VerifReadPacket(bufLen int, pkt []byte) (n int, mt byte, out []byte, err error) {
	c.ss.m.Lock()
	defer c.ss.m.Unlock()
	plaintext := make([]byte, bufLen)
	n, t, err := c.ss.readPacketLocked(plaintext, pkt, c.ss.readKey)
	if err == nil {
		out = plaintext[:n]
	}
	return n, byte(t), out, err
}

// VerifSetWindow puts the replay window into the state reached by marking the given counters.
func (c *Handle) VerifMark(cs ...uint64) {
	c.ss.m.Lock()
	defer c.ss.m.Unlock()
	for _, x := range cs {
		c.ss.window.Mark(x)
	}
}

// VerifSetCount sets the send counter.
func (c *Handle) VerifSetCount(n uint64) {
	c.ss.m.Lock()
	defer c.ss.m.Unlock()
	c.ss.count = n
}
