// c07: what a session admitted through authorization grants may start.
//
// Two levels, same case format, same Coq checker (the C05/C07 model of Model/Authz.v):
//   - direct: AddAuthGrant / login through the real checkAuthorization / exec requests through
//     the real checkCmd of the very session object the login produced, clock scripted through
//     thunks.TimeNow; thousands of histories;
//   - dispatch: every connection runs the real hopSession.start over an in-memory tube muxer; the
//     client side opens exec, port-forwarding-control and authgrant tubes as hopclient does and
//     watches what the server starts (a command handed to thunks.StartCmd, a pty shell, the
//     server's dial to the forwarding target, a stored grant).
//
// The specification oracle (hvxauthz/oracle.go, from the property text) judges every started
// action of a grant-admitted session.
package main

import (
	"fmt"
	"strings"
	"time"

	"verifharness/hv"
	ax "verifharness/hvxauthz"
)

var users = []string{"alice", "bob"}
var cmds = []string{"ls", "ls -l", "l", "LS", "cat /etc/passwd", "", "ls ", " ls", "ls\x00"}

type gen struct {
	r     *hv.Rand
	pool  [][32]byte
	w     *ax.World
	or    *ax.Oracle
	e     *ax.Enc
	full  bool
	ops   []*ax.Op
	opsC  []string
	viewC []string
	desc  []string
	verd  ax.Verdict
	nt    bool
	added []ax.Intent
	dead  map[int]bool // dispatch level: sessions ended by a shell
}

func (g *gen) do(o *ax.Op) ax.View {
	var v ax.View
	panicked, msg := hv.Catch(func() {
		if g.full {
			v = g.w.ApplyFull(o)
		} else {
			v = g.w.Apply(o)
		}
	})
	if panicked {
		if g.verd.OK {
			g.verd = ax.Verdict{OK: false, Sig: "C07:panic", What: fmt.Sprintf("%s panicked: %s", o.Desc(), msg)}
		}
		return v
	}
	if r := g.or.Judge(o, v); !r.OK && g.verd.OK {
		r.What = fmt.Sprintf("op %d: %s", len(g.ops), r.What)
		g.verd = r
	}
	g.ops = append(g.ops, o)
	g.opsC = append(g.opsC, o.Coq(g.e))
	g.viewC = append(g.viewC, v.Coq(g.e))
	g.desc = append(g.desc, o.Desc())
	return v
}

func (g *gen) intent(u string, k int) *ax.Intent {
	r := g.r
	start := int64(r.Intn(60))
	exp := start + int64(r.Intn(60)) - 5 // sometimes an empty window
	switch r.Intn(12) {
	case 0:
		start = -5
	case 1:
		exp = 1 << 40
	case 2:
		start, exp = 50, 50
	}
	ty := byte(hv.Pick(r, []int{1, 1, 2, 2, 2, 2, 3, 4, 5, 9}))
	if g.full && ty != 1 && ty != 2 {
		ty = 2
	}
	cmd := hv.Pick(r, cmds)
	return &ax.Intent{Type: ty, Start: start, Exp: exp, User: u, Key: k, Cmd: cmd}
}

// boundary clock values of a session's grants
func (g *gen) clock(gs []ax.GView) int64 {
	r := g.r
	if len(gs) > 0 && r.Chance(75) {
		x := hv.Pick(r, gs)
		return hv.Pick(r, []int64{x.Start - 1, x.Start, x.Start + 1, x.Exp - 1, x.Exp, x.Exp + 1, (x.Start + x.Exp) / 2})
	}
	return int64(r.Intn(130)) - 5
}

func (g *gen) execOp(sid int, gs []ax.GView, allowShell bool) *ax.Op {
	r := g.r
	cmd := hv.Pick(r, cmds)
	shell := r.Chance(30)
	if len(gs) > 0 && r.Chance(70) { // aim at a grant: same command, or a near miss of it
		x := hv.Pick(r, gs)
		cmd = x.Cmd
		shell = x.Type == 1
		switch r.Intn(8) {
		case 0:
			cmd += "x"
		case 1:
			if len(cmd) > 0 {
				cmd = cmd[:len(cmd)-1]
			}
		case 2:
			shell = !shell
		}
	}
	if !allowShell {
		shell = false
	}
	if g.full {
		// a real pty shell is exec'd with the command as an argument: it cannot carry a NUL byte
		// (the direct level keeps NUL commands for checkCmd)
		cmd = strings.ReplaceAll(cmd, "\x00", "0")
	}
	return &ax.Op{Kind: "EX", Sid: sid, Cmd: cmd, Shell: shell, T: g.clock(gs)}
}

func (g *gen) emit(class string) {
	d := strings.Join(g.desc, " ; ")
	hv.Emit(hv.Case{Fn: "c07_ok", Coq: g.e.Wrap(hv.Tuple(ax.ParseTable(g.e, g.ops), hv.List(g.opsC), hv.List(g.viewC), g.w.Probes(g.e, g.ops))),
		Class: class, Desc: d, Spec: g.verd.OK, Sig: g.verd.Sig, What: g.verd.What, NT: g.nt,
		Replay: map[string]interface{}{"history": g.desc}})
}

func newGen(seed uint64, pool [][32]byte, full bool) *gen {
	w := ax.NewWorld(pool)
	return &gen{r: hv.NewRand(seed), pool: pool, w: w, or: ax.NewOracle(pool), e: ax.NewEnc(pool), full: full,
		verd: ax.Verdict{OK: true}, dead: map[int]bool{}}
}

// direct level
func direct(seed uint64, pool [][32]byte, class string) {
	g := newGen(seed, pool, false)
	defer g.w.Close()
	r := g.r
	g.do(&ax.Op{Kind: "EN", B: !r.Chance(5)})
	for _, u := range users {
		if r.Chance(85) {
			g.do(&ax.Op{Kind: "SF", User: u, FKind: ax.FMissing})
		} // else the user is unknown to the passwd lookup: a grant login still works
	}
	type sinfo struct{ grants []ax.GView }
	var grantSess []int
	L := 6 + r.Intn(14)
	for i := 0; i < L; i++ {
		x := r.Intn(100)
		switch {
		case x < 28 || len(g.added) == 0:
			it := g.intent(hv.Pick(r, users), r.Intn(3))
			g.do(&ax.Op{Kind: "AG", Intent: it})
			g.added = append(g.added, *it)
		case x < 45:
			a := hv.Pick(r, g.added)
			u, k := a.User, a.Key
			if r.Chance(12) {
				u = hv.Pick(r, users)
			}
			if r.Chance(12) {
				k = r.Intn(3)
			}
			v := g.do(&ax.Op{Kind: "LG", User: u, Key: k})
			if v.OK && v.Using {
				grantSess = append(grantSess, len(g.w.Sessions)-1)
			}
		case x < 48:
			g.do(&ax.Op{Kind: "EN", B: r.Chance(70)})
		default:
			if len(grantSess) == 0 {
				continue
			}
			sid := hv.Pick(r, grantSess)
			_, _, acts := g.w.Sessions[sid].VS.State()
			if len(acts) == 1 && acts[0].GrantType == 5 {
				continue // the Acme-only branch lives in the tube switch: dispatch level
			}
			var gs []ax.GView
			for _, a := range acts {
				gs = append(gs, ax.GViewOf(a))
			}
			// also aim at grants the session has already spent (repeat), by remembering nothing:
			// repeats happen because commands are drawn from a small set and clocks from boundaries
			g.do(g.execOp(sid, gs, true))
			g.nt = true
			if _, _, now := g.w.Sessions[sid].VS.State(); len(now) == 1 && now[0].GrantType == 5 {
				continue // what is left is a lone Acme grant: the tube switch would ignore the exec tube
			}
			if r.Chance(35) { // immediate repeat of the same request: single use
				last := *g.ops[len(g.ops)-1]
				if r.Chance(50) {
					last.T = g.clock(gs)
				}
				g.do(&last)
			}
		}
	}
	g.emit(class)
}

// dispatch level
func dispatch(seed uint64, pool [][32]byte, class string) {
	g := newGen(seed, pool, true)
	defer g.w.Close()
	r := g.r
	g.do(&ax.Op{Kind: "EN", B: !r.Chance(10)})
	g.do(&ax.Op{Kind: "SF", User: "alice", FKind: ax.FMissing})
	if class == "dispatch-key-session" {
		g.do(&ax.Op{Kind: "SF", User: "bob", FKind: ax.FFile, Content: []byte(ax.KeyLine(pool[0]) + "\n")})
	} else {
		g.do(&ax.Op{Kind: "SF", User: "bob", FKind: ax.FMissing})
	}
	nGrants := 1 + r.Intn(3)
	if class == "dispatch-acme" {
		g.do(&ax.Op{Kind: "AG", Intent: &ax.Intent{Type: 5, Start: 0, Exp: 100, User: "alice", Key: 1}})
		nGrants = 0
	}
	for i := 0; i < nGrants; i++ {
		it := g.intent("alice", 1)
		g.do(&ax.Op{Kind: "AG", Intent: it})
	}
	var v ax.View
	if class == "dispatch-key-session" {
		v = g.do(&ax.Op{Kind: "LG", User: "bob", Key: 0})
	} else {
		v = g.do(&ax.Op{Kind: "LG", User: "alice", Key: 1})
	}
	if !v.OK {
		g.emit(class)
		return
	}
	sid := len(g.w.Sessions) - 1
	L := 2 + r.Intn(5)
	for i := 0; i < L && !g.dead[sid]; i++ {
		_, _, acts := g.w.Sessions[sid].VS.State()
		var gs []ax.GView
		for _, a := range acts {
			gs = append(gs, ax.GViewOf(a))
		}
		x := r.Intn(100)
		switch {
		case x < 55:
			last := i == L-1
			o := g.execOp(sid, gs, last && ax.CanShell())
			if len(acts) == 1 && acts[0].GrantType == 5 {
				o.Shell = false
			}
			ev := g.do(o)
			if o.Shell && ev.B {
				g.dead[sid] = true // the shell's exit closes the session
			}
		case x < 72:
			g.do(&ax.Op{Kind: "PF", Sid: sid, T: g.clock(gs)})
		case x < 80:
			// the rest of the tube switch: unknown types are closed, a window-size tube stays open,
			// a PFTube reaches handlePF
			g.do(&ax.Op{Kind: "TB", Sid: sid, Ty: byte(hv.Pick(r, []int{3, 6, 7, 8, 0, 200})), Rel: true})
		default:
			now := time.Now().Unix()
			user := g.w.Sessions[sid].User
			if r.Chance(15) {
				user = "bob"
				if g.w.Sessions[sid].User == "bob" {
					user = "alice"
				}
			}
			it := &ax.Intent{Type: byte(hv.Pick(r, []int{1, 2, 2, 5, 9})), Start: now - 10, Exp: now + 100000, User: user, Key: 1 + r.Intn(2)}
			if it.Type == 2 {
				it.Cmd = hv.Pick(r, []string{"ls", "id", ""})
			}
			if r.Chance(15) {
				it.Exp = now - 1000 // already expired
			}
			g.do(&ax.Op{Kind: "IT", Sid: sid, Intent: it, CertOK: !r.Chance(15), Wall: now})
		}
		g.nt = true
	}
	// escalation check: after issuing, reconnect and see what the new grants allow
	if class == "dispatch-grant-session" && r.Chance(50) {
		v = g.do(&ax.Op{Kind: "LG", User: "alice", Key: 1})
		if v.OK && v.Using {
			sid2 := len(g.w.Sessions) - 1
			g.do(g.execOp(sid2, v.Grants, false))
		}
	}
	g.emit(class)
}

// expired-at-login: a key whose grants are all expired (or not yet effective) is still admitted as
// the user (C05 asks for an unconsumed grant only); this class checks that such a session starts
// nothing (c07_start_needs_grant_in_window): requests at and after the last expiry, before the
// first start, and - for contrast - a few inside a window.
func expiredAtLogin(seed uint64, pool [][32]byte) {
	g := newGen(seed, pool, false)
	defer g.w.Close()
	r := g.r
	g.do(&ax.Op{Kind: "EN", B: true})
	var its []*ax.Intent
	maxExp, minStart := int64(0), int64(1<<40)
	for i, n := 0, 1+r.Intn(3); i < n; i++ {
		start := int64(10 + r.Intn(20))
		it := &ax.Intent{Type: byte(hv.Pick(r, []int{1, 2, 2})), Start: start, Exp: start + 1 + int64(r.Intn(20)), User: "alice", Key: 0}
		if it.Type == 2 {
			it.Cmd = hv.Pick(r, []string{"ls", "id", "ls -l"})
		}
		if it.Exp > maxExp {
			maxExp = it.Exp
		}
		if it.Start < minStart {
			minStart = it.Start
		}
		its = append(its, it)
		g.do(&ax.Op{Kind: "AG", Intent: it})
	}
	if v := g.do(&ax.Op{Kind: "LG", User: "alice", Key: 0}); !v.OK {
		g.emit("expired-at-login")
		return
	}
	for i, n := 0, 4+r.Intn(5); i < n; i++ {
		x := hv.Pick(r, its)
		t := hv.Pick(r, []int64{maxExp, maxExp + 1, maxExp + 1000, 1 << 40, minStart - 1, 0, -5, x.Exp})
		if r.Chance(15) {
			t = x.Exp - 1 // inside: may start (once)
		}
		g.do(&ax.Op{Kind: "EX", Sid: 0, Cmd: x.Cmd, Shell: x.Type == 1, T: t})
		g.nt = true
	}
	g.emit("expired-at-login")
}

func main() {
	ax.SetupDispatch()
	defer ax.CleanupDispatch()
	r := hv.NewRand(hv.Seed())
	pool := make([][32]byte, 3)
	for i := range pool {
		copy(pool[i][:], r.Bytes(32))
	}
	var cases []func()
	// regression: a grant must not be usable before its start time (fixed in hop-go)
	cases = append(cases, func() {
		g := newGen(7, pool, false)
		defer g.w.Close()
		g.do(&ax.Op{Kind: "EN", B: true})
		g.do(&ax.Op{Kind: "AG", Intent: &ax.Intent{Type: 2, Start: 100, Exp: 200, User: "alice", Key: 0, Cmd: "ls"}})
		g.do(&ax.Op{Kind: "AG", Intent: &ax.Intent{Type: 1, Start: 100, Exp: 200, User: "alice", Key: 0}})
		g.do(&ax.Op{Kind: "LG", User: "alice", Key: 0})
		g.do(&ax.Op{Kind: "EX", Sid: 0, Cmd: "ls", T: 99})
		g.do(&ax.Op{Kind: "EX", Sid: 0, Cmd: "", Shell: true, T: 0})
		g.do(&ax.Op{Kind: "EX", Sid: 0, Cmd: "ls", T: 100})
		g.do(&ax.Op{Kind: "EX", Sid: 0, Cmd: "ls", T: 101})
		g.do(&ax.Op{Kind: "EX", Sid: 0, Cmd: "", Shell: true, T: 200})
		g.do(&ax.Op{Kind: "EX", Sid: 0, Cmd: "", Shell: true, T: 199})
		g.nt = true
		g.emit("regression-start-time")
	})
	// regressions of the two ungated branches of the tube switch (fixed in hop-go): a delegate
	// holding one command grant asks for port forwarding, then for a shell grant for its own key,
	// reconnects, asks for a shell - all refused now
	cases = append(cases, func() {
		g := newGen(8, pool, true)
		defer g.w.Close()
		now := time.Now().Unix()
		g.do(&ax.Op{Kind: "EN", B: true})
		g.do(&ax.Op{Kind: "SF", User: "alice", FKind: ax.FMissing})
		g.do(&ax.Op{Kind: "AG", Intent: &ax.Intent{Type: 2, Start: 0, Exp: 100, User: "alice", Key: 1, Cmd: "ls"}})
		g.do(&ax.Op{Kind: "LG", User: "alice", Key: 1})
		g.do(&ax.Op{Kind: "PF", Sid: 0, T: 50})
		g.do(&ax.Op{Kind: "TB", Sid: 0, Ty: 6, Rel: true})
		g.do(&ax.Op{Kind: "IT", Sid: 0, Intent: &ax.Intent{Type: 1, Start: now - 10, Exp: now + 100000, User: "alice", Key: 1}, CertOK: true, Wall: now})
		g.do(&ax.Op{Kind: "EX", Sid: 0, Cmd: "ls", T: 50})
		g.do(&ax.Op{Kind: "LG", User: "alice", Key: 1})
		g.nt = true
		g.emit("regression-ungated-tubes")
	})
	n := hv.Scale(1800, 30000)
	for i := 0; i < n; i++ {
		seed := r.U64()
		cases = append(cases, func() { direct(seed, pool, "direct") })
	}
	m := hv.Scale(150, 3000)
	for i := 0; i < m; i++ {
		seed := r.U64()
		class := hv.Pick(r, []string{"dispatch-grant-session", "dispatch-grant-session", "dispatch-grant-session", "dispatch-key-session", "dispatch-acme"})
		cases = append(cases, func() { dispatch(seed, pool, class) })
	}
	for i, k := 0, hv.Scale(60, 1000); i < k; i++ {
		seed := r.U64()
		cases = append(cases, func() { expiredAtLogin(seed, pool) })
	}
	// concurrent exec requests of one session (race.go)
	cases = append(cases, raceCases(r, pool)...)
	ax.RunCases(8, cases)
}
