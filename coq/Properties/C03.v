From Hop Require Import Base Replay Packet.
Theorem c03_placeholder : plaintext_len 48 = 0%Z.
Proof. reflexivity. Qed.
Print Assumptions c03_placeholder.
