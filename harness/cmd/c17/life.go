// transport.Client / Server / Handle part of the C17 driver: concurrent programs on real objects
// over loopback UDP (live server, or a bound-but-silent socket = dead peer).
package main

import (
	"errors"
	"fmt"
	"io"
	"net"
	"os"
	"path/filepath"
	"runtime"
	"strings"
	"sync"
	"sync/atomic"
	"time"

	"github.com/sirupsen/logrus"

	"hop.computer/hop/certs"
	"hop.computer/hop/common"
	"hop.computer/hop/keys"
	"hop.computer/hop/transport"
	"verifharness/hv"
)

type lifeEnv struct {
	serverCfg transport.ServerConfig
	verify    transport.VerifyConfig
	kp        *keys.X25519KeyPair
	leaf      *certs.Certificate
}

func loadLifeEnv() (*lifeEnv, error) {
	td := filepath.Join(os.Getenv("VERIF_REPO"), "transport", "testdata")
	if os.Getenv("VERIF_REPO") == "" {
		td = "/repo/transport/testdata"
	}
	keyPair, err := keys.ReadDHKeyFromPEMFile(filepath.Join(td, "leaf-key.pem"))
	if err != nil {
		return nil, err
	}
	kem, err := keys.ReadKEMKeyFromPEMFile(filepath.Join(td, "kem_hop.pem"))
	if err != nil {
		return nil, err
	}
	cert, err := certs.ReadCertificatePEMFile(filepath.Join(td, "leaf.pem"))
	if err != nil {
		return nil, err
	}
	inter, err := certs.ReadCertificatePEMFile(filepath.Join(td, "intermediate.pem"))
	if err != nil {
		return nil, err
	}
	root, err := certs.ReadCertificatePEMFile(filepath.Join(td, "root.pem"))
	if err != nil {
		return nil, err
	}
	e := &lifeEnv{}
	e.serverCfg = transport.ServerConfig{KEMKeyPair: kem, KeyPair: keyPair, Certificate: cert, Intermediate: inter, HandshakeTimeout: 5 * time.Second}
	e.verify = transport.VerifyConfig{Store: certs.Store{}, CurrentTime: cert.IssuedAt.Add(time.Second)}
	e.verify.Store.AddCertificate(root)
	e.kp = keys.GenerateNewX25519KeyPair()
	e.leaf, err = certs.SelfSignLeaf(&certs.Identity{PublicKey: e.kp.Public})
	return e, err
}

// wrapConn lets Close report a chosen error so that "same result to every caller" is observable
type wrapConn struct {
	*net.UDPConn
	closeErr error
	closes   atomic.Int32
}

func (w *wrapConn) Close() error {
	w.closes.Add(1)
	w.UDPConn.Close()
	return w.closeErr
}

var errCloseCustom = errors.New("custom close result")

func lcode(err error) int64 {
	switch {
	case err == nil:
		return 0
	case err == io.EOF:
		return 1
	case errors.Is(err, os.ErrDeadlineExceeded):
		return 2
	case err == errCloseCustom:
		return 7
	}
	return 3
}
func lstr(r int64) string {
	switch r {
	case -1:
		return "BLOCKED"
	case 0:
		return "nil"
	case 1:
		return "EOF"
	case 2:
		return "timeout"
	case 7:
		return "closeErr"
	case 900:
		return "PANIC"
	}
	return "ioerr"
}

type lop struct {
	k   int // 0 Handshake 1 Close 2 ReadMsg 3 WriteMsg
	ret int64
	c   int64
	r   int64
}

var lopName = []string{"Handshake", "Close", "ReadMsg", "WriteMsg"}
var lopCoq = []string{"Hs", "Xc", "Rd", "Wr"}

type lprog struct {
	alive  bool
	tmo    bool
	custom bool // Close of the socket reports errCloseCustom
	gate   int  // Close calls wait until one caller is elected in the handshake and this many are parked behind it
	ths    [][]lop
}

func (p lprog) String() string {
	var ts []string
	for i, t := range p.ths {
		var os []string
		for _, o := range t {
			os = append(os, lopName[o.k])
		}
		ts = append(ts, fmt.Sprintf("T%d:[%s]", i, strings.Join(os, ";")))
	}
	g := ""
	if p.gate > 0 {
		g = fmt.Sprintf("closeAfter(elected+%dparked) ", p.gate)
	}
	return g + fmt.Sprintf("peer=%v hstimeout=%v customCloseErr=%v %s", map[bool]string{true: "alive", false: "dead"}[p.alive], p.tmo, p.custom, strings.Join(ts, " "))
}

func genLprog(r *hv.Rand) lprog {
	p := lprog{alive: r.Chance(60), custom: r.Chance(50)}
	if !p.alive {
		p.tmo = r.Chance(50)
	}
	nth := 2 + r.Intn(3)
	p.ths = make([][]lop, nth)
	total := nth + r.Intn(3)
	hasClose := false
	for n := 0; n < total; n++ {
		i := n
		if n >= nth {
			i = r.Intn(nth)
		}
		if len(p.ths[i]) >= 2 {
			continue
		}
		k := hv.Pick(r, []int{0, 0, 1, 1, 2, 3, 3})
		if k == 1 {
			hasClose = true
		}
		p.ths[i] = append(p.ths[i], lop{k: k, ret: -1})
	}
	// most programs contain a Close (otherwise dead-peer handshakes and reads block: legitimate
	// but slow to observe)
	if !hasClose && r.Chance(85) {
		i := r.Intn(nth)
		p.ths[i] = append(p.ths[i], lop{k: 1, ret: -1})
	}
	return p
}

// guard runs f; a panic in the code under test becomes result 900
func guard(f func() int64) (res int64) {
	defer func() {
		if e := recover(); e != nil {
			notePanic(fmt.Sprint(e))
			res = 900
		}
	}()
	return f()
}

// bounded runs f in its own goroutine and waits at most d for it
func bounded(d time.Duration, f func()) bool {
	done := make(chan struct{})
	go func() {
		defer func() { recover(); close(done) }()
		f()
	}()
	select {
	case <-done:
		return true
	case <-time.After(d):
		return false
	}
}

func lblockedState(st string, ioBusy bool) bool {
	if i := strings.IndexByte(st, ','); i >= 0 {
		st = st[:i]
	}
	if st == "IO wait" {
		return !ioBusy
	}
	return blockedState(st)
}

// runClientProgram runs p on a fresh Client. perturb: random yields at the transport hook points.
func runClientProgram(env *lifeEnv, class string, p lprog, r *hv.Rand) {
	goBefore := settleGoroutines(0)
	goBefore = runtime.NumGoroutine()
	var srv *transport.Server
	serverPkt, err := net.ListenPacket("udp", "127.0.0.1:0")
	if err != nil {
		hv.Info(map[string]interface{}{"life_error": err.Error()})
		return
	}
	serverUDP := serverPkt.(*net.UDPConn)
	if p.alive {
		srv, err = transport.NewServer(serverUDP, env.serverCfg)
		if err != nil {
			hv.Info(map[string]interface{}{"life_error": err.Error()})
			return
		}
		go srv.Serve()
	}
	cu, err := net.DialUDP("udp", nil, serverUDP.LocalAddr().(*net.UDPAddr))
	if err != nil {
		hv.Info(map[string]interface{}{"life_error": err.Error()})
		return
	}
	wc := &wrapConn{UDPConn: cu}
	if p.custom {
		wc.closeErr = errCloseCustom
	}
	cfg := transport.ClientConfig{Verify: env.verify, Exchanger: env.kp, Leaf: env.leaf}
	if p.tmo {
		cfg.HSTimeout = 60 * time.Millisecond
	}
	cl := transport.NewClient(wc, nil, cfg)

	seed := r.U64()
	var ctr atomic.Uint64
	var hsRuns, parked atomic.Int32
	common.SetVerifYield(func(pt string) {
		if pt == "cl.hs.run" {
			hsRuns.Add(1)
		}
		if pt == "cl.hs.wait" {
			parked.Add(1)
		}
		if !strings.HasPrefix(pt, "cl.") && !strings.HasPrefix(pt, "h.") {
			return
		}
		x := (ctr.Add(1) + seed) * 0x9E3779B97F4A7C15
		switch (x >> 33) % 8 {
		case 0, 1:
			runtime.Gosched()
		case 2:
			time.Sleep(time.Duration((x>>40)%200) * time.Microsecond)
		}
	})
	n := len(p.ths)
	var wg sync.WaitGroup
	gids := make([]uint64, n)
	fin := make([]atomic.Bool, n)
	var reg sync.WaitGroup
	start := make(chan struct{})
	buf := make([][]byte, n)
	for i := 0; i < n; i++ {
		buf[i] = make([]byte, 2048)
		wg.Add(1)
		reg.Add(1)
		go func(i int) {
			defer wg.Done()
			gids[i] = goid()
			reg.Done()
			<-start
			for j := range p.ths[i] {
				o := &p.ths[i][j]
				atomic.StoreInt64(&o.c, stamp.Add(1))
				res := guard(func() int64 {
					switch o.k {
					case 0:
						return lcode(cl.Handshake())
					case 1:
						if p.gate > 0 {
							t0 := time.Now()
							for (hsRuns.Load() < 1 || int(parked.Load()) < p.gate) && time.Since(t0) < 2*time.Second {
								time.Sleep(200 * time.Microsecond)
							}
							time.Sleep(3 * time.Millisecond) // let the parked callers reach <-handshakeDone
						}
						return lcode(cl.Close())
					case 2:
						_, err := cl.ReadMsg(buf[i])
						return lcode(err)
					}
					return lcode(cl.WriteMsg([]byte("hello")))
				})
				atomic.StoreInt64(&o.ret, res)
				atomic.StoreInt64(&o.r, stamp.Add(1))
			}
			fin[i].Store(true)
		}(i)
	}
	reg.Wait()
	close(start)
	// quiescence: all workers finished or blocked, no progress for a while.  With a live peer a
	// goroutine in "IO wait" is waiting for the server's answer, so the window is long.
	t0 := time.Now()
	var lastStamp int64 = -1
	var stableSince time.Time
	window := 250 * time.Millisecond
	if !p.alive {
		window = 100 * time.Millisecond
	}
	for {
		all := true
		for i := 0; i < n; i++ {
			if !fin[i].Load() {
				all = false
			}
		}
		if all {
			break
		}
		time.Sleep(2 * time.Millisecond)
		st := goStates()
		q := true
		for i := 0; i < n; i++ {
			if !fin[i].Load() && !lblockedState(st[gids[i]], false) {
				q = false
			}
		}
		s := stamp.Load()
		if !q || s != lastStamp {
			stableSince = time.Now()
		}
		lastStamp = s
		if q && time.Since(stableSince) > window {
			break
		}
		if time.Since(t0) > 20*time.Second {
			break
		}
	}
	// snapshot
	snap := make([][]lop, n)
	for i := range p.ths {
		snap[i] = make([]lop, len(p.ths[i]))
		for j := range p.ths[i] {
			o := &p.ths[i][j]
			snap[i][j] = lop{k: o.k, c: atomic.LoadInt64(&o.c), r: atomic.LoadInt64(&o.r), ret: atomic.LoadInt64(&o.ret)}
			if snap[i][j].r == 0 {
				snap[i][j].ret = -1
			}
		}
	}
	runs := hsRuns.Load()
	common.SetVerifYield(nil)
	// cleanup (bounded: a Close that hangs is an observation of the run above, not a driver hang)
	cleanOK := bounded(2*time.Second, func() { cl.Close() })
	cu.Close()
	if srv != nil {
		cleanOK = bounded(2*time.Second, func() { srv.Close() }) && cleanOK
	}
	serverUDP.Close()
	done := make(chan struct{})
	go func() { wg.Wait(); close(done) }()
	leaked := false
	select {
	case <-done:
	case <-time.After(time.Second):
		leaked = true
	}
	if !cleanOK {
		leaked = true
	}
	goAfter := settleGoroutines(goBefore)

	// ---- specification oracle
	v := verdict{true, "", ""}
	fail := func(sig, what string) {
		if v.ok {
			v = verdict{false, sig, what}
		}
	}
	want := int64(0)
	if p.custom {
		want = 7
	}
	var firstCloseRet int64 = -1
	anyClose := false
	var blocked []string
	for i, t := range snap {
		for _, o := range t {
			if o.c == 0 {
				continue
			}
			if o.ret == 900 {
				fail("C17:panic", fmt.Sprintf("T%d %s panicked: %s", i, lopName[o.k], lastPanic()))
			}
			if o.k == 1 {
				anyClose = true
				if o.ret >= 0 {
					if o.ret != want {
						fail("C17:client-close-result-differs", fmt.Sprintf("T%d Close returned %s, the socket's Close returned %s", i, lstr(o.ret), lstr(want)))
					}
					if firstCloseRet < 0 || o.r < firstCloseRet {
						firstCloseRet = o.r
					}
				}
			}
			if o.ret < 0 {
				blocked = append(blocked, fmt.Sprintf("T%d %s", i, lopName[o.k]))
			}
		}
	}
	if anyClose && len(blocked) > 0 {
		fail("C17:client-call-not-released-by-close", "Close was called but these calls never returned: "+strings.Join(blocked, ", "))
	}
	if !anyClose && !p.alive && p.tmo {
		for i, t := range snap {
			for _, o := range t {
				if o.c != 0 && o.ret < 0 {
					fail("C17:handshake-timeout-not-honoured", fmt.Sprintf("T%d %s still blocked although HSTimeout=60ms and the peer is dead", i, lopName[o.k]))
				}
			}
		}
	}
	if firstCloseRet >= 0 {
		for i, t := range snap {
			for _, o := range t {
				if o.c > firstCloseRet && o.ret >= 0 && o.k != 1 && o.ret != 1 {
					fail("C17:not-eof-after-close", fmt.Sprintf("T%d %s issued after Close had returned gave %s", i, lopName[o.k], lstr(o.ret)))
				}
			}
		}
	}
	// blocked calls are released by Close with end-of-stream (or by the handshake timeout with a
	// timeout error): a raw socket error can only come out of a write on an established session
	for i, t := range snap {
		for _, o := range t {
			if o.c == 0 || o.ret != 3 {
				continue
			}
			if !p.alive || o.k == 0 || o.k == 2 {
				fail("C17:released-by-close-without-eof", fmt.Sprintf("T%d %s returned the raw socket error instead of io.EOF (or a timeout error)", i, lopName[o.k]))
			}
		}
	}
	if runs > 1 {
		fail("C17:handshake-ran-twice", fmt.Sprintf("clientHandshakeLocked was entered %d times", runs))
	}
	if c := wc.closes.Load(); c > 1 {
		fail("C17:socket-closed-twice", fmt.Sprintf("underlyingConn.Close was called %d times", c))
	}
	if leaked {
		fail("C17:client-goroutine-leak", "worker goroutines still blocked after Client.Close and Server.Close: "+strings.Join(blocked, ", "))
	} else if goAfter > goBefore {
		fail("C17:client-goroutine-leak", fmt.Sprintf("goroutines before=%d after=%d", goBefore, goAfter))
	}

	// ---- Coq case
	var ths, descRes []string
	conc := false
	for i, t := range snap {
		var cs []string
		for _, o := range t {
			if o.c == 0 {
				continue
			}
			need := make([]string, n)
			for u, tu := range snap {
				k := 0
				for _, ou := range tu {
					if ou.ret >= 0 && ou.r != 0 && ou.r < o.c {
						k++
					}
				}
				need[u] = hv.Ni(k)
			}
			res := "None"
			st := int64(1000000000)
			if o.ret >= 0 {
				res = "(Some " + hv.Ni(int(o.ret)) + ")"
				st = o.r
			}
			cs = append(cs, hv.Tuple(lopCoq[o.k], res, hv.List(need), hv.Ni(int(st))))
			descRes = append(descRes, fmt.Sprintf("T%d %s=%s[%d,%d]", i, lopName[o.k], lstr(o.ret), o.c, o.r))
			for u, tu := range snap {
				for _, ou := range tu {
					if u != i && ou.c != 0 && ou.c < o.r && (ou.r == 0 || ou.r > o.c || ou.ret < 0) {
						conc = true
					}
				}
			}
		}
		ths = append(ths, hv.List(cs))
	}
	desc := p.String() + " => " + strings.Join(descRes, ", ")
	hv.Emit(hv.Case{Fn: "c17l_ok", Coq: hv.Tuple(hv.B(p.alive), hv.B(p.tmo), hv.Ni(int(want)), hv.List(ths)),
		Class: class, Desc: desc, Spec: v.ok, Sig: v.sig, What: v.what, NT: conc, Key: desc,
		Replay: map[string]interface{}{"program": p.String(), "history": descRes}})
}

func runLifecycle(r *hv.Rand) {
	logrus.SetLevel(logrus.PanicLevel)
	logrus.SetOutput(io.Discard)
	env, err := loadLifeEnv()
	if err != nil {
		hv.Emit(hv.Case{Class: "client-setup", Desc: "cannot load transport test keys: " + err.Error(), Spec: false, Sig: "C17:driver-setup", What: err.Error()})
		return
	}
	// fixed shapes first: the races the lifecycle machine is about
	fixed := []lprog{
		{alive: false, ths: [][]lop{{{k: 0}}, {{k: 0}}, {{k: 2}}, {{k: 1}}}},                    // dead peer, no timeout: only Close releases
		{alive: false, gate: 3, ths: [][]lop{{{k: 0}}, {{k: 0}}, {{k: 2}}, {{k: 3}}, {{k: 1}}}}, // one elected, three parked (Handshake/ReadMsg/WriteMsg), then Close
		{alive: false, gate: 1, custom: true, ths: [][]lop{{{k: 0}}, {{k: 2}}, {{k: 1}}, {{k: 1}}}},
		{alive: false, custom: true, ths: [][]lop{{{k: 0}}, {{k: 1}}, {{k: 1}}, {{k: 1}}}}, // concurrent closers, custom result
		{alive: true, ths: [][]lop{{{k: 0}}, {{k: 0}}, {{k: 0}}, {{k: 0}}}},                // concurrent handshakers: one handshake
		{alive: true, custom: true, ths: [][]lop{{{k: 0}, {k: 2}}, {{k: 3}}, {{k: 1}}, {{k: 1}}}},
		{alive: false, tmo: true, ths: [][]lop{{{k: 0}}, {{k: 0}}, {{k: 3}}}}, // handshake timeout releases all
		{alive: true, ths: [][]lop{{{k: 1}}, {{k: 0}}, {{k: 2}}, {{k: 3}}}},
	}
	for _, p := range fixed {
		for k := 0; k < hv.Scale(2, 40); k++ {
			q := lprog{alive: p.alive, tmo: p.tmo, custom: p.custom, gate: p.gate}
			for _, t := range p.ths {
				nt := make([]lop, len(t))
				for i := range t {
					nt[i] = lop{k: t[i].k, ret: -1}
				}
				q.ths = append(q.ths, nt)
			}
			runClientProgram(env, "client-fixed", q, r)
		}
	}
	for i := 0; i < hv.Scale(36, 1200); i++ {
		runClientProgram(env, "client-random", genLprog(r), r)
	}
	runServerScenarios(env, r)
}
