(* proofs for Model/Mux.v — see Properties/C09.v *)
From Hop Require Import Base Recv Mux.
From Coq Require Import ZifyN ZifyNat ZifyBool Lia.
Ltac Zify.zify_post_hook ::= Z.div_mod_to_equations.
Open Scope N_scope.

Definition ids (l : list tube) : list N := map t_id l.
Definition uniq (l : list tube) : Prop := NoDup (ids l).

(* ---- association-list facts *)
Lemma find_none : forall l id, find_tube l id = None <-> ~ In id (ids l).
Proof. induction l as [|t r IH]; intros; simpl. - tauto.
  - destruct (t_id t =? id) eqn:E.
    + apply N.eqb_eq in E. split; [discriminate|]. intros H. exfalso. apply H. auto.
    + apply N.eqb_neq in E. rewrite IH. tauto. Qed.
Lemma find_some : forall l id t, find_tube l id = Some t -> In t l /\ t_id t = id.
Proof. induction l as [|x r IH]; intros id t H; simpl in *. discriminate.
  destruct (t_id x =? id) eqn:E. + inversion H; subst. apply N.eqb_eq in E. auto.
  + destruct (IH _ _ H). auto. Qed.
Lemma ids_remove : forall l id x, In x (ids (remove_tube l id)) <-> In x (ids l) /\ x <> id.
Proof. induction l as [|t r IH]; intros; simpl. tauto.
  destruct (t_id t =? id) eqn:E; simpl; rewrite IH.
  - apply N.eqb_eq in E. split; [tauto|]. intros [[H|H] H2]; [congruence|tauto].
  - apply N.eqb_neq in E. split. + intros [H|H]; [subst; tauto|tauto]. + tauto. Qed.
Lemma uniq_remove : forall l id, uniq l -> uniq (remove_tube l id).
Proof. unfold uniq. induction l as [|t r IH]; intros id H; simpl. constructor.
  inversion H; subst. destruct (t_id t =? id); simpl; auto. constructor; auto.
  intros C. apply ids_remove in C. tauto. Qed.
Lemma find_remove_other : forall l id x, x <> id -> find_tube (remove_tube l id) x = find_tube l x.
Proof. induction l as [|t r IH]; intros; simpl; auto.
  destruct (t_id t =? id) eqn:E; simpl.
  - apply N.eqb_eq in E. destruct (t_id t =? x) eqn:E2; auto. apply N.eqb_eq in E2. congruence.
  - destruct (t_id t =? x); auto. Qed.
Lemma find_remove_same : forall l id, find_tube (remove_tube l id) id = None.
Proof. intros. apply find_none. intros C. apply ids_remove in C. tauto. Qed.
Lemma ids_replace : forall l t, ids (replace_tube l t) = ids l.
Proof. induction l as [|x r IH]; intros; simpl; auto.
  destruct (t_id x =? t_id t) eqn:E; simpl. - apply N.eqb_eq in E. congruence. - rewrite IH. reflexivity. Qed.
Lemma find_replace_other : forall l t x, x <> t_id t -> find_tube (replace_tube l t) x = find_tube l x.
Proof. induction l as [|y r IH]; intros; simpl; auto.
  destruct (t_id y =? t_id t) eqn:E; simpl.
  - apply N.eqb_eq in E. destruct (t_id t =? x) eqn:E2. apply N.eqb_eq in E2; congruence.
    destruct (t_id y =? x) eqn:E3; auto. apply N.eqb_eq in E3. congruence.
  - destruct (t_id y =? x); auto. Qed.
Lemma find_replace_same : forall l t t0, find_tube l (t_id t) = Some t0 -> find_tube (replace_tube l t) (t_id t) = Some t.
Proof. induction l as [|y r IH]; intros t t0 H; simpl in *. discriminate.
  destruct (t_id y =? t_id t) eqn:E; simpl. - rewrite N.eqb_refl. reflexivity.
  - rewrite E. eauto. Qed.

(* ---- pickTubeID *)
Lemma pick_from_spec : forall fuel l g id, pick_from l g fuel = Some id ->
  find_tube l id = None /\ id < 256 /\ g <= id /\ id mod 2 = g mod 2 /\
  (forall x, g <= x -> x < id -> x mod 2 = g mod 2 -> find_tube l x <> None).
Proof.
  induction fuel as [|fuel IH]; intros l g id H; simpl in H. discriminate.
  destruct (256 <=? g) eqn:E; [discriminate|]. apply N.leb_gt in E.
  destruct (find_tube l g) eqn:F.
  - destruct (IH _ _ _ H) as (A & B & C & D & G).
    assert (M2: (g + 2) mod 2 = g mod 2) by lia.
    split; [exact A|]. split; [exact B|]. split; [lia|]. split; [congruence|].
    intros x H1 H2 H3. destruct (N.eq_dec x g) as [->|Hne]. congruence.
    apply G; first [lia | congruence].
  - inversion H; subst. split; [exact F|]. split; [lia|]. split; [lia|]. split; [reflexivity|]. intros; lia.
Qed.

(* completeness of the search: with fuel 128 from parity p < 2 every identifier of that parity is tried *)
Lemma pick_from_none : forall fuel l g, pick_from l g fuel = None -> 256 <= g + 2 * N.of_nat fuel ->
  forall x, g <= x -> x < 256 -> x mod 2 = g mod 2 -> find_tube l x <> None.
Proof.
  induction fuel as [|fuel IH]; intros l g H Hf x H1 H2 H3. { cbn in Hf. lia. }
  cbn [pick_from] in H.
  destruct (256 <=? g) eqn:E. apply N.leb_le in E; lia.
  destruct (find_tube l g) eqn:F; [|discriminate].
  destruct (N.eq_dec x g) as [->|Hne]. congruence.
  assert (M2: (g + 2) mod 2 = g mod 2) by lia.
  apply (IH l (g + 2)); auto; first [lia | congruence].
Qed.

(* ---- the muxer invariant: at most one live tube per (reliability, id) *)
Record MInv (m : mux) : Prop := {
  inv_rel_uniq : uniq (m_reliable m);
  inv_unrel_uniq : uniq (m_unreliable m);
  inv_parity : m_parity m < 2;
  inv_queue : (List.length (m_queue m) <= accept_queue_cap)%nat
}.

Lemma minv_new : forall server, MInv (mux_new server).
Proof. intros. constructor; simpl; try constructor. destruct server; lia. unfold accept_queue_cap. lia. Qed.

Lemma tubes_of_set : forall m rel l rel', tubes_of (set_tubes m rel l) rel' = if Bool.eqb rel rel' then l else tubes_of m rel'.
Proof. intros. destruct rel, rel'; reflexivity. Qed.

Lemma minv_set_tubes : forall m rel l, MInv m -> uniq l -> MInv (set_tubes m rel l).
Proof. intros m rel l [A B C D] U. destruct rel; constructor; simpl; auto. Qed.

Lemma make_tube_spec : forall m rel ty id req m' t, make_tube m rel ty id req = Some (m', t) ->
  t = new_tube rel id ty (m_epoch m) /\
  get_tube m' rel id = Some t /\
  (forall rel' id', (rel' <> rel \/ id' <> id) -> get_tube m' rel' id' = get_tube m rel' id') /\
  m_queue m' = (if req then m_queue m else m_queue m ++ [t]) /\
  m_parity m' = m_parity m /\ m_epoch m' = m_epoch m + 1 /\ m_running m' = m_running m /\
  (MInv m -> MInv m').
Proof.
  intros m rel ty id req m' t H. unfold make_tube in H. destruct (negb (m_running m)); [discriminate|].
  destruct (negb req && queue_full m) eqn:QF; [discriminate|].
  inversion H; subst; clear H. split; auto. split; [|split; [|split; [|split; [|split; [|split]]]]]; auto.
  - unfold get_tube, tubes_of. destruct rel; simpl; rewrite N.eqb_refl; reflexivity.
  - intros rel' id' Hd. unfold get_tube, tubes_of. destruct rel, rel'; simpl; auto;
      try (destruct Hd as [Hd|Hd]; [congruence|]);
      (destruct (id =? id') eqn:E; [apply N.eqb_eq in E; congruence|]); apply find_remove_other; auto.
  - intros [A B C D].
    assert (Q: (List.length (if req then m_queue m else m_queue m ++ [new_tube rel id ty (m_epoch m)]) <= accept_queue_cap)%nat).
    { destruct req; auto. cbn [negb andb] in QF. unfold queue_full in QF. apply Nat.leb_gt in QF.
      rewrite app_length. cbn [List.length]. lia. }
    destruct rel; constructor; simpl; auto; unfold uniq in *; simpl; constructor;
      try (apply uniq_remove; auto); intros X; apply ids_remove in X; tauto.
Qed.

(* ---- Create*Tube *)
Theorem create_tube_spec : forall m rel ty m' id, MInv m -> create_tube m rel ty = Ok (m', id) ->
  id mod 2 = m_parity m /\ id < 256 /\
  get_tube m rel id = None /\
  (forall x, x < id -> x mod 2 = m_parity m -> get_tube m rel x <> None) /\
  get_tube m' rel id = Some (new_tube rel id ty (m_epoch m)) /\
  (forall rel' id', (rel' <> rel \/ id' <> id) -> get_tube m' rel' id' = get_tube m rel' id') /\
  m_queue m' = m_queue m /\ MInv m'.
Proof.
  intros m rel ty m' id I H. unfold create_tube, pick_tube_id in H.
  destruct (pick_from (tubes_of m rel) (m_parity m) 128) as [g|] eqn:P; [|discriminate].
  destruct (make_tube m rel ty g true) as [[m1 t]|] eqn:Mk; [|discriminate]. inversion H; subst; clear H.
  destruct (pick_from_spec _ _ _ _ P) as (A & B & C & D & E).
  destruct (make_tube_spec _ _ _ _ _ _ _ Mk) as (T & G1 & G2 & Q & _ & _ & _ & Iv).
  pose proof (inv_parity _ I) as Hp.
  assert (Pm: m_parity m mod 2 = m_parity m) by (apply N.mod_small; lia).
  split; [congruence|]. split; [exact B|]. split; [exact A|]. split.
  { intros x H1 H2. apply E; first [lia | congruence]. }
  split; [subst t; exact G1|]. split; [exact G2|]. split; [exact Q|]. auto.
Qed.

Theorem create_tube_err : forall m rel ty, MInv m -> m_running m = true -> create_tube m rel ty = Err ->
  forall x, x < 256 -> x mod 2 = m_parity m -> get_tube m rel x <> None.
Proof.
  intros m rel ty I R H x H1 H2. unfold create_tube, pick_tube_id in H. pose proof (inv_parity _ I) as Hp.
  destruct (pick_from (tubes_of m rel) (m_parity m) 128) as [g|] eqn:P.
  - unfold make_tube in H. rewrite R in H. cbn [negb andb] in H. discriminate.
  - assert (Pm: m_parity m mod 2 = m_parity m) by (apply N.mod_small; lia).
    apply (pick_from_none _ _ _ P); first [lia | congruence].
Qed.

(* ---- demultiplexing *)
Lemma get_set_other : forall m rel l rel' id', rel' <> rel -> get_tube (set_tubes m rel l) rel' id' = get_tube m rel' id'.
Proof. intros. unfold get_tube. rewrite tubes_of_set. destruct rel, rel'; simpl; congruence. Qed.
Lemma get_set_same : forall m rel l id', get_tube (set_tubes m rel l) rel id' = find_tube l id'.
Proof. intros. unfold get_tube. rewrite tubes_of_set. destruct rel; reflexivity. Qed.

Lemma tube_receive_initiate_id : forall t, t_id (tube_receive_initiate t) = t_id t.
Proof. intros. unfold tube_receive_initiate. destruct (t_state t); reflexivity. Qed.
Lemma tube_receive_id : forall t f, t_id (tube_receive t f) = t_id t.
Proof. intros. unfold tube_receive. destruct (t_rel t), (t_state t); try reflexivity.
  - destruct (receive _ _) as [[r' a] b]. reflexivity.
  - destruct (_ <? _); reflexivity. - destruct (_ <? _); reflexivity. Qed.

Definition handled (t : tube) (f : mframe) : tube :=
  if mf_req f || mf_resp f then tube_receive_initiate t else tube_receive t f.
Lemma handled_id : forall t f, t_id (handled t f) = t_id t.
Proof. intros. unfold handled. destruct (_ || _); [apply tube_receive_initiate_id|apply tube_receive_id]. Qed.

Theorem demux_spec : forall m f,
  (* tubes that are not addressed by the frame are untouched *)
  (forall rel id, (rel <> mf_rel f \/ id <> mf_id f) -> get_tube (demux m f) rel id = get_tube m rel id) /\
  (* a live addressed tube handles the frame; nothing is queued for Accept *)
  (forall t, get_tube m (mf_rel f) (mf_id f) = Some t ->
     get_tube (demux m f) (mf_rel f) (mf_id f) = Some (handled t f) /\ m_queue (demux m f) = m_queue m) /\
  (* an unknown (rel,id): a REQ on a running muxer creates exactly one tube with the opener's reliability, id and
     type, queues it once, and lets it handle the frame; anything else is dropped *)
  (get_tube m (mf_rel f) (mf_id f) = None ->
     if mf_req f && m_running m && negb (queue_full m) then
       let t := new_tube (mf_rel f) (mf_id f) (mf_type f) (m_epoch m) in
       get_tube (demux m f) (mf_rel f) (mf_id f) = Some (handled t f) /\ m_queue (demux m f) = m_queue m ++ [t]
     else demux m f = m) /\
  (MInv m -> MInv (demux m f)).
Proof.
  intros m f. unfold demux.
  destruct (get_tube m (mf_rel f) (mf_id f)) as [t|] eqn:G.
  - (* live tube *)
    assert (Hid: t_id t = mf_id f) by (apply find_some in G; tauto).
    fold (handled t f).
    split; [|split; [|split]].
    + intros rel id Hd. destruct (Bool.bool_dec rel (mf_rel f)) as [->|Hr].
      * rewrite get_set_same. destruct Hd as [Hd|Hd]; [congruence|].
        rewrite find_replace_other by (rewrite handled_id; congruence). reflexivity.
      * rewrite get_set_other by auto. reflexivity.
    + intros t0 H0. inversion H0; subst t0. split; [|reflexivity].
      rewrite get_set_same. rewrite <- Hid, <- (handled_id t f).
      eapply find_replace_same. rewrite handled_id, Hid. exact G.
    + discriminate.
    + intros I. apply minv_set_tubes; auto. unfold uniq. rewrite ids_replace. destruct I. destruct (mf_rel f); auto.
  - destruct (mf_req f) eqn:Rq.
    + destruct (make_tube m (mf_rel f) (mf_type f) (mf_id f) false) as [[m1 t]|] eqn:Mk.
      * destruct (make_tube_spec _ _ _ _ _ _ _ Mk) as (T & G1 & G2 & Q & _ & _ & R & Iv).
        assert (Run: m_running m = true /\ queue_full m = false).
        { unfold make_tube in Mk. destruct (m_running m); [|discriminate]. cbn [negb andb] in Mk.
          destruct (queue_full m); [discriminate|auto]. }
        destruct Run as [Run QF].
        assert (Hid: t_id t = mf_id f) by (subst t; reflexivity).
        replace (if true || mf_resp f then tube_receive_initiate t else tube_receive t f) with (handled t f)
          by (unfold handled; rewrite Rq; reflexivity).
        split; [|split; [|split]].
        -- intros rel id Hd. destruct (Bool.bool_dec rel (mf_rel f)) as [->|Hr].
           ++ rewrite get_set_same. destruct Hd as [Hd|Hd]; [congruence|].
              rewrite find_replace_other by (rewrite handled_id; congruence). apply G2. auto.
           ++ rewrite get_set_other by auto. apply G2. auto.
        -- discriminate.
        -- intros _. rewrite Run, QF. cbn [andb negb]. cbv zeta. rewrite <- T. split.
           ++ rewrite get_set_same. rewrite <- Hid, <- (handled_id t f).
              eapply find_replace_same. rewrite handled_id, Hid. exact G1.
           ++ simpl. destruct (mf_rel f); exact Q.
        -- intros I. specialize (Iv I). apply minv_set_tubes; auto. unfold uniq. rewrite ids_replace.
           destruct Iv. destruct (mf_rel f); auto.
      * assert (Run: m_running m && negb (queue_full m) = false).
        { unfold make_tube in Mk. destruct (m_running m); auto. cbn [negb andb] in Mk.
          destruct (queue_full m); auto. discriminate. }
        split; [auto|]. split; [discriminate|]. split; auto. intros _. cbn [andb]. rewrite Run. reflexivity.
    + split; [auto|]. split; [discriminate|]. split; auto. intros _. reflexivity.
Qed.

(* ---- the other operations keep the invariant and never add to the Accept queue *)
Lemma close_tube_inv : forall m rel id, MInv m -> MInv (close_tube m rel id).
Proof. intros m rel id I. unfold close_tube. destruct (get_tube m rel id); auto.
  apply minv_set_tubes; auto. unfold uniq. rewrite ids_replace. destruct I. destruct rel; auto. Qed.
Lemma reap_tube_inv : forall m rel id, MInv m -> MInv (reap_tube m rel id).
Proof. intros m rel id I. unfold reap_tube. destruct (get_tube m rel id) as [t|]; auto. destruct (t_state t); auto.
  apply minv_set_tubes; auto. apply uniq_remove. destruct I. destruct rel; auto. Qed.
Lemma read_tube_inv : forall m rel id, MInv m -> MInv (fst (read_tube m rel id)).
Proof. intros m rel id I. unfold read_tube. destruct (get_tube m rel id) as [t|]; auto. destruct rel.
  - destruct (read _ _) as [[[r' o] e]|]; simpl; auto. apply minv_set_tubes; auto. unfold uniq. rewrite ids_replace. destruct I; auto.
  - destruct (t_msgs t); simpl; auto. destruct (t_state t); simpl; auto;
      apply minv_set_tubes; auto; unfold uniq; rewrite ids_replace; destruct I; auto. Qed.
Lemma accept_inv : forall m m' t, MInv m -> accept m = Some (m', t) -> MInv m'.
Proof. intros m m' t [A B C D] H. unfold accept in H. destruct (m_queue m) eqn:Q; inversion H; subst.
  constructor; auto. cbn [m_queue]. cbn [List.length] in D. lia. Qed.

Lemma mstep_inv : forall m o, MInv m -> MInv (fst (mstep m o)).
Proof.
  intros m o I. destruct o; simpl.
  - destruct (create_tube m rel ty) as [[m' id]| |] eqn:C; simpl; auto.
    apply (create_tube_spec _ _ _ _ _ I C).
  - apply demux_spec; auto.
  - destruct (accept m) as [[m' t]|] eqn:A; simpl; auto. eapply accept_inv; eauto.
  - apply close_tube_inv; auto.
  - apply reap_tube_inv; auto.
  - pose proof (read_tube_inv m rel id I). destruct (read_tube m rel id). auto.
Qed.

Theorem mrun_inv : forall ops m, MInv m -> MInv (fst (mrun m ops)).
Proof. induction ops as [|o r IH]; intros m I; simpl; auto.
  pose proof (mstep_inv m o I). destruct (mstep m o) as [m1 ob]. specialize (IH m1 H).
  destruct (mrun m1 r). auto. Qed.

(* ---- unreliable tubes: what is queued for the reader are whole written messages *)
Lemma unrel_receive_msgs : forall t f, t_rel t = false ->
  t_msgs (tube_receive t f) = t_msgs t \/ t_msgs (tube_receive t f) = t_msgs t ++ [mf_data f].
Proof. intros t f H. unfold tube_receive. rewrite H. destruct (t_state t); auto; destruct (_ <? _); simpl; auto. Qed.
Lemma unrel_receive_rel : forall t f, t_rel (tube_receive t f) = t_rel t.
Proof. intros. unfold tube_receive. destruct (t_rel t) eqn:R; destruct (t_state t); try reflexivity; auto;
  try (match goal with |- context [receive ?a ?b] => destruct (receive a b) as [[x y] z] end; cbn; auto);
  try (match goal with |- context [if ?c then _ else _] => destruct c end; cbn; auto). Qed.

Theorem unreliable_whole_messages : forall (written : list bytes) (frames : list mframe) (t : tube),
  t_rel t = false ->
  Forall (fun f => exists no msg, In msg written /\ unrel_frame (t_id t) no msg = Some f) frames ->
  exists delivered, t_msgs (fold_left tube_receive frames t) = t_msgs t ++ delivered /\
                    Forall (fun x => In x written) delivered.
Proof.
  intros written frames. induction frames as [|f r IH]; intros t Hr Hf; simpl.
  - exists []. rewrite app_nil_r. auto.
  - inversion Hf as [|? ? (no & msg & Hin & Hu) Hr']; subst.
    assert (Hd: mf_data f = msg).
    { unfold unrel_frame in Hu. destruct (_ <? _); inversion Hu; reflexivity. }
    destruct (IH (tube_receive t f)) as (d & D1 & D2).
    + rewrite unrel_receive_rel. auto.
    + rewrite tube_receive_id. auto.
    + destruct (unrel_receive_msgs t f Hr) as [E|E]; rewrite E in D1.
      * exists d. auto.
      * exists (mf_data f :: d). rewrite D1, <- app_assoc. split; auto. constructor; auto. rewrite Hd. auto.
Qed.

(* ---- totality of the receive step on everything the decoder can produce *)
Lemma reencode_ok_wire : forall f, len (mf_data f) <= max_wire_payload -> reencode_ok f = true.
Proof. intros f H. unfold reencode_ok, max_wire_payload in *. cbv zeta.
  rewrite N.mod_small by lia. apply andb_true_iff. split; [apply N.leb_le|apply N.leb_le]; lia. Qed.

Theorem demux_total : forall m f, len (mf_data f) <= max_wire_payload -> demux_res m f = Ok (demux m f).
Proof. intros m f H. unfold demux_res. rewrite (reencode_ok_wire f H). rewrite andb_false_r. reflexivity. Qed.

(* ---- reap delay vs. the peer's lastAck timer *)
Lemma reap_delay_covers : forall ta tc rtt_a rtt_o, ta <= tc -> rtt_a <= rtt_o ->
  predecessor_gone_at_reuse ta tc rtt_a rtt_o.
Proof. intros. unfold predecessor_gone_at_reuse, reap_delay, last_ack_duration. lia. Qed.
