From Hop Require Import Base Recv RecvProofs.
Open Scope N_scope.

Theorem c08_unwrap_correct : forall ack f, ack + two32 < two64 -> near ack f ->
  unwrap_frame_no ack (f mod two32) = f.
Proof. exact unwrap_correct. Qed.
Print Assumptions c08_unwrap_correct.
