//go:build verif

package tubes

// VerifShutdownState exposes the lifecycle observables of a Reliable tube for the C16 driver:
// tubeState (numbering of the model: 0 created, 1 initiated, 2 closeWait, 3 lastAck, 4 finWait1,
// 5 finWait2, 6 closing, 7 closed), sender.closed, and whether r.closed has been closed.
func (r *Reliable) VerifShutdownState() (state int, senderClosed bool, closedSignalled bool) {
	r.l.Lock()
	defer r.l.Unlock()
	select {
	case <-r.closed:
		closedSignalled = true
	default:
	}
	return int(r.tubeState), r.sender.closed.Load(), closedSignalled
}

// VerifMuxerState: 0 running, 1 stopping, 2 stopped.
func (m *Muxer) VerifMuxerState() int { return int(m.state.Load().(muxerState)) }

// VerifUnreliableState exposes the lifecycle observables of an Unreliable tube: state (0 created,
// 1 initiated, 2 closed) and which of the lifecycle channels have been closed.
func (u *Unreliable) VerifUnreliableState() (st int, initiateDone, senderDone, closedSignalled bool) {
	switch u.state.Load() {
	case created:
		st = 0
	case initiated:
		st = 1
	default:
		st = 2
	}
	isClosed := func(c chan struct{}) bool {
		select {
		case <-c:
			return true
		default:
			return false
		}
	}
	return st, isClosed(u.initiateDone), isClosed(u.senderDone), isClosed(u.closed)
}

// VerifSenderQueue: length and capacity of the tube's sender queue (sender.sendQueue), whose only
// consumer is Reliable.send (model: ql / qcap of coq/Model/ShutdownQ.v).
func (r *Reliable) VerifSenderQueue() (n, capacity int) {
	return len(r.sender.sendQueue), cap(r.sender.sendQueue)
}
