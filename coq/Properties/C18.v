(* C18 — wire encodings round-trip, re-encoding preserves what was parsed, unrepresentable
   values are rejected.  For every format X:
     c18_X_roundtrip : enc v = Ok b -> wt v -> dec (b ++ rest) = Ok (norm v, rest)
     c18_X_stable    : dec s = Ok (v, r) -> exists b, enc v = Ok b /\ forall r', dec (b ++ r') = Ok (v, r')
     c18_X_rejects   : enc v = Ok b -> representable v        (limits spelled out in repr_X)
     c18_X_no_panic  : enc v <> Panic /\ dec s <> Panic
   `wt` = the value inhabits its Go types (bytes < 256, uint16 ports, fixed array lengths, Unix
   times time.Time represents); `norm` = the fields a message of that type carries (identity
   except for Intent/AgMessage, whose command / intent / denial fields exist only for some types);
   `val dec s` is the outcome of the decoder model on stream s (WireBase.v).
   Models follow the code AFTER the wire group's fix: commits (docs/C18.md). *)
From Hop Require Import Base WireBase WireCert WireMsg WireFrame
  WireBaseProofs WireCertProofs WireMsgProofs WireFrameProofs WireLaws.
Open Scope N_scope.

(* ================= common.WriteString / ReadString ================= *)
Theorem c18_wstring_roundtrip : forall s b rest,
  enc_wstring s = Ok b -> val dec_wstring (b ++ rest) = Ok (s, rest).
Proof. exact wstring_roundtrip. Qed.
Print Assumptions c18_wstring_roundtrip.

Theorem c18_wstring_stable : forall s v r,
  val dec_wstring s = Ok (v, r) -> wf_bytes s = true ->
  exists b, enc_wstring v = Ok b /\ forall r', val dec_wstring (b ++ r') = Ok (v, r').
Proof. exact wstring_stable. Qed.
Print Assumptions c18_wstring_stable.

Theorem c18_wstring_rejects : forall s b, enc_wstring s = Ok b -> len s <= 255 /\ b = len s :: s.
Proof. exact enc_wstring_ok. Qed.
Print Assumptions c18_wstring_rejects.

Theorem c18_wstring_no_panic : forall s, enc_wstring s <> Panic /\ val dec_wstring s <> Panic.
Proof. intros s. split; [apply enc_wstring_no_panic|apply dec_wstring_no_panic]. Qed.
Print Assumptions c18_wstring_no_panic.

(* non-vacuity: a 255-byte string is accepted and round-trips; a 256-byte one is refused *)
Example c18_wstring_255 :
  match enc_wstring (repeat 97 255) with
  | Ok b => len b = 256 /\ val dec_wstring (b ++ [7]) = Ok (repeat 97 255, [7])
  | _ => False
  end.
Proof. vm_compute. split; reflexivity. Qed.
Example c18_wstring_256 : enc_wstring (repeat 97 256) = Err.
Proof. vm_compute. reflexivity. Qed.

(* ================= certs.Name ================= *)
Theorem c18_name_roundtrip : forall n b rest,
  enc_name n = Ok b -> wt_name n = true -> val dec_name (b ++ rest) = Ok (n, rest).
Proof. exact name_roundtrip. Qed.
Print Assumptions c18_name_roundtrip.

Theorem c18_name_stable : forall s v r,
  val dec_name s = Ok (v, r) -> wf_bytes s = true ->
  exists b, enc_name v = Ok b /\ forall r', val dec_name (b ++ r') = Ok (v, r').
Proof. exact name_stable. Qed.
Print Assumptions c18_name_stable.

Theorem c18_name_rejects : forall n b, enc_name n = Ok b -> len (n_label n) <= 252.
Proof. intros n b H. apply enc_name_ok in H. tauto. Qed.
Print Assumptions c18_name_rejects.

Theorem c18_name_no_panic : forall n s, enc_name n <> Panic /\ val dec_name s <> Panic.
Proof. intros n s. split; [apply enc_name_no_panic|apply dec_name_no_panic]. Qed.
Print Assumptions c18_name_no_panic.

Example c18_name_252_253 :
  match enc_name (Nm (repeat 97 252) 1) with
  | Ok b => val dec_name b = Ok (Nm (repeat 97 252) 1, [])
  | _ => False
  end /\ enc_name (Nm (repeat 97 253) 1) = Err.
Proof. vm_compute. split; reflexivity. Qed.

(* ================= certs.IDChunk ================= *)
Theorem c18_chunk_roundtrip : forall c b rest,
  enc_chunk c = Ok b -> wt_chunk c = true -> val dec_chunk (b ++ rest) = Ok (c, rest).
Proof. exact chunk_roundtrip. Qed.
Print Assumptions c18_chunk_roundtrip.

Theorem c18_chunk_stable : forall s v r,
  val dec_chunk s = Ok (v, r) -> wf_bytes s = true ->
  exists b, enc_chunk v = Ok b /\ forall r', val dec_chunk (b ++ r') = Ok (v, r').
Proof. exact chunk_stable. Qed.
Print Assumptions c18_chunk_stable.

Theorem c18_chunk_rejects : forall c b, enc_chunk c = Ok b -> repr_chunk c = true.
Proof. exact enc_chunk_repr. Qed.
Print Assumptions c18_chunk_rejects.

Theorem c18_chunk_no_panic : forall c s, enc_chunk c <> Panic /\ (wf_bytes s = true -> val dec_chunk s <> Panic).
Proof. intros c s. split; [apply enc_chunk_no_panic|apply dec_chunk_no_panic]. Qed.
Print Assumptions c18_chunk_no_panic.

(* the ORIGINAL reader (no exact-length check) accepted a chunk it could not re-encode; the fixed
   model refuses it: declared 512 bytes, blocks of 253 + 253 + 255 bytes *)
Definition overshoot_chunk : bytes :=
  [2; 0] ++ ([253; 1; 250] ++ repeat 98 250) ++ ([253; 1; 250] ++ repeat 98 250) ++ ([255; 1; 252] ++ repeat 99 252).
Example c18_chunk_overshoot_refused : val dec_chunk overshoot_chunk = Err.
Proof. vm_compute. reflexivity. Qed.

(* ================= certs.Certificate ================= *)
Theorem c18_cert_roundtrip : forall c b rest,
  enc_cert c = Ok b -> wt_cert c = true -> val dec_cert (b ++ rest) = Ok (c, rest).
Proof. exact cert_roundtrip. Qed.
Print Assumptions c18_cert_roundtrip.

Theorem c18_cert_stable : forall s v r,
  val dec_cert s = Ok (v, r) -> wf_bytes s = true ->
  exists b, enc_cert v = Ok b /\ forall r', val dec_cert (b ++ r') = Ok (v, r').
Proof. exact cert_stable. Qed.
Print Assumptions c18_cert_stable.

Theorem c18_cert_rejects : forall c b, enc_cert c = Ok b -> repr_cert c = true.
Proof. exact enc_cert_repr. Qed.
Print Assumptions c18_cert_rejects.

Theorem c18_cert_no_panic : forall c s, enc_cert c <> Panic /\ (wf_bytes s = true -> val dec_cert s <> Panic).
Proof. intros c s. split; [apply enc_cert_no_panic|apply dec_cert_no_panic]. Qed.
Print Assumptions c18_cert_no_panic.

Definition sample_cert : cert :=
  Ct 1 1 1700000000 1800000000 [Nm [104; 111; 115; 116] 1] (repeat 7 32) (repeat 8 32) (repeat 9 64).
Example c18_cert_sample : wt_cert sample_cert = true /\ repr_cert sample_cert = true /\
  match enc_cert sample_cert with Ok b => len b = 157 | _ => False end.
Proof. vm_compute. repeat split; reflexivity. Qed.

(* ================= authgrants.Intent ================= *)
Theorem c18_intent_roundtrip : forall i b rest,
  enc_intent i = Ok b -> wt_intent i = true -> val dec_intent (b ++ rest) = Ok (norm_intent i, rest).
Proof. exact intent_roundtrip. Qed.
Print Assumptions c18_intent_roundtrip.

Theorem c18_intent_stable : forall s v r,
  val dec_intent s = Ok (v, r) -> wf_bytes s = true ->
  exists b, enc_intent v = Ok b /\ forall r', val dec_intent (b ++ r') = Ok (v, r').
Proof. exact intent_stable. Qed.
Print Assumptions c18_intent_stable.

Theorem c18_intent_rejects : forall i b, enc_intent i = Ok b -> repr_intent i = true.
Proof. exact enc_intent_repr. Qed.
Print Assumptions c18_intent_rejects.

Theorem c18_intent_no_panic : forall i s, enc_intent i <> Panic /\ (wf_bytes s = true -> val dec_intent s <> Panic).
Proof. intros i s. split; [apply enc_intent_no_panic|apply dec_intent_no_panic]. Qed.
Print Assumptions c18_intent_no_panic.

(* a command intent with a 255-byte command is accepted, one with 256 bytes is refused (it used
   to be written with length byte 0 followed by all 256 bytes); grant types 3/4 are refused *)
Definition sample_intent (gt : N) (cmd : bytes) : intent :=
  It gt 0 77 1700000000 1700003600 (Nm [116] 1) [117] sample_cert cmd.
Example c18_intent_samples :
  wt_intent (sample_intent 2 (repeat 120 255)) = true /\
  is_ok (enc_intent (sample_intent 2 (repeat 120 255))) = true /\
  enc_intent (sample_intent 2 (repeat 120 256)) = Err /\
  enc_intent (sample_intent 3 []) = Err /\ enc_intent (sample_intent 4 []) = Err /\
  is_ok (enc_intent (sample_intent 200 [])) = true.
Proof. repeat split; vm_compute; reflexivity. Qed.

(* ================= authgrants.AgMessage ================= *)
Theorem c18_ag_roundtrip : forall m b rest,
  enc_ag m = Ok b -> wt_ag m = true -> val dec_ag (b ++ rest) = Ok (norm_ag m, rest).
Proof. exact ag_roundtrip. Qed.
Print Assumptions c18_ag_roundtrip.

Theorem c18_ag_stable : forall s v r,
  val dec_ag s = Ok (v, r) -> wf_bytes s = true ->
  exists b, enc_ag v = Ok b /\ forall r', val dec_ag (b ++ r') = Ok (v, r').
Proof. exact ag_stable. Qed.
Print Assumptions c18_ag_stable.

Theorem c18_ag_rejects : forall m b, enc_ag m = Ok b -> repr_ag m = true.
Proof. exact enc_ag_repr. Qed.
Print Assumptions c18_ag_rejects.

Theorem c18_ag_no_panic : forall m s, enc_ag m <> Panic /\ (wf_bytes s = true -> val dec_ag s <> Panic).
Proof. intros m s. split; [apply enc_ag_no_panic|apply dec_ag_no_panic]. Qed.
Print Assumptions c18_ag_no_panic.

(* a denial is always deliverable and reads back as the first 255 bytes of the reason *)
Theorem c18_denial_delivered : forall reason rest,
  exists b, write_intent_denied reason = Ok b /\
            val dec_conf_or_denial (b ++ rest) = Ok (Ag 4 zero_intent (take 255 reason), rest).
Proof. exact write_intent_denied_ok. Qed.
Print Assumptions c18_denial_delivered.

Theorem c18_proxy_roundtrip : forall r b rest,
  enc_proxy_resp r = Ok b -> val dec_proxy_resp (b ++ rest) = Ok (norm_proxy r, rest).
Proof. exact proxy_roundtrip. Qed.
Print Assumptions c18_proxy_roundtrip.

(* ================= codex exec request ================= *)
(* partial: ToBytes has no rejecting path; the law holds for every value below the 32-bit
   framing limit (exec_fits: |cmd| + |term| + 17 < 2^32), larger values are not modelled *)
Theorem c18_exec_roundtrip_partial : forall m rest,
  wt_exec m = true -> exec_fits m = true -> val dec_exec (enc_exec m ++ rest) = Ok (m, rest).
Proof. exact exec_roundtrip. Qed.
Print Assumptions c18_exec_roundtrip_partial.

Theorem c18_exec_stable_partial : forall s v r,
  val dec_exec s = Ok (v, r) -> wf_bytes s = true -> exec_fits v = true ->
  forall r', val dec_exec (enc_exec v ++ r') = Ok (v, r').
Proof. exact exec_stable. Qed.
Print Assumptions c18_exec_stable_partial.

Theorem c18_exec_no_panic : forall s, val dec_exec s <> Panic.
Proof. exact dec_exec_no_panic. Qed.
Print Assumptions c18_exec_no_panic.

Example c18_exec_sample :
  let m := Ex true [108; 115] [120; 116] (Some (Ws 24 80 0 65535)) in
  wt_exec m = true /\ exec_fits m = true /\ enc_exec m = [3; 0;0;0;2; 108;115; 0;0;0;2; 120;116; 0;24; 0;80; 0;0; 255;255].
Proof. repeat split; vm_compute; reflexivity. Qed.

(* ================= userauth ================= *)
(* the encoding carries two unused trailing bytes that the reader leaves in the tube *)
Theorem c18_userauth_roundtrip : forall u b rest,
  enc_userauth u = Ok b -> val dec_userauth (b ++ rest) = Ok (u, [0; 0] ++ rest).
Proof. exact userauth_roundtrip. Qed.
Print Assumptions c18_userauth_roundtrip.

Theorem c18_userauth_stable : forall s v r,
  val dec_userauth s = Ok (v, r) -> wf_bytes s = true ->
  exists b, enc_userauth v = Ok b /\ forall r', val dec_userauth (b ++ r') = Ok (v, [0; 0] ++ r').
Proof. exact userauth_stable. Qed.
Print Assumptions c18_userauth_stable.

Theorem c18_userauth_rejects : forall u b, enc_userauth u = Ok b -> len u <= 65535.
Proof. exact enc_userauth_repr. Qed.
Print Assumptions c18_userauth_rejects.

(* ================= port-forward request ================= *)
Theorem c18_pf_roundtrip : forall r b rest split_ok,
  enc_pf r = Ok b -> (p_net r = 3 \/ split_ok = true) -> val (dec_pf split_ok) (b ++ rest) = Ok (r, rest).
Proof. exact pf_roundtrip. Qed.
Print Assumptions c18_pf_roundtrip.

Theorem c18_pf_stable : forall ok s r rest,
  val (dec_pf ok) s = Ok (r, rest) -> wf_bytes s = true ->
  exists b, enc_pf r = Ok b /\ forall rest', val (dec_pf ok) (b ++ rest') = Ok (r, rest').
Proof. exact pf_stable. Qed.
Print Assumptions c18_pf_stable.

Theorem c18_pf_rejects : forall r b, enc_pf r = Ok b -> repr_pf r = true.
Proof. intros r b H. apply enc_pf_ok in H. tauto. Qed.
Print Assumptions c18_pf_rejects.

Theorem c18_pf_no_panic : forall ok s, val (dec_pf ok) s <> Panic.
Proof. exact dec_pf_no_panic. Qed.
Print Assumptions c18_pf_no_panic.

(* ================= tube frames ================= *)
Theorem c18_frame_roundtrip : forall f junk,
  wt_frame f = true -> repr_frame f = true -> frame_from_bytes (frame_to_bytes f ++ junk) = Ok f.
Proof. exact frame_roundtrip. Qed.
Print Assumptions c18_frame_roundtrip.

Theorem c18_frame_stable : forall b f junk,
  frame_from_bytes b = Ok f -> wf_bytes b = true -> frame_from_bytes (frame_to_bytes f ++ junk) = Ok f.
Proof. exact frame_stable. Qed.
Print Assumptions c18_frame_stable.

Theorem c18_frame_parsed_is_consistent : forall b f,
  frame_from_bytes b = Ok f -> wf_bytes b = true -> wt_frame f = true /\ repr_frame f = true.
Proof. exact frame_dec_sound. Qed.
Print Assumptions c18_frame_parsed_is_consistent.

Theorem c18_iframe_roundtrip : forall f,
  wt_iframe f = true -> repr_iframe f = true -> iframe_from_bytes (iframe_to_bytes f) = Ok f.
Proof. exact iframe_roundtrip. Qed.
Print Assumptions c18_iframe_roundtrip.

(* frame.toBytes itself never compares dataLength with len(data); the user-reachable
   constructor of that pair is Unreliable.WriteMsgUDP, which now refuses what does not fit *)
Theorem c18_unreliable_roundtrip : forall id no b q,
  unreliable_write id no b = Ok q -> id < 256 -> no < 2 ^ 32 -> wf_bytes b = true ->
  exists f, frame_from_bytes q = Ok f /\ fr_data f = b /\ fr_dlen f = len b /\ fr_tube f = id /\ fr_no f = no.
Proof. exact unreliable_write_roundtrip. Qed.
Print Assumptions c18_unreliable_roundtrip.

Theorem c18_unreliable_rejects : forall id no b, max_frame_data < len b -> unreliable_write id no b = Err.
Proof. exact unreliable_rejects. Qed.
Print Assumptions c18_unreliable_rejects.

Theorem c18_relmsg_roundtrip : forall m b rest,
  enc_relmsg m = Ok b -> val dec_relmsg (b ++ rest) = Ok (m, rest).
Proof. exact relmsg_roundtrip. Qed.
Print Assumptions c18_relmsg_roundtrip.

Theorem c18_relmsg_rejects : forall m b, enc_relmsg m = Ok b -> len m <= 65535.
Proof. exact enc_relmsg_repr. Qed.
Print Assumptions c18_relmsg_rejects.

(* ================= extension round: key text forms (keys/dh.go, keys/kem.go, keys/signatures.go) ==========
   Model/WireText.v: Go's base64.StdEncoding (Encode, Decode/decodeQuantum, DecodeString) and the
   "hop-dh-v1-" / "hop-kem-v1-" / "hop-sign-v1-" forms.  Texts are lists of byte values. *)
From Hop Require Import WireText WireTextProofs WireMore WireMoreProofs.

(* base64, for EVERY byte list *)
Theorem c18_b64_roundtrip : forall l, wf_bytes l = true -> b64_decode (b64_encode l) = Ok l.
Proof. exact b64_roundtrip. Qed.
Print Assumptions c18_b64_roundtrip.

(* for every text that decodes: re-encoding the bytes and decoding again yields the same bytes *)
Theorem c18_b64_stable : forall s l, b64_decode s = Ok l -> b64_decode (b64_encode l) = Ok l.
Proof. exact b64_stable. Qed.
Print Assumptions c18_b64_stable.

(* DecodeString never writes outside the buffer it sized from the text length (len s / 4 * 3):
   the model's destination-capacity check never fires, for every text *)
Theorem c18_b64_decode_total : forall s, b64_decode s <> Panic.
Proof. exact b64_decode_total. Qed.
Print Assumptions c18_b64_decode_total.

Theorem c18_b64_decodes_to_bytes : forall s l, b64_decode s = Ok l -> wf_bytes l = true.
Proof. exact b64_decode_wf. Qed.
Print Assumptions c18_b64_decodes_to_bytes.

Theorem c18_b64_encoded_length : forall l, len (b64_encode l) = (len l + 2) / 3 * 4.
Proof. exact len_b64_encode. Qed.
Print Assumptions c18_b64_encoded_length.

(* key text forms: parse (format k) = k for ALL keys of the type ... *)
Theorem c18_dh_text_roundtrip : forall k, wf_bytes k = true -> len k = 32 -> parse_dh (format_dh k) = Ok k.
Proof. intros k W L. exact (parse_format_key dh_prefix 32 no_check k W L eq_refl). Qed.
Print Assumptions c18_dh_text_roundtrip.
Theorem c18_sign_text_roundtrip : forall k, wf_bytes k = true -> len k = 32 -> parse_sign (format_sign k) = Ok k.
Proof. intros k W L. exact (parse_format_key sign_prefix 32 no_check k W L eq_refl). Qed.
Print Assumptions c18_sign_text_roundtrip.
(* ML-KEM-512: every 800-byte string that passes the FIPS 203 encapsulation-key check *)
Theorem c18_kem_text_roundtrip : forall k,
  wf_bytes k = true -> len k = 800 -> kem_ek_ok k = true -> parse_kem (format_kem k) = Ok k.
Proof. exact (parse_format_key kem_prefix 800 kem_ek_ok). Qed.
Print Assumptions c18_kem_text_roundtrip.

(* ... and for ALL texts that parse: formatting the parsed key and parsing again gives the same result
   (the text itself is not reproduced: newlines and non-zero trailing bits are dropped, see the Examples) *)
Theorem c18_dh_text_stable : forall s k, parse_dh s = Ok k -> parse_dh (format_dh k) = parse_dh s.
Proof. exact (parse_key_stable dh_prefix 32 no_check). Qed.
Print Assumptions c18_dh_text_stable.
Theorem c18_kem_text_stable : forall s k, parse_kem s = Ok k -> parse_kem (format_kem k) = parse_kem s.
Proof. exact (parse_key_stable kem_prefix 800 kem_ek_ok). Qed.
Print Assumptions c18_kem_text_stable.
Theorem c18_sign_text_stable : forall s k, parse_sign s = Ok k -> parse_sign (format_sign k) = parse_sign s.
Proof. exact (parse_key_stable sign_prefix 32 no_check). Qed.
Print Assumptions c18_sign_text_stable.

(* what parses is a key of the type: byte string of the exact length, passing the type's own check,
   and the text carried the prefix; no text makes a parser panic *)
Theorem c18_dh_text_parsed_is_key : forall s k,
  parse_dh s = Ok k -> wf_bytes k = true /\ len k = 32 /\ no_check k = true /\ has_prefix dh_prefix s = true.
Proof. exact (parse_key_sound dh_prefix 32 no_check). Qed.
Print Assumptions c18_dh_text_parsed_is_key.
Theorem c18_kem_text_parsed_is_key : forall s k,
  parse_kem s = Ok k -> wf_bytes k = true /\ len k = 800 /\ kem_ek_ok k = true /\ has_prefix kem_prefix s = true.
Proof. exact (parse_key_sound kem_prefix 800 kem_ek_ok). Qed.
Print Assumptions c18_kem_text_parsed_is_key.
Theorem c18_key_text_no_panic : forall s, parse_dh s <> Panic /\ parse_kem s <> Panic /\ parse_sign s <> Panic.
Proof. intros s. repeat split; apply parse_key_total. Qed.
Print Assumptions c18_key_text_no_panic.
(* two keys with the same text are the same key *)
Theorem c18_dh_text_injective : forall k1 k2,
  wf_bytes k1 = true -> len k1 = 32 -> wf_bytes k2 = true -> len k2 = 32 -> format_dh k1 = format_dh k2 -> k1 = k2.
Proof. intros k1 k2 W1 L1 W2 L2. exact (format_key_inj dh_prefix 32 no_check k1 k2 W1 L1 eq_refl W2 L2 eq_refl). Qed.
Print Assumptions c18_dh_text_injective.

(* non-vacuity and the accepted non-canonical forms: alphabet = the literal of encoding/base64; RFC 4648 vectors;
   a key with a trailing newline (what ReadDHKeyFromPubFile hands over), newlines inside, non-zero trailing bits
   parse to the SAME key; space, missing padding, '=' too early, garbage after the padding, wrong prefix, 31 bytes are refused *)
Definition str (s : string) : bytes := map (fun a => N_of_ascii a) (list_ascii_of_string s).
Example c18_b64_alphabet :
  map b64_char [0;1;2;3;4;5;6;7;8;9;10;11;12;13;14;15;16;17;18;19;20;21;22;23;24;25;26;27;28;29;30;31;32;33;34;35;36;37;38;39;
                40;41;42;43;44;45;46;47;48;49;50;51;52;53;54;55;56;57;58;59;60;61;62;63]
  = str "ABCDEFGHIJKLMNOPQRSTUVWXYZabcdefghijklmnopqrstuvwxyz0123456789+/".
Proof. vm_compute. reflexivity. Qed.
Example c18_b64_rfc4648 :
  b64_encode (str "f") = str "Zg==" /\ b64_encode (str "fo") = str "Zm8=" /\ b64_encode (str "foo") = str "Zm9v" /\
  b64_encode (str "foobar") = str "Zm9vYmFy" /\ b64_decode (str "Zm9vYmE=") = Ok (str "fooba") /\
  b64_decode (str "Zh==") = Ok (str "f") /\ b64_decode (str "Zm9=") = Ok (str "fo") /\   (* trailing bits dropped *)
  b64_decode (str "Zg=") = Err /\ b64_decode (str "Zg") = Err /\ b64_decode (str "Z===") = Err /\
  b64_decode (str "Zg==Zg==") = Err /\ b64_decode (str "Zg= =") = Err /\ b64_decode (str "Zm-v") = Err.
Proof. repeat split; vm_compute; reflexivity. Qed.
Definition sample_dh_key : bytes := map (fun i => (7 * i + 3) mod 256) (map N.of_nat (seq 0 32)).
Definition sample_dh_text : bytes := format_dh sample_dh_key.
Definition nl : bytes := [10].
Example c18_dh_text_sample :
  wf_bytes sample_dh_key = true /\ len sample_dh_key = 32 /\ len sample_dh_text = 54 /\
  parse_dh sample_dh_text = Ok sample_dh_key /\
  parse_dh (sample_dh_text ++ nl) = Ok sample_dh_key /\
  parse_dh (take 20 sample_dh_text ++ [13; 10] ++ drop 20 sample_dh_text) = Ok sample_dh_key /\
  parse_dh (take 52 sample_dh_text ++ str "x=") = Ok sample_dh_key /\ take 52 sample_dh_text ++ str "x=" <> sample_dh_text /\
  parse_dh (take 20 sample_dh_text ++ [32] ++ drop 20 sample_dh_text) = Err /\
  parse_dh (take 53 sample_dh_text) = Err /\
  parse_dh (sample_dh_text ++ str "A") = Err /\
  parse_dh (take 5 sample_dh_text ++ nl ++ drop 5 sample_dh_text) = Err /\
  parse_sign sample_dh_text = Err /\
  parse_dh (format_dh (take 31 sample_dh_key)) = Err /\ parse_dh (format_dh (sample_dh_key ++ [0])) = Err.
Proof. repeat split; try (vm_compute; reflexivity). vm_compute. discriminate. Qed.
(* the encapsulation-key check: coefficient 3328 passes, 3329 (= q) is refused *)
Example c18_kem_ek_check :
  kem_ek_ok ([0; 13; 0] ++ repeat 0 797) = true /\ kem_ek_ok ([1; 13; 0] ++ repeat 0 797) = false /\
  kem_ek_ok ([0; 0; 208] ++ repeat 0 797) = true /\ kem_ek_ok ([0; 16; 208] ++ repeat 0 797) = false /\
  kem_ek_ok (repeat 0 768 ++ repeat 255 32) = true /\
  parse_kem (format_kem (repeat 0 768 ++ repeat 255 32)) = Ok (repeat 0 768 ++ repeat 255 32) /\
  parse_kem (format_kem ([1; 13; 0] ++ repeat 0 797)) = Err.
Proof. repeat split; vm_compute; reflexivity. Qed.

(* ================= extension round: codex status message (SendSuccess / SendFailure / getStatus) ============
   value: None = command started, Some text = failure.  After the fix SendFailure cuts the text to the 65535
   bytes its 16-bit length can announce (norm_status); an error of ANY length is delivered well-framed. *)
Theorem c18_status_roundtrip : forall st rest, val dec_status (enc_status st ++ rest) = Ok (norm_status st, rest).
Proof. exact status_roundtrip. Qed.
Print Assumptions c18_status_roundtrip.
Theorem c18_status_stable : forall s v r,
  val dec_status s = Ok (v, r) -> wf_bytes s = true -> forall r', val dec_status (enc_status v ++ r') = Ok (v, r').
Proof. exact status_stable. Qed.
Print Assumptions c18_status_stable.
(* regression witness: the ORIGINAL SendFailure mis-frames every 65536-byte error text (announced length 0:
   the client reads an empty error, the text stays in the tube) *)
Theorem c18_status_unfixed_refuted : forall e, len e = 65536 ->
  val dec_status (enc_status_unfixed (Some e)) = Ok (Some [], e) /\
  val dec_status (enc_status (Some e) ++ []) = Ok (Some (take 65535 e), []).
Proof. exact status_unfixed_truncates. Qed.
Print Assumptions c18_status_unfixed_refuted.
Example c18_status_unfixed_witness : len (zeros 65536) = 65536.
Proof. exact status_unfixed_witness. Qed.
Example c18_status_sample :
  enc_status None = [1] /\ enc_status (Some (str "no")) = [2; 0; 2; 0; 0; 110; 111] /\
  val dec_status ([2; 0; 2; 9; 9; 110; 111; 5]) = Ok (Some (str "no"), [5]) /\
  val dec_status [] = Ok (Some [], []) /\ val dec_status [3; 0; 3; 0; 0; 97] = Ok (Some [97; 0; 0], []).
Proof. repeat split; vm_compute; reflexivity. Qed.

(* window size (serializeSize / readSize) and ReadUnreliableProxyID *)
Theorem c18_winsize_roundtrip : forall w rest, wt_ws w = true -> val dec_ws (enc_ws w ++ rest) = Ok (w, rest).
Proof. exact ws_roundtrip. Qed.
Print Assumptions c18_winsize_roundtrip.
Theorem c18_proxy_id_roundtrip : forall x rest, val dec_proxy_id (x :: rest) = Ok (x, rest).
Proof. exact proxy_id_roundtrip. Qed.
Print Assumptions c18_proxy_id_roundtrip.
