package main

// White-box part 3: Reliable.sendOneFrame — the last step before a frame of a reliable tube is handed to the
// muxer, with its suppression of repeated empty acknowledgement frames — compared with Model/SendOne.v, plus the
// oracle written from the property: suppression may only ever withhold a frame that carries nothing —
//   * a frame of the byte stream (payload or FIN), a retransmission or a RESP is always handed to the muxer,
//     unaltered (frame number, payload, FIN flag) and stamped with the receive window's current acknowledgement
//     number; a retransmission goes to the priority queue;
//   * a change of the acknowledgement number is always transmitted: a withheld frame repeats the last
//     transmitted (ackNo, frameNo) pair;
//   * never more than 10 frames in a row are withheld (a lost acknowledgement is repeated).

import (
	"bytes"
	"fmt"
	"math"
	"strings"

	"hop.computer/hop/tubes"
	"verifharness/hv"
)

type soCall struct {
	recvAck                   uint64
	no                        uint32
	dlen                      int
	ack, fin, resp, retx      bool
}

func runSendOne(class string, calls []soCall, nt bool) {
	v := tubes.VerifNewSendOne(1)
	var coq, obs, desc []string
	specOK, what, sig := true, "", ""
	fail := func(s, w string) {
		if specOK {
			specOK, sig, what = false, s, w
		}
	}
	haveLast := false
	var lastAck, lastNo uint32
	withheld := 0
	for i, c := range calls {
		data := pat(byte(i), c.dlen)
		res := v.Call(c.recvAck, c.no, data, c.ack, c.fin, c.resp, c.retx)
		flags := uint64(0)
		for k, b := range []bool{c.ack, c.fin, c.resp, c.retx} {
			if b {
				flags |= 1 << uint(k)
			}
		}
		cur := uint32(c.recvAck)
		coq = append(coq, fmt.Sprintf("(SC %d %d %d %d)", cur, c.no, c.dlen, flags))
		desc = append(desc, fmt.Sprintf("call(recvAck=%d frameNo=%d len=%d ACK=%v FIN=%v RESP=%v retx=%v)", c.recvAck, c.no, c.dlen, c.ack, c.fin, c.resp, c.retx))
		o := []uint64{0, 0, 0, 0, 0}
		if res.Sent {
			o = []uint64{1, b2u(res.Prio), uint64(res.AckNo), b2u(res.ACK), uint64(res.FrameNo)}
		}
		o = append(o, uint64(res.LastAck), uint64(res.LastFno), uint64(res.Unsend))
		obs = append(obs, hv.Ns(o))

		// ---- oracle
		carries := c.dlen > 0 || c.fin || c.resp || c.retx
		if res.Sent {
			if res.FrameNo != c.no || !bytes.Equal(res.Data, data) || res.FIN != c.fin {
				fail("C08:frame-altered-on-the-way-to-the-muxer", fmt.Sprintf("call %d: frame (no=%d, %d bytes, FIN=%v) reached the muxer as (no=%d, %d bytes, FIN=%v)", i, c.no, c.dlen, c.fin, res.FrameNo, len(res.Data), res.FIN))
			}
			if res.AckNo != cur {
				fail("C08:frame-carries-stale-acknowledgement-number", fmt.Sprintf("call %d: the receive window's ackNo is %d, the frame handed to the muxer carries %d", i, cur, res.AckNo))
			}
			if res.Prio != c.retx {
				fail("C08:frame-on-wrong-muxer-queue", fmt.Sprintf("call %d: retransmission=%v but priority queue=%v", i, c.retx, res.Prio))
			}
			if !res.REL || res.TubeID != 1 {
				fail("C08:frame-altered-on-the-way-to-the-muxer", fmt.Sprintf("call %d: REL=%v tube id=%d", i, res.REL, res.TubeID))
			}
			haveLast, lastAck, lastNo = true, res.AckNo, res.FrameNo
			withheld = 0
		} else {
			withheld++
			if carries {
				fail("C08:stream-frame-withheld-by-ack-suppression", fmt.Sprintf("call %d: a frame with len=%d FIN=%v RESP=%v retransmission=%v was not handed to the muxer", i, c.dlen, c.fin, c.resp, c.retx))
			}
			if !haveLast && (cur != 0 || c.no != 0) || haveLast && (cur != lastAck || c.no != lastNo) {
				fail("C08:acknowledgement-change-not-transmitted", fmt.Sprintf("call %d: an empty frame with (ackNo=%d, frameNo=%d) was withheld although the last transmitted pair is (%d, %d)", i, cur, c.no, lastAck, lastNo))
			}
			if withheld > 10 {
				fail("C08:more-than-10-acks-suppressed-in-a-row", fmt.Sprintf("call %d: %d frames in a row were withheld", i, withheld))
			}
		}
	}
	d := strings.Join(desc, "; ")
	hv.Emit(hv.Case{Fn: "c08o_ok", Coq: hv.Tuple(hv.List(coq), hv.List(obs)), Class: class,
		Desc: "sendOneFrame rig: " + d, Key: class + ":" + d, Spec: specOK, Sig: sig, What: what, NT: nt,
		Replay: map[string]interface{}{"rig": "tubes.VerifNewSendOne(1): bare Reliable, lastAckSent=lastFrameSent=unsend=0", "calls": desc}})
}

func b2u(b bool) uint64 {
	if b {
		return 1
	}
	return 0
}

func genSendOne(r *hv.Rand) {
	// fixed histories
	// the idle acknowledger: the same empty frame 35 times -> sent once, then 10 withheld / 1 sent
	var rep []soCall
	for i := 0; i < 35; i++ {
		rep = append(rep, soCall{recvAck: 7, no: 3})
	}
	runSendOne("sendone-repeated-ack", rep, true)
	// the very first frame repeats the initial (0,0) pair
	runSendOne("sendone-repeated-ack", []soCall{{recvAck: 0, no: 0}, {recvAck: 0, no: 0}, {recvAck: 1, no: 0}, {recvAck: 1, no: 0}, {recvAck: 1, no: 1}}, true)
	// stream frames, FIN, RESP and retransmissions repeating the last pair are never withheld
	runSendOne("sendone-stream-frames", []soCall{
		{recvAck: 5, no: 9}, {recvAck: 5, no: 9, dlen: 1}, {recvAck: 5, no: 9, dlen: 1}, {recvAck: 5, no: 9, fin: true}, {recvAck: 5, no: 9, fin: true},
		{recvAck: 5, no: 9, retx: true}, {recvAck: 5, no: 9, resp: true}, {recvAck: 5, no: 9}, {recvAck: 5, no: 9, dlen: 32768, retx: true}, {recvAck: 5, no: 9, ack: true},
	}, true)
	// 32-bit truncation of the receive window's ackNo
	runSendOne("sendone-ack-wrap", []soCall{{recvAck: 1<<32 - 1, no: 4}, {recvAck: 1 << 32, no: 4}, {recvAck: 1 << 32, no: 4}, {recvAck: 1<<32 + 1, no: 4}, {recvAck: 1<<33 + 1, no: 4}}, true)

	n := hv.Scale(150, 1500)
	for k := 0; k < n; k++ {
		var calls []soCall
		ack := uint64(r.Intn(5))
		no := uint32(r.Intn(3))
		if r.Chance(10) {
			ack = 1<<32 - 3
		}
		m := 5 + r.Intn(60)
		for i := 0; i < m; i++ {
			c := soCall{recvAck: ack, no: no}
			switch x := r.Intn(100); {
			case x < 55: // idle acknowledgement repeating the pair
			case x < 65:
				ack += uint64(1 + r.Intn(3))
				c.recvAck = ack
			case x < 73:
				no++
				c.no = no
			case x < 81:
				c.dlen = hv.Pick(r, []int{1, 2, 999, 1000, 1001, 32768})
				no++
				c.no = no
			case x < 86:
				c.fin = true
			case x < 91:
				c.retx = true
				c.dlen = hv.Pick(r, []int{0, 0, 1, 500})
			case x < 94:
				c.resp = true
			case x < 97:
				c.ack = true
			default:
				c.no = uint32(r.Intn(3))
				c.recvAck = uint64(r.Intn(5))
			}
			calls = append(calls, c)
		}
		runSendOne("sendone-random", calls, true)
	}
}

// ---- windowSize = uint16(cwndSize): the conversion at and beyond 65536 (comparison with the model's
// f_to_u16; see docs/C08.md "windowSize >= 1").  cwndSize is injected: the histories that reach these values
// need ~2*10^9 acknowledged frames.
func genWindowWrap(r *hv.Rand) {
	vals := []float64{9.5, 10, 10.999, 999.99, 1000, 32768.5, 65535, 65535.99999, 65536, 65536.5, 65536.99999, 65537, 70000.25,
		131071.5, 131072, 131072.75, 196608.25, 1048579.5}
	for i := 0; i < hv.Scale(30, 300); i++ {
		vals = append(vals, float64(5+r.Intn(200000))+float64(r.Intn(1024))/1024)
	}
	for _, c := range vals {
		w, rto, nw, aerr := tubes.VerifWindowAfterAck(c)
		fr, ex := math.Frexp(c)
		m := int64(fr * (1 << 53))
		e := int64(ex - 53)
		note := ""
		if w == 0 {
			note = " — windowSize 0: framesToSend answers 0 for the timer case and for new data, the sender can transmit nothing"
		}
		hv.Emit(hv.Case{Fn: "c08w_ok", Coq: hv.Tuple(hv.Z(m), hv.Z(e), hv.N(uint64(w)), hv.Z(int64(rto)), hv.Z(int64(nw))),
			Class: "window-conversion-injected-cwnd", Desc: fmt.Sprintf("sender in AIMD with injected cwndSize=%v (= %d * 2^%d), one small frame written and acknowledged, two more written: windowSize=%d framesToSend(timer)=%d framesToSend(new)=%d ackErr=%v%s", c, m, e, w, rto, nw, aerr, note),
			Spec: true, NT: c >= 65536})
	}
}
