(* HsCorr.v — correspondence entry points shared by C01, C02, C10, C19 (group hs).
   A case carries the input of one call of the real Go code, the oracle values the real run
   produced (duplex outputs recorded by a shadow Cyclist, DH/KEM/policy/cookie results) and
   what the real code did; the checker runs the Gallina model on the same input with those
   oracle values and compares. *)
From Hop Require Import Base Keccak Cyclist Handshake HsServer HsConcrete.
Open Scope N_scope.

Record env := Env {
  e_k0 : N;                                        (* operations on the duplex before this call *)
  e_tape : list bytes;                             (* oracle outputs, aligned with the operations of this call *)
  e_dh : list ((N * bytes) * option bytes);
  e_decaps : list ((N * bytes) * option bytes);
  e_kem : list (bytes * option bytes);
  e_policy : list ((N * bytes * bytes) * option bytes);
  e_hash : list (bytes * bytes);
  e_open : list ((N * bytes * bytes) * option bytes) }.

Fixpoint assoc {K V} (eq : K -> K -> bool) (k : K) (l : list (K * V)) : option V :=
  match l with [] => None | (k', v) :: r => if eq k k' then Some v else assoc eq k r end.
Definition oget {V} (o : option (option V)) : option V := match o with Some v => v | None => None end.

Definition eq_nb (a b : N * bytes) : bool := (fst a =? fst b) && beq_bytes (snd a) (snd b).
Definition eq_nbb (a b : N * bytes * bytes) : bool :=
  (fst (fst a) =? fst (fst b)) && beq_bytes (snd (fst a)) (snd (fst b)) && beq_bytes (snd a) (snd b).

Definition tape_at (e : env) (T : tr) : bytes := nth (List.length T - N.to_nat (e_k0 e)) (e_tape e) [].

Definition mkO (e : env) : doracle :=
  {| o_sq := fun T _ => tape_at e T; o_dec := fun T _ => tape_at e T; o_enc := fun T _ => tape_at e T |}.
Definition mkX (e : env) : xoracle :=
  {| x_dh := fun id pk => oget (assoc eq_nb (id, pk) (e_dh e));
     x_decaps := fun id ct => oget (assoc eq_nb (id, ct) (e_decaps e));
     x_kemparse := fun b => oget (assoc beq_bytes b (e_kem e));
     x_policy := fun id l i => oget (assoc eq_nbb (id, l, i) (e_policy e));
     x_hash := fun b => match assoc beq_bytes b (e_hash e) with Some h => h | None => [] end;
     x_open := fun ck ad c => oget (assoc eq_nbb (ck, ad, c) (e_open e)) |}.

(* the transcript before the call: only its length matters to the model *)
Definition T0 (e : env) : tr := repeat OReset (N.to_nat (e_k0 e)).

Record obs := Obs { ob_code : N; ob_n : N; ob_vals : list bytes; ob_ops : option (list dop) }.

Definition beq_dop (a b : dop) : bool :=
  match a, b with
  | OReset, OReset => true
  | OInitKey k i, OInitKey k' i' => beq_bytes k k' && beq_bytes i i'
  | OAbsorb x, OAbsorb y => beq_bytes x y
  | OCrypt x, OCrypt y => beq_bytes x y
  | OSqueeze n, OSqueeze m => n =? m
  | ORatchet, ORatchet => true
  | _, _ => false
  end.

(* the operations the model performed in this call, oldest first, against the observed ones *)
Definition ops_ok (e : env) (T' : tr) (o : obs) : bool :=
  match ob_ops o with
  | None => true
  | Some l => beq_list beq_dop (rev (firstn (List.length T' - N.to_nat (e_k0 e)) T')) l
  end.

Definition vals_ok (v : list bytes) (o : obs) : bool := beq_list beq_bytes v (ob_vals o).

Definition judge {A} (e : env) (T' : tr) (r : res A) (o : obs) (n : A -> N) (vals : A -> list bytes) : bool :=
  (res_code r =? ob_code o) && ops_ok e T' o &&
  match r with Ok a => (n a =? ob_n o) && vals_ok (vals a) o | _ => true end.

(* A case is (b, fun B => rest): the message, and everything else as a function of it, so that
   values which are slices of the message are written (sl B off n) instead of hex literals. *)
Definition sl (b : bytes) (off n : N) : bytes := slice b off n.

(* readPQServerAuth: rest = (env, (ce, pol), observation) *)
Definition hs_sa_ok (c : bytes * (bytes -> env * (N * N) * obs)) : bool :=
  let b := fst c in
  let '(e, (ce, pol), o) := snd c b in
  let '(T', r) := read_server_auth (mkO e) (mkX e) ce pol (T0 e) b in
  judge e T' r o sa_n (fun a => [sa_sid a; sa_eph a; sa_pk a]).

(* readPQServerResponseHidden: rest = (env, (ek, cs, pol), observation) *)
Definition hs_srh_ok (c : bytes * (bytes -> env * (N * N * N) * obs)) : bool :=
  let b := fst c in
  let '(e, (ek, cs, pol), o) := snd c b in
  let '(T', r) := read_response_hidden (mkO e) (mkX e) ek cs pol (T0 e) b in
  judge e T' r o sa_n (fun a => [sa_sid a; sa_pk a]).

(* readPQClientAuth on the stored state: rest = (env, (se, pol), session id, observation) *)
Definition hs_cauth_ok (c : bytes * (bytes -> env * (N * N) * bytes * obs)) : bool :=
  let b := fst c in
  let '(e, (se, pol), sid, o) := snd c b in
  let '(T', r) := read_client_auth (mkO e) (mkX e) se pol sid (T0 e) b in
  judge e T' r o fst (fun a => [snd a]).

(* readPQClientHello: rest = (env, observation) *)
Definition hs_ch_ok (c : bytes * (bytes -> env * obs)) : bool :=
  let b := fst c in
  let '(e, o) := snd c b in
  let '(T', r) := read_client_hello (mkO e) (mkX e) (T0 e) b in
  judge e T' r o fst (fun a => [snd a]).

(* readPQServerHello: rest = (env, ek, observation); b = the buffer handed to the reader *)
Definition hs_sh_ok (c : bytes * (bytes -> env * N * obs)) : bool :=
  let b := fst c in
  let '(e, ek, o) := snd c b in
  let '(T', r) := read_server_hello (mkO e) (mkX e) ek (T0 e) b in
  judge e T' r o fst (fun a => [snd a]).

(* readPQClientAck: rest = (env, (ck, port), ip, observation); the transcript starts afresh *)
Definition hs_cack_ok (c : bytes * (bytes -> env * (N * N) * bytes * obs)) : bool :=
  let b := fst c in
  let '(e, (ck, port), ip, o) := snd c b in
  let r := read_client_ack (mkO e) (mkX e) ck ip port b in
  let T' := match r with Ok (_, k) => ak_tr k | _ => [] end in
  judge e T' r o fst (fun a => [ak_eph (snd a); ak_kem (snd a); ak_sni (snd a)]).

(* readPQClientRequestHidden: rest = (env, certificate list, (pol, now), observation) *)
Definition HC (kem : option N) (hasname : bool) (idx : N) : hcert :=
  {| hc_kem := kem; hc_hasname := hasname; hc_idx := idx |}.
Definition hs_hreq_ok (c : bytes * (bytes -> env * option (list hcert) * (N * N) * obs)) : bool :=
  let b := fst c in
  let '(e, cs, (pol, now), o) := snd c b in
  let '(T', r) := read_request_hidden (mkO e) (mkX e) cs pol now (T0 e) b in
  judge e T' r o hq_n (fun a => [hq_kem a; hq_pk a; [hc_idx (hq_cert a)]]).

(* deriveFinalKeys: (env, observed (c2s, s2c)) *)
Definition hs_keys_ok (c : env * (bytes * bytes)) : bool :=
  let '(e, (k1, k2)) := c in
  let '(m1, m2, _) := derive_final_keys (mkO e) (T0 e) in
  beq_bytes m1 k1 && beq_bytes m2 k2.

(* certificateParserAndVerifier: verdicts of the parts, observed overall verdict *)
Definition PI (parse nil_ skip aka ako sto : bool) (cb : option bool) : pol_in :=
  {| p_parse := parse; p_nil := nil_; p_skip := skip; p_ak_allowed := aka; p_ak_ok := ako; p_store_ok := sto; p_cb := cb |}.
Definition hs_pol_ok (c : pol_in * bool) : bool := Bool.eqb (policy_verify (fst c)) (snd c).

(* aliases: the check shards the cases of one checker name in blocks of 150; the handshake cases
   are large, so the driver spreads them over these names *)
Definition hs_sa_ok_1 := hs_sa_ok.
Definition hs_sa_ok_2 := hs_sa_ok.
Definition hs_sa_ok_3 := hs_sa_ok.
Definition hs_sa_ok_4 := hs_sa_ok.
Definition hs_sa_ok_5 := hs_sa_ok.
Definition hs_sa_ok_6 := hs_sa_ok.
Definition hs_sa_ok_7 := hs_sa_ok.
Definition hs_srh_ok_1 := hs_srh_ok.
Definition hs_srh_ok_2 := hs_srh_ok.
Definition hs_srh_ok_3 := hs_srh_ok.
Definition hs_srh_ok_4 := hs_srh_ok.
Definition hs_srh_ok_5 := hs_srh_ok.
Definition hs_srh_ok_6 := hs_srh_ok.
Definition hs_srh_ok_7 := hs_srh_ok.
Definition hs_cauth_ok_1 := hs_cauth_ok.
Definition hs_cauth_ok_2 := hs_cauth_ok.
Definition hs_cauth_ok_3 := hs_cauth_ok.
Definition hs_cauth_ok_4 := hs_cauth_ok.
Definition hs_cauth_ok_5 := hs_cauth_ok.
Definition hs_cauth_ok_6 := hs_cauth_ok.
Definition hs_cauth_ok_7 := hs_cauth_ok.
Definition hs_ch_ok_1 := hs_ch_ok.
Definition hs_ch_ok_2 := hs_ch_ok.
Definition hs_ch_ok_3 := hs_ch_ok.
Definition hs_ch_ok_4 := hs_ch_ok.
Definition hs_ch_ok_5 := hs_ch_ok.
Definition hs_ch_ok_6 := hs_ch_ok.
Definition hs_ch_ok_7 := hs_ch_ok.
Definition hs_sh_ok_1 := hs_sh_ok.
Definition hs_sh_ok_2 := hs_sh_ok.
Definition hs_sh_ok_3 := hs_sh_ok.
Definition hs_sh_ok_4 := hs_sh_ok.
Definition hs_sh_ok_5 := hs_sh_ok.
Definition hs_sh_ok_6 := hs_sh_ok.
Definition hs_sh_ok_7 := hs_sh_ok.
Definition hs_cack_ok_1 := hs_cack_ok.
Definition hs_cack_ok_2 := hs_cack_ok.
Definition hs_cack_ok_3 := hs_cack_ok.
Definition hs_cack_ok_4 := hs_cack_ok.
Definition hs_cack_ok_5 := hs_cack_ok.
Definition hs_cack_ok_6 := hs_cack_ok.
Definition hs_cack_ok_7 := hs_cack_ok.
Definition hs_hreq_ok_1 := hs_hreq_ok.
Definition hs_hreq_ok_2 := hs_hreq_ok.
Definition hs_hreq_ok_3 := hs_hreq_ok.
Definition hs_hreq_ok_4 := hs_hreq_ok.
Definition hs_hreq_ok_5 := hs_hreq_ok.
Definition hs_hreq_ok_6 := hs_hreq_ok.
Definition hs_hreq_ok_7 := hs_hreq_ok.

(* ------------------------------------------------------------------ sequences of Server.readPacket steps *)
(* inputs of one step: SI now kem_ct kem_k cookie ekey epub sids certs_by_name certlist certs_by_idx *)
Definition SI (now : N) (ct k cookie : bytes) (ekey : N) (epub : bytes) (sids : list bytes)
  (byname : list (bytes * (N * bytes * bytes))) (certlist : option (list hcert))
  (byidx : list (N * (N * bytes * bytes))) : step_in :=
  {| i_now := now; i_kem_ct := ct; i_kem_k := k; i_cookie := cookie; i_ekey := ekey; i_epub := epub;
     i_sids := sids; i_cert := fun n => assoc beq_bytes n byname; i_certs := certlist;
     i_cert_h := fun i => assoc N.eqb i byidx |}.

(* what the real server did in one step: outcome code, datagrams sent (all to the source address),
   table sizes afterwards, and optionally the keys of a session that must now be established *)
Record sobs := SObs { sb_code : N; sb_outs : list bytes; sb_nhs : N; sb_nss : N; sb_npend : N;
                      sb_keys : option (bytes * bytes * bytes) }.

Inductive sstep :=
| SRotate (ck : N)                                            (* cookie key rotation *)
| SAccept                                                     (* the application took a handle from Accept *)
| SDgram (ip : bytes) (port : N) (d : bytes) (out : bytes)               (* datagram d from ip:port; out = what was sent (concatenated) *)
         (rest : bytes -> env * step_in * sobs)                (* applied to d ++ out *)
| SJunk (ip : bytes) (port : N) (d : bytes) (code nhs nss npend : N).    (* a datagram rejected before any oracle is consulted: nothing sent *)

Definition set_ck (s : srv) (ck : N) : srv :=
  {| sv_hidden := sv_hidden s; sv_ck := ck; sv_pol := sv_pol s; sv_maxpending := sv_maxpending s;
     sv_serving := sv_serving s; sv_hs := sv_hs s; sv_ss := sv_ss s; sv_pending := sv_pending s |}.

Definition keys_ok (s : srv) (k : option (bytes * bytes * bytes)) : bool :=
  match k with
  | None => true
  | Some (sid, c2s, s2c) =>
    match find_ss sid (sv_ss s) with
    | Some x => s_est x && beq_bytes (s_c2s x) c2s && beq_bytes (s_s2c x) s2c
    | None => false
    end
  end.

Definition sm_of_code (c : N) : sess -> addr -> bytes -> res sess :=
  fun x _ _ => if c =? 0 then Ok x else if c =? 1 then Err else Panic.

Definition ip4 (ip : N) : bytes := be_enc 4 ip.
Definition env0 : env := Env 0 [] [] [] [] [] [] [].

(* the source address as the code sees it: the IP bytes as reported (4 for IPv4, 16 for IPv6 and for
   IPv4-mapped addresses) and the port; ip4 n = the 4 bytes of an IPv4 address given as a number *)
Definition step_ok (s : srv) (e : env) (inp : step_in) (ip : bytes) (port : N) (d : bytes) (ob : sobs) : bool * srv :=
  let o := server_step (mkO e) (mkX e) (sm_of_code (sb_code ob)) s inp (ip, port) d in
  let s' := so_srv o in
  ((res_code (so_res o) =? sb_code ob) &&
   beq_list beq_bytes (map snd (so_out o)) (sb_outs ob) &&
   forallb (fun x => addr_eqb (fst x) (ip, port)) (so_out o) &&
   (len_list (sv_hs s') =? sb_nhs ob) && (len_list (sv_ss s') =? sb_nss ob) &&
   (len_list (sv_pending s') =? sb_npend ob) && keys_ok s' (sb_keys ob), s').

Fixpoint run_steps (cl : option (list hcert)) (s : srv) (l : list sstep) : bool :=
  match l with
  | [] => true
  | SRotate ck :: r => run_steps cl (set_ck s ck) r
  | SAccept :: r => run_steps cl (set_pending s (tl (sv_pending s))) r
  | SDgram ip port d out rest :: r =>
    let '(e, inp, ob) := rest (d ++ out) in
    let '(ok, s') := step_ok s e inp ip port d ob in
    ok && (if sb_code ob =? 2 then true else run_steps cl s' r)
  | SJunk ip port d code nhs nss npend :: r =>
    let '(ok, s') := step_ok s env0 (SI 0 [] [] [] 3 [] [] [] cl []) ip port d (SObs code [] nhs nss npend None) in
    ok && (if code =? 2 then true else run_steps cl s' r)
  end.

(* datagrams derived from a base message: truncation, one byte xor-ed *)
Definition tk (b : bytes) (n : N) : bytes := take n b.
Fixpoint xr_nat (b : bytes) (i : nat) (m : N) : bytes :=
  match b, i with
  | [], _ => []
  | x :: r, O => N.lxor x m :: r
  | x :: r, S i' => x :: xr_nat r i' m
  end.
Definition xr (b : bytes) (i m : N) : bytes := xr_nat b (N.to_nat i) m.
Definition rp (v n : N) : bytes := repeat v (N.to_nat n).

(* (hidden, maxpending, GetCertList, steps) *)
Definition hs_seq_ok (c : bool * N * option (list hcert) * list sstep) : bool :=
  let '(hidden, maxp, cl, steps) := c in
  run_steps cl {| sv_hidden := hidden; sv_ck := 7; sv_pol := 11; sv_maxpending := maxp; sv_serving := true;
                  sv_hs := []; sv_ss := []; sv_pending := [] |} steps.
Definition hs_seq_ok_1 := hs_seq_ok. Definition hs_seq_ok_2 := hs_seq_ok. Definition hs_seq_ok_3 := hs_seq_ok.
Definition hs_seq_ok_4 := hs_seq_ok. Definition hs_seq_ok_5 := hs_seq_ok. Definition hs_seq_ok_6 := hs_seq_ok.
Definition hs_seq_ok_7 := hs_seq_ok.

(* ------------------------------------------------------------------ byte-exact handshakes *)
(* No duplex oracle: the duplex is the executable Cyclist over Keccak-p[1600,12] (Model/Cyclist.v,
   Model/HsConcrete.v). The case supplies only what is outside the model — KEM key / ciphertext /
   secret, the cookie, X25519 public keys and DH results, session id, server name, certificates,
   policy verdicts — and the checker recomputes every MAC, every encrypted field and both final keys,
   and must reproduce the real datagrams, the real keys and the real duplex states byte for byte. *)
Definition fp8 (T : tr) : bytes :=
  match cy_of keccak12 T with Ok c => fst (cy_squeeze keccak12 c 8%nat) | _ => [] end.

(* tampered messages read from the honest state: (which message: 4 = ServerAuth, 5 = ClientAuth;
   message; expected outcome code; expected fingerprint of the reader's duplex afterwards) *)
Definition xtamper := (N * bytes * N * bytes)%type.

Record xdisc := XD {
  xd_kpub : bytes; xd_ct : bytes; xd_k : bytes; xd_cookie : bytes; xd_epub_c : bytes; xd_epub_s : bytes;
  xd_sid : bytes; xd_sni : bytes; xd_cleaf : bytes; xd_cinter : bytes; xd_sleaf : bytes; xd_sinter : bytes;
  xd_ip : bytes; xd_port : N;
  xd_msgs : list bytes;          (* the real ClientHello, ServerHello, ClientAck, ServerAuth, ClientAuth *)
  xd_c2s : bytes; xd_s2c : bytes;  (* the keys both real endpoints hold *)
  xd_fps : list bytes;           (* real duplex fingerprints: client after writing ClientAuth, server's stored state after writing ServerAuth *)
  xd_tampers : list xtamper }.

Definition nthb (l : list bytes) (i : nat) : bytes := nth i l [].

(* key ids as in harness/hsx/readers.go: 1 client ephemeral, 2 client static, 3 server ephemeral,
   5 client KEM, 7 cookie key, 10 client policy, 11 server policy, 20 server static *)
Definition hs_exact_ok (c : env * xdisc) : bool :=
  let '(e, x) := c in
  let O := hopO in let X := mkX e in
  let '(mch, Tch) := write_client_hello O (tr_start PQName) (xd_kpub x) in
  let '(msh, Tsh) := write_server_hello O Tch (xd_ct x) (xd_k x) (xd_cookie x) in
  let T1 := rekey O Tsh PQName in
  let '(mack, Tack) := write_client_ack O T1 (xd_epub_c x) (xd_kpub x) (xd_cookie x) (xd_sni x) in
  match write_server_auth O X Tack (xd_sid x) (xd_epub_s x) 3 20 (xd_epub_c x) (xd_sleaf x) (xd_sinter x) with
  | (Tsa, Ok msa) =>
    match write_client_auth O X Tsa (xd_sid x) 2 (xd_epub_s x) (xd_cleaf x) (xd_cinter x) with
    | (Tca, Ok mca) =>
      let '(k1, k2, _) := derive_final_keys O Tca in
      (* the writers reproduce the real datagrams *)
      beq_bytes mch (nthb (xd_msgs x) 0) && beq_bytes msh (nthb (xd_msgs x) 1) &&
      beq_bytes mack (nthb (xd_msgs x) 2) && beq_bytes msa (nthb (xd_msgs x) 3) &&
      beq_bytes mca (nthb (xd_msgs x) 4) &&
      (* the keys are the ones both real endpoints hold *)
      beq_bytes k1 (xd_c2s x) && beq_bytes k2 (xd_s2c x) &&
      (* the model's Cyclist object is in the state of the real ones *)
      beq_bytes (fp8 Tca) (nthb (xd_fps x) 0) && beq_bytes (fp8 Tsa) (nthb (xd_fps x) 1) &&
      (* the byte-exact readers accept the real datagrams and end in the writers' transcripts *)
      (match read_client_hello O X (tr_start PQName) (nthb (xd_msgs x) 0) with
       | (T, Ok (n, kc)) => (n =? len mch) && beq_bytes (fp8 T) (fp8 Tch) | _ => false end) &&
      (match read_server_hello O X 5 Tch (nthb (xd_msgs x) 1) with
       | (T, Ok (n, ck)) => (n =? len msh) && beq_bytes ck (xd_cookie x) && beq_bytes (fp8 T) (fp8 Tsh) | _ => false end) &&
      (match read_client_ack O X 7 (xd_ip x) (xd_port x) (nthb (xd_msgs x) 2) with
       | Ok (n, a) => (n =? len mack) && beq_bytes (fp8 (ak_tr a)) (fp8 Tack) | _ => false end) &&
      (match read_server_auth O X 1 10 Tack (nthb (xd_msgs x) 3) with
       | (T, Ok r) => (sa_n r =? len msa) && beq_bytes (sa_sid r) (xd_sid x) && beq_bytes (fp8 T) (fp8 Tsa) | _ => false end) &&
      (match read_client_auth O X 3 11 (xd_sid x) Tsa (nthb (xd_msgs x) 4) with
       | (T, Ok (n, _)) => (n =? len mca) && beq_bytes (fp8 T) (fp8 Tca) | _ => false end) &&
      (* tampered messages: same decision, and the same duplex state afterwards, as the real reader *)
      forallb (fun t : xtamper =>
        let '(which, m, code, fp) := t in
        if which =? 4 then
          let '(T, r) := read_server_auth O X 1 10 Tack m in (res_code r =? code) && beq_bytes (fp8 T) fp
        else
          let '(T, r) := read_client_auth O X 3 11 (xd_sid x) Tsa m in (res_code r =? code) && beq_bytes (fp8 T) fp)
        (xd_tampers x)
    | _ => false
    end
  | _ => false
  end.

Record xhid := XH {
  xh_kpub : bytes; xh_ct : bytes; xh_k : bytes; xh_ts : bytes; xh_now : N; xh_sid : bytes; xh_ect : bytes; xh_ek : bytes;
  xh_cpk : bytes; xh_cleaf : bytes; xh_cinter : bytes; xh_sleaf : bytes; xh_sinter : bytes;
  xh_msgs : list bytes;          (* the real request and response *)
  xh_c2s : bytes; xh_s2c : bytes;
  xh_fps : list bytes;           (* client duplex after reading the response *)
  xh_tampers : list xtamper }.   (* which = 9: tampered responses read by the client *)

Definition hs_exact_hidden_ok (c : env * xhid) : bool :=
  let '(e, x) := c in
  let O := hopO in let X := mkX e in
  match write_request_hidden O (tr_start_hidden O) (xh_kpub x) (xh_ct x) (xh_k x) (xh_cleaf x) (xh_cinter x) (xh_ts x) with
  | (Treq, Ok mreq) =>
    match write_response_hidden O X Treq (xh_sid x) (xh_ect x) (xh_ek x) 20 (xh_cpk x) (xh_sleaf x) (xh_sinter x) with
    | (Tresp, Ok mresp) =>
      let '(k1, k2, _) := derive_final_keys O Tresp in
      beq_bytes mreq (nthb (xh_msgs x) 0) && beq_bytes mresp (nthb (xh_msgs x) 1) &&
      beq_bytes k1 (xh_c2s x) && beq_bytes k2 (xh_s2c x) &&
      beq_bytes (fp8 Tresp) (nthb (xh_fps x) 0) &&
      (match read_request_hidden O X (Some [HC (Some 30) true 0]) 11 (xh_now x) [] (nthb (xh_msgs x) 0) with
       | (T, Ok q) => (hq_n q =? len mreq) && beq_bytes (fp8 T) (fp8 Treq) | _ => false end) &&
      (match read_response_hidden O X 5 2 10 Treq (nthb (xh_msgs x) 1) with
       | (T, Ok r) => (sa_n r =? len mresp) && beq_bytes (sa_sid r) (xh_sid x) && beq_bytes (fp8 T) (fp8 Tresp) | _ => false end) &&
      forallb (fun t : xtamper =>
        let '(which, m, code, fp) := t in
        let '(T, r) := read_response_hidden O X 5 2 10 Treq m in (res_code r =? code) && beq_bytes (fp8 T) fp)
        (xh_tampers x)
    | _ => false
    end
  | _ => false
  end.

Definition hs_exact_ok_1 := hs_exact_ok. Definition hs_exact_ok_2 := hs_exact_ok. Definition hs_exact_ok_3 := hs_exact_ok.
Definition hs_exact_ok_4 := hs_exact_ok. Definition hs_exact_ok_5 := hs_exact_ok. Definition hs_exact_ok_6 := hs_exact_ok.
Definition hs_exact_ok_7 := hs_exact_ok.
Definition hs_exact_hidden_ok_1 := hs_exact_hidden_ok. Definition hs_exact_hidden_ok_2 := hs_exact_hidden_ok.
Definition hs_exact_hidden_ok_3 := hs_exact_hidden_ok. Definition hs_exact_hidden_ok_4 := hs_exact_hidden_ok.
Definition hs_exact_hidden_ok_5 := hs_exact_hidden_ok. Definition hs_exact_hidden_ok_6 := hs_exact_hidden_ok.
Definition hs_exact_hidden_ok_7 := hs_exact_hidden_ok.
