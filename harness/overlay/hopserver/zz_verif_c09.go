//go:build verif

package hopserver

import "hop.computer/hop/tubes"

// VerifC09SessionMuxers returns the tube muxers of the sessions the server currently holds, exactly as
// HopServer.newSession built them (C09: which end of a session picks which tube identifiers).
func (s *HopServer) VerifC09SessionMuxers() []*tubes.Muxer {
	s.sessionLock.Lock()
	defer s.sessionLock.Unlock()
	var out []*tubes.Muxer
	for _, sess := range s.sessions {
		out = append(out, sess.tubeMuxer)
	}
	return out
}
