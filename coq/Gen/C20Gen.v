(* C20Gen.v — C20's matcher theorems stated directly about the Gallina code GENERATED from
   pkg/glob/glob.go by tools/go2gallina on this run (Hop.GlobGen; docs/XLATE.md).  Only statements;
   proofs in Gen/GlobGenEq.v, compiled against the freshly generated file by check's "regen" step.
   `fits_int l` = len(l) < 2^63: the length of a Go string always fits an int; it is what keeps the
   generated wrap-around int additions (GoSem.i64_add) from wrapping.
   GlobGen.Glob returns `res bool`: Ok b, Panic (index out of range) or Err (loop fuel exhausted). *)
From Hop Require Import Base GoSem Glob GlobProofs GlobGenEq.
From Hop Require GlobGen.
Open Scope N_scope.

(* the generated Glob is the hand-written model's glob, for every pattern and input *)
Theorem c20_generated_model_glob_eq : forall pat inp,
  fits_int pat -> fits_int inp -> GlobGen.Glob pat inp = glob pat inp.
Proof. exact gen_glob_eq. Qed.
Print Assumptions c20_generated_model_glob_eq.

(* total: no index out of range, and the fuel the translator was given — (|inp|+1)(|pat|+1)+1 for the
   backtracking loop, |pat|+1 for the trailing-stars loop — is never used up *)
Theorem c20_generated_model_glob_total : forall pat inp,
  fits_int pat -> fits_int inp -> exists b, GlobGen.Glob pat inp = Ok b.
Proof. exact gen_glob_total. Qed.
Print Assumptions c20_generated_model_glob_total.

(* true exactly when the input is the pattern with each '*' replaced by some string *)
Theorem c20_generated_model_glob_is_matches : forall pat inp b,
  fits_int pat -> fits_int inp ->
  (GlobGen.Glob pat inp = Ok b <-> (b = true <-> matches pat inp)).
Proof. exact gen_glob_iff_matches. Qed.
Print Assumptions c20_generated_model_glob_is_matches.

Theorem c20_generated_model_glob_true_iff_substitution : forall pat inp,
  fits_int pat -> fits_int inp ->
  (GlobGen.Glob pat inp = Ok true <-> exists fills, instantiate pat fills = Some inp).
Proof. exact gen_glob_iff_instantiate. Qed.
Print Assumptions c20_generated_model_glob_true_iff_substitution.

Theorem c20_generated_model_glob_eq_decider : forall pat inp,
  fits_int pat -> fits_int inp -> GlobGen.Glob pat inp = Ok (matches_b pat inp).
Proof. exact gen_glob_eq_matches_b. Qed.
Print Assumptions c20_generated_model_glob_eq_decider.

(* non-vacuity: the premises hold for concrete strings and the generated code really backtracks *)
Example c20_generated_model_nonvacuous :
  fits_int (hex "2a61622a63") /\ fits_int (hex "6161616162626263") /\
  GlobGen.Glob (hex "2a61622a63") (hex "6161616162626263") = Ok true /\
  GlobGen.Glob (hex "2a6162") (hex "616162") = Ok true /\
  GlobGen.Glob (hex "61") (hex "") = Ok false.
Proof. repeat split; vm_compute; reflexivity. Qed.
