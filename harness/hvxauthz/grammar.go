package hvxauthz

import (
	"bytes"
	"encoding/base64"
	"strings"
	"unicode"

	"verifharness/hv"
)

const prefix = "hop-dh-v1-"

// KeyLine is the canonical authorized_keys entry for a 32-byte key.
func KeyLine(k [32]byte) string { return prefix + base64.StdEncoding.EncodeToString(k[:]) }

var uniSpaces = []string{"\u00a0", "\u0085", "\u1680", "\u2000", "\u2003", "\u200a", "\u2028", "\u2029", "\u202f", "\u205f", "\u3000"}
var asciiSpaces = []string{" ", "\t", "\v", "\f", "\r", "  ", " \t "}

// GenLine produces one line (without '\n') of the given class. `good` are keys that the generator
// wants listed, `pool` all keys of the universe.
func GenLine(r *hv.Rand, class string, pool [][32]byte) string {
	k := hv.Pick(r, pool)
	enc := base64.StdEncoding.EncodeToString(k[:])
	switch class {
	case "valid":
		return prefix + enc
	case "valid-ascii-space":
		return hv.Pick(r, asciiSpaces) + prefix + enc + hv.Pick(r, asciiSpaces)
	case "valid-crlf":
		return prefix + enc + "\r"
	case "valid-unicode-space":
		return hv.Pick(r, uniSpaces) + hv.Pick(r, append(uniSpaces, "")) + prefix + enc + hv.Pick(r, uniSpaces) + hv.Pick(r, append(asciiSpaces, ""))
	case "valid-embedded-cr": // base64.StdEncoding ignores '\r' inside the text
		i := 1 + r.Intn(len(enc)-2)
		return prefix + enc[:i] + "\r" + enc[i:]
	case "valid-nonzero-pad-bits": // last sextet carries 2 unused bits; non-strict decoding ignores them
		b := []byte(enc)
		const alpha = "ABCDEFGHIJKLMNOPQRSTUVWXYZabcdefghijklmnopqrstuvwxyz0123456789+/"
		i := strings.IndexByte(alpha, b[42])
		b[42] = alpha[(i&^3)|(1+r.Intn(3))]
		return prefix + string(b)
	case "blank":
		return ""
	case "whitespace":
		return hv.Pick(r, append(append([]string{}, asciiSpaces...), uniSpaces...)) + hv.Pick(r, append(asciiSpaces, ""))
	case "comment":
		return hv.Pick(r, []string{"# my laptop", "#", "// key", "; " + prefix + enc, "#" + prefix + enc})
	case "garbage":
		return hv.Pick(r, []string{"garbage", "ssh-ed25519 AAAAC3NzaC1lZDI1NTE5AAAAIJ x@y", "\x00", "\xff\xfe", "hop", prefix, "=", "\xc2", "x\xe2\x80"})
	case "truncated-b64":
		return prefix + enc[:r.Intn(len(enc))]
	case "wrong-prefix":
		return hv.Pick(r, []string{"hop-dh-v2-", "Hop-dh-v1-", "hop-dh-v1", "hop_dh_v1-", "", "x" + prefix, "hop-dh-v1- "}) + enc
	case "len31":
		return prefix + base64.StdEncoding.EncodeToString(k[:31])
	case "len33":
		return prefix + base64.StdEncoding.EncodeToString(append(k[:], byte(r.Intn(256))))
	case "len0":
		return prefix
	case "urlsafe-or-raw":
		if r.Bool() {
			return prefix + base64.RawStdEncoding.EncodeToString(k[:]) // no padding
		}
		kk := k
		kk[0], kk[1], kk[2] = 0xfb, 0xff, 0xfe // forces '-' / '_' in the URL alphabet
		return prefix + base64.URLEncoding.EncodeToString(kk[:])
	case "trailing-text":
		return prefix + enc + hv.Pick(r, []string{" user@host", "#c", " #c", "=", "A", "\x00"})
	case "inner-space":
		i := 1 + r.Intn(len(enc)-2)
		return prefix + enc[:i] + hv.Pick(r, []string{" ", "\t", "\u00a0"}) + enc[i:]
	case "two-keys-one-line":
		k2 := hv.Pick(r, pool)
		return prefix + enc + " " + KeyLine(k2)
	}
	panic("unknown line class " + class)
}

var LineClasses = []string{"valid", "valid", "valid", "valid-ascii-space", "valid-crlf", "valid-unicode-space",
	"valid-embedded-cr", "valid-nonzero-pad-bits", "blank", "whitespace", "comment", "garbage", "truncated-b64",
	"wrong-prefix", "len31", "len33", "len0", "urlsafe-or-raw", "trailing-text", "inner-space", "two-keys-one-line"}

var OKLineClasses = []string{"valid", "valid", "valid-ascii-space", "valid-crlf", "valid-unicode-space", "valid-embedded-cr",
	"valid-nonzero-pad-bits", "blank", "whitespace"}

// GenFile builds authorized_keys contents. kind: "wellformed" (only lines the parser accepts),
// "mixed" (any classes), "onebad" (well-formed plus exactly one offending line at a random place),
// "empty", "long" (contains a line at the bufio.Scanner token limit).
func GenFile(r *hv.Rand, kind string, pool [][32]byte) (content []byte, classes []string) {
	var lines []string
	add := func(c string) { lines = append(lines, GenLine(r, c, pool)); classes = append(classes, c) }
	n := 1 + r.Intn(6)
	switch kind {
	case "empty":
		return []byte(hv.Pick(r, []string{"", "\n", "\n\n", " \n\t\n", "\r\n"})), []string{"empty"}
	case "wellformed":
		for i := 0; i < n; i++ {
			add(hv.Pick(r, OKLineClasses))
		}
	case "mixed":
		for i := 0; i < n; i++ {
			add(hv.Pick(r, LineClasses))
		}
	case "onebad":
		for i := 0; i < n; i++ {
			add(hv.Pick(r, OKLineClasses))
		}
		bad := hv.Pick(r, []string{"comment", "garbage", "truncated-b64", "wrong-prefix", "len31", "len33", "len0", "urlsafe-or-raw", "trailing-text", "inner-space", "two-keys-one-line"})
		i := r.Intn(len(lines) + 1)
		lines = append(lines[:i], append([]string{GenLine(r, bad, pool)}, lines[i:]...)...)
		classes = append(classes, bad)
	case "long":
		for i := 0; i < n; i++ {
			add(hv.Pick(r, OKLineClasses))
		}
		k := hv.Pick(r, pool)
		var long string
		switch r.Intn(5) {
		case 0: // valid entry padded to exactly the largest accepted length
			long = KeyLine(k) + strings.Repeat(" ", 65535-len(KeyLine(k)))
			classes = append(classes, "long-65535-valid")
		case 1: // one byte more: the scanner gives up, the rest of the file is dropped silently
			long = KeyLine(k) + strings.Repeat(" ", 65536-len(KeyLine(k)))
			classes = append(classes, "long-65536")
		case 2:
			long = strings.Repeat("A", 65536+r.Intn(3000))
			classes = append(classes, "long-garbage")
		case 3:
			long = strings.Repeat(" ", 65534) + "\r"
			classes = append(classes, "long-65535-blank-cr")
		default:
			long = strings.Repeat("x", 65535)
			classes = append(classes, "long-65535-garbage")
		}
		i := r.Intn(len(lines) + 1)
		lines = append(lines[:i], append([]string{long}, lines[i:]...)...)
	default:
		panic(kind)
	}
	sep := "\n"
	if r.Chance(15) {
		sep = "\r\n"
	}
	s := strings.Join(lines, sep)
	if !r.Chance(25) { // sometimes the last line is unterminated
		s += sep
	}
	return []byte(s), classes
}

// ---------------------------------------------------------------- specification oracle for entries
// Written from the property text ("appears as a well-formed entry in the file"): a line of the
// file whose text, surrounding white space removed, is the prefix followed by the standard padded
// base64 of exactly 32 bytes. Independent of hop-go (only the Go standard library).

func SpecEntry(line []byte) (key [32]byte, ok bool) {
	t := bytes.TrimFunc(line, unicode.IsSpace)
	if !bytes.HasPrefix(t, []byte(prefix)) {
		return key, false
	}
	b, err := base64.StdEncoding.DecodeString(string(t[len(prefix):]))
	if err != nil || len(b) != 32 {
		return key, false
	}
	copy(key[:], b)
	return key, true
}

// SpecEntries: the set of well-formed entries of the contents (any line, any position).
func SpecEntries(content []byte) map[[32]byte]bool {
	out := map[[32]byte]bool{}
	for _, l := range bytes.Split(content, []byte("\n")) {
		if k, ok := SpecEntry(l); ok {
			out[k] = true
		}
	}
	return out
}

// NearEntryShapes: lines that are NOT well-formed entries but are built from the very bytes of key
// k - the shapes a sloppy parser is most likely to let through. A client holding k must not get
// in through any of them.
var NearEntryShapes = []string{"bare-b64", "bare-b64-spaces", "prefix-upper", "prefix-mixed-case", "prefix-no-last-dash",
	"prefix-twice", "prefix-kem", "prefix-sign", "prefix-v2", "prefix-tail-only", "dash-only", "prefix-after",
	"urlsafe", "bare-urlsafe", "no-padding", "bare-no-padding", "extra-padding", "double-padding",
	"junk-before-space", "junk-before-tab", "junk-after-space", "junk-after-tab", "bare-junk-after", "quoted", "prefix-space-b64"}

func NearEntry(shape string, k [32]byte) string {
	enc := base64.StdEncoding.EncodeToString(k[:])
	switch shape {
	case "bare-b64":
		return enc
	case "bare-b64-spaces":
		return " " + enc + "\t"
	case "prefix-upper":
		return strings.ToUpper(prefix) + enc
	case "prefix-mixed-case":
		return "Hop-Dh-V1-" + enc
	case "prefix-no-last-dash":
		return prefix[:len(prefix)-1] + enc
	case "prefix-twice":
		return prefix + prefix + enc
	case "prefix-kem":
		return "hop-kem-v1-" + enc
	case "prefix-sign":
		return "hop-sign-v1-" + enc
	case "prefix-v2":
		return "hop-dh-v2-" + enc
	case "prefix-tail-only":
		return "dh-v1-" + enc
	case "dash-only":
		return "-" + enc
	case "prefix-after":
		return enc + prefix
	case "urlsafe":
		return prefix + base64.URLEncoding.EncodeToString(k[:])
	case "bare-urlsafe":
		return base64.URLEncoding.EncodeToString(k[:])
	case "no-padding":
		return prefix + base64.RawStdEncoding.EncodeToString(k[:])
	case "bare-no-padding":
		return base64.RawStdEncoding.EncodeToString(k[:])
	case "extra-padding":
		return prefix + enc + "="
	case "double-padding":
		return prefix + enc + "=="
	case "junk-before-space":
		return "ssh-ed25519 " + prefix + enc
	case "junk-before-tab":
		return "x\t" + prefix + enc
	case "junk-after-space":
		return prefix + enc + " user@host"
	case "junk-after-tab":
		return prefix + enc + "\tlaptop"
	case "bare-junk-after":
		return enc + " user@host"
	case "quoted":
		return "\"" + prefix + enc + "\""
	case "prefix-space-b64":
		return prefix + " " + enc
	}
	panic("unknown near-entry shape " + shape)
}
