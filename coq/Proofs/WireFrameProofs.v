(* Proofs about Model/WireFrame.v: frame codecs, the muxer's re-framing, Unreliable /
   Reliable message framing, and totality of sender.recvAck. *)
From Hop Require Import Base WireBase WireFrame WireBaseProofs.
From Coq Require Import ZifyN ZifyNat ZifyBool.
Ltac Zify.zify_post_hook ::= Z.div_mod_to_equations.
Open Scope N_scope.

Ltac rw_false e := let H := fresh in assert (H : e = false) by lia; rewrite H; clear H.
Ltac rw_true e := let H := fresh in assert (H : e = true) by lia; rewrite H; clear H.

(* ---------- flags ---------- *)
Lemma flags_meta_roundtrip f : flags_of_meta (meta_of_flags f) = f.
Proof. destruct f as [[] [] [] [] [] []]; reflexivity. Qed.
Lemma meta_lt_64 f : meta_of_flags f < 64.
Proof. destruct f as [[] [] [] [] [] []]; cbn; lia. Qed.

(* ---------- slices of concatenations ---------- *)
Lemma slice_mid pre x post : slice (pre ++ x ++ post) (len pre) (len pre + len x) = x.
Proof.
  unfold slice. rewrite drop_app. replace (len pre + len x - len pre) with (len x) by lia. apply take_app.
Qed.
Lemma slice_wf b i j : wf_bytes b = true -> wf_bytes (slice b i j) = true.
Proof. intros. unfold slice. apply wf_take, wf_drop. assumption. Qed.
Lemma len_slice b i j : j <= len b -> i <= j -> len (slice b i j) = j - i.
Proof. intros. unfold slice. rewrite len_take; [reflexivity|]. rewrite len_drop. lia. Qed.

Lemma nthb_wf b i : wf_bytes b = true -> nthb b i < 256.
Proof.
  unfold nthb. generalize (N.to_nat i). intros n. revert n. induction b as [|x b IH]; intros n H.
  - destruct n; cbn; lia.
  - rewrite wf_cons in H. apply andb_prop in H. destruct H as [Hx Hb].
    destruct n; cbn [nth]; [lia|apply IH; assumption].
Qed.

(* ---------- frame ---------- *)
Definition frame_hdr (f : frame) : bytes :=
  [fr_tube f; meta_of_flags (fr_flags f)] ++ be_enc 2 (fr_dlen f) ++ be_enc 4 (fr_ack f) ++ be_enc 4 (fr_no f).
Lemma frame_to_bytes_hdr f : frame_to_bytes f = frame_hdr f ++ fr_data f.
Proof. unfold frame_to_bytes, frame_hdr. rewrite <- !app_assoc. reflexivity. Qed.
Lemma len_frame_hdr f : len (frame_hdr f) = 12.
Proof. reflexivity. Qed.
Lemma len_frame_to_bytes f : len (frame_to_bytes f) = 12 + len (fr_data f).
Proof. rewrite frame_to_bytes_hdr, len_app, len_frame_hdr. reflexivity. Qed.

(* the header fields read back from any buffer that starts with frame_to_bytes f *)
Section HeaderSlices.
  Variable f : frame.
  Variable tail : bytes.
  Let b := frame_hdr f ++ tail.
  Lemma hdr_tube : nthb b 0 = fr_tube f. Proof. reflexivity. Qed.
  Lemma hdr_meta : nthb b 1 = meta_of_flags (fr_flags f). Proof. reflexivity. Qed.
  Lemma hdr_dlen : slice b 2 4 = be_enc 2 (fr_dlen f).
  Proof.
    unfold b, frame_hdr. rewrite <- !app_assoc.
    exact (slice_mid [fr_tube f; meta_of_flags (fr_flags f)] (be_enc 2 (fr_dlen f)) _).
  Qed.
  Lemma hdr_ack : slice b 4 8 = be_enc 4 (fr_ack f).
  Proof.
    unfold b, frame_hdr. rewrite <- !app_assoc.
    pose proof (slice_mid ([fr_tube f; meta_of_flags (fr_flags f)] ++ be_enc 2 (fr_dlen f)) (be_enc 4 (fr_ack f))
                  (be_enc 4 (fr_no f) ++ tail)) as S.
    rewrite <- !app_assoc in S. exact S.
  Qed.
  Lemma hdr_no : slice b 8 12 = be_enc 4 (fr_no f).
  Proof.
    unfold b, frame_hdr. rewrite <- !app_assoc.
    pose proof (slice_mid ([fr_tube f; meta_of_flags (fr_flags f)] ++ be_enc 2 (fr_dlen f) ++ be_enc 4 (fr_ack f))
                  (be_enc 4 (fr_no f)) tail) as S.
    rewrite <- !app_assoc in S. exact S.
  Qed.
End HeaderSlices.

Ltac wtf H := repeat (let H1 := fresh H in apply andb_prop in H; destruct H as [H H1]).

Lemma frame_roundtrip f junk :
  wt_frame f = true -> repr_frame f = true ->
  frame_from_bytes (frame_to_bytes f ++ junk) = Ok f.
Proof.
  intros Hwt Hr. unfold wt_frame in Hwt. wtf Hwt. unfold repr_frame in Hr. apply N.eqb_eq in Hr.
  change (2 ^ 32) with 4294967296 in *.
  rewrite frame_to_bytes_hdr, <- app_assoc. unfold frame_from_bytes.
  rewrite !len_app, len_frame_hdr.
  rw_false (12 + (len (fr_data f) + len junk) <? 12).
  rewrite hdr_dlen, hdr_ack, hdr_no, hdr_tube, hdr_meta.
  rewrite !be_dec_enc by (first [change (256 ^ N.of_nat 2) with 65536 | change (256 ^ N.of_nat 4) with 4294967296]; lia).
  rewrite Hr. rw_false (12 + (len (fr_data f) + len junk) <? 12 + len (fr_data f)).
  rewrite flags_meta_roundtrip.
  pose proof (slice_mid (frame_hdr f) (fr_data f) junk) as S. rewrite len_frame_hdr in S. rewrite S.
  destruct f; cbn in *; subst; reflexivity.
Qed.

Lemma frame_dec_sound b f :
  frame_from_bytes b = Ok f -> wf_bytes b = true -> wt_frame f = true /\ repr_frame f = true.
Proof.
  unfold frame_from_bytes. destruct (len b <? 12) eqn:E1; [discriminate|].
  destruct (len b <? 12 + be_dec (slice b 2 4)) eqn:E2; [discriminate|].
  intros H Hwf.
  assert (f = Fr (be_dec (slice b 4 8)) (be_dec (slice b 8 12)) (be_dec (slice b 2 4)) (flags_of_meta (nthb b 1)) (nthb b 0)
                 (slice b 12 (12 + be_dec (slice b 2 4)))) as -> by congruence. clear H.
  unfold wt_frame, repr_frame.
  cbn [fr_ack fr_no fr_dlen fr_tube fr_data].
  pose proof (be_dec_bound _ (slice_wf b 4 8 Hwf)) as Ha. rewrite len_slice in Ha by lia.
  pose proof (be_dec_bound _ (slice_wf b 8 12 Hwf)) as Hn. rewrite len_slice in Hn by lia.
  pose proof (be_dec_bound _ (slice_wf b 2 4 Hwf)) as Hd. rewrite len_slice in Hd by lia.
  change (256 ^ (8 - 4)) with 4294967296 in Ha. change (256 ^ (12 - 8)) with 4294967296 in Hn. change (256 ^ (4 - 2)) with 65536 in Hd.
  pose proof (nthb_wf b 0 Hwf).
  rewrite (slice_wf b 12 _ Hwf), len_slice by lia.
  change (2 ^ 32) with 4294967296.
  split; [repeat (apply andb_true_intro; split); try reflexivity; lia|lia].
Qed.

(* what was parsed re-encodes to bytes that parse to the same frame *)
Lemma frame_stable b f junk :
  frame_from_bytes b = Ok f -> wf_bytes b = true -> frame_from_bytes (frame_to_bytes f ++ junk) = Ok f.
Proof. intros H Hwf. destruct (frame_dec_sound _ _ H Hwf). apply frame_roundtrip; assumption. Qed.

Lemma frame_from_bytes_total b : frame_from_bytes b <> Panic.
Proof. unfold frame_from_bytes. repeat destruct (_ <? _); discriminate. Qed.

(* the original code panics on the muxer's own 65535-byte buffer *)
Definition panic_buffer : bytes := [0; 0; 255; 244] ++ zeros 65531.
Lemma frame_from_bytes_unfixed_panics :
  len panic_buffer = 65535 /\ frame_from_bytes_unfixed panic_buffer = Panic /\ frame_from_bytes panic_buffer = Err.
Proof. vm_compute. repeat split; reflexivity. Qed.

(* ---------- the muxer's re-framing ---------- *)
Lemma reframe_total b : wf_bytes b = true -> len b <= 65535 -> reframe b <> Panic.
Proof.
  intros Hwf Hlen. unfold reframe. destruct (frame_from_bytes b) as [f| |] eqn:E; cbn [bind];
    [|discriminate|exfalso; eapply frame_from_bytes_total; eauto].
  destruct (frame_dec_sound _ _ E Hwf) as [Hwt Hr].
  unfold repr_frame in Hr. apply N.eqb_eq in Hr.
  assert (Hd : fr_dlen f <= 65523).
  { unfold frame_from_bytes in E. destruct (len b <? 12); [discriminate|].
    destruct (len b <? 12 + be_dec (slice b 2 4)) eqn:E2; [discriminate|].
    assert (fr_dlen f = be_dec (slice b 2 4)) as -> by (injection E as <-; reflexivity). lia. }
  unfold iframe_from_bytes. rewrite len_frame_to_bytes, <- Hr.
  rw_false (12 + fr_dlen f <? 4).
  rw_false (12 + fr_dlen f <? 10).
  rewrite frame_to_bytes_hdr, hdr_dlen, be_dec_enc by (change (256 ^ N.of_nat 2) with 65536; lia).
  rewrite N.mod_small by lia.
  rw_false (10 + fr_dlen f <? 10).
  rw_false (12 + fr_dlen f <? 10 + fr_dlen f). discriminate.
Qed.

(* without the bound on the buffer the unchecked fromInitiateBytes does panic *)
Definition long_buffer : bytes := [0; 0; 255; 250] ++ zeros 65550.
Lemma reframe_panics_beyond_read_buffer : reframe long_buffer = Panic.
Proof. vm_compute. reflexivity. Qed.

(* ---------- initiate frames ---------- *)
Definition iframe_hdr (f : iframe) : bytes :=
  [if_tube f; meta_of_flags (if_flags f)] ++ be_enc 2 (if_dlen f) ++ [if_type f; 0] ++ be_enc 4 (if_no f).
Lemma iframe_to_bytes_hdr f : iframe_to_bytes f = iframe_hdr f ++ if_data f.
Proof. unfold iframe_to_bytes, iframe_hdr. rewrite <- !app_assoc. reflexivity. Qed.

Lemma iframe_roundtrip f :
  wt_iframe f = true -> repr_iframe f = true -> iframe_from_bytes (iframe_to_bytes f) = Ok f.
Proof.
  intros Hwt Hr. unfold wt_iframe in Hwt. wtf Hwt. unfold repr_iframe in Hr. wtf Hr. apply N.eqb_eq in Hr.
  rewrite iframe_to_bytes_hdr. unfold iframe_from_bytes. rewrite len_app.
  change (len (iframe_hdr f)) with 10.
  rw_false (10 + len (if_data f) <? 4).
  rw_false (10 + len (if_data f) <? 10).
  assert (S1 : slice (iframe_hdr f ++ if_data f) 2 4 = be_enc 2 (if_dlen f)).
  { unfold iframe_hdr. rewrite <- !app_assoc.
    exact (slice_mid [if_tube f; meta_of_flags (if_flags f)] (be_enc 2 (if_dlen f)) _). }
  assert (S2 : slice (iframe_hdr f ++ if_data f) 6 10 = be_enc 4 (if_no f)).
  { unfold iframe_hdr. rewrite <- !app_assoc.
    pose proof (slice_mid ([if_tube f; meta_of_flags (if_flags f)] ++ be_enc 2 (if_dlen f) ++ [if_type f; 0])
                  (be_enc 4 (if_no f)) (if_data f)) as S. rewrite <- !app_assoc in S. exact S. }
  rewrite S1, S2, !be_dec_enc by (first [change (256 ^ N.of_nat 2) with 65536 | change (256 ^ N.of_nat 4) with (2 ^ 32)]; lia).
  rewrite N.mod_small by lia.
  rw_false (10 + if_dlen f <? 10).
  rw_false (10 + len (if_data f) <? 10 + if_dlen f).
  pose proof (slice_mid (iframe_hdr f) (if_data f) []) as S. rewrite app_nil_r in S.
  change (len (iframe_hdr f)) with 10 in S. rewrite Hr, S.
  change (nthb (iframe_hdr f ++ if_data f) 0) with (if_tube f).
  change (nthb (iframe_hdr f ++ if_data f) 1) with (meta_of_flags (if_flags f)).
  change (nthb (iframe_hdr f ++ if_data f) 4) with (if_type f).
  rewrite flags_meta_roundtrip. destruct f; cbn in *; subst; reflexivity.
Qed.

(* ---------- Unreliable.WriteMsgUDP ---------- *)
Lemma unreliable_frame_ok id no b f :
  unreliable_frame id no b = Ok f ->
  len b <= max_frame_data /\ repr_frame f = true /\ fr_data f = b /\ fr_dlen f = len b.
Proof.
  unfold unreliable_frame, max_frame_data. destruct (32768 <? len b) eqn:E; [discriminate|].
  intros H. injection H as <-. unfold repr_frame. cbn [fr_dlen fr_data].
  rewrite N.mod_small by lia. rewrite N.eqb_refl. repeat split; lia.
Qed.

Lemma unreliable_write_roundtrip id no b q :
  unreliable_write id no b = Ok q -> id < 256 -> no < 2 ^ 32 -> wf_bytes b = true ->
  exists f, frame_from_bytes q = Ok f /\ fr_data f = b /\ fr_dlen f = len b /\ fr_tube f = id /\ fr_no f = no.
Proof.
  unfold unreliable_write. destruct (unreliable_frame id no b) as [f| |] eqn:E; cbn [bind]; try discriminate.
  intros H Hid Hno Hwf. injection H as <-.
  pose proof (unreliable_frame_ok _ _ _ _ E) as (Hl & Hr & Hd & Hdl).
  exists f. split.
  - rewrite <- (app_nil_r (frame_to_bytes f)). apply frame_roundtrip; [|exact Hr].
    unfold unreliable_frame in E. destruct (max_frame_data <? len b); [discriminate|]. injection E as <-.
    unfold wt_frame. cbn [fr_ack fr_no fr_dlen fr_tube fr_data]. rewrite Hwf.
    assert (len b mod 65536 < 65536) by (apply N.mod_lt; lia).
    repeat (apply andb_true_intro; split); try reflexivity; lia.
  - unfold unreliable_frame in E. destruct (max_frame_data <? len b); [discriminate|]. injection E as <-.
    cbn. repeat split; auto.
Qed.

Lemma unreliable_rejects id no b : max_frame_data < len b -> unreliable_write id no b = Err.
Proof.
  intros H. unfold unreliable_write, unreliable_frame. rw_true (max_frame_data <? len b). reflexivity.
Qed.

(* ---------- Reliable.WriteMsgUDP / ReadMsgUDP ---------- *)
Lemma relmsg_roundtrip m b rest :
  enc_relmsg m = Ok b -> val dec_relmsg (b ++ rest) = Ok (m, rest).
Proof.
  unfold enc_relmsg. destruct (65535 <? len m) eqn:E; [discriminate|]. intros H.
  assert (b = be_enc 2 (len m) ++ m) as -> by congruence. clear H.
  unfold dec_relmsg. rewrite <- app_assoc, val_bind, val_read_fixed.
  replace 2 with (len (be_enc 2 (len m))) at 1 by (rewrite len_be_enc; reflexivity).
  rewrite val_read_full_app, be_dec_enc by (change (256 ^ N.of_nat 2) with 65536; lia).
  rewrite val_read_fixed. apply val_read_full_app.
Qed.
Lemma enc_relmsg_repr m b : enc_relmsg m = Ok b -> len m <= 65535.
Proof. unfold enc_relmsg. destruct (65535 <? len m) eqn:E; [discriminate|]. lia. Qed.
Lemma dec_relmsg_no_panic s : val dec_relmsg s <> Panic.
Proof.
  unfold dec_relmsg. rewrite val_bind, val_read_fixed.
  destruct (val (read_full 2) s) as [[h s1]| |] eqn:E; [|discriminate|exfalso; eapply val_read_full_err; eauto].
  rewrite val_read_fixed. apply val_read_full_err.
Qed.
Lemma dec_relmsg_sound s m r :
  val dec_relmsg s = Ok (m, r) -> wf_bytes s = true -> wf_bytes m = true /\ len m <= 65535.
Proof.
  unfold dec_relmsg. rewrite val_bind, val_read_fixed. intros H Hwf.
  destruct (val (read_full 2) s) as [[h s1]| |] eqn:E; try discriminate.
  apply val_read_full_inv in E. destruct E as (-> & Hh & _ & _).
  rewrite wf_app in Hwf. apply andb_prop in Hwf. destruct Hwf as [Hw1 Hw2].
  rewrite val_read_fixed in H. apply val_read_full_inv in H. destruct H as (-> & Hm & _ & _).
  rewrite wf_app in Hw2. apply andb_prop in Hw2. destruct Hw2 as [Hw2 _].
  pose proof (be_dec_bound _ Hw1) as Hb. rewrite Hh in Hb. change (256 ^ 2) with 65536 in Hb.
  split; [exact Hw2|lia].
Qed.

(* ---------- sender.recvAck ---------- *)
Lemma retire_no_panic fuel :
  forall ack frames target, target <= ack + frames -> (N.to_nat frames < fuel)%nat ->
                            retire fuel ack frames target <> Panic.
Proof.
  induction fuel as [|k IH]; intros ack frames target Ht Hf; [lia|].
  cbn [retire]. destruct (ack <? target) eqn:E; [|discriminate].
  destruct (frames =? 0) eqn:E0; [lia|]. apply IH; lia.
Qed.

Lemma retire_ok fuel :
  forall ack frames target, target <= ack + frames -> (N.to_nat frames < fuel)%nat ->
    retire fuel ack frames target = Ok (N.max ack target, frames - (N.max ack target - ack)).
Proof.
  induction fuel as [|k IH]; intros ack frames target Ht Hf; [lia|].
  cbn [retire]. destruct (ack <? target) eqn:E.
  - destruct (frames =? 0) eqn:E0; [lia|]. rewrite IH by lia. f_equal. f_equal; lia.
  - f_equal. f_equal; lia.
Qed.

Theorem recv_ack_total s a : recv_ack s a <> Panic.
Proof.
  unfold recv_ack. destruct (100 <? s_dup s)%Z; [discriminate|].
  destruct ((s_ack s <? new_ack_no s a) && (s_frames s <? new_ack_no s a - s_ack s)) eqn:E; [discriminate|].
  apply retire_no_panic; [|lia].
  apply andb_false_elim in E. destruct E as [E|E]; lia.
Qed.

(* what an accepted acknowledgement does: the acknowledgement number advances to the
   (unwrapped) value and exactly that many buffered frames are retired *)
Lemma recv_ack_ok s a n fr :
  recv_ack s a = Ok (n, fr) ->
  n = N.max (s_ack s) (new_ack_no s a) /\ fr = s_frames s - (n - s_ack s) /\ n - s_ack s <= s_frames s.
Proof.
  unfold recv_ack. destruct (100 <? s_dup s)%Z; [discriminate|].
  destruct ((s_ack s <? new_ack_no s a) && (s_frames s <? new_ack_no s a - s_ack s)) eqn:E; [discriminate|].
  apply andb_false_elim in E.
  rewrite retire_ok by (destruct E as [E|E]; lia).
  intros H. injection H as <- <-. destruct E as [E|E]; repeat split; lia.
Qed.

(* the original code: an acknowledgement beyond anything sent indexes an empty slice *)
Lemma recv_ack_unfixed_panics : recv_ack_unfixed (Ss 1 0 10 0) 5 = Panic /\ recv_ack (Ss 1 0 10 0) 5 = Err.
Proof. split; reflexivity. Qed.
