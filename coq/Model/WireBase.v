(* WireBase.v — what every wire-format model (C18, C11) shares: the decoder monad over a byte
   stream with a ghost allocation counter, the primitive readers that transcribe Go's
   io.ReadFull / binary.Read / io.CopyN, and common.WriteString / common.ReadString.
   Definitions only; lemmas in Proofs/WireBaseProofs.v. *)
From Hop Require Import Base.
Open Scope N_scope.

(* ---- decoder monad -------------------------------------------------------------------
   A decoder consumes a prefix of the remaining stream and returns an outcome plus the
   number of bytes it asked the allocator for (ghost counter: requested sizes of make(),
   of io.Copy's transfer buffer, and the bytes appended to builders; the growth factor of
   builders is not modelled — the C11 theorems bound the counter by c1*|input| + c2). *)
Definition dres (A : Type) : Type := (res (A * bytes) * N)%type.
Definition M (A : Type) : Type := bytes -> dres A.

Definition retM {A} (a : A) : M A := fun s => (Ok (a, s), 0).
Definition failM {A} : M A := fun _ => (Err, 0).
Definition panicM {A} : M A := fun _ => (Panic, 0).
Definition bindM {A B} (m : M A) (f : A -> M B) : M B := fun s =>
  match m s with
  | (Ok (a, s'), n) => let r := f a s' in (fst r, n + snd r)
  | (Err, n) => (Err, n)
  | (Panic, n) => (Panic, n)
  end.
Notation "x <~ m ;; k" := (bindM m (fun x => k)) (at level 61, m at next level, right associativity).
Notation "m ;;; k" := (bindM m (fun _ => k)) (at level 61, right associativity).

Definition val {A} (m : M A) (s : bytes) : res (A * bytes) := fst (m s).
Definition cost {A} (m : M A) (s : bytes) : N := snd (m s).

(* make([]byte, n) and friends *)
Definition allocM (n : N) : M unit := fun s => (Ok (tt, s), n).

(* io.ReadFull(r, buf) with len(buf) = k, error checked: short input is an error *)
Definition read_full (k : N) : M bytes := fun s =>
  if k <=? len s then (Ok (take k s, drop k s), 0) else (Err, 0).

(* the buffer is allocated and then filled: binary.Read(r, order, &fixed), make+ReadFull *)
Definition read_fixed (k : N) : M bytes := allocM k ;;; read_full k.

Definition zeros (k : N) : bytes := repeat 0 (N.to_nat k).

(* io.ReadFull whose error is ignored by the caller: the buffer keeps what arrived, the rest
   stays zero, the stream is drained as far as it went *)
Definition read_full_lenient (k : N) : M bytes := fun s =>
  (Ok (take k s ++ zeros (k - len s), drop k s), 0).

(* io.CopyN(&builder, r, k): transfer buffer of min(k, 32 KiB), builder grows by what was
   copied; fewer than k bytes available is an error (io.EOF) *)
Definition copy_buf : N := 32768.
Definition copy_n (k : N) : M bytes := fun s =>
  if k <=? len s then (Ok (take k s, drop k s), N.min k copy_buf + k)
  else (Err, N.min k copy_buf + len s).

Definition byte1 (l : bytes) : N := hd 0 l.

(* whole-buffer decoders (frames) *)
Definition nthb (l : bytes) (i : N) : N := nth (N.to_nat i) l 0.
Definition slice (l : bytes) (i j : N) : bytes := take (j - i) (drop i l).

(* ---- common.WriteString / common.ReadString (after the fix: len > 255 is refused) ----- *)
Definition enc_wstring (s : bytes) : res bytes :=
  if 255 <? len s then Err else Ok (len s :: s).

Definition dec_wstring : M bytes :=
  l <~ read_fixed 1 ;; copy_n (byte1 l).

(* append, for encoders *)
Definition app_res (a b : res bytes) : res bytes :=
  x <- a ;; y <- b ;; Ok (x ++ y).

(* structural equality helpers for the correspondence checkers *)
Definition beq_res_bytes (r : res bytes) (code : N) (b : bytes) : bool :=
  match r with
  | Ok x => (code =? 0) && beq_bytes x b
  | Err => code =? 1
  | Panic => code =? 2
  end.
