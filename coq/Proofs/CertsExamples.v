(* CertsExamples.v — concrete instances: non-vacuity of the C04 theorems' premises, and witnesses for
   the three mutations named in the property text. *)
From Hop Require Import Base Certs CertsProofs.
Open Scope N_scope.

(* a root (key 10, fingerprint 101), an intermediate (key 20, fp 102) and a leaf (key 30, fp 103)
   with nested windows; signature ids 1,2,3; retained-byte ids 1,2,3 *)
Definition ex_name : name := (1, hex "6162").
Definition ex_root := mkCert Root [] 0 1000 10 0 1 101 1 150.
Definition ex_im := mkCert Intermediate [] 100 900 20 101 2 102 2 150.
Definition ex_leaf := mkCert Leaf [ex_name] 200 800 30 102 3 103 3 155.
(* the leaf with its expiry pushed out (a changed byte: other bytes id, other fingerprint, same
   signature bytes), and the intermediate with another key *)
Definition ex_leaf_mut := mkCert Leaf [ex_name] 200 5000 30 102 3 104 4 155.
Definition ex_im_mut := mkCert Intermediate [] 100 900 21 101 2 105 5 150.
(* valid Ed25519 triples: root signed itself and the intermediate, the intermediate signed the leaf *)
Definition ex_sv : sigfun := sig_table [(10, 1, 1); (10, 2, 2); (20, 3, 3)].
Definition ex_st : store := store_of [(101, ex_root)].
Definition ex_o (t : Z) : vopts := mkOpts (Some ex_im) (Some ex_name) (Some t).
Definition ex_U (c : cert) : Prop := In c [ex_root; ex_im; ex_leaf; ex_leaf_mut; ex_im_mut].

Lemma ex_accepts : verify_leaf ex_sv 0 ex_st (ex_o 500) ex_leaf = VOk.
Proof. vm_compute. reflexivity. Qed.

Lemma ex_valid_chain : valid_chain ex_sv 0 ex_st (ex_o 500) ex_leaf.
Proof. apply verify_leaf_sound. exact ex_accepts. Qed.

Lemma ex_coherent : forall t, presented_coherent ex_st (ex_o t) ex_leaf.
Proof. intros t p c _ _ H. vm_compute in H. discriminate. Qed.

Lemma ex_fp_inj : forall c1 c2, ex_U c1 -> ex_U c2 -> fp c1 = fp c2 -> c1 = c2.
Proof.
  unfold ex_U. intros c1 c2 H1 H2 E.
  repeat (destruct H1 as [H1|H1]; [subst c1|]); try contradiction;
  repeat (destruct H2 as [H2|H2]; [subst c2|]); try contradiction;
  try reflexivity; vm_compute in E; discriminate.
Qed.

Lemma ex_sv_cases : forall k c, ex_U c -> ex_sv k c = true ->
  (k = 10 /\ c = ex_root) \/ (k = 10 /\ c = ex_im) \/ (k = 20 /\ c = ex_leaf).
Proof.
  unfold ex_U. intros k c H E.
  repeat (destruct H as [H|H]; [subst c|]); try contradiction;
  unfold ex_sv, sig_table in E; cbn [existsb raw sg ex_root ex_im ex_leaf ex_leaf_mut ex_im_mut] in E;
  repeat match type of E with context [?a =? ?b] =>
    match a with k => fail 1 | _ => match b with k => fail 1 | _ =>
      let v := eval vm_compute in (a =? b) in change (a =? b) with v in E end end end;
  cbn [andb orb] in E; rewrite ?andb_false_r, ?andb_true_r, ?orb_false_r in E; cbn [orb] in E;
  try discriminate; apply N.eqb_eq in E; subst; auto.
Qed.

Lemma ex_sig_sound : forall k1 k2 c1 c2, ex_U c1 -> ex_U c2 ->
  ex_sv k1 c1 = true -> ex_sv k2 c2 = true -> sg c1 = sg c2 -> body c1 = body c2.
Proof.
  intros k1 k2 c1 c2 U1 U2 E1 E2 S.
  destruct (ex_sv_cases _ _ U1 E1) as [[_ ->]|[[_ ->]|[_ ->]]];
  destruct (ex_sv_cases _ _ U2 E2) as [[_ ->]|[[_ ->]|[_ ->]]];
  try reflexivity; vm_compute in S; discriminate.
Qed.

Lemma ex_sig_unique : forall k c1 c2, ex_U c1 -> ex_U c2 ->
  ex_sv k c1 = true -> ex_sv k c2 = true -> body c1 = body c2 -> sg c1 = sg c2.
Proof.
  intros k c1 c2 U1 U2 E1 E2 B.
  destruct (ex_sv_cases _ _ U1 E1) as [[_ ->]|[[_ ->]|[_ ->]]];
  destruct (ex_sv_cases _ _ U2 E2) as [[_ ->]|[[_ ->]|[_ ->]]];
  try reflexivity; vm_compute in B; discriminate.
Qed.

(* the mutated leaf is a genuine instance of the mutation theorem's premises ... *)
Lemma ex_mutation_premises :
  ex_U ex_leaf /\ ex_U ex_leaf_mut /\ sg ex_leaf_mut = sg ex_leaf /\ na ex_leaf_mut <> na ex_leaf.
Proof. unfold ex_U. repeat split; simpl; auto. vm_compute. discriminate. Qed.
(* ... and is rejected although 'now' lies in its (forged) window *)
Lemma ex_mutation_rejected : verify_leaf ex_sv 0 ex_st (ex_o 900) ex_leaf_mut <> VOk.
Proof. vm_compute. discriminate. Qed.

Lemma ex_im_mutation_rejected :
  verify_leaf ex_sv 0 ex_st (mkOpts (Some ex_im_mut) None (Some 500%Z)) ex_leaf = VUnknownIntermediate.
Proof. vm_compute. reflexivity. Qed.

Lemma ex_im_mutation_premises :
  ex_U ex_im /\ ex_U ex_im_mut /\ fp ex_im = parent ex_leaf /\ ex_im_mut <> ex_im.
Proof. unfold ex_U. repeat split; simpl; auto 8. intro H. apply (f_equal pk) in H. vm_compute in H. discriminate. Qed.

(* the three mutations of the property text, as concrete facts about the model *)
Lemma ex_expiry_exclusive :
  verify_leaf ex_sv 0 ex_st (ex_o 799) ex_leaf = VOk /\
  verify_leaf ex_sv 0 ex_st (ex_o 800) ex_leaf = VTimeInvalid /\
  verify_leaf ex_sv 0 ex_st (ex_o 200) ex_leaf = VOk /\
  verify_leaf ex_sv 0 ex_st (ex_o 199) ex_leaf = VTimeInvalid.
Proof. vm_compute. repeat split. Qed.

(* the same root certificate re-typed as an intermediate (signed by key 10 all the same) is no anchor *)
Definition ex_root_as_im := mkCert Intermediate [] 0 1000 10 0 1 101 1 150.
Lemma ex_anchor_must_be_root :
  verify_leaf ex_sv 0 (store_of [(101, ex_root_as_im)]) (ex_o 500) ex_leaf = VInvalidCertificate.
Proof. vm_compute. reflexivity. Qed.

Lemma ex_name_type_sensitive :
  verify_leaf ex_sv 0 ex_st (mkOpts (Some ex_im) (Some (0, hex "6162")) (Some 500%Z)) ex_leaf = VMismatchedName /\
  verify_leaf ex_sv 0 ex_st (mkOpts (Some ex_im) (Some (1, hex "61")) (Some 500%Z)) ex_leaf = VMismatchedName.
Proof. vm_compute. split; reflexivity. Qed.

(* issuing functions: a chain made by self_sign / issue_intermediate / issue_leaf_at, with the
   intermediate's requested lifetime clamped to the root's *)
Definition ex2_root := self_sign (mkId 10 []) Root (Some 10) 0 1000 1 101 1.
Definition ex2_im (r : cert) := issue_intermediate r true (mkId 20 []) 100 5000 2 102 2.
Definition ex2_leaf (i : cert) := issue_leaf_at i true (mkId 30 [ex_name]) 200 600 3 103 3.
Lemma ex_issue_chain :
  exists root im leaf, ex2_root = Some root /\ ex2_im root = Some im /\ ex2_leaf im = Some leaf /\
    na im = 1000%Z /\ na leaf = 800%Z /\
    sign_correct ex_sv root im /\ sign_correct ex_sv im leaf /\
    verify_leaf ex_sv 0 (store_of [(101, root)]) (mkOpts (Some im) (Some ex_name) (Some 799%Z)) leaf = VOk.
Proof.
  eexists. eexists. eexists. split; [vm_compute; reflexivity|].
  split; [vm_compute; reflexivity|]. split; [vm_compute; reflexivity|].
  vm_compute. repeat split.
Qed.

(* policy cascade: strict configuration accepts the chain, rejects without the root *)
Definition ex_cfg (st : store) : vconfig := mkCfg st None false false (Some ex_name) (Some 500%Z) None.
Lemma ex_policy :
  policy_verify ex_sv 0 (Some (ex_cfg ex_st)) (Some ex_leaf) (Some (Some ex_im)) = POk ex_leaf /\
  policy_verify ex_sv 0 (Some (ex_cfg (store_of []))) (Some ex_leaf) (Some (Some ex_im)) = PErr.
Proof. vm_compute. split; reflexivity. Qed.
