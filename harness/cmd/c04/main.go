// c04: certificate-verification correspondence driver.
//
// Builds certificate forests (with the real issuing functions and real Ed25519 keys, and by
// hand-serialising certificates with arbitrary fields signed with a chosen key), runs the real
// certs.Store.VerifyLeaf / certs.VerifyParent / issuing functions / authkeys / the handshake's
// certificateParserAndVerifier on them, judges every answer with a specification oracle written
// from the property statement (valid_chain evaluated directly on the bytes), and emits the abstract
// scenario (parsed fields, fingerprint ids, valid-signature table) for the Coq model.
package main

import (
	"bytes"
	"crypto/ed25519"
	"encoding/binary"
	"errors"
	"fmt"
	"math"
	"math/big"
	"os"
	"path/filepath"
	"sort"
	"strings"
	"time"

	"golang.org/x/crypto/sha3"

	"hop.computer/hop/authkeys"
	"hop.computer/hop/certs"
	"hop.computer/hop/keys"
	"hop.computer/hop/transport"
	"verifharness/hv"
)

// ------------------------------------------------------------------ harness-side certificate

// hcert is what the harness knows about a certificate independently of certs.Certificate:
// for byte-built certificates the fields are read from the bytes by miniParse below.
type hcert struct {
	label  string
	typ    byte
	names  []certs.Name
	nb, na time.Time
	pk     [32]byte
	parent [32]byte
	sig    [64]byte
	fp     [32]byte
	raw    []byte // the bytes the certificate was read from / serializes to (the signature covers raw[:len-64])
	c      *certs.Certificate
	wire   []byte    // serialized form when there is one (for the policy path)
	addFP  *[32]byte // Fingerprint field at the time of Store.AddCertificate, when it was changed afterwards
}

var maxUnix = uint64(math.MaxInt64 - 62135596800)

// miniParse reads the fields of a serialized certificate straight from the bytes (format:
// version, type, 2 reserved, issued u64, expires u64, key 32, parent 32, chunk, signature 64).
func miniParse(b []byte) (*hcert, error) {
	if len(b) < 86 {
		return nil, errors.New("short")
	}
	h := &hcert{typ: b[1]}
	nb := binary.BigEndian.Uint64(b[4:12])
	na := binary.BigEndian.Uint64(b[12:20])
	if nb > math.MaxInt64 || na > math.MaxInt64 {
		return nil, errors.New("timestamp")
	}
	h.nb, h.na = time.Unix(int64(nb), 0), time.Unix(int64(na), 0)
	copy(h.pk[:], b[20:52])
	copy(h.parent[:], b[52:84])
	cl := int(binary.BigEndian.Uint16(b[84:86]))
	if cl > 512 || cl < 2 {
		return nil, errors.New("chunk")
	}
	pos, read := 86, 0
	for read < cl-2 {
		if pos+3 > len(b) {
			return nil, errors.New("short block")
		}
		bs, ty, l := int(b[pos]), b[pos+1], int(b[pos+2])
		if bs < 3 || l > bs-3 || pos+3+l > len(b) {
			return nil, errors.New("block")
		}
		h.names = append(h.names, certs.Name{Type: certs.IDType(ty), Label: append([]byte{}, b[pos+3:pos+3+l]...)})
		pos += 3 + l
		read += 3 + l
	}
	if pos+64 != len(b) {
		return nil, errors.New("length")
	}
	copy(h.sig[:], b[pos:])
	h.fp = sha3.Sum256(b)
	h.raw = append([]byte(nil), b...)
	h.wire = h.raw
	return h, nil
}

// serialize writes a certificate body by hand and signs it with priv (nil: zero signature).
func serialize(typ byte, nb, na uint64, pk []byte, parent []byte, names []certs.Name, priv ed25519.PrivateKey) []byte {
	b := []byte{1, typ, 0, 0}
	b = binary.BigEndian.AppendUint64(b, nb)
	b = binary.BigEndian.AppendUint64(b, na)
	b = append(b, pk...)
	b = append(b, parent...)
	l := 2
	for _, n := range names {
		l += 3 + len(n.Label)
	}
	b = binary.BigEndian.AppendUint16(b, uint16(l))
	for _, n := range names {
		b = append(b, byte(3+len(n.Label)), byte(n.Type), byte(len(n.Label)))
		b = append(b, n.Label...)
	}
	sig := make([]byte, 64)
	if priv != nil {
		sig = ed25519.Sign(priv, b)
	}
	return append(b, sig...)
}

func goParse(b []byte) (*certs.Certificate, bool) {
	c := new(certs.Certificate)
	n, err := c.ReadFrom(bytes.NewBuffer(b))
	if err != nil || int(n) != len(b) {
		return nil, false
	}
	return c, true
}

var parseMismatch = "" // set when Go's parsed fields differ from the bytes

func sameNames(a, b []certs.Name) bool {
	if len(a) != len(b) {
		return false
	}
	for i := range a {
		if a[i].Type != b[i].Type || !bytes.Equal(a[i].Label, b[i].Label) {
			return false
		}
	}
	return true
}

// fromBytes parses with the real ReadFrom and with miniParse; nil when Go rejects the bytes.
func fromBytes(label string, b []byte) *hcert {
	c, ok := goParse(b)
	if !ok {
		return nil
	}
	h, err := miniParse(b)
	if err != nil {
		parseMismatch = fmt.Sprintf("%s: ReadFrom accepts %x but the format reader says %v", label, b, err)
		return nil
	}
	if byte(c.Type) != h.typ || !c.IssuedAt.Equal(h.nb) || !c.ExpiresAt.Equal(h.na) || c.PublicKey != h.pk ||
		c.Parent != h.parent || c.Signature != h.sig || c.Fingerprint != h.fp || !sameNames(c.IDChunk.Blocks, h.names) {
		parseMismatch = fmt.Sprintf("%s: parsed fields differ from the bytes %x", label, b)
	}
	h.label = label
	h.c = c
	return h
}

// fromIssued wraps an in-memory certificate returned by an issuing function. Its bytes are obtained
// with the exported Marshal (body followed by the Signature field).
func fromIssued(label string, c *certs.Certificate) *hcert {
	h := &hcert{label: label, typ: byte(c.Type), names: c.IDChunk.Blocks, nb: c.IssuedAt, na: c.ExpiresAt,
		pk: c.PublicKey, parent: c.Parent, sig: c.Signature, fp: c.Fingerprint, c: c}
	if b, err := c.Marshal(); err == nil {
		h.raw = b
		h.wire = b
	}
	return h
}

// inMemory: a certificate parsed from base's bytes with the exported ReadFrom whose exported struct
// fields are then changed (what the repository's unit tests do); the bytes it was read from stay.
func inMemory(label string, base *hcert, mut func(h *hcert)) *hcert {
	h := *base
	h.label = label
	h.names = append([]certs.Name(nil), base.names...)
	h.wire = nil
	mut(&h)
	c, ok := goParse(base.wire)
	if !ok {
		panic("inMemory: base does not parse: " + base.label)
	}
	c.Type, c.IssuedAt, c.ExpiresAt = certs.CertificateType(h.typ), h.nb, h.na
	c.IDChunk.Blocks, c.PublicKey, c.Parent, c.Signature, c.Fingerprint = h.names, h.pk, h.parent, h.sig, h.fp
	h.c = c
	return &h
}

// ------------------------------------------------------------------ identifiers for the abstract scenario

type ids struct {
	m map[string]uint64
}

func newIDs() *ids { return &ids{m: map[string]uint64{}} }
func (t *ids) of(b []byte) uint64 {
	allZero := true
	for _, x := range b {
		if x != 0 {
			allZero = false
		}
	}
	if allZero {
		return 0
	}
	if v, ok := t.m[string(b)]; ok {
		return v
	}
	v := uint64(len(t.m) + 1)
	t.m[string(b)] = v
	return v
}

// one namespace per run so that ids are stable inside a case
var keyIDs, fpIDs, sigIDs, rawIDs = newIDs(), newIDs(), newIDs(), newIDs()

func rawID(b []byte) uint64 {
	if len(b) == 0 {
		return 0
	}
	// all-zero raw strings do not occur; prefix with a byte so "of" never maps them to 0
	return rawIDs.of(append([]byte{1}, b...))
}

// nanos: nanoseconds since T0 (2023-11-14T22:13:20Z). Only the order of times matters to the code and
// the model is invariant under translation; a nearby origin keeps the numerals in the generated Coq files short.
func nanos(t time.Time) *big.Int {
	v := new(big.Int).Mul(big.NewInt(t.Unix()-T0), big.NewInt(1000000000))
	return v.Add(v, big.NewInt(int64(t.Nanosecond())))
}
func zTime(t time.Time) string {
	v := nanos(t)
	if v.Sign() < 0 {
		return "(" + v.String() + ")%Z"
	}
	return v.String() + "%Z"
}
func zDur(d time.Duration) string { return hv.Z(int64(d)) }

func coqName(n certs.Name) string {
	return hv.Tuple(hv.N(uint64(n.Type)), hv.Hex(n.Label))
}
func coqNames(ns []certs.Name) string {
	xs := make([]string, len(ns))
	for i, n := range ns {
		xs[i] = coqName(n)
	}
	return hv.List(xs)
}
func coqCert(h *hcert) string {
	return hv.App("K", hv.N(uint64(h.typ)), coqNames(h.names), zTime(h.nb), zTime(h.na), hv.N(keyIDs.of(h.pk[:])),
		hv.N(fpIDs.of(h.parent[:])), hv.N(sigIDs.of(h.sig[:])), hv.N(fpIDs.of(h.fp[:])), hv.N(rawID(h.raw)), hv.N(uint64(len(h.raw))))
}
func descCert(h *hcert) string {
	var ns []string
	for _, n := range h.names {
		ns = append(ns, fmt.Sprintf("%d:%q", n.Type, n.Label))
	}
	return fmt.Sprintf("%s{type=%d names=[%s] nb=%s na=%s key=%d parent=%d sig=%d fp=%d rawlen=%d}", h.label, h.typ, strings.Join(ns, ","),
		nanos(h.nb), nanos(h.na), keyIDs.of(h.pk[:]), fpIDs.of(h.parent[:]), sigIDs.of(h.sig[:]), fpIDs.of(h.fp[:]), len(h.raw))
}

// ------------------------------------------------------------------ signatures

var sigCache = map[string]bool{}

// edValid: crypto/ed25519 directly (not through the repo's keys package)
func edValid(key [32]byte, child *hcert) bool {
	if len(child.raw) < 64 {
		return false
	}
	k := string(key[:]) + "|" + string(child.sig[:]) + "|" + string(child.raw)
	if v, ok := sigCache[k]; ok {
		return v
	}
	v := ed25519.Verify(ed25519.PublicKey(key[:]), child.raw[:len(child.raw)-64], child.sig[:])
	sigCache[k] = v
	return v
}

var sigFuncMismatch = ""

type scenario struct {
	certs []*hcert
	index map[*hcert]int
}

func newScenario() *scenario { return &scenario{index: map[*hcert]int{}} }
func (s *scenario) add(h *hcert) int {
	if h == nil {
		panic("nil cert in scenario")
	}
	if i, ok := s.index[h]; ok {
		return i
	}
	s.index[h] = len(s.certs)
	s.certs = append(s.certs, h)
	return len(s.certs) - 1
}

// coq prints (certs, valid-signature triples) and cross-checks keys.VerifySignature against
// crypto/ed25519 on every (key, certificate) pair of the scenario.
func (s *scenario) coq() string {
	cs := make([]string, len(s.certs))
	for i, h := range s.certs {
		cs[i] = coqCert(h)
	}
	seen := map[string]bool{}
	var trip []string
	for _, kc := range s.certs {
		for _, ch := range s.certs {
			if len(ch.raw) < 64 {
				continue
			}
			v := edValid(kc.pk, ch)
			pk := keys.SigningPublicKey(kc.pk)
			sg := ch.sig
			if got := keys.VerifySignature(&pk, ch.raw[:len(ch.raw)-64], &sg); got != v && sigFuncMismatch == "" {
				sigFuncMismatch = fmt.Sprintf("keys.VerifySignature(key of %s, body of %s)=%v but crypto/ed25519 says %v", kc.label, ch.label, got, v)
			}
			if v {
				t := hv.Tuple(hv.N(keyIDs.of(kc.pk[:])), hv.N(rawID(ch.raw)), hv.N(sigIDs.of(ch.sig[:])))
				if !seen[t] {
					seen[t] = true
					trip = append(trip, t)
				}
			}
		}
	}
	return hv.List(cs) + " " + hv.List(trip)
}
func (s *scenario) desc() string {
	xs := make([]string, len(s.certs))
	for i, h := range s.certs {
		xs[i] = fmt.Sprintf("#%d %s", i, descCert(h))
	}
	return strings.Join(xs, "; ")
}

// ------------------------------------------------------------------ the specification oracle
// written from the property statement, on harness-side data only.

type nameReq struct {
	zero bool
	n    certs.Name
}

func (r nameReq) goName() certs.Name {
	if r.zero {
		return certs.Name{}
	}
	return r.n
}
func (r nameReq) coq() string {
	if r.zero {
		return "None"
	}
	return hv.Some(coqName(r.n))
}
func (r nameReq) String() string {
	if r.zero {
		return "none"
	}
	return fmt.Sprintf("%d:%q", r.n.Type, r.n.Label)
}

func specValidAt(h *hcert, now time.Time) bool {
	n := nanos(now)
	return nanos(h.nb).Cmp(n) <= 0 && n.Cmp(nanos(h.na)) < 0
}
func specHasName(h *hcert, n certs.Name) bool {
	for _, b := range h.names {
		if b.Type == n.Type && string(b.Label) == string(n.Label) {
			return true
		}
	}
	return false
}

// specValidChain: "the certificate is of leaf type, matches the requested name when one is given, is
// signed by an intermediate (presented or stored) whose fingerprint it names, that intermediate is
// signed by a root-type certificate present in the trust store, and all three are valid at the
// verification time".
func specValidChain(store []*hcert, presented *hcert, name nameReq, now time.Time, leaf *hcert) bool {
	if leaf.typ != 1 {
		return false
	}
	if !name.zero && !specHasName(leaf, name.n) {
		return false
	}
	if !specValidAt(leaf, now) {
		return false
	}
	cands := append([]*hcert{}, store...)
	if presented != nil {
		cands = append(cands, presented)
	}
	for _, im := range cands {
		if im.fp != leaf.parent || im.typ != 2 || !edValid(im.pk, leaf) || !specValidAt(im, now) {
			continue
		}
		for _, root := range store {
			if root.fp == im.parent && root.typ == 3 && edValid(root.pk, im) && specValidAt(root, now) {
				return true
			}
		}
	}
	return false
}

// specParentOK: "VerifyParent returns nil if parent issued child": type pairing rules, the child names
// the parent's fingerprint (a root names nothing), and the parent's key signed the child's bytes.
func specParentOK(child, par *hcert) bool {
	var zero [32]byte
	switch child.typ {
	case 1:
		if par.typ != 2 || child.parent != par.fp {
			return false
		}
	case 2:
		if par.typ != 3 || child.parent != par.fp {
			return false
		}
	case 3:
		if par.typ != 3 || child.parent != zero {
			return false
		}
	default:
		return false
	}
	return edValid(par.pk, child)
}

// ------------------------------------------------------------------ running VerifyLeaf

var reasonHist = map[string]int{}

type query struct {
	store     []*hcert
	presented *hcert
	name      nameReq
	cur       time.Time // zero: the code reads the clock
	leaf      *hcert
	live      *certs.Store // when set: the long-lived Store (built from `store`) that earlier queries of the same history also used
}

func mkStore(cs []*hcert) certs.Store {
	s := certs.Store{}
	for _, h := range cs {
		if h.addFP != nil {
			h.c.Fingerprint = *h.addFP
			s.AddCertificate(h.c)
			h.c.Fingerprint = h.fp
			continue
		}
		s.AddCertificate(h.c)
	}
	return s
}

func coqOptIdx(s *scenario, h *hcert) string {
	if h == nil {
		return "None"
	}
	return hv.Some(hv.N(uint64(s.add(h))))
}
func coqStore(s *scenario, cs []*hcert) string {
	// newest first: AddCertificate overwrites
	xs := make([]string, 0, len(cs))
	for i := len(cs) - 1; i >= 0; i-- {
		key := cs[i].fp
		if cs[i].addFP != nil {
			key = *cs[i].addFP
		}
		xs = append(xs, hv.Tuple(hv.N(fpIDs.of(key[:])), hv.N(uint64(s.add(cs[i])))))
	}
	return hv.List(xs)
}
func labels(cs []*hcert) string {
	xs := make([]string, len(cs))
	for i, h := range cs {
		xs[i] = h.label
	}
	return "{" + strings.Join(xs, ",") + "}"
}

var emitted = 0

func runVerify(class string, q query) (accepted bool) {
	opts := certs.VerifyOptions{Name: q.name.goName(), CurrentTime: q.cur}
	if q.presented != nil {
		opts.PresentedIntermediate = q.presented.c
	}
	st := mkStore(q.store)
	if q.live != nil {
		st = *q.live
	}
	clock := time.Now()
	now := q.cur
	if now.IsZero() {
		now = clock
		// the code reads the clock a little later than we do: keep away from window boundaries
		for _, h := range append(append([]*hcert{q.leaf}, q.store...), q.presented) {
			if h == nil {
				continue
			}
			for _, b := range []time.Time{h.nb, h.na} {
				if d := b.Sub(clock); d > -2*time.Second && d < 2*time.Second {
					return false
				}
			}
		}
	}
	var err error
	panicked, msg := hv.Catch(func() { err = st.VerifyLeaf(q.leaf.c, opts) })
	accepted = err == nil && !panicked
	reason := "ok"
	var ve certs.VerifyError
	if errors.As(err, &ve) {
		reason = ve.Reason().String()
	} else if err != nil {
		reason = "other error"
	}
	if panicked {
		reason = "panic"
	}
	reasonHist[reason]++
	want := specValidChain(q.store, q.presented, q.name, now, q.leaf)
	sc := newScenario()
	li := sc.add(q.leaf)
	pres := coqOptIdx(sc, q.presented)
	stc := coqStore(sc, q.store)
	cur := "None"
	curd := "clock"
	if !q.cur.IsZero() {
		cur = hv.Some(zTime(q.cur))
		curd = nanos(q.cur).String()
	}
	qc := strings.Join([]string{stc, pres, q.name.coq(), cur, zTime(clock), hv.N(uint64(li))}, " ")
	pl := "none"
	if q.presented != nil {
		pl = q.presented.label
	}
	desc := fmt.Sprintf("VerifyLeaf leaf=%s presented=%s store=%s name=%s now=%s | %s", q.leaf.label, pl, labels(q.store), q.name, curd, sc.desc())
	c := hv.Case{Fn: "c04v_ok", Coq: hv.App("V", sc.coq(), qc, hv.B(accepted)), Class: class + "/" + reason, Desc: desc,
		Spec: true, NT: q.leaf.typ == 1 && len(sc.certs) >= 2,
		Replay: map[string]interface{}{"go_result": fmt.Sprint(err), "oracle_valid_chain": want}}
	switch {
	case panicked:
		c.Spec, c.Sig, c.What = false, "C04:VerifyLeaf-panics", "VerifyLeaf panicked: "+msg
	case accepted && !want:
		c.Spec, c.Sig = false, "C04:accepts-invalid-chain"
		c.What = "VerifyLeaf returned nil although the chain is not valid per the property statement: " + whyInvalid(q, now)
	case !accepted && want:
		c.Spec, c.Sig = false, "C04:rejects-valid-chain"
		c.What = "VerifyLeaf returned \"" + fmt.Sprint(err) + "\" although leaf, intermediate and root form a valid chain at this time"
	}
	if parseMismatch != "" {
		c.Spec, c.Sig, c.What = false, "C04:parsed-fields-differ-from-signed-bytes", parseMismatch
		parseMismatch = ""
	}
	if sigFuncMismatch != "" {
		c.Spec, c.Sig, c.What = false, "C04:VerifySignature-differs-from-ed25519", sigFuncMismatch
		sigFuncMismatch = ""
	}
	hv.Emit(c)
	emitted++
	return accepted
}

// whyInvalid names the first clause of the property statement that fails (for the replay file)
func whyInvalid(q query, now time.Time) string {
	leaf := q.leaf
	if leaf.typ != 1 {
		return fmt.Sprintf("the certificate has type %d, not leaf", leaf.typ)
	}
	if !q.name.zero && !specHasName(leaf, q.name.n) {
		return "the leaf does not carry the requested (type,label) name " + q.name.String()
	}
	if !specValidAt(leaf, now) {
		return fmt.Sprintf("the leaf is not valid at %s (window [%s,%s))", nanos(now), nanos(leaf.nb), nanos(leaf.na))
	}
	cands := append([]*hcert{}, q.store...)
	if q.presented != nil {
		cands = append(cands, q.presented)
	}
	var notes []string
	for _, im := range cands {
		if im.fp != leaf.parent {
			continue
		}
		switch {
		case im.typ != 2:
			notes = append(notes, fmt.Sprintf("%s has the named fingerprint but type %d", im.label, im.typ))
		case !edValid(im.pk, leaf):
			notes = append(notes, im.label+" did not sign the leaf")
		case !specValidAt(im, now):
			notes = append(notes, fmt.Sprintf("%s is not valid at %s (window [%s,%s))", im.label, nanos(now), nanos(im.nb), nanos(im.na)))
		default:
			found := false
			for _, r := range q.store {
				if r.fp == im.parent {
					found = true
					switch {
					case r.typ != 3:
						notes = append(notes, fmt.Sprintf("trust anchor %s has type %d, not root", r.label, r.typ))
					case !edValid(r.pk, im):
						notes = append(notes, r.label+" did not sign "+im.label)
					case !specValidAt(r, now):
						notes = append(notes, fmt.Sprintf("%s is not valid at %s (window [%s,%s))", r.label, nanos(now), nanos(r.nb), nanos(r.na)))
					}
				}
			}
			if !found {
				notes = append(notes, "no certificate with the fingerprint "+im.label+" names is in the store")
			}
		}
	}
	if len(notes) == 0 {
		return "no presented or stored certificate has the fingerprint the leaf names"
	}
	return strings.Join(notes, "; ")
}

// ------------------------------------------------------------------ VerifyParent

func runParent(class string, child, par *hcert) {
	var err error
	panicked, msg := hv.Catch(func() { err = certs.VerifyParent(child.c, par.c) })
	ok := err == nil && !panicked
	want := specParentOK(child, par)
	sc := newScenario()
	ci := sc.add(child)
	pi := sc.add(par)
	c := hv.Case{Fn: "c04p_ok", Coq: hv.App("P", sc.coq(), hv.N(uint64(ci)), hv.N(uint64(pi)), hv.B(ok)), Class: class + "/" + fmt.Sprint(ok),
		Desc: fmt.Sprintf("VerifyParent child=%s parent=%s | %s", child.label, par.label, sc.desc()), Spec: true, NT: true,
		Replay: map[string]interface{}{"go_result": fmt.Sprint(err)}}
	if panicked {
		c.Spec, c.Sig, c.What = false, "C04:VerifyParent-panics", msg
	} else if ok != want {
		c.Spec, c.Sig = false, "C04:VerifyParent-differs-from-issued-by"
		c.What = fmt.Sprintf("VerifyParent says %v (%v) but 'parent issued child' is %v", ok, err, want)
	}
	hv.Emit(c)
	emitted++
}

// ------------------------------------------------------------------ forests

const T0 = 1700000000

func seedKey(r *hv.Rand) (ed25519.PrivateKey, [32]byte) {
	priv := ed25519.NewKeyFromSeed(r.Bytes(32))
	var pub [32]byte
	copy(pub[:], priv.Public().(ed25519.PublicKey))
	return priv, pub
}

type node struct {
	h    *hcert
	priv ed25519.PrivateKey
}

var namePool = []certs.Name{
	certs.DNSName("a.example"), certs.RawStringName("a.example"), certs.DNSName("a.exampl"), certs.DNSName("b.example"),
	{Type: certs.TypeIPv4Address, Label: []byte{10, 0, 0, 1}}, certs.DNSName(""), certs.RawStringName(""),
	{Type: 7, Label: []byte("a.example")}, certs.DNSName("a.example.org"),
}

func randWindow(r *hv.Rand, loose bool) (uint64, uint64) {
	nb := uint64(T0 - 50 - r.Intn(500))
	na := uint64(T0 + 50 + r.Intn(500))
	if loose && r.Chance(20) {
		switch r.Intn(4) {
		case 0:
			nb = uint64(T0 + 10 + r.Intn(100)) // not yet valid at T0
		case 1:
			na = uint64(T0 - 10 - r.Intn(40)) // expired at T0
		case 2:
			nb, na = na, nb // empty window
		case 3:
			na = nb // empty window
		}
	}
	return nb, na
}

var zero32 = make([]byte, 32)

// synthForest builds hand-serialised certificates. wild=false gives properly nested valid chains.
func synthForest(r *hv.Rand, tag string, wild bool) []*node {
	var all []*node
	var roots, ims, leaves []*node
	mk := func(label string, typ byte, nb, na uint64, pub [32]byte, parent []byte, names []certs.Name, signer ed25519.PrivateKey, own ed25519.PrivateKey) *node {
		b := serialize(typ, nb, na, pub[:], parent, names, signer)
		h := fromBytes(tag+label, b)
		if h == nil {
			panic("synthetic certificate does not parse: " + label)
		}
		n := &node{h: h, priv: own}
		all = append(all, n)
		return n
	}
	pickType := func(def byte, p int) byte {
		if wild && r.Chance(p) {
			return hv.Pick(r, []byte{0, 1, 2, 3, 4, 255})
		}
		return def
	}
	for i := 0; i < 2; i++ {
		priv, pub := seedKey(r)
		nb, na := randWindow(r, wild)
		if !wild {
			nb, na = T0-1000-uint64(r.Intn(100)), T0+1000+uint64(r.Intn(100))
		}
		par := zero32
		if wild && r.Chance(10) {
			par = r.Bytes(32)
		}
		signer := priv
		if wild && r.Chance(10) {
			signer, _ = seedKey(r) // root whose own signature is invalid (VerifyLeaf never checks it)
		}
		roots = append(roots, mk(fmt.Sprintf("R%d", i), pickType(3, 15), nb, na, pub, par, nil, signer, priv))
	}
	for i, root := range roots {
		for j := 0; j < 1+r.Intn(2); j++ {
			priv, pub := seedKey(r)
			nb, na := randWindow(r, wild)
			if !wild {
				nb, na = T0-500-uint64(r.Intn(100)), T0+500+uint64(r.Intn(100))
			}
			par := root.h.fp[:]
			signer := root.priv
			if wild && r.Chance(12) {
				par = roots[1-i].h.fp[:] // names the other root
			}
			if wild && r.Chance(12) {
				signer = roots[1-i].priv // signed by the other root
			}
			ims = append(ims, mk(fmt.Sprintf("I%d%d", i, j), pickType(2, 15), nb, na, pub, par, nil, signer, priv))
		}
	}
	for i, im := range ims {
		for j := 0; j < 1+r.Intn(2); j++ {
			priv, pub := seedKey(r) // an Ed25519 key in a leaf: lets a leaf act as an issuer
			nb, na := randWindow(r, wild)
			if !wild {
				nb, na = T0-100-uint64(r.Intn(50)), T0+100+uint64(r.Intn(50))
			}
			var names []certs.Name
			for k := r.Intn(4); k > 0; k-- {
				names = append(names, hv.Pick(r, namePool))
			}
			if !wild && len(names) == 0 {
				names = []certs.Name{namePool[0]}
			}
			par := im.h.fp[:]
			signer := im.priv
			if wild && r.Chance(12) {
				o := hv.Pick(r, ims)
				par = o.h.fp[:] // swapped parent
			}
			if wild && r.Chance(12) {
				signer = hv.Pick(r, ims).priv
			}
			if wild && r.Chance(6) {
				par = roots[0].h.fp[:] // leaf directly under a root
				signer = roots[0].priv
			}
			leaves = append(leaves, mk(fmt.Sprintf("L%d%d", i, j), pickType(1, 12), nb, na, pub, par, names, signer, priv))
		}
	}
	if wild {
		// a leaf used as issuer, a self-signed leaf, an intermediate under an intermediate
		l0 := leaves[0]
		_, pub := seedKey(r)
		nb, na := randWindow(r, false)
		mk("LL", 1, nb, na, pub, l0.h.fp[:], []certs.Name{namePool[0]}, l0.priv, nil)
		priv, pub2 := seedKey(r)
		mk("Lself", 1, nb, na, pub2, zero32, []certs.Name{namePool[0]}, priv, priv)
		i0 := ims[0]
		priv3, pub3 := seedKey(r)
		sub := mk("II", 2, nb, na, pub3, i0.h.fp[:], nil, i0.priv, priv3)
		_, pub4 := seedKey(r)
		mk("LII", 1, nb, na, pub4, sub.h.fp[:], []certs.Name{namePool[0]}, priv3, nil)
	}
	return all
}

func hs(ns []*node) []*hcert {
	out := make([]*hcert, len(ns))
	for i, n := range ns {
		out[i] = n.h
	}
	return out
}

func byFP(all []*hcert, fp [32]byte) *hcert {
	for _, h := range all {
		if h.fp == fp {
			return h
		}
	}
	return nil
}

func ofType(all []*hcert, t byte) []*hcert {
	var out []*hcert
	for _, h := range all {
		if h.typ == t {
			out = append(out, h)
		}
	}
	return out
}

func flipBit(b []byte, i int) []byte {
	o := append([]byte(nil), b...)
	o[i/8] ^= 1 << (i % 8)
	return o
}

func sec(s int64, ns int64) time.Time { return time.Unix(s, ns) }

// boundary clocks of a certificate
func clocksOf(h *hcert) []time.Time {
	return []time.Time{h.nb.Add(-time.Second), h.nb.Add(-1), h.nb, h.nb.Add(1), h.na.Add(-time.Second), h.na.Add(-1), h.na, h.na.Add(1), h.na.Add(time.Second)}
}

// a time at which as many of the given certificates as possible are valid
func commonTime(cs ...*hcert) time.Time {
	lo, hi := time.Unix(0, 0), time.Unix(1<<40, 0)
	for _, c := range cs {
		if c == nil {
			continue
		}
		if c.nb.After(lo) {
			lo = c.nb
		}
		if c.na.Before(hi) {
			hi = c.na
		}
	}
	if lo.Before(hi) {
		return lo.Add(hi.Sub(lo) / 2)
	}
	return time.Unix(T0, 0)
}

func nameVariants(leaf *hcert) []nameReq {
	out := []nameReq{{zero: true}, {n: certs.Name{Type: 0, Label: []byte{}}}, {n: certs.Name{Type: 1, Label: nil}}, {n: certs.DNSName("absent.example")}}
	for _, n := range leaf.names {
		out = append(out, nameReq{n: n})
		out = append(out, nameReq{n: certs.Name{Type: n.Type ^ 1, Label: n.Label}}) // same label, other type
		out = append(out, nameReq{n: certs.Name{Type: n.Type + 1, Label: n.Label}})
		if len(n.Label) > 0 {
			out = append(out, nameReq{n: certs.Name{Type: n.Type, Label: n.Label[:len(n.Label)-1]}}) // prefix
		}
		out = append(out, nameReq{n: certs.Name{Type: n.Type, Label: append(append([]byte{}, n.Label...), 'x')}})
	}
	return out
}

// sweepForest issues the query families around every certificate of the forest taken as "leaf".
func sweepForest(r *hv.Rand, class string, all []*hcert, perLeafRandom int, keepPct int) {
	roots := ofType(all, 3)
	ims := ofType(all, 2)
	for _, leaf := range all {
		im := byFP(all, leaf.parent)
		var root *hcert
		if im != nil {
			root = byFP(all, im.parent)
		}
		tb := commonTime(leaf, im, root)
		if leaf.typ != 1 && !r.Chance(40) {
			// non-leaf certificates as verification targets: a few queries only
			runVerify(class+"/nonleaf-target", query{store: all, presented: im, name: nameReq{zero: true}, cur: tb, leaf: leaf})
			continue
		}
		// 1. clock boundaries of each of the three certificates
		for _, c := range []*hcert{leaf, im, root} {
			if c == nil {
				continue
			}
			for _, t := range clocksOf(c) {
				if c != leaf && !r.Chance(keepPct) {
					continue
				}
				runVerify(class+"/clock", query{store: roots, presented: im, name: nameReq{zero: true}, cur: t, leaf: leaf})
			}
		}
		// 2. presented intermediate x trust store
		var otherIm *hcert
		for _, o := range ims {
			if o != im {
				otherIm = o
			}
		}
		presChoices := []*hcert{nil, im, otherIm, root, leaf}
		if im != nil && im.wire != nil {
			if m := fromBytes(im.label+"~bit", flipBit(im.wire, 8*20+r.Intn(8*32))); m != nil { // key bits
				presChoices = append(presChoices, m)
			}
			if m := fromBytes(im.label+"~sig", flipBit(im.wire, 8*(len(im.wire)-64)+r.Intn(512))); m != nil {
				presChoices = append(presChoices, m)
			}
		}
		var notRoots, otherRoots []*hcert
		for _, h := range all {
			if h.typ != 3 {
				notRoots = append(notRoots, h)
			}
			if h.typ == 3 && h != root {
				otherRoots = append(otherRoots, h)
			}
		}
		storeChoices := [][]*hcert{roots, append(append([]*hcert{}, roots...), ims...), all, nil, otherRoots, notRoots}
		for _, p := range presChoices {
			for si, st := range storeChoices {
				if p == nil && si == 3 {
					continue
				}
				if p != nil && p != im && si >= 3 && !r.Chance(35) {
					continue
				}
				if !(p == im && si == 0) && !r.Chance(keepPct) {
					continue
				}
				runVerify(class+"/presented-store", query{store: st, presented: p, name: nameReq{zero: true}, cur: tb, leaf: leaf})
			}
		}
		// 2b. trust anchors must come from the store: the leaf's intermediate is stored WITHOUT its root
		// (orphan) and something from the whole forest -- in particular the genuine but untrusted root --
		// is handed over in the presented-intermediate slot; also intermediate presented and root absent.
		if im != nil {
			var allButRoot, imsOnly []*hcert
			for _, h := range all {
				if h != root {
					allButRoot = append(allButRoot, h)
				}
				if h.typ == 2 && h != root {
					imsOnly = append(imsOnly, h)
				}
			}
			orphanStores := [][]*hcert{{im}, {im, leaf}, append([]*hcert{im}, otherRoots...), imsOnly, notRoots, allButRoot}
			for _, st := range orphanStores {
				pres := []*hcert{root, nil}
				for k := 0; k < 2; k++ {
					pres = append(pres, hv.Pick(r, all)) // anything: other roots, leaves, the leaf itself, unrelated intermediates
				}
				for _, p := range pres {
					if p == nil && !r.Chance(50) {
						continue
					}
					runVerify(class+"/orphan-store-x-presented", query{store: st, presented: p, name: nameReq{zero: true}, cur: tb, leaf: leaf})
				}
			}
			if root != nil {
				// the untrusted root presented at the clock boundaries of the leaf, and with names
				for _, t := range []time.Time{leaf.nb, leaf.na.Add(-1), root.nb, root.na.Add(-1)} {
					runVerify(class+"/orphan-store-x-presented", query{store: []*hcert{im}, presented: root, name: nameReq{zero: true}, cur: t, leaf: leaf})
				}
				for _, n := range leaf.names {
					runVerify(class+"/orphan-store-x-presented", query{store: imsOnly, presented: root, name: nameReq{n: n}, cur: tb, leaf: leaf})
				}
			}
		}
		// 3. requested names
		for _, n := range nameVariants(leaf) {
			runVerify(class+"/name", query{store: roots, presented: im, name: n, cur: tb, leaf: leaf})
		}
		// 4. random combinations
		for k := 0; k < perLeafRandom; k++ {
			var st []*hcert
			for _, h := range all {
				if r.Chance(50) {
					st = append(st, h)
				}
			}
			p := hv.Pick(r, presChoices)
			if r.Chance(50) {
				p = hv.Pick(r, all)
			}
			if r.Chance(33) && root != nil {
				// drop the chain's root from the subset, keep its intermediate
				var st2 []*hcert
				for _, h := range st {
					if h != root && h != im {
						st2 = append(st2, h)
					}
				}
				st = st2
				if im != nil {
					st = append(st, im)
				}
			}
			nv := nameVariants(leaf)
			var t time.Time
			if c := hv.Pick(r, []*hcert{leaf, im, root}); c != nil {
				t = hv.Pick(r, clocksOf(c))
			} else {
				t = tb
			}
			runVerify(class+"/random", query{store: st, presented: p, name: hv.Pick(r, nv), cur: t, leaf: leaf})
		}
	}
}

// ------------------------------------------------------------------ in-memory field mutation (what the unit tests do)

func inMemoryMutations(r *hv.Rand, all []*hcert) {
	roots := ofType(all, 3)
	for _, leaf := range ofType(all, 1) {
		im := byFP(all, leaf.parent)
		if im == nil || im.typ != 2 {
			continue
		}
		root := byFP(all, im.parent)
		if root == nil {
			continue
		}
		tb := commonTime(leaf, im, root)
		if !specValidChain(roots, im, nameReq{zero: true}, tb, leaf) {
			continue
		}
		// the stored / presented object has a struct field changed after parsing; bytes unchanged
		muts := []struct {
			name string
			f    func(h *hcert)
		}{
			{"na=now", func(h *hcert) { h.na = tb }},
			{"na=now+1ns", func(h *hcert) { h.na = tb.Add(1) }},
			{"nb=now", func(h *hcert) { h.nb = tb }},
			{"nb=now+1ns", func(h *hcert) { h.nb = tb.Add(1) }},
			{"type=3", func(h *hcert) { h.typ = 3 }},
			{"type=1", func(h *hcert) { h.typ = 1 }},
			{"type=2", func(h *hcert) { h.typ = 2 }},
			{"sig[0]++", func(h *hcert) { h.sig[0]++ }},
			{"parent[0]++", func(h *hcert) { h.parent[0]++ }},
			{"names=[]", func(h *hcert) { h.names = nil }},
			{"names+extra", func(h *hcert) { h.names = append(h.names, certs.DNSName("extra.example")) }},
		}
		// Fingerprint field changed after AddCertificate: the map key is stale ("should not happen" branches)
		for _, victim := range []*hcert{im, root} {
			old := victim.fp
			stale := inMemory(victim.label+"~fp-after-add", victim, func(h *hcert) { h.fp[0] ^= 0x55; h.addFP = &old })
			var st []*hcert
			for _, x := range roots {
				if x != victim {
					st = append(st, x)
				}
			}
			st = append(st, stale)
			p := im
			if victim == im {
				p = nil
			}
			runVerify("inmemory-stale-store-key", query{store: st, presented: p, name: nameReq{zero: true}, cur: tb, leaf: leaf})
		}
		for _, m := range muts {
			l2 := inMemory(leaf.label+"~"+m.name, leaf, m.f)
			runVerify("inmemory-leaf", query{store: roots, presented: im, name: nameReq{zero: true}, cur: tb, leaf: l2})
			runVerify("inmemory-leaf", query{store: roots, presented: im, name: nameReq{n: certs.DNSName("extra.example")}, cur: tb, leaf: l2})
			i2 := inMemory(im.label+"~"+m.name, im, m.f)
			runVerify("inmemory-intermediate", query{store: roots, presented: i2, name: nameReq{zero: true}, cur: tb, leaf: leaf})
			runVerify("inmemory-intermediate", query{store: append(append([]*hcert{}, roots...), i2), name: nameReq{zero: true}, cur: tb, leaf: leaf})
			var st []*hcert
			for _, x := range roots {
				if x == root {
					st = append(st, inMemory(root.label+"~"+m.name, root, m.f))
				} else {
					st = append(st, x)
				}
			}
			runVerify("inmemory-root", query{store: st, presented: im, name: nameReq{zero: true}, cur: tb, leaf: leaf})
		}
		break
	}
}

// ------------------------------------------------------------------ single-bit flips of a verified chain

type strictPolicy struct {
	store []*hcert
	name  nameReq
	cur   time.Time
}

// unstoredBytes: positions of the bytes of a serialized certificate that the parser accepts without
// keeping them in a struct field (version byte, the two reserved bytes, the chunk length, the size
// byte of every ID block) plus the type byte: every bit of these is flipped in every tier.
func unstoredBytes(b []byte) []int {
	pos := []int{0, 1, 2, 3, 84, 85}
	if len(b) < 86 {
		return pos
	}
	cl := int(binary.BigEndian.Uint16(b[84:86]))
	p, read := 86, 0
	for read < cl-2 && p+3 <= len(b)-64 {
		pos = append(pos, p, p+2) // block size byte and label length byte
		l := int(b[p+2])
		p += 3 + l
		read += 3 + l
	}
	return pos
}

func bitFlips(r *hv.Rand, all []*hcert, step int) {
	roots := ofType(all, 3)
	// the verified chain whose leaf carries the most names (most ID-block size bytes)
	var leaf, im *hcert
	var tb time.Time
	for _, l := range ofType(all, 1) {
		i := byFP(all, l.parent)
		if i == nil {
			continue
		}
		t := commonTime(l, i, byFP(all, i.parent))
		if !specValidChain(roots, i, nameReq{zero: true}, t, l) {
			continue
		}
		if leaf == nil || len(l.names) > len(leaf.names) {
			leaf, im, tb = l, i, t
		}
	}
	if leaf == nil {
		return
	}
	if !runVerify("bitflip/base", query{store: roots, presented: im, name: nameReq{zero: true}, cur: tb, leaf: leaf}) {
		return
	}
	for which, target := range []*hcert{leaf, im} {
		bits := map[int]string{}
		for i := r.Intn(step); i < 8*len(target.wire); i += step {
			bits[i] = "bitflip"
		}
		for _, p := range unstoredBytes(target.wire) {
			for k := 0; k < 8; k++ {
				bits[8*p+k] = "bitflip-unstored-byte"
			}
		}
		var order []int
		for i := range bits {
			order = append(order, i)
		}
		sort.Ints(order)
		for _, i := range order {
			cls := bits[i]
			fb := flipBit(target.wire, i)
			rawLeaf, rawIm := leaf.wire, im.wire
			if which == 0 {
				rawLeaf = fb
			} else {
				rawIm = fb
			}
			m := fromBytes(fmt.Sprintf("%s~bit%d", target.label, i), fb)
			what := fmt.Sprintf("bit %d (byte %d) of the verified %s flipped: %x", i, i/8, target.label, fb)
			// direct call when the flipped bytes still parse
			if m != nil {
				q := query{store: roots, presented: im, name: nameReq{zero: true}, cur: tb, leaf: leaf}
				if which == 0 {
					q.leaf = m
				} else {
					q.presented = m
				}
				if runVerify(cls+"/direct", q) {
					// "changing any bit of a verified leaf or intermediate makes verification fail"
					hv.Emit(hv.Case{Class: cls + "/accepted", Desc: what, Spec: false, Sig: "C04:bit-flip-accepted",
						What: "VerifyLeaf still succeeds after " + what + " (original " + fmt.Sprintf("%x", target.wire) + ")"})
				}
			}
			// handshake path on the raw bytes
			lh, ih := leaf, im
			if which == 0 {
				lh = m
			} else {
				ih = m
			}
			runPolicy(cls+"/policy", policyCase{cfg: &policyCfg{store: roots, cur: tb, name: nameReq{zero: true}}, rawLeaf: rawLeaf, rawIm: rawIm, leaf: lh, im: ih,
				imGiven: true, mustReject: true, what: what})
		}
	}
}

// ------------------------------------------------------------------ policy cascade (certificateParserAndVerifier)

type policyCfg struct {
	store      []*hcert
	authkeys   [][32]byte
	noAuthSet  bool // AuthKeys == nil
	allowed    bool
	skip       bool
	name       nameReq
	cur        time.Time
	callback   bool
	cbKeys     [][32]byte // callback accepts iff the leaf key is listed
	nilConfig  bool
	desc       string
	cfgPrinted string
}

type policyCase struct {
	cfg        *policyCfg
	rawLeaf    []byte
	rawIm      []byte
	leaf, im   *hcert // parsed forms (nil: does not parse)
	imGiven    bool
	mustReject bool
	what       string
}

func inKeys(ks [][32]byte, k [32]byte) bool {
	for _, x := range ks {
		if x == k {
			return true
		}
	}
	return false
}
func coqKeys(ks [][32]byte) string {
	xs := make([]string, len(ks))
	for i, k := range ks {
		xs[i] = hv.N(keyIDs.of(k[:]))
	}
	return hv.List(xs)
}

func runPolicy(class string, pc policyCase) {
	cfg := pc.cfg
	var vc *transport.VerifyConfig
	if !cfg.nilConfig {
		vc = &transport.VerifyConfig{Store: mkStore(cfg.store), AuthKeysAllowed: cfg.allowed, InsecureSkipVerify: cfg.skip,
			Name: cfg.name.goName(), CurrentTime: cfg.cur}
		if !cfg.noAuthSet {
			vc.AuthKeys = authkeys.NewSyncAuthKeySet()
			for _, k := range cfg.authkeys {
				vc.AuthKeys.AddKey(k)
			}
		}
		if cfg.callback {
			ks := cfg.cbKeys
			vc.AddVerifyCallback = func(c *certs.Certificate) error {
				if inKeys(ks, c.PublicKey) {
					return nil
				}
				return errors.New("callback refuses")
			}
		}
	}
	clock := time.Now()
	var err error
	panicked, _ := hv.Catch(func() { _, err = transport.VerifCertPolicy(vc, pc.rawLeaf, pc.rawIm) })
	obs := 0
	if panicked {
		obs = 2
	} else if err != nil {
		obs = 1
	}
	sc := newScenario()
	pl := "None"
	if pc.leaf != nil {
		pl = hv.Some(hv.N(uint64(sc.add(pc.leaf))))
	}
	pi := "None"
	if len(pc.rawIm) > 0 {
		if pc.im != nil {
			pi = hv.Some(hv.Some(hv.N(uint64(sc.add(pc.im)))))
		} else {
			pi = "(Some None)"
		}
	}
	cfgc := "None"
	if !cfg.nilConfig {
		ak := "None"
		if !cfg.noAuthSet {
			ak = hv.Some(coqKeys(cfg.authkeys))
		}
		cur := "None"
		if !cfg.cur.IsZero() {
			cur = hv.Some(zTime(cfg.cur))
		}
		cb := "None"
		if cfg.callback {
			cb = hv.Some(coqKeys(cfg.cbKeys))
		}
		cfgc = hv.Some(hv.App("CFG", coqStore(sc, cfg.store), ak, hv.B(cfg.allowed), hv.B(cfg.skip), cfg.name.coq(), cur, cb))
	}
	now := cfg.cur
	if now.IsZero() {
		now = clock
	}
	desc := fmt.Sprintf("certificateParserAndVerifier %s nilcfg=%v allowed=%v skip=%v authset=%v callback=%v name=%s leaf=%x intermediate=%x store=%s", pc.what,
		cfg.nilConfig, cfg.allowed, cfg.skip, !cfg.noAuthSet, cfg.callback, cfg.name, pc.rawLeaf, pc.rawIm, labels(cfg.store))
	c := hv.Case{Fn: "c04a_ok", Coq: hv.App("A", sc.coq(), cfgc, pl, pi, zTime(clock), hv.N(uint64(obs))), Class: fmt.Sprintf("%s/%d", class, obs),
		Desc: desc, Spec: true, NT: pc.leaf != nil, Replay: map[string]interface{}{"go_result": fmt.Sprint(err)}}
	// specification: with verification on and authorized keys off the handshake may go on only
	// with a valid chain (and an agreeing callback)
	if !cfg.nilConfig && !cfg.skip && !cfg.allowed && obs == 0 {
		valid := pc.leaf != nil && (len(pc.rawIm) == 0 || pc.im != nil)
		if valid {
			var p *hcert
			if len(pc.rawIm) > 0 {
				p = pc.im
			}
			valid = specValidChain(cfg.store, p, cfg.name, now, pc.leaf)
		}
		if !valid {
			c.Spec, c.Sig, c.What = false, "C04:handshake-accepts-invalid-chain", "certificateParserAndVerifier returned nil for a chain that is not valid: "+pc.what
		}
	}
	if pc.mustReject && obs == 0 {
		c.Spec, c.Sig, c.What = false, "C04:bit-flip-accepted", "certificateParserAndVerifier accepts after "+pc.what
	}
	if parseMismatch != "" {
		c.Spec, c.Sig, c.What = false, "C04:parsed-fields-differ-from-signed-bytes", parseMismatch
		parseMismatch = ""
	}
	hv.Emit(c)
	emitted++
}

func policySweep(r *hv.Rand, all []*hcert, n int) {
	roots := ofType(all, 3)
	leaves := ofType(all, 1)
	if len(leaves) == 0 {
		return
	}
	for k := 0; k < n; k++ {
		leaf := hv.Pick(r, all)
		if r.Chance(75) {
			leaf = hv.Pick(r, leaves)
		}
		im := byFP(all, leaf.parent)
		var root *hcert
		if im != nil {
			root = byFP(all, im.parent)
		}
		cfg := &policyCfg{store: roots, cur: commonTime(leaf, im, root), name: nameReq{zero: true}}
		if r.Chance(25) {
			cfg.store = nil
		}
		if r.Chance(30) {
			cfg.name = hv.Pick(r, nameVariants(leaf))
		}
		cfg.allowed = r.Chance(45)
		cfg.skip = r.Chance(20)
		if cfg.allowed {
			if r.Chance(10) {
				cfg.noAuthSet = true
			}
			if r.Chance(50) {
				cfg.authkeys = append(cfg.authkeys, leaf.pk)
			}
			if r.Chance(50) {
				cfg.authkeys = append(cfg.authkeys, hv.Pick(r, all).pk)
			}
		}
		if r.Chance(35) {
			cfg.callback = true
			if r.Chance(60) {
				cfg.cbKeys = append(cfg.cbKeys, leaf.pk)
			}
		}
		if r.Chance(5) {
			cfg.nilConfig = true
		}
		if r.Chance(15) {
			cfg.cur = hv.Pick(r, clocksOf(leaf))
		}
		pc := policyCase{cfg: cfg, rawLeaf: leaf.wire, leaf: leaf, what: "leaf=" + leaf.label}
		switch r.Intn(6) {
		case 0: // no intermediate bytes
		case 1: // garbage intermediate
			pc.rawIm = r.Bytes(1 + r.Intn(40))
		case 2: // leaf with trailing byte
			pc.rawLeaf = append(append([]byte{}, leaf.wire...), 0)
			pc.leaf = nil
			if im != nil {
				pc.rawIm, pc.im = im.wire, im
			}
		case 3: // intermediate with trailing byte
			if im != nil {
				pc.rawIm = append(append([]byte{}, im.wire...), 7)
			}
		default:
			if im != nil {
				pc.rawIm, pc.im = im.wire, im
			}
		}
		if r.Chance(5) {
			pc.rawLeaf = leaf.wire[:r.Intn(len(leaf.wire))]
			pc.leaf = nil
		}
		if pc.im != nil {
			pc.what += " intermediate=" + pc.im.label
		}
		runPolicy("policy", pc)
	}
}

// ------------------------------------------------------------------ authkeys.VerifyLeaf directly

func authkeysSweep(r *hv.Rand, all []*hcert, n int) {
	for k := 0; k < n; k++ {
		leaf := hv.Pick(r, all)
		set := authkeys.NewSyncAuthKeySet()
		var ks [][32]byte
		if r.Chance(60) {
			ks = append(ks, leaf.pk)
		}
		if r.Chance(50) {
			ks = append(ks, hv.Pick(r, all).pk)
		}
		for _, x := range ks {
			set.AddKey(x)
		}
		name := hv.Pick(r, nameVariants(leaf))
		err := set.VerifyLeaf(leaf.c, certs.VerifyOptions{Name: name.goName()})
		ok := err == nil
		// authkeys: "the leaf cert is properly formatted and the static key is in the set of authorized keys"
		want := leaf.typ == 1 && (name.zero || specHasName(leaf, name.n)) && inKeys(ks, leaf.pk)
		sc := newScenario()
		li := sc.add(leaf)
		cs := make([]string, len(sc.certs))
		for i, h := range sc.certs {
			cs[i] = coqCert(h)
		}
		c := hv.Case{Fn: "c04k_ok", Coq: hv.App("AK", hv.List(cs), coqKeys(ks), name.coq(), hv.N(uint64(li)), hv.B(ok)), Class: fmt.Sprintf("authkeys/%v", ok),
			Desc: fmt.Sprintf("authkeys.VerifyLeaf leaf=%s keys=%d name=%s | %s", leaf.label, len(ks), name, sc.desc()), Spec: true, NT: leaf.typ == 1}
		if ok != want {
			c.Spec, c.Sig, c.What = false, "C04:authkeys-verify-wrong", fmt.Sprintf("authkeys.VerifyLeaf says %v, expected %v", ok, want)
		}
		hv.Emit(c)
		emitted++
	}
}

// ------------------------------------------------------------------ issuing functions

type issueParent struct {
	h      *hcert
	hasKey bool
}

func coqID(pk [32]byte, names []certs.Name) string {
	return hv.N(keyIDs.of(pk[:])) + " " + coqNames(names)
}

// specIssued judges one issuing call from the property statement ("issuance clamps validity to the
// parent and signs the serialized body"; the result must be a certificate its parent verifies).
func specIssued(par *hcert, hasKey bool, pk [32]byte, names []certs.Name, typ byte, at time.Time, dur time.Duration, pairingOK bool, out *certs.Certificate, err error) string {
	serial := true
	l := 2
	for _, n := range names {
		if len(n.Label) > 253 {
			serial = false
		}
		l += 3 + len(n.Label)
	}
	if l > 512 {
		serial = false
	}
	should := pairingOK && hasKey && par.fp != [32]byte{} && dur > 0 && !at.Before(par.nb) && at.Before(par.na) && serial
	if (err == nil) != should {
		return fmt.Sprintf("issue returned err=%v but the preconditions (private key, fingerprint, positive duration, parent valid at issuance, type pairing, encodable names) say it should %v", err, map[bool]string{true: "succeed", false: "fail"}[should])
	}
	if err != nil {
		return ""
	}
	wantNa := at.Add(dur)
	if wantNa.After(par.na) {
		wantNa = par.na
	}
	if !out.IssuedAt.Equal(at) || !out.ExpiresAt.Equal(wantNa) {
		return fmt.Sprintf("validity [%s,%s) but expected [%s,%s) (clamped to the parent's expiry %s)", nanos(out.IssuedAt), nanos(out.ExpiresAt), nanos(at), nanos(wantNa), nanos(par.na))
	}
	if byte(out.Type) != typ || out.Parent != par.fp || out.PublicKey != pk || !sameNames(out.IDChunk.Blocks, names) {
		return "issued certificate's type/parent/key/names differ from the request"
	}
	raw, merr := out.Marshal()
	if merr != nil || len(raw) < 64 || !ed25519.Verify(ed25519.PublicKey(par.pk[:]), raw[:len(raw)-64], out.Signature[:]) {
		return "the parent's key does not verify the issued certificate's signature over its serialized body"
	}
	wire := append(append([]byte(nil), raw[:len(raw)-64]...), out.Signature[:]...)
	if sha3.Sum256(wire) != out.Fingerprint {
		return "fingerprint is not the hash of the serialized body followed by the signature"
	}
	longLabel := false
	for _, n := range names {
		if len(n.Label) > 252 {
			longLabel = true // 253-byte labels encode a block size of 0 (wire-format matter, property C18)
		}
	}
	if !longLabel {
		m, e := miniParse(wire)
		if e != nil || m.typ != typ || m.parent != par.fp || m.pk != pk || !sameNames(m.names, names) ||
			m.nb.Unix() != at.Unix() || m.na.Unix() != wantNa.Unix() {
			return fmt.Sprintf("the serialized body does not carry the issued fields (%v)", e)
		}
	}
	return ""
}

func runIssue(class string, kind int, par issueParent, pk [32]byte, names []certs.Name, typ byte, at time.Time, dur time.Duration) *hcert {
	id := &certs.Identity{PublicKey: pk, Names: names}
	var out *certs.Certificate
	var err error
	pairing := true
	panicked, msg := hv.Catch(func() {
		switch kind {
		case 0:
			out, err = certs.VerifIssue(par.h.c, id, certs.CertificateType(typ), at, dur)
		case 1:
			typ = 1
			pairing = par.h.typ == 2
			out, err = certs.IssueLeafAt(par.h.c, id, at, dur)
		case 2:
			typ = 2
			pairing = par.h.typ == 3
			dur = time.Hour * 24 * 366
			before := time.Now()
			out, err = certs.IssueIntermediate(par.h.c, id)
			at = before
			if err == nil {
				at = out.IssuedAt
			}
		}
	})
	var res *hcert
	obs := "None"
	ids3 := "0 0 0"
	if err == nil && !panicked {
		res = fromIssued(fmt.Sprintf("issued(%s)", par.h.label), out)
		obs = hv.Some(coqCert(res))
		ids3 = hv.N(sigIDs.of(res.sig[:])) + " " + hv.N(fpIDs.of(res.fp[:])) + " " + hv.N(rawID(res.raw))
	}
	desc := fmt.Sprintf("issue kind=%d parent=%s haskey=%v type=%d at=%s dur=%d names=%d -> err=%v", kind, descCert(par.h), par.hasKey, typ, nanos(at), int64(dur), len(names), err)
	c := hv.Case{Fn: "c04i_ok", Coq: hv.App("I", hv.Ni(kind), coqCert(par.h), hv.B(par.hasKey), coqID(pk, names), hv.N(uint64(typ)), zTime(at), zDur(dur), "0", ids3, obs),
		Class: fmt.Sprintf("%s/kind%d/%v", class, kind, err == nil), Desc: desc, Spec: true, NT: true}
	if panicked {
		c.Spec, c.Sig, c.What = false, "C04:issue-panics", msg
	} else if w := specIssued(par.h, par.hasKey, pk, names, typ, at, dur, pairing, out, err); w != "" {
		c.Spec, c.Sig, c.What = false, "C04:issue-wrong", w
	}
	hv.Emit(c)
	emitted++
	return res
}

func runSelfSign(class string, withKey bool, typ byte, kp *keys.SigningKeyPair, pk [32]byte, names []certs.Name) *hcert {
	id := &certs.Identity{PublicKey: pk, Names: names}
	var out *certs.Certificate
	var err error
	before := time.Now()
	if withKey {
		out, err = certs.VerifSelfSign(id, certs.CertificateType(typ), kp)
	} else {
		out, err = certs.VerifSelfSign(id, certs.CertificateType(typ), nil)
	}
	after := time.Now()
	kind := 4
	kpk := "0"
	if withKey {
		kind = 3
		kpk = hv.N(keyIDs.of(kp.Public[:]))
	}
	var res *hcert
	obs := "None"
	ids3 := "0 0 0"
	now, exp := before, before
	if err == nil {
		res = fromIssued("selfsigned", out)
		obs = hv.Some(coqCert(res))
		ids3 = hv.N(sigIDs.of(res.sig[:])) + " " + hv.N(fpIDs.of(res.fp[:])) + " " + hv.N(rawID(res.raw))
		now, exp = out.IssuedAt, out.ExpiresAt
	}
	c := hv.Case{Fn: "c04i_ok", Coq: hv.App("I", hv.Ni(kind), "dummy_cert", "false", coqID(pk, names), hv.N(uint64(typ)), zTime(now), zTime(exp), kpk, ids3, obs),
		Class: fmt.Sprintf("%s/kind%d/%v", class, kind, err == nil), Desc: fmt.Sprintf("selfSign type=%d withkey=%v names=%d -> err=%v", typ, withKey, len(names), err), Spec: true, NT: true}
	if err == nil {
		// property statement: a self-signed root starts now, has a zero parent and is signed by its own key
		bad := ""
		raw, _ := out.Marshal()
		switch {
		case out.IssuedAt.Before(before) || out.IssuedAt.After(after):
			bad = "IssuedAt is not the time of the call"
		case !out.ExpiresAt.After(out.IssuedAt):
			bad = "empty validity"
		case out.Parent != [32]byte{}:
			bad = "non-zero parent"
		case withKey && !ed25519.Verify(ed25519.PublicKey(pk[:]), raw[:len(raw)-64], out.Signature[:]):
			bad = "self signature does not verify"
		case sha3.Sum256(append(append([]byte(nil), raw[:len(raw)-64]...), out.Signature[:]...)) != out.Fingerprint:
			bad = "fingerprint is not the hash of the bytes"
		}
		if bad != "" {
			c.Spec, c.Sig, c.What = false, "C04:selfsign-wrong", bad
		}
	} else if withKey && kp.Public == keys.SigningPublicKey(pk) && len(names) < 3 {
		c.Spec, c.Sig, c.What = false, "C04:selfsign-wrong", "selfSign failed: "+err.Error()
	}
	hv.Emit(c)
	emitted++
	return res
}

// issuedChains: chains made only with the issuing functions must verify at every time inside the
// leaf's window against every store holding the root (in memory and after a wire round trip).
func issuedChains(r *hv.Rand, n int) {
	for k := 0; k < n; k++ {
		rk := keys.GenerateNewSigningKeyPair()
		ik := keys.GenerateNewSigningKeyPair()
		lk := keys.GenerateNewX25519KeyPair()
		root := runSelfSign("issued-chain", true, 3, rk, rk.Public, []certs.Name{certs.RawStringName("root")})
		if root == nil {
			continue
		}
		if err := root.c.ProvideKey((*[32]byte)(&rk.Private)); err != nil {
			panic(err)
		}
		var im *hcert
		if r.Chance(50) {
			im = runIssue("issued-chain", 2, issueParent{root, true}, ik.Public, nil, 2, time.Time{}, 0)
		} else {
			at := root.nb.Add(time.Duration(r.Intn(1000)) * time.Millisecond)
			dur := time.Duration(1+r.Intn(400)) * 24 * time.Hour * time.Duration(1+r.Intn(6))
			im = runIssue("issued-chain", 0, issueParent{root, true}, ik.Public, nil, 2, at, dur)
		}
		if im == nil {
			continue
		}
		if err := im.c.ProvideKey((*[32]byte)(&ik.Private)); err != nil {
			panic(err)
		}
		var names []certs.Name
		for j := r.Intn(3); j >= 0; j-- {
			names = append(names, hv.Pick(r, namePool))
		}
		at := im.nb.Add(time.Duration(r.Intn(3000)) * time.Millisecond)
		dur := hv.Pick(r, []time.Duration{time.Nanosecond, time.Second, 90 * time.Minute, 7 * 24 * time.Hour, 400 * 24 * time.Hour, 3000 * 24 * time.Hour})
		if k%2 == 0 {
			// valid from "now" for a long time: lets the real-clock queries accept
			at = im.nb
			dur = hv.Pick(r, []time.Duration{90 * time.Minute, 7 * 24 * time.Hour, 400 * 24 * time.Hour})
		}
		leaf := runIssue("issued-chain", 1, issueParent{im, true}, lk.Public, names, 1, at, dur)
		if leaf == nil {
			continue
		}
		// wire round trip
		rootW, imW, leafW := fromBytes("root'", root.wire), fromBytes("im'", im.wire), fromBytes("leaf'", leaf.wire)
		otherRoot := fromBytes("otherRoot", serialize(3, 1, 1<<40, r.Bytes(32), zero32, nil, nil))
		type tri struct{ l, i, r *hcert }
		for vi, t := range []tri{{leaf, im, root}, {leafW, imW, rootW}} {
			if t.l == nil || t.i == nil || t.r == nil {
				hv.Emit(hv.Case{Class: "issued-chain/reparse", Desc: "issued certificate does not parse back", Spec: false, Sig: "C04:issued-chain-rejected",
					What: fmt.Sprintf("an issued certificate is rejected by ReadFrom: %x / %x / %x", leaf.wire, im.wire, root.wire)})
				continue
			}
			times := []time.Time{t.l.nb, t.l.nb.Add(1), t.l.na.Add(-1), t.l.nb.Add(t.l.na.Sub(t.l.nb) / 2), t.l.nb.Add(-1), t.l.na}
			for ti, tm := range times {
				for si, st := range [][]*hcert{{t.r}, {otherRoot, t.r, t.i}} {
					q := query{store: st, presented: t.i, name: nameReq{zero: true}, cur: tm, leaf: t.l}
					if si == 1 {
						q.presented = nil
					}
					if ti%2 == 1 {
						q.name = nameReq{n: names[0]}
					}
					acc := runVerify(fmt.Sprintf("issued-chain/verify%d", vi), q)
					inside := specValidAt(t.l, tm)
					if inside && !acc {
						hv.Emit(hv.Case{Class: "issued-chain/rejected", Desc: "issued chain rejected inside the leaf window", Spec: false, Sig: "C04:issued-chain-rejected",
							What: fmt.Sprintf("chain made by selfSign/issue/issue is rejected at %s inside the leaf window [%s,%s): leaf=%x intermediate=%x root=%x", nanos(tm), nanos(t.l.nb), nanos(t.l.na), leaf.wire, im.wire, root.wire)})
					}
				}
			}
		}
		if dur >= time.Minute && at.Equal(im.nb) {
			realClock = append(realClock, [6]*hcert{leaf, im, root, leafW, imW, rootW})
		}
	}
}

// real clock (CurrentTime zero): these chains were issued when the driver started and their leaves are
// valid for at least a minute; runVerify keeps 2 s away from every window boundary because the code
// reads the clock a little later than the driver does.
var realClock [][6]*hcert

func realClockQueries() {
	time.Sleep(2100 * time.Millisecond)
	for _, c := range realClock {
		if c[3] == nil || c[4] == nil || c[5] == nil {
			continue
		}
		runVerify("issued-chain/realclock", query{store: []*hcert{c[2]}, presented: c[1], name: nameReq{zero: true}, leaf: c[0]})
		runVerify("issued-chain/realclock", query{store: []*hcert{c[5], c[4]}, name: nameReq{zero: true}, leaf: c[3]})
		runVerify("issued-chain/realclock", query{store: []*hcert{c[5]}, name: nameReq{zero: true}, leaf: c[3]})
	}
}

func issueSweep(r *hv.Rand, all []*node, n int) {
	var withKey []*node
	for _, nd := range all {
		if nd.priv != nil {
			withKey = append(withKey, nd)
		}
	}
	for k := 0; k < n; k++ {
		nd := hv.Pick(r, withKey)
		// a fresh parse so that ProvideKey does not leak between cases
		p := fromBytes(nd.h.label, nd.h.wire)
		par := issueParent{h: p, hasKey: r.Chance(88)}
		if par.hasKey {
			seed := [32]byte(nd.priv.Seed())
			if p.typ == 2 || p.typ == 3 {
				if err := p.c.ProvideKey(&seed); err != nil {
					panic(err)
				}
			} else {
				par.hasKey = false // ProvideKey would treat the seed as an X25519 key; keep it keyless
			}
		}
		if r.Chance(6) {
			// parent built by hand without a fingerprint
			par.h = inMemory(p.label+"~nofp", p, func(h *hcert) { h.fp = [32]byte{} })
			par.hasKey = false
		}
		_, pk := seedKey(r)
		var names []certs.Name
		switch r.Intn(8) {
		case 0:
			names = []certs.Name{{Type: 1, Label: bytes.Repeat([]byte{'a'}, 254)}}
		case 1:
			names = []certs.Name{{Type: 1, Label: bytes.Repeat([]byte{'a'}, 252)}}
		case 2:
			for j := 0; j < 3; j++ {
				names = append(names, certs.Name{Type: 1, Label: bytes.Repeat([]byte{'b'}, 167+j)})
			}
		case 3:
			names = []certs.Name{{Type: 1, Label: bytes.Repeat([]byte{'c'}, 250)}, {Type: 1, Label: bytes.Repeat([]byte{'c'}, 251)}}
		case 4:
			names = []certs.Name{{Type: 1, Label: bytes.Repeat([]byte{'c'}, 250)}, {Type: 1, Label: bytes.Repeat([]byte{'c'}, 252)}}
		default:
			for j := r.Intn(3); j > 0; j-- {
				names = append(names, hv.Pick(r, namePool))
			}
		}
		ats := []time.Time{p.nb.Add(-1), p.nb, p.nb.Add(1), p.na.Add(-1), p.na, p.na.Add(1), commonTime(p), commonTime(p).Add(time.Duration(r.Intn(1000000)))}
		at := hv.Pick(r, ats)
		left := p.na.Sub(at)
		durs := []time.Duration{0, -1, 1, left - 1, left, left + 1, time.Hour, time.Duration(r.Intn(2000)) * time.Second, 1 << 62}
		dur := hv.Pick(r, durs)
		kind := r.Intn(3)
		typ := hv.Pick(r, []byte{0, 1, 2, 3, 4})
		if kind == 2 && !r.Chance(30) {
			kind = 0 // IssueIntermediate issues at the real clock: synthetic parents are long expired, keep a few
		}
		runIssue("issue", kind, par, pk, names, typ, at, dur)
	}
}

// ------------------------------------------------------------------ regression: timestamps time.Time cannot hold

func timeWrapRegression(r *hv.Rand) {
	rk, rpub := seedKey(r)
	ik, ipub := seedKey(r)
	_, lpub := seedKey(r)
	root := fromBytes("R", serialize(3, 1000, 2000000000, rpub[:], zero32, nil, rk))
	im := fromBytes("I", serialize(2, 1000, 2000000000, ipub[:], root.fp[:], nil, rk))
	now := time.Unix(1900000000, 0)
	for _, tc := range []struct {
		nb, na uint64
		what   string
	}{
		{math.MaxInt64 - 5, 2000000000, "notBefore = 2^63-6 s (not begun)"},
		{maxUnix + 1, 2000000000, "notBefore = first unrepresentable second (not begun)"},
		{1000, math.MaxInt64, "notAfter = 2^63-1 s"},
		{1000, maxUnix + 1, "notAfter = first unrepresentable second"},
		{1000, maxUnix, "notAfter = last representable second"},
		{maxUnix, maxUnix, "notBefore = last representable second"},
	} {
		b := serialize(1, tc.nb, tc.na, lpub[:], im.fp[:], []certs.Name{namePool[0]}, ik)
		c, ok := goParse(b)
		desc := fmt.Sprintf("leaf with %s: bytes %x, intermediate %x, root %x, now=%d s", tc.what, b, im.wire, root.wire, now.Unix())
		if !ok {
			hv.Emit(hv.Case{Class: "time-range/parse-rejected", Desc: desc, Spec: true, NT: true})
			continue
		}
		// the parser lets it through: judge VerifyLeaf with the true integer timestamps
		err := mkStore([]*hcert{root}).VerifyLeaf(c, certs.VerifyOptions{PresentedIntermediate: im.c, CurrentTime: now})
		valid := tc.nb <= uint64(now.Unix()) && uint64(now.Unix()) < tc.na
		cs := hv.Case{Class: "time-range/parsed", Desc: desc, Spec: (err == nil) == valid, NT: true, Sig: "C04:timestamp-wraps-in-time.Time",
			What: fmt.Sprintf("leaf window is [%d,%d) s and now=%d s, so valid=%v, but VerifyLeaf returned %v (timestamps above 2^63-1-62135596800 wrap inside time.Time)", tc.nb, tc.na, now.Unix(), valid, err)}
		hv.Emit(cs)
		if tc.nb <= maxUnix && tc.na <= maxUnix {
			if h := fromBytes("Lbig", b); h != nil {
				runVerify("time-range/representable", query{store: []*hcert{root}, presented: im, name: nameReq{zero: true}, cur: now, leaf: h})
			}
		}
	}
}

// ------------------------------------------------------------------ the repository's own test chain

func testdataChain(r *hv.Rand) []*hcert {
	dir := filepath.Join(os.Getenv("VERIF_REPO"), "certs", "testdata")
	var out []*hcert
	for _, f := range []string{"root", "intermediate", "leaf"} {
		c, b, err := certs.ReadCertificateBytesFromPEMFile(filepath.Join(dir, f+".pem"))
		if err != nil || c == nil {
			return nil
		}
		h := fromBytes("testdata-"+f, b)
		if h == nil {
			return nil
		}
		out = append(out, h)
	}
	return out
}

// storeHistories: ONE long-lived Store answers a whole sequence of queries. Verification must be a
// function of what was ADDED to the store and of the query, never of earlier queries: a verifier that
// remembers what peers presented lets a peer plant a trust anchor (or a chain-building certificate)
// with a query that is itself rejected. Every query of the history is judged (oracle and model)
// against the certificates that were added, i.e. as if it were the first.
func storeHistories(r *hv.Rand, class string, all []*hcert, rounds int) {
	roots := ofType(all, 3)
	if len(roots) < 2 {
		return
	}
	for k := 0; k < rounds; k++ {
		out := roots[k%len(roots)] // the hierarchy that is NOT trusted in this round
		var trusted []*hcert
		for _, h := range all {
			if h.typ == 3 && h != out {
				trusted = append(trusted, h)
			}
		}
		for _, h := range all {
			if h.typ == 2 && r.Chance(25) {
				trusted = append(trusted, h) // stored chain-building certificates carry no trust
			}
		}
		st := mkStore(trusted)
		run := func(leaf, pres *hcert) {
			im := pres
			if im == nil {
				im = byFP(all, leaf.parent)
			}
			var root *hcert
			if im != nil {
				root = byFP(all, im.parent)
			}
			runVerify(class, query{store: trusted, live: &st, presented: pres, name: nameReq{zero: true}, cur: commonTime(leaf, im, root), leaf: leaf})
		}
		// 1. every certificate of the forest (any type) handed over in the presented slot by a target that names it
		for _, pres := range all {
			for _, leaf := range all {
				if leaf.parent == pres.fp {
					run(leaf, pres)
				}
			}
		}
		// 2. then every certificate as a target, with its named parent presented and with nothing presented
		for _, leaf := range all {
			run(leaf, byFP(all, leaf.parent))
			run(leaf, nil)
		}
		// 3. random pairs, then step 2 once more for the leaves
		for j := 0; j < 12; j++ {
			run(hv.Pick(r, all), hv.Pick(r, all))
		}
		for _, leaf := range ofType(all, 1) {
			run(leaf, nil)
		}
	}
}

func main() {
	defer hv.Flush()
	r := hv.NewRand(hv.Seed())

	issuedChains(r, hv.Scale(6, 60))
	timeWrapRegression(r)

	if td := testdataChain(r); td != nil {
		sweepForest(r, "testdata", td, 4, 100)
		for _, a := range td {
			for _, b := range td {
				runParent("testdata-parent", a, b)
			}
		}
	}

	// valid, properly nested hand-serialised forests
	nValid := hv.Scale(2, 6)
	for i := 0; i < nValid; i++ {
		f := synthForest(r, fmt.Sprintf("v%d.", i), false)
		all := hs(f)
		sweepForest(r, "valid-forest", all, hv.Scale(3, 10), 100)
		storeHistories(r, "store-history", all, hv.Scale(2, 6))
		if i == 0 {
			inMemoryMutations(r, all)
			bitFlips(r, all, hv.Scale(17, 1))
			for _, a := range all {
				for _, b := range all {
					runParent("parent", a, b)
				}
			}
			policySweep(r, all, hv.Scale(120, 800))
			authkeysSweep(r, all, hv.Scale(40, 400))
			issueSweep(r, f, hv.Scale(220, 1500))
		}
	}
	// forests with wrong types, swapped parents, foreign signers, odd windows
	nWild := hv.Scale(3, 16)
	for i := 0; i < nWild; i++ {
		f := synthForest(r, fmt.Sprintf("w%d.", i), true)
		all := hs(f)
		sweepForest(r, "wild-forest", all, hv.Scale(2, 8), hv.Scale(36, 100))
		storeHistories(r, "store-history-wild", all, hv.Scale(1, 4))
		if i < hv.Scale(1, 6) {
			for _, a := range all {
				for _, b := range all {
					runParent("parent-wild", a, b)
				}
			}
			policySweep(r, all, hv.Scale(80, 300))
			authkeysSweep(r, all, hv.Scale(30, 200))
		}
	}
	realClockQueries()

	var rs []string
	for k, v := range reasonHist {
		rs = append(rs, fmt.Sprintf("%s=%d", k, v))
	}
	sort.Strings(rs)
	hv.Info(map[string]interface{}{"verify_leaf_outcomes": strings.Join(rs, " "), "cases": emitted})
}
