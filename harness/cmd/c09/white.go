package main

import (
	"bytes"
	"fmt"
	"io"
	"strings"
	"sync"
	"time"

	"github.com/sirupsen/logrus"

	"hop.computer/hop/tubes"
	"verifharness/hv"
	hx "verifharness/hvxtubes"
)

func quietLog() *logrus.Entry {
	l := logrus.New()
	l.SetOutput(io.Discard)
	l.SetLevel(logrus.PanicLevel)
	return logrus.NewEntry(l)
}

const (
	fREQ  = 1
	fRESP = 2
	fREL  = 4
	fACK  = 8
	fFIN  = 16
	fRTR  = 32
)

type mop struct {
	kind  byte // 'C' create, 'F' frame, 'A' accept, 'X' close+reap, 'R' read
	rel   bool
	ty    byte
	id    byte
	flags byte
	ackno uint32
	no    uint32
	data  []byte
	stale bool // generator's note: this frame belongs to an earlier instance of (rel,id)
}

func frameBytes(o mop) []byte {
	b := make([]byte, 12+len(o.data))
	b[0] = o.id
	b[1] = o.flags
	b[2], b[3] = byte(len(o.data)>>8), byte(len(o.data))
	b[4], b[5], b[6], b[7] = byte(o.ackno>>24), byte(o.ackno>>16), byte(o.ackno>>8), byte(o.ackno)
	b[8], b[9], b[10], b[11] = byte(o.no>>24), byte(o.no>>16), byte(o.no>>8), byte(o.no)
	copy(b[12:], o.data)
	return b
}

type tkey struct {
	rel bool
	id  byte
}

// what the oracle knows about a live tube instance
type inst struct {
	ty       byte
	local    bool
	open     bool     // initiate frame seen: data is accepted
	expect   []byte   // reliable: bytes the reader must get next (in-order frames injected for THIS instance)
	msgs     [][]byte // unreliable: messages injected for this instance, not yet read
	nextNo   uint32
	finished bool // FIN consumed (reliable)
	have     map[uint32][]byte
	finAt    map[uint32]bool
}

// payload of frame `no` of instance `gen` of tube k: a function of those only, so that duplicates of a
// frame number always carry the same bytes (as an authenticated peer's retransmissions do)
func payload(k tkey, gen int, no uint32) []byte {
	h := uint64(no)*0x9E3779B97F4A7C15 ^ uint64(k.id)<<32 ^ uint64(gen)<<20
	if k.rel {
		h ^= 0xABCDEF
	}
	h = (h ^ (h >> 29)) * 0xBF58476D1CE4E5B9
	n := 1 + int(h>>60)%9
	b := make([]byte, n)
	for i := range b {
		b[i] = byte(h >> (uint(i%8) * 8))
		if i >= 8 {
			b[i] ^= byte(i)
		}
	}
	return b
}

func runMux(class string, server bool, script []mop, nt bool) {
	a, b := hx.NewPair()
	var m *tubes.Muxer
	if server {
		m = tubes.Server(a, &tubes.Config{Log: quietLog()})
	} else {
		m = tubes.Client(a, &tubes.Config{Log: quietLog()})
	}
	_ = b
	defer func() { go m.Stop() }()
	parity := byte(1)
	if server {
		parity = 0
	}
	var coq, obs, desc []string
	specOK, what, sig := true, "", ""
	fail := func(s, w string) {
		if specOK {
			specOK, sig, what = false, s, w
		}
	}
	live := map[tkey]*inst{}
	var expectQueue []tkey // remote-opened tubes that must be offered by Accept, in order
	var expectTypes []byte

	snapshot := func() string {
		rel, unrel, q := tubes.VerifMuxSnapshot(m)
		var o []string
		for _, t := range rel {
			o = append(o, "1", hv.Ni(int(t.ID)), hv.Ni(int(t.Type)), hv.Ni(t.State), hv.Ni(t.Buffered))
		}
		o = append(o, "77777")
		for _, t := range unrel {
			o = append(o, "0", hv.Ni(int(t.ID)), hv.Ni(int(t.Type)), hv.Ni(t.State), hv.Ni(t.Buffered))
		}
		o = append(o, "77777", hv.Ni(q))
		return strings.Join(o, "; ")
	}

	for _, o := range script {
		switch o.kind {
		case 'C':
			var id byte
			var err error
			if o.rel {
				var t *tubes.Reliable
				t, err = m.CreateReliableTube(tubes.TubeType(o.ty))
				if err == nil {
					id = t.GetID()
				}
			} else {
				var t *tubes.Unreliable
				t, err = m.CreateUnreliableTube(tubes.TubeType(o.ty))
				if err == nil {
					id = t.GetID()
				}
			}
			coq = append(coq, fmt.Sprintf("Cr %s %d", hv.B(o.rel), o.ty))
			desc = append(desc, fmt.Sprintf("create(rel=%v,type=%d)", o.rel, o.ty))
			if err != nil {
				obs = append(obs, "[1; 0; "+snapshot()+"]")
				// oracle: only legitimate when all 128 ids of our parity are live
				n := 0
				for k := range live {
					if k.rel == o.rel && k.id%2 == parity {
						n++
					}
				}
				if n < 128 {
					fail("C09:create-fails-with-free-ids", fmt.Sprintf("Create(rel=%v) failed (%v) with only %d of 128 identifiers in use", o.rel, err, n))
				}
				break
			}
			obs = append(obs, "[0; "+hv.Ni(int(id))+"; "+snapshot()+"]")
			if id%2 != parity {
				fail("C09:created-id-has-wrong-parity", fmt.Sprintf("Create(rel=%v) on a muxer of parity %d returned id %d", o.rel, parity, id))
			}
			if _, dup := live[tkey{o.rel, id}]; dup {
				fail("C09:created-id-clashes-with-live-tube", fmt.Sprintf("Create(rel=%v) returned id %d which a live tube of the same kind already uses", o.rel, id))
			}
			live[tkey{o.rel, id}] = &inst{ty: o.ty, local: true, nextNo: 1}
		case 'F':
			ok := a.Inject(frameBytes(o))
			rel := o.flags&fREL != 0
			k := tkey{rel, o.id}
			coq = append(coq, fmt.Sprintf("Fr %d %d %d %d %s", o.id, o.flags, o.ackno, o.no, hv.Hex(o.data)))
			desc = append(desc, fmt.Sprintf("frame(id=%d,flags=%#x,ack=%d,no=%d,len=%d)", o.id, o.flags, o.ackno, o.no, len(o.data)))
			obs = append(obs, "[0; 0; "+snapshot()+"]")
			if !ok {
				fail("C09:muxer-receiver-stuck", "the muxer's receiver did not come back for the next datagram within 10 s")
				break
			}
			// oracle bookkeeping
			in, isLive := live[k]
			if o.flags&fREQ != 0 && !isLive && tubes.VerifMuxHas(m, rel, o.id) {
				// the muxer registered a tube for this request: from now on it answers the opener's REQ with RESP,
				// so the opener holds an open tube — which must be offered to Accept exactly once.  (A request
				// may be refused, e.g. while 128 tubes wait to be accepted: then nothing is registered and the
				// opener keeps asking.)
				in = &inst{ty: byte(o.ackno >> 24), nextNo: 1}
				live[k] = in
				if !o.stale { // a delayed copy of a REQ that was already served opens nothing new
					expectQueue = append(expectQueue, k)
					expectTypes = append(expectTypes, byte(o.ackno>>24))
				}
				isLive = true
			}
			if !isLive {
				break
			}
			if o.flags&(fREQ|fRESP) != 0 {
				in.open = true
				break
			}
			if o.stale {
				break // whatever happens to it is judged when the tube is read
			}
			if rel {
				if !in.open || in.finished {
					break
				}
				if in.have == nil {
					in.have, in.finAt = map[uint32][]byte{}, map[uint32]bool{}
				}
				isFin := o.flags&fFIN != 0
				if (isFin || (len(o.data) > 0 && o.flags&fACK == 0)) && o.no >= in.nextNo && o.no <= in.nextNo+1000 {
					if _, dup := in.have[o.no]; !dup {
						in.have[o.no] = o.data
						in.finAt[o.no] = isFin
					}
				}
				for !in.finished {
					d, ok := in.have[in.nextNo]
					if !ok {
						break
					}
					in.expect = append(in.expect, d...)
					if in.finAt[in.nextNo] {
						in.finished = true
					}
					delete(in.have, in.nextNo)
					in.nextNo++
				}
			} else {
				in.msgs = append(in.msgs, o.data)
			}
		case 'A':
			t, ok := tubes.VerifMuxTryAccept(m)
			coq = append(coq, "Ac")
			desc = append(desc, "accept")
			if !ok {
				obs = append(obs, "[1; 0; 0; 0; "+snapshot()+"]")
				if len(expectQueue) > 0 {
					fail("C09:remote-tube-not-offered", fmt.Sprintf("tube (rel=%v,id=%d) opened by the peer was never offered to Accept", expectQueue[0].rel, expectQueue[0].id))
					expectQueue, expectTypes = expectQueue[1:], expectTypes[1:]
				}
				break
			}
			obs = append(obs, "[0; "+hx.B2N(t.IsReliable())+"; "+hv.Ni(int(t.GetID()))+"; "+hv.Ni(int(t.Type()))+"; "+snapshot()+"]")
			if len(expectQueue) == 0 {
				s := "C09:tube-offered-twice-or-unrequested"
				if class == "mux-id-reuse-stale-req" {
					s = "C09:stale-req-creates-ghost-tube"
				}
				fail(s, fmt.Sprintf("Accept returned tube (rel=%v,id=%d,type=%d) although every remotely opened tube had already been accepted", t.IsReliable(), t.GetID(), t.Type()))
				break
			}
			k, ty := expectQueue[0], expectTypes[0]
			expectQueue, expectTypes = expectQueue[1:], expectTypes[1:]
			if k.rel != t.IsReliable() || k.id != t.GetID() || ty != byte(t.Type()) {
				fail("C09:accepted-tube-differs-from-request", fmt.Sprintf("Accept returned (rel=%v,id=%d,type=%d), the peer opened (rel=%v,id=%d,type=%d)", t.IsReliable(), t.GetID(), t.Type(), k.rel, k.id, ty))
			}
		case 'X':
			had := tubes.VerifMuxForceClose(m, o.rel, o.id)
			coq = append(coq, fmt.Sprintf("Cl %s %d", hv.B(o.rel), o.id), fmt.Sprintf("Rp %s %d", hv.B(o.rel), o.id))
			desc = append(desc, fmt.Sprintf("close+reap(rel=%v,id=%d)", o.rel, o.id))
			if had {
				// the snapshot after the close is taken by the model only after the reap as well: the reaper is
				// asynchronous, so the driver records the state once the tube has left the map
				dl := time.Now().Add(8 * time.Second)
				for tubes.VerifMuxHas(m, o.rel, o.id) && time.Now().Before(dl) {
					time.Sleep(200 * time.Microsecond)
				}
				if tubes.VerifMuxHas(m, o.rel, o.id) {
					fail("C09:closed-tube-never-reaped", fmt.Sprintf("tube (rel=%v,id=%d) is still in the muxer's map 8 s after it closed", o.rel, o.id))
				}
			}
			obs = append(obs, "[]", "[0; 0; "+snapshot()+"]")
			delete(live, tkey{o.rel, o.id})
		case 'R':
			data, _ := tubes.VerifMuxRead(m, o.rel, o.id)
			coq = append(coq, fmt.Sprintf("Rd %s %d", hv.B(o.rel), o.id))
			desc = append(desc, fmt.Sprintf("read(rel=%v,id=%d)", o.rel, o.id))
			obs = append(obs, "("+hv.List([]string{"0", hv.Ni(len(data))})+" ++ "+hv.Hex(data)+" ++ ["+snapshot()+"])")
			in, isLive := live[tkey{o.rel, o.id}]
			if !isLive {
				if len(data) > 0 {
					fail("C09:data-on-unknown-tube", "read returned data for a tube the oracle does not know")
				}
				break
			}
			if o.rel {
				if !bytes.Equal(data, in.expect) {
					s := "C09:tube-reader-got-foreign-or-wrong-bytes"
					if class == "mux-id-reuse-stale-frame" {
						s = "C09:stale-frame-accepted-after-id-reuse"
					}
					fail(s, fmt.Sprintf("reader of reliable tube %d got % x, the frames sent to this tube instance carry % x", o.id, trunc(data), trunc(in.expect)))
				}
				in.expect = nil
			} else {
				if !in.open {
					// not initiated: ReadMsgUDP waits; nothing may be handed out yet
					if len(data) > 0 {
						fail("C09:unreliable-message-not-as-written", "a read on a tube that is not initiated returned a message")
					}
					break
				}
				if len(data) == 0 && len(in.msgs) == 0 {
					break
				}
				if len(in.msgs) == 0 || !bytes.Equal(data, in.msgs[0]) {
					var w []byte
					if len(in.msgs) > 0 {
						w = in.msgs[0]
					}
					s := "C09:unreliable-message-not-as-written"
					if class == "mux-id-reuse-stale-frame" {
						s = "C09:stale-frame-accepted-after-id-reuse"
					}
					fail(s, fmt.Sprintf("reader of unreliable tube %d got message % x, the next message sent to this tube instance is % x", o.id, trunc(data), trunc(w)))
				}
				if len(in.msgs) > 0 {
					in.msgs = in.msgs[1:]
				}
			}
		}
	}
	if class == "mux-accept-queue-full" && len(expectQueue) > 0 {
		fail("C09:remote-tube-not-offered", fmt.Sprintf("%d tubes opened by the peer are registered in the muxer (they answer the opener) but were never offered to Accept, first (rel=%v,id=%d)", len(expectQueue), expectQueue[0].rel, expectQueue[0].id))
	}
	d := fmt.Sprintf("mux server=%v: %s", server, strings.Join(desc, " "))
	if len(d) > 1800 {
		d = d[:1800] + "..."
	}
	hv.Emit(hv.Case{Fn: "c09m_ok", Coq: hv.Tuple(hv.B(server), hv.List(coq), hv.List(obs)), Class: class, Desc: d,
		Spec: specOK, Sig: sig, What: what, NT: nt})
}

func trunc(b []byte) []byte {
	if len(b) > 24 {
		return b[:24]
	}
	return b
}

func genWhite(r *hv.Rand) {
	var mu sync.Mutex
	_ = mu
	// regression / finding corpus: id reuse with a delayed frame of the predecessor
	for _, rel := range []bool{true, false} {
		fl := byte(0)
		if rel {
			fl = fREL
		}
		old := []byte("OLD-INSTANCE-DATA")
		runMux("mux-id-reuse-stale-frame", true, []mop{
			{kind: 'F', id: 1, flags: fREQ | fl | fACK, ackno: 7 << 24},
			{kind: 'A'},
			{kind: 'X', rel: rel, id: 1},
			{kind: 'F', id: 1, flags: fREQ | fl | fACK, ackno: 9 << 24}, // the peer reopens id 1
			{kind: 'A'},
			{kind: 'F', id: 1, flags: fl, no: 1, data: old, stale: true}, // delayed frame of the first instance
			{kind: 'R', rel: rel, id: 1},
		}, true)
	}
	// a retransmitted REQ arriving after the tube was closed and reaped: ghost tube offered to Accept
	runMux("mux-id-reuse-stale-req", true, []mop{
		{kind: 'F', id: 3, flags: fREQ | fREL | fACK, ackno: 7 << 24},
		{kind: 'A'},
		{kind: 'X', rel: true, id: 3},
		{kind: 'F', id: 3, flags: fREQ | fREL | fACK, ackno: 7 << 24, stale: true},
		{kind: 'A'},
	}, true)

	// more remote opens than the Accept queue holds (128) before anybody accepts: the surplus requests are
	// refused without registering anything; after the queue is drained the opener's repeated REQs succeed
	for q := 0; q < hv.Scale(2, 6); q++ {
		server := q%2 == 0
		peer := byte(0) // parity of the ids the peer opens
		if server {
			peer = 1
		}
		var sc []mop
		type pk struct {
			k  tkey
			ty byte
		}
		var opens []pk
		nUnrel := 1 + r.Intn(7)
		nRel := 128
		if q%3 == 2 {
			nRel, nUnrel = 60+r.Intn(30), 70+r.Intn(30)
		}
		for i := 0; i < nRel; i++ {
			opens = append(opens, pk{tkey{true, byte(2*i) + peer}, byte(1 + r.Intn(200))})
		}
		for i := 0; i < nUnrel; i++ {
			opens = append(opens, pk{tkey{false, byte(2*i) + peer}, byte(1 + r.Intn(200))})
		}
		// shuffle
		for i := len(opens) - 1; i > 0; i-- {
			j := r.Intn(i + 1)
			opens[i], opens[j] = opens[j], opens[i]
		}
		req := func(p pk) mop {
			fl := byte(fREQ)
			if p.k.rel {
				fl |= fREL | fACK
			}
			return mop{kind: 'F', id: p.k.id, flags: fl, ackno: uint32(p.ty) << 24}
		}
		for _, p := range opens {
			sc = append(sc, req(p))
		}
		surplus := opens[128:]
		// the opener repeats the refused requests, and (believing nothing) may even send data: all dropped
		for _, p := range surplus {
			sc = append(sc, req(p))
			fl := byte(0)
			if p.k.rel {
				fl = fREL
			}
			sc = append(sc, mop{kind: 'F', id: p.k.id, flags: fl, no: 1, data: payload(p.k, 0, 1)})
		}
		// the application accepts a few, the opener repeats: as many as there is room for get in
		for i := 0; i < 3; i++ {
			sc = append(sc, mop{kind: 'A'})
		}
		for _, p := range surplus {
			sc = append(sc, req(p))
		}
		for i := 0; i < 140; i++ {
			sc = append(sc, mop{kind: 'A'})
		}
		for _, p := range surplus {
			sc = append(sc, req(p))
		}
		for i := 0; i < len(surplus)+2; i++ {
			sc = append(sc, mop{kind: 'A'})
		}
		// data on the late tubes and on a few early ones arrives on the right tube
		for _, p := range append(append([]pk{}, surplus...), opens[0], opens[64], opens[127]) {
			fl := byte(0)
			if p.k.rel {
				fl = fREL
			}
			sc = append(sc, mop{kind: 'F', id: p.k.id, flags: fl, no: 1, data: payload(p.k, 0, 1)}, mop{kind: 'R', rel: p.k.rel, id: p.k.id})
		}
		runMux("mux-accept-queue-full", server, sc, true)
	}

	n := hv.Scale(420, 1500)
	for k := 0; k < n; k++ {
		server := r.Bool()
		parity := byte(1)
		if server {
			parity = 0
		}
		class := hv.Pick(r, []string{"mux-random", "mux-random", "mux-req-repeats", "mux-reuse-clean"})
		if k%40 == 7 {
			class = "mux-many-creates" // fills all 128 identifiers of the local parity: snapshots are large, keep them few
		}
		var sc []mop
		type st struct {
			open   bool
			nextNo uint32
			maxNo  uint32 // highest data frame number sent to this instance
			fin    bool
		}
		live := map[tkey]*st{}
		gens := map[tkey]int{}
		pickLive := func() (tkey, bool) {
			if len(live) == 0 {
				return tkey{}, false
			}
			keys := make([]tkey, 0, len(live))
			for id := 0; id < 256; id++ {
				for _, rel := range []bool{true, false} {
					if _, ok := live[tkey{rel, byte(id)}]; ok {
						keys = append(keys, tkey{rel, byte(id)})
					}
				}
			}
			return keys[r.Intn(len(keys))], true
		}
		relFlag := func(rel bool) byte {
			if rel {
				return fREL
			}
			return 0
		}
		firstFree := func(rel bool) byte {
			for g := int(parity); g < 256; g += 2 {
				if _, ok := live[tkey{rel, byte(g)}]; !ok {
					return byte(g)
				}
			}
			return 0
		}
		L := 5 + r.Intn(hv.Scale(30, 60))
		if class == "mux-many-creates" {
			L = 130 + r.Intn(20)
		}
		for i := 0; i < L; i++ {
			c := r.Intn(100)
			if class == "mux-many-creates" && c < 92 {
				c = 0
			}
			switch {
			case c < 15: // local create
				rel := r.Chance(60)
				if class == "mux-many-creates" {
					rel = true
				}
				id := firstFree(rel)
				cnt := 0
				for k := range live {
					if k.rel == rel && k.id%2 == parity {
						cnt++
					}
				}
				sc = append(sc, mop{kind: 'C', rel: rel, ty: byte(1 + r.Intn(5))})
				if cnt < 128 {
					live[tkey{rel, id}] = &st{nextNo: 1}
				}
			case c < 35: // remote REQ: new id of the peer's parity, or (repeats class) an id that is live
				rel := r.Chance(60)
				id := byte(r.Intn(6)*2) + (1 - parity)
				if class == "mux-req-repeats" && r.Chance(50) {
					if k, ok := pickLive(); ok {
						rel, id = k.rel, k.id
					}
				}
				if r.Chance(8) {
					id = byte(r.Intn(6)*2) + parity // a REQ with OUR parity: the code accepts it all the same
				}
				ty := byte(1 + r.Intn(200))
				fl := fREQ | relFlag(rel)
				if rel {
					fl |= fACK
				}
				sc = append(sc, mop{kind: 'F', id: id, flags: fl, ackno: uint32(ty) << 24})
				if s, ok := live[tkey{rel, id}]; ok {
					s.open = true
				} else {
					live[tkey{rel, id}] = &st{open: true, nextNo: 1}
				}
			case c < 45: // RESP for a live (locally created) tube, or for nothing
				k, ok := pickLive()
				if !ok || r.Chance(15) {
					k = tkey{r.Bool(), byte(r.Intn(12))}
				}
				fl := fRESP | relFlag(k.rel)
				if k.rel {
					fl |= fACK
				}
				sc = append(sc, mop{kind: 'F', id: k.id, flags: fl, ackno: uint32(r.Intn(256)) << 24})
				if s, ok := live[k]; ok {
					s.open = true
				}
			case c < 72: // data frame for a live tube (in order), sometimes for the other kind / an unknown id
				k, ok := pickLive()
				if !ok {
					continue
				}
				s := live[k]
				no := s.nextNo
				if r.Chance(10) {
					// same id, other reliability: must not reach tube k (it reaches the other-kind tube if that is live)
					ok2 := tkey{!k.rel, k.id}
					no2 := uint32(1)
					if o, ok := live[ok2]; ok {
						if ok2.rel && o.fin && o.nextNo > o.maxNo {
							continue
						}
						no2 = o.nextNo
						if ok2.rel {
							o.nextNo++
							if no2 > o.maxNo {
								o.maxNo = no2
							}
						}
					}
					sc = append(sc, mop{kind: 'F', id: k.id, flags: relFlag(!k.rel), no: no2, data: payload(ok2, gens[ok2], no2)})
					continue
				}
				if k.rel {
					switch c2 := r.Intn(100); {
					case c2 < 12 && !s.fin:
						no = s.nextNo + uint32(1+r.Intn(3)) // ahead: buffered, delivered when the gap closes
					case c2 < 20 && s.nextNo > 1:
						no = 1 + uint32(r.Intn(int(s.nextNo-1))) // duplicate of an old frame
					case s.fin && s.nextNo > s.maxNo:
						if s.nextNo <= 1 {
							continue // a legitimate peer sends nothing beyond its FIN
						}
						no = 1 + uint32(r.Intn(int(s.nextNo-1)))
					default:
						s.nextNo++
					}
					if no > s.maxNo {
						s.maxNo = no
					}
				} else {
					s.nextNo++
				}
				fl := relFlag(k.rel)
				if k.rel && r.Chance(10) {
					fl |= fRTR
				}
				sc = append(sc, mop{kind: 'F', id: k.id, flags: fl, no: no, data: payload(k, gens[k], no)})
			case c < 80: // accept
				sc = append(sc, mop{kind: 'A'})
			case c < 90: // read
				if k, ok := pickLive(); ok {
					sc = append(sc, mop{kind: 'R', rel: k.rel, id: k.id})
				}
			case c < 94 && class != "mux-many-creates": // close + reap (then the id is free again)
				if k, ok := pickLive(); ok {
					sc = append(sc, mop{kind: 'X', rel: k.rel, id: k.id})
					delete(live, k)
					gens[k]++
				}
			case c < 97: // FIN for a reliable tube, in order
				if k, ok := pickLive(); ok && k.rel {
					s := live[k]
					// the FIN carries the number after the last data frame (it may arrive before some of them)
					sc = append(sc, mop{kind: 'F', id: k.id, flags: fREL | fFIN | fACK, ackno: 1, no: s.maxNo + 1})
					s.fin = true
					if s.nextNo <= s.maxNo+1 {
						// frames up to maxNo may still be missing; keep sending them in order later
					}
				}
			default:
				sc = append(sc, mop{kind: 'A'})
			}
		}
		// drain: accept everything, read everything
		for i := 0; i < 8; i++ {
			sc = append(sc, mop{kind: 'A'})
		}
		for id := 0; id < 256; id++ {
			for _, rel := range []bool{true, false} {
				if _, ok := live[tkey{rel, byte(id)}]; ok && (id < 14 || r.Chance(3)) {
					sc = append(sc, mop{kind: 'R', rel: rel, id: byte(id)}, mop{kind: 'R', rel: rel, id: byte(id)})
				}
			}
		}
		runMux(class, server, sc, true)
	}
}
