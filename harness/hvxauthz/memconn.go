// Package hvxauthz holds what the C05 and C07 drivers share: an in-memory message connection for
// running real tube muxers without sockets, the scaffolding around a real HopServer, the
// authorized_keys grammar and the specification oracles.
package hvxauthz

import (
	"io"
	"net"
	"os"
	"sync"
	"time"
)

type memAddr string

func (a memAddr) Network() string { return "mem" }
func (a memAddr) String() string  { return string(a) }

// MemConn is one end of a lossless, ordered, in-memory datagram pipe implementing transport.MsgConn.
type MemConn struct {
	in     chan []byte
	peer   *MemConn
	closed chan struct{}
	once   sync.Once
	mu     sync.Mutex
	rdl    time.Time
	name   string
}

// MemPipe returns two connected ends.
func MemPipe() (*MemConn, *MemConn) {
	a := &MemConn{in: make(chan []byte, 4096), closed: make(chan struct{}), name: "a"}
	b := &MemConn{in: make(chan []byte, 4096), closed: make(chan struct{}), name: "b"}
	a.peer, b.peer = b, a
	return a, b
}

func (c *MemConn) ReadMsg(b []byte) (int, error) {
	c.mu.Lock()
	dl := c.rdl
	c.mu.Unlock()
	var timer <-chan time.Time
	if !dl.IsZero() {
		d := time.Until(dl)
		if d <= 0 {
			return 0, os.ErrDeadlineExceeded
		}
		t := time.NewTimer(d)
		defer t.Stop()
		timer = t.C
	}
	select {
	case m := <-c.in:
		return copy(b, m), nil
	case <-c.closed:
		return 0, net.ErrClosed
	case <-c.peer.closed:
		return 0, io.EOF
	case <-timer:
		return 0, os.ErrDeadlineExceeded
	}
}

func (c *MemConn) WriteMsg(b []byte) error {
	select {
	case <-c.closed:
		return net.ErrClosed
	case <-c.peer.closed:
		return io.EOF
	default:
	}
	m := append([]byte(nil), b...)
	select {
	case c.peer.in <- m:
		return nil
	case <-c.closed:
		return net.ErrClosed
	case <-c.peer.closed:
		return io.EOF
	}
}

func (c *MemConn) Read(b []byte) (int, error) { return c.ReadMsg(b) }
func (c *MemConn) Write(b []byte) (int, error) {
	if err := c.WriteMsg(b); err != nil {
		return 0, err
	}
	return len(b), nil
}
func (c *MemConn) Close() error                       { c.once.Do(func() { close(c.closed) }); return nil }
func (c *MemConn) LocalAddr() net.Addr                { return memAddr(c.name) }
func (c *MemConn) RemoteAddr() net.Addr               { return memAddr(c.peer.name) }
func (c *MemConn) SetDeadline(t time.Time) error      { return c.SetReadDeadline(t) }
func (c *MemConn) SetWriteDeadline(t time.Time) error { return nil }
func (c *MemConn) SetReadDeadline(t time.Time) error {
	c.mu.Lock()
	c.rdl = t
	c.mu.Unlock()
	return nil
}
