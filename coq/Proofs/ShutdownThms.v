(* ShutdownThms.v — theorems read off the invariant of the shutdown system. *)
From Hop Require Import Base ConcBase Shutdown ShutdownProofs ShutdownProofs2.
Local Open Scope nat_scope.

Lemma no_panic est tmo progs x : reachable est tmo progs x -> panic (shd x) = false.
Proof. intros Hr. apply inv_reachable in Hr. destruct Hr as [HA _]. destruct HA; auto. Qed.

Lemma queue_closing_order est tmo progs x : reachable est tmo progs x ->
  (tq_closed (shd x) = true -> ts (shd x) = TClosed /\ s_closed (shd x) = true) /\
  (mq_closed (shd x) = true -> r_closed (shd x) = true /\ init_done (shd x) = true /\ ts (shd x) = TClosed /\
                               sp (shd x) <> S_run /\ ms (shd x) = MStopped) /\
  (r_closed (shd x) = true -> ts (shd x) = TClosed /\ ecs_pending (shd x) = false /\ sp (shd x) <> S_run) /\
  (send_done (shd x) = true -> tq_closed (shd x) = true /\ tq (shd x) = 0).
Proof.
  intros Hr. apply inv_reachable in Hr. destruct Hr as [HA _]. dA HA.
  split; [exact J1|]. split; [|split; [|exact J9]].
  - intros H. destruct (J21 H) as [Hc Hi]. destruct (J2 Hc) as [Ht _].
    split; auto. split; auto. split; auto. split; [apply J40; auto|].
    rewrite J22 in H. destruct (ms (shd x)) eqn:Em; auto; simpl in *; destruct (own (shd x)); simpl in *; discriminate.
  - intros H. destruct (J2 H). split; auto.
Qed.

Lemma force_close_bounds est tmo progs x : reachable est tmo progs x ->
  (ms (shd x) <> MRunning ->
     force_armed (shd x) = true \/ fp (shd x) = F_cb \/ fp (shd x) = F_go \/ ts (shd x) = TClosed) /\
  (fp (shd x) = F_ecs \/ fp (shd x) = F_done -> ts (shd x) = TClosed) /\
  (ts (shd x) = TClosed -> r_closed (shd x) = true \/ ecs_pending (shd x) = true) /\
  stop_owner (shd x) <= 1.
Proof.
  intros Hr. apply inv_reachable in Hr. destruct Hr as [HA _]. dA HA.
  split; [|split; [exact J24|split; [exact J4|]]].
  - intros Hm. apply J23. destruct (ms (shd x)); auto; contradiction.
  - rewrite J36. destruct (running (ms (shd x))); auto.
Qed.

Lemma closed_semantics s :
  (fin_sent s = true \/ s_closed s = true \/ (ts s <> TInitiated /\ ts s <> TCloseWait)) ->
  snd (do_write s) <> 0%N /\ fst (do_write s) = s.
Proof.
  intros H. unfold do_write. destruct (ts s) eqn:Et; simpl; try (split; [discriminate|reflexivity]).
  all: destruct H as [H|[H|[H1 H2]]]; try contradiction; rewrite H; simpl; rewrite ?Bool.orb_true_r; simpl;
    (split; [discriminate|reflexivity]).
Qed.

Lemma close_admits_fin_once s s' r : do_close s = (s', r) ->
  (r = 0%N -> fin_sent s = false /\ fin_sent s' = true /\ unack_fin s' = true /\
              (ts s = TInitiated /\ ts s' = TFinWait1 \/ ts s = TCloseWait /\ ts s' = TLastAck /\ la_armed s' = true)) /\
  (fin_sent s = true -> r <> 0%N).
Proof.
  intros H. unfold do_close in H. destruct (ts s) eqn:Et.
  all: try (inversion H; subst; split; intros; discriminate).
  all: unfold send_tq, set_ts, with_tube in H; simpl in H; destruct (fin_sent s) eqn:Ef.
  all: try (inversion H; subst; split; intros; discriminate).
  all: match type of H with (if ?c then _ else _, _) = _ => destruct c end;
    try (destruct (tq_closed s)); inversion H; subst; simpl; split; intros; try discriminate; auto 10.
Qed.
