(* ShutdownSpec.v — what "shutdown completes" means for Model/Shutdown.v (definitions only).

   Background transitions are those the environment / the clock may repeat for ever without any
   bearing on shutdown: frame arrivals, retransmission and window ticks of the tube sender, REQ
   retransmission of a tube that is still being initiated, and the lastAck timer as long as it only
   re-arms itself (data still unacknowledged).  Every other transition is a progress transition.
   A state is quiescent when no progress transition is enabled. *)
From Hop Require Import Base ConcBase Shutdown.
Open Scope nat_scope.

Definition rearming (s : sh) : bool :=
  match ts s with TLastAck => Nat.ltb 1 (unacked s) | _ => false end.

Definition background (x : st) (a : actor) : bool :=
  match a with
  | AMRecvFrame _ | ASendTick | ASendWindow | AInitTick => true
  | TLastFire => rearming (shd x)
  | ALast => match lp (shd x) with LA_cb => rearming (shd x) | _ => false end
  | _ => false
  end.

Definition quiescent (x : st) : Prop := forall a, background x a = false -> step x a = None.

Definition ufinished (t : uthread) : bool := match upcv t, uprog t with UIdle, [] => true | _, _ => false end.

(* every call has returned, every goroutine has ended, the tube is closed, Stop has published *)
Definition all_done (x : st) : Prop :=
  let s := shd x in
  forallb ufinished (uths x) = true /\
  hp s = H_done /\ (sp s = S_none \/ sp s = S_done) /\ ip s = I_done /\ msp s = MS_done /\ mrp s = MR_done /\
  (fp s = F_none \/ fp s = F_done) /\ lp s = LA_none /\ (g1 s = G_none \/ g1 s = G_done) /\ (g2 s = G_none \/ g2 s = G_done) /\
  own s = O_done /\ ts s = TClosed /\ r_closed s = true /\ stopped s = true /\ force_armed s = false /\ la_armed s = false.

(* ---------------------------------------------------------------- frame numbering of the tube sender
   (tubes/sender.go write / sendFin, both under Reliable.l): every data frame takes s.frameNo and
   increments it; sendFin takes s.frameNo for the FIN, increments it, and sets finSent, after which
   write refuses.  Sequential (all under the lock), any sequence of calls. *)
Open Scope N_scope.
Inductive sop := SWrite (nframes : nat) | SFin.
Record snd := mkSnd { frameNo : N; finSent : bool; finNo : N; datas : list N }.
Definition snd_init : snd := mkSnd 1 false 0 [].
Fixpoint push_frames (n : nat) (f : N) (l : list N) : N * list N :=
  match n with O => (f, l) | S n' => push_frames n' (f + 1) (l ++ [f]) end.
Definition snd_step (s : snd) (o : sop) : snd :=
  match o with
  | SWrite n => if finSent s then s
                else let '(f, l) := push_frames n (frameNo s) (datas s) in mkSnd f false (finNo s) l
  | SFin => if finSent s then s else mkSnd (frameNo s + 1) true (frameNo s) (datas s)
  end.
Definition snd_run (l : list sop) : snd := fold_left snd_step l snd_init.
