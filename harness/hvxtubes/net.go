package hvxtubes

// A pair of in-memory transport.MsgConn endpoints joined by two one-way links whose fate per datagram
// (deliver / drop / duplicate / delay, outages, hold-back) is decided by a seeded policy.

import (
	"net"
	"os"
	"sync"
	"sync/atomic"
	"time"
)

type addr string

func (a addr) Network() string { return "mem" }
func (a addr) String() string  { return string(a) }

// Fate of one datagram.
type Fate struct {
	Drop  bool
	Dup   int           // extra copies
	Delay time.Duration // delivery delay (differing delays reorder)
	Hold  bool          // keep the datagram in the link's hold list until Release
}

// Policy decides the fate of the n-th datagram (0-based) written on a link at time t since start.
type Policy func(n int, t time.Duration, b []byte) Fate

// Link is one direction.
type Link struct {
	mu      sync.Mutex
	policy  Policy
	start   time.Time
	n       int
	dst     *Conn
	held    [][]byte
	Sent    atomic.Int64
	Dropped atomic.Int64
}

// SetPolicy replaces the policy (nil = deliver everything immediately).
func (l *Link) SetPolicy(p Policy) {
	l.mu.Lock()
	l.policy = p
	l.mu.Unlock()
}

// Release delivers the held datagrams now (in order) and returns how many there were.
func (l *Link) Release() int {
	l.mu.Lock()
	h := l.held
	l.held = nil
	l.mu.Unlock()
	for _, b := range h {
		l.dst.deliver(b)
	}
	return len(h)
}

// Held returns copies of the datagrams currently held back.
func (l *Link) Held() [][]byte {
	l.mu.Lock()
	defer l.mu.Unlock()
	out := make([][]byte, len(l.held))
	for i, b := range l.held {
		out[i] = append([]byte(nil), b...)
	}
	return out
}

// DiscardHeld forgets the held datagrams.
func (l *Link) DiscardHeld() {
	l.mu.Lock()
	l.held = nil
	l.mu.Unlock()
}

func (l *Link) send(b []byte) {
	c := append([]byte(nil), b...)
	l.mu.Lock()
	n := l.n
	l.n++
	p := l.policy
	t := time.Since(l.start)
	l.mu.Unlock()
	l.Sent.Add(1)
	var f Fate
	if p != nil {
		f = p(n, t, c)
	}
	if f.Hold {
		l.mu.Lock()
		l.held = append(l.held, c)
		l.mu.Unlock()
		return
	}
	if f.Drop {
		l.Dropped.Add(1)
		return
	}
	for k := 0; k <= f.Dup; k++ {
		if f.Delay <= 0 {
			l.dst.deliver(c)
		} else {
			d := f.Delay + time.Duration(k)*time.Millisecond
			time.AfterFunc(d, func() { l.dst.deliver(c) })
		}
	}
}

// Conn implements transport.MsgConn.
type Conn struct {
	name   string
	peer   string
	out    *Link
	in     chan []byte
	closed chan struct{}
	once   sync.Once
	dl     atomic.Value // time.Time read deadline
	reads  atomic.Int64 // number of ReadMsg calls started
	inj    atomic.Int64 // number of datagrams injected with Inject
}

// Inject hands one datagram to the endpoint's reader and waits until the reader has come back for the next
// one, i.e. until the datagram has been completely processed by the single goroutine reading this
// endpoint.  Only meaningful when nothing else delivers to this endpoint.
func (c *Conn) Inject(b []byte) bool {
	k := c.inj.Add(1)
	select {
	case c.in <- append([]byte(nil), b...):
	case <-c.closed:
		return false
	}
	deadline := time.Now().Add(10 * time.Second)
	for c.reads.Load() < k+1 {
		select {
		case <-c.closed:
			return false
		default:
		}
		if time.Now().After(deadline) {
			return false
		}
		time.Sleep(10 * time.Microsecond)
	}
	return true
}

func (c *Conn) deliver(b []byte) {
	select {
	case <-c.closed:
	case c.in <- b:
	default: // receive queue overflow: the datagram is lost, like on a socket
	}
}

// ReadMsg implements transport.MsgReader.
func (c *Conn) ReadMsg(b []byte) (int, error) {
	c.reads.Add(1)
	var timer <-chan time.Time
	if d, ok := c.dl.Load().(time.Time); ok && !d.IsZero() {
		w := time.Until(d)
		if w <= 0 {
			return 0, os.ErrDeadlineExceeded
		}
		t := time.NewTimer(w)
		defer t.Stop()
		timer = t.C
	}
	select {
	case m := <-c.in:
		return copy(b, m), nil
	case <-c.closed:
		return 0, net.ErrClosed
	case <-timer:
		return 0, os.ErrDeadlineExceeded
	}
}

// WriteMsg implements transport.MsgWriter.
func (c *Conn) WriteMsg(b []byte) error {
	select {
	case <-c.closed:
		return net.ErrClosed
	default:
	}
	c.out.send(b)
	return nil
}

func (c *Conn) Read(b []byte) (int, error)  { return c.ReadMsg(b) }
func (c *Conn) Write(b []byte) (int, error) { return len(b), c.WriteMsg(b) }
func (c *Conn) Close() error {
	c.once.Do(func() { close(c.closed) })
	return nil
}
func (c *Conn) LocalAddr() net.Addr                { return addr(c.name) }
func (c *Conn) RemoteAddr() net.Addr               { return addr(c.peer) }
func (c *Conn) SetDeadline(t time.Time) error      { c.dl.Store(t); return nil }
func (c *Conn) SetReadDeadline(t time.Time) error  { c.dl.Store(t); return nil }
func (c *Conn) SetWriteDeadline(t time.Time) error { return nil }

// Out is the link carrying what this endpoint writes.
func (c *Conn) Out() *Link { return c.out }

// NewPair returns two connected endpoints; a's writes travel on a.Out(), b's on b.Out().
func NewPair() (a, b *Conn) {
	now := time.Now()
	a = &Conn{name: "A", peer: "B", in: make(chan []byte, 1<<14), closed: make(chan struct{})}
	b = &Conn{name: "B", peer: "A", in: make(chan []byte, 1<<14), closed: make(chan struct{})}
	a.out = &Link{start: now, dst: b}
	b.out = &Link{start: now, dst: a}
	return
}
