(* CorrC14Gen.v — the correspondence entry points of Corr/CorrC14.v, with the same names and case
   types, but evaluating the code GENERATED from transport/replay.go instead of the hand-written
   model.  check's "regen" step runs the harness driver's cases through these as well: a cross-check
   of the translator's reading of Go on exactly the inputs the implementation was run on. *)
From Hop Require Export Base Replay CorrC14.
From Hop Require Import GoSem ReplayGenRun.
Open Scope N_scope.

Definition res_bools_eq (r : res (list bool)) (obs : list bool) : bool :=
  match r with Ok l => beq_list Bool.eqb l obs | _ => false end.

Definition c14_ok (c : c14_case) : bool := res_bools_eq (gen_run_ops G.SlidingWindow_zero (fst c)) (snd c).
Definition c14h_ok (c : c14h_case) : bool := res_bools_eq (gen_run_accept G.SlidingWindow_zero (fst c)) (snd c).
Definition c14t_ok (c : c14t_case) : bool := res_bools_eq (gen_run_through G.SlidingWindow_zero (fst c)) (snd c).
