(* WireMsg.v — application-protocol messages: authgrants Intent / AgMessage / proxy responses,
   codex execInitMsg / GetCmd, userauth init message, port-forward request.
   Models the code after the wire group's fixes (WriteString, grant data, GetCmd, userauth,
   portforwarding).  Definitions only. *)
From Hop Require Import Base WireBase WireCert.
Open Scope N_scope.

(* ======================= authgrants/messages.go ======================= *)
Record intent := It {
  i_gtype : N; i_reserved : N; i_port : N; i_start : N; i_exp : N;
  i_sni : name; i_user : bytes; i_cert : cert; i_cmd : bytes }.
Record agmsg := Ag { a_type : N; a_intent : intent; a_denial : bytes }.

Definition beq_intent (a b : intent) : bool :=
  (i_gtype a =? i_gtype b) && (i_reserved a =? i_reserved b) && (i_port a =? i_port b) &&
  (i_start a =? i_start b) && (i_exp a =? i_exp b) && beq_name (i_sni a) (i_sni b) &&
  beq_bytes (i_user a) (i_user b) && beq_cert (i_cert a) (i_cert b) && beq_bytes (i_cmd a) (i_cmd b).

(* grant types: 1 Shell, 2 Command, 3 LocalPF, 4 RemotePF, 5 Acme; anything else: no data *)
Definition enc_assoc (gt : N) (cmd : bytes) : res bytes :=
  if gt =? 2 then enc_wstring cmd
  else if gt =? 1 then Ok []
  else if (gt =? 3) || (gt =? 4) then Err      (* errGrantDataUnimplemented (was: panic) *)
  else Ok [].

Definition dec_assoc (gt : N) : M bytes :=
  if gt =? 2 then dec_wstring
  else if gt =? 1 then retM []
  else if (gt =? 3) || (gt =? 4) then failM    (* errGrantDataUnimplemented (was: panic) *)
  else retM [].

(* Intent.WriteTo: {GrantType, Reserved}, uint16 port, int64 start, int64 exp, TargetSNI,
   WriteString(user), DelegateCert, associated data by grant type *)
Definition enc_intent (i : intent) : res bytes :=
  app_res (Ok ([i_gtype i mod 256; i_reserved i mod 256] ++ be_enc 2 (i_port i) ++ be_enc 8 (i_start i) ++ be_enc 8 (i_exp i)))
  (app_res (enc_name (i_sni i))
  (app_res (enc_wstring (i_user i))
  (app_res (enc_cert (i_cert i))
           (enc_assoc (i_gtype i) (i_cmd i))))).

(* Intent.ReadFrom: timestamps above MaxInt64 are refused *)
Definition max_int64 : N := 2 ^ 63 - 1.
Definition dec_intent : M intent :=
  gt <~ read_fixed 1 ;;
  rs <~ read_fixed 1 ;;
  pt <~ read_fixed 2 ;;
  sb <~ read_fixed 8 ;;
  if max_int64 <? be_dec sb then failM else
  eb <~ read_fixed 8 ;;
  if max_int64 <? be_dec eb then failM else
  sni <~ dec_name ;;
  user <~ dec_wstring ;;
  ct <~ dec_cert ;;
  cmd <~ dec_assoc (byte1 gt) ;;
  retM (It (byte1 gt) (byte1 rs) (be_dec pt) (be_dec sb) (be_dec eb) sni user ct cmd).

(* what a decoder leaves in a field it does not read: Go zero values, projected *)
Definition zero_name : name := Nm [] 0.
Definition zero_cert : cert := Ct 0 0 0 0 [] [] [] [].
Definition zero_intent : intent := It 0 0 0 0 0 zero_name [] zero_cert [].

(* AgMessage.WriteTo: type byte, then 1|2 -> intent, 3 -> nothing, 4 -> WriteString(denial);
   other types: nothing *)
Definition enc_ag (m : agmsg) : res bytes :=
  let t := a_type m in
  app_res (Ok [t mod 256])
   (if (t =? 1) || (t =? 2) then enc_intent (a_intent m)
    else if t =? 4 then enc_wstring (a_denial m)
    else Ok []).

Definition dec_ag : M agmsg :=
  tb <~ read_fixed 1 ;;
  let t := byte1 tb in
  if (t =? 1) || (t =? 2) then (i <~ dec_intent ;; retM (Ag t i []))
  else if t =? 4 then (d <~ dec_wstring ;; retM (Ag t zero_intent d))
  else retM (Ag t zero_intent []).

(* ReadIntentRequest / ReadIntentCommunication / ReadConfOrDenial: AgMessage.ReadFrom + a type test *)
Definition dec_ag_expect (ok : N -> bool) : M agmsg :=
  m <~ dec_ag ;; if ok (a_type m) then retM m else failM.
Definition dec_conf_or_denial : M agmsg := dec_ag_expect (fun t => (t =? 3) || (t =? 4)).
Definition dec_intent_request : M agmsg := dec_ag_expect (fun t => t =? 1).
Definition dec_intent_comm : M agmsg := dec_ag_expect (fun t => t =? 2).

(* the fields a message of this type carries (value equality of C18 is modulo this) *)
Definition norm_intent (i : intent) : intent :=
  It (i_gtype i) (i_reserved i) (i_port i) (i_start i) (i_exp i) (i_sni i) (i_user i) (i_cert i)
     (if i_gtype i =? 2 then i_cmd i else []).
Definition norm_ag (m : agmsg) : agmsg :=
  let t := a_type m in
  Ag t (if (t =? 1) || (t =? 2) then norm_intent (a_intent m) else zero_intent)
       (if t =? 4 then a_denial m else []).

(* WriteIntentDenied: the diagnostic is cut to 255 bytes, then an AgMessage of type 4 *)
Definition write_intent_denied (reason : bytes) : res bytes :=
  enc_ag (Ag 4 zero_intent (take 255 reason)).

(* ---- proxy_messages.go: WriteConfirmation / WriteFailure / ReadResponse ----
   value: None = confirmation, Some reason = failure *)
Definition enc_proxy_resp (r : option bytes) : res bytes :=
  match r with
  | None => Ok [1]
  | Some e => app_res (Ok [0]) (enc_wstring (take 255 e))
  end.
Definition dec_proxy_resp : M (option bytes) :=
  b <~ read_fixed 1 ;;
  if byte1 b =? 1 then retM None else (s <~ dec_wstring ;; retM (Some s)).

(* well-typedness / representability *)
Definition wt_intent (i : intent) : bool :=
  (i_gtype i <? 256) && (i_reserved i <? 256) && (i_port i <? 65536) &&
  (i_start i <=? max_int64) && (i_exp i <=? max_int64) &&
  wt_name (i_sni i) && wf_bytes (i_user i) && wt_cert (i_cert i) && wf_bytes (i_cmd i).
Definition repr_intent (i : intent) : bool :=
  repr_name (i_sni i) && (len (i_user i) <=? 255) && repr_cert (i_cert i) &&
  negb ((i_gtype i =? 3) || (i_gtype i =? 4)) &&
  (if i_gtype i =? 2 then len (i_cmd i) <=? 255 else true).
Definition wt_ag (m : agmsg) : bool :=
  (a_type m <? 256) && wf_bytes (a_denial m) &&
  (if (a_type m =? 1) || (a_type m =? 2) then wt_intent (a_intent m) else true).
Definition repr_ag (m : agmsg) : bool :=
  if (a_type m =? 1) || (a_type m =? 2) then repr_intent (a_intent m)
  else if a_type m =? 4 then len (a_denial m) <=? 255 else true.

(* ======================= codex/exec.go ======================= *)
Record winsize := Ws { w_rows : N; w_cols : N; w_x : N; w_y : N }.
Record execmsg := Ex { e_pty : bool; e_cmd : bytes; e_term : bytes; e_size : option winsize }.

Definition beq_ws (a b : winsize) : bool :=
  (w_rows a =? w_rows b) && (w_cols a =? w_cols b) && (w_x a =? w_x b) && (w_y a =? w_y b).
Definition beq_exec (a b : execmsg) : bool :=
  Bool.eqb (e_pty a) (e_pty b) && beq_bytes (e_cmd a) (e_cmd b) && beq_bytes (e_term a) (e_term b) &&
  match e_size a, e_size b with
  | None, None => true | Some x, Some y => beq_ws x y | _, _ => false end.

Definition enc_ws (w : winsize) : bytes :=
  be_enc 2 (w_rows w) ++ be_enc 2 (w_cols w) ++ be_enc 2 (w_x w) ++ be_enc 2 (w_y w).

(* newExecInitMsg + ToBytes.  cmdLen/termLen are uint32(len(..)); the model is claimed only for
   total length < 2^32 (exec_fits): beyond that Go's uint32 arithmetic wraps inside ToBytes,
   which needs a 4 GiB string to exercise and is not modelled. ToBytes has no error result. *)
Definition exec_flags (m : execmsg) : N :=
  (if e_pty m then 1 else 0) + (match e_size m with Some _ => 2 | None => 0 end).
Definition enc_exec (m : execmsg) : bytes :=
  [exec_flags m] ++ be_enc 4 (len (e_cmd m)) ++ e_cmd m ++ be_enc 4 (len (e_term m)) ++ e_term m
  ++ match e_size m with Some w => enc_ws w | None => [] end.
Definition exec_fits (m : execmsg) : bool := len (e_cmd m) + len (e_term m) + 17 <? 2 ^ 32.

(* GetCmd (after the fix): flag byte, two length-prefixed fields read incrementally, optional
   8-byte window size; every read error is returned *)
Definition read_len_prefixed : M bytes :=
  l <~ read_fixed 4 ;; copy_n (be_dec l).
Definition dec_ws : M winsize :=
  b <~ read_fixed 8 ;;
  retM (Ws (be_dec (slice b 0 2)) (be_dec (slice b 2 4)) (be_dec (slice b 4 6)) (be_dec (slice b 6 8))).
Definition dec_exec : M execmsg :=
  t <~ read_fixed 1 ;;
  let use_pty := N.testbit (byte1 t) 0 in
  let has_size := N.testbit (byte1 t) 1 in
  cmd <~ read_len_prefixed ;;
  term <~ read_len_prefixed ;;
  if has_size then (w <~ dec_ws ;; retM (Ex use_pty cmd term (Some w)))
  else retM (Ex use_pty cmd term None).

Definition wt_ws (w : winsize) : bool :=
  (w_rows w <? 65536) && (w_cols w <? 65536) && (w_x w <? 65536) && (w_y w <? 65536).
Definition wt_exec (m : execmsg) : bool :=
  wf_bytes (e_cmd m) && wf_bytes (e_term m) && match e_size m with Some w => wt_ws w | None => true end.

(* ======================= userauth/userauth.go ======================= *)
(* toBytes (after the fix): nil for len > 65535; otherwise 2-byte length, the name, and the two
   unused trailing bytes of the 4-byte "header" *)
Definition enc_userauth (u : bytes) : res bytes :=
  if 65535 <? len u then Err else Ok (be_enc 2 (len u) ++ u ++ [0; 0]).

(* GetInitMsg: both io.ReadFull errors are ignored, there is no error result *)
Definition dec_userauth : M bytes :=
  allocM 2 ;;; l <~ read_full_lenient 2 ;;
  let n := be_dec l in
  allocM n ;;; b <~ read_full_lenient n ;;
  allocM n ;;;            (* string(buf) *)
  retM b.

(* ======================= portforwarding/portforwarding.go ======================= *)
(* request value at address-string level: network type (1 TCP, 2 UDP, 3 unix; anything else is
   an address type toBytes does not know), forwarding type (a Go int), address string.
   net.JoinHostPort / SplitHostPort / ParseIP are outside the model: the harness supplies
   whether SplitHostPort accepts the string. *)
Record pfreq := Pf { p_net : N; p_fwd : Z; p_addr : bytes }.

Definition enc_pf (r : pfreq) : res bytes :=
  if negb ((p_net r =? 1) || (p_net r =? 2) || (p_net r =? 3)) then Err     (* unknown address type: nil *)
  else if (65535 <? len (p_addr r)) || (p_fwd r <? 0)%Z || (255 <? p_fwd r)%Z then Err
  else Ok ([p_net r; Z.to_N (p_fwd r)] ++ be_enc 2 (len (p_addr r)) ++ p_addr r).

Definition dec_pf (split_ok : bool) : M pfreq :=
  h <~ read_fixed 2 ;;
  l <~ read_fixed 2 ;;
  a <~ read_fixed (be_dec l) ;;
  allocM (be_dec l) ;;;      (* string(addrBytes) *)
  let nt := nthb h 0 in
  if (nt =? 1) || (nt =? 2) then (if split_ok then retM (Pf nt (Z.of_N (nthb h 1)) a) else failM)
  else if nt =? 3 then retM (Pf nt (Z.of_N (nthb h 1)) a)
  else failM.

Definition beq_pf (a b : pfreq) : bool :=
  (p_net a =? p_net b) && (p_fwd a =? p_fwd b)%Z && beq_bytes (p_addr a) (p_addr b).
Definition wt_pf (r : pfreq) : bool := wf_bytes (p_addr r).
Definition repr_pf (r : pfreq) : bool :=
  ((p_net r =? 1) || (p_net r =? 2) || (p_net r =? 3)) && (len (p_addr r) <=? 65535) &&
  (0 <=? p_fwd r)%Z && (p_fwd r <=? 255)%Z.
