(* ShutdownProofs.v — invariants of the tube/muxer shutdown system (Model/Shutdown.v): for every
   schedule, every arrival pattern (loss, duplication, reordering, a dead network, a misbehaving
   peer), every timer interleaving and any user programs of Close/WaitForClose/Stop/Write. *)
From Hop Require Import Base ConcBase ConcUtil Shutdown.
From Coq Require Import Lia Arith.
Local Open Scope nat_scope.

(* ------------------------------------------------------------------ classifiers *)
Definition ge_senderr (o : opc) : bool := match o with O_senderr _ | O_conn | O_recverr | O_signal | O_done => true | _ => false end.
Definition ge_conn (o : opc) : bool := match o with O_conn | O_recverr | O_signal | O_done => true | _ => false end.
Definition ge_recverr (o : opc) : bool := match o with O_recverr | O_signal | O_done => true | _ => false end.
Definition ge_signal (o : opc) : bool := match o with O_signal | O_done => true | _ => false end.
Definition is_done (o : opc) : bool := match o with O_done => true | _ => false end.
Definition hp_active (h : hpc) : bool := match h with H_close | H_wclosed | H_winit => true | _ => false end.
Definition npend (s : sh) : nat :=
  (match mrp s with MR_ecs => 1 | _ => 0 end) + (match fp s with F_ecs => 1 | _ => 0 end) + (match lp s with LA_ecs => 1 | _ => 0 end).
Definition running (m : mstate) : bool := match m with MRunning => true | _ => false end.

Record InvA (s : sh) : Prop := {
  j0 : panic s = false;
  j1 : tq_closed s = true -> ts s = TClosed /\ s_closed s = true;
  j2 : r_closed s = true -> ts s = TClosed /\ ecs_pending s = false;
  j3 : ecs_pending s = true -> ts s = TClosed /\ tq_closed s = true /\ r_closed s = false;
  j4 : ts s = TClosed -> r_closed s = true \/ ecs_pending s = true;
  j5 : init_done s = true -> init_recv s = true \/ r_closed s = true;
  j6 : init_recv s = true -> ts s <> TCreated;
  j7 : la_armed s = true -> ts s = TLastAck;
  j9 : send_done s = true -> tq_closed s = true /\ tq s = 0;
  j10 : ts s = TCreated -> s_closed s = true;
  j11 : ts s <> TClosed -> (s_closed s = false <-> sp s = S_run);
  j12 : send_done s = true <-> sp s = S_done;
  j13 : sp s = S_none -> s_closed s = true /\ tq_closed s = false;
  j15 : init_done s = true <-> ip s = I_done;
  j16 : ip s <> I_none;
  j17 : running (ms s) = match own s with O_none => true | _ => false end;
  j18 : (match ms s with MStopping => true | _ => false end) = match own s with O_wg | O_closeq => true | _ => false end;
  j19 : running (ms s) = match hp s with H_none => true | _ => false end;
  j20 : wgc s = if hp_active (hp s) then 1 else 0;
  j21 : mq_closed s = true -> r_closed s = true /\ init_done s = true;
  j22 : mq_closed s = ge_senderr (own s);
  j23 : running (ms s) = false ->
        force_armed s = true \/ fp s = F_cb \/ fp s = F_go \/ ts s = TClosed;
  j24 : fp s = F_ecs \/ fp s = F_done -> ts s = TClosed;
  j25 : under_closed s = true -> running (ms s) = false;
  j26 : ge_recverr (own s) = true -> under_closed s = true;
  j27 : (match msp s with MS_done => true | _ => false end) = ge_conn (own s);
  j28 : (match mrp s with MR_done => true | _ => false end) = ge_signal (own s);
  j29 : stopped s = is_done (own s);
  j30 : msp s = MS_offer -> mq_closed s = true /\ mq s = 0;
  j32 : hp s = H_winit \/ hp s = H_done -> r_closed s = true;
  j33 : hp s = H_done -> init_done s = true;
  j34 : g1 s = G_wait \/ g1 s = G_done -> running (ms s) = false;
  j35 : g2 s = G_wait \/ g2 s = G_done -> running (ms s) = false;
  j36 : stop_owner s = if running (ms s) then 0 else 1;
  j37 : force_armed s = true -> running (ms s) = false;
  j38 : fp s <> F_none -> running (ms s) = false;
  j40 : r_closed s = true -> sp s <> S_run;
  j41 : mrp s = MR_offer \/ mrp s = MR_done -> g2 s <> G_none \/ running (ms s) = false;
  j42 : (match own s with O_none | O_wg => true | _ => false end) = false -> hp s = H_done
}.
Definition Inv (s : sh) : Prop := InvA s /\ npend s = if ecs_pending s then 1 else 0.

(* ------------------------------------------------------------------ micro-operations on the tube *)
(* [Same s s']: everything outside the Reliable's own fields is unchanged, the muxer queue may have
   grown *)
Record Same (s s' : sh) : Prop := {
  e_ms : ms s' = ms s; e_mqc : mq_closed s' = mq_closed s; e_uc : under_closed s' = under_closed s;
  e_st : stopped s' = stopped s; e_fa : force_armed s' = force_armed s; e_wg : wgc s' = wgc s;
  e_cfg : cfg_timeout s' = cfg_timeout s;
  e_hp : hp s' = hp s; e_sp : sp s' = sp s; e_ip : ip s' = ip s; e_msp : msp s' = msp s; e_mrp : mrp s' = mrp s;
  e_fp : fp s' = fp s; e_lp : lp s' = lp s; e_g1 : g1 s' = g1 s; e_g2 : g2 s' = g2 s; e_own : own s' = own s;
  e_so : stop_owner s' = stop_owner s; e_sd : send_done s' = send_done s; e_id : init_done s' = init_done s;
  e_mq : mq_closed s = true -> mq s' = mq s
}.
Lemma Same_refl s : Same s s. Proof. constructor; reflexivity. Qed.
Lemma Same_trans a b c : Same a b -> Same b c -> Same a c.
Proof. intros [] []. constructor; try congruence. intros H. rewrite e_mq1; [auto|congruence]. Qed.

(* the part of the invariant that a tube micro-operation has to maintain by itself *)
Record TInv (s : sh) : Prop := {
  t0 : panic s = false;
  t1 : tq_closed s = true -> ts s = TClosed /\ s_closed s = true;
  t2 : r_closed s = true -> ts s = TClosed /\ ecs_pending s = false;
  t3 : ecs_pending s = true -> ts s = TClosed /\ tq_closed s = true /\ r_closed s = false;
  t4 : ts s = TClosed -> r_closed s = true \/ ecs_pending s = true;
  t5 : init_done s = true -> init_recv s = true \/ r_closed s = true;
  t6 : init_recv s = true -> ts s <> TCreated;
  t7 : la_armed s = true -> ts s = TLastAck;
  t9 : send_done s = true -> tq_closed s = true /\ tq s = 0;
  t10 : ts s = TCreated -> s_closed s = true;
  t21 : mq_closed s = true -> r_closed s = true /\ init_done s = true
}.
Lemma Inv_TInv s : InvA s -> TInv s.
Proof. intros []. constructor; auto. Qed.

Ltac unf := unfold send_empty, send_tq, send_mq, set_tq, set_mq, set_panic, set_ts, set_unack, set_rw, with_tube in *.

Ltac dT H := destruct H as [T0 T1 T2 T3 T4 T5 T6 T7 T9 T10 T21].

(* what a micro-operation that does not close the tube leaves alone *)
Record Keep (s s' : sh) : Prop := {
  k_sc : s_closed s' = s_closed s; k_tqc : tq_closed s' = tq_closed s; k_rc : r_closed s' = r_closed s;
  k_ep : ecs_pending s' = ecs_pending s; k_ir : init_recv s' = init_recv s
}.
Record Keep4 (s s' : sh) : Prop := {
  k4_sc : s_closed s' = s_closed s; k4_tqc : tq_closed s' = tq_closed s; k4_rc : r_closed s' = r_closed s;
  k4_ep : ecs_pending s' = ecs_pending s
}.
Lemma Keep_Keep4 s s' : Keep s s' -> Keep4 s s'. Proof. intros []. constructor; auto. Qed.
Lemma Keep4_refl s : Keep4 s s. Proof. constructor; reflexivity. Qed.
Lemma Keep_refl s : Keep s s. Proof. constructor; reflexivity. Qed.
Lemma Keep_trans a b c : Keep a b -> Keep b c -> Keep a c.
Proof. intros [] []. constructor; congruence. Qed.

(* sends *)
Ltac tgo := constructor; simpl; intros; auto; try tauto; try congruence.
Ltac rest := split; [constructor; simpl; auto; try congruence|]; split; [constructor; simpl; auto|]; split; simpl; auto.

Lemma send_tq_ok s : TInv s -> ts s <> TClosed ->
  TInv (send_tq s) /\ Same s (send_tq s) /\ Keep s (send_tq s) /\ ts (send_tq s) = ts s /\ la_armed (send_tq s) = la_armed s.
Proof.
  intros HT Hn. dT HT. unfold send_tq. destruct (tq_closed s) eqn:E.
  - destruct (T1 eq_refl). contradiction.
  - unf. split; [|rest]. tgo. all: try (destruct (T9 H); congruence).
Qed.

Lemma send_mq_ok s : TInv s -> ts s <> TClosed ->
  TInv (send_mq s) /\ Same s (send_mq s) /\ Keep s (send_mq s) /\ ts (send_mq s) = ts s /\ la_armed (send_mq s) = la_armed s.
Proof.
  intros HT Hn. dT HT. unfold send_mq. destruct (mq_closed s) eqn:E.
  - destruct (T21 eq_refl) as [H1 _]. destruct (T2 H1). contradiction.
  - unf. split; [|rest]. tgo.
Qed.

Lemma send_empty_ok s : TInv s -> ts s <> TClosed ->
  TInv (send_empty s) /\ Same s (send_empty s) /\ Keep s (send_empty s) /\ ts (send_empty s) = ts s /\ la_armed (send_empty s) = la_armed s.
Proof.
  intros HT Hn. unfold send_empty. destruct (s_closed s).
  - split; [exact HT|]. split; [apply Same_refl|]. split; [apply Keep_refl|]. auto.
  - apply send_tq_ok; auto.
Qed.

Lemma set_ts_ok s t : TInv s -> ts s <> TClosed -> ts s <> TCreated -> t <> TClosed -> t <> TCreated ->
  (la_armed s = true -> t = TLastAck) ->
  TInv (set_ts s t) /\ Same s (set_ts s t) /\ Keep s (set_ts s t) /\ ts (set_ts s t) = t /\ la_armed (set_ts s t) = la_armed s.
Proof.
  intros HT H1 H2 H3 H4 H5. dT HT. unf. split; [|rest]. tgo.
  all: try (destruct (T1 H); contradiction).
  all: try (destruct (T2 H); contradiction).
  all: try (destruct (T3 H) as [? _]; contradiction).
Qed.

Lemma set_unack_ok s d f : TInv s ->
  TInv (set_unack s d f) /\ Same s (set_unack s d f) /\ Keep s (set_unack s d f) /\ ts (set_unack s d f) = ts s /\
  la_armed (set_unack s d f) = la_armed s.
Proof. intros HT. dT HT. unf. split; [|rest]. tgo. Qed.

Lemma set_rw_ok s : TInv s ->
  TInv (set_rw s) /\ Same s (set_rw s) /\ Keep s (set_rw s) /\ ts (set_rw s) = ts s /\ la_armed (set_rw s) = la_armed s.
Proof. intros HT. dT HT. unf. split; [|rest]. tgo. Qed.

(* enterClosedState, phase 1 *)
Lemma ecs1_ok s s' w : TInv s -> ecs1 s = (s', w) ->
  TInv s' /\ Same s s' /\ la_armed s' = (if tstate_eqb (ts s) TClosed then la_armed s else false) /\
  init_recv s' = init_recv s /\
  ((ts s = TClosed /\ s' = s /\ w = false) \/
   (ts s <> TClosed /\ ts s' = TClosed /\ s_closed s = true /\ s_closed s' = true /\ w = false /\
    r_closed s' = true /\ ecs_pending s' = false /\ ecs_pending s = false /\ tq_closed s' = tq_closed s /\ tq_closed s = false) \/
   (ts s <> TClosed /\ ts s' = TClosed /\ s_closed s = false /\ s_closed s' = true /\ w = true /\
    r_closed s' = false /\ r_closed s = false /\ ecs_pending s' = true /\ ecs_pending s = false /\ tq_closed s' = true)).
Proof.
  intros HT H. pose proof HT as HT0. dT HT. unfold ecs1 in H.
  assert (Hnc : ts s <> TClosed -> r_closed s = false /\ ecs_pending s = false /\ tq_closed s = false).
  { intros Hn. repeat split.
    - destruct (r_closed s) eqn:E; auto. destruct (T2 eq_refl); contradiction.
    - destruct (ecs_pending s) eqn:E; auto. destruct (T3 eq_refl) as [? _]; contradiction.
    - destruct (tq_closed s) eqn:E; auto. destruct (T1 eq_refl); contradiction. }
  destruct (ts s) eqn:Ets.
  all: try (inversion H; subst; clear H; split; [exact HT0|]; split; [apply Same_refl|];
            split; [try rewrite Ets; reflexivity|]; split; [reflexivity|]; left; auto; fail).
  all: destruct (Hnc ltac:(discriminate)) as (R1 & R2 & R3); rewrite R1, R3 in H;
       destruct (s_closed s) eqn:Esc; inversion H; subst; clear H; unf; simpl.
  all: split; [constructor; simpl; intros; auto; try discriminate; try tauto; try congruence;
               try (destruct (T9 H); congruence); try (destruct (T21 H); congruence);
               try (destruct (T5 H) as [?|?]; [left; auto|congruence])|].
  all: try (split; [constructor; simpl; auto|]).
  all: try (split; [reflexivity|]; split; [reflexivity|]).
  all: try (right; left; repeat split; auto; discriminate).
  all: try (right; right; repeat split; auto; discriminate).
Qed.

(* ------------------------------------------------------------------ composable description of what a
   sequence of tube micro-operations (at most one of them closing the tube) does *)
Inductive Mode (s s' : sh) (w : bool) : Prop :=
| MU : ts s <> TClosed -> ts s' <> TClosed -> Keep4 s s' -> w = false -> Mode s s' w
| MC0 : ts s = TClosed -> ts s' = TClosed -> Keep4 s s' -> w = false -> Mode s s' w
| MC1 : ts s <> TClosed -> ts s' = TClosed -> s_closed s = true -> s_closed s' = true -> r_closed s' = true ->
        ecs_pending s' = false -> ecs_pending s = false -> tq_closed s' = tq_closed s -> tq_closed s = false ->
        r_closed s = false -> w = false -> Mode s s' w
| MC2 : ts s <> TClosed -> ts s' = TClosed -> s_closed s = false -> s_closed s' = true -> tq_closed s' = true ->
        ecs_pending s' = true -> ecs_pending s = false -> r_closed s' = false -> r_closed s = false -> w = true -> Mode s s' w.

Record TStep (s s' : sh) (w : bool) : Prop := {
  p_same : Same s s';
  p_tinv : TInv s';
  p_mode : Mode s s' w;
  p_ir : init_recv s' = init_recv s \/ (ts s = TCreated /\ init_recv s' = true);
  p_cr : ts s' = TCreated -> ts s = TCreated
}.

Lemma TStep_id s : TInv s -> TStep s s false.
Proof.
  intros HT. constructor; auto using Same_refl.
  destruct (ts s) eqn:E; try (apply MU; auto using Keep4_refl; congruence).
  apply MC0; auto using Keep4_refl.
Qed.

Lemma Mode_trans a b c w1 w2 : TInv b -> Mode a b w1 -> Mode b c w2 -> Mode a c (w1 || w2).
Proof.
  intros HT M1 M2.
  destruct M1 as [A1 A2 [k1 k2 k3 k4] A4|A1 A2 [k1 k2 k3 k4] A4|A1 A2 A3 A4 A5 A6 A7 A8 A9 A10 A11|A1 A2 A3 A4 A5 A6 A7 A8 A9 A10];
  destruct M2 as [B1 B2 [l1 l2 l3 l4] B4|B1 B2 [l1 l2 l3 l4] B4|B1 B2 B3 B4 B5 B6 B7 B8 B9 B10 B11|B1 B2 B3 B4 B5 B6 B7 B8 B9 B10];
  try contradiction;
  match goal with
  | H1 : w1 = _, H2 : w2 = _ |- _ => rewrite H1, H2; simpl
  end.
  all: try (apply MU; auto; [constructor; congruence]).
  all: try (apply MC0; auto; [constructor; congruence]).
  all: try (apply MC1; auto; congruence).
  all: try (apply MC2; auto; congruence).
Qed.

Lemma TStep_trans a b c w1 w2 : TStep a b w1 -> TStep b c w2 -> TStep a c (w1 || w2).
Proof.
  intros [S1 T1 M1 I1 C1] [S2 T2 M2 I2 C2]. constructor; auto.
  - eapply Same_trans; eauto.
  - exact (Mode_trans a b c w1 w2 T1 M1 M2).
  - destruct I2 as [E|[E1 E2]]; destruct I1 as [F|[F1 F2]]; try (left; congruence).
    + right. split; auto. congruence.
    + right. split; auto.
    + right. split; auto.
Qed.

Lemma TStep_keep s s' : ts s <> TClosed -> ts s' <> TClosed -> (ts s' = TCreated -> ts s = TCreated) ->
  TInv s' -> Same s s' -> Keep s s' -> la_armed s' = la_armed s -> TStep s s' false.
Proof.
  intros H1 H2 H3 HT HS HK HL. constructor; auto.
  - apply MU; auto using Keep_Keep4.
  - left. destruct HK; auto.
Qed.

(* a micro-operation lemma of the shape proved above gives a TStep *)
Lemma TStep_op s s' t : ts s <> TClosed -> t <> TClosed -> (t = TCreated -> ts s = TCreated) ->
  TInv s' /\ Same s s' /\ Keep s s' /\ ts s' = t /\ la_armed s' = la_armed s -> TStep s s' false.
Proof.
  intros H1 H2 H3 (HT & HS & HK & Ht & HL). apply TStep_keep; auto; try congruence.
  intros E. apply H3. congruence.
Qed.

Lemma TStep_ecs1 s s' w : TInv s -> ecs1 s = (s', w) -> TStep s s' w.
Proof.
  intros HT H. destruct (ecs1_ok s s' w HT H) as (A & B & C & D & E).
  destruct E as [(E1 & E2 & E3)|[(E1 & E2 & E3 & E4 & E5 & E6 & E7 & E8 & E9 & E10)|(E1 & E2 & E3 & E4 & E5 & E6 & E7 & E8 & E9 & E10)]].
  - subst. apply TStep_id; auto.
  - constructor; auto.
    + apply MC1; auto. dT HT. destruct (r_closed s) eqn:Er; auto. destruct (T2 eq_refl); contradiction.
    + intros H1. rewrite E2 in H1. discriminate.
  - constructor; auto.
    + apply MC2; auto.
    + intros H1. rewrite E2 in H1. discriminate.
Qed.

(* ------------------------------------------------------------------ Reliable.receive as a TStep *)
Definition st1 (s : sh) (f : inframe) : sh * bool :=
  let isack := match f_ack f with ANone => false | _ => true end in
  if isack && negb (tstate_eqb (ts s) TInitiated) && Nat.eqb (unacked s) 0 then
    match ts s with
    | TFinWait1 => (set_ts s TFinWait2, false)
    | TClosing | TLastAck => ecs1 s
    | _ => (s, false)
    end
  else (s, false).
Definition st2 (f : inframe) (s1 : sh) : sh :=
  if f_inorder f && negb (rw_closed s1) && negb (tstate_eqb (ts s1) TClosed) then set_rw s1 else s1.
Definition st3 (finnow : bool) (s1 : sh) : sh * bool :=
  if finnow then
    let '(s2, w2) :=
      match ts s1 with
      | TInitiated => (set_ts s1 TCloseWait, false)
      | TFinWait1 => (set_ts s1 TClosing, false)
      | TFinWait2 => ecs1 (send_empty s1)
      | _ => (s1, false)
      end in
    (if tstate_eqb (ts s2) TClosed then s2 else send_empty s2, w2)
  else (s1, false).
Definition st4 (f : inframe) (s2 : sh) : sh :=
  if f_data f && negb (tstate_eqb (ts s2) TClosed) && negb (f_fin f) then send_empty s2 else s2.

Lemma recv_fsm_eq s f :
  recv_fsm s f =
  let '(s1, w1) := st1 s f in
  let finnow := (f_fin f && rw_closed s) || (f_inorder f && negb (rw_closed s)) in
  let '(s2, w2) := st3 finnow (st2 f s1) in
  (st4 f s2, w1 || w2).
Proof.
  unfold recv_fsm, st1, st2, st3, st4.
  destruct (match f_ack f with ANone => false | _ => true end && negb (tstate_eqb (ts s) TInitiated) && Nat.eqb (unacked s) 0);
    [destruct (ts s); try destruct (ecs1 s) as [a b]|]; reflexivity.
Qed.

Lemma la_false_unless_lastack s : TInv s -> ts s <> TLastAck -> la_armed s = true -> False.
Proof. intros HT Hn H. dT HT. apply Hn. auto. Qed.

Lemma st1_ok s f s' w : TInv s -> ts s <> TCreated -> st1 s f = (s', w) -> TStep s s' w.
Proof.
  intros HT Hc H. unfold st1 in H.
  destruct (match f_ack f with ANone => false | _ => true end && negb (tstate_eqb (ts s) TInitiated) && Nat.eqb (unacked s) 0).
  - destruct (ts s) eqn:Ets; try (inversion H; subst; apply TStep_id; auto; fail).
    + eapply TStep_ecs1; eauto.
    + inversion H; subst; clear H.
      apply (TStep_op s _ TFinWait2); try congruence; try discriminate.
      apply set_ts_ok; auto; try congruence; try discriminate.
      intros Hl. exfalso. eapply la_false_unless_lastack; eauto. congruence.
    + eapply TStep_ecs1; eauto.
  - inversion H; subst. apply TStep_id; auto.
Qed.

Lemma st2_ok f s : TInv s -> TStep s (st2 f s) false.
Proof.
  intros HT. unfold st2.
  destruct (f_inorder f && negb (rw_closed s) && negb (tstate_eqb (ts s) TClosed)) eqn:E; [|apply TStep_id; auto].
  apply Bool.andb_true_iff in E. destruct E as [_ E]. apply Bool.negb_true_iff in E.
  assert (ts s <> TClosed) by (intros Hx; rewrite Hx in E; discriminate).
  destruct (set_rw_ok s HT) as (A & B & C & D & E').
  apply TStep_keep; auto; try congruence.
Qed.

Lemma send_empty_step s : TInv s -> ts s <> TClosed -> TStep s (send_empty s) false.
Proof.
  intros HT Hn. destruct (send_empty_ok s HT Hn) as (A & B & C & D & E).
  apply TStep_keep; auto; try congruence.
Qed.

Lemma st3_ok b s s' w : TInv s -> ts s <> TCreated -> st3 b s = (s', w) -> TStep s s' w.
Proof.
  intros HT Hc H. unfold st3 in H. destruct b; [|inversion H; subst; apply TStep_id; auto].
  assert (Hfin : forall s2 w2, TStep s s2 w2 ->
                 (if tstate_eqb (ts s2) TClosed then s2 else send_empty s2, w2) = (s', w) -> TStep s s' w).
  { intros s2 w2 HS Heq. destruct (tstate_eqb (ts s2) TClosed) eqn:E.
    - inversion Heq; subst. auto.
    - inversion Heq; subst. replace w with (w || false)%bool by apply Bool.orb_false_r.
      eapply TStep_trans; [exact HS|]. apply send_empty_step; [destruct HS; auto|].
      intros Hx. rewrite Hx in E. discriminate. }
  destruct (ts s) eqn:Ets.
  all: try (apply (Hfin s false); [apply TStep_id; auto|exact H]).
  - (* initiated -> closeWait *)
    apply (Hfin (set_ts s TCloseWait) false); [|exact H].
    apply (TStep_op s _ TCloseWait); try congruence; try discriminate.
    apply set_ts_ok; auto; try congruence; try discriminate.
    intros Hl. exfalso. eapply la_false_unless_lastack; eauto. congruence.
  - (* finWait1 -> closing *)
    apply (Hfin (set_ts s TClosing) false); [|exact H].
    apply (TStep_op s _ TClosing); try congruence; try discriminate.
    apply set_ts_ok; auto; try congruence; try discriminate.
    intros Hl. exfalso. eapply la_false_unless_lastack; eauto. congruence.
  - (* finWait2: ack the FIN, enterClosedState *)
    destruct (ecs1 (send_empty s)) as [s2 w2] eqn:Ee.
    apply (Hfin s2 w2); [|exact H].
    replace w2 with (false || w2)%bool by reflexivity.
    eapply TStep_trans; [apply send_empty_step; auto; congruence|].
    eapply TStep_ecs1; eauto. destruct (send_empty_ok s HT ltac:(congruence)) as (A & _). exact A.
Qed.

Lemma st4_ok f s : TInv s -> TStep s (st4 f s) false.
Proof.
  intros HT. unfold st4.
  destruct (f_data f && negb (tstate_eqb (ts s) TClosed) && negb (f_fin f)) eqn:E; [|apply TStep_id; auto].
  apply Bool.andb_true_iff in E. destruct E as [E _]. apply Bool.andb_true_iff in E. destruct E as [_ E].
  apply Bool.negb_true_iff in E. apply send_empty_step; auto. intros Hx. rewrite Hx in E. discriminate.
Qed.

Lemma recv_fsm_ok s f s' w : TInv s -> ts s <> TCreated -> recv_fsm s f = (s', w) -> TStep s s' w.
Proof.
  intros HT Hc H. rewrite recv_fsm_eq in H.
  destruct (st1 s f) as [s1 w1] eqn:E1.
  pose proof (st1_ok _ _ _ _ HT Hc E1) as S1.
  pose proof (st2_ok f s1 (p_tinv _ _ _ S1)) as S2.
  assert (Hc1 : ts (st2 f s1) <> TCreated).
  { intros Hx. apply Hc. apply (p_cr _ _ _ S1). apply (p_cr _ _ _ S2). exact Hx. }
  cbv zeta in H.
  match type of H with context [st3 ?b ?x] => destruct (st3 b x) as [s2 w2] eqn:E3 end.
  pose proof (st3_ok _ _ _ _ (p_tinv _ _ _ S2) Hc1 E3) as S3.
  pose proof (st4_ok f s2 (p_tinv _ _ _ S3)) as S4.
  inversion H; subst; clear H.
  replace (w1 || w2)%bool with (((w1 || false) || w2) || false)%bool
    by (rewrite Bool.orb_false_r, Bool.orb_false_r; reflexivity).
  eapply TStep_trans; [|exact S4]. eapply TStep_trans; [|exact S3]. eapply TStep_trans; [exact S1|exact S2].
Qed.

Lemma send_mq_step s : TInv s -> ts s <> TClosed -> TStep s (send_mq s) false.
Proof.
  intros HT Hn. destruct (send_mq_ok s HT Hn) as (A & B & C & D & E).
  apply TStep_keep; auto; try congruence.
Qed.

Lemma init_step s : TInv s -> ts s = TCreated ->
  TStep s (with_tube s TInitiated (s_closed s) (tq s) (tq_closed s) (fin_sent s) (unack_data s) (unack_fin s)
                     (send_done s) (r_closed s) (init_done s) true (la_armed s) (rw_closed s) (ecs_pending s)) false.
Proof.
  intros HT Ets. pose proof HT as HT0. dT HT. constructor.
  - unf. constructor; reflexivity.
  - unf. constructor; simpl; intros; auto; try discriminate; try congruence.
    all: try (destruct (T1 H); congruence).
    all: try (destruct (T2 H); congruence).
    all: try (destruct (T3 H) as [? _]; congruence).
    all: try (specialize (T7 H); congruence).
  - apply MU; unf; simpl; try congruence; try discriminate. constructor; reflexivity.
  - right. unf. simpl. auto.
  - unf. simpl. discriminate.
Qed.

Lemma receive_ok s f s' w : TInv s -> receive s f = (s', w) -> TStep s s' w.
Proof.
  intros HT H. unfold receive in H. destruct (f_init f).
  - (* receiveInitiatePkt *)
    destruct (ts s) eqn:Ets; inversion H; subst; clear H.
    all: try (apply TStep_id; auto; fail).
    all: try (apply send_mq_step; auto; congruence).
    (* created -> initiated, then the RESP on the muxer queue *)
    pose proof (init_step s HT Ets) as S1.
    replace false with (false || false)%bool by reflexivity.
    eapply TStep_trans; [exact S1|]. apply send_mq_step; [destruct S1; auto|]. unf. simpl. discriminate.
  - destruct (ts s) eqn:Ets.
    all: try (inversion H; subst; apply TStep_id; auto; fail).
    all: destruct (f_ack f) as [|k|].
    all: try (eapply recv_fsm_ok; eauto; congruence).
    all: try (eapply TStep_ecs1; eauto; fail).
    all: destruct (Nat.ltb (unacked s) k); try (eapply TStep_ecs1; eauto; fail).
    all: match type of H with recv_fsm ?s1 ?ff = _ =>
           assert (S1 : TStep s s1 false) by
             (destruct (Nat.leb k (unack_data s));
              [destruct (set_unack_ok s (unack_data s - k) (unack_fin s) HT) as (A & B & C & D & E)
              |destruct (set_unack_ok s 0 false HT) as (A & B & C & D & E)];
              apply TStep_keep; auto; congruence);
           replace w with (false || w)%bool by reflexivity;
           eapply TStep_trans; [exact S1|];
           eapply recv_fsm_ok; [destruct S1; auto| |exact H]
         end.
    all: destruct (Nat.leb k (unack_data s)); unf; simpl; congruence.
Qed.

(* ------------------------------------------------------------------ Close / Write / phase 2 *)
Lemma do_close_ok s s' r : TInv s -> init_done s = true \/ r_closed s = true -> do_close s = (s', r) ->
  TInv s' /\ Same s s' /\ Keep s s' /\ r <> 2%N /\ (ts s = TClosed <-> ts s' = TClosed) /\ (ts s' = TCreated -> ts s = TCreated).
Proof.
  intros HT Hpre H. pose proof HT as HT0. dT HT. unfold do_close in H.
  assert (Hnc : ts s <> TCreated).
  { intros Hx. destruct Hpre as [Hp|Hp].
    - destruct (T5 Hp) as [Hq|Hq]; [apply (T6 Hq); auto|destruct (T2 Hq); congruence].
    - destruct (T2 Hp); congruence. }
  assert (Hq : ts s <> TClosed -> tq_closed s = false).
  { intros Hn. destruct (tq_closed s) eqn:E; auto. destruct (T1 eq_refl); contradiction. }
  destruct (ts s) eqn:Ets; try contradiction.
  all: try (inversion H; subst; clear H; split; [exact HT0|]; split; [apply Same_refl|]; split; [apply Keep_refl|];
            repeat split; intros; try discriminate; try congruence; fail).
  all: unfold send_tq in H; unf; simpl in H; pose proof (Hq ltac:(discriminate)) as Hq1; try rewrite Hq1 in H.
  all: destruct (fin_sent s) eqn:Ef; [|destruct (Nat.eqb (unacked (mkS _ _ _ _ _ _ _ _ _ _ _ _ _ _ _ _ _ _ _ _ _ _ _ _ _ _ _ _ _ _ _ _ _ _ _)) 0)];
       inversion H; subst; clear H.
  all: split; [constructor; simpl; intros; auto; try discriminate; try congruence;
               try (destruct (T1 H); congruence); try (destruct (T2 H); congruence);
               try (destruct (T3 H) as [? _]; congruence); try (destruct (T9 H) as [? ?]; congruence);
               try (specialize (T7 H); discriminate)|].
  all: split; [constructor; simpl; auto|].
  all: split; [constructor; simpl; auto|].
  all: repeat split; intros; simpl in *; try discriminate; try congruence.
Qed.

Lemma do_write_ok s s' r : TInv s -> do_write s = (s', r) ->
  TInv s' /\ Same s s' /\ Keep s s' /\ ts s' = ts s /\ la_armed s' = la_armed s.
Proof.
  intros HT H.
  assert (Hc : s' = s \/ s' = set_unack s (S (unack_data s)) (unack_fin s)).
  { unfold do_write in H. destruct (ts s); try (inversion H; auto; fail);
      destruct (fin_sent s || s_closed s); inversion H; auto. }
  destruct Hc as [-> | ->].
  - split; [exact HT|]. split; [apply Same_refl|]. split; [apply Keep_refl|]. auto.
  - apply set_unack_ok; auto.
Qed.

Lemma ecs2_ok s s' : TInv s -> ecs_pending s = true -> ecs2 s = Some s' ->
  TInv s' /\ Same s s' /\ send_done s = true /\ r_closed s' = true /\ ecs_pending s' = false /\
  ts s' = ts s /\ s_closed s' = s_closed s /\ tq_closed s' = tq_closed s /\ tq s' = tq s /\ init_recv s' = init_recv s /\
  la_armed s' = la_armed s.
Proof.
  intros HT Hp H. dT HT. unfold ecs2 in H. destruct (send_done s) eqn:Esd; [|discriminate].
  destruct (T3 Hp) as (A & B & C). rewrite C in H. inversion H; subst; clear H. unf.
  split.
  { constructor; simpl; intros; auto; try discriminate; try congruence.
    all: try (destruct (T21 H); congruence). }
  split.
  { constructor; simpl; try reflexivity; try congruence; auto. }
  repeat split; simpl; auto.
Qed.

(* ------------------------------------------------------------------ a tube step preserves the cross invariant *)
Ltac dA H := destruct H as [J0 J1 J2 J3 J4 J5 J6 J7 J9 J10 J11 J12 J13 J15 J16 J17 J18 J19 J20 J21 J22 J23 J24 J25 J26 J27 J28
                             J29 J30 J32 J33 J34 J35 J36 J37 J38 J40 J41 J42].

Lemma invA_tstep s s' w : InvA s -> TStep s s' w -> InvA s'.
Proof.
  intros HA [HS HT HM _ _]. dA HA. destruct HS. dT HT.
  constructor; auto; try congruence.
  all: try (rewrite ?e_ms0, ?e_own0, ?e_hp0, ?e_wg0, ?e_mqc0, ?e_fa0, ?e_fp0, ?e_uc0, ?e_msp0, ?e_mrp0, ?e_st0,
                    ?e_g3, ?e_g4, ?e_so0, ?e_sp0, ?e_ip0, ?e_sd0, ?e_id0; auto; fail).
  - (* j11 *) intros Hn. rewrite e_sp0.
    destruct HM as [A1 A2 [k1 k2 k3 k4] A4|A1 A2 [k1 k2 k3 k4] A4|A1 A2 A3 A4 A5 A6 A7 A8 A9 A10 A11|A1 A2 A3 A4 A5 A6 A7 A8 A9 A10];
      try contradiction. rewrite k1. auto.
  - (* j13 *) rewrite e_sp0. intros Hs. destruct (J13 Hs) as [B1 B2].
    destruct HM as [A1 A2 [k1 k2 k3 k4] A4|A1 A2 [k1 k2 k3 k4] A4|A1 A2 A3 A4 A5 A6 A7 A8 A9 A10 A11|A1 A2 A3 A4 A5 A6 A7 A8 A9 A10];
      split; congruence.
  - (* j23 *) rewrite e_ms0, e_fa0, e_fp0. intros Hr. destruct (J23 Hr) as [?|[?|[?|Hc]]]; auto.
    right. right. right.
    destruct HM as [A1 A2 [k1 k2 k3 k4] A4|A1 A2 [k1 k2 k3 k4] A4|A1 A2 A3 A4 A5 A6 A7 A8 A9 A10 A11|A1 A2 A3 A4 A5 A6 A7 A8 A9 A10];
      auto; contradiction.
  - (* j24 *) rewrite e_fp0. intros Hf. specialize (J24 Hf).
    destruct HM as [A1 A2 [k1 k2 k3 k4] A4|A1 A2 [k1 k2 k3 k4] A4|A1 A2 A3 A4 A5 A6 A7 A8 A9 A10 A11|A1 A2 A3 A4 A5 A6 A7 A8 A9 A10];
      auto; contradiction.
  - (* j30 *) rewrite e_msp0, e_mqc0. intros Hm. destruct (J30 Hm) as [B1 B2]. split; auto. rewrite e_mq0; auto.
  - (* j32 *) rewrite e_hp0. intros Hh. specialize (J32 Hh).
    destruct HM as [A1 A2 [k1 k2 k3 k4] A4|A1 A2 [k1 k2 k3 k4] A4|A1 A2 A3 A4 A5 A6 A7 A8 A9 A10 A11|A1 A2 A3 A4 A5 A6 A7 A8 A9 A10];
      congruence.
  - (* j40 *) rewrite e_sp0. intros Hr.
    destruct HM as [A1 A2 [k1 k2 k3 k4] A4|A1 A2 [k1 k2 k3 k4] A4|A1 A2 A3 A4 A5 A6 A7 A8 A9 A10 A11|A1 A2 A3 A4 A5 A6 A7 A8 A9 A10].
    + apply J40. congruence.
    + apply J40. congruence.
    + intros Hx. apply (proj2 (J11 A1)) in Hx. congruence.
    + congruence.
Qed.

(* ------------------------------------------------------------------ preservation, actor by actor *)
Ltac headc t := match t with ?f _ => headc f | _ => t end.
Ltac rwm := repeat match goal with
  | E : msp ?s = ?c |- context [msp ?s] => let h := headc c in is_constructor h; rewrite E
  | E : mrp ?s = ?c |- context [mrp ?s] => let h := headc c in is_constructor h; rewrite E
  | E : fp ?s = ?c |- context [fp ?s] => let h := headc c in is_constructor h; rewrite E
  | E : lp ?s = ?c |- context [lp ?s] => let h := headc c in is_constructor h; rewrite E
  | E : hp ?s = ?c |- context [hp ?s] => let h := headc c in is_constructor h; rewrite E
  | E : sp ?s = ?c |- context [sp ?s] => let h := headc c in is_constructor h; rewrite E
  | E : ip ?s = ?c |- context [ip ?s] => let h := headc c in is_constructor h; rewrite E
  | E : g1 ?s = ?c |- context [g1 ?s] => let h := headc c in is_constructor h; rewrite E
  | E : g2 ?s = ?c |- context [g2 ?s] => let h := headc c in is_constructor h; rewrite E
  | E : own ?s = ?c |- context [own ?s] => let h := headc c in is_constructor h; rewrite E
  | E : ms ?s = ?c |- context [ms ?s] => let h := headc c in is_constructor h; rewrite E
  end.


Ltac rwall := repeat match goal with E : ?f ?s = ?c |- _ => let h := headc c in is_constructor h; progress (rewrite E in * ) end.
Ltac fin_tac := simpl in *; rwm; simpl; intros; auto; try congruence; try tauto; try discriminate; try lia;
  try (rwall; simpl in *; auto; try congruence; try lia; fail);
  try (intuition (try discriminate; try congruence; try lia); fail).
Ltac solveA := constructor; fin_tac.
Ltac solveP := unfold npend in *; fin_tac.
Ltac msd s := try (destruct (ms s) eqn:?; simpl in *; try discriminate; try congruence; try lia; auto; fail).

Lemma npend_eq s s' : mrp s' = mrp s -> fp s' = fp s -> lp s' = lp s -> npend s' = npend s.
Proof. intros A B C. unfold npend. rewrite A, B, C. reflexivity. Qed.

Lemma inv_owner s s' : Inv s -> ostep s = Some s' -> Inv s'.
Proof.
  intros [HA HP] H. dA HA. unfold npend in HP. unfold ostep in H.
  destruct (own s) eqn:Eo; try discriminate; simpl in *.
  - (* O_wg *) destruct (wgc s) eqn:Ew; [|discriminate]. inversion H; subst; clear H.
    unfold set_own. split; [solveA|solveP].
    destruct (ms s); destruct (hp s); simpl in *; auto; try discriminate; try lia.
  - (* O_closeq *)
    rewrite J22 in H. inversion H; subst; clear H. unfold set_own, set_mux, set_panic.
    specialize (J42 eq_refl).
    split; [solveA|solveP]. all: msd s.
  - (* O_senderr *)
    destruct (msp s) eqn:Em; try discriminate. inversion H; subst; clear H. unfold set_own, set_msp, set_procs.
    split; [solveA|solveP].
  - (* O_conn *)
    inversion H; subst; clear H. unfold set_own, set_mux. split; [solveA|solveP].
  - (* O_recverr *)
    destruct (mrp s) eqn:Em; try discriminate. inversion H; subst; clear H. unfold set_own, set_mrp, set_procs.
    split; [solveA|solveP].
  - (* O_signal *)
    rewrite J29 in H. inversion H; subst; clear H. unfold set_own, set_mux. split; [solveA|solveP].
Qed.

Lemma inv_tube s s' w : Inv s -> TStep s s' w -> w = false -> Inv s'.
Proof.
  intros [HA HP] HS Hw. split; [eapply invA_tstep; eauto|].
  destruct HS as [HSame _ HM _ _]. destruct HSame.
  rewrite (npend_eq s s') by auto. rewrite HP.
  destruct HM as [A1 A2 [k1 k2 k3 k4] A4|A1 A2 [k1 k2 k3 k4] A4|A1 A2 A3 A4 A5 A6 A7 A8 A9 A10 A11|A1 A2 A3 A4 A5 A6 A7 A8 A9 A10];
    try (rewrite k4; reflexivity); try (rewrite A6, A7; reflexivity); congruence.
Qed.

Lemma close_tstep s s' r : Inv s -> init_done s = true \/ r_closed s = true -> do_close s = (s', r) ->
  TStep s s' false /\ r <> 2%N.
Proof.
  intros [HA _] Hpre H. pose proof (Inv_TInv _ HA) as HT.
  destruct (do_close_ok _ _ _ HT Hpre H) as (A & B & C & D & E & F). split; auto.
  constructor; auto.
  - destruct (ts s) eqn:Ets; try (apply MU; auto using Keep_Keep4; try congruence; intros Hx; apply E in Hx; congruence).
    apply MC0; auto using Keep_Keep4. apply E. reflexivity.
  - left. destruct C; auto.
Qed.

Lemma write_tstep s s' r : Inv s -> do_write s = (s', r) -> TStep s s' false.
Proof.
  intros [HA _] H. pose proof (Inv_TInv _ HA) as HT.
  destruct (do_write_ok _ _ _ HT H) as (A & B & C & D & E).
  constructor; auto.
  - destruct (ts s) eqn:Ets; try (apply MU; auto using Keep_Keep4; congruence).
    apply MC0; auto using Keep_Keep4.
  - left. destruct C; auto.
  - congruence.
Qed.

Lemma inv_stop_begin s : Inv s -> Inv (fst (stop_begin s)).
Proof.
  intros HI. pose proof HI as [HA HP]. dA HA. unfold npend in HP. unfold stop_begin.
  destruct (ms s) eqn:Em; simpl; try exact HI.
  simpl in *. destruct (own s) eqn:Eo; try discriminate. destruct (hp s) eqn:Eh; try discriminate.
  split; [solveA|solveP].
Qed.

Lemma inv_ustep s t s' t' : Inv s -> ustep s t = Some (s', t') -> Inv s'.
Proof.
  intros HI H. unfold ustep in H. destruct (upcv t).
  - destruct (uprog t) as [|[ | | | ] r]; try discriminate; try (inversion H; subst; exact HI).
    destruct (stop_begin s) as [s1 o] eqn:E. inversion H; subst.
    pose proof (inv_stop_begin s HI) as H1. rewrite E in H1. exact H1.
  - destruct (init_done s || r_closed s) eqn:Ew; [|discriminate].
    destruct (do_close s) as [s1 r] eqn:Ec. inversion H; subst.
    apply Bool.orb_true_iff in Ew.
    destruct (close_tstep _ _ _ HI Ew Ec) as [HS _]. eapply inv_tube; eauto.
  - destruct (r_closed s); inversion H; subst; auto.
  - destruct (init_done s); inversion H; subst; auto.
  - destruct (stopped s); inversion H; subst; auto.
  - destruct (init_done s); [|discriminate]. destruct (do_write s) as [s1 r] eqn:Ec. inversion H; subst.
    eapply inv_tube; [exact HI|eapply write_tstep; eauto|reflexivity].
Qed.

Lemma inv_helper s s' : Inv s ->
  match hp s with
  | H_close => if init_done s || r_closed s then
                 let '(s1, r) := do_close s in
                 if (r =? 2)%N then Some (set_hp (set_mux s1 (ms s1) (mq s1) (mq_closed s1) (under_closed s1) (stopped s1) (force_armed s1) (pred (wgc s1)) (stop_owner s1) (written s1)) H_done)
                 else Some (set_hp s1 H_wclosed)
               else None
  | H_wclosed => if r_closed s then Some (set_hp s H_winit) else None
  | H_winit => if init_done s then
                 Some (set_hp (set_mux s (ms s) (mq s) (mq_closed s) (under_closed s) (stopped s) (force_armed s) (pred (wgc s)) (stop_owner s) (written s)) H_done)
               else None
  | _ => None
  end = Some s' -> Inv s'.
Proof.
  intros HI H. destruct (hp s) eqn:Eh; try discriminate.
  - destruct (init_done s || r_closed s) eqn:Ew; [|discriminate].
    destruct (do_close s) as [s1 r] eqn:Ec. apply Bool.orb_true_iff in Ew.
    destruct (close_tstep _ _ _ HI Ew Ec) as [HS Hr].
    destruct (r =? 2)%N eqn:Er; [apply N.eqb_eq in Er; contradiction|].
    inversion H; subst; clear H.
    pose proof (inv_tube _ _ _ HI HS eq_refl) as [HA HP]. destruct HS as [HSame _ _ _ _]. destruct HSame.
    dA HA. unfold npend in HP. rewrite e_hp0 in *. rewrite Eh in *. unfold set_hp, set_procs.
    split; [solveA|solveP].
  - destruct (r_closed s) eqn:Er; [|discriminate]. inversion H; subst; clear H.
    destruct HI as [HA HP]. dA HA. unfold npend in HP. rewrite Eh in *. unfold set_hp, set_procs.
    split; [solveA|solveP].
  - destruct (init_done s) eqn:Er; [|discriminate]. inversion H; subst; clear H.
    destruct HI as [HA HP]. dA HA. unfold npend in HP. rewrite Eh in *. unfold set_hp, set_procs, set_mux.
    split; [solveA|solveP].
Qed.

Lemma mq_open_if_running s : InvA s -> sp s = S_run -> mq_closed s = false.
Proof.
  intros HA Hs. dA HA. destruct (mq_closed s) eqn:E; auto.
  destruct (J21 eq_refl) as [Hr _]. exfalso. exact (J40 Hr Hs).
Qed.

Lemma inv_send_drain s (emit : bool) s' : Inv s ->
  match sp s with
  | S_run =>
    match tq s with
    | S n => let s1 := set_tq s n in Some (if emit then send_mq s1 else s1)
    | O => if tq_closed s then
             Some (set_sp (with_tube s (ts s) (s_closed s) (tq s) (tq_closed s) (fin_sent s) (unack_data s) (unack_fin s)
                                     true (r_closed s) (init_done s) (init_recv s) (la_armed s) (rw_closed s) (ecs_pending s)) S_done)
           else None
    end
  | _ => None
  end = Some s' -> Inv s'.
Proof.
  intros [HA HP] H. pose proof (mq_open_if_running s HA) as Hmq. dA HA. unfold npend in HP.
  destruct (sp s) eqn:Es; try discriminate. specialize (Hmq eq_refl).
  destruct (tq s) eqn:Et.
  - destruct (tq_closed s) eqn:Eq; [|discriminate]. inversion H; subst; clear H.
    unfold set_sp, set_procs. unf. split; [solveA|solveP].
  - assert (Hsd : send_done s = false).
    { destruct (send_done s) eqn:E; auto. destruct (J9 eq_refl). congruence. }
    unfold send_mq, set_tq in H. unf. simpl in H. rewrite Hmq in H.
    destruct emit; inversion H; subst; clear H; (split; [solveA|solveP]).
Qed.

Lemma inv_send_bg s s' : Inv s -> sp s = S_run -> s_closed s = false ->
  (s' = send_mq s \/ s' = send_tq s) -> Inv s'.
Proof.
  intros HI Hs Hc H. pose proof HI as [HA HP]. pose proof (mq_open_if_running s HA Hs) as Hmq.
  pose proof (Inv_TInv _ HA) as HT.
  assert (Hq : tq_closed s = false).
  { destruct (tq_closed s) eqn:E; auto. dT HT. destruct (T1 E). congruence. }
  dA HA. unfold npend in HP.
  destruct H as [-> | ->]; [unfold send_mq; rewrite Hmq|unfold send_tq; rewrite Hq]; unf.
  - split; [solveA|solveP].
  - assert (Hsd : send_done s = false).
    { destruct (send_done s) eqn:E; auto. destruct (J9 eq_refl). congruence. }
    split; [solveA|solveP].
Qed.

Lemma inv_init_tick s : Inv s -> ip s = I_wait -> ts s = TCreated -> Inv (send_mq s).
Proof.
  intros HI Hi Ht. pose proof HI as [HA HP]. pose proof (Inv_TInv _ HA) as HT.
  eapply inv_tube; [exact HI|apply send_mq_step; auto; congruence|reflexivity].
Qed.

Lemma inv_init s s' : Inv s ->
  match ip s with
  | I_wait =>
    if r_closed s then
      Some (set_ip (with_tube s (ts s) (s_closed s) (tq s) (tq_closed s) (fin_sent s) (unack_data s) (unack_fin s) (send_done s)
                              (r_closed s) true (init_recv s) (la_armed s) (rw_closed s) (ecs_pending s)) I_done)
    else if init_recv s then
      match ts s with
      | TInitiated =>
        Some (set_sp (set_ip (with_tube s (ts s) false (tq s) (tq_closed s) (fin_sent s) (unack_data s) (unack_fin s) (send_done s)
                                        (r_closed s) true (init_recv s) (la_armed s) (rw_closed s) (ecs_pending s)) I_done) S_run)
      | _ =>
        Some (set_ip (with_tube s (ts s) (s_closed s) (tq s) (tq_closed s) (fin_sent s) (unack_data s) (unack_fin s) (send_done s)
                                (r_closed s) true (init_recv s) (la_armed s) (rw_closed s) (ecs_pending s)) I_done)
      end
    else None
  | _ => None
  end = Some s' -> Inv s'.
Proof.
  intros [HA HP] H. dA HA. unfold npend in HP. destruct (ip s) eqn:Ei; try discriminate.
  destruct (r_closed s) eqn:Er.
  - inversion H; subst; clear H. unfold set_ip, set_procs. unf. split; [solveA|solveP].
  - destruct (init_recv s) eqn:Eir; [|discriminate].
    destruct (ts s) eqn:Ets; inversion H; subst; clear H; unfold set_sp, set_ip, set_procs; unf;
      (split; [solveA|solveP]).
Qed.

Lemma inv_msend s s' : Inv s ->
  match msp s with
  | MS_run =>
    match mq s with
    | S n =>
      if under_closed s then
        Some (set_g1 (set_msp (set_mq s n) MS_drain) (match g1 s with G_none => G_start | p => p end))
      else Some (set_mux s (ms s) n (mq_closed s) (under_closed s) (stopped s) (force_armed s) (wgc s) (stop_owner s) (S (written s)))
    | O => if mq_closed s then Some (set_msp s MS_offer) else None
    end
  | MS_drain =>
    match mq s with
    | S n => Some (set_mq s n)
    | O => if mq_closed s then Some (set_msp s MS_offer) else None
    end
  | _ => None
  end = Some s' -> Inv s'.
Proof.
  intros [HA HP] H. dA HA. unfold npend in HP. destruct (msp s) eqn:Em; try discriminate.
  - destruct (mq s) eqn:Eq.
    + destruct (mq_closed s) eqn:Ec; [|discriminate]. inversion H; subst; clear H.
      unfold set_msp, set_procs. split; [solveA|solveP].
    + destruct (under_closed s) eqn:Eu; inversion H; subst; clear H.
      * unfold set_g1, set_msp, set_procs, set_mq. destruct (g1 s) eqn:Eg; (split; [solveA|solveP]).
      * unfold set_mux. split; [solveA|solveP].
  - destruct (mq s) eqn:Eq.
    + destruct (mq_closed s) eqn:Ec; [|discriminate]. inversion H; subst; clear H.
      unfold set_msp, set_procs. split; [solveA|solveP].
    + inversion H; subst; clear H. unfold set_mq. split; [solveA|solveP].
Qed.

Lemma inv_recv_frame s f s' : Inv s -> mrp s = MR_read ->
  (let '(s1, w) := receive s f in Some (set_mrp s1 (if w then MR_ecs else MR_check))) = Some s' -> Inv s'.
Proof.
  intros HI Hm H. destruct (receive s f) as [s1 w] eqn:Er. inversion H; subst; clear H.
  pose proof HI as [HA HP]. pose proof (receive_ok _ _ _ _ (Inv_TInv _ HA) Er) as HS.
  pose proof (invA_tstep _ _ _ HA HS) as HA1.
  destruct HS as [HSame HT1 HM _ _]. destruct HSame. unfold npend in HP. rewrite Hm in HP.
  dA HA1. rewrite e_mrp0, Hm in *. unfold set_mrp, set_procs.
  destruct HM as [A1 A2 [k1 k2 k3 k4] A4|A1 A2 [k1 k2 k3 k4] A4|A1 A2 A3 A4 A5 A6 A7 A8 A9 A10 A11|A1 A2 A3 A4 A5 A6 A7 A8 A9 A10];
    subst w; (split; [solveA|unfold npend; simpl; rewrite ?e_fp0, ?e_lp0; try rewrite k4; try rewrite A6; try rewrite A7 in HP; simpl in *; lia]).
Qed.

(* phase 2 by the goroutine that is pending *)
Lemma inv_ecs2 s s1 : Inv s -> ecs_pending s = true -> ecs2 s = Some s1 ->
  InvA s1 /\ Same s s1 /\ ecs_pending s1 = false /\ ts s1 = TClosed /\ r_closed s1 = true.
Proof.
  intros [HA HP] Hp H. pose proof (Inv_TInv _ HA) as HT.
  destruct (ecs2_ok _ _ HT Hp H) as (A & B & C & D & E & F & G & I & K & L & M).
  assert (Hts : ts s = TClosed) by (dT HT; destruct (T3 Hp); auto).
  split; [|split; [exact B|split; [exact E|split; [congruence|exact D]]]].
  dA HA. destruct B. dT A.
  constructor; auto; try congruence.
  all: try (rewrite ?e_ms0, ?e_own0, ?e_hp0, ?e_wg0, ?e_mqc0, ?e_fa0, ?e_fp0, ?e_uc0, ?e_msp0, ?e_mrp0, ?e_st0,
                    ?e_g3, ?e_g4, ?e_so0, ?e_sp0, ?e_ip0, ?e_sd0, ?e_id0; auto; fail).
  - rewrite e_sp0. intros Hs. destruct (J13 Hs) as [B1 B2]. split; congruence.
  - rewrite e_ms0, e_fa0, e_fp0. intros. right. right. right. congruence.
  - rewrite e_msp0, e_mqc0. intros Hm. destruct (J30 Hm) as [B1 B2]. split; auto. rewrite e_mq0; auto.
  - rewrite e_sp0. intros _ Hs. apply (proj1 J12) in C. congruence.
Qed.

Lemma inv_recv_step s s' : Inv s ->
  match mrp s with
  | MR_ecs => match ecs2 s with Some s1 => Some (set_mrp s1 MR_check) | None => None end
  | MR_check => match ms s with
                | MStopped => Some (set_mrp s MR_offer)
                | _ => Some (set_mrp s MR_read)
                end
  | _ => None
  end = Some s' -> Inv s'.
Proof.
  intros HI H. pose proof HI as [HA HP]. unfold npend in HP. destruct (mrp s) eqn:Em; try discriminate.
  - dA HA. destruct (ms s) eqn:Es; inversion H; subst; clear H; unfold set_mrp, set_procs; (split; [solveA|solveP]).
  - assert (Hp : ecs_pending s = true) by (destruct (ecs_pending s); auto; simpl in HP; lia).
    destruct (ecs2 s) as [s1|] eqn:E2; [|discriminate]. inversion H; subst; clear H.
    destruct (inv_ecs2 _ _ HI Hp E2) as (HA1 & HS & B1 & B2 & B3). destruct HS. rewrite Hp in HP.
    dA HA1. rewrite e_mrp0, Em in *. unfold set_mrp, set_procs.
    split; [solveA|unfold npend; simpl; rewrite e_fp0, e_lp0, B1; lia].
Qed.

Lemma inv_recv_err s s' : Inv s -> mrp s = MR_read -> (under_closed s = true \/ cfg_timeout s && negb (under_closed s) = true) ->
  match ms s with
  | MStopped => Some (set_mrp s MR_offer)
  | _ => Some (set_g2 (set_mrp s MR_offer) (match g2 s with G_none => G_start | p => p end))
  end = Some s' -> Inv s'.
Proof.
  intros [HA HP] Em _ H. unfold npend in HP. dA HA.
  destruct (ms s) eqn:Es; inversion H; subst; clear H; unfold set_g2, set_mrp, set_procs;
    destruct (g2 s) eqn:Eg; (split; [solveA|solveP]).
Qed.

Lemma inv_force_fire s : Inv s -> force_armed s = true ->
  Inv (set_fp (set_mux s (ms s) (mq s) (mq_closed s) (under_closed s) (stopped s) false (wgc s) (stop_owner s) (written s))
              (match fp s with F_none => F_cb | p => p end)).
Proof.
  intros [HA HP] Hf. unfold npend in HP. dA HA. unfold set_fp, set_procs, set_mux.
  destruct (fp s) eqn:Ef; (split; [solveA|solveP]).
Qed.
