(* Cyclist.v — the Cyclist duplex mode (Daemen, Hoffert, Peeters, Van Assche, Van Keer: "Xoodyak, a
   lightweight cryptographic scheme", eprint 2018/767, Algorithms 2 and 3), over an arbitrary
   permutation [f] of the 200-byte state, with the rates used by hop's cyclist package and by XKCP's
   Cyclist-SHA3 instance (R_hash = R_kin = R_kout = 136 bytes, l_ratchet = 32 bytes, width 200 bytes).

   ===== API for importers (all functions take the permutation [f : bytes -> bytes] first) =====
     cy                         the duplex object {ph; md; r_abs; r_sq; st}  (st = 200 state bytes)
     cy_empty                   Cyclist.InitializeEmpty()
     cy_initialize f k id ctr   Cyclist.Initialize(k,id,ctr) : res cy   (Panic iff k<>[] and |k|+|id| >= 136)
     cy_absorb f c x            Absorb(x)                    : cy
     cy_encrypt f c p           Encrypt(out,p)               : res (bytes * cy)  (Panic in hash mode)
     cy_decrypt f c ct          Decrypt(out,ct)              : res (bytes * cy)  (Panic in hash mode)
     cy_squeeze f c n           Squeeze(y), len(y) = n       : bytes * cy
     cy_squeeze_key f c n       SqueezeKey(y)                : res (bytes * cy)  (Panic in hash mode)
     cy_ratchet f c             Ratchet()                    : res cy            (Panic in hash mode)
     keccak12                   the instance used by hop: Keccak-p[1600,12] on 200 bytes
     cy_run f c ops             interpreter for programs over the API (type [cop]) : res (list bytes * cy)
   Lengths are [nat] (they are small); bytes are [N].

   Provenance.  No copy of the paper is available offline in this sandbox; the algorithms below were
   written from the paper's Algorithms 2-3 as recalled (Down/Up/AbsorbAny/AbsorbKey/Crypt/SqueezeAny and
   the seven interface functions, with the constants 0x01/0x02/0x03 for c_D, 0x80/0x40/0x20/0x10 for
   c_U), cross-read against hop's cyclist.go (itself a port of XKCP's Cyclist.inc) and anchored to the
   published XKCP transcript in /repo/cyclist/testdata/xkcp.txt (Proofs/CyclistVectors.v).  The
   only Go-specific behaviour is where the code *panics*: wrong-mode calls and over-long key||id (the
   paper states these as preconditions).  Definitions only. *)
From Hop Require Import Base Keccak.
Open Scope N_scope.

Inductive cy_phase := PUp | PDown.
Inductive cy_mode := MHash | MKey.
Record cy := mkcy { ph : cy_phase; md : cy_mode; r_abs : nat; r_sq : nat; st : bytes }.

Definition cy_fB : nat := 200.
Definition cy_rHash : nat := 136.
Definition cy_rKin : nat := 136.
Definition cy_rKout : nat := 136.
Definition cy_lRatchet : nat := 32.

Definition cy_empty : cy := mkcy PUp MHash cy_rHash cy_rHash (repeat 0 cy_fB).

(* s xor v on the first |v| bytes of s; the result always has the length of s *)
Fixpoint xor_into (s v : bytes) : bytes :=
  match s, v with
  | [], _ => []
  | _ :: _, [] => s
  | a :: s', b :: v' => N.lxor a b :: xor_into s' v'
  end.
(* stateAddByte(b, off) *)
Definition add_byte (s : bytes) (b : N) (off : nat) : bytes := xor_into s (repeat 0 off ++ [b]).
(* i xor (first |i| bytes of ks); the result always has the length of i *)
Fixpoint xor_ks (i ks : bytes) : bytes :=
  match i with
  | [] => []
  | a :: i' => match ks with
               | [] => a :: xor_ks i' []
               | k :: ks' => N.lxor a k :: xor_ks i' ks'
               end
  end.

(* Split(X, r): blocks of r bytes, the last one possibly shorter; Split(empty) = one empty block *)
Fixpoint blocks_fuel (fuel r : nat) (x : bytes) : list bytes :=
  match fuel with
  | O => [x]
  | S k => if (List.length x <=? r)%nat then [x] else firstn r x :: blocks_fuel k r (skipn r x)
  end.
Definition cy_blocks (r : nat) (x : bytes) : list bytes := blocks_fuel (List.length x) r x.

Section Cyclist.
Variable f : bytes -> bytes.

(* Down(X, c_D):  s <- s xor (X || 0x01 || 0* || (c_D & 0x01 in hash mode, c_D in keyed mode)) *)
Definition cy_down (c : cy) (x : bytes) (cd : N) : cy :=
  let cd' := match md c with MHash => N.land cd 1 | MKey => cd end in
  mkcy PDown (md c) (r_abs c) (r_sq c)
       (add_byte (add_byte (xor_into (st c) x) 1 (List.length x)) cd' (cy_fB - 1)%nat).

(* Up(c_U):  s <- f(s xor (0* || c_U)) in keyed mode, f(s) in hash mode; the caller reads the
   first |Y| bytes of the new state *)
Definition cy_up (c : cy) (cu : N) : cy :=
  let s := match md c with MHash => st c | MKey => add_byte (st c) cu (cy_fB - 1)%nat end in
  mkcy PUp (md c) (r_abs c) (r_sq c) (f s).

(* AbsorbAny(X, r, c_D) *)
Fixpoint absorb_blocks (c : cy) (bl : list bytes) (cd : N) : cy :=
  match bl with
  | [] => c
  | b :: rest =>
      let c1 := match ph c with PUp => c | PDown => cy_up c 0 end in
      absorb_blocks (cy_down c1 b cd) rest 0
  end.
Definition absorb_any (c : cy) (x : bytes) (r : nat) (cd : N) : cy :=
  absorb_blocks c (cy_blocks r x) cd.

(* AbsorbKey(K, id, counter); the Go code builds K||id||enc8(|id|) in a 136-byte array and panics
   when it does not fit (the paper: assert |K||id| <= R_kin - 1) *)
Definition absorb_key (c : cy) (key id counter : bytes) : res cy :=
  let c0 := mkcy (ph c) MKey cy_rKin cy_rKout (st c) in
  if (cy_rKin <=? List.length key + List.length id)%nat then Panic
  else
    let c1 := absorb_any c0 (key ++ id ++ [N.of_nat (List.length id) mod 256]) (r_abs c0) 2 in
    Ok (match counter with [] => c1 | _ => absorb_any c1 counter 1 0 end).

(* Crypt(I, decrypt) *)
Fixpoint crypt_blocks (dec : bool) (c : cy) (bl : list bytes) (cu : N) : list bytes * cy :=
  match bl with
  | [] => ([], c)
  | b :: rest =>
      let c1 := cy_up c cu in
      let o := xor_ks b (st c1) in
      let p := if dec then o else b in
      let (os, c3) := crypt_blocks dec (cy_down c1 p 0) rest 0 in
      (o :: os, c3)
  end.
Definition crypt (dec : bool) (c : cy) (i : bytes) : bytes * cy :=
  let (os, c') := crypt_blocks dec c (cy_blocks cy_rKout i) 128 in (List.concat os, c').

(* SqueezeAny(l, c_U) *)
Fixpoint squeeze_more (fuel : nat) (c : cy) (n : nat) : bytes * cy :=
  match fuel with
  | O => ([], c)
  | S k =>
      match n with
      | O => ([], c)
      | _ => let c1 := cy_up (cy_down c [] 0) 0 in
             let l := Nat.min n (r_sq c) in
             let (y, c2) := squeeze_more k c1 (n - l)%nat in
             (firstn l (st c1) ++ y, c2)
      end
  end.
Definition squeeze_any (c : cy) (n : nat) (cu : N) : bytes * cy :=
  let l := Nat.min n (r_sq c) in
  let c1 := cy_up c cu in
  let (y, c2) := squeeze_more (n - l)%nat c1 (n - l)%nat in
  (firstn l (st c1) ++ y, c2).

(* ---- the interface (Algorithm 2) ---- *)
Definition cy_initialize (key id counter : bytes) : res cy :=
  match key with
  | [] => Ok cy_empty
  | _ => absorb_key cy_empty key id counter
  end.
Definition cy_absorb (c : cy) (x : bytes) : cy := absorb_any c x (r_abs c) 3.
Definition cy_encrypt (c : cy) (p : bytes) : res (bytes * cy) :=
  match md c with MKey => Ok (crypt false c p) | MHash => Panic end.
Definition cy_decrypt (c : cy) (ct : bytes) : res (bytes * cy) :=
  match md c with MKey => Ok (crypt true c ct) | MHash => Panic end.
Definition cy_squeeze (c : cy) (n : nat) : bytes * cy := squeeze_any c n 64.
Definition cy_squeeze_key (c : cy) (n : nat) : res (bytes * cy) :=
  match md c with MKey => Ok (squeeze_any c n 32) | MHash => Panic end.
Definition cy_ratchet (c : cy) : res cy :=
  match md c with
  | MKey => let (y, c1) := squeeze_any c cy_lRatchet 16 in Ok (absorb_any c1 y (r_abs c1) 0)
  | MHash => Panic
  end.

(* ---- programs over the interface ---- *)
Inductive cop :=
| CAbsorb (x : bytes)
| CEncrypt (p : bytes)
| CDecrypt (ct : bytes)
| CSqueeze (n : nat)
| CSqueezeKey (n : nat)
| CRatchet.

(* one call: the bytes it returns ([] for Absorb and Ratchet) and the new object *)
Definition cy_step (c : cy) (o : cop) : res (bytes * cy) :=
  match o with
  | CAbsorb x => Ok ([], cy_absorb c x)
  | CEncrypt p => cy_encrypt c p
  | CDecrypt ct => cy_decrypt c ct
  | CSqueeze n => Ok (cy_squeeze c n)
  | CSqueezeKey n => cy_squeeze_key c n
  | CRatchet => match cy_ratchet c with Ok c' => Ok ([], c') | Err => Err | Panic => Panic end
  end.
Fixpoint cy_run (c : cy) (ops : list cop) : res (list bytes * cy) :=
  match ops with
  | [] => Ok ([], c)
  | o :: rest =>
      match cy_step c o with
      | Ok (y, c1) => match cy_run c1 rest with
                      | Ok (ys, c2) => Ok (y :: ys, c2)
                      | Err => Err | Panic => Panic
                      end
      | Err => Err
      | Panic => Panic
      end
  end.

(* the peer's view of a program: what one side encrypts the other decrypts (and vice versa) *)
Definition mirror_op (o : cop) (out : bytes) : cop :=
  match o with CEncrypt _ => CDecrypt out | CDecrypt _ => CEncrypt out | _ => o end.
Definition mirror_out (o : cop) (out : bytes) : bytes :=
  match o with CEncrypt p => p | CDecrypt ct => ct | _ => out end.
Fixpoint mirror_ops (ops : list cop) (outs : list bytes) : list cop :=
  match ops, outs with
  | o :: ops', y :: outs' => mirror_op o y :: mirror_ops ops' outs'
  | _, _ => []
  end.
Fixpoint mirror_outs (ops : list cop) (outs : list bytes) : list bytes :=
  match ops, outs with
  | o :: ops', y :: outs' => mirror_out o y :: mirror_outs ops' outs'
  | _, _ => []
  end.

End Cyclist.

(* the instance used by hop: Keccak-p[1600, 12] *)
Definition keccak12 : bytes -> bytes := keccak_p_bytes 12.
