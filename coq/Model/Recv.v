(* Recv.v — model of the receive side of a reliable tube: tubes/receiver.go (receiver, frameInBounds,
   unwrapFrameNo, receive, processIntoBuffer, read) and tubes/priority_queue.go.
   Definitions only.  Integer widths as in the Go code: ackNo/windowStart/priority are uint64 (every +,-,*
   is written mod 2^64), the frame number on the wire is uint32.

   Abstraction (stated in docs/C08.md): the fragment heap (container/heap over PriorityQueue) is modelled
   as a list kept sorted by priority; Pop returns the head.  Which of two fragments with *equal* priority
   the real binary heap pops first is not modelled (insertion here is before the first element of
   greater-or-equal priority); the correspondence driver therefore only compares histories in which equal
   frame numbers carry equal payloads (the only ones an authenticated peer can produce), where the choice
   is unobservable. *)
From Hop Require Import Base.
Open Scope N_scope.

Definition two31 : N := 2147483648.
Definition two32 : N := 4294967296.
Definition two64 : N := 18446744073709551616.
Definition max_window_size : N := 1000.          (* common.go maxWindowSize *)

Definition u64 (x : N) : N := x mod two64.
Definition u64sub (a b : N) : N := (a + two64 - b mod two64) mod two64.   (* a - b in uint64, for a < 2^64 *)

(* a frame as the receiver sees it (frame.go: frameNo uint32, data, flags ACK / FIN; dataLength = len data,
   which is what fromBytes guarantees) *)
Record rframe := { f_no : N; f_data : bytes; f_ack : bool; f_fin : bool }.

(* pqItem *)
Record frag := { fr_prio : N; fr_data : bytes; fr_fin : bool }.

Record recv := {
  r_ack : N;                (* ackNo uint64 *)
  r_ws : N;                 (* windowStart uint64 *)
  r_frags : list frag;      (* fragments, sorted by priority *)
  r_closed : bool;
  r_buf : bytes             (* bytes.Buffer: assembled, not yet read *)
}.

(* newReceiver: ackNo = 0, windowStart = 1 *)
Definition recv_new : recv := {| r_ack := 0; r_ws := 1; r_frags := []; r_closed := false; r_buf := [] |}.
(* Reliable.receiveInitiatePkt in state created: recvWindow.ackNo = 1 (always runs before any data frame is
   accepted: Reliable.receive refuses frames in state created) *)
Definition recv_initiated (r : recv) : recv :=
  {| r_ack := 1; r_ws := r_ws r; r_frags := r_frags r; r_closed := r_closed r; r_buf := r_buf r |}.
Definition recv_init : recv := recv_initiated recv_new.

(* heap.Push *)
Fixpoint pq_push (x : frag) (l : list frag) : list frag :=
  match l with
  | [] => [x]
  | y :: r => if fr_prio x <=? fr_prio y then x :: l else y :: pq_push x r
  end.

(* frameInBounds(wS, wE, f) *)
Definition frame_in_bounds (ws we f : N) : bool :=
  if ws <? we then negb ((we <? f) || (f <? ws))
  else negb ((we <? f) && (f <? ws)).

(* unwrapFrameNo: closest to ackNo among the two candidates *)
Definition unwrap_frame_no (ack f32 : N) : N :=
  let mult := two32 in
  let '(lower, upper) :=
    if ack =? 0 then (f32, u64 (mult + f32))
    else if ack mod mult <? two31 then
      (u64 (u64 (u64sub (ack / mult) 1 * mult) + f32), u64 (u64 ((ack / mult) * mult) + f32))
    else
      (u64 (u64 ((ack / mult) * mult) + f32), u64 (u64 (u64 (ack / mult + 1) * mult) + f32)) in
  let lower_diff := if lower <? ack then ack - lower else lower - ack in
  let upper_diff := if upper <? ack then ack - upper else upper - ack in
  if upper_diff <? lower_diff then upper else lower.

(* processIntoBuffer: the loop pops the minimum; a fragment below windowStart is discarded, one above it
   is pushed back and ends the loop, one equal to it is appended to the buffer.  Structural in the sorted
   fragment list (each iteration pops one element).  Returns the new state and the `fin` result. *)
Fixpoint process_frags (frags : list frag) (ack ws : N) (closed : bool) (buf : bytes) (fin : bool)
  : recv * bool :=
  match frags with
  | [] => ({| r_ack := ack; r_ws := ws; r_frags := []; r_closed := closed; r_buf := buf |}, fin)
  | f :: rest =>
      if negb (ws =? fr_prio f) then
        if ws <? fr_prio f then
          ({| r_ack := ack; r_ws := ws; r_frags := pq_push f rest; r_closed := closed; r_buf := buf |}, fin)
        else process_frags rest ack ws closed buf fin
      else
        process_frags rest (u64 (ack + 1)) (u64 (ws + 1)) (closed || fr_fin f) (buf ++ fr_data f)
                      (fin || fr_fin f)
  end.
Definition process_into_buffer (r : recv) : recv * bool :=
  process_frags (r_frags r) (r_ack r) (r_ws r) (r_closed r) (r_buf r) false.

(* result of receive: (fin, error) ; errors: 0 = nil, 1 = io.EOF (receiver closed), 2 = errFrameOutOfBounds *)
Definition receive (r : recv) (p : rframe) : recv * bool * N :=
  if r_closed r then (r, false, 1)
  else
    let ws := r_ws r in
    let we := u64 (r_ws r + max_window_size) in
    let fno := unwrap_frame_no (r_ack r) (f_no p) in
    let has_data := (0 <? len (f_data p)) && negb (f_ack p) in
    if (has_data || f_fin p) && frame_in_bounds ws we fno then
      let r1 := {| r_ack := r_ack r; r_ws := r_ws r;
                   r_frags := pq_push {| fr_prio := fno; fr_data := f_data p; fr_fin := f_fin p |} (r_frags r);
                   r_closed := r_closed r; r_buf := r_buf r |} in
      let '(r2, fin) := process_into_buffer r1 in (r2, fin, 0)
    else if has_data then (r, false, 2)
    else let '(r2, fin) := process_into_buffer r in (r2, fin, 0).

(* receiver.read with a buffer of n bytes.  None = the call would block (nothing buffered, not closed).
   Otherwise (state, bytes returned, io.EOF?) *)
Definition read (r : recv) (n : N) : option (recv * bytes * bool) :=
  if (len (r_buf r) =? 0) && negb (r_closed r) then None
  else
    let out := take n (r_buf r) in
    let rest := drop n (r_buf r) in
    Some ({| r_ack := r_ack r; r_ws := r_ws r; r_frags := r_frags r; r_closed := r_closed r; r_buf := rest |},
          out, r_closed r && (len rest =? 0)).

(* receiver.Close (called from the tube's closed transition) *)
Definition recv_close (r : recv) : recv :=
  {| r_ack := r_ack r; r_ws := r_ws r; r_frags := r_frags r; r_closed := true; r_buf := r_buf r |}.

(* ------------------------------------------------------------------ histories *)
Inductive rop := RRecv (p : rframe) | RRead (n : N) | RClose.

(* observation of one operation, as the driver records it:
   RRecv: (0, [fin; err; ack; ws; #frags; closed; buffered]) , RRead: (1, [blocked; eof] ++ data) ... kept as
   a flat list of N for cheap comparison *)
Definition b2n (b : bool) : N := if b then 1 else 0.
Definition obs_state (r : recv) : list N :=
  [r_ack r; r_ws r; len (map fr_prio (r_frags r)); b2n (r_closed r); len (r_buf r)].
Definition rstep (r : recv) (o : rop) : recv * list N :=
  match o with
  | RRecv p => let '(r', fin, e) := receive r p in (r', [b2n fin; e] ++ obs_state r')
  | RRead n => match read r n with
               | None => (r, [2])
               | Some (r', out, eof) => (r', [b2n eof] ++ out)
               end
  | RClose => (recv_close r, [])
  end.
Fixpoint rrun (r : recv) (ops : list rop) : recv * list (list N) :=
  match ops with
  | [] => (r, [])
  | o :: rest => let '(r1, ob) := rstep r o in let '(r2, obs) := rrun r1 rest in (r2, ob :: obs)
  end.

(* ------------------------------------------------------------------ specification side *)
(* The stream is written as chunks (one per data frame, frame numbers 1..n, FIN is frame n+1).  What can
   arrive at the receiver is any sequence of: a data frame of the stream, the FIN, or a frame the receiver
   must ignore (no data and no FIN: acknowledgements / keep-alives, with any frame number; or a frame
   carrying the ACK flag, with any data). *)
Inductive arrival :=
| AData (i : N)                       (* frame i of the stream, 1 <= i <= n, as (i mod 2^32, chunks[i-1]) *)
| AFin                                (* (n+1 mod 2^32, empty, FIN) *)
| AEmpty (f32 : N)                    (* dataLength 0, no FIN: pure acknowledgement, any frame number *)
| AAckData (f32 : N) (d : bytes).     (* ACK flag set: ignored by the reassembly whatever it carries *)

Definition nth_chunk (chunks : list bytes) (i : N) : bytes := nth (N.to_nat (i - 1)) chunks [].
Definition nchunks (chunks : list bytes) : N := N.of_nat (List.length chunks).

Definition frame_of (chunks : list bytes) (a : arrival) : rframe :=
  match a with
  | AData i => {| f_no := i mod two32; f_data := nth_chunk chunks i; f_ack := false; f_fin := false |}
  | AFin => {| f_no := (nchunks chunks + 1) mod two32; f_data := []; f_ack := true; f_fin := true |}
  | AEmpty f => {| f_no := f; f_data := []; f_ack := true; f_fin := false |}
  | AAckData f d => {| f_no := f; f_data := d; f_ack := true; f_fin := false |}
  end.

(* stream index of an arrival, if it is a stream frame *)
Definition arrival_index (chunks : list bytes) (a : arrival) : option N :=
  match a with AData i => Some i | AFin => Some (nchunks chunks + 1) | _ => None end.

(* the 32-bit frame number can be unwrapped correctly only when the true number is within 2^31 of the
   receiver's current ackNo: a frame is not delayed past 2^31 later frames *)
Definition near (ack i : N) : Prop := i < ack + two31 /\ ack < i + two31.

(* events of a receive-side history: arrivals interleaved with reads *)
Inductive revent := EArr (a : arrival) | ERead (n : N).
Definition rop_of (chunks : list bytes) (e : revent) : rop :=
  match e with EArr a => RRecv (frame_of chunks a) | ERead n => RRead n end.

(* running a history, collecting what the reader was handed and whether it was told EOF *)
Fixpoint deliver (r : recv) (chunks : list bytes) (evs : list revent) (out : bytes) (eof : bool)
  : recv * bytes * bool :=
  match evs with
  | [] => (r, out, eof)
  | EArr a :: rest => let '(r', _, _) := receive r (frame_of chunks a) in deliver r' chunks rest out eof
  | ERead n :: rest =>
      match read r n with
      | None => deliver r chunks rest out eof
      | Some (r', o, e) => deliver r' chunks rest (out ++ o) (eof || e)
      end
  end.

(* validity of a history: every stream frame that arrives is a frame of the stream and is `near` the
   receiver's ackNo at the moment it arrives *)
Definition arrival_wf (chunks : list bytes) (ack : N) (a : arrival) : Prop :=
  match a with
  | AData i => 1 <= i /\ i <= nchunks chunks /\ near ack i
  | AFin => near ack (nchunks chunks + 1)
  | _ => True
  end.

Fixpoint history_ok (r : recv) (chunks : list bytes) (evs : list revent) : Prop :=
  match evs with
  | [] => True
  | EArr a :: rest =>
      arrival_wf chunks (r_ack r) a /\ history_ok (fst (fst (receive r (frame_of chunks a)))) chunks rest
  | ERead n :: rest =>
      match read r n with
      | None => history_ok r chunks rest
      | Some (r', _, _) => history_ok r' chunks rest
      end
  end.

(* stream frame i arrives, at some point of the history, while it is not beyond the receive window
   (window = [windowStart, windowStart + maxWindowSize]; at or below windowStart is fine: already consumed) *)
Fixpoint arrives_in_window (r : recv) (chunks : list bytes) (evs : list revent) (i : N) : Prop :=
  match evs with
  | [] => False
  | EArr a :: rest =>
      (arrival_index chunks a = Some i /\ i <= r_ws r + max_window_size) \/
      arrives_in_window (fst (fst (receive r (frame_of chunks a)))) chunks rest i
  | ERead k :: rest =>
      match read r k with
      | None => arrives_in_window r chunks rest i
      | Some (r', _, _) => arrives_in_window r' chunks rest i
      end
  end.

(* number of in-order frames consumed so far *)
Definition consumed (r : recv) : nat := N.to_nat (r_ws r - 1).
