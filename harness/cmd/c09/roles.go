package main

// Which end of a session picks which tube identifiers.
//
// Tube identifiers index ONE space shared by the two ends of a session (a frame carries only (REL, id)), so
// "concurrently created tubes get distinct identifiers" needs the two muxers of a session to pick from disjoint
// sets: tubes.Client picks odd ids, tubes.Server even ids.  Which constructor runs is decided by the
// application code (hopclient.connectLocked, hopserver.newSession), outside package tubes.
//
//  (1) app-session-roles / app-session-concurrent-create: a REAL hopserver.HopServer and a REAL
//      hopclient.HopClient over UDP on localhost (the way hoptests builds them): after Dial the parities of the two
//      muxers of the session are read (overlay) and must differ; then goroutines create tubes from both ends of
//      that session at once, the server's tubes carry tube-specific data to the client and back; oracle:
//      simultaneously live tubes created at the two ends never share (REL, id), every tube the server end
//      created is offered to the client's Accept exactly once with its type and carries exactly its own bytes,
//      and a tube the client created (of a type the server's dispatch loop closes without writing) never
//      delivers a byte to its reader.
//  (2) net-roles-as-app-chose: the same two-ended test on a pair of bare muxers over the in-memory link, built
//      with the constructors the application was OBSERVED to use in (1).
//  (3) pair-same-role-witness: replay of the Coq witness c09_same_role_ids_collide_refuted on two real
//      muxers: both ends tubes.Server, each creates one reliable tube: same id, neither is offered to
//      Accept, and the bytes written on one are read from the other.  This is the behaviour of package tubes
//      when the application gives both ends the same role (what hopclient did before its repair); the case
//      is compared with the model and documents the mechanism, it is not a verdict on package tubes.

import (
	"bytes"
	"fmt"
	"net"
	"os"
	"path"
	"sort"
	"strconv"
	"sync"
	"testing/fstest"
	"time"

	"github.com/sirupsen/logrus"

	"hop.computer/hop/certs"
	"hop.computer/hop/common"
	"hop.computer/hop/config"
	"hop.computer/hop/core"
	"hop.computer/hop/hopclient"
	"hop.computer/hop/hopserver"
	"hop.computer/hop/keys"
	"hop.computer/hop/pkg/thunks"
	"hop.computer/hop/transport"
	"hop.computer/hop/tubes"
	"verifharness/hv"
	hx "verifharness/hvxtubes"
)

type appSession struct {
	srv    *hopserver.HopServer
	cli    *hopclient.HopClient
	cm, sm *tubes.Muxer
}

func (s *appSession) stop() {
	done := make(chan struct{})
	go func() {
		defer close(done)
		defer func() { recover() }()
		if s.cli != nil {
			s.cli.Close()
		}
		if s.srv != nil {
			s.srv.Close()
		}
	}()
	select {
	case <-done:
	case <-time.After(5 * time.Second):
	}
}

// newAppSession starts a hop server on a fresh UDP port of localhost and connects a hop client to it with
// the public API only (NewHopServerExt / Serve, NewHopClient / DialExternalAuthenticator), following
// hoptests.NewTestServer / NewTestClient.
func newAppSession(n int) (*appSession, error) {
	thunks.SetUpTest()
	udp, err := net.ListenUDP("udp", &net.UDPAddr{IP: net.IPv4(127, 0, 0, 1)})
	if err != nil {
		return nil, err
	}
	leafKP := keys.GenerateNewX25519KeyPair()
	interKP := keys.GenerateNewSigningKeyPair()
	rootKP := keys.GenerateNewSigningKeyPair()
	root, err := certs.SelfSignRoot(certs.SigningIdentity(rootKP), rootKP)
	if err != nil {
		return nil, err
	}
	root.ProvideKey((*[32]byte)(&rootKP.Private))
	inter, err := certs.IssueIntermediate(root, certs.SigningIdentity(interKP))
	if err != nil {
		return nil, err
	}
	inter.ProvideKey((*[32]byte)(&interKP.Private))
	serverName := "example.local"
	leaf, err := certs.IssueLeaf(inter, certs.LeafIdentity(leafKP, certs.DNSName(serverName)))
	if err != nil {
		return nil, err
	}
	store := certs.Store{}
	store.AddCertificate(root)

	ts, err := transport.NewServer(udp, transport.ServerConfig{
		Certificate: leaf, Intermediate: inter, KeyPair: leafKP, HandshakeTimeout: 5 * time.Second,
	})
	if err != nil {
		return nil, err
	}
	sock := fmt.Sprintf("@hop_agproxy_c09_%d_%d", os.Getpid(), n)
	sc := &config.ServerConfig{AgProxyListenSocket: &sock}
	sc.DataTimeout = 1000 * time.Second
	srv, err := hopserver.NewHopServerExt(ts, sc, nil)
	if err != nil {
		return nil, err
	}
	username := "c09user"
	clientKP := keys.GenerateNewX25519KeyPair()
	sfs := fstest.MapFS{
		"home/" + username + "/.hop/authorized_keys": &fstest.MapFile{Data: []byte(clientKP.Public.String()), Mode: 0600},
	}
	srv.SetFSystem(sfs)
	go srv.Serve()

	h, p, _ := net.SplitHostPort(udp.LocalAddr().String())
	port, _ := strconv.Atoi(p)
	keyPath := path.Join("home", username, "/.hop/id_hop.pem")
	truth := true
	dataTimeout := "5s"
	hc := config.HostConfigOptional{
		Hostname: &h, Port: port, User: &username, AutoSelfSign: &truth, Key: &keyPath, ServerName: &serverName,
		DataTimeout: &dataTimeout, Input: os.Stdin,
	}
	cli, err := hopclient.NewHopClient(hc.Unwrap())
	if err != nil {
		return &appSession{srv: srv}, err
	}
	cli.Fsystem = fstest.MapFS{}
	cleaf, err := certs.SelfSignLeaf(&certs.Identity{PublicKey: clientKP.Public})
	if err != nil {
		return &appSession{srv: srv, cli: cli}, err
	}
	auth := core.InMemoryAuthenticator{X25519KeyPair: clientKP, Leaf: cleaf, VerifyConfig: transport.VerifyConfig{Store: store}}
	s := &appSession{srv: srv, cli: cli}
	if err := cli.DialExternalAuthenticator(udp.LocalAddr().String(), auth); err != nil {
		return s, err
	}
	s.cm = cli.TubeMuxer
	for i := 0; i < 2000; i++ {
		if ms := srv.VerifC09SessionMuxers(); len(ms) == 1 {
			s.sm = ms[0]
			break
		}
		time.Sleep(time.Millisecond)
	}
	if s.cm == nil || s.sm == nil {
		return s, fmt.Errorf("session muxers not found after Dial")
	}
	return s, nil
}

// twoEnded runs the concurrent two-ended creation test on the muxers cm (the client end of the session) and
// sm (the server end).  acceptAtServer: the driver also serves the server end's Accept (bare muxers); with a real
// hop session the server's own dispatch loop owns Accept and closes tubes of unknown type.
// allCreated (may be nil) runs once every creator's Create call has returned: the bare-muxer variant holds all
// datagrams until then, so that every tube is created before either end has heard of the other's tubes.
func twoEnded(cm, sm *tubes.Muxer, seed uint64, nEach int, acceptAtServer bool, allCreated func()) (nCreated int, fails, sigs []string) {
	mux := []*tubes.Muxer{cm, sm}
	var mu sync.Mutex
	fail := func(sig, w string) {
		mu.Lock()
		fails = append(fails, w)
		sigs = append(sigs, sig)
		mu.Unlock()
	}
	type tb struct {
		side  int
		rel   bool
		id    byte
		ty    byte
		data  []byte
		reply []byte
	}
	reg := map[string]*tb{}
	accepted := map[string]int{}
	live := map[string]int{} // (rel,id) -> creating side+1, over BOTH ends: one identifier space per session
	key := func(side int, rel bool, id byte) string { return fmt.Sprintf("%d/%v/%d", side, rel, id) }
	deadline := time.Now().Add(20 * time.Second)
	var wg sync.WaitGroup
	stop := make(chan struct{})

	acceptLoop := func(side int) {
		for {
			t, err := mux[side].Accept()
			if err != nil {
				return
			}
			select {
			case <-stop:
				return
			default:
			}
			creator := 1 - side
			k := key(creator, t.IsReliable(), t.GetID())
			mu.Lock()
			accepted[k]++
			cnt := accepted[k]
			mu.Unlock()
			if cnt > 1 {
				fail("C09:tube-offered-twice-or-unrequested", fmt.Sprintf("tube %s was offered to Accept %d times", k, cnt))
				continue
			}
			wg.Add(1)
			go func() {
				defer wg.Done()
				var c *tb
				for i := 0; c == nil && i < 3000; i++ {
					mu.Lock()
					c = reg[k]
					mu.Unlock()
					if c == nil {
						time.Sleep(time.Millisecond)
					}
				}
				if c == nil {
					fail("C09:tube-offered-twice-or-unrequested", fmt.Sprintf("Accept at end %d returned tube %s that the other end never created", side, k))
					return
				}
				if byte(t.Type()) != c.ty {
					fail("C09:accepted-tube-differs-from-request", fmt.Sprintf("tube %s accepted with type %d, created with type %d", k, t.Type(), c.ty))
				}
				if rt, ok := t.(*tubes.Reliable); ok {
					got := readStream(rt, len(c.data), deadline)
					if !bytes.Equal(got, c.data) {
						fail("C09:tube-reader-got-foreign-or-wrong-bytes", fmt.Sprintf("acceptor of %s read %d bytes starting % x, the creator wrote %d bytes starting % x", k, len(got), trunc(got), len(c.data), trunc(c.data)))
					}
					rt.Write(c.reply)
				}
			}()
		}
	}
	go acceptLoop(0)
	if acceptAtServer {
		go acceptLoop(1)
	}
	var createdWG sync.WaitGroup
	createdWG.Add(2 * nEach)
	go func() {
		createdWG.Wait()
		if allCreated != nil {
			allCreated()
		}
	}()

	for side := 0; side < 2; side++ {
		for g := 0; g < nEach; g++ {
			wg.Add(1)
			go func(side, g int) {
				defer wg.Done()
				rr := hv.NewRand(seed*1000 + uint64(side*100+g))
				ty := byte(0x90 + rr.Intn(0x60)) // no hop tube type: the server's dispatch loop closes these
				t, err := mux[side].CreateReliableTube(tubes.TubeType(ty))
				createdWG.Done()
				if err != nil {
					fail("C09:create-fails-with-free-ids", fmt.Sprintf("end %d: CreateReliableTube failed: %v", side, err))
					return
				}
				id := t.GetID()
				k := key(side, true, id)
				lk := fmt.Sprintf("%v/%d", true, id)
				mu.Lock()
				if o := live[lk]; o != 0 {
					sig := "C09:created-id-clashes-with-live-tube"
					if o-1 != side {
						sig = "C09:both-ends-of-a-session-created-the-same-tube-id"
					}
					fails = append(fails, fmt.Sprintf("reliable tube id %d created at end %d while the tube with that id created at end %d is live (0 = client end, 1 = server end)", id, side, o-1))
					sigs = append(sigs, sig)
				}
				live[lk] = side + 1
				c := &tb{side: side, rel: true, id: id, ty: ty}
				c.data = tubeData(side, true, id, ty, 200+rr.Intn(6000))
				c.reply = tubeData(side+2, true, id, ty, 100+rr.Intn(2000))
				reg[k] = c
				mu.Unlock()
				t.Write(c.data)
				if side == 1 || acceptAtServer {
					got := readStream(t, len(c.reply), deadline)
					if !bytes.Equal(got, c.reply) {
						fail("C09:tube-reader-got-foreign-or-wrong-bytes", fmt.Sprintf("creator of %s read %d reply bytes starting % x, the acceptor wrote %d bytes starting % x", k, len(got), trunc(got), len(c.reply), trunc(c.reply)))
					}
				} else {
					// the real server closes a tube of this type without writing: nothing may ever be read from it
					got := readStream(t, 1, time.Now().Add(1500*time.Millisecond))
					if len(got) != 0 {
						fail("C09:tube-reader-got-foreign-or-wrong-bytes", fmt.Sprintf("creator of %s (a tube the server end closes without writing) read %d bytes starting % x", k, len(got), trunc(got)))
					}
				}
			}(side, g)
		}
	}
	done := make(chan struct{})
	go func() { wg.Wait(); close(done) }()
	select {
	case <-done:
	case <-time.After(time.Until(deadline) + 5*time.Second):
		fail("C09:concurrent-run-did-not-finish", "two-ended tube creation / transfer did not finish in time")
	}
	time.Sleep(30 * time.Millisecond)
	mu.Lock()
	var keys []string
	for k := range reg {
		keys = append(keys, k)
	}
	sort.Strings(keys)
	for _, k := range keys {
		if (reg[k].side == 1 || acceptAtServer) && accepted[k] != 1 {
			fails = append(fails, fmt.Sprintf("tube %s was created by its opener but offered to the peer's Accept %d times", k, accepted[k]))
			sigs = append(sigs, "C09:remote-tube-not-offered")
		}
	}
	nCreated = len(reg)
	mu.Unlock()
	close(stop)
	return
}

func roleName(p byte) string {
	if p == 0 {
		return "tubes.Server (even ids)"
	}
	return "tubes.Client (odd ids)"
}

// runAppRoles: the real hop session.  Returns the parities observed (client end, server end).
func runAppRoles(n int, seed uint64, nEach int) (pc, ps byte, ok bool) {
	logrus.SetLevel(logrus.PanicLevel)
	s, err := newAppSession(n)
	if s != nil {
		defer s.stop()
	}
	if err != nil {
		safeEmit(hv.Case{Class: "app-session-roles", Desc: fmt.Sprintf("app session #%d: real hopserver + hopclient over UDP on localhost", n),
			Spec: false, Sig: "C09:app-session-could-not-be-established", What: "hopclient could not connect to hopserver: " + err.Error(), NT: true})
		return 0, 0, false
	}
	pc, ps = tubes.VerifC09Parity(s.cm), tubes.VerifC09Parity(s.sm)
	spec := pc != ps
	what := ""
	if !spec {
		what = fmt.Sprintf("after hopclient.DialExternalAuthenticator the client end of the session runs %s and hopserver's session runs %s: both ends hand out tube identifiers from the same set, so a tube opened by the client and one opened by the server at about the same time get the same id", roleName(pc), roleName(ps))
	}
	safeEmit(hv.Case{Fn: "c09roles_ok", Coq: hv.Tuple(hv.N(uint64(pc)), hv.N(uint64(ps))),
		Class: "app-session-roles", Desc: fmt.Sprintf("app session #%d: hopserver.NewHopServerExt+Serve, hopclient.NewHopClient+DialExternalAuthenticator over UDP on localhost; idParity of HopClient.TubeMuxer = %d, of the server session's tubeMuxer = %d", n, pc, ps),
		Spec: spec, Sig: "C09:both-ends-of-a-session-pick-from-the-same-id-set", What: what, NT: true,
		Replay: map[string]interface{}{"scenario": "start hopserver, hopclient.Dial, read Muxer.idParity at both ends", "client_parity": pc, "server_parity": ps}})

	nc, fails, sigs := twoEnded(s.cm, s.sm, seed, nEach, false, nil)
	sig, w := "", ""
	if len(fails) > 0 {
		sig, w = sigs[0], fails[0]
	}
	safeEmit(hv.Case{Class: "app-session-concurrent-create", Desc: fmt.Sprintf("app session #%d seed=%d: %d goroutines at each end of one real hopclient<->hopserver session call CreateReliableTube at once (%d tubes); server-created tubes carry data to the client's Accept and back, client-created tubes (types 0x90..0xef) are closed by the server's dispatch loop", n, seed, nEach, nc),
		Spec: len(fails) == 0, Sig: sig, What: w, NT: true,
		Replay: map[string]interface{}{"scenario": "two-ended concurrent create on a real session", "seed": seed, "creators_per_end": nEach, "failures": fails}})
	return pc, ps, true
}

// runPairRoles: bare muxers with the constructors the application chose.
func runPairRoles(pc, ps byte, seed uint64, nEach int) {
	a, b := hx.NewPair()
	mk := func(p byte, c *hx.Conn) *tubes.Muxer {
		if p == 0 {
			return tubes.Server(c, &tubes.Config{Log: quietLog()})
		}
		return tubes.Client(c, &tubes.Config{Log: quietLog()})
	}
	hold := func(n int, t time.Duration, p []byte) hx.Fate { return hx.Fate{Hold: true} }
	a.Out().SetPolicy(hold)
	b.Out().SetPolicy(hold)
	cm, sm := mk(pc, a), mk(ps, b)
	defer func() { go cm.Stop(); go sm.Stop() }()
	nc, fails, sigs := twoEnded(cm, sm, seed, nEach, true, func() {
		a.Out().SetPolicy(nil)
		b.Out().SetPolicy(nil)
		a.Out().Release()
		b.Out().Release()
	})
	sig, w := "", ""
	if len(fails) > 0 {
		sig, w = sigs[0], fails[0]
	}
	safeEmit(hv.Case{Class: "net-roles-as-app-chose", Desc: fmt.Sprintf("pair of muxers built as the application builds them (client end parity %d, server end parity %d) seed=%d: %d creators per end, all datagrams held until every Create has returned, %d tubes", pc, ps, seed, nEach, nc),
		Spec: len(fails) == 0, Sig: sig, What: w, NT: true,
		Replay: map[string]interface{}{"client_parity": pc, "server_parity": ps, "seed": seed, "creators_per_end": nEach, "failures": fails}})
}

// runSameRoleWitness: c09_same_role_ids_collide_refuted / c09_same_role_tubes_cross_refuted on real muxers.
func runSameRoleWitness() {
	a, b := hx.NewPair()
	// hold everything until both ends have created their tube: "at about the same time"
	hold := func(n int, t time.Duration, p []byte) hx.Fate { return hx.Fate{Hold: true} }
	a.Out().SetPolicy(hold)
	b.Out().SetPolicy(hold)
	m0 := tubes.Server(a, &tubes.Config{Log: quietLog()})
	m1 := tubes.Server(b, &tubes.Config{Log: quietLog()})
	defer func() { go m0.Stop(); go m1.Stop() }()
	t0, e0 := m0.CreateReliableTube(7)
	t1, e1 := m1.CreateReliableTube(9)
	if e0 != nil || e1 != nil {
		safeEmit(hv.Case{Class: "pair-same-role-witness", Desc: "both ends tubes.Server: create failed", Spec: true, NT: false})
		return
	}
	id0, id1 := t0.GetID(), t1.GetID()
	a.Out().SetPolicy(nil)
	b.Out().SetPolicy(nil)
	a.Out().Release()
	b.Out().Release()
	t0.Write([]byte("written-on-the-tube-of-end-0"))
	t1.Write([]byte("written-on-the-tube-of-end-1"))
	got0 := readStream(t0, 28, time.Now().Add(3*time.Second))
	got1 := readStream(t1, 28, time.Now().Add(3*time.Second))
	_, q0 := tubes.VerifMuxTryAccept(m0)
	_, q1 := tubes.VerifMuxTryAccept(m1)
	crossed := bytes.Equal(got0, []byte("written-on-the-tube-of-end-1")) && bytes.Equal(got1, []byte("written-on-the-tube-of-end-0"))
	// model: ids of both ends, whether each end offered the other's tube, whether the frames crossed
	safeEmit(hv.Case{Fn: "c09samerole_ok", Coq: hv.Tuple(hv.N(uint64(id0)), hv.N(uint64(id1)), hx.B2N(q0), hx.B2N(q1), hx.B2N(crossed)),
		Class: "pair-same-role-witness", Desc: fmt.Sprintf("both ends tubes.Server, one CreateReliableTube each (types 7, 9) before any datagram is delivered: ids %d and %d, offered to Accept: %v/%v, bytes of one tube read from the other: %v", id0, id1, q0, q1, crossed),
		Spec: true, NT: true})
}

func genRoles(r *hv.Rand) {
	var wg sync.WaitGroup
	wg.Add(1)
	go func() { defer wg.Done(); runSameRoleWitness() }()
	nSess := hv.Scale(2, 5)
	for i := 0; i < nSess; i++ {
		seed := r.U64() % 100000
		nEach := hv.Pick(r, []int{3, 8, 16})
		if i == 0 {
			nEach = 8
		}
		pc, ps, ok := runAppRoles(i, seed, nEach) // sessions one after the other: thunks / logrus are process-wide
		if ok {
			wg.Add(1)
			go func() { defer wg.Done(); runPairRoles(pc, ps, seed, nEach) }()
		}
	}
	wg.Wait()
}

var _ = common.ExecTube
