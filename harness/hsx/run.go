package hsx

import (
	"fmt"
	"net"
	"time"

	"hop.computer/hop/certs"
	"hop.computer/hop/hopserver"
	"hop.computer/hop/transport"
)

// Srv is a real transport.Server stepped synchronously by the driver.
type Srv struct {
	S       *transport.Server
	Conn    *SrvConn
	Addr    *net.UDPAddr
	raw, hw []byte
	Panics  []string // panics observed inside readPacket (attributed to the datagram that caused them)
}

func NewSrv(cfg transport.ServerConfig) *Srv {
	addr := Addr("10.9.9.9", 77)
	conn := &SrvConn{Local: addr}
	if cfg.HandshakeTimeout == 0 {
		cfg.HandshakeTimeout = time.Hour
	}
	s, err := transport.NewServer(conn, cfg)
	if err != nil {
		panic(err)
	}
	s.VerifHsSetServing()
	return &Srv{S: s, Conn: conn, Addr: addr, raw: make([]byte, 65535), hw: make([]byte, 65535)}
}

// NewSrvFrom wraps a transport.Server built elsewhere (hopserver.NewHopServer): its socket is
// replaced by the driver's connection and it is stepped like the others.
func NewSrvFrom(s *transport.Server) *Srv {
	addr := Addr("10.9.9.9", 77)
	conn := &SrvConn{Local: addr}
	s.VerifHsSetConn(conn)
	s.VerifHsSetServing()
	return &Srv{S: s, Conn: conn, Addr: addr, raw: make([]byte, 65535), hw: make([]byte, 65535)}
}

// SingleConfig: the server configuration for one identity (the code builds GetCertificate itself).
func SingleConfig(id *Ident, cv *transport.VerifyConfig, hidden bool) transport.ServerConfig {
	return transport.ServerConfig{KeyPair: id.Key, KEMKeyPair: id.KEM, Certificate: id.Leaf, Intermediate: id.Inter,
		ClientVerify: cv, IsHidden: hidden}
}

// VHostConfig: several certificates selected by server name through the real
// hopserver.VirtualHosts.Match (glob patterns), as hopserver.NewHopServer wires it.
func VHostConfig(patterns []string, ids []*Ident, hiddenNames []string, cv *transport.VerifyConfig) transport.ServerConfig {
	var vh hopserver.VirtualHosts
	for i, id := range ids {
		tc := must(transport.MakeCert(id.Key, id.Leaf, id.Inter, id.KEM))
		vh = append(vh, hopserver.VirtualHost{Pattern: patterns[i], Certificate: *tc})
	}
	getCert := func(info transport.ClientHandshakeInfo) (*transport.Certificate, error) {
		if h := vh.Match(string(info.ServerName.Label)); h != nil {
			return &h.Certificate, nil
		}
		return nil, fmt.Errorf("%v did not match a host block", info.ServerName)
	}
	getList := func() ([]*transport.Certificate, error) {
		var out []*transport.Certificate
		for _, n := range hiddenNames {
			if h := vh.Match(n); h != nil {
				if len(h.Certificate.HostNames) == 0 {
					h.Certificate.HostNames = append(h.Certificate.HostNames, n)
				}
				out = append(out, &h.Certificate)
			}
		}
		if len(out) == 0 {
			return nil, fmt.Errorf("no certificate found on the server")
		}
		return out, nil
	}
	return transport.ServerConfig{GetCertificate: getCert, GetCertList: getList, ClientVerify: cv,
		HiddenModeVHostNames: hiddenNames, IsHidden: len(hiddenNames) > 0}
}

// Deliver hands one datagram to the server exactly as the Serve loop would and returns what
// the server sent in response. A panic inside readPacket is an observation.
func (s *Srv) Deliver(from *net.UDPAddr, d []byte) (out []Dgram, panicked bool, err error) {
	s.Conn.Push(Dgram{from, d})
	func() {
		defer func() {
			if r := recover(); r != nil {
				panicked = true
				s.Panics = append(s.Panics, fmt.Sprint(r))
			}
		}()
		err = s.S.VerifHsStep(s.raw, s.hw)
	}()
	return s.Conn.TakeSent(), panicked, err
}

// Accept returns a published handle if there is one (never blocks).
func (s *Srv) Accept() *transport.Handle {
	_, _, p := s.S.VerifHsTables()
	if p == 0 {
		return nil
	}
	h, err := s.S.AcceptTimeout(time.Second)
	if err != nil {
		return nil
	}
	return h
}

const (
	C2S = 0
	S2C = 1
)

// Tamper decides what is delivered in place of the idx-th datagram of a direction.
type Tamper func(dir, idx int, d []byte) [][]byte

type Flight struct {
	Dir       int
	Idx       int
	Orig      []byte
	Delivered [][]byte
}

type Run struct {
	Cli       *transport.Client
	Conn      *CliConn
	Err       error // result of Client.Handshake
	Flights   []Flight
	SrvPanic  bool
	CliPanic  bool
	SrvErrs   []error
	Handle    *transport.Handle // what Accept returned after the run (nil if nothing was published)
	nC2S, nS2C int
}

// RunHandshake runs a real Client.Handshake against srv, every datagram passing through tamper.
// The client is closed by the pump as soon as it waits for a datagram that will never come.
func RunHandshake(srv *Srv, ccfg transport.ClientConfig, caddr *net.UDPAddr, tamper Tamper) *Run {
	for srv.Accept() != nil { // handles published by earlier handshakes on this server
	}
	cc := NewCliConn(caddr, srv.Addr)
	cli := transport.NewClient(cc, srv.Addr, ccfg)
	r := &Run{Cli: cli, Conn: cc}
	done := make(chan error, 1)
	go func() {
		defer func() {
			if p := recover(); p != nil {
				r.CliPanic = true
				done <- fmt.Errorf("client panicked: %v", p)
			}
		}()
		done <- cli.Handshake()
	}()
	// Client.Handshake reads exactly two datagrams (ServerHello, ServerAuth), one in hidden
	// mode; later reads belong to the receive loop of the established connection.
	hsReads := 2
	if ccfg.ServerKEMKey != nil {
		hsReads = 1
	}
	finished := false
	waitV := -1
	for !finished {
		select {
		case err := <-done:
			r.Err = err
			finished = true
		case d := <-cc.Out:
			r.pumpC2S(srv, d, tamper)
		case v := <-cc.Waiting:
			if v.Read <= hsReads {
				waitV = v.Consumed
			} else {
				waitV = -1
			}
		}
		// The handshake began to block after consuming waitV datagrams, and its writes precede
		// that read. If everything pushed so far had been consumed and nothing is left to
		// deliver, no datagram will ever arrive: the handshake cannot progress.
		if !finished && waitV == cc.Pushed && len(cc.Out) == 0 {
			cc.Close()
		}
	}
	// the last client message (ClientAuth) may still be in flight
	for len(cc.Out) > 0 {
		r.pumpC2S(srv, <-cc.Out, tamper)
	}
	r.Handle = srv.Accept()
	return r
}

func (r *Run) pumpC2S(srv *Srv, d []byte, tamper Tamper) {
	dd := [][]byte{d}
	if tamper != nil {
		dd = tamper(C2S, r.nC2S, d)
	}
	r.Flights = append(r.Flights, Flight{C2S, r.nC2S, d, dd})
	r.nC2S++
	for _, x := range dd {
		out, p, err := srv.Deliver(r.Conn.Local, x)
		if p {
			r.SrvPanic = true
		}
		if err != nil {
			r.SrvErrs = append(r.SrvErrs, err)
		}
		for _, o := range out {
			if !transport.EqualUDPAddress(o.Addr, r.Conn.Local) {
				continue
			}
			oo := [][]byte{o.Data}
			if tamper != nil {
				oo = tamper(S2C, r.nS2C, o.Data)
			}
			r.Flights = append(r.Flights, Flight{S2C, r.nS2C, o.Data, oo})
			r.nS2C++
			for _, y := range oo {
				r.Conn.Push(Dgram{srv.Addr, y})
			}
		}
	}
}

// Completed: the client reported success.
func (r *Run) CliOK() bool { return r.Err == nil }

// Probe sends one message each way over a completed connection and reports whether both arrive intact.
func (r *Run) Probe(srv *Srv) (c2s, s2c bool) {
	if r.Err != nil || r.Handle == nil {
		return false, false
	}
	msg := []byte("probe-c2s")
	if err := r.Cli.WriteMsg(msg); err == nil {
		for len(r.Conn.Out) > 0 {
			srv.Deliver(r.Conn.Local, <-r.Conn.Out)
		}
		buf := make([]byte, 100)
		r.Handle.SetReadDeadline(time.Now().Add(20 * time.Millisecond))
		n, err := r.Handle.ReadMsg(buf)
		c2s = err == nil && string(buf[:n]) == string(msg)
	}
	msg = []byte("probe-s2c")
	if err := r.Handle.WriteMsg(msg); err == nil {
		for _, o := range srv.Conn.TakeSent() {
			r.Conn.Push(Dgram{srv.Addr, o.Data})
		}
		buf := make([]byte, 100)
		r.Cli.SetReadDeadline(time.Now().Add(200 * time.Millisecond))
		n, err := r.Cli.ReadMsg(buf)
		s2c = err == nil && string(buf[:n]) == string(msg)
	}
	return
}

func (r *Run) Close() {
	r.Conn.Close()
	go r.Cli.Close()
}

func RawName(s string) certs.Name { return certs.RawStringName(s) }
