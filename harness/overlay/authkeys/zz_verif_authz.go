//go:build verif

package authkeys

import "hop.computer/hop/keys"

// VerifHas reports whether pk is in the transport-layer key set.
func (s *SyncAuthKeySet) VerifHas(pk keys.DHPublicKey) bool {
	s.lock.Lock()
	defer s.lock.Unlock()
	_, ok := s.keySet[pk]
	return ok
}

// VerifLen is the number of keys in the set.
func (s *SyncAuthKeySet) VerifLen() int {
	s.lock.Lock()
	defer s.lock.Unlock()
	return len(s.keySet)
}
