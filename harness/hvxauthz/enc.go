package hvxauthz

import (
	"encoding/base64"
	"encoding/hex"
	"fmt"
	"strings"
)

// Enc prints the byte strings of one case compactly: Coq spends ~0.2 ms per literal character, so
// the base64 text of each key that occurs is let-bound once per case and referenced by name, long
// runs are `rep n b`, printable text is `tx "…"` (one character per byte) and the rest `hex "…"`.
type Enc struct {
	pool  [][32]byte
	words []string // dictionary: words[2i] = base64 of key i ; last = prefix
	names []string
	used  map[string]bool
	order []string
	defs  map[string]string
	extra [][32]byte
	texts map[string]string
}

func NewEnc(pool [][32]byte) *Enc {
	e := &Enc{pool: pool, used: map[string]bool{}, defs: map[string]string{}, texts: map[string]string{}}
	for i, k := range pool {
		e.words = append(e.words, base64.StdEncoding.EncodeToString(k[:]))
		e.names = append(e.names, fmt.Sprintf("e%d", i))
	}
	e.words = append(e.words, prefix)
	e.names = append(e.names, "hp")
	return e
}

func (e *Enc) bind(name, def string) string {
	if !e.used[name] {
		e.used[name] = true
		e.order = append(e.order, name)
		e.defs[name] = def
	}
	return name
}

// Key returns the model's code for key i of the pool. The model only ever compares keys, so the
// drivers rename the 32-byte keys injectively to small numbers (pool index + 1; other keys that a
// file happens to hold get 100, 101, ... in order of appearance).
func (e *Enc) Key(i int) string { return fmt.Sprint(i + 1) }

// KeyVal is Key for a key given by value (it may not be in the pool).
func (e *Enc) KeyVal(k [32]byte) string {
	for i := range e.pool {
		if e.pool[i] == k {
			return e.Key(i)
		}
	}
	for i, x := range e.extra {
		if x == k {
			return fmt.Sprint(100 + i)
		}
	}
	e.extra = append(e.extra, k)
	return fmt.Sprint(100 + len(e.extra) - 1)
}

func literal(b []byte) string {
	printable := true
	for _, c := range b {
		if c < 0x20 || c > 0x7e {
			printable = false
			break
		}
	}
	if printable {
		return `(tx "` + strings.ReplaceAll(string(b), `"`, `""`) + `")`
	}
	return `(hex "` + hex.EncodeToString(b) + `")`
}

// Bytes prints b as a Coq term of type bytes.
func (e *Enc) Bytes(b []byte) string {
	var parts []string
	var lit []byte
	flush := func() {
		// split the pending literal into printable / non-printable stretches
		for len(lit) > 0 {
			p := lit[0] >= 0x20 && lit[0] <= 0x7e
			j := 1
			for j < len(lit) && (lit[j] >= 0x20 && lit[j] <= 0x7e) == p {
				j++
			}
			parts = append(parts, literal(lit[:j]))
			lit = lit[j:]
		}
		lit = nil
	}
	for i := 0; i < len(b); {
		matched := false
		for w, word := range e.words {
			if len(b)-i >= len(word) && string(b[i:i+len(word)]) == word {
				flush()
				parts = append(parts, e.bind(e.names[w], literal([]byte(word))))
				i += len(word)
				matched = true
				break
			}
		}
		if matched {
			continue
		}
		j := i
		for j < len(b) && b[j] == b[i] {
			j++
		}
		if j-i >= 24 {
			flush()
			parts = append(parts, fmt.Sprintf("(rep %d %d)", j-i, b[i]))
			i = j
			continue
		}
		lit = append(lit, b[i])
		i++
	}
	flush()
	switch len(parts) {
	case 0:
		return "[]"
	case 1:
		return parts[0]
	}
	return "(cat [" + strings.Join(parts, "; ") + "])"
}

// Str prints a short text (user name, command) that tends to recur in a case: bound once.
func (e *Enc) Str(s string) string {
	if len(s) < 3 || len(s) > 64 {
		return e.Bytes([]byte(s))
	}
	if n, ok := e.texts[s]; ok {
		return n
	}
	n := fmt.Sprintf("t%d", len(e.texts))
	e.texts[s] = n
	return e.bind(n, e.Bytes([]byte(s)))
}

// Wrap puts the let-bindings around the case term.
func (e *Enc) Wrap(body string) string {
	var sb strings.Builder
	sb.WriteString("(")
	for _, n := range e.order {
		sb.WriteString("let " + n + " := " + e.defs[n] + " in ")
	}
	sb.WriteString("(" + body + " : authz_case))")
	return sb.String()
}
