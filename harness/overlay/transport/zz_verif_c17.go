//go:build verif

package transport

// VerifRecvLen reports how many decrypted messages are queued for this Handle (C17 driver:
// "data queued before close is returned before end-of-stream" needs to know the data is queued).
func (c *Handle) VerifRecvLen() int { return len(c.recv.C) }
