From Hop Require Import Base Principal PrincipalProofs.
Theorem c06_placeholder : run p_init [] = [].
Proof. reflexivity. Qed.
Print Assumptions c06_placeholder.
