(* DChanProofs.v — invariants of the DeadlineChan interleaving system (Model/DChan.v), for every
   schedule, any number of threads and operations. *)
From Hop Require Import Base DChan.
From Coq Require Import Lia Arith.
Local Open Scope nat_scope.

(* ------------------------------------------------------------------ lists, counting *)
Definition b2n (b : bool) : nat := if b then 1 else 0.
Fixpoint cnt (p : pc -> bool) (l : list thread) : nat :=
  match l with [] => 0 | t :: r => b2n (p (tpc t)) + cnt p r end.

Lemma cnt_lupd p l i t t' : nth_error l i = Some t ->
  cnt p (lupd l i t') + b2n (p (tpc t)) = cnt p l + b2n (p (tpc t')).
Proof.
  revert i; induction l as [|y r IH]; intros [|i] H; simpl in *; try discriminate.
  - inversion H; subst. lia.
  - specialize (IH i H). lia.
Qed.

Lemma nth_lupd_same {A} (l : list A) i t t' : nth_error l i = Some t -> nth_error (lupd l i t') i = Some t'.
Proof. revert i; induction l; intros [|i] H; simpl in *; try discriminate; auto. Qed.

Lemma nth_lupd_other {A} (l : list A) i j t' : i <> j -> nth_error (lupd l i t') j = nth_error l j.
Proof.
  revert i j; induction l; intros [|i] [|j] H; simpl; auto; try congruence.
Qed.

Lemma lupd_length {A} (l : list A) i t : length (lupd l i t) = length l.
Proof. revert i; induction l; intros [|i]; simpl; auto. Qed.

Lemma cnt_pos_exists p l : 1 <= cnt p l -> exists i t, nth_error l i = Some t /\ p (tpc t) = true.
Proof.
  induction l as [|y r IH]; simpl; [lia|].
  destruct (p (tpc y)) eqn:E; simpl.
  - intros _. exists 0, y. auto.
  - intros H. destruct (IH H) as (i & t & H1 & H2). exists (S i), t. auto.
Qed.

Lemma cnt_zero_all p l i t : cnt p l = 0 -> nth_error l i = Some t -> p (tpc t) = false.
Proof.
  revert i; induction l as [|y r IH]; intros [|i] H0 H; simpl in *; try discriminate.
  - inversion H; subst. destruct (p (tpc t)); simpl in *; auto; lia.
  - apply (IH i); auto. lia.
Qed.

Lemma cnt_sub p q l : (forall x, p x = true -> q x = true) -> cnt p l <= cnt q l.
Proof.
  intros Hpq. induction l as [|y r IH]; simpl; auto.
  specialize (Hpq (tpc y)). destruct (p (tpc y)), (q (tpc y)); simpl; try lia.
  all: try (discriminate Hpq; auto).
Qed.

Lemma cnt_sub_strict p q l i t : (forall x, p x = true -> q x = true) ->
  nth_error l i = Some t -> p (tpc t) = false -> q (tpc t) = true -> cnt p l + 1 <= cnt q l.
Proof.
  intros Hpq. revert i; induction l as [|y r IH]; intros [|i] H Hp Hq; simpl in *; try discriminate.
  - inversion H; subst. rewrite Hp, Hq. simpl. pose proof (cnt_sub p q r Hpq). lia.
  - specialize (IH i H Hp Hq). pose proof (Hpq (tpc y)).
    destruct (p (tpc y)), (q (tpc y)); simpl; try lia. all: try (discriminate H0; auto).
Qed.

Lemma Forall_lupd {A} (P : A -> Prop) l i x : Forall P l -> P x -> Forall P (lupd l i x).
Proof.
  intros H; revert i; induction H; intros [|i] Hx; simpl; constructor; auto.
Qed.

Lemma Forall_nth {A} (P : A -> Prop) l i x : Forall P l -> nth_error l i = Some x -> P x.
Proof.
  intros H; revert i; induction H; intros [|i] Hx; simpl in *; try discriminate.
  - inversion Hx; subst; auto.
  - eauto.
Qed.

(* ------------------------------------------------------------------ the invariant *)
Definition sendstage (p : pc) : bool :=
  match p with S_done _ | S_pollerr _ _ | S_select _ _ | C_store => true | _ => false end.

Definition oldclose (p : pc) : bool :=
  match p with C_closed | C_store | C_cancel => true | _ => false end.
Definition is_cstore (p : pc) : bool := match p with C_store => true | _ => false end.
Definition rep_eof (p : pc) : bool := match p with R_repoll e => (e =? 1)%N | _ => false end.
(* configurations in which end-of-stream is final: the re-poll, and with the new Close also the barrier *)
Definition eof_safe (c : cfg) : bool := fix_repoll c && (negb (fix_close c) || fix_barrier c).

Definition TInv (s : sh) (t : thread) : Prop :=
  match tpc t with
  | R_pollerr g | R_select g | S_pollerr _ g | S_select _ g => g <= cur s
  | R_err | S_err => derr s <> 0%N
  | R_repoll e => (e = 1%N -> closed s = true) /\ e <> 0%N
  | C_cancel | D_recancel | R_barrier | C2_cancel | C2_wait => closed s = true
  | K_cancel e => (3 <= e)%N
  | _ => True
  end /\ forallb wf_op (prog t) = true.

(* what may appear among the results of a thread *)
Definition ret_ok (s : sh) (kr : opk * ret) : Prop :=
  match kr with
  | (KRecv, RErr e) => e <> 0%N /\ (e = 1%N -> eof_seen s = true)
  | (KClose, RErr e) => e = 0%N \/ e = 1%N
  | (KClose, RItem _) => False
  | _ => True
  end.
Definition RInv (s : sh) (t : thread) : Prop := Forall (ret_ok s) (rets t).

Definition is_nilclose (kr : opk * ret) : bool :=
  match kr with (KClose, RErr e) => (e =? 0)%N | _ => false end.
Definition nclose (t : thread) : nat := length (filter is_nilclose (rets t)).
Definition is_ccancel (p : pc) : bool := match p with C_cancel | C2_cancel | C2_wait => true | _ => false end.
Definition phi (t : thread) : nat := nclose t + b2n (is_ccancel (tpc t)).
Fixpoint sumf (f : thread -> nat) (l : list thread) : nat :=
  match l with [] => 0 | t :: r => f t + sumf f r end.

Lemma sumf_lupd f l i t t' : nth_error l i = Some t ->
  sumf f (lupd l i t') + f t = sumf f l + f t'.
Proof.
  revert i; induction l as [|y r IH]; intros [|i] H; simpl in *; try discriminate.
  - inversion H; subst. lia.
  - specialize (IH i H). lia.
Qed.

Record Inv (c : cfg) (x : st) : Prop := {
  iA : sent (shd x) = map snd (taken (shd x)) ++ buf (shd x);
  iB : length (buf (shd x)) <= cap (shd x);
  iC : cnt lock_pc (ths x) = match mu (shd x) with Some _ => 1 | None => 0 end;
  iD : fix_close c = false -> closed (shd x) = true -> cnt sendstage (ths x) = 0;
  iE : derr (shd x) = 1%N -> closed (shd x) = true;
  iF : (0 < cur (shd x) \/ cur_closed (shd x) = true) -> derr (shd x) <> 0%N;
  iG : eof_safe c = true -> eof_seen (shd x) = true -> closed (shd x) = true /\ buf (shd x) = [];
  iH : Forall (TInv (shd x)) (ths x);
  iI : fix_recheck c = true -> closed (shd x) = true -> cur_closed (shd x) = false ->
       1 <= cnt helper_pc (ths x);
  iJ : forall i t, nth_error (ths x) i = Some t -> items (rets t) = taken_by i (taken (shd x));
  iK : Forall (RInv (shd x)) (ths x);
  iM : sumf phi (ths x) = b2n (closed (shd x));
  (* new Close (closed published before d.m is taken): Sends may be in flight while closed is set,
     but none is once a Recv has passed the barrier / reported end-of-stream, or a Close returned nil *)
  iN : fix_close c = true -> eof_safe c = true ->
       (eof_seen (shd x) = true \/ 1 <= cnt rep_eof (ths x)) -> cnt sendstage (ths x) = 0;
  iO : fix_close c = true -> cnt oldclose (ths x) = 0;
  iQ : fix_close c = true -> 1 <= sumf nclose (ths x) -> cnt sendstage (ths x) = 0
}.

(* what any transition does to the monotone part of the shared state *)
Definition mono (s s' : sh) : Prop :=
  cur s <= cur s' /\ (closed s = true -> closed s' = true) /\ (derr s <> 0%N -> derr s' <> 0%N) /\
  (eof_seen s = true -> eof_seen s' = true).

Lemma TInv_mono s s' t : mono s s' -> TInv s t -> TInv s' t.
Proof.
  intros (H1 & H2 & H3 & _) [Ht Hw]. split; auto.
  destruct (tpc t); auto; try lia; intuition.
Qed.

Lemma pop_some me s v s' : pop me s = Some (v, s') ->
  exists b, buf s = v :: b /\
  s' = mkS b (cap s) (closed s) (mu s) (cur s) (cur_closed s) (derr s) (armed s) (pending s) (sent s)
           (taken s ++ [(me, v)]) (eof_seen s).
Proof.
  unfold pop. destruct (buf s) as [|w b] eqn:E; [discriminate|]. intros H; inversion H; subst. eauto.
Qed.
Lemma pop_none me s : pop me s = None -> buf s = [].
Proof. unfold pop. destruct (buf s); [auto|discriminate]. Qed.

Lemma items_app l r : items (l ++ r) = items l ++ items r.
Proof. induction l as [|[k [v|e]] l IH]; simpl; auto. now rewrite IH. Qed.

Lemma taken_by_app i l r : taken_by i (l ++ r) = taken_by i l ++ taken_by i r.
Proof. unfold taken_by. now rewrite filter_app, map_app. Qed.

(* ------------------------------------------------------------------ case analysis on tstep *)
Ltac brk H :=
  repeat (match type of H with
  | context [if fix_repoll ?c then _ else _] => let E := fresh "Efr" in destruct (fix_repoll c) eqn:E
  | context [if fix_recheck ?c then _ else _] => let E := fresh "Efc" in destruct (fix_recheck c) eqn:E
  | context [match pop ?i ?s with _ => _ end] =>
      let E := fresh "Epop" in let v := fresh "v" in let s1 := fresh "s1" in
      destruct (pop i s) as [[v s1]|] eqn:E;
      [ let b := fresh "b" in let Eb := fresh "Eb" in
        destruct (pop_some _ _ _ _ E) as (b & Eb & ?); subst s1 | apply pop_none in E ]
  | context [if ?b then _ else _] => let E := fresh "E" in destruct b eqn:E
  | context [match ?m with Some _ => _ | None => _ end] => let E := fresh "Emu" in destruct m eqn:E
  end; simpl in H); try discriminate H.

Ltac tcases H :=
  match type of H with
  | tstep ?c ?i ?ch ?s ?t = Some (?s', ?t') =>
    unfold tstep, recv_fail in H;
    destruct t as [pg p rs]; simpl in H;
    destruct p; [ destruct pg as [|[ | | | | ] pg]; [discriminate H| | | | | ] | .. ];
    brk H; inversion H; subst; clear H
  end.

Lemma tstep_mono c i ch s t s' t' : TInv s t -> tstep c i ch s t = Some (s', t') -> mono s s'.
Proof.
  intros [Ht _] H. destruct s as [bf cp cl m cu cc de ar pe se ta eo].
  tcases H; unfold mono, d_setdl, d_cancel, set_eof, set_mu, set_closed, push; simpl in *;
    repeat split; auto; try lia; try discriminate.
  all: try (destruct k; destruct cc; simpl; auto; try lia; discriminate).
  all: try (destruct (_ =? eEOF)%N; simpl; auto; lia).
Qed.

From Coq Require Import ZifyN ZifyNat ZifyBool.

Ltac unf := unfold mono, d_setdl, d_cancel, set_eof, set_mu, set_closed, push, goto, start, finish, startfin,
  eEOF, eDE, eNil in *.

Lemma tstep_shared c i ch s t s' t' :
  TInv s t -> tstep c i ch s t = Some (s', t') ->
  (sent s = map snd (taken s) ++ buf s -> sent s' = map snd (taken s') ++ buf s') /\
  (length (buf s) <= cap s -> length (buf s') <= cap s') /\
  ((derr s = 1%N -> closed s = true) -> (derr s' = 1%N -> closed s' = true)) /\
  (((0 < cur s \/ cur_closed s = true) -> derr s <> 0%N) ->
   ((0 < cur s' \/ cur_closed s' = true) -> derr s' <> 0%N)).
Proof.
  intros [Ht _] H. destruct s as [bf cp cl m cu cc de ar pe se ta eo].
  tcases H; unf; simpl in *; subst.
  all: repeat split; intros; subst; simpl in *; auto; try lia; try congruence.
  all: try (rewrite map_app, <- app_assoc; simpl; congruence).
  all: try (rewrite app_assoc; congruence).
  all: try (rewrite app_length; simpl; apply Nat.ltb_lt in E0; lia).
  all: try (destruct (_ =? 1)%N; simpl in *; auto; fail).
  all: try (destruct k, cc; simpl in *; auto; try lia; try congruence; fail).
Qed.

Lemma chan_closed_true s g : chan_closed s g = true -> 0 < cur s \/ cur_closed s = true.
Proof.
  unfold chan_closed. intros H. apply Bool.orb_true_iff in H. destruct H as [H|H].
  - apply Nat.ltb_lt in H. lia.
  - apply Bool.andb_true_iff in H. tauto.
Qed.

Lemma tstep_TInv c i ch s t s' t' :
  ((0 < cur s \/ cur_closed s = true) -> derr s <> 0%N) ->
  (derr s = 1%N -> closed s = true) ->
  TInv s t -> tstep c i ch s t = Some (s', t') -> TInv s' t'.
Proof.
  intros HF HE [Ht Hw] H. destruct s as [bf cp cl m cu cc de ar pe se ta eo].
  unfold TInv in *.
  tcases H; unf; simpl in *; subst.
  all: repeat match goal with H : (_ && _)%bool = true |- _ => apply Bool.andb_true_iff in H; destruct H end.
  all: repeat match goal with H : chan_closed _ _ = true |- _ => apply chan_closed_true in H; simpl in H end.
  all: repeat split; intros; subst; simpl in *; auto; try lia; try congruence.
  all: try (destruct k, cc; simpl in *; auto; try lia; try congruence; fail).
Qed.

Lemma tstep_lock c i ch s t s' t' : tstep c i ch s t = Some (s', t') ->
  (mu s' = mu s /\ lock_pc (tpc t') = lock_pc (tpc t)) \/
  (mu s = None /\ mu s' = Some i /\ lock_pc (tpc t) = false /\ lock_pc (tpc t') = true) \/
  (mu s' = None /\ lock_pc (tpc t) = true /\ lock_pc (tpc t') = false).
Proof.
  intros H. destruct s as [bf cp cl m cu cc de ar pe se ta eo].
  tcases H; unf; simpl in *; subst; auto.
  all: try (destruct k; simpl; auto; fail).
  all: try (destruct (_ =? 1)%N; simpl; auto; fail).
  all: try (right; left; auto; fail).
  all: try (right; right; auto; fail).
Qed.

Lemma tstep_closed c i ch s t s' t' : tstep c i ch s t = Some (s', t') ->
  (fix_close c = false -> closed s' = true -> closed s = true \/ (lock_pc (tpc t) = true /\ sendstage (tpc t') = false)) /\
  (sendstage (tpc t') = true -> sendstage (tpc t) = true \/ closed s' = false).
Proof.
  intros H. destruct s as [bf cp cl m cu cc de ar pe se ta eo].
  tcases H; unf; simpl in *; subst; auto.
  all: try (split; intros; auto; try discriminate; try congruence; fail).
  all: try (destruct k; simpl; split; intros; auto; discriminate).
  all: try (destruct (_ =? 1)%N; simpl; split; intros; auto; discriminate).
Qed.

Lemma tstep_helper c i ch s t s' t' : fix_recheck c = true -> tstep c i ch s t = Some (s', t') ->
  closed s' = true -> cur_closed s' = false ->
  helper_pc (tpc t') = true \/ (helper_pc (tpc t) = false /\ closed s = true /\ cur_closed s = false).
Proof.
  intros Hc H. destruct s as [bf cp cl m cu cc de ar pe se ta eo].
  tcases H; unf; simpl in *; subst; auto; try congruence.
  all: try (destruct (_ =? 1)%N; simpl; auto; fail).
Qed.

Lemma tstep_taken c i ch s t s' t' : tstep c i ch s t = Some (s', t') ->
  (taken s' = taken s /\ items (rets t') = items (rets t)) \/
  (exists v, taken s' = taken s ++ [(i, v)] /\ items (rets t') = items (rets t) ++ [v]).
Proof.
  intros H. destruct s as [bf cp cl m cu cc de ar pe se ta eo].
  tcases H; unf; simpl in *; subst; rewrite ?items_app; simpl; rewrite ?app_nil_r; eauto.
  all: try (destruct k; simpl; auto; fail).
  all: try (destruct (_ =? 1)%N; simpl; auto; fail).
Qed.

Lemma tstep_eof c i ch s t s' t' : fix_repoll c = true -> TInv s t -> tstep c i ch s t = Some (s', t') ->
  eof_seen s' = true ->
  (closed s' = true /\ buf s' = []) \/
  (eof_seen s = true /\ (buf s = [] -> buf s' = [] \/ sendstage (tpc t) = true)).
Proof.
  intros Hc [Ht _] H. destruct s as [bf cp cl m cu cc de ar pe se ta eo].
  tcases H; unf; simpl in *; subst; auto; try congruence.
  all: try (intros; right; split; auto; intros; discriminate).
  all: try (destruct k; simpl; auto; fail).
  all: try (destruct (v =? 1)%N eqn:Ev; simpl; auto; apply N.eqb_eq in Ev; subst; intros; left; split; tauto).
  all: try (destruct (e =? 1)%N eqn:Ev; simpl; auto; apply N.eqb_eq in Ev; subst; intros; left; split; tauto).
  all: try (apply N.eqb_eq in E; intros; left; split; tauto).
Qed.

Lemma RInv_mono s s' t : mono s s' -> RInv s t -> RInv s' t.
Proof.
  intros (_ & _ & _ & H4) H. unfold RInv in *. eapply Forall_impl; [|exact H].
  intros [k [v|e]]; destruct k; simpl; intuition.
Qed.

Lemma tstep_rets c i ch s t s' t' : TInv s t -> tstep c i ch s t = Some (s', t') ->
  rets t' = rets t \/ exists kr, rets t' = rets t ++ [kr] /\ ret_ok s' kr.
Proof.
  intros [Ht _] H. destruct s as [bf cp cl m cu cc de ar pe se ta eo].
  tcases H; unf; simpl in *; subst; auto.
  all: right; eexists; split; [reflexivity|]; simpl; auto; try (split; [discriminate|]; auto; fail).
  all: try (split; auto; intros E1; rewrite E1; reflexivity).
  all: try (destruct Ht as [Ht1 Ht2]; split; auto; intros E1; rewrite E1; reflexivity).
  all: try (apply N.eqb_neq in E; split; [tauto|intros; contradiction]).
Qed.

Lemma nclose_app t kr : length (filter is_nilclose (rets t ++ [kr])) = nclose t + b2n (is_nilclose kr).
Proof. unfold nclose. rewrite filter_app, app_length. simpl. destruct (is_nilclose kr); simpl; lia. Qed.

Lemma tstep_phi c i ch s t s' t' : (is_cstore (tpc t) = true -> closed s = false) ->
  tstep c i ch s t = Some (s', t') -> phi t' + b2n (closed s) = phi t + b2n (closed s').
Proof.
  intros Hs H. destruct s as [bf cp cl m cu cc de ar pe se ta eo].
  tcases H; unfold phi, nclose; unf; simpl in *; subst; rewrite ?filter_app, ?app_length; simpl; try lia.
  all: try (rewrite (Hs eq_refl); simpl; lia).
  all: try (destruct k; simpl; lia).
  all: try (destruct (_ =? 1)%N; simpl; lia).
Qed.

Lemma cnt_mem p l i t : nth_error l i = Some t -> p (tpc t) = true -> 1 <= cnt p l.
Proof.
  revert i; induction l as [|y r IH]; intros [|i] H Hp; simpl in *; try discriminate.
  - inversion H; subst. rewrite Hp. simpl. lia.
  - specialize (IH i H Hp). lia.
Qed.

Lemma sendstage_lock p : sendstage p = true -> lock_pc p = true.
Proof. destruct p; simpl; auto. Qed.

Lemma taken_by_snoc_other i j v l : i <> j -> taken_by j (l ++ [(i, v)]) = taken_by j l.
Proof.
  intros Hn. rewrite taken_by_app. unfold taken_by at 2. simpl.
  destruct (Nat.eqb_spec i j); [contradiction|]. simpl. now rewrite app_nil_r.
Qed.
Lemma taken_by_snoc_same i v l : taken_by i (l ++ [(i, v)]) = taken_by i l ++ [v].
Proof.
  rewrite taken_by_app. unfold taken_by at 2. simpl. now rewrite Nat.eqb_refl.
Qed.

Lemma cstore_sendstage p : is_cstore p = true -> sendstage p = true.
Proof. destruct p; simpl; auto. Qed.
Lemma cstore_oldclose p : is_cstore p = true -> oldclose p = true.
Proof. destruct p; simpl; auto. Qed.

(* the old Close program is never entered by the new code *)
Lemma tstep_oldclose c i ch s t s' t' : fix_close c = true -> tstep c i ch s t = Some (s', t') ->
  oldclose (tpc t') = true -> oldclose (tpc t) = true.
Proof.
  intros Hc H. destruct s as [bf cp cl m cu cc de ar pe se ta eo].
  tcases H; unf; simpl in *; subst; auto; try congruence.
  all: try (destruct k; simpl; auto; fail).
  all: try (destruct (_ =? 1)%N; simpl; auto; fail).
Qed.

(* where "end of stream is being / has been reported" comes from: only through the barrier *)
Lemma tstep_eofsrc c i ch s t s' t' : fix_repoll c = true -> fix_barrier c = true ->
  tstep c i ch s t = Some (s', t') ->
  (eof_seen s' = true \/ rep_eof (tpc t') = true) ->
  eof_seen s = true \/ rep_eof (tpc t) = true \/ (tpc t = R_barrier /\ mu s = None).
Proof.
  intros Hc Hb H. destruct s as [bf cp cl m cu cc de ar pe se ta eo].
  tcases H; unf; simpl in *; subst; auto; try congruence.
  all: try (intros [?|?]; auto; try discriminate; fail).
  all: try (destruct k; simpl; intros [?|?]; auto; discriminate).
  all: try (rewrite Hb in *; simpl in *).
  all: try (intros [?|?]; auto; try discriminate; try congruence; fail).
  all: try (destruct (_ =? 1)%N eqn:Ev; simpl in *; intros [?|?]; auto; try discriminate; try congruence; fail).
Qed.

(* a Close returns nil only from its last action; the new code's last action finds d.m free *)
Lemma tstep_nclose c i ch s t s' t' : tstep c i ch s t = Some (s', t') ->
  nclose t' = nclose t \/ (tpc t = C2_wait /\ mu s = None) \/ tpc t = C_cancel.
Proof.
  intros H. destruct s as [bf cp cl m cu cc de ar pe se ta eo].
  tcases H; unfold nclose; unf; simpl in *; subst; rewrite ?filter_app, ?app_length; simpl; auto.
  all: try (destruct k; simpl; auto; fail).
  all: try (destruct (_ =? 1)%N; simpl; auto; fail).
  all: try (destruct (is_nilclose _); simpl; auto; fail).
Qed.

Lemma sumf_ge f l i t : nth_error l i = Some t -> f t <= sumf f l.
Proof.
  revert i; induction l as [|y r IH]; intros [|i] H; simpl in *; try discriminate.
  - inversion H; subst. lia.
  - specialize (IH i H). lia.
Qed.
Lemma sumf_le f g l : (forall t, f t <= g t) -> sumf f l <= sumf g l.
Proof. intros H. induction l as [|y r IH]; simpl; auto. specialize (H y). lia. Qed.

Lemma sumf_pos_exists f l : 1 <= sumf f l -> exists i t, nth_error l i = Some t /\ 1 <= f t.
Proof.
  induction l as [|y r IH]; simpl; [lia|].
  destruct (f y) eqn:E.
  - intros H. destruct (IH H) as (i & t & H1 & H2). exists (S i), t. auto.
  - intros _. exists 0, y. simpl. split; auto. lia.
Qed.

Lemma inv_th c x i ch t s' t' :
  Inv c x -> nth_error (ths x) i = Some t -> tstep c i ch (shd x) t = Some (s', t') ->
  Inv c (mkSt s' (lupd (ths x) i t')).
Proof.
  intros I Hn H. destruct x as [s l]. simpl in *.
  destruct I as [IA IB IC ID IE IF IG IH II IJ IK IM IN IO IQ]; simpl in *.
  assert (Ht : TInv s t) by (eapply Forall_nth; eauto).
  pose proof (tstep_mono _ _ _ _ _ _ _ Ht H) as Hm.
  destruct (tstep_shared _ _ _ _ _ _ _ Ht H) as (HA & HB & HE & HF).
  pose proof (tstep_TInv _ _ _ _ _ _ _ IF IE Ht H) as Ht'.
  assert (LK1 : cnt lock_pc l <= 1) by (rewrite IC; destruct (mu s); clear; lia).
  (* once closed, an empty send stage stays empty *)
  assert (SS0 : closed s = true -> cnt sendstage l = 0 -> cnt sendstage (lupd l i t') = 0).
  { intros Hcl S0. destruct (tstep_closed _ _ _ _ _ _ _ H) as [_ H2].
    pose proof (cnt_lupd sendstage l i t t' Hn) as CS.
    pose proof (cnt_zero_all _ _ _ _ S0 Hn) as St. rewrite St in CS.
    destruct (sendstage (tpc t')) eqn:Et'; simpl in CS; [|clear - CS S0; lia].
    destruct (H2 eq_refl) as [?|Hc']; [congruence|].
    destruct Hm as (_ & Hm2 & _). rewrite (Hm2 Hcl) in Hc'. discriminate. }
  (* a free mutex means nobody is in the send stage *)
  assert (SL0 : mu s = None -> cnt sendstage l = 0).
  { intros Em. rewrite Em in IC. pose proof (cnt_sub sendstage lock_pc l sendstage_lock). clear - IC H0. lia. }
  assert (ID' : fix_close c = false -> closed s' = true -> cnt sendstage (lupd l i t') = 0).
  { intros Hfc Hc'. destruct (tstep_closed _ _ _ _ _ _ _ H) as [H1 H2]. specialize (H1 Hfc Hc').
    destruct H1 as [H1|[H1 H1']].
    - apply SS0; auto.
    - pose proof (cnt_lupd sendstage l i t t' Hn) as CS. rewrite H1' in CS. simpl in CS.
      pose proof (cnt_sub sendstage lock_pc l sendstage_lock) as CSL.
      destruct (sendstage (tpc t)) eqn:Est; simpl in CS; [clear - CS CSL LK1; lia|].
      pose proof (cnt_sub_strict sendstage lock_pc l i t sendstage_lock Hn Est H1) as CSS. clear - CS CSS LK1. lia. }
  assert (IO' : fix_close c = true -> cnt oldclose (lupd l i t') = 0).
  { intros Hfc. specialize (IO Hfc). pose proof (cnt_zero_all _ _ _ _ IO Hn) as Ot.
    pose proof (cnt_lupd oldclose l i t t' Hn) as CO. rewrite Ot in CO.
    destruct (oldclose (tpc t')) eqn:Eo; simpl in CO; [|clear - CO IO; lia].
    rewrite (tstep_oldclose _ _ _ _ _ _ _ Hfc H Eo) in Ot. discriminate. }
  assert (IM' : sumf phi (lupd l i t') = b2n (closed s')).
  { pose proof (sumf_lupd phi l i t t' Hn) as SP.
    assert (Hs : is_cstore (tpc t) = true -> closed s = false).
    { intros Es. destruct (fix_close c) eqn:Efc.
      - pose proof (cnt_zero_all _ _ _ _ (IO eq_refl) Hn). rewrite (cstore_oldclose _ Es) in H0. discriminate.
      - destruct (closed s) eqn:Ec; auto.
        pose proof (cnt_zero_all _ _ _ _ (ID eq_refl eq_refl) Hn). rewrite (cstore_sendstage _ Es) in H0. discriminate. }
    pose proof (tstep_phi _ _ _ _ _ _ _ Hs H) as TP. clear - TP SP IM. lia. }
  assert (IK' : Forall (RInv s') (lupd l i t')).
  { apply Forall_lupd.
    - eapply Forall_impl; [|exact IK]. intros a Ha. eapply RInv_mono; eauto.
    - pose proof (Forall_nth _ _ _ _ IK Hn) as Hr. apply (RInv_mono _ _ _ Hm) in Hr.
      unfold RInv in *. destruct (tstep_rets _ _ _ _ _ _ _ Ht H) as [E|(kr & E & Hk)]; rewrite E; auto.
      apply Forall_app; split; auto. }
  assert (IN' : fix_close c = true -> eof_safe c = true ->
                (eof_seen s' = true \/ 1 <= cnt rep_eof (lupd l i t')) -> cnt sendstage (lupd l i t') = 0).
  { intros Hfc Hes Hd.
    assert (Hrb : fix_repoll c = true /\ fix_barrier c = true).
    { unfold eof_safe in Hes. rewrite Hfc in Hes. simpl in Hes. apply Bool.andb_true_iff in Hes. exact Hes. }
    destruct Hrb as [Hr Hb].
    assert (Hold : (eof_seen s = true \/ 1 <= cnt rep_eof l) -> cnt sendstage (lupd l i t') = 0).
    { intros Ho. apply SS0; [|apply IN; auto].
      destruct Ho as [Ho|Ho]; [apply (IG Hes Ho)|].
      destruct (cnt_pos_exists _ _ Ho) as (j & tj & Hj & Hp).
      pose proof (Forall_nth _ _ _ _ IH Hj) as [Hq _].
      destruct (tpc tj); simpl in Hp; try discriminate. apply Hq. now apply N.eqb_eq. }
    assert (Hsrc : eof_seen s' = true \/ rep_eof (tpc t') = true ->
                   cnt sendstage (lupd l i t') = 0).
    { intros Hd'. destruct (tstep_eofsrc _ _ _ _ _ _ _ Hr Hb H Hd') as [Ho|[Ho|[Ho Em]]].
      - apply Hold; auto.
      - apply Hold. right. eapply cnt_mem; eauto.
      - apply SS0; auto. destruct Ht as [Hq _]. rewrite Ho in Hq. exact Hq. }
    destruct Hd as [Hd|Hd]; [apply Hsrc; auto|].
    destruct (rep_eof (tpc t')) eqn:Er; [apply Hsrc; auto|].
    apply Hold. right. pose proof (cnt_lupd rep_eof l i t t' Hn) as CR. rewrite Er in CR. simpl in CR. clear - CR Hd. lia. }
  assert (IQ' : fix_close c = true -> 1 <= sumf nclose (lupd l i t') -> cnt sendstage (lupd l i t') = 0).
  { intros Hfc Hq. pose proof (sumf_lupd nclose l i t t' Hn) as SN.
    assert (Hcl1 : 1 <= sumf nclose l -> closed s = true).
    { intros H1. assert (sumf nclose l <= sumf phi l) by (apply sumf_le; intros a; unfold phi; clear; lia).
      rewrite IM in H0. destruct (closed s); simpl in *; auto; clear - H0 H1; lia. }
    destruct (tstep_nclose _ _ _ _ _ _ _ H) as [E|[[E Em]|E]].
    - assert (1 <= sumf nclose l) by (clear - E SN Hq; lia). apply SS0; auto.
    - apply SS0; auto. destruct Ht as [Ht1 _]. rewrite E in Ht1. exact Ht1.
    - pose proof (cnt_zero_all _ _ _ _ (IO Hfc) Hn) as Ot. rewrite E in Ot. discriminate. }
  constructor; simpl; auto.
  - (* iC *)
    pose proof (cnt_lupd lock_pc l i t t' Hn) as CL.
    destruct (tstep_lock _ _ _ _ _ _ _ H) as [[E1 E2]|[(E1 & E2 & E3 & E4)|(E1 & E2 & E3)]].
    + rewrite E1, <- IC. rewrite E2 in CL. clear - CL. lia.
    + rewrite E2. rewrite E1 in IC. rewrite E3, E4 in CL. simpl in CL. clear - CL IC. lia.
    + rewrite E1. rewrite E2, E3 in CL. simpl in CL. clear - CL LK1. lia.
  - (* iG *)
    intros Hc He.
    assert (Hrp : fix_repoll c = true) by (unfold eof_safe in Hc; apply Bool.andb_true_iff in Hc; tauto).
    destruct (tstep_eof _ _ _ _ _ _ _ Hrp Ht H He) as [?|[H1 H2]]; auto.
    destruct (IG Hc H1) as [G1 G2]. split; [apply Hm; auto|].
    destruct (H2 G2) as [?|Hs]; auto.
    destruct (fix_close c) eqn:Efc.
    + pose proof (cnt_zero_all _ _ _ _ (IN eq_refl Hc (or_introl H1)) Hn). congruence.
    + pose proof (cnt_zero_all _ _ _ _ (ID eq_refl G1) Hn). congruence.
  - (* iH *)
    apply Forall_lupd; auto.
    eapply Forall_impl; [|exact IH]. intros a Ha. eapply TInv_mono; eauto.
  - (* iI *)
    intros Hc H1 H2. pose proof (cnt_lupd helper_pc l i t t' Hn) as CH.
    destruct (tstep_helper _ _ _ _ _ _ _ Hc H H1 H2) as [Hh|(Hh & H3 & H4)].
    + rewrite Hh in CH. destruct (helper_pc (tpc t)) eqn:Eh; unfold b2n in CH; [pose proof (cnt_mem _ _ _ _ Hn Eh) as CM; clear - CH CM|clear - CH]; lia.
    + specialize (II Hc H3 H4). rewrite Hh in CH. unfold b2n in CH. destruct (helper_pc (tpc t')); clear - CH II; lia.
  - (* iJ *)
    intros j tj Hj. destruct (Nat.eq_dec i j) as [->|Hne].
    + rewrite (nth_lupd_same _ _ _ _ Hn) in Hj. inversion Hj; subst tj.
      destruct (tstep_taken _ _ _ _ _ _ _ H) as [[E1 E2]|(v & E1 & E2)].
      * rewrite E1, E2. auto.
      * rewrite E1, E2, taken_by_snoc_same. f_equal. auto.
    + rewrite nth_lupd_other in Hj by auto.
      destruct (tstep_taken _ _ _ _ _ _ _ H) as [[E1 E2]|(v & E1 & E2)].
      * rewrite E1. auto.
      * rewrite E1, taken_by_snoc_other by auto. auto.
Qed.

Lemma inv_step c x a x' : Inv c x -> step c x a = Some x' -> Inv c x'.
Proof.
  intros I H. destruct a as [i ch| |]; simpl in H.
  - destruct (nth_error (ths x) i) as [t|] eqn:Hn; [|discriminate].
    destruct (tstep c i ch (shd x) t) as [[s' t']|] eqn:Ht; [|discriminate].
    inversion H; subst. eapply inv_th; eauto.
  - destruct x as [s l]. destruct s as [bf cp cl m cu cc de ar pe se ta eo]. simpl in H.
    destruct ar; [|discriminate]. inversion H; subst; clear H.
    destruct I as [IA IB IC ID IE IF IG IH II IJ IK IM IN IO IQ]; simpl in *.
    constructor; simpl; auto.
  - destruct x as [s l]. destruct s as [bf cp cl m cu cc de ar pe se ta eo]. simpl in H.
    destruct pe; [discriminate|]. inversion H; subst; clear H.
    destruct I as [IA IB IC ID IE IF IG IH II IJ IK IM IN IO IQ]; simpl in *.
    assert (Hm : mono (mkS bf cp cl m cu cc de ar (S pe) se ta eo) (mkS bf cp cl m cu true eDE ar pe se ta eo)).
    { unfold mono; simpl; repeat split; auto. intros; discriminate. }
    constructor; simpl; auto; try (intros; discriminate).
    all: try (eapply Forall_impl; [|exact IH]; intros a Ha; eapply TInv_mono; [|exact Ha]; exact Hm).
    all: try (eapply Forall_impl; [|exact IK]; intros a Ha; eapply RInv_mono; [|exact Ha]; exact Hm).
Qed.

Lemma cnt_init p progs : p Idle = false -> cnt p (map (fun q => mkT q Idle []) progs) = 0.
Proof. intros Hp. induction progs; simpl; auto. rewrite Hp; simpl; auto. Qed.

Lemma inv_init c size progs : wf_progs progs = true -> Inv c (init size progs).
Proof.
  intros Hw. constructor; simpl; auto; try (intros; discriminate); try lia.
  - apply cnt_init; auto.
  - unfold wf_progs in Hw. induction progs as [|q r IH]; simpl in *; constructor.
    + apply Bool.andb_true_iff in Hw. split; simpl; tauto.
    + apply IH. apply Bool.andb_true_iff in Hw. tauto.
  - intros i t Hn. apply nth_error_In in Hn. apply in_map_iff in Hn. destruct Hn as (q & <- & _). reflexivity.
  - clear Hw. induction progs; simpl; constructor; auto. constructor.
  - clear Hw. induction progs; simpl; auto.
  - intros. apply cnt_init; auto.
  - intros. apply cnt_init; auto.
  - intros. apply cnt_init; auto.
Qed.

Lemma inv_run c x l x' : Inv c x -> run c x l = Some x' -> Inv c x'.
Proof.
  revert x; induction l as [|a r IH]; intros x I H; simpl in H.
  - inversion H; subst; auto.
  - destruct (step c x a) eqn:E; [|discriminate]. eapply IH; [|exact H]. eapply inv_step; eauto.
Qed.

Theorem inv_reachable c size progs x : wf_progs progs = true -> reachable c size progs x -> Inv c x.
Proof. intros Hw [l Hl]. eapply inv_run; [apply inv_init; exact Hw|exact Hl]. Qed.

(* ================================================================== derived theorems *)

(* ---- FIFO, at most once ---- *)
Lemma subseq_nil_r a : subseq a [] -> a = [].
Proof. destruct a; simpl; tauto. Qed.
Lemma subseq_refl a : subseq a a.
Proof. induction a; simpl; auto. Qed.
Lemma subseq_app_r a b c : subseq a b -> subseq a (b ++ c).
Proof.
  revert a; induction b as [|y b IH]; intros a H.
  - apply subseq_nil_r in H. subst. simpl. destruct c; exact I.
  - destruct a as [|x a]; simpl in *; auto. destruct H as [[-> H]|H]; [left|right]; auto.
Qed.
Lemma subseq_filter i (l : list (nat * N)) : subseq (taken_by i l) (map snd l).
Proof.
  unfold taken_by. induction l as [|[j v] l IH]; simpl; auto.
  destruct (Nat.eqb j i); simpl; auto.
  destruct (map snd (filter _ l)) eqn:E; simpl; auto.
Qed.

Theorem fifo_at_most_once c size progs x :
  wf_progs progs = true -> reachable c size progs x ->
  sent (shd x) = map snd (taken (shd x)) ++ buf (shd x) /\
  length (buf (shd x)) <= cap (shd x) /\
  forall i t, nth_error (ths x) i = Some t ->
    items (rets t) = taken_by i (taken (shd x)) /\ subseq (items (rets t)) (sent (shd x)).
Proof.
  intros Hw Hr. pose proof (inv_reachable _ _ _ _ Hw Hr) as I. destruct I.
  repeat split; auto.
  rewrite iA0, (iJ0 _ _ H). apply subseq_app_r, subseq_filter.
Qed.

(* ---- data queued before Close is returned before EOF (fixed code) ---- *)
Theorem data_before_eof c size progs x :
  eof_safe c = true -> wf_progs progs = true -> reachable c size progs x ->
  forall i t, nth_error (ths x) i = Some t -> In (KRecv, RErr eEOF) (rets t) ->
    closed (shd x) = true /\ buf (shd x) = [] /\ sent (shd x) = map snd (taken (shd x)).
Proof.
  intros Hc Hw Hr i t Hn Hin. pose proof (inv_reachable _ _ _ _ Hw Hr) as I. destruct I.
  pose proof (Forall_nth _ _ _ _ iK0 Hn) as Hr'. unfold RInv in Hr'.
  rewrite Forall_forall in Hr'. specialize (Hr' _ Hin). simpl in Hr'.
  destruct (iG0 Hc (proj2 Hr' eq_refl)) as [G1 G2]. repeat split; auto.
  rewrite iA0, G2, app_nil_r. reflexivity.
Qed.

(* a Recv never reports success without an item; Close reports nil at most once, else EOF *)
Theorem recv_error_not_nil c size progs x :
  wf_progs progs = true -> reachable c size progs x ->
  forall i t e, nth_error (ths x) i = Some t -> In (KRecv, RErr e) (rets t) -> e <> 0%N.
Proof.
  intros Hw Hr i t e Hn Hin. pose proof (inv_reachable _ _ _ _ Hw Hr) as I. destruct I.
  pose proof (Forall_nth _ _ _ _ iK0 Hn) as Hr'. unfold RInv in Hr'.
  rewrite Forall_forall in Hr'. specialize (Hr' _ Hin). simpl in Hr'. tauto.
Qed.


Theorem close_once c size progs x :
  wf_progs progs = true -> reachable c size progs x ->
  sumf nclose (ths x) <= 1 /\
  (1 <= sumf nclose (ths x) -> closed (shd x) = true) /\
  forall i t r, nth_error (ths x) i = Some t -> In (KClose, r) (rets t) -> r = RErr eNil \/ r = RErr eEOF.
Proof.
  intros Hw Hr. pose proof (inv_reachable _ _ _ _ Hw Hr) as I. destruct I.
  assert (H : sumf nclose (ths x) <= b2n (closed (shd x))).
  { rewrite <- iM0. apply sumf_le. intros t. unfold phi. lia. }
  repeat split.
  - destruct (closed (shd x)); simpl in H; lia.
  - destruct (closed (shd x)); simpl in H; auto; lia.
  - intros i t r Hn Hin. pose proof (Forall_nth _ _ _ _ iK0 Hn) as Hr'. unfold RInv in Hr'.
    rewrite Forall_forall in Hr'. specialize (Hr' _ Hin). simpl in Hr'.
    destruct r as [v|e]; [contradiction|]. destruct Hr' as [->| ->]; auto.
Qed.

(* ---- no lost wake-up after Close (fixed code) ---- *)
Definition never_blocks (p : pc) : bool :=
  match p with Idle | R_select _ | S_select _ _ | R_barrier | C2_wait => false | _ => true end.

Lemma tstep_never_blocks c i ch s t : never_blocks (tpc t) = true -> tstep c i ch s t <> None.
Proof.
  intros Hp. unfold tstep, recv_fail. destruct t as [pg p rs]; simpl in *.
  destruct p; try discriminate Hp;
    repeat match goal with
    | |- context [if ?b then _ else _] => destruct b
    | |- context [match pop ?i ?s with _ => _ end] => destruct (pop i s) as [[? ?]|]
    end; discriminate.
Qed.

Lemma enabled_th c x i ch t : nth_error (ths x) i = Some t ->
  enabled c x (Th i ch) = match tstep c i ch (shd x) t with Some _ => true | None => false end.
Proof. intros Hn. unfold enabled, step. rewrite Hn. destruct (tstep c i ch (shd x) t) as [[? ?]|]; auto. Qed.

Lemma enabled_never_blocks c x i t : nth_error (ths x) i = Some t -> never_blocks (tpc t) = true ->
  enabled c x (Th i false) = true.
Proof.
  intros Hn Hp. rewrite (enabled_th _ _ _ _ _ Hn).
  pose proof (tstep_never_blocks c i false (shd x) t Hp). destruct (tstep c i false (shd x) t); auto; congruence.
Qed.

Lemma helper_never_blocks p : helper_pc p = true -> never_blocks p = true.
Proof. destruct p; simpl; auto. Qed.

(* a thread that is about to cancel the deadline channel exists and can step whenever the queue
   is closed and the current deadline channel is still open *)
Lemma helper_enabled c x : Inv c x -> fix_recheck c = true -> closed (shd x) = true ->
  cur_closed (shd x) = false ->
  exists k tk, nth_error (ths x) k = Some tk /\ helper_pc (tpc tk) = true /\ enabled c x (Th k false) = true.
Proof.
  intros I Hc Hcl Hcc. destruct I.
  destruct (cnt_pos_exists helper_pc (ths x)) as (j & tj & Hj & Hl); [auto|].
  exists j, tj. split; [auto|]. split; [auto|].
  eapply enabled_never_blocks; eauto. now apply helper_never_blocks.
Qed.

Lemma open_gen s g : g <= cur s -> chan_closed s g = false -> cur_closed s = false.
Proof.
  intros Hg Ecc. unfold chan_closed in Ecc. apply Bool.orb_false_iff in Ecc. destruct Ecc as [E1 E2].
  apply Nat.ltb_ge in E1. assert (g = cur s) by lia. subst g.
  rewrite Nat.eqb_refl in E2. simpl in E2. exact E2.
Qed.

(* a Send parked in its blocking select on a closed queue (possible with the new Close only: it
   was in flight when `closed` was published) can step, or a canceller can *)
Lemma sselect_progress c x j tj v g : Inv c x -> fix_recheck c = true -> closed (shd x) = true ->
  nth_error (ths x) j = Some tj -> tpc tj = S_select v g ->
  enabled c x (Th j false) = true \/
  exists k tk, nth_error (ths x) k = Some tk /\ helper_pc (tpc tk) = true /\ enabled c x (Th k false) = true.
Proof.
  intros I Hc Hcl Hj Hp. rewrite (enabled_th _ _ _ _ _ Hj).
  pose proof (Forall_nth _ _ _ _ (iH _ _ I) Hj) as [Hg _]. rewrite Hp in Hg.
  destruct tj as [pg p rs]; simpl in *. subst p. unfold tstep; simpl.
  destruct (chan_closed (shd x) g) eqn:Ecc; simpl.
  - left. destruct (Nat.ltb (length (buf (shd x))) (cap (shd x))); simpl; auto.
  - destruct (Nat.ltb (length (buf (shd x))) (cap (shd x))); simpl; auto.
    right. apply helper_enabled; auto. eapply open_gen; eauto.
Qed.

(* the holder of d.m can step, or a canceller can *)
Lemma holder_progress c x : Inv c x -> fix_recheck c = true -> closed (shd x) = true ->
  mu (shd x) <> None ->
  exists j tj, nth_error (ths x) j = Some tj /\
    (lock_pc (tpc tj) || helper_pc (tpc tj) = true)%bool /\ enabled c x (Th j false) = true.
Proof.
  intros I Hc Hcl Hm. pose proof (iC _ _ I) as IC.
  destruct (mu (shd x)) eqn:Em; [|congruence].
  destruct (cnt_pos_exists lock_pc (ths x)) as (j & tj & Hj & Hl); [lia|].
  destruct (never_blocks (tpc tj)) eqn:Enb.
  - exists j, tj. split; [auto|]. split; [rewrite Hl; auto|]. eapply enabled_never_blocks; eauto.
  - destruct (tpc tj) eqn:Ep; try discriminate Hl; try discriminate Enb.
    destruct (sselect_progress c x j tj v g I Hc Hcl Hj Ep) as [He|(k & tk & Hk & Hh & He)].
    + exists j, tj. split; [auto|]. split; [rewrite Ep; auto|]. exact He.
    + exists k, tk. split; [auto|]. split; [rewrite Hh; apply Bool.orb_true_r|]. exact He.
Qed.

(* Every unfinished thread, once `closed` is set, can step itself, or the holder of d.m can, or a
   thread that is never blocked and about to cancel the deadline (Close/SetDeadline) can. *)
Theorem no_stuck_after_close c size progs x :
  fix_recheck c = true -> wf_progs progs = true -> reachable c size progs x ->
  closed (shd x) = true ->
  forall i t, nth_error (ths x) i = Some t -> unfinished t = true ->
    enabled c x (Th i false) = true \/
    exists j tj, j <> i /\ nth_error (ths x) j = Some tj /\
                 (lock_pc (tpc tj) || helper_pc (tpc tj) = true)%bool /\
                 enabled c x (Th j false) = true.
Proof.
  intros Hc Hw Hr Hcl i t Hn Hu. pose proof (inv_reachable _ _ _ _ Hw Hr) as I.
  destruct (never_blocks (tpc t)) eqn:Enb; [left; eapply enabled_never_blocks; eauto|].
  (* waiting for d.m: the holder or a canceller moves *)
  assert (Hwait : lock_pc (tpc t) = false -> helper_pc (tpc t) = false -> mu (shd x) <> None ->
    exists j tj, j <> i /\ nth_error (ths x) j = Some tj /\
                 (lock_pc (tpc tj) || helper_pc (tpc tj) = true)%bool /\ enabled c x (Th j false) = true).
  { intros Hl Hh Hm. destruct (holder_progress c x I Hc Hcl Hm) as (j & tj & Hj & Hk & He).
    exists j, tj. split; [|auto].
    intros ->. rewrite Hn in Hj. inversion Hj; subst tj. rewrite Hl, Hh in Hk. discriminate. }
  rewrite (enabled_th _ _ _ _ _ Hn).
  destruct t as [pg p rs]; simpl in *. destruct p; try discriminate Enb.
  - (* Idle *)
    unfold unfinished in Hu; simpl in Hu. destruct pg as [|o pg]; [discriminate|].
    unfold tstep; simpl. destruct o.
    + left. destruct (pop i (shd x)) as [[? ?]|]; auto.
    + destruct (mu (shd x)) eqn:Em; [right; apply Hwait; auto; congruence|left; auto].
    + destruct (fix_close c); [left; destruct (closed (shd x)); auto|].
      destruct (mu (shd x)) eqn:Em; [right; apply Hwait; auto; congruence|left; auto].
    + left. destruct (closed (shd x)); auto.
    + left. destruct (closed (shd x)); auto.
  - (* R_select g *)
    unfold tstep; simpl.
    destruct (chan_closed (shd x) g) eqn:Ecc; simpl.
    + left. destruct (buf (shd x)) eqn:Eb; simpl; auto. unfold pop. rewrite Eb. auto.
    + destruct (pop i (shd x)) as [[? ?]|] eqn:Ep; [left; auto|right].
      pose proof (Forall_nth _ _ _ _ (iH _ _ I) Hn) as [Hg _]. simpl in Hg.
      destruct (helper_enabled c x I Hc Hcl (open_gen _ _ Hg Ecc)) as (k & tk & Hk & Hh & He).
      exists k, tk. split; [|split; [auto|split; [rewrite Hh; apply Bool.orb_true_r|auto]]].
      intros ->. rewrite Hn in Hk. inversion Hk; subst tk. discriminate.
  - (* R_barrier: waits for d.m *)
    unfold tstep; simpl.
    destruct (mu (shd x)) eqn:Em; [right; apply Hwait; auto; congruence|left; auto].
  - (* S_select *)
    destruct (sselect_progress c x i _ v g I Hc Hcl Hn eq_refl) as [He|(k & tk & Hk & Hh & He)].
    + left. rewrite (enabled_th _ _ _ _ _ Hn) in He. exact He.
    + right. exists k, tk. split; [|split; [auto|split; [rewrite Hh; apply Bool.orb_true_r|auto]]].
      intros ->. rewrite Hn in Hk. inversion Hk; subst tk. discriminate.
  - (* C2_wait: waits for d.m *)
    unfold tstep; simpl.
    destruct (mu (shd x)) eqn:Em; [right; apply Hwait; auto; congruence|left; auto].
Qed.

(* ---- Close is not held up by a Send blocked on a full queue (new Close) ---- *)
Theorem close_releases_blocked_send c size progs x :
  fix_close c = true -> fix_recheck c = true -> wf_progs progs = true -> reachable c size progs x ->
  (* Close never waits before it has published `closed` and cancelled the deadline channel *)
  (forall i t, nth_error (ths x) i = Some t ->
     (tpc t = Idle /\ exists r, prog t = OClose :: r) \/ tpc t = C2_cancel ->
     enabled c x (Th i false) = true) /\
  (* once `closed` is published a Send parked in its blocking select (holding d.m, queue full or
     not) can step and return, or a thread that is never blocked is about to cancel its channel *)
  (closed (shd x) = true -> forall i t v g, nth_error (ths x) i = Some t -> tpc t = S_select v g ->
     enabled c x (Th i false) = true \/
     exists k tk, nth_error (ths x) k = Some tk /\ helper_pc (tpc tk) = true /\ enabled c x (Th k false) = true) /\
  (* a cancelled Send reports a non-nil error unless it enqueued *)
  (forall i t, nth_error (ths x) i = Some t -> tpc t = S_err -> derr (shd x) <> 0%N).
Proof.
  intros Hfc Hc Hw Hr. pose proof (inv_reachable _ _ _ _ Hw Hr) as I. repeat split.
  - intros i t Hn [[Hp (r & Hpr)]|Hp].
    + rewrite (enabled_th _ _ _ _ _ Hn). destruct t as [pg p rs]; simpl in *; subst.
      unfold tstep; simpl. rewrite Hfc. destruct (closed (shd x)); auto.
    + eapply enabled_never_blocks; eauto. rewrite Hp. reflexivity.
  - intros Hcl i t v g Hn Hp. eapply sselect_progress; eauto.
  - intros i t Hn Hp. pose proof (Forall_nth _ _ _ _ (iH _ _ I) Hn) as [Hg _]. rewrite Hp in Hg. exact Hg.
Qed.

(* nothing is enqueued after a Close has returned nil: no Send is past its `closed` check (so no
   step can put an item any more), in both versions of Close *)
Theorem no_enqueue_after_close c size progs x :
  wf_progs progs = true -> reachable c size progs x -> 1 <= sumf nclose (ths x) ->
  closed (shd x) = true /\ cnt sendstage (ths x) = 0 /\
  forall a x', step c x a = Some x' -> sent (shd x') = sent (shd x) /\ 1 <= sumf nclose (ths x').
Proof.
  intros Hw Hr Hq. pose proof (inv_reachable _ _ _ _ Hw Hr) as I.
  assert (Hcl : closed (shd x) = true).
  { assert (sumf nclose (ths x) <= sumf phi (ths x)) by (apply sumf_le; intros a; unfold phi; lia).
    rewrite (iM _ _ I) in H. destruct (closed (shd x)); simpl in *; auto; lia. }
  assert (S0 : cnt sendstage (ths x) = 0).
  { destruct (fix_close c) eqn:Efc; [apply (iQ _ _ I Efc Hq)|apply (iD _ _ I Efc Hcl)]. }
  split; [auto|]. split; [auto|].
  intros a x' Hs. destruct a as [i ch| |]; simpl in Hs.
  - destruct (nth_error (ths x) i) as [t|] eqn:Hn; [|discriminate].
    destruct (tstep c i ch (shd x) t) as [[s' t']|] eqn:Ht; [|discriminate].
    inversion Hs; subst; clear Hs. simpl.
    pose proof (cnt_zero_all _ _ _ _ S0 Hn) as St.
    pose proof (sumf_lupd nclose (ths x) i t t' Hn) as SN.
    assert (Hnc : nclose t <= nclose t' /\ sent s' = sent (shd x)).
    { clear SN. destruct (shd x) as [bf cp cl m cu cc de ar pe se ta eo].
      tcases Ht; unfold nclose in *; unf; simpl in *; subst; rewrite ?filter_app, ?app_length; simpl; split; auto; try lia; try discriminate.
      all: try (destruct k; simpl; auto; fail).
      all: try (destruct (_ =? 1)%N; simpl; auto; fail). }
    split; [tauto|lia].
  - destruct (armed (shd x)); [|discriminate]. inversion Hs; subst; simpl; auto.
  - destruct (pending (shd x)); [discriminate|]. inversion Hs; subst; simpl; auto.
Qed.

(* ---- an expired / cancelled deadline releases blocked callers ---- *)
Theorem deadline_releases c size progs x :
  wf_progs progs = true -> reachable c size progs x -> cur_closed (shd x) = true ->
  forall i t, nth_error (ths x) i = Some t ->
    (exists g, tpc t = R_select g) \/ (exists v g, tpc t = S_select v g) ->
    enabled c x (Th i false) = true /\ derr (shd x) <> 0%N.
Proof.
  intros Hw Hr Hcc i t Hn Hp. pose proof (inv_reachable _ _ _ _ Hw Hr) as I. destruct I.
  split; [|apply iF0; auto].
  rewrite (enabled_th _ _ _ _ _ Hn).
  pose proof (Forall_nth _ _ _ _ iH0 Hn) as [Hg _].
  assert (Hch : forall g, g <= cur (shd x) -> chan_closed (shd x) g = true).
  { intros g Hle. unfold chan_closed. rewrite Hcc.
    destruct (Nat.ltb_spec g (cur (shd x))); simpl; auto.
    assert (g = cur (shd x)) by lia. subst. now rewrite Nat.eqb_refl. }
  destruct t as [pg p rs]; simpl in *.
  destruct Hp as [[g ->]|(v & g & ->)]; unfold tstep; simpl; rewrite (Hch g Hg); simpl.
  - destruct (buf (shd x)) eqn:Eb; simpl; auto. unfold pop; rewrite Eb; auto.
  - destruct (Nat.ltb (length (buf (shd x))) (cap (shd x))); simpl; auto.
Qed.

Lemma timer_expiry c x x' : step c x TimerRun = Some x' ->
  cur_closed (shd x') = true /\ derr (shd x') = eDE.
Proof.
  simpl. destruct (pending (shd x)); [discriminate|]. intros H; inversion H; subst; simpl; auto.
Qed.

(* ---- every transition decreases the measure: all schedules are finite ---- *)
Definition tsum (l : list thread) : nat := fold_right (fun t a => tmeasure t + a) 0 l.
Lemma tsum_lupd l i t t' : nth_error l i = Some t -> tsum (lupd l i t') + tmeasure t = tsum l + tmeasure t'.
Proof.
  revert i; induction l as [|y r IH]; intros [|i] H; simpl in *; try discriminate.
  - inversion H; subst. lia.
  - specialize (IH i H). unfold tsum in *. lia.
Qed.

Definition tw (s : sh) : nat := (if armed s then 2 else 0) + pending s.

Lemma tstep_measure c i ch s t s' t' : tstep c i ch s t = Some (s', t') ->
  tmeasure t' + tw s' < tmeasure t + tw s.
Proof.
  intros H. destruct s as [bf cp cl m cu cc de ar pe se ta eo].
  tcases H; unfold tmeasure, tw; unf; simpl in *; subst; try lia.
  all: try (destruct k, ar; simpl; lia).
  all: try (destruct (_ =? 1)%N; simpl; lia).
Qed.

Theorem step_decreases c x a x' : step c x a = Some x' -> measure x' < measure x.
Proof.
  intros H. destruct a as [i ch| |]; simpl in H.
  - destruct (nth_error (ths x) i) as [t|] eqn:Hn; [|discriminate].
    destruct (tstep c i ch (shd x) t) as [[s' t']|] eqn:Ht; [|discriminate].
    inversion H; subst; clear H. unfold measure; simpl.
    pose proof (tsum_lupd _ _ _ t' Hn). pose proof (tstep_measure _ _ _ _ _ _ _ Ht).
    unfold tsum, tw in *. lia.
  - destruct (armed (shd x)) eqn:Ea; [|discriminate]. inversion H; subst; clear H.
    unfold measure; simpl. rewrite Ea. lia.
  - destruct (pending (shd x)) eqn:Ep; [discriminate|]. inversion H; subst; clear H.
    unfold measure; simpl. rewrite Ep. lia.
Qed.

Theorem run_bounded c x l x' : run c x l = Some x' -> length l + measure x' <= measure x.
Proof.
  revert x; induction l as [|a r IH]; intros x H; simpl in H.
  - inversion H; subst. simpl. lia.
  - destruct (step c x a) eqn:E; [|discriminate]. apply IH in H. apply step_decreases in E. simpl. lia.
Qed.

(* own steps: a thread takes at most tmeasure-many steps of its own *)
Theorem own_step_decreases c i ch s t s' t' : tstep c i ch s t = Some (s', t') -> tmeasure t' < tmeasure t + (tw s - tw s').
Proof. intros H. pose proof (tstep_measure _ _ _ _ _ _ _ H). lia. Qed.

(* ---- after Close, a state in which nothing can move has every call returned ---- *)
Lemma terminal_th c x i : terminal c x = true -> i < length (ths x) -> enabled c x (Th i false) = false.
Proof.
  unfold terminal. rewrite forallb_forall. intros H Hi.
  assert (Hin : In (Th i false) (actors x)).
  { unfold actors. right. right. apply in_flat_map. exists i. split; [apply in_seq; lia|simpl; auto]. }
  specialize (H _ Hin). now apply Bool.negb_true_iff in H.
Qed.

Theorem close_terminates c size progs x :
  fix_recheck c = true -> wf_progs progs = true -> reachable c size progs x ->
  closed (shd x) = true -> terminal c x = true -> all_finished x = true.
Proof.
  intros Hc Hw Hr Hcl Ht. unfold all_finished. apply forallb_forall. intros t Hin.
  apply In_nth_error in Hin. destruct Hin as [i Hn].
  destruct (unfinished t) eqn:Hu; auto.
  assert (Hi : i < length (ths x)) by (apply nth_error_Some; congruence).
  destruct (no_stuck_after_close _ _ _ _ Hc Hw Hr Hcl i t Hn Hu) as [He|(j & tj & _ & Hj & _ & He)].
  - rewrite (terminal_th _ _ _ Ht Hi) in He. discriminate.
  - assert (Hjl : j < length (ths x)) by (apply nth_error_Some; congruence).
    rewrite (terminal_th _ _ _ Ht Hjl) in He. discriminate.
Qed.
