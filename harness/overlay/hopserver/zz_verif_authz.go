//go:build verif

package hopserver

import (
	"net"
	"os"

	"github.com/sirupsen/logrus"

	"hop.computer/hop/authgrants"
	"hop.computer/hop/authkeys"
	"hop.computer/hop/certs"
	"hop.computer/hop/transport"
	"hop.computer/hop/tubes"
)

// VerifSession wraps an unexported hopSession for the C05/C07 correspondence drivers.
type VerifSession struct{ s *hopSession }

// VerifNewSession builds a session the way HopServer.newSession does (same fields), except that
// the tube muxer runs over the given in-memory MsgConn and the transport handle only carries the
// client's leaf certificate. It registers the session with the server but does not start it.
func (s *HopServer) VerifNewSession(conn transport.MsgConn, leaf *certs.Certificate) *VerifSession {
	muxerConfig := tubes.Config{
		Timeout: s.config.DataTimeout,
		Log:     logrus.WithField("muxer", "server"),
	}
	return s.VerifNewSessionOn(tubes.Server(conn, &muxerConfig), leaf)
}

// VerifNewSessionOn is VerifNewSession over an already running server-side muxer (the C05 driver
// performs the user-authorization step of many connections over one muxer: each
// checkAuthorization accepts the next tube).
func (s *HopServer) VerifNewSessionOn(mux *tubes.Muxer, leaf *certs.Certificate) *VerifSession {
	sess := &hopSession{
		transportConn:   transport.VerifAuthzHandle(leaf),
		tubeMuxer:       mux,
		controlChannels: []net.Conn{},
		server:          s,
		pty:             make(chan *os.File, 1),
		ID:              sessID(s.nextSessionID.Load()),
	}
	s.nextSessionID.Add(1)
	s.sessionLock.Lock()
	s.sessions[sess.ID] = sess
	s.sessionLock.Unlock()
	return &VerifSession{sess}
}

// VerifBareSession is a session without any connection: only for calling checkCmd / checkIntent.
func (s *HopServer) VerifBareSession(user string, usingGrant bool, actions []authgrants.Authgrant) *VerifSession {
	return &VerifSession{&hopSession{server: s, user: user, usingAuthGrant: usingGrant,
		authorizedActions: append([]authgrants.Authgrant(nil), actions...)}}
}

// Start runs the real hopSession.start (user authorization, then the tube dispatch loop); blocks.
func (v *VerifSession) Start() { v.s.start() }

// CheckAuthorization runs the real hopSession.checkAuthorization on the next accepted tube.
func (v *VerifSession) CheckAuthorization() bool { return v.s.checkAuthorization() }

// CheckCmd runs the real hopSession.checkCmd.
func (v *VerifSession) CheckCmd(cmd string, shell bool) (uint32, error) {
	id, err := v.s.checkCmd(cmd, shell)
	return uint32(id), err
}

// CheckIntent runs the real hopSession.checkIntent.
func (v *VerifSession) CheckIntent(i authgrants.Intent, c *certs.Certificate) error {
	return v.s.checkIntent(i, c)
}

// State reads what user authorization left in the session.
func (v *VerifSession) State() (user string, usingGrant bool, actions []authgrants.Authgrant) {
	return v.s.user, v.s.usingAuthGrant, append([]authgrants.Authgrant(nil), v.s.authorizedActions...)
}

// DrainPty keeps the session's pty channel (capacity 1, normally read by a window-size tube)
// empty, so that a second exec request of the same session does not block in startCodex.
func (v *VerifSession) DrainPty() {
	go func() {
		for range v.s.pty {
		}
	}()
}

// StopMuxer stops the session's muxer (ends Start).
func (v *VerifSession) StopMuxer() {
	if v.s.tubeMuxer != nil {
		v.s.tubeMuxer.Stop()
	}
}

// VerifAgMap / VerifKeyStore expose the server's grant map and transport key set.
func (s *HopServer) VerifAgMap() *authgrants.AuthgrantMapSync { return s.agMap }
func (s *HopServer) VerifKeyStore() *authkeys.SyncAuthKeySet  { return s.keyStore }
