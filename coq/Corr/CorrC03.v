(* Correspondence entry points for C03: see Corr/PacketCorr.v (c03_ok, c03w_ok, c03rp_ok). *)
From Hop Require Export PacketCorr.
