(* RecvLoop.v — the receive loops of both transport endpoints (C03, C15, session-packet part of C10):
     transport/server.go   Serve (receive goroutine: rawRead := make([]byte, 65535); for { readPacket }),
                           readPacket (ReadMsgUDP, msgLen < 4, switch on the message type),
                           setHandshakeState -> createSessionFromHandshakeLocked, finishHandshake
                           (only their effect on the session table)
     transport/client.go   clientHandshakeLocked (buf := make([]byte, 65535); the blocking handshake reads),
                           listen (ciphertext := make([]byte, 65535); for { ReadMsgUDP; handleSessionMessage })
   on top of Model/Packet.v (handleSessionMessage of both endpoints, the Handle's calls).
   The cryptographic content of the handshake handlers is NOT here (Model/HsServer.v, C01/C10): it is a
   pair of Section variables HS / CHS returning, for a handshake-typed datagram, the handler's new private
   state and the list of session-table effects it performs; the table effects themselves
   (createSessionFromHandshakeLocked, finishHandshake) are modelled here.
   Definitions only. *)
From Hop Require Import Base Replay Packet.
Open Scope N_scope.

(* ---- constants (transport/common.go, and the three make([]byte, 65535)) ---- *)
Definition recv_buf_len : N := 65535.            (* Serve: rawRead; listen: ciphertext; clientHandshakeLocked: buf *)
Definition max_total_packet_size : N := 64535.   (* MaxTotalPacketSize = 65535 - 1000 *)
Definition mac_len : N := 16.                    (* MacLen — what MaxPlaintextSize subtracts *)
(* MaxPlaintextSize = MaxTotalPacketSize - HeaderLen - SessionIDLen - CounterLen - MacLen *)
Definition max_plaintext_size_formula : N :=
  max_total_packet_size - header_len - session_id_len - counter_len - mac_len.
(* the longest datagram a WriteMsg / Write chunk produces: 16 header bytes + MaxPlaintextSize + TagLen (32, not MacLen) *)
Definition max_datagram_len : N := ad_len + max_plaintext_size + tag_len.
Definition udp4_max_payload : N := 65507.        (* 65535 - 20 (IPv4) - 8 (UDP) *)
Definition udp6_max_payload : N := 65527.        (* 65535 - 8 (UDP); no jumbograms *)

(* ReadMsgUDP(buf, nil) into a recv_buf_len-byte buffer: the socket keeps the first len(buf) bytes of a longer
   datagram and discards the rest; the loop then works on buf[:msgLen] *)
Definition sock_read (raw : bytes) : bytes := take recv_buf_len raw.

(* ---- readPacket's switch, in the order of the Go source ---- *)
Definition mt_client_hello : N := 1.
Definition mt_server_hello : N := 2.
Definition mt_client_ack : N := 3.
Definition mt_server_auth : N := 4.
Definition mt_client_auth : N := 5.
Definition mt_client_request_hidden : N := 8.

Inductive dclass :=
| DShort        (* msgLen < 4: ErrInvalidMessage *)
| DHandshake    (* ClientHello, ClientAck, ClientAuth, ClientRequestHidden: a handshake handler runs *)
| DServerOnly   (* ServerHello, ServerAuth: ErrUnexpectedMessage *)
| DSession      (* Transport, Control: handleSessionMessage, its error returned *)
| DDefault.     (* anything else: handleSessionMessage, its error ignored, ErrInvalidMessage returned *)

Definition classify (d : bytes) : dclass :=
  if len d <? 4 then DShort else
  let t := nth 0 d 0 in
  if t =? mt_client_hello then DHandshake
  else if t =? mt_client_ack then DHandshake
  else if t =? mt_client_auth then DHandshake
  else if (t =? mt_server_hello) || (t =? mt_server_auth) then DServerOnly
  else if (t =? mt_transport) || (t =? mt_control) then DSession
  else if t =? mt_client_request_hidden then DHandshake
  else DDefault.

(* ---- what a handshake handler can do to the session table ---- *)
Inductive hs_eff :=
| HCreate (cands : list bytes) (a : addr)
    (* setHandshakeState -> createSessionFromHandshakeLocked: cands = the successive rand.Read results
       (at most 100 are tried), a = the handshake's remote address *)
| HFinish (id kr ks : bytes) (cap : N) (full : bool).
    (* finishHandshake on hs.sessionID = id: kr / ks = client-to-server / server-to-client key,
       cap = maxBufferedPacketsPerConnection, full = the pendingConnections queue was full (closeLocked) *)

(* &SessionState{sessionID: id, remoteAddr: a}: no keys, no handle, handleState = finishingHandshake *)
Definition pending_sess (id : bytes) (a : addr) : sess := mkSess id [] None 0 win_init [] 0 [] false a.

(* for i := 0; i < 100; i++ { rand.Read(id); if exists { continue }; ... return } panic(...) *)
Fixpoint pick_free (cands : list bytes) (sv : server) : option bytes :=
  match cands with
  | [] => None
  | c :: r => match lookup sv c with None => Some c | Some _ => pick_free r sv end
  end.

(* finishHandshake: keys, a NEW handle (empty queue, empty reader buffer), handleState = established, then
   closeLocked if the accept queue is full.  Send counter and replay window are NOT reset. *)
Definition finish_sess (s : sess) (kr ks : bytes) (cap : N) (full : bool) : sess :=
  mkSess (sid s) ks (Some kr) (count s) (window s) [] cap [] full (remote s).

(* None = createSessionFromHandshakeLocked panics ("unable to generate a non-colliding sessionID") *)
Definition apply_eff (sv : server) (e : hs_eff) : option server :=
  match e with
  | HCreate cands a =>
    match pick_free (firstn 100 cands) sv with
    | None => None
    | Some id => Some (pending_sess id a :: sv)
    end
  | HFinish id kr ks cap full =>
    match lookup sv id with
    | None => Some sv                                            (* ErrUnknownSession *)
    | Some s => Some (update sv id (finish_sess s kr ks cap full))
    end
  end.

Fixpoint apply_effs (sv : server) (es : list hs_eff) : option server :=
  match es with
  | [] => Some sv
  | e :: r => match apply_eff sv e with None => None | Some sv' => apply_effs sv' r end
  end.

(* events of an endpoint: a datagram arrives at the socket (any bytes, any length, any source), or the
   application calls into the Handle of the session with this id (ReadMsg / Read / send / Write / Close —
   every one of them takes the session lock, so they interleave with the loop at datagram granularity) *)
Inductive lev :=
| LDgram (a : addr) (raw : bytes)
| LLocal (id : bytes) (e : ev).

Section Loop.
  Variable seal : bytes -> bytes -> bytes -> bytes.
  Variable open : bytes -> bytes -> bytes -> option bytes.
  Variable max : N.                                 (* MaxPlaintextSize *)

  (* ================================================================ server *)
  Variable H : Type.      (* everything the handshake handlers own: handshakes table, cookie key, configuration *)
  (* one handshake-typed datagram: handler state, session ids in the table, source, datagram ->
     new handler state and table effects; None = the handler panics *)
  Variable HS : H -> list bytes -> addr -> bytes -> option (H * list hs_eff).

  Record lsrv := mkL { l_h : H; l_tab : server; l_crashed : bool }.
  Definition crash (st : lsrv) : lsrv := mkL (l_h st) (l_tab st) true.

  (* one iteration of the Serve loop: readPacket on the datagram raw from a *)
  Definition srv_dgram (st : lsrv) (a : addr) (raw : bytes) : lsrv :=
    let d := sock_read raw in
    match classify d with
    | DShort => st
    | DServerOnly => st
    | DHandshake =>
      match HS (l_h st) (map sid (l_tab st)) a d with
      | None => crash st
      | Some (h', es) =>
        match apply_effs (l_tab st) es with
        | None => mkL h' (l_tab st) true
        | Some tab' => mkL h' tab' false
        end
      end
    | DSession =>
      match server_handle open (l_tab st) a d with
      | Ok (tab', _) => mkL (l_h st) tab' false
      | Err => st
      | Panic => crash st
      end
    | DDefault =>
      (* s.handleSessionMessage(addr, rawRead[:msgLen]); return ErrInvalidMessage *)
      match server_handle open (l_tab st) a d with
      | Ok (tab', _) => mkL (l_h st) tab' false
      | Err => st
      | Panic => crash st
      end
    end.

  (* a panic in the receive goroutine ends the process: nothing happens afterwards *)
  Definition srv_step (st : lsrv) (e : lev) : lsrv :=
    if l_crashed st then st else
    match e with
    | LDgram a raw => srv_dgram st a raw
    | LLocal id e =>
      match lookup (l_tab st) id with
      | Some s => mkL (l_h st) (update (l_tab st) id (fst (ep_step seal open max s e))) false
      | None => st
      end
    end.

  Definition srv_run (st : lsrv) (evs : list lev) : lsrv := fold_left srv_step evs st.

  (* ---- specification side: the history of ONE session, read off the event list alone ---- *)
  (* the events of the endpoint that concern session id B, as a history of Model/Packet.v:
     a datagram counts iff the loop hands it to handleSessionMessage and the session id it carries is B *)
  Definition ev_for (B : bytes) (e : lev) : list ev :=
    match e with
    | LLocal id e => if beq_bytes id B then [e] else []
    | LDgram a raw =>
      let d := sock_read raw in
      match classify d with
      | DSession | DDefault =>
        match peek_session d with
        | Some id => if beq_bytes id B then [EvIn a d] else []
        | None => []
        end
      | _ => []
      end
    end.
  Definition evs_for (B : bytes) (evs : list lev) : list ev := flat_map (ev_for B) evs.

  (* "no handshake handler finishes session B (again)" along a run: the only way the handshake side can touch
     an existing session (createSession only ever adds ids that are free) *)
  Definition eff_quiet (B : bytes) (e : hs_eff) : Prop :=
    match e with HCreate _ _ => True | HFinish id _ _ _ _ => id <> B end.
  Definition step_quiet (B : bytes) (st : lsrv) (e : lev) : Prop :=
    match e with
    | LDgram a raw =>
      match classify (sock_read raw) with
      | DHandshake =>
        match HS (l_h st) (map sid (l_tab st)) a (sock_read raw) with
        | Some (_, es) => Forall (eff_quiet B) es
        | None => True
        end
      | _ => True
      end
    | LLocal _ _ => True
    end.
  Fixpoint no_finish (B : bytes) (st : lsrv) (evs : list lev) : Prop :=
    match evs with
    | [] => True
    | e :: r => step_quiet B st e /\ no_finish B (srv_step st e) r
    end.

  (* ================================================================ client *)
  Variable C : Type.      (* the client's HandshakeState between its blocking reads *)
  (* one datagram read by clientHandshakeLocked (the source address is ignored: `n, _, _, _, err := ReadMsgUDP`):
     next handshake state, or the handshake ended — with the session it leaves, or with an error *)
  Variable CHS : C -> bytes -> C + option sess.

  Inductive lcli :=
  | CHs (c : C)            (* Handshake() is reading; listen is not running yet *)
  | COpen (s : sess)       (* clientStateOpen: listen loop running *)
  | CFail                  (* handshake returned an error *)
  | CCrash (s : sess).     (* listen panicked *)

  Definition cli_step (st : lcli) (e : lev) : lcli :=
    match st, e with
    | CHs c, LDgram _ raw =>
      (* whatever its type — a transport packet too — the datagram is taken as the next handshake message *)
      match CHS c (sock_read raw) with
      | inl c' => CHs c'
      | inr (Some s) => COpen s
      | inr None => CFail
      end
    | COpen s, LDgram a raw =>
      (* listen: no length guard, no switch on the type: straight to handleSessionMessage *)
      match client_handle open s a (sock_read raw) with
      | Ok (s', _) => COpen s'
      | Err => COpen s
      | Panic => CCrash s
      end
    | COpen s, LLocal _ e => COpen (fst (ep_step seal open max s e))
    | _, _ => st
    end.
  Definition cli_run (st : lcli) (evs : list lev) : lcli := fold_left cli_step evs st.

  Definition cli_ev_for (B : bytes) (e : lev) : list ev :=
    match e with
    | LLocal _ e => [e]
    | LDgram a raw =>
      let d := sock_read raw in
      match peek_session d with
      | Some id => if beq_bytes id B then [EvIn a d] else []
      | None => []
      end
    end.
  Definition cli_evs_for (B : bytes) (evs : list lev) : list ev := flat_map (cli_ev_for B) evs.

  (* ---- the authentic fresh subsequence of a history: datagrams that failed a check are dropped ---- *)
  Fixpoint auth_only (ss : sess) (evs : list ev) : list ev :=
    match evs with
    | [] => []
    | e :: r =>
      let '(s1, o) := ep_step seal open max ss e in
      match e, o with
      | EvIn _ _, ObIn oc => if outcome_authentic oc then e :: auth_only s1 r else auth_only s1 r
      | EvIn _ _, _ => auth_only s1 r
      | _, _ => e :: auth_only s1 r
      end
    end.

  (* every datagram of the history is authentic and fresh at the moment it arrives *)
  Fixpoint all_authentic (ss : sess) (evs : list ev) : Prop :=
    match evs with
    | [] => True
    | e :: r =>
      let '(s1, o) := ep_step seal open max ss e in
      match e with
      | EvIn _ pkt => (exists p, opens open ss pkt = Some p) /\ all_authentic s1 r
      | _ => all_authentic s1 r
      end
    end.
End Loop.
