(* Keccak.v — Keccak-p[1600, nr] written from FIPS 202 (section 3.2-3.4), executable.

   API (used by Cyclist.v, Kravatte.v and their importers):
     lanes                 = list N, 25 lanes of 64 bits, lane (x,y) at index x + 5*y
     keccak_p nr a         : the permutation Keccak-p[1600, nr] on 25 lanes (rounds 24-nr .. 23)
     lanes_of_bytes b      : 200 bytes (shorter input is zero-padded) -> 25 lanes, little endian
     bytes_of_lanes a      : lanes -> 8 bytes per lane, little endian
     keccak_p_bytes nr b   : the same permutation on a 200-byte string (always returns 200 bytes)

   Independence: nothing here is copied from the Go code.  The rho offsets and the round
   constants are *computed* from their FIPS 202 definitions (the (x,y) walk of algorithm 2, the
   LFSR rc(t) of algorithm 5) and only cached with [Eval vm_compute].  Anchors to published
   values are in Proofs/KeccakVectors.v (Keccak-f[1600] on the zero state, SHA3-256 of the empty
   string).  Definitions only. *)
From Hop Require Import Base.
Open Scope N_scope.

Definition lanes := list N.

Definition mask64 : N := 18446744073709551615.   (* 2^64 - 1 *)

(* ROT(v, n) on a 64-bit lane; every intermediate is reduced mod 2^64 (as a mask). *)
Definition rotl (v n : N) : N :=
  if n =? 0 then v
  else N.lor (N.land (N.shiftl v n) mask64) (N.shiftr v (64 - n)).

Definition lane (a : lanes) (i : nat) : N := nth i a 0.
Definition idx5 : list nat := seq 0 5.
Definition idx25 : list nat := seq 0 25.

(* ---- theta ---- *)
Definition theta_c (a : lanes) : list N :=
  map (fun x => N.lxor (lane a x) (N.lxor (lane a (x + 5)%nat) (N.lxor (lane a (x + 10)%nat)
               (N.lxor (lane a (x + 15)%nat) (lane a (x + 20)%nat))))) idx5.
Definition theta_d (c : list N) : list N :=
  map (fun x => N.lxor (lane c ((x + 4) mod 5)%nat) (rotl (lane c ((x + 1) mod 5)%nat) 1)) idx5.
Definition theta (a : lanes) : lanes :=
  let d := theta_d (theta_c a) in
  map (fun i => N.lxor (lane a i) (lane d (i mod 5)%nat)) idx25.

(* ---- rho: offsets from the walk (x,y) <- (y, 2x+3y), offset (t+1)(t+2)/2 ---- *)
Fixpoint upd {A} (i : nat) (v : A) (l : list A) : list A :=
  match l, i with
  | [], _ => []
  | _ :: r, O => v :: r
  | h :: r, S i' => h :: upd i' v r
  end.
Fixpoint rho_walk (steps : nat) (t : N) (x y : nat) (acc : list N) : list N :=
  match steps with
  | O => acc
  | S k => rho_walk k (t + 1) y ((2 * x + 3 * y) mod 5)%nat
                    (upd (x + 5 * y)%nat (((t + 1) * (t + 2) / 2) mod 64) acc)
  end.
Definition rho_offsets : list N :=
  Eval vm_compute in rho_walk 24 0 1%nat 0%nat (repeat 0 25).
Definition rho (a : lanes) : lanes :=
  map (fun i => rotl (lane a i) (nth i rho_offsets 0)) idx25.

(* ---- pi: A'[x,y] = A[(x+3y) mod 5, x] ---- *)
Definition pi_src : list nat :=
  Eval vm_compute in map (fun i => let x := (i mod 5)%nat in let y := (i / 5)%nat in
                                   (((x + 3 * y) mod 5) + 5 * x)%nat) idx25.
Definition pi (a : lanes) : lanes := map (fun s => lane a s) pi_src.

(* ---- chi: A'[x,y] = A[x,y] xor (not A[x+1,y] and A[x+2,y]) ---- *)
Definition chi_src : list (nat * nat) :=
  Eval vm_compute in map (fun i => let x := (i mod 5)%nat in let y := (i / 5)%nat in
                                   ((((x + 1) mod 5) + 5 * y)%nat, (((x + 2) mod 5) + 5 * y)%nat)) idx25.
Definition chi (a : lanes) : lanes :=
  map (fun p => N.lxor (lane a (fst p))
                  (N.land (N.lxor (lane a (fst (snd p))) mask64) (lane a (snd (snd p)))))
      (combine idx25 chi_src).

(* ---- iota: round constants from the LFSR rc(t) (x^8 + x^6 + x^5 + x^4 + 1) ---- *)
(* R is the 8-bit register R[0..7] as a list of bools; one step of algorithm 5, step 3 *)
Definition lfsr_step (r : list bool) : list bool :=
  match r with
  | [r0; r1; r2; r3; r4; r5; r6; r7] =>
      (* R = 0 || R; R[0]^=R[8]; R[4]^=R[8]; R[5]^=R[8]; R[6]^=R[8]; R = Trunc8(R) *)
      [r7; r0; r1; r2; xorb r3 r7; xorb r4 r7; xorb r5 r7; r6]
  | _ => r
  end.
Fixpoint iter {A} (n : nat) (f : A -> A) (x : A) : A :=
  match n with O => x | S k => iter k f (f x) end.
Definition rc_bit (t : nat) : bool :=
  match iter (t mod 255)%nat lfsr_step [true; false; false; false; false; false; false; false] with
  | b :: _ => b | [] => false end.
Definition round_constant (ir : nat) : N :=
  fold_left (fun acc j => if rc_bit (j + 7 * ir)%nat then N.lor acc (N.shiftl 1 (2 ^ N.of_nat j - 1)) else acc)
            (seq 0 7) 0.
Definition round_constants : list N := Eval vm_compute in map round_constant (seq 0 24).
Definition iota (ir : nat) (a : lanes) : lanes :=
  match a with
  | a0 :: r => N.lxor a0 (nth ir round_constants 0) :: r
  | [] => []
  end.

Definition keccak_round (ir : nat) (a : lanes) : lanes := iota ir (chi (pi (rho (theta a)))).

(* Keccak-p[1600, nr]: rounds ir = 24 - nr .. 23  (12 + 2l - nr .. 12 + 2l - 1 with l = 6) *)
Fixpoint rounds_from (n : nat) (ir : nat) (a : lanes) : lanes :=
  match n with
  | O => a
  | S k => rounds_from k (S ir) (keccak_round ir a)
  end.
Definition keccak_p (nr : nat) (a : lanes) : lanes := rounds_from nr (24 - nr) a.

(* ---- byte strings <-> lanes (little endian, byte i of the state is byte (i mod 8) of lane i/8) ----
   written with shifts and masks (Base.le_enc/le_dec divide, which is ~10x slower under vm_compute);
   KeccakProofs shows they agree with le_enc 8 / le_dec on well-formed data. *)
Definition lane_of_8 (b : bytes) : N :=
  fold_right (fun x acc => N.lor x (N.shiftl acc 8)) 0 (firstn 8 b).
Definition bytes_of_lane (v : N) : bytes :=
  let v1 := N.shiftr v 8 in let v2 := N.shiftr v1 8 in let v3 := N.shiftr v2 8 in
  let v4 := N.shiftr v3 8 in let v5 := N.shiftr v4 8 in let v6 := N.shiftr v5 8 in
  let v7 := N.shiftr v6 8 in
  [N.land v 255; N.land v1 255; N.land v2 255; N.land v3 255;
   N.land v4 255; N.land v5 255; N.land v6 255; N.land v7 255].
Fixpoint lanes_of_bytes_n (n : nat) (b : bytes) : lanes :=
  match n with
  | O => []
  | S k => lane_of_8 b :: lanes_of_bytes_n k (skipn 8 b)
  end.
Definition lanes_of_bytes (b : bytes) : lanes := lanes_of_bytes_n 25 b.
Definition bytes_of_lanes (a : lanes) : bytes := flat_map bytes_of_lane a.

Definition keccak_p_bytes (nr : nat) (b : bytes) : bytes :=
  bytes_of_lanes (keccak_p nr (lanes_of_bytes b)).
