package hsx

import (
	"crypto/rand"
	"encoding/binary"
	"fmt"
	"net"
	"time"

	"hop.computer/hop/keys"
	"hop.computer/hop/transport"
	"verifharness/hv"
)

// BuildHiddenRequest writes a hidden-mode request from the layout and schedule of
// handshake_spec.md with a real Cyclist, for any timestamp and any server KEM key.
func BuildHiddenRequest(serverKEM *keys.KEMPublicKey, cli *Ident, ts int64) []byte {
	req, _ := BuildHiddenRequestK(serverKEM, cli, ts)
	return req
}

// BuildHiddenRequestK also returns the client's view of a response ciphertext (decapsulation
// with the ephemeral KEM key of the request).
func BuildHiddenRequestK(serverKEM *keys.KEMPublicKey, cli *Ident, ts int64) ([]byte, func(ct []byte) []byte) {
	sh := &Shadow{Fps: [][]byte{nil}}
	sh.Reset()
	sh.Absorb([]byte(PQHiddenName))
	sh.Rekey(PQHiddenName)
	leaf, _ := cli.Leaf.Marshal()
	var inter []byte
	if cli.Inter != nil {
		inter, _ = cli.Inter.Marshal()
	}
	ecl := 4 + len(leaf) + len(inter)
	eph := must(keys.GenerateKEMKeyPair(rand.Reader))
	kpub, _ := eph.Public.MarshalBinary()
	ct, k, err := keys.Encapsulate(rand.Reader, serverKEM)
	if err != nil {
		panic(err)
	}
	hdr := []byte{8, 1, byte(ecl >> 8), byte(ecl)}
	sh.Absorb(hdr)
	sh.Absorb(kpub)
	sh.Absorb(k)
	ec := sh.Encrypt(vectors(leaf, inter))
	tag := sh.Squeeze(16)
	tb := make([]byte, 8)
	binary.BigEndian.PutUint64(tb, uint64(ts))
	ets := sh.Encrypt(tb)
	mac := sh.Squeeze(16)
	out := append([]byte(nil), hdr...)
	out = append(out, kpub...)
	out = append(out, ct...)
	out = append(out, ec...)
	out = append(out, tag...)
	out = append(out, ets...)
	return append(out, mac...), func(c []byte) []byte { k, _ := eph.Decapsulate(c); return k }
}

// C19Discoverable: client hellos never allocate state; a ClientAck is accepted only with a cookie
// minted under the current key for the same source address and client KEM key.
func (w *World) C19Discoverable(r *hv.Rand) {
	cv := w.P.Verify(PolStore, "", nil, false)
	ccfg := w.Cli.ClientConfig(w.P.Verify(PolStore, w.SrvName, nil, false))
	srv := NewSrv(SingleConfig(w.Srv, cv, false))
	q := NewSeq(srv, []*Ident{w.Srv}, false)
	del := func(from *net.UDPAddr, d []byte, what string) []Dgram { out, _ := q.Step(from, d, what, nil); return out }
	ok, sig, what := true, "", ""
	fail := func(s, m string) {
		if ok {
			ok, sig, what = false, s, m
		}
	}
	// --- hellos from many addresses (and many from one): tables stay empty
	n := hv.Scale(24, 400)
	var hello []byte
	for i := 0; i < n; i++ {
		hs, err := transport.VerifHsNewClientHS(&ccfg, srv.Addr, false)
		if err != nil {
			panic(err)
		}
		buf := make([]byte, 1000)
		m, _ := transport.VerifHsWritePQClientHello(hs, buf)
		hello = append([]byte(nil), buf[:m]...)
		a := Addr(fmt.Sprintf("10.1.%d.%d", i/250, i%250+1), 4000+i)
		if i%4 == 3 {
			a = Addr("10.1.9.9", 4999)
		}
		out, _ := q.Step(a, hello, "ClientHello", nil)
		if len(out) != 1 {
			fail("C19:honest-hello-unanswered", "a well-formed ClientHello got no ServerHello")
		}
		if h, s, p := srv.S.VerifHsTables(); h+s+p != 0 {
			fail("C19:client-hello-allocates-state", fmt.Sprintf("after %d ClientHellos the server tables hold %d handshakes, %d sessions, %d pending", i+1, h, s, p))
		}
	}
	q.Base(hello)
	for i := 0; i < 10; i++ { // the same hello again and again
		q.Step(Addr("10.1.9.9", 4999), hello, "ClientHello-repeat", nil)
	}
	if h, s, p := srv.S.VerifHsTables(); h+s+p != 0 {
		fail("C19:client-hello-allocates-state", "repeated ClientHellos allocated state")
	}
	// --- cookies presented from elsewhere
	type variant struct {
		name   string
		from   func(a *net.UDPAddr) *net.UDPAddr
		mutate func(w2 *WB) []byte
		rotate bool
		accept bool
	}
	other := must(keys.GenerateKEMKeyPair(rand.Reader))
	okpub, _ := other.Public.MarshalBinary()
	same := func(a *net.UDPAddr) *net.UDPAddr { return a }
	vs := []variant{
		{"another port", func(a *net.UDPAddr) *net.UDPAddr { return Addr(a.IP.String(), a.Port+1) }, nil, false, false},
		{"another ip", func(a *net.UDPAddr) *net.UDPAddr { return Addr("10.7.7.7", a.Port) }, nil, false, false},
		{"another ip and port", func(a *net.UDPAddr) *net.UDPAddr { return Addr("10.7.7.8", a.Port+7) }, nil, false, false},
		{"port differing only in the high byte", func(a *net.UDPAddr) *net.UDPAddr { return Addr(a.IP.String(), a.Port^0x100) }, nil, false, false},
		{"another client KEM key in the message", same, func(x *WB) []byte { m := append([]byte(nil), x.CAck...); copy(m[36:836], okpub); return m }, false, false},
		{"cookie of another handshake (other address)", same, nil, false, false},
		{"after cookie-key rotation", same, nil, true, false},
		{"unchanged (control)", same, nil, false, true},
	}
	for _, v := range vs {
		a := w.NextAddr()
		// run CH/SH white box without delivering the ClientAck
		x, err := newWBUntilAck(srv, del, ccfg, a)
		if err != nil {
			panic(err)
		}
		msg := x.CAck
		if v.mutate != nil {
			msg = v.mutate(x)
		}
		if v.name == "cookie of another handshake (other address)" {
			y, err := newWBUntilAck(srv, del, ccfg, w.NextAddr())
			if err != nil {
				panic(err)
			}
			msg = append([]byte(nil), x.CAck...)
			copy(msg[836:900], y.CAck[836:900])
		}
		if v.rotate {
			q.Rotate()
		}
		h0, s0, _ := srv.S.VerifHsTables()
		out, _ := q.Step(v.from(a), msg, "ClientAck["+v.name+"]", nil)
		h1, s1, _ := srv.S.VerifHsTables()
		accepted := len(out) > 0 || h1 != h0 || s1 != s0
		if accepted && !v.accept {
			fail("C19:client-ack-accepted-with-foreign-cookie", "a ClientAck whose cookie was minted for a different source/key or under an older key ("+v.name+") was answered or allocated state")
		}
		if !accepted && v.accept {
			fail("C19:honest-client-ack-rejected", "an unchanged ClientAck from the address the cookie was minted for was rejected")
		}
	}
	q.Emit("discoverable-hello-and-cookies", fmt.Sprintf("%d ClientHellos from many addresses, then cookies replayed from another port / ip / key / handshake / after rotation", n+10), ok, sig, what, true)
}

// newWBUntilAck: ClientHello delivered, ServerHello read, ClientAck written but NOT delivered.
func newWBUntilAck(srv *Srv, deliver Deliverer, cfg transport.ClientConfig, addr *net.UDPAddr) (*WB, error) {
	w := &WB{Srv: srv, Addr: addr, Cfg: cfg}
	hs, err := transport.VerifHsNewClientHS(&w.Cfg, srv.Addr, false)
	if err != nil {
		return nil, err
	}
	w.HS = hs
	buf := make([]byte, 65535)
	n, err := transport.VerifHsWritePQClientHello(hs, buf)
	if err != nil {
		return nil, err
	}
	w.CH = append([]byte(nil), buf[:n]...)
	if w.SH, err = one(deliver(addr, w.CH, "ClientHello"), "ClientHello"); err != nil {
		return nil, err
	}
	if _, err = transport.VerifHsReadPQServerHello(hs, w.SH); err != nil {
		return nil, err
	}
	hs.VerifHsRekey(PQName)
	if n, err = hs.VerifHsWritePQClientAck(buf); err != nil {
		return nil, err
	}
	w.CAck = append([]byte(nil), buf[:n]...)
	return w, nil
}

// C19Hidden: a hidden server is silent towards everything but a fresh well-formed request under
// one of its KEM keys.
func (w *World) C19Hidden(r *hv.Rand) {
	cv := w.P.Verify(PolStore, "", nil, false)
	// valid discoverable-mode messages, produced against a discoverable twin with the same identity
	twin := NewSrv(SingleConfig(w.Srv, cv, false))
	ccfg := w.Cli.ClientConfig(w.P.Verify(PolStore, w.SrvName, nil, false))
	tw, err := NewWB(twin, ccfg, w.NextAddr())
	if err != nil {
		panic(err)
	}
	if err := tw.Auth(); err != nil {
		panic(err)
	}
	for ci, cfg := range w.c10configs()[2:] {
		srv, ids := cfg.mk()
		q := NewSeq(srv, ids, true)
		ok, sig, what := true, "", ""
		fail := func(s, m string) {
			if ok {
				ok, sig, what = false, s, m
			}
		}
		silent := func(from *net.UDPAddr, d []byte, name string) {
			out, _ := q.Step(from, d, name, nil)
			if len(out) > 0 {
				fail("C19:hidden-server-answers-non-request", fmt.Sprintf("the hidden server sent %d datagram(s) in response to %s", len(out), name))
			}
		}
		for _, b := range [][]byte{tw.CH, tw.CAck, tw.CAuth} {
			q.Base(b)
		}
		a := w.NextAddr()
		silent(a, tw.CH, "a valid ClientHello")
		silent(a, tw.CAck, "a valid ClientAck")
		silent(a, tw.CAuth, "a valid ClientAuth")
		silent(a, tw.SH, "a ServerHello")
		silent(a, tw.SA, "a ServerAuth")
		for _, j := range garbage(r)[:40] {
			silent(a, j, "garbage")
		}
		now := time.Now().Unix()
		wrong := must(keys.GenerateKEMKeyPair(rand.Reader))
		silent(w.NextAddr(), BuildHiddenRequest(&wrong.Public, w.Cli, now), "a request under a KEM key that is not the server's")
		id := ids[len(ids)-1]
		for _, dt := range []int64{6, 7, 60, 3600, 1 << 33} {
			silent(w.NextAddr(), BuildHiddenRequest(&id.KEM.Public, w.Cli, time.Now().Unix()-dt), fmt.Sprintf("a stale request (timestamp %d s old)", dt))
		}
		for _, dt := range []int64{2, 60, 1 << 40} {
			silent(w.NextAddr(), BuildHiddenRequest(&id.KEM.Public, w.Cli, time.Now().Unix()+dt), fmt.Sprintf("a request from the future (+%d s)", dt))
		}
		silent(w.NextAddr(), BuildHiddenRequest(&id.KEM.Public, w.P.Untrusted("mallory"), time.Now().Unix()), "a well-formed request of a client the policy rejects")
		// fresh ones are answered (controls), inside the window
		for _, dt := range []int64{0, 1, 3} {
			req, dec := BuildHiddenRequestK(&id.KEM.Public, w.Cli, time.Now().Unix()-dt)
			out, _ := q.Step(w.NextAddr(), req, fmt.Sprintf("fresh request (%d s old)", dt), dec)
			if len(out) != 1 || len(out[0].Data) < 808 {
				fail("C19:fresh-hidden-request-unanswered", fmt.Sprintf("a fresh well-formed request (%d s old) was not answered", dt))
			}
			// mutated copies of an answered request
			for _, off := range []int{0, 1, 2, 3, 4, 803, 804, 1571, 1572, len(req) - 41, len(req) - 25, len(req) - 24, len(req) - 17, len(req) - 16, len(req) - 1} {
				x := append([]byte(nil), req...)
				x[off] ^= 0x40
				silent(w.NextAddr(), x, fmt.Sprintf("an answered request with byte %d changed", off))
			}
			silent(w.NextAddr(), req[:len(req)-1], "an answered request cut by one byte")
			silent(w.NextAddr(), append(append([]byte(nil), req...), 0), "an answered request extended by one byte")
		}
		q.Emit(fmt.Sprintf("hidden-silence/%s", cfg.name), "hidden server probed with valid discoverable messages, garbage, wrong-key / stale / future / policy-failing / mutated requests, and fresh requests as controls", ok, sig, what, true)
		_ = ci
	}
	// late replay: a request that was answered, presented again after the window
	srv := NewSrv(SingleConfig(w.Srv, cv, true))
	q := NewSeq(srv, []*Ident{w.Srv}, true)
	req, dec := BuildHiddenRequestK(&w.Srv.KEM.Public, w.Cli, time.Now().Unix())
	q.Base(req)
	out1, _ := q.Step(w.NextAddr(), req, "fresh request", dec)
	time.Sleep(time.Duration(hv.Scale(6200, 7500)) * time.Millisecond)
	out2, _ := q.Step(w.NextAddr(), req, "the same request replayed more than 5 s later", nil)
	ok, sig, what := true, "", ""
	if len(out1) != 1 {
		ok, sig, what = false, "C19:fresh-hidden-request-unanswered", "fresh request not answered"
	} else if len(out2) != 0 {
		ok, sig, what = false, "C19:hidden-server-answers-late-replay", "a request replayed after the timestamp window was answered"
	}
	q.Emit("hidden-late-replay", "an answered request replayed after the window", ok, sig, what, true)
}
