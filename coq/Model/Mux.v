(* Mux.v — model of the tube muxer's bookkeeping: tubes/muxer.go (maps of live tubes by (reliability, id),
   pickTubeID, Create*Tube / make*TubeWithID, the demultiplexing step of Muxer.receiver, reapTube) and the
   receiving entry points of the two tube kinds as far as demultiplexing can observe them:
   Reliable.receiveInitiatePkt / Reliable.receive (state gate + Model/Recv.v) and
   Unreliable.receiveInitiatePkt / receive (tubes/unreliable.go: one frame = one message), plus
   Unreliable.WriteMsgUDP's framing.  Definitions only.

   Ghost state: every tube instance carries an epoch number (fresh per make*TubeWithID call).  Nothing in the
   Go code or on the wire corresponds to it; it exists to state "a frame sent by one tube instance is only
   ever delivered to the peer instance it was sent to", which the code does not guarantee across id reuse. *)
From Hop Require Import Base Recv.
Open Scope N_scope.

Definition max_buffered_packets : N := 1000.     (* common.go maxBufferedPackets *)
Definition accept_queue_cap : nat := 128.        (* muxer.go newMuxer: tubeQueue = make(chan Tube, 128) *)
Definition mux_max_frame_data : N := 32768.      (* MaxFrameDataLength *)

(* a decoded frame (frame.go fromBytes) *)
Record mframe := {
  mf_id : N;                       (* tubeID byte *)
  mf_req : bool; mf_resp : bool; mf_rel : bool; mf_ack : bool; mf_fin : bool; mf_rtr : bool;
  mf_ackno : N;                    (* uint32; its top byte is what fromInitiateBytes reads as tubeType *)
  mf_no : N;                       (* frameNo uint32 *)
  mf_data : bytes
}.
(* Muxer.receiver re-encodes the frame and re-reads it as an initiate frame: tubeType = byte 4 *)
Definition mf_type (f : mframe) : N := (mf_ackno f / 16777216) mod 256.

(* projected life-cycle of a tube: 0 = created (waiting for the peer's initiate frame), 1 = open
   (initiated or any of the FIN-handshake states), 2 = closed *)
Inductive tstate := TCreated | TOpen | TClosed.
Definition tstate_code (s : tstate) : N := match s with TCreated => 0 | TOpen => 1 | TClosed => 2 end.

Record tube := {
  t_rel : bool;
  t_id : N;
  t_type : N;
  t_epoch : N;                     (* ghost *)
  t_state : tstate;
  t_recv : recv;                   (* reliable: receiver (Model/Recv.v) *)
  t_msgs : list bytes;             (* unreliable: recv queue, oldest first *)
  t_recv_closed : bool             (* unreliable: recv.Close() was called (FIN seen or tube closed) *)
}.

Record mux := {
  m_parity : N;                    (* idParity: 0 server, 1 client *)
  m_reliable : list tube;          (* reliableTubes; at most one tube per id *)
  m_unreliable : list tube;        (* unreliableTubes *)
  m_queue : list tube;             (* tubeQueue: tubes waiting for Accept, oldest first *)
  m_running : bool;                (* state == muxerRunning *)
  m_epoch : N                      (* ghost: next instance number *)
}.

Definition mux_new (server : bool) : mux :=
  {| m_parity := if server then 0 else 1; m_reliable := []; m_unreliable := []; m_queue := [];
     m_running := true; m_epoch := 0 |}.

Definition tubes_of (m : mux) (rel : bool) : list tube := if rel then m_reliable m else m_unreliable m.

Fixpoint find_tube (l : list tube) (id : N) : option tube :=
  match l with
  | [] => None
  | t :: r => if t_id t =? id then Some t else find_tube r id
  end.
Fixpoint remove_tube (l : list tube) (id : N) : list tube :=
  match l with
  | [] => []
  | t :: r => if t_id t =? id then remove_tube r id else t :: remove_tube r id
  end.
Fixpoint replace_tube (l : list tube) (t' : tube) : list tube :=
  match l with
  | [] => []
  | t :: r => if t_id t =? t_id t' then t' :: r else t :: replace_tube r t'
  end.

(* getTube *)
Definition get_tube (m : mux) (rel : bool) (id : N) : option tube := find_tube (tubes_of m rel) id.

Definition set_tubes (m : mux) (rel : bool) (l : list tube) : mux :=
  {| m_parity := m_parity m;
     m_reliable := if rel then l else m_reliable m;
     m_unreliable := if rel then m_unreliable m else l;
     m_queue := m_queue m; m_running := m_running m; m_epoch := m_epoch m |}.

(* pickTubeID: linear search from idParity in steps of 2 below 256; `fuel` iterations *)
Fixpoint pick_from (l : list tube) (guess : N) (fuel : nat) : option N :=
  match fuel with
  | O => None
  | S fuel' =>
      if 256 <=? guess then None
      else match find_tube l guess with
           | None => Some guess
           | Some _ => pick_from l (guess + 2) fuel'
           end
  end.
Definition pick_tube_id (m : mux) (rel : bool) : option N := pick_from (tubes_of m rel) (m_parity m) 128.

Definition queue_full (m : mux) : bool := (accept_queue_cap <=? List.length (m_queue m))%nat.

(* make{Reliable,Unreliable}TubeWithID: refuses when the muxer is not running, and refuses a remote request
   (req = false) when the Accept queue is full — BEFORE anything is registered (ErrAcceptQueueFull; the peer
   repeats its REQ); otherwise adds the tube to its map (addTube) and enqueues it for Accept when it answers a
   remote request *)
Definition new_tube (rel : bool) (id ty epoch : N) : tube :=
  {| t_rel := rel; t_id := id; t_type := ty; t_epoch := epoch; t_state := TCreated; t_recv := recv_new;
     t_msgs := []; t_recv_closed := false |}.
Definition make_tube (m : mux) (rel : bool) (ty id : N) (req : bool) : option (mux * tube) :=
  if negb (m_running m) then None
  else if negb req && queue_full m then None
  else
    let t := new_tube rel id ty (m_epoch m) in
    Some ({| m_parity := m_parity m;
             m_reliable := if rel then t :: remove_tube (m_reliable m) id else m_reliable m;
             m_unreliable := if rel then m_unreliable m else t :: remove_tube (m_unreliable m) id;
             m_queue := if req then m_queue m else m_queue m ++ [t];
             m_running := m_running m; m_epoch := m_epoch m + 1 |}, t).

(* Create{Reliable,Unreliable}Tube: Err = ErrOutOfTubes / ErrMuxerStopping *)
Definition create_tube (m : mux) (rel : bool) (ty : N) : res (mux * N) :=
  match pick_tube_id m rel with
  | None => Err
  | Some id => match make_tube m rel ty id true with
               | None => Err
               | Some (m', _) => Ok (m', id)
               end
  end.

(* ---- what a tube does with an initiate frame / an ordinary frame *)
Definition tube_with (t : tube) (st : tstate) (r : recv) (msgs : list bytes) (rc : bool) : tube :=
  {| t_rel := t_rel t; t_id := t_id t; t_type := t_type t; t_epoch := t_epoch t; t_state := st;
     t_recv := r; t_msgs := msgs; t_recv_closed := rc |}.

(* receiveInitiatePkt: created -> initiated (reliable: also recvWindow.ackNo = 1) *)
Definition tube_receive_initiate (t : tube) : tube :=
  match t_state t with
  | TCreated => tube_with t TOpen (if t_rel t then recv_initiated (t_recv t) else t_recv t) (t_msgs t) (t_recv_closed t)
  | _ => t
  end.

(* receive.  Reliable: refused in created/closed, else the receiver of Model/Recv.v processes the frame.
   Unreliable: refused when closed, else the payload is queued as one message unless the queue is full; a
   FIN closes the receive queue. *)
Definition tube_receive (t : tube) (f : mframe) : tube :=
  if t_rel t then
    match t_state t with
    | TOpen =>
        let '(r', _, _) := receive (t_recv t) {| f_no := mf_no f; f_data := mf_data f; f_ack := mf_ack f; f_fin := mf_fin f |} in
        tube_with t TOpen r' (t_msgs t) (t_recv_closed t)
    | _ => t
    end
  else
    match t_state t with
    | TClosed => t
    | st =>
        if len (map (fun _ => 0) (t_msgs t)) <? max_buffered_packets then
          tube_with t st (t_recv t) (t_msgs t ++ [mf_data f]) (t_recv_closed t || mf_fin f)
        else t
    end.

(* ---- one iteration of Muxer.receiver on a decoded frame *)
Definition demux (m : mux) (f : mframe) : mux :=
  let '(m1, ot) :=
    match get_tube m (mf_rel f) (mf_id f) with
    | Some t => (m, Some t)
    | None =>
        if mf_req f then
          match make_tube m (mf_rel f) (mf_type f) (mf_id f) false with
          | Some (m', t) => (m', Some t)
          | None => (m, None)
          end
        else (m, None)
    end in
  match ot with
  | None => m1
  | Some t =>
      let t' := if mf_req f || mf_resp f then tube_receive_initiate t else tube_receive t f in
      set_tubes m1 (mf_rel f) (replace_tube (tubes_of m1 (mf_rel f)) t')
  end.

(* Accept: pops the oldest queued tube *)
Definition accept (m : mux) : option (mux * tube) :=
  match m_queue m with
  | [] => None
  | t :: q => Some ({| m_parity := m_parity m; m_reliable := m_reliable m; m_unreliable := m_unreliable m;
                       m_queue := q; m_running := m_running m; m_epoch := m_epoch m |}, t)
  end.

(* the tube reaches its closed state (abstraction of the whole close handshake / forced close) *)
Definition close_tube (m : mux) (rel : bool) (id : N) : mux :=
  match get_tube m rel id with
  | None => m
  | Some t =>
      let t' := tube_with t TClosed (if rel then recv_close (t_recv t) else t_recv t) (t_msgs t) true in
      set_tubes m rel (replace_tube (tubes_of m rel) t')
  end.

(* reapTube: a closed tube is removed from its map (locally opened reliable tubes after a delay of 4 RTT) *)
Definition reap_tube (m : mux) (rel : bool) (id : N) : mux :=
  match get_tube m rel id with
  | Some t => match t_state t with
              | TClosed => set_tubes m rel (remove_tube (tubes_of m rel) id)
              | _ => m
              end
  | None => m
  end.

(* reading: reliable = everything buffered (receiver.read with a large buffer); unreliable = one message *)
Definition read_tube (m : mux) (rel : bool) (id : N) : mux * bytes :=
  match get_tube m rel id with
  | None => (m, [])
  | Some t =>
      if rel then
        match read (t_recv t) 1048576 with
        | Some (r', out, _) => (set_tubes m rel (replace_tube (tubes_of m rel) (tube_with t (t_state t) r' (t_msgs t) (t_recv_closed t))), out)
        | None => (m, [])
        end
      else
        match t_msgs t with
        | [] => (m, [])
        | x :: q =>
            match t_state t with
            | TCreated => (m, [])        (* ReadMsgUDP waits for the initiation *)
            | _ => (set_tubes m rel (replace_tube (tubes_of m rel) (tube_with t (t_state t) (t_recv t) q (t_recv_closed t))), x)
            end
        end
  end.

(* ------------------------------------------------------------------ histories *)
Inductive mop :=
| MCreate (rel : bool) (ty : N)
| MFrame (f : mframe)
| MAccept
| MClose (rel : bool) (id : N)
| MReap (rel : bool) (id : N)
| MRead (rel : bool) (id : N).

(* snapshot of the maps: (rel, id, type, state, bytes buffered / messages queued) per live tube *)
Definition tube_obs (t : tube) : list N :=
  [b2n (t_rel t); t_id t; t_type t; tstate_code (t_state t);
   if t_rel t then len (r_buf (t_recv t)) else len (map (fun _ => 0) (t_msgs t))].

(* insertion sort of the live tubes by id for a canonical snapshot *)
Fixpoint insert_by_id (t : tube) (l : list tube) : list tube :=
  match l with
  | [] => [t]
  | x :: r => if t_id t <=? t_id x then t :: l else x :: insert_by_id t r
  end.
Definition sort_by_id (l : list tube) : list tube := fold_right insert_by_id [] l.

Definition mux_obs (m : mux) : list N :=
  flat_map tube_obs (sort_by_id (m_reliable m)) ++ [77777] ++ flat_map tube_obs (sort_by_id (m_unreliable m))
  ++ [77777; len (map (fun _ => 0) (m_queue m))].

Definition mstep (m : mux) (o : mop) : mux * list N :=
  match o with
  | MCreate rel ty =>
      match create_tube m rel ty with
      | Ok (m', id) => (m', [0; id] ++ mux_obs m')
      | _ => (m, [1; 0] ++ mux_obs m)
      end
  | MFrame f => let m' := demux m f in (m', [0; 0] ++ mux_obs m')
  | MAccept =>
      match accept m with
      | Some (m', t) => (m', [0; b2n (t_rel t); t_id t; t_type t] ++ mux_obs m')
      | None => (m, [1; 0; 0; 0] ++ mux_obs m)
      end
  | MClose rel id => (close_tube m rel id, [])   (* the reaper runs asynchronously right after: nothing stable to observe *)
  | MReap rel id => let m' := reap_tube m rel id in (m', [0; 0] ++ mux_obs m')
  | MRead rel id => let '(m', out) := read_tube m rel id in (m', [0; len out] ++ out ++ mux_obs m')
  end.
Fixpoint mrun (m : mux) (ops : list mop) : mux * list (list N) :=
  match ops with
  | [] => (m, [])
  | o :: rest => let '(m1, ob) := mstep m o in let '(m2, obs) := mrun m1 rest in (m2, ob :: obs)
  end.

(* ------------------------------------------------------------------ unreliable tubes: framing *)
(* Unreliable.WriteMsgUDP: one frame per message; refused beyond MaxFrameDataLength.  The 16-bit truncation
   of len(b) for messages of 65536 bytes or more is repaired by group `wire` (C18); the model follows the
   repaired test `len(b) > MaxFrameDataLength`. *)
Definition unrel_frame (id no : N) (msg : bytes) : option mframe :=
  if mux_max_frame_data <? len msg then None
  else Some {| mf_id := id; mf_req := false; mf_resp := false; mf_rel := false; mf_ack := false;
               mf_fin := false; mf_rtr := false; mf_ackno := 0; mf_no := no mod two32; mf_data := msg |}.

(* ------------------------------------------------------------------ specification side: instances *)
(* the (ghost) instance that would handle frame f in state m *)
Definition handler_epoch (m : mux) (f : mframe) : option N :=
  match get_tube m (mf_rel f) (mf_id f) with Some t => Some (t_epoch t) | None => None end.

(* ------------------------------------------------------------------ where the receive path could panic *)
(* Muxer.receiver re-encodes a frame with frame.toBytes() (12 + len data bytes) and re-reads it with
   fromInitiateBytes whenever the addressed tube is unknown, or the frame is a REQ/RESP.  fromInitiateBytes
   slices b[10 : 10+dataLength] with the addition done in uint16; dataLength = len data (fromBytes).  A slice
   expression panics unless low <= high <= len(b). *)
Definition reencode_ok (f : mframe) : bool :=
  let dl := len (mf_data f) in
  let hi := (10 + dl) mod 65536 in
  (10 <=? hi) && (hi <=? 12 + dl).
Definition demux_res (m : mux) (f : mframe) : res mux :=
  let reads_initiate :=
    match get_tube m (mf_rel f) (mf_id f) with
    | None => true
    | Some _ => mf_req f || mf_resp f
    end in
  if reads_initiate && negb (reencode_ok f) then Panic else Ok (demux m f).
(* the largest payload fromBytes can hand over: the muxer reads into a 65535-byte buffer and (repaired) fromBytes
   refuses 12 + dataLength > len(b) *)
Definition max_wire_payload : N := 65523.

(* ------------------------------------------------------------------ the timing the id reuse relies on *)
(* reapTube keeps the id of a closed, LOCALLY opened reliable tube reserved for 4 * RTT (the opener's estimate)
   "while the remote peer is waiting in lastAck"; enterLastAckState gives up after 4 * RTT (the acceptor's own
   estimate).  Durations in nanoseconds.  ta = the moment the acceptor entered lastAck (it sent its FIN), tc = the
   moment the opener's tube reached closed (it received that FIN, so ta <= tc). *)
Definition reap_delay (rtt_opener : N) : N := 4 * rtt_opener.
Definition last_ack_duration (rtt_acceptor : N) : N := 4 * rtt_acceptor.
Definition predecessor_gone_at_reuse (ta tc rtt_acceptor rtt_opener : N) : Prop :=
  ta + last_ack_duration rtt_acceptor <= tc + reap_delay rtt_opener.
Definition mux_initial_rtt : N := 333000000.
Definition mux_min_rtt : N := 5000000.
